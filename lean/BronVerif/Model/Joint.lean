import BronVerif.Model.Util
import BronVerif.Model.Draws
/-!
# Which party's randomness a protocol message / joint value depends on (property C07)

Core-only executable model used by `Drive/C07.lean` and by `Props/C07.lean`.

A protocol is described by a table: per round, what the broadcast of a sender and the unicast from a
sender to a recipient are *functions of* (besides the fixed inputs: key material, session context,
message to sign) — the sender's own random stream, the streams of sender and recipient, everybody's
streams, or nothing.  From the table the model derives, for the experiment "only party `c`'s stream
is replaced", which messages and joint values change (`Dep.changes`) and which of these predictions
are *demanded by the property* (`expect`):

* a message of `c` that is randomised by `c`'s own stream MUST change;
* a joint value that is meant to be random (nonce point, public key, session id, zero shares) MUST
  change;
* the first message of another party MUST stay byte-identical (it was computed before that party
  received anything, so it cannot depend on `c`'s stream) — unless the library computes it with
  concurrent draws from the party's one reader (`ownSched`: Gennaro's round-1 batch-Okamoto proof is
  an AND-composition whose branch commitments are sampled in parallel goroutines, so the bytes
  depend on goroutine scheduling even for identical streams);
* everything else is the model's exact prediction, mirrored (a difference is a correspondence
  failure, not a property violation).

Per protocol the table also carries
* `need`: the consumption specification (see `Model/Draws.lean`) — per party and executed step which
  secrets are drawn, once and once per peer;
* `publicLeaves`: the long leaves (byte strings of ≥ 16 bytes) of a party's OWN messages that
  legitimately do not depend on its stream (public key shares, session identifiers, the previous MSP,
  the identity point heading the verification vector of a sharing of zero); every other long leaf of
  the changed party's messages must change with its stream;
* `sharedLeaves`: patterns of long unicast leaves that may coincide for two recipients (none so far:
  everything a party sends to one peer only is per-recipient secret material).
-/
namespace BronVerif.Joint
open BronVerif.Draws

/-- what a value is a function of -/
inductive Dep where
  | none      -- no stream at all (deterministic)
  | own       -- the sender's / owner's stream only
  | ownSched  -- the sender's stream only, but the bytes depend on goroutine scheduling
  | pair      -- the streams of sender and recipient
  | all       -- every party's stream
  | among (xs : List Nat)  -- the streams of the parties `xs` (the contributing parties)
  | ownMaybe (xs : List Nat)  -- the sender's stream, and possibly (depending on the recipient's MSP row) those of `xs`
  deriving DecidableEq, Repr

/-- does a value with dependency `d`, owned/sent by `s` (to `t`), change when only `c`'s stream does? -/
def Dep.changes (d : Dep) (s t c : Nat) : Bool :=
  match d with
  | .none => false
  | .own => s == c
  | .ownSched => s == c
  | .pair => s == c || t == c
  | .all => true
  | .among xs => xs.contains c
  | .ownMaybe xs => s == c || xs.contains c

/-- does the sender's own stream enter the value? -/
def Dep.usesOwn : Dep → Bool
  | .none => false
  | _ => true

/-- what the driver demands of one observed flag -/
inductive Exp where
  | mustChange | mustSame | change | same | free
  deriving DecidableEq, Repr

/-- who sends in a round -/
inductive Senders where
  | everyone            -- every party of the run
  | only (ids : List Nat)
  deriving Repr

structure Round where
  round : Nat
  senders : Senders := .everyone
  /-- recipients of the unicasts (default: every other party of the run) -/
  rcpts : Senders := .everyone
  bc : Option Dep := none
  uc : Option Dep := none
  deriving Repr

structure Slot where
  round : Nat
  from_ : Nat
  to : Nat        -- 0 = broadcast
  dep : Dep
  first : Bool    -- is this the sender's first sending round?
  deriving Repr

def Slot.name (s : Slot) : String := s!"{s.round}/{s.from_}/{s.to}"

def Senders.list (ids : List Nat) : Senders → List Nat
  | .everyone => ids
  | .only xs => ids.filter (xs.contains ·)

/-- first round in which `id` sends anything -/
def firstRound (ids : List Nat) (rounds : List Round) (id : Nat) : Nat :=
  match rounds.find? (fun r => (r.senders.list ids).contains id && (r.bc.isSome || r.uc.isSome)) with
  | some r => r.round
  | none => 0

/-- router order: by round, broadcasts before unicasts, then by sender and recipient -/
def Slot.le (a b : Slot) : Bool :=
  let ka := (a.round, if a.to == 0 then 0 else 1, a.from_, a.to)
  let kb := (b.round, if b.to == 0 then 0 else 1, b.from_, b.to)
  ka.1 < kb.1 || (ka.1 == kb.1 && (ka.2.1 < kb.2.1 || (ka.2.1 == kb.2.1 &&
    (ka.2.2.1 < kb.2.2.1 || (ka.2.2.1 == kb.2.2.1 && ka.2.2.2 ≤ kb.2.2.2)))))

/-- all message slots of a run, in router order: per round the broadcasts by sender, then the
    unicasts by sender and recipient (several table rows may describe the same round for different
    groups of senders) -/
def Slot.insert (x : Slot) : List Slot → List Slot
  | [] => [x]
  | y :: ys => if Slot.le x y then x :: y :: ys else y :: Slot.insert x ys

/-- stable insertion sort by `Slot.le` (structural, so that the kernel can evaluate it) -/
def Slot.sort (xs : List Slot) : List Slot := xs.foldr Slot.insert []

def slots (ids : List Nat) (rounds : List Round) : List Slot :=
  Slot.sort <| rounds.flatMap fun r =>
    let ss := r.senders.list ids
    let bcs := match r.bc with
      | some d => ss.map fun s => { round := r.round, from_ := s, to := 0, dep := d, first := firstRound ids rounds s == r.round : Slot }
      | none => []
    let ucs := match r.uc with
      | some d => ss.flatMap fun s => ((r.rcpts.list ids).filter (· != s)).map fun t =>
          { round := r.round, from_ := s, to := t, dep := d, first := firstRound ids rounds s == r.round : Slot }
      | none => []
    bcs ++ ucs

/-- the demand on a message slot when only `c`'s stream changed -/
def Slot.expect (s : Slot) (c : Nat) : Exp :=
  if s.from_ == c then
    (if s.dep.usesOwn then .mustChange else .same)
  else if s.first then
    (match s.dep with
     | .ownSched => .free
     | .ownMaybe xs => if xs.contains c then .free else .mustSame
     | d => if d.changes s.from_ s.to c then .change else .mustSame)
  else
    (match s.dep with
     | .ownSched => .free
     | .ownMaybe xs => if xs.contains c then .free else .same
     | d => if d.changes s.from_ s.to c then .change else .same)

/-- a joint output: name, owner (0 = nobody in particular), dependency, and whether the property
    names it as a value that is meant to be random -/
structure JointVal where
  name : String
  owner : Nat := 0
  dep : Dep
  random : Bool := true
  deriving Repr

def JointVal.expect (j : JointVal) (c : Nat) : Exp :=
  if j.dep.changes j.owner 0 c then (if j.random then .mustChange else .change) else .same

/-- one protocol configuration -/
structure Spec where
  rounds : List Round
  joint : List JointVal
  /-- expected draw pattern of every party with a stream: one character per executed step
      (constructor first): '0' no bytes, '1' bytes drawn, 'S' bytes drawn and the step samples a secret
      the property names (zero bytes there is a violation) -/
  reads : Nat → String
  /-- number of peers of party `id` (scales the per-peer part of `need`) -/
  peers : Nat → Nat := fun _ => 0
  /-- consumption specification of party `id`, one entry per executed step (constructor first);
      the first argument is the number of columns of the MSP that is dealt under -/
  need : Nat → Nat → List StepNeed := fun _ _ => []
  /-- long leaves `r<round>.<b|u>:<path>` of a party's own messages that do not depend on its stream;
      an entry ending in `*` is a prefix -/
  publicLeaves : List String := []
  /-- patterns `<path with # for indices>` of long unicast leaves that may repeat across recipients -/
  sharedLeaves : List String := []
  deriving Inhabited

/-! ## Building blocks of the consumption tables

Sizes follow the library: a uniformly random scalar of k256 / p256 / ed25519 is reduced from 48 bytes
(`wide`); commitment keys, witnesses and session contributions are 32 raw bytes. -/

/-- a uniformly random scalar: 48 bytes read, 32 bytes of entropy needed -/
def scalar (what : String) (count : Nat := 1) : Draw := { what, count, size := 48, min := 32 }
/-- a scalar that is read and then discarded / overwritten (no entropy demanded) -/
def wasted (what : String) (count : Nat := 1) : Draw := { what, count, size := 48, min := 0 }
/-- `n` raw random bytes -/
def rawBytes (what : String) (n : Nat) (count : Nat := 1) : Draw := { what, count, size := n, min := n }

/-- `kw.Scheme.Deal(secret)` under an MSP with `d` columns: a random column of `d` scalars whose first
    entry is then overwritten by the secret -/
def dealColumn (what : String) (d : Nat) : List Draw :=
  [scalar (what ++ ": random column") (d - 1), wasted (what ++ ": column[0], overwritten by the secret")]

/-- `DealRandom`: a random secret, then `Deal` -/
def dealRandom (what : String) (d : Nat) : List Draw := scalar (what ++ ": secret") :: dealColumn what d

/-- a sharing of zero under the unanimity structure over the party and its peers (`d = peers + 1`):
    one fresh coefficient per peer -/
def zeroSharing : StepNeed :=
  { once := [wasted "zero sharing: column[0], overwritten by zero"],
    perPeer := [scalar "zero sharing: coefficient for this peer"] }

def bitLenAux : Nat → Nat → Nat
  | 0, _ => 0
  | fuel + 1, x => if x == 0 then 0 else 1 + bitLenAux fuel (x / 2)

/-- `mathutils.CeilLog2` -/
def ceilLog2 (x : Nat) : Nat := bitLenAux x (x - 1)

/-- Canetti's `rhoLen = ⌈(128 + ⌈log₂ D⌉) / 8⌉` -/
def rhoLen (d : Nat) : Nat := (128 + ceilLog2 d + 7) / 8

/-! ## The protocols (tables follow the round functions of /repo) -/

def pairsOf (ids : List Nat) : List (Nat × Nat) :=
  ids.flatMap fun i => (ids.filter (i < ·)).map fun j => (i, j)

/-- session setup (pkg/mpc/session/participant.go): r1 broadcast (own commitment key, commitment to
    the own common contribution); r2 broadcast (opening of the common contribution), r2 unicast
    (commitment to the pairwise contribution under the RECIPIENT's key); r3 unicast (opening).
    sid = H(all keys, commitments, contributions); every pairwise seed absorbs the common seed. -/
def session (ids : List Nat) : Spec where
  rounds := [
    { round := 1, bc := some .own },
    { round := 2, bc := some .own, uc := some .pair },
    { round := 3, uc := some .own } ]
  joint := [{ name := "sid", dep := .all }] ++
    (pairsOf ids).map (fun (i, j) => { name := s!"seed.{i}.{j}", dep := .all }) ++
    ids.map (fun i => { name := s!"zero.{i}", dep := .all })
  reads := fun _ => "0SS00"
  peers := fun _ => ids.length - 1
  need := fun _ _ => [
    {},
    { once := [rawBytes "commitment key" 32, rawBytes "common contribution" 32,
               rawBytes "witness of the commitment to the common contribution" 32] },
    { perPeer := [rawBytes "pairwise contribution for this peer" 32,
                  rawBytes "witness of the commitment to it under this peer's key" 32] },
    {}, {} ]

def shareVals (ids : List Nat) : List JointVal := ids.map fun i => { name := s!"share.{i}", dep := .all }

/-- trusted dealer: no messages; one stream (party 0) -/
def dealer (holders : List Nat) : Spec where
  rounds := []
  joint := [{ name := "pk", dep := .all }] ++ shareVals holders
  reads := fun _ => "S"
  need := fun d _ => [{ once := dealRandom "key" d }]

/-- Gennaro DKG (pkg/mpc/dkg/gennaro/rounds.go): r1 broadcast = Pedersen vector + batch-Okamoto
    proof (AND-composition, branch commitments sampled concurrently ⇒ `ownSched`), r1 unicast =
    Pedersen share; r2 broadcast = Feldman vector + batch-Schnorr proof bound to the prover's own
    context. pk = Σ r⁽ⁱ⁾₀•g. -/
def gennaro (ids : List Nat) : Spec where
  rounds := [
    { round := 1, bc := some .ownSched, uc := some .own },
    { round := 2, bc := some .own } ]
  joint := [{ name := "pk", dep := .all }] ++ shareVals ids
  reads := fun _ => "0S10"
  peers := fun _ => ids.length - 1
  need := fun d _ => [
    {},
    -- Pedersen VSS: secret, Deal(secret), DealRandom(blinding); then one Okamoto commitment
    -- (two nonces) per column of the AND-composition
    { once := dealRandom "dealt secret" d ++ dealRandom "Pedersen blinding" d ++
              [scalar "batch-Okamoto nonces (two per column)" (2 * d)] },
    { once := [scalar "batch-Schnorr nonce"] },
    {} ]

/-- Canetti DKG: r1 broadcast = commitment; r2 broadcast = opening (vector, Schnorr commitment, rid
    contribution), r2 unicast = share; r3 broadcast = Schnorr response under the challenge bound to
    everybody's round-2 data. All sampling happens in round 1. -/
def canetti (ids : List Nat) : Spec where
  rounds := [
    { round := 1, bc := some .own },
    { round := 2, bc := some .own, uc := some .own },
    { round := 3, bc := some .all } ]
  joint := [{ name := "pk", dep := .all }] ++ shareVals ids
  reads := fun _ => "0S000"
  peers := fun _ => ids.length - 1
  need := fun d _ => [
    {},
    { once := dealRandom "dealt secret" d ++
              [rawBytes "rid contribution rho" (rhoLen d), scalar "batch-Schnorr nonce",
               rawBytes "witness of the round-1 commitment" 32] },
    {}, {}, {} ]
  -- the opened commitment message repeats the (public) session identifier
  publicLeaves := ["r2.b:/Message/SessionID"]

/-- HJKY zero sharing: r1 broadcast = Feldman vector of a sharing of zero, unicast = share.
    ζᵢ = Σⱼ share_{j→i}. -/
def hjky (ids : List Nat) : Spec where
  rounds := [{ round := 1, bc := some .own, uc := some .own }]
  joint := ids.map (fun i => { name := s!"zshare.{i}", dep := .all }) ++ [{ name := "zvv", dep := .all }]
  reads := fun _ => "0S0"
  peers := fun _ => ids.length - 1
  need := fun d _ => [{}, { once := dealColumn "sharing of zero" d }, {}]
  -- the verification vector of a sharing of zero starts with the identity (the commitment to 0)
  publicLeaves := ["r1.b:/verificationVector/verification_vector/data/0/compressedBytes"]

/-- Redistribution (pkg/mpc/redistribute): r1 = HJKY zero sharing among the previous holders;
    r2 = every previous holder re-shares (its additive share + zero share) under the next
    structure: broadcast vector + unicast sub-shares to the next holders.  The key does not change.
    `secretInEveryRow`: every row of the next MSP involves the secret column (threshold structures:
    Vandermonde rows); otherwise (unanimity, CNF, formulas, hierarchies: unit-vector-like rows) a
    sub-share may be a fresh coefficient alone, independent of the re-shared value and hence of the
    other previous holders' streams. -/
def redistribute (prev next : List Nat) (secretInEveryRow : Bool := true) : Spec where
  rounds :=
    let newcomers := next.filter (!prev.contains ·)
    [ { round := 1, senders := .only prev, rcpts := .only prev, bc := some .own, uc := some .own },
      { round := 1, senders := .only newcomers, bc := some .none },   -- newcomers contribute nothing
      { round := 2, senders := .only prev, rcpts := .only next, bc := some (.among prev),
        uc := some (if secretInEveryRow then .among prev else .ownMaybe prev) },
      { round := 2, senders := .only newcomers, bc := some .none } ]
  joint := [{ name := "pk", dep := .none, random := false }] ++
    next.map (fun i => { name := s!"share.{i}", dep := .among prev })
  reads := fun id => if prev.contains id then "0SS0" else "0000"
  peers := fun id => if prev.contains id then prev.length - 1 else 0
  need := fun d id =>
    if prev.contains id then
      [{}, zeroSharing, { once := dealColumn "re-sharing of the additive share" d }, {}]
    else [{}, {}, {}, {}]
  -- round 2 repeats public data of the previous epoch; both zero vectors start with the identity
  publicLeaves := ["r1.b:/ZeroR1/verificationVector/verification_vector/data/0/compressedBytes",
                   "r2.b:/ZeroVerificationVector/verification_vector/data/0/compressedBytes",
                   "r2.b:/PrevMSP/*", "r2.b:/PrevVerificationVector/*"]

/-- Lindell22 threshold Schnorr: r1 broadcast = commitment to Rᵢ = kᵢ•g, r1 unicast = zero-sharing
    sub-share; r2 broadcast = opening of Rᵢ with a proof of knowledge bound to the transcript
    (which by then contains everybody's commitments). R = Σ Rᵢ. -/
def lindell22 (ids : List Nat) (ctorReads : Bool) : Spec where
  rounds := [
    { round := 1, bc := some .own, uc := some .own },
    { round := 2, bc := some .all } ]
  joint := ids.map (fun i => { name := s!"R.{i}", owner := i, dep := .own }) ++
    [{ name := "R", dep := .all }, { name := "s", dep := .all }]
  reads := fun _ => if ctorReads then "1S10" else "0S10"
  peers := fun _ => ids.length - 1
  need := fun _ _ => [
    -- BIP-340: the scheme object handed to the cosigner samples 32 bytes of auxiliary randomness
    -- that threshold signing never uses
    { once := if ctorReads then [{ what := "BIP-340 aux (unused)", count := 1, size := 32, min := 0 }] else [] },
    { once := scalar "nonce share k" :: rawBytes "witness of the commitment to R_i" 32 :: zeroSharing.once,
      perPeer := zeroSharing.perPeer },
    { once := [scalar "Schnorr proof-of-knowledge nonce"] },
    {} ]
  publicLeaves := ["r1.b:/zeroR1/verificationVector/verification_vector/data/0/compressedBytes"]

/-- DKLs23 with the base-OT multiplication (signing_bbot): r1 broadcast = commitment to Rᵢ,
    r1 unicast = first OT message to every other cosigner; r2 broadcast = opening (Rᵢ),
    r2 unicast = OT response (sender's and recipient's randomness); r3 broadcast = public-key share
    (deterministic), r3 unicast = multiplication message. -/
def dkls23Bbot (ids : List Nat) : Spec where
  rounds := [
    { round := 1, bc := some .own, uc := some .own },
    { round := 2, bc := some .own, uc := some .pair },
    { round := 3, bc := some .none, uc := some .pair } ]
  joint := ids.map (fun i => { name := s!"R.{i}", owner := i, dep := .own }) ++
    [{ name := "r", dep := .all }, { name := "s", dep := .all }]
  reads := fun _ => "0S110"
  peers := fun _ => ids.length - 1
  need := fun _ _ => [
    {},
    { once := [scalar "nonce share r", scalar "mask phi", rawBytes "witness of the commitment to R_i" 32],
      perPeer := [scalar "base-OT sender key a"] },
    -- Bob of the multiplication with every peer: xi = 416 choice bits, then per OT and per batch
    -- element (L = 4) a key-agreement scalar and a random POPF point (two field draws)
    { perPeer := [rawBytes "multiplication choice bits beta (xi/8)" 52,
                  scalar "OT receiver key b (xi*L)" 1664,
                  { what := "POPF random point, two field draws each (xi*L)", count := 3328, size := 48, min := 16 }] },
    { perPeer := [scalar "multiplication check values a-hat" 2] },
    {} ]
  -- the public-key share is a function of the key share only
  publicLeaves := ["r3.b:/pk/compressedBytes"]

/-- DKLs23 with SoftSpoken OT extension (signing_softspoken): rounds 1–2 are the pairwise base OTs;
    the nonce and its commitment are sampled in round 3. -/
def dkls23Softspoken (ids : List Nat) : Spec where
  rounds := [
    { round := 1, uc := some .own },
    { round := 2, uc := some .pair },
    { round := 3, bc := some .own, uc := some .pair },
    { round := 4, bc := some .own, uc := some .pair } ]
  joint := ids.map (fun i => { name := s!"R.{i}", owner := i, dep := .own }) ++
    [{ name := "r", dep := .all }, { name := "s", dep := .all }]
  reads := fun _ => "011S10"
  peers := fun _ => ids.length - 1
  need := fun _ _ => [
    {},
    { perPeer := [scalar "base-OT sender key a"] },
    -- kappa = 128 base OTs per peer
    { perPeer := [rawBytes "base-OT choice bits (kappa/8)" 16,
                  scalar "OT receiver key b (kappa)" 128,
                  { what := "POPF random point, two field draws each (kappa)", count := 256, size := 48, min := 16 }] },
    { once := [scalar "nonce share r", scalar "mask phi", rawBytes "witness of the commitment to R_i" 32],
      perPeer := [rawBytes "multiplication choice bits beta (xi/8)" 64,
                  rawBytes "OT-extension consistency bits sigma" 16] },
    { perPeer := [scalar "multiplication check values a-hat" 2] },
    {} ]
  publicLeaves := ["r4.b:/pk/compressedBytes"]

/-- Boldyreva threshold BLS: deterministic, no stream. -/
def boldyreva : Spec where
  rounds := []
  joint := [{ name := "sig", dep := .none, random := false }]
  reads := fun _ => ""

/-- Lindell17 two-party ECDSA: alternating unicasts primary → secondary → ….
    r1 (primary): commitment to R₁; r2 (secondary): R₂ + non-interactive proof under its own prover
    context; r3 (primary): opening + proof; r4 (secondary): Paillier ciphertext c₃ computed from R₁,
    k₂ and fresh masks / encryption nonces. -/
def lindell17 (primary secondary : Nat) : Spec where
  rounds := [
    { round := 1, senders := .only [primary], rcpts := .only [secondary], uc := some .own },
    { round := 2, senders := .only [secondary], rcpts := .only [primary], uc := some .own },
    { round := 3, senders := .only [primary], rcpts := .only [secondary], uc := some .own },
    { round := 4, senders := .only [secondary], rcpts := .only [primary], uc := some .pair } ]
  joint := [{ name := "r", dep := .all }, { name := "s", dep := .all }]
  reads := fun id => if id == primary then "0S00" else "0SS"
  peers := fun _ => 1
  need := fun _ id =>
    if id == primary then
      -- steps of the primary: constructor, rounds 1, 3, 5
      [{}, { once := [scalar "nonce share k1", scalar "Fischlin commitment nonces (rho = 16)" 16,
                      rawBytes "witness of the commitment to R_1" 32] }, {}, {}]
    else
      -- steps of the secondary: constructor, rounds 2, 4
      [{}, { once := [scalar "nonce share k2", scalar "Fischlin commitment nonces (rho = 16)" 16] },
       { once := [rawBytes "mask rho in Z_(q^2)" 64,
                  { what := "Paillier encryption nonce below the 3072-bit modulus (rejection sampling)",
                    count := 1, size := 384, min := 384, lower := true }] }]
  -- the ciphertext encoding repeats the public Paillier moduli
  publicLeaves := ["r4.u:/c3/c/arithmetic/*", "r4.u:/c3/c/n/*", "r4.u:/c3/c/v/modulus/*"]

/-- the numeric tokens of a text in which `,` `|` `(` `)` separate -/
def numTokens (s : String) : List Nat :=
  ((s.map fun c => if c == '|' || c == '(' || c == ')' then ',' else c).splitOn ",").filterMap String.toNat?

/-- the holders named by an access-structure spec of the harness (`th:<t>:<ids>`, `un:<ids>`,
    `cnf:<ids>|<ids>|…`, `hier:<t>:<ids>|<t>:<ids>|…`, `bool:<expr>`), without repetitions -/
def specIds (s : String) : List Nat :=
  let ids := match s.splitOn ":" with
    | "th" :: _ :: rest => numTokens (":".intercalate rest)
    | "hier" :: rest =>
      ((":".intercalate rest).splitOn "|").flatMap fun (level : String) =>
        match level.splitOn ":" with
        | [_, xs] => numTokens xs
        | _ => []
    | _ :: rest => numTokens (":".intercalate rest)   -- un / cnf / bool (a gate name like th2 is not numeric)
    | [] => []
  ids.eraseDups

/-- structures whose MSP gives several holders the SAME row (replicated pieces: CNF, the `or` gates
    of a formula): there, and only there, the shares of two recipients may coincide -/
def replicatedRows (spec : String) : Bool := spec.startsWith "cnf:" || spec.startsWith "bool:"

/-- look a protocol up by the name and configuration token of the harness line -/
def lookup (name cfg : String) (ids : List Nat) : Option Spec :=
  let parts := cfg.splitOn ";"
  let shared (sp : Spec) (which : Nat) (pats : List String) : Spec :=
    if replicatedRows (parts.getD which "") then { sp with sharedLeaves := pats } else sp
  match name with
  | "session" => some (session ids)
  | "dealer" => some (dealer (specIds (parts.getD 1 "")))
  | "gennaro" => some (shared (gennaro ids) 1 ["/share/blinding/#/r/fieldBytes", "/share/secret/#/m/fieldBytes"])
  | "canetti" => some (shared (canetti ids) 1 ["/Share/value/#/fieldBytes"])
  | "hjky" => some (shared (hjky ids) 1 ["/zeroShare/value/#/fieldBytes"])
  | "redistribute" =>
    some (shared (redistribute (specIds (parts.getD 1 "")) (specIds (parts.getD 2 "")) ((parts.getD 2 "").startsWith "th:")) 2
      ["/NextShareContribution/value/#/fieldBytes"])
  | "lindell22-vanilla" => some (lindell22 ids false)
  | "lindell22-bip340" => some (lindell22 ids true)
  | "dkls23-bbot" => some (dkls23Bbot ids)
  | "dkls23-softspoken" => some (dkls23Softspoken ids)
  | "boldyreva-short" => some boldyreva
  | "lindell17" =>
    match (parts.getD 2 "").splitOn "=" with
    | ["primary", p] =>
      match p.toNat? with
      | some p => some (lindell17 p ((ids.filter (· != p)).headD 0))
      | none => none
    | _ => none
  | _ => none

/-- every table known to the model, on a sample party set (used by the structural theorems) -/
def allSpecs (ids : List Nat) : List Spec :=
  [session ids, dealer ids, gennaro ids, canetti ids, hjky ids, redistribute ids ids, redistribute ids ids false,
   lindell22 ids false, lindell22 ids true, dkls23Bbot ids, dkls23Softspoken ids, boldyreva,
   lindell17 (ids.headD 1) (ids.getLastD 2)]

end BronVerif.Joint
