/-!
# Oblivious transfer: packed bits, correlation predicate, SoftSpoken extension algebra (core-only)

* packed-bit helpers of `pkg/ot/bits.go` (`Pack`, `Unpack`, `Repeat`, `TransposePackedBits`);
* `correlated`: the output relation of every OT of the library
  (`recv[i] = send[i][choiceᵢ]`, `send[i][0] ≠ send[i][1]`);
* SoftSpoken (`pkg/ot/extension/softspoken/rounds.go`): the receiver's masked rows
  `uᵢ = t⁰ᵢ ⊕ t¹ᵢ ⊕ x'`, the sender's rows `qᵢ = tbᵢ ⊕ Δᵢ·uᵢ`, and the consistency check
  `q̇ᵢ = ṫᵢ + Δᵢ·ẋ` where `v̇ = v_m + Σ_k χ_k·v_k` over 128-bit blocks (`computeResponse`,
  `verifyChallenge`), generic in the block field `K`.
Theorems: `Props/C09.lean`.
-/
namespace BronVerif.OT

/-! ## packed bits (`pkg/ot/bits.go`): bit `i` of a vector is bit `i % 8` of byte `i / 8` -/

def byteBits (b : Nat) : List Bool := (List.range 8).map fun i => b.testBit i

def unpack (bytes : List Nat) : List Bool := bytes.flatMap byteBits

def packByte : List Bool → Nat
  | [] => 0
  | b :: bs => (if b then 1 else 0) + 2 * packByte bs

/-- pack bits into bytes (last byte zero-padded), structural on fuel -/
def packAux : Nat → List Bool → List Nat
  | 0, _ => []
  | fuel + 1, bs => if bs.isEmpty then [] else packByte (bs.take 8) :: packAux fuel (bs.drop 8)

def pack (bs : List Bool) : List Nat := packAux (bs.length + 1) bs

/-- `PackedBits.Repeat`: every bit repeated `n` times in place -/
def repeatBits (bs : List Bool) (n : Nat) : List Bool := bs.flatMap fun b => List.replicate n b

/-- column `j` of a bit matrix given by rows -/
def col (j : Nat) (rows : List (List Bool)) : List Bool := rows.map fun r => r.getD j false

/-- `TransposePackedBits` on unpacked rows -/
def transpose (rows : List (List Bool)) (ncols : Nat) : List (List Bool) :=
  (List.range ncols).map fun j => col j rows

def xorRow (a b : List Bool) : List Bool := List.zipWith (fun x y => x ^^ y) a b

/-- `d · x` for a bit `d` and a bit vector `x` -/
def andRow (d : Bool) (x : List Bool) : List Bool := x.map fun b => d && b

/-! ## the OT output relation -/

/-- `recv[i] = (if cᵢ then s1[i] else s0[i])` and `s0[i] ≠ s1[i]` for every instance; all four
lists of equal length -/
def correlated {α} [DecidableEq α] : List α → List α → List α → List Bool → Bool
  | [], [], [], [] => true
  | a :: s0, b :: s1, r :: recv, c :: cs =>
    decide (r = if c then b else a) && decide (a ≠ b) && correlated s0 s1 recv cs
  | _, _, _, _ => false

/-! ## SoftSpoken rows (bit level) -/

/-- receiver, step 1.4: `u = t⁰ ⊕ t¹ ⊕ x'` -/
def receiverU (t0 t1 x' : List Bool) : List Bool := xorRow (xorRow t0 t1) x'

/-- sender, step 2.2: `q = tb ⊕ Δ·u` -/
def senderQ (d : Bool) (tb u : List Bool) : List Bool := if d then xorRow u tb else tb

/-! ## SoftSpoken consistency check (block level, generic field `K`) -/

section Check
variable {K : Type} [Add K] [Mul K] [OfNat K 0]

/-- `v̇ = v_m + Σ_{k<m} v_k·χ_k` for a row of `m+1` blocks and `m` challenge blocks -/
def lin : List K → List K → K
  | c :: cs, b :: bs => b * c + lin cs bs
  | [], b :: _ => b
  | _, [] => 0

def bsel (d : Bool) (x : K) : K := if d then x else 0

/-- sender's test for seed `i`: `q̇ᵢ = ṫᵢ + Δᵢ·ẋ` -/
def ssVerifyRow [DecidableEq K] (chi : List K) (d : Bool) (q : List K) (X t : K) : Bool :=
  decide (lin chi q = t + bsel d X)

def ssVerify [DecidableEq K] (chi : List K) (X : K) : List Bool → List (List K) → List K → Bool
  | [], [], [] => true
  | d :: ds, q :: qs, t :: ts => ssVerifyRow chi d q X t && ssVerify chi X ds qs ts
  | _, _, _ => false

end Check

end BronVerif.OT
