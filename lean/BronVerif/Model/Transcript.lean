import BronVerif.Model.Hash.Keccak
/-!
Executable, core-only model of the hagrid transcript (`/repo/pkg/transcripts/hagrid/hagrid.go`) as pure
data.

* An operation (`Op`) is framed as a tag byte followed by 64-bit big-endian lengths (label, message count,
  each message, requested output length) and the raw bytes; the live sponge absorbs `continued` after an
  extraction while the forked sponge that produces the output absorbs `extracted`.
* The state of a transcript is its protocol name (cSHAKE customisation) and the list of bytes absorbed so
  far; `State.absorbed = frame history` (`Props/C19`).
* `parse` inverts `frame`; all theorems about unambiguity are proved about these very definitions.
* The output of an extraction is `H name (absorbed ++ frameOp (.extracted label n)) n`; the driver
  instantiates `H` with `cshakeH` (cSHAKE256 with `N = ""`, `S = "BRON_CRYPTO_HAGRID_TRANSCRIPT-" ++ name`)
  and so predicts every extracted byte string exactly; theorems take `H` abstractly.
-/
namespace BronVerif.Transcript

abbrev Bytes := List UInt8

/-! ### constants (transcribed from hagrid.go; `Props/C19` ties them to the generated `Gen/Hagrid.lean`) -/

/- NB: in hagrid.go the tags are declared as `iota + 0xa0` in a const block whose first entry (index 0) is
`customizedShakeName`, so the first tag has `iota = 1`. -/
def domainTag : UInt8 := 0xa1
def appendTag : UInt8 := 0xa2
def extractTag : UInt8 := 0xa3
def extractedTag : UInt8 := 0xa4
def continuedTag : UInt8 := 0xa5

def customizedShakeName : String := "BRON_CRYPTO_HAGRID_TRANSCRIPT-"

/-! ### framing -/

/-- 64-bit big-endian encoding of `n` (`binary.BigEndian.AppendUint64`); faithful for `n < 2^64` -/
def be64 (n : Nat) : Bytes :=
  [UInt8.ofNat (n / 2 ^ 56), UInt8.ofNat (n / 2 ^ 48), UInt8.ofNat (n / 2 ^ 40), UInt8.ofNat (n / 2 ^ 32),
   UInt8.ofNat (n / 2 ^ 24), UInt8.ofNat (n / 2 ^ 16), UInt8.ofNat (n / 2 ^ 8), UInt8.ofNat n]

/-- one labelled operation on a transcript -/
inductive Op where
  /-- `AppendDomainSeparator(tag)` -/
  | domSep (tag : Bytes)
  /-- `AppendBytes(label, msgs…)` -/
  | append (label : Bytes) (msgs : List Bytes)
  /-- what `ExtractBytes(label, outLen)` leaves in the live transcript (… ‖ `continued`) -/
  | extract (label : Bytes) (outLen : Nat)
  /-- what `ExtractBytes(label, outLen)` feeds to the forked sponge that is then squeezed (… ‖ `extracted`);
  never part of a live history -/
  | extracted (label : Bytes) (outLen : Nat)
  deriving DecidableEq, Repr

def frameMsgs : List Bytes → Bytes
  | [] => []
  | m :: ms => be64 m.length ++ (m ++ frameMsgs ms)

def frameOp : Op → Bytes
  | .domSep tag => domainTag :: (be64 tag.length ++ tag)
  | .append label msgs => appendTag :: (be64 label.length ++ (label ++ (be64 msgs.length ++ frameMsgs msgs)))
  | .extract label n => extractTag :: (be64 label.length ++ (label ++ (be64 n ++ [continuedTag])))
  | .extracted label n => extractTag :: (be64 label.length ++ (label ++ (be64 n ++ [extractedTag])))

/-- the bytes absorbed by a transcript that performed `ops` -/
def frame : List Op → Bytes
  | [] => []
  | op :: ops => frameOp op ++ frame ops

/-- the guard under which the 64-bit length fields are faithful (always true for Go slices/strings) -/
def Op.ok : Op → Prop
  | .domSep tag => tag.length < 2 ^ 64
  | .append label msgs => label.length < 2 ^ 64 ∧ msgs.length < 2 ^ 64 ∧ ∀ m ∈ msgs, m.length < 2 ^ 64
  | .extract label n => label.length < 2 ^ 64 ∧ n < 2 ^ 64
  | .extracted label n => label.length < 2 ^ 64 ∧ n < 2 ^ 64

/-- a live history contains no `extracted` marker -/
def Op.live : Op → Bool
  | .extracted _ _ => false
  | _ => true

/-! ### parsing -/

def readBe64 : Bytes → Option (Nat × Bytes)
  | b0 :: b1 :: b2 :: b3 :: b4 :: b5 :: b6 :: b7 :: rest =>
    some (b0.toNat * 2 ^ 56 + b1.toNat * 2 ^ 48 + b2.toNat * 2 ^ 40 + b3.toNat * 2 ^ 32
          + b4.toNat * 2 ^ 24 + b5.toNat * 2 ^ 16 + b6.toNat * 2 ^ 8 + b7.toNat, rest)
  | _ => none

def takeN (n : Nat) (bs : Bytes) : Option (Bytes × Bytes) :=
  if n ≤ bs.length then some (bs.take n, bs.drop n) else none

/-- a length-prefixed byte string -/
def readLP (bs : Bytes) : Option (Bytes × Bytes) :=
  (readBe64 bs).bind fun p => takeN p.1 p.2

def readMsgs : Nat → Bytes → Option (List Bytes × Bytes)
  | 0, bs => some ([], bs)
  | k + 1, bs =>
    (readLP bs).bind fun p => (readMsgs k p.2).bind fun q => some (p.1 :: q.1, q.2)

def parseDomSep (bs : Bytes) : Option (Op × Bytes) :=
  (readLP bs).bind fun p => some (.domSep p.1, p.2)

def parseAppend (bs : Bytes) : Option (Op × Bytes) :=
  (readLP bs).bind fun p => (readBe64 p.2).bind fun q => (readMsgs q.1 q.2).bind fun w =>
    some (.append p.1 w.1, w.2)

/-- the byte after the requested length tells the live stream (`continued`) from the squeezed fork (`extracted`) -/
def parseFork (label : Bytes) (n : Nat) : Bytes → Option (Op × Bytes)
  | [] => none
  | c :: r =>
    if c = continuedTag then some (.extract label n, r)
    else if c = extractedTag then some (.extracted label n, r)
    else none

def parseExtract (bs : Bytes) : Option (Op × Bytes) :=
  (readLP bs).bind fun p => (readBe64 p.2).bind fun q => parseFork p.1 q.1 q.2

/-- decode one framed operation from the front of `bs` -/
def parseOne : Bytes → Option (Op × Bytes)
  | [] => none
  | t :: bs =>
    if t = domainTag then parseDomSep bs
    else if t = appendTag then parseAppend bs
    else if t = extractTag then parseExtract bs
    else none

def parseAux : Nat → Bytes → Option (List Op)
  | 0, bs => if bs.isEmpty then some [] else none
  | f + 1, bs =>
    if bs.isEmpty then some [] else
    (parseOne bs).bind fun p => (parseAux f p.2).bind fun ops => some (p.1 :: ops)

/-- decode a whole absorbed stream (every operation consumes at least one byte, so `|bs|` is enough fuel) -/
def parse (bs : Bytes) : Option (List Op) := parseAux bs.length bs

/-! ### transcripts -/

/-- A transcript: the protocol name it was created with and every byte absorbed so far. -/
structure State where
  name : Bytes
  absorbed : Bytes
  deriving DecidableEq, Repr

/-- `NewTranscript(name)` -/
def State.new (name : Bytes) : State := ⟨name, []⟩

/-- absorb one framed operation -/
def State.absorb (s : State) (op : Op) : State := { s with absorbed := s.absorbed ++ frameOp op }

def State.appendDomainSeparator (s : State) (tag : Bytes) : State := s.absorb (.domSep tag)
def State.appendBytes (s : State) (label : Bytes) (msgs : List Bytes) : State := s.absorb (.append label msgs)

/-- the exact byte string that is hashed (after the cSHAKE customisation block) to produce an extraction -/
def extractInput (absorbed label : Bytes) (n : Nat) : Bytes := absorbed ++ frameOp (.extracted label n)

/-- `ExtractBytes(label, n)`: `none` (state untouched) for `n = 0`; otherwise the output is squeezed from a
fork that absorbed `…‖extracted` while the live state absorbs `…‖continued`.
`H name input n` abstracts cSHAKE256 with customisation derived from `name`. -/
def State.extract (H : Bytes → Bytes → Nat → Bytes) (s : State) (label : Bytes) (n : Nat) : Option Bytes × State :=
  if n = 0 then (none, s)
  else (some (H s.name (extractInput s.absorbed label n) n), s.absorb (.extract label n))

/-- `Clone()` -/
def State.clone (s : State) : State := s

/-- the concrete hash: cSHAKE256(N = "", S = "BRON_CRYPTO_HAGRID_TRANSCRIPT-" ‖ name) -/
def cshakeH (name input : Bytes) (n : Nat) : Bytes :=
  (Hash.cshake256 ByteArray.empty (customizedShakeName.toUTF8 ++ ByteArray.mk name.toArray)
    (ByteArray.mk input.toArray) n).toList

/-! ### a machine with several transcripts (handles are indices; `clone` creates a new handle) -/

inductive Cmd where
  | new (name : Bytes)
  | domSep (i : Nat) (tag : Bytes)
  | append (i : Nat) (label : Bytes) (msgs : List Bytes)
  | extract (i : Nat) (label : Bytes) (n : Nat)
  | clone (i : Nat)
  deriving DecidableEq, Repr

/-- the transcripts alive in a run, by handle -/
abbrev Machine := List State

/-- one observable result: an extraction's output (`none` = error) -/
abbrev Event := Option Bytes

def modifyAt (m : Machine) (i : Nat) (f : State → State) : Machine :=
  match m, i with
  | [], _ => []
  | s :: rest, 0 => f s :: rest
  | s :: rest, i + 1 => s :: modifyAt rest i f

/-- one command; commands on a non-existent handle are ignored -/
def step (H : Bytes → Bytes → Nat → Bytes) (m : Machine) : Cmd → Machine × List Event
  | .new name => (m ++ [State.new name], [])
  | .domSep i tag => (modifyAt m i (·.appendDomainSeparator tag), [])
  | .append i label msgs => (modifyAt m i (·.appendBytes label msgs), [])
  | .extract i label n =>
    match m[i]? with
    | none => (m, [])
    | some s => (modifyAt m i (fun s => (s.extract H label n).2), [(s.extract H label n).1])
  | .clone i =>
    match m[i]? with
    | none => (m, [])
    | some s => (m ++ [s.clone], [])

def run (H : Bytes → Bytes → Nat → Bytes) : Machine → List Cmd → Machine × List Event
  | m, [] => (m, [])
  | m, c :: cs =>
    let (m', ev) := step H m c
    let (m'', evs) := run H m' cs
    (m'', ev ++ evs)

end BronVerif.Transcript
