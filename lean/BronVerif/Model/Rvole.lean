import BronVerif.Model.OT
/-!
# Random-VOLE multiplication over OT (core-only)

Model of `pkg/mpc/rvole/{bbot,softspoken}/rounds.go` (the two variants differ only in the OT that
produces `α`/`γ`).  Scalars live in `K`; a *row* — the `l + ρ` scalars belonging to one OT instance
`j` — lives in `M` (a `K`-module in the theorems, zero-padded lists in the driver); the check vectors
`μ` live in `N`.

For OT instance `j`: gadget element `g`, Bob's choice bit `β`, Alice's two OT messages `α⁰, α¹ : M`.
Bob holds `γ = α^β`.  With Alice's input row `a = (a₁…a_l, â₁…â_ρ) : M`:

* Alice:  `c = −Σ_j g_j·α⁰_j`,  `ã_j = α⁰_j − α¹_j + a`,  `η = Θ a`,  `μ_j = Θ α⁰_j`;
* Bob:    `b = Σ_j β_j·g_j`,  `ḋ_j = γ_j + β_j·ã_j`,  `d = Σ_j g_j·ḋ_j`,  `μ'_j = Θ ḋ_j − β_j·η`;

where `Θ (v, v̂) = v̂ + θᵀ v` is the linear map given by the random-oracle matrix `θ`
(`roTheta`); Bob accepts iff `H(μ') = H(μ)` (`roMu`), modelled as `μ' = μ`.
-/
namespace BronVerif.Rvole
open BronVerif.OT (bsel)

structure Inst (K M : Type) where
  g : K
  beta : Bool
  a0 : M
  a1 : M

section
variable {K M N : Type}

/-- the OT correlation: Bob's message is Alice's message for his choice bit -/
def gamma (o : Inst K M) : M := if o.beta then o.a1 else o.a0

variable [Add K] [Mul K] [OfNat K 0]
variable [Add M] [Sub M] [Neg M] [SMul K M] [OfNat M 0]
variable [Add N] [Sub N] [OfNat N 0]

def bselM (d : Bool) (x : M) : M := if d then x else 0

/-- Alice.Round3: `ã_j = α⁰_j − α¹_j + a` -/
def aTilde (o : Inst K M) (a : M) : M := o.a0 - o.a1 + a

/-- Bob.Round2: `b = Σ_j β_j·g_j` -/
def bobB : List (Inst K M) → K
  | [] => 0
  | o :: os => bsel o.beta o.g + bobB os

/-- Alice.Round3: `c = −Σ_j g_j·α⁰_j` -/
def aliceC : List (Inst K M) → M
  | [] => 0
  | o :: os => -(o.g • o.a0) + aliceC os

/-- Bob.Round4: `ḋ_j = γ_j + β_j·ã_j` (both the `l` output columns and the `ρ` check columns) -/
def bobRow (o : Inst K M) (at' : M) : M := gamma o + bselM o.beta at'

/-- Bob.Round4: `d = Σ_j g_j·ḋ_j` over the received `ã` -/
def bobD : List (Inst K M × M) → M
  | [] => 0
  | (o, at') :: r => o.g • bobRow o at' + bobD r

/-- Alice's check vector entry `μ_j = Θ α⁰_j` -/
def muA (Θ : M → N) (o : Inst K M) : N := Θ o.a0

def bselN (d : Bool) (x : N) : N := if d then x else 0

/-- Bob's check vector entry `μ'_j = Θ' ḋ_j − β_j·η'` -/
def muB (Θ' : M → N) (o : Inst K M) (at' : M) (eta : N) : N := Θ' (bobRow o at') - bselN o.beta eta

/-- Bob's acceptance test `μ' = μ` (entrywise), with Alice's `Θ` and Bob's `Θ'`
(equal in an honest run: both are derived from `ã`) -/
def accepts [DecidableEq N] (Θ Θ' : M → N) (eta : N) : List (Inst K M × M) → Bool
  | [] => true
  | (o, at') :: r => decide (muB Θ' o at' eta = muA Θ o) && accepts Θ Θ' eta r

end

/-! ### rows as zero-padded lists (the driver's instance of `M`, `N`) -/

structure Vec (K : Type) where
  xs : List K

namespace Vec
variable {K : Type}

def zipPad [OfNat K 0] (f : K → K → K) : List K → List K → List K
  | [], ys => ys.map (f 0)
  | xs, [] => xs.map (fun x => f x 0)
  | x :: xs, y :: ys => f x y :: zipPad f xs ys

instance [Add K] [OfNat K 0] : Add (Vec K) := ⟨fun a b => ⟨zipPad (· + ·) a.xs b.xs⟩⟩
instance [Sub K] [OfNat K 0] : Sub (Vec K) := ⟨fun a b => ⟨zipPad (· - ·) a.xs b.xs⟩⟩
instance [Neg K] : Neg (Vec K) := ⟨fun a => ⟨a.xs.map (- ·)⟩⟩
instance [Mul K] : SMul K (Vec K) := ⟨fun k a => ⟨a.xs.map (k * ·)⟩⟩
instance : OfNat (Vec K) 0 := ⟨⟨[]⟩⟩

/-- compare as vectors of a given length (missing entries are zero) -/
def norm [OfNat K 0] (n : Nat) (v : Vec K) : List K := (List.range n).map fun i => v.xs.getD i 0

end Vec

/-- `Θ (v, v̂) = v̂ + θᵀ v`: `θ` is `l × ρ`, rows have `l + ρ` entries -/
def thetaMap {K : Type} [Add K] [Mul K] [OfNat K 0] (l rho : Nat) (theta : List (List K)) (v : Vec K) : Vec K :=
  ⟨(List.range rho).map fun k =>
    (List.range l).foldl (fun acc i => acc + (theta.getD i []).getD k 0 * v.xs.getD i 0) (v.xs.getD (l + k) 0)⟩

end BronVerif.Rvole
