import BronVerif.Gen.RouterFacts
/-!
# C11 — the critical sections of `router.go` are the steps of `Model/Router.lean`

`BronVerif.Gen.RouterFacts.sites` is regenerated from `/repo/pkg/network/router.go` on every run
(translator/facts_router.go, go/ast only): every statement of `routerCore` that writes the shared
state (`boxes`, `buffered`, `fatal`, `failed`, `started`, `stop`; per mailbox `payloads`, `poison`,
`notify`), every `select`, every channel creation, every `return` of `deposit` / `receiveFrom`, and
the calls between the critical sections — each with the conditions under which it runs (then-branch
`c`, else-branch or fall-through after a returning `if` `!(c)`, loops, outermost first) and whether
`mu` is held.

The tables below are written by hand next to the model and say which Go statement each clause of
`Model/Router.lean` stands for.  The theorems compare them with the regenerated table by
`decide +kernel` over the complete table: if a branch of `deposit`, `receiveFrom`, … is
restructured (e.g. the duplicate test no longer guarding the store path, a second site that
touches `buffered`, a different priority of the outcomes of the scan, an unbuffered `notify`), the
obligation breaks even if no generated input shows a difference.  (A harmless rewrite that renames
the variables inside these conditions also breaks it; the expectation is then updated by hand
after re-reading the code against the model.)  Core-only.
-/
namespace BronVerif.Props.C11Facts
open BronVerif.Gen.RouterFacts

def kindIs (k : Str) (s : Site) : Bool := decide (s.kind = k)

/-- everything except calls and returns -/
def stateSites : List Site := sites.filter fun s => !(kindIs rf!"call" s || kindIs rf!"return" s)

/-- **Writes to the shared state** and what they are in the model:

* `signal`: non-blocking send on the 1-buffered `notify` = `signal` sets `token := true`;
* `receiveFrom`, first section (no latched failure, no attached receive): `notify` created with
  capacity 1 and attached = `attach` (`started`/`stop`: the reader is started once = `Sched.started`);
* `receiveFrom.defer`: detach, and `delete(c.boxes, id)` iff the mailbox is empty and unpoisoned
  = `detach` + `boxesStep .detach`;
* `receiveFrom`, locked scan, **no poison and complete set**: the requested payloads are deleted and
  `buffered -= expected.Size()` = the `isComplete` branch of `scan`
  (`removeAll`, `buffered - w.exp.length`);
* the `select` of a parked receive has exactly the three wake-up sources `wakeToken`, `wakeCtx`,
  `wakeFailed`;
* `deposit`: `poison` is written iff a payload of that sender **exists and differs**; a payload is
  stored and `buffered++` iff **no payload of that sender exists** and `buffered < max`
  = the three branches of `deposit` (an identical retransmission reaches neither write);
* `boxFor` creates a mailbox iff absent = `addBox`; `failLocked` latches `fatal` once and closes
  `failed` = `failWith`. -/
def expectedState : List Site := [
  ⟨rf!"signal", rf!"select", rf!"select { b.notify <- struct{}{} | default }", [rf!"!(b.notify == nil)"], false⟩,
  ⟨rf!"receiveFrom", rf!"started", rf!"c.started = true", [rf!"!(c.fatal != nil)", rf!"!c.started"], true⟩,
  ⟨rf!"receiveFrom", rf!"stop", rf!"c.stop = cancel", [rf!"!(c.fatal != nil)", rf!"!c.started"], true⟩,
  ⟨rf!"receiveFrom", rf!"chan", rf!"notify := make(chan struct{}, 1)", [rf!"!(c.fatal != nil)", rf!"!(box.notify != nil)"], true⟩,
  ⟨rf!"receiveFrom", rf!"notify", rf!"box.notify = notify", [rf!"!(c.fatal != nil)", rf!"!(box.notify != nil)"], true⟩,
  ⟨rf!"receiveFrom.defer", rf!"notify", rf!"box.notify = nil", [], true⟩,
  ⟨rf!"receiveFrom.defer", rf!"boxes", rf!"delete(c.boxes, correlationID)", [rf!"len(box.payloads) == 0 && box.poison == nil"], true⟩,
  ⟨rf!"receiveFrom", rf!"payloads", rf!"delete(box.payloads, from)", [rf!"!(c.fatal != nil)", rf!"!(box.notify != nil)", rf!"loop", rf!"!(box.poison != nil)", rf!"complete", rf!"range expected.Iter()"], true⟩,
  ⟨rf!"receiveFrom", rf!"buffered", rf!"c.buffered -= expected.Size()", [rf!"!(c.fatal != nil)", rf!"!(box.notify != nil)", rf!"loop", rf!"!(box.poison != nil)", rf!"complete"], true⟩,
  ⟨rf!"receiveFrom", rf!"select", rf!"select { <-notify | <-ctx.Done() | <-c.failed }", [rf!"!(c.fatal != nil)", rf!"!(box.notify != nil)", rf!"loop", rf!"!(box.poison != nil)", rf!"!(complete)", rf!"!(c.fatal != nil)", rf!"!(err := ctx.Err(); err != nil)"], false⟩,
  ⟨rf!"deposit", rf!"poison", rf!"box.poison = ErrDuplicateMessage.WithTag(base.IdentifiableAbortPartyIDTag, from)", [rf!"existing, ok := box.payloads[from]; ok", rf!"!bytes.Equal(existing, message.Payload)"], true⟩,
  ⟨rf!"deposit", rf!"payloads", rf!"box.payloads[from] = message.Payload", [rf!"!(existing, ok := box.payloads[from]; ok)", rf!"!(c.buffered >= maxReceiveBufferSize)"], true⟩,
  ⟨rf!"deposit", rf!"buffered", rf!"c.buffered++", [rf!"!(existing, ok := box.payloads[from]; ok)", rf!"!(c.buffered >= maxReceiveBufferSize)"], true⟩,
  ⟨rf!"boxFor", rf!"boxes", rf!"c.boxes[correlationID] = box", [rf!"!ok"], false⟩,
  ⟨rf!"failLocked", rf!"fatal", rf!"c.fatal = err", [rf!"!(c.fatal != nil)"], false⟩,
  ⟨rf!"failLocked", rf!"failed", rf!"close(c.failed)", [rf!"!(c.fatal != nil)"], false⟩
]

/-- **Outcomes.**  `receiveFrom`: latched failure before attaching; concurrent receive on the ID;
then inside the loop, in this order (= priority of `scan`): poison, complete set, latched failure,
cancellation.  `deposit`: `true` after absorbing any retransmission, `false` (reader stops) after
latching `ErrReceiveBufferFull`, `true` after storing. -/
def expectedReturns : List Site := [
  ⟨rf!"receiveFrom", rf!"return", rf!"return nil, errs.Wrap(fatal)", [rf!"c.fatal != nil"], false⟩,
  ⟨rf!"receiveFrom", rf!"return", rf!"return nil, ErrInvalidArgument", [rf!"!(c.fatal != nil)", rf!"box.notify != nil"], false⟩,
  ⟨rf!"receiveFrom", rf!"return", rf!"return nil, poison", [rf!"!(c.fatal != nil)", rf!"!(box.notify != nil)", rf!"loop", rf!"box.poison != nil"], false⟩,
  ⟨rf!"receiveFrom", rf!"return", rf!"return received, nil", [rf!"!(c.fatal != nil)", rf!"!(box.notify != nil)", rf!"loop", rf!"!(box.poison != nil)", rf!"complete"], false⟩,
  ⟨rf!"receiveFrom", rf!"return", rf!"return nil, errs.Wrap(fatal)", [rf!"!(c.fatal != nil)", rf!"!(box.notify != nil)", rf!"loop", rf!"!(box.poison != nil)", rf!"!(complete)", rf!"c.fatal != nil"], false⟩,
  ⟨rf!"receiveFrom", rf!"return", rf!"return nil, errs.Wrap(err)", [rf!"!(c.fatal != nil)", rf!"!(box.notify != nil)", rf!"loop", rf!"!(box.poison != nil)", rf!"!(complete)", rf!"!(c.fatal != nil)", rf!"err := ctx.Err(); err != nil"], false⟩,
  ⟨rf!"deposit", rf!"return", rf!"return true", [rf!"existing, ok := box.payloads[from]; ok"], true⟩,
  ⟨rf!"deposit", rf!"return", rf!"return false", [rf!"!(existing, ok := box.payloads[from]; ok)", rf!"c.buffered >= maxReceiveBufferSize"], true⟩,
  ⟨rf!"deposit", rf!"return", rf!"return true", [rf!"!(existing, ok := box.payloads[from]; ok)", rf!"!(c.buffered >= maxReceiveBufferSize)"], true⟩
]

/-- **Calls between the critical sections**: the reader is started under the lock by the first
receive; `readLoop` fails on a transport error (`transportErr`), skips non-members, fails on an
undecodable message (`garbage`), else deposits (`deliver`); `deposit` signals after poisoning and
after storing, and latches `full` at the bound; `shutdown` latches `closed` and stops the reader. -/
def expectedCalls : List Site := [
  ⟨rf!"receiveFrom", rf!"call", rf!"go c.readLoop(readerCtx)", [rf!"!(c.fatal != nil)", rf!"!c.started"], true⟩,
  ⟨rf!"receiveFrom", rf!"call", rf!"c.boxFor(correlationID)", [rf!"!(c.fatal != nil)"], true⟩,
  ⟨rf!"readLoop.defer", rf!"call", rf!"c.fail(errs.New(\"router reader panicked: %v\", recovered))", [rf!"recovered := recover(); recovered != nil"], false⟩,
  ⟨rf!"readLoop", rf!"call", rf!"c.fail(errs.Wrap(err))", [rf!"loop", rf!"err != nil"], false⟩,
  ⟨rf!"readLoop", rf!"call", rf!"c.fail(errs.Wrap(err))", [rf!"loop", rf!"!(err != nil)", rf!"!(!c.quorumSet.Contains(from))", rf!"err != nil"], false⟩,
  ⟨rf!"readLoop", rf!"call", rf!"c.deposit(from, message)", [rf!"loop", rf!"!(err != nil)", rf!"!(!c.quorumSet.Contains(from))", rf!"!(err != nil)"], false⟩,
  ⟨rf!"deposit", rf!"call", rf!"c.boxFor(message.CorrelationID)", [], true⟩,
  ⟨rf!"deposit", rf!"call", rf!"box.signal()", [rf!"existing, ok := box.payloads[from]; ok", rf!"!bytes.Equal(existing, message.Payload)"], true⟩,
  ⟨rf!"deposit", rf!"call", rf!"c.failLocked(ErrReceiveBufferFull)", [rf!"!(existing, ok := box.payloads[from]; ok)", rf!"c.buffered >= maxReceiveBufferSize"], true⟩,
  ⟨rf!"deposit", rf!"call", rf!"box.signal()", [rf!"!(existing, ok := box.payloads[from]; ok)", rf!"!(c.buffered >= maxReceiveBufferSize)"], true⟩,
  ⟨rf!"fail", rf!"call", rf!"c.failLocked(err)", [], true⟩,
  ⟨rf!"shutdown", rf!"call", rf!"c.failLocked(ErrRouterClosed)", [], true⟩,
  ⟨rf!"shutdown", rf!"call", rf!"stop()", [rf!"stop != nil"], false⟩
]

theorem state_sites_match_model : stateSites = expectedState := by decide +kernel

theorem returns_match_model : sites.filter (kindIs rf!"return") = expectedReturns := by decide +kernel

theorem calls_match_model : sites.filter (kindIs rf!"call") = expectedCalls := by decide +kernel

/-- the buffer budget is written at exactly two places: `++` when a payload is stored for a sender
that had none (below the bound), `-= expected.Size()` when a complete set is collected; both under
`mu` -/
theorem budget_written_only_by_store_and_collect :
    (sites.filter (kindIs rf!"buffered")).map (fun s => (s.fn, s.what, s.locked)) =
      [(rf!"receiveFrom", rf!"c.buffered -= expected.Size()", true), (rf!"deposit", rf!"c.buffered++", true)] := by
  decide +kernel

/-- every write to the shared state happens under `mu`: either the site itself is in a locked
region, or it is in one of the helpers `signal`, `boxFor`, `failLocked`, every call of which is in
a locked region -/
theorem state_written_under_lock :
    (stateSites.all fun s => s.locked || kindIs rf!"select" s ||
      decide (s.fn = rf!"boxFor") || decide (s.fn = rf!"failLocked")) = true ∧
    ((sites.filter fun s => kindIs rf!"call" s &&
        (decide (s.what = rf!"box.signal()") || decide (s.what = rf!"c.boxFor(correlationID)") ||
         decide (s.what = rf!"c.boxFor(message.CorrelationID)") || decide (s.what = rf!"c.failLocked(err)") ||
         decide (s.what = rf!"c.failLocked(ErrReceiveBufferFull)") || decide (s.what = rf!"c.failLocked(ErrRouterClosed)"))).all
      fun s => s.locked) = true := by
  decide +kernel

/-- the documented bound and the namespace separator are the ones the model, the harness
(`c11Bound`) and `namespace_disjoint` (`sep`) use -/
theorem constants_match : maxReceiveBufferSize = rf!"10000" ∧ namespaceSeparator = rf!"\"/\"" := by
  decide +kernel

/-! non-vacuity: the filters select something, and a restructured `deposit` (the duplicate test
only intercepting conflicting duplicates, so that an identical one falls through to the store path)
is not accepted -/
example : stateSites.length = 16 ∧ (sites.filter (kindIs rf!"return")).length = 9 ∧
    (sites.filter (kindIs rf!"call")).length = 13 := by decide +kernel

example : (⟨rf!"deposit", rf!"buffered", rf!"c.buffered++",
    [rf!"!(existing, ok := box.payloads[from]; ok && !bytes.Equal(existing, message.Payload))",
     rf!"!(c.buffered >= maxReceiveBufferSize)"], true⟩ : Site) ∉ expectedState := by
  decide +kernel

end BronVerif.Props.C11Facts
