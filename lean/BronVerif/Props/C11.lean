import Mathlib.Data.Set.Function
import Mathlib.Algebra.BigOperators.Group.List.Lemmas
import BronVerif.Lemmas.RouterProv
import BronVerif.Lemmas.RouterToken
import BronVerif.Model.Echo
/-!
# C11 — message routing is exact under every delivery order; broadcast is consistent

All router theorems quantify over an *arbitrary* list of steps `tr` of the model
`BronVerif.Router` (one step = one critical section of `router.go`, or one atomic event outside
the lock), i.e. over every interleaving of the reader, any number of receivers, cancellations and
`Close` that the mutex permits.  The same `step`/`run` definitions are executed by the driver on
every harness trace.
-/
namespace BronVerif.Props.C11
open BronVerif BronVerif.Router
set_option linter.unusedSectionVars false

variable {C P : Type} [DecidableEq C] [DecidableEq P]

/-! ## exactness of a completed receive -/

theorem collected_fst {s : State C P} {cid : C} : ∀ exp : List Nat,
    (∀ id ∈ exp, (get s cid id).isSome = true) → (collected s cid exp).map Prod.fst = exp
  | [], _ => by simp [collected]
  | a :: exp, h => by
    have ha := h a (by simp)
    have ih := collected_fst (s := s) (cid := cid) exp (fun i hi => h i (List.mem_cons_of_mem _ hi))
    cases hg : get s cid a with
    | none => simp [hg] at ha
    | some p =>
      simp only [collected] at ih ⊢
      simp [hg, ih]

theorem mem_collected {s : State C P} {cid : C} {exp : List Nat} {id : Nat} {p : P}
    (h : (id, p) ∈ collected s cid exp) : id ∈ exp ∧ get s cid id = some p := by
  simp only [collected, List.mem_filterMap] at h
  obtain ⟨i, hi, hm⟩ := h
  cases hg : get s cid i with
  | none => simp [hg] at hm
  | some q =>
    simp [hg] at hm
    obtain ⟨rfl, rfl⟩ := hm
    exact ⟨hi, hg⟩

/-- **Full statement** (kept for reference): under the one-exchange hypothesis of the property
("each correlation identifier is used for one exchange": no earlier receive on `cid` collected),
a completed receive returns for every requested sender the *first* payload that sender delivered
under exactly `cid`. -/
def recv_exact_statement : Prop :=
  ∀ (C P : Type) [DecidableEq C] [DecidableEq P] (cfg : Config) (tr : List (Step C P)) (cid : C)
    (m : List (Nat × P)),
    let s := run cfg tr (init : State C P)
    noCollect s cid →
    (step cfg s (.scan cid)).log = (cid, .complete m) :: s.log →
    ∃ w, s.waiter cid = some w ∧ m.map Prod.fst = w.exp ∧
      ∀ id ∈ w.exp, lookupE id m = firstDeposit cfg tr cid id

/-- `recv_exact` (proved part).  After *any* step sequence, if the locked scan of the receive
attached to `cid` completes with the map `m`, then `m` has exactly one entry per requested sender
(the requested set without repetitions), and every entry `(id, p)` is a payload that `id`, a member
of the quorum, delivered under exactly this correlation ID `cid` — never one delivered under
another ID or namespace (namespaces are prefixes of the ID, see `namespace_disjoint`), never one
from a non-member — and it is the payload stored for `(cid, id)`, which `stored_is_stable` shows
unchanged since it was first deposited.
Not proved here: that it is the *first* such delivery of the trace (`recv_exact_statement`); that
part is checked on every harness trace by the driver oracle `not-first-payload`. -/
theorem recv_exact_partial (cfg : Config) (tr : List (Step C P)) (cid : C) (m : List (Nat × P))
    (hscan : (step cfg (run cfg tr (init : State C P)) (.scan cid)).log
      = (cid, .complete m) :: (run cfg tr (init : State C P)).log) :
    ∃ w, (run cfg tr (init : State C P)).waiter cid = some w ∧ m.map Prod.fst = w.exp ∧ w.exp.Nodup ∧
      ∀ id p, (id, p) ∈ m →
        Step.deliver id cid p ∈ tr ∧ id ∈ cfg.members ∧ get (run cfg tr (init : State C P)) cid id = some p := by
  have hprov := prov_run cfg tr
  have hacc := acc_run (C := C) (P := P) cfg tr
  generalize run cfg tr (init : State C P) = s at *
  simp only [step] at hscan
  rcases scan_cases s cid with ⟨_, _, _, hl | ⟨r, hr, hl⟩⟩ | ⟨w, hw, _, _, hc, _, _, hl⟩
  · rw [hl] at hscan
    have := congrArg List.length hscan
    simp at this
  · rw [hl] at hscan
    simp only [List.cons.injEq, Prod.mk.injEq, true_and, and_true] at hscan
    exact absurd hscan (hr m)
  · rw [hl] at hscan
    simp only [List.cons.injEq, Prod.mk.injEq, true_and, and_true, Result.complete.injEq] at hscan
    subst hscan
    refine ⟨w, hw, collected_fst _ (by simpa [isComplete, List.all_eq_true] using hc), hacc.wexp cid w hw, ?_⟩
    intro id p hm
    have := mem_collected hm
    have hp := hprov.1 cid id p (mem_of_lookupE this.2)
    exact ⟨hp.1, hp.2, this.2⟩

/-- a stored payload is never overwritten or dropped by anything except the collecting scan of its
own correlation ID: in particular not by retransmissions, by traffic or receives on other
IDs/namespaces, by cancellation, failure or `Close` -/
theorem stored_is_stable (cfg : Config) (s : State C P) (cid : C) (id : Nat) (p : P) (st : Step C P)
    (hst : st ≠ .scan cid) (h : get s cid id = some p) : get (step cfg s st) cid id = some p := by
  by_cases hd : ∃ a b c, st = .deliver a b c
  · obtain ⟨sender, c, q, rfl⟩ := hd
    simp only [step, deposit]
    split
    · exact h
    split
    · split
      · split
        · exact h
        · simpa [Router.get, (signal_fields _ c).1] using h
      · rename_i hnone
        split
        · simpa [Router.get, (failWith_fields s .full).1] using h
        · simp only [Router.get, (signal_fields _ c).1, lookupE]
          split
          · rename_i hk; cases hk
            simp [Router.get] at h hnone; rw [hnone] at h; cases h
          · exact h
    · exact h
  · by_cases hs : ∃ c, st = .scan c
    · obtain ⟨c, rfl⟩ := hs
      have hc : cid ≠ c := fun e => hst (by rw [e])
      simp only [step]
      rcases scan_cases s c with ⟨he, _⟩ | ⟨w, _, _, _, _, he, _⟩
      · simpa [Router.get, he] using h
      · simp only [Router.get, he]
        rw [lookupE_removeAll_of_not (by intro i _ e; cases e; exact hc rfl)]
        exact h
    · have hf := step_frame cfg s st (fun a b c e => hd ⟨a, b, c, e⟩) (fun c e => hs ⟨c, e⟩)
      simpa [Router.get, hf.1] using h

/-! ## retransmissions -/

/-- an identical retransmission is absorbed: the state does not change at all -/
theorem dup_absorbed (cfg : Config) (s : State C P) (id : Nat) (cid : C) (p : P)
    (h : get s cid id = some p) : step cfg s (.deliver id cid p) = s := by
  simp only [step, deposit, h]
  split
  · rfl
  · split <;> simp

/-- a conflicting retransmission from a member poisons the mailbox, tags the sender, and wakes the
attached receive; the poison is latched; a poisoned scan fails blaming the tagged sender; and a
blamed party really sent two different payloads under that correlation ID (no honest party is
ever blamed) -/
theorem conflict_poisons_and_blames (cfg : Config) :
    (∀ (s : State C P) (id : Nat) (cid : C) (p q : P), s.stopped = false → id ∈ cfg.members →
        get s cid id = some q → q ≠ p →
        (step cfg s (.deliver id cid p)).poison cid = some id ∧
        (step cfg s (.deliver id cid p)).entries = s.entries ∧
        ∀ w, s.waiter cid = some w → ∃ w', (step cfg s (.deliver id cid p)).waiter cid = some w' ∧ w'.token = true) ∧
    (∀ (s : State C P) (st : Step C P) (cid : C), s.poison cid ≠ none → (step cfg s st).poison cid ≠ none) ∧
    (∀ (s : State C P) (cid : C) (w : Waiter) (b : Nat), s.waiter cid = some w → w.phase = .running →
        s.poison cid = some b → (step cfg s (.scan cid)).log = (cid, .poisoned b) :: s.log) ∧
    (∀ (tr : List (Step C P)) (cid : C) (b : Nat), (run cfg tr (init : State C P)).poison cid = some b →
        b ∈ cfg.members ∧ ∃ p q, p ≠ q ∧ Step.deliver b cid p ∈ tr ∧ Step.deliver b cid q ∈ tr) := by
  refine ⟨?_, ?_, ?_, ?_⟩
  · intro s id cid p q hst hm hg hne
    simp only [step, deposit, hst, hm, hg, hne, if_true, if_false, Bool.false_eq_true]
    refine ⟨by simp [(signal_fields _ cid).2.1], by simp [(signal_fields _ cid).1], ?_⟩
    intro w hw
    simp only [signal, hw]
    exact ⟨{ w with token := true }, by simp, rfl⟩
  · intro s st cid hp
    by_cases hd : ∃ a b c, st = .deliver a b c
    · obtain ⟨sender, c, q, rfl⟩ := hd
      simp only [step, deposit]
      split
      · exact hp
      split
      · split
        · split
          · exact hp
          · simp only [(signal_fields _ c).2.1, upd_apply]
            split
            · simp
            · exact hp
        · split
          · simpa [(failWith_fields s .full).2.1] using hp
          · simpa [(signal_fields _ c).2.1] using hp
      · exact hp
    · by_cases hs : ∃ c, st = .scan c
      · obtain ⟨c, rfl⟩ := hs
        simp only [step]
        rcases scan_cases s c with ⟨_, _, hpo, _⟩ | ⟨w, _, _, _, _, _, hpo, _⟩ <;> rw [hpo] <;> exact hp
      · rw [(step_frame cfg s st (fun a b c e => hd ⟨a, b, c, e⟩) (fun c e => hs ⟨c, e⟩)).2.1]; exact hp
  · intro s cid w b hw hph hpo
    simp [step, scan, hw, hph, hpo, finish]
  · intro tr cid b h
    exact (prov_run cfg tr).2 cid b h

/-! ## cancellation -/

/-- a receive that ends cancelled (or failed, or parks again) removes nothing from the mailboxes:
payloads, poison marks and the buffer count are exactly as before; together with
`stored_is_stable` a retry with the same arguments finds every payload again -/
theorem cancel_loses_nothing (cfg : Config) (s : State C P) (cid : C) (r : Result P)
    (hr : ∀ m, r ≠ .complete m)
    (h : (step cfg s (.scan cid)).log = (cid, r) :: s.log ∨ (step cfg s (.scan cid)).log = s.log) :
    (step cfg s (.scan cid)).entries = s.entries ∧ (step cfg s (.scan cid)).buffered = s.buffered ∧
    (step cfg s (.scan cid)).poison = s.poison := by
  simp only [step] at h ⊢
  rcases scan_cases s cid with ⟨he, hb, hp, _⟩ | ⟨w, _, _, _, _, _, _, hl⟩
  · exact ⟨he, hb, hp⟩
  · rw [hl] at h
    rcases h with h | h
    · simp only [List.cons.injEq, Prod.mk.injEq, true_and, and_true] at h
      exact absurd h.symm (hr _)
    · have := congrArg List.length h; simp at this

/-- the scan of a cancelled receive whose set is incomplete and whose box is clean returns
`cancelled` (used with the previous theorem) -/
theorem cancelled_scan (cfg : Config) (s : State C P) (cid : C) (w : Waiter)
    (hw : s.waiter cid = some w) (hph : w.phase = .running) (hpo : s.poison cid = none)
    (hc : isComplete s cid w.exp = false) (hf : s.fatal = none) (hcan : w.cancelled = true) :
    (step cfg s (.scan cid)).log = (cid, .cancelled) :: s.log := by
  simp [step, scan, hw, hph, hpo, hc, hf, hcan, finish]

/-! ## buffer accounting -/

/-- number of payloads held in the mailbox of `cid` -/
def boxSize (s : State C P) (cid : C) : Nat := (s.entries.map (·.1.1)).count cid

/-- `buffered` is the sum of the mailbox sizes, never exceeds the bound, and no mailbox holds two
payloads of one sender -/
theorem buffered_eq_sum (cfg : Config) (tr : List (Step C P)) :
    let s := run cfg tr (init : State C P)
    s.buffered = (((s.entries.map (·.1.1)).dedup).map (boxSize s)).sum ∧
    s.buffered = s.entries.length ∧ s.buffered ≤ cfg.bound ∧ (s.entries.map Prod.fst).Nodup := by
  have h := acc_run (C := C) (P := P) cfg tr
  refine ⟨?_, h.len, h.bound, h.nodup⟩
  have h2 : ((((run cfg tr (init : State C P)).entries.map (·.1.1)).dedup).map
      (boxSize (run cfg tr (init : State C P)))).sum
      = ((run cfg tr (init : State C P)).entries.map (·.1.1)).length :=
    List.sum_map_count_dedup_eq_length ((run cfg tr (init : State C P)).entries.map (·.1.1))
  rw [h2, List.length_map]
  exact h.len

/-- below the bound a new message of a member is stored (the reader does not fail) -/
theorem deposit_stores (cfg : Config) (s : State C P) (id : Nat) (cid : C) (p : P)
    (hst : s.stopped = false) (hm : id ∈ cfg.members) (hg : get s cid id = none) (hb : s.buffered < cfg.bound) :
    get (step cfg s (.deliver id cid p)) cid id = some p ∧ (step cfg s (.deliver id cid p)).fatal = s.fatal := by
  have hb' : ¬ cfg.bound ≤ s.buffered := by omega
  simp only [step, deposit, hst, hm, hg, hb', if_true, if_false, Bool.false_eq_true]
  exact ⟨by simp [Router.get, (signal_fields _ cid).1, lookupE], by simp [(signal_fields _ cid).2.2.2.2.2]⟩

/-! ## no lost wake-up -/

/-- after *any* step sequence: a receive parked in `select` with no pending token has nothing to
see (its mailbox is neither poisoned nor complete); consequently, whenever the outcome of a parked
receive is decided — poisoned, complete, router failed, or cancelled — one of its wake-up
transitions is enabled, and waking followed by the locked scan returns (progress in the model). -/
theorem no_lost_wakeup (cfg : Config) (tr : List (Step C P)) :
    let s := run cfg tr (init : State C P)
    TokInv s ∧
    ∀ cid w, s.waiter cid = some w → w.phase = .parked →
      (s.poison cid ≠ none ∨ isComplete s cid w.exp = true ∨ s.fatal ≠ none ∨ w.cancelled = true) →
      ∃ wk ∈ [Step.wakeToken cid, Step.wakeCtx cid, Step.wakeFailed cid],
        ∃ r, (step cfg (step cfg s wk) (.scan cid)).log = (cid, r) :: s.log := by
  have htok := tok_run (C := C) (P := P) cfg tr
  refine ⟨htok, ?_⟩
  generalize run cfg tr (init : State C P) = s at *
  intro cid w hw hph hready
  -- which wake-up is enabled
  have hen : w.token = true ∨ (w.token = false ∧ (s.fatal ≠ none ∨ w.cancelled = true)) := by
    cases ht : w.token with
    | true => exact Or.inl rfl
    | false =>
      right
      refine ⟨rfl, ?_⟩
      have := htok cid w hw hph ht
      rcases hready with h | h | h | h
      · exact absurd this.1 h
      · rw [this.2] at h; cases h
      · exact Or.inl h
      · exact Or.inr h
  -- after any enabled wake-up the scan decides
  have scan_decides : ∀ (s1 : State C P) (w1 : Waiter), s1.waiter cid = some w1 → w1.phase = .running →
      w1.exp = w.exp → w1.cancelled = w.cancelled → s1.poison = s.poison → s1.entries = s.entries →
      s1.fatal = s.fatal → s1.log = s.log → ∃ r, (scan s1 cid).log = (cid, r) :: s.log := by
    intro s1 w1 hw1 hph1 hexp hcan hpo hent hfat hlog
    have hcomp : isComplete s1 cid w1.exp = isComplete s cid w.exp := by
      rw [hexp]; exact isComplete_congr _ (by intro id; simp [Router.get, hent])
    simp only [scan, hw1, hph1, if_true]
    cases hp : s1.poison cid with
    | some b => exact ⟨.poisoned b, by simp [finish, hlog]⟩
    | none =>
      simp only
      by_cases hc : isComplete s1 cid w1.exp = true
      · simp only [hc, if_true]; exact ⟨.complete (collected s1 cid w1.exp), by simp [finish, hlog]⟩
      · simp only [hc, if_false, Bool.false_eq_true]
        cases hf : s1.fatal with
        | some k => exact ⟨.fatal k, by simp [finish, hlog]⟩
        | none =>
          simp only
          by_cases hcc : w1.cancelled = true
          · simp only [hcc, if_true]; exact ⟨.cancelled, by simp [finish, hlog]⟩
          · exfalso
            rw [hpo] at hp; rw [hcomp] at hc; rw [hfat] at hf; rw [hcan] at hcc
            rcases hready with h | h | h | h
            · exact h hp
            · exact hc h
            · exact h hf
            · exact hcc h
  rcases hen with ht | ⟨_, hf | hc⟩
  · refine ⟨.wakeToken cid, by simp, ?_⟩
    simp only [step, wake, hw, hph, ht, and_self, if_true]
    exact scan_decides _ _ (upd_same _ _ _) rfl rfl rfl rfl rfl rfl rfl
  · refine ⟨.wakeFailed cid, by simp, ?_⟩
    have : s.fatal.isSome = true := by cases h : s.fatal <;> simp_all
    simp only [step, wake, hw, hph, this, and_self, if_true]
    exact scan_decides _ _ (upd_same _ _ _) rfl rfl rfl rfl rfl rfl rfl
  · refine ⟨.wakeCtx cid, by simp, ?_⟩
    simp only [step, wake, hw, hph, hc, and_self, if_true]
    exact scan_decides _ _ (upd_same _ _ _) rfl rfl hc.symm rfl rfl rfl rfl

/-! ## namespaces -/

theorem sep_split {n n' x x' : List Char} (hn : sep ∉ n) (hn' : sep ∉ n')
    (h : n ++ sep :: x = n' ++ sep :: x') : n = n' ∧ x = x' := by
  induction n generalizing n' with
  | nil =>
    cases n' with
    | nil => simpa using h
    | cons a n' =>
      simp only [List.nil_append, List.cons_append, List.cons.injEq] at h
      exact absurd (by rw [← h.1]; simp) hn'
  | cons a n ih =>
    cases n' with
    | nil =>
      simp only [List.nil_append, List.cons_append, List.cons.injEq] at h
      exact absurd (by rw [h.1]; simp) hn
    | cons b n' =>
      simp only [List.cons_append, List.cons.injEq] at h
      have := ih (n' := n') (fun hm => hn (List.mem_cons_of_mem _ hm)) (fun hm => hn' (List.mem_cons_of_mem _ hm)) h.2
      exact ⟨by rw [h.1, this.1], this.2⟩

/-- views with different namespace paths, or different correlation IDs, never share a wire ID —
given that namespaces and correlation IDs do not contain the separator (as `Namespaced` documents) -/
theorem namespace_disjoint : ∀ (path path' : List (List Char)) (cid cid' : List Char),
    (∀ n ∈ path, sep ∉ n) → (∀ n ∈ path', sep ∉ n) → sep ∉ cid → sep ∉ cid' →
    wire path cid = wire path' cid' → path = path' ∧ cid = cid'
  | [], [], cid, cid', _, _, _, _, h => ⟨rfl, by simpa [wire] using h⟩
  | [], n' :: rest', cid, cid', _, _, hc, _, h => by
    simp only [wire] at h
    exact absurd (by rw [h]; simp) hc
  | n :: rest, [], cid, cid', _, _, _, hc', h => by
    simp only [wire] at h
    exact absurd (by rw [← h]; simp) hc'
  | n :: rest, n' :: rest', cid, cid', hp, hp', hc, hc', h => by
    simp only [wire] at h
    have h1 := sep_split (hp n (by simp)) (hp' n' (by simp)) h
    have h2 := namespace_disjoint rest rest' cid cid' (fun m hm => hp m (List.mem_cons_of_mem _ hm))
      (fun m hm => hp' m (List.mem_cons_of_mem _ hm)) hc hc' h1.2
    exact ⟨by rw [h1.1, h2.1], h2.2⟩

/-! ## echo broadcast -/

/-- Two honest parties `p ≠ q` that both run round 3 — it suffices that `p` accepts sender `s` —
hold the same payload for `s`: `p`'s test includes the digest echoed by `q`, an honest `q` echoes
the digest of what it holds, and the digest is injective on the payloads that occur.
(`hecho`: the router delivered to `p` what `q` sent, which is `recv_exact`.) -/
theorem echo_agreement {P D : Type} [DecidableEq D] (H : P → D) (S : Set P) (hH : Set.InjOn H S)
    (quorum : List Nat) (p q s : Nat) (hq : q ∈ quorum) (hqp : q ≠ p) (hqs : q ≠ s)
    (r1p r1q : Nat → P) (echoP : Nat → Nat → D)
    (hecho : echoP q = Echo.honestEcho H r1q)
    (hS : r1p s ∈ S ∧ r1q s ∈ S)
    (hacc : Echo.acceptsSender H quorum p r1p echoP s = true) : r1p s = r1q s := by
  simp only [Echo.acceptsSender, List.all_eq_true] at hacc
  have := hacc q hq
  simp only [hqp, hqs, decide_false, Bool.false_or, decide_eq_true_eq, hecho, Echo.honestEcho] at this
  exact (hH hS.2 hS.1 this).symm

/-- whole-round form: if round 3 of both honest parties delivers, they deliver the same payload for
every third party -/
theorem echo_agreement_round3 {P D : Type} [DecidableEq D] (H : P → D) (S : Set P) (hH : Set.InjOn H S)
    (quorum : List Nat) (p q s : Nat) (hp : p ∈ quorum) (hq : q ∈ quorum) (hs : s ∈ quorum)
    (hqp : q ≠ p) (hqs : q ≠ s) (hps : p ≠ s)
    (r1p r1q : Nat → P) (echoP echoQ : Nat → Nat → D)
    (hecho : echoP q = Echo.honestEcho H r1q)
    (hS : r1p s ∈ S ∧ r1q s ∈ S) (mp mq : List (Nat × P))
    (hmp : Echo.round3 H quorum p r1p echoP = some mp) (hmq : Echo.round3 H quorum q r1q echoQ = some mq) :
    ∀ v v', (s, v) ∈ mp → (s, v') ∈ mq → v = v' := by
  simp only [Echo.round3] at hmp hmq
  split at hmp <;> [skip; cases hmp]
  split at hmq <;> [skip; cases hmq]
  rename_i hallp hallq
  cases hmp; cases hmq
  intro v v' hv hv'
  simp only [List.mem_map, List.mem_filter, Prod.mk.injEq] at hv hv'
  obtain ⟨a, _, ha, hva⟩ := hv
  obtain ⟨b, _, hb, hvb⟩ := hv'
  rw [← hva, ← hvb, ha, hb]
  rw [List.all_eq_true] at hallp
  have := hallp s (by simp [List.mem_filter, hs, Ne.symm hps])
  exact echo_agreement H S hH quorum p q s hq hqp hqs r1p r1q echoP hecho hS this

/-! ## non-vacuity: concrete histories -/

section Examples

def exCfg : Config := { members := [1, 2, 3], bound := 4 }

/-- deposit, identical retransmission (absorbed), attach, conflicting retransmission (poison),
scan: the receive fails and blames sender 2 -/
def exTrace : List (Step Nat Nat) :=
  [.deliver 2 7 10, .deliver 2 7 10, .attach 7 [2, 3], .scan 7, .deliver 2 7 11, .wakeToken 7, .scan 7]

example : (run exCfg exTrace (init : State Nat Nat)).log = [(7, .poisoned 2)] := by decide
example : (run exCfg exTrace (init : State Nat Nat)).buffered = 1 := by decide
example : (run exCfg exTrace (init : State Nat Nat)).poison 7 = some 2 := by decide

/-- a completed receive (hypothesis of `recv_exact_partial` is satisfiable) with traffic on another
ID and from a non-member in between -/
def exTrace2 : List (Step Nat Nat) :=
  [.attach 7 [2, 3], .scan 7, .deliver 3 7 20, .deliver 9 7 66, .deliver 2 8 55, .wakeToken 7, .scan 7,
   .deliver 2 7 10, .deliver 2 7 10, .wakeToken 7]

example : (step exCfg (run exCfg exTrace2 (init : State Nat Nat)) (.scan 7)).log
    = (7, .complete [(2, 10), (3, 20)]) :: (run exCfg exTrace2 (init : State Nat Nat)).log := by decide

/-- a parked receive whose context is cancelled: the hypotheses of `no_lost_wakeup` and
`cancel_loses_nothing` are satisfiable, and the payload survives -/
def exTrace3 : List (Step Nat Nat) := [.attach 7 [2, 3], .deliver 2 7 10, .scan 7, .cancel 7]

example : ((run exCfg exTrace3 (init : State Nat Nat)).waiter 7).map (fun w => (w.phase, w.cancelled, w.exp))
    = some (.parked, true, [2, 3]) := by decide
example : (run exCfg (exTrace3 ++ [.wakeCtx 7, .scan 7]) (init : State Nat Nat)).log = [(7, .cancelled)] := by decide
example : get (run exCfg (exTrace3 ++ [.wakeCtx 7, .scan 7]) (init : State Nat Nat)) 7 2 = some 10 := by decide

/-- the buffer bound latches `full` -/
example : (run exCfg [.deliver 2 1 0, .deliver 2 2 0, .deliver 2 3 0, .deliver 2 4 0, .deliver 2 5 0]
    (init : State Nat Nat)).fatal = some .full := by decide

example : wire ["a".toList, "b".toList] "c".toList = "a/b/c".toList := by decide
example : wire ["a".toList] "bc".toList ≠ wire ["ab".toList] "c".toList := by decide

/-- echo: an equivocating sender 3 (payload 1 to party 1, payload 2 to party 2) is rejected by both -/
example : Echo.round3 (fun v : Nat => v) [1, 2, 3] 1 (fun s => if s = 3 then 1 else 10 + s)
    (fun e s => if e = 2 ∧ s = 3 then 2 else if e = 3 ∧ s = 2 then 12 else 0) = none := by decide
example : Echo.round3 (fun v : Nat => v) [1, 2, 3] 1 (fun s => if s = 3 then 1 else 10 + s)
    (fun e s => if e = 2 ∧ s = 3 then 1 else if e = 3 ∧ s = 2 then 12 else 0) = some [(2, 12), (3, 1)] := by decide

end Examples

end BronVerif.Props.C11
