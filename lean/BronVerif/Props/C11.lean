import Mathlib.Data.Set.Function
import Mathlib.Algebra.BigOperators.Group.List.Lemmas
import Mathlib.Data.List.Perm.Subperm
import Mathlib.Data.List.Dedup
import BronVerif.Lemmas.RouterProv
import BronVerif.Lemmas.RouterToken
import BronVerif.Lemmas.RouterFirst
import BronVerif.Lemmas.RouterBoxes
import BronVerif.Model.Echo
/-!
# C11 — message routing is exact under every delivery order; broadcast is consistent

All router theorems quantify over an *arbitrary* list of steps `tr` of the model
`BronVerif.Router` (one step = one critical section of `router.go`, or one atomic event outside
the lock), i.e. over every interleaving of the reader, any number of receivers, cancellations and
`Close` that the mutex permits.  The same `step`/`run` definitions are executed by the driver on
every harness trace.
-/
namespace BronVerif.Props.C11
open BronVerif BronVerif.Router
set_option linter.unusedSectionVars false

variable {C P : Type} [DecidableEq C] [DecidableEq P]

/-! ## exactness of a completed receive -/

theorem collected_fst {s : State C P} {cid : C} : ∀ exp : List Nat,
    (∀ id ∈ exp, (get s cid id).isSome = true) → (collected s cid exp).map Prod.fst = exp
  | [], _ => by simp [collected]
  | a :: exp, h => by
    have ha := h a (by simp)
    have ih := collected_fst (s := s) (cid := cid) exp (fun i hi => h i (List.mem_cons_of_mem _ hi))
    cases hg : get s cid a with
    | none => simp [hg] at ha
    | some p =>
      simp only [collected] at ih ⊢
      simp [hg, ih]

theorem mem_collected {s : State C P} {cid : C} {exp : List Nat} {id : Nat} {p : P}
    (h : (id, p) ∈ collected s cid exp) : id ∈ exp ∧ get s cid id = some p := by
  simp only [collected, List.mem_filterMap] at h
  obtain ⟨i, hi, hm⟩ := h
  cases hg : get s cid i with
  | none => simp [hg] at hm
  | some q =>
    simp [hg] at hm
    obtain ⟨rfl, rfl⟩ := hm
    exact ⟨hi, hg⟩

/-- **Full statement**, proved below as `recv_exact`: under the one-exchange hypothesis of the property
("each correlation identifier is used for one exchange": no earlier receive on `cid` collected),
a completed receive returns for every requested sender the *first* payload that sender delivered
under exactly `cid`. -/
def recv_exact_statement : Prop :=
  ∀ (C P : Type) [DecidableEq C] [DecidableEq P] (cfg : Config) (tr : List (Step C P)) (cid : C)
    (m : List (Nat × P)),
    let s := run cfg tr (init : State C P)
    noCollect s cid →
    (step cfg s (.scan cid)).log = (cid, .complete m) :: s.log →
    ∃ w, s.waiter cid = some w ∧ m.map Prod.fst = w.exp ∧
      ∀ id ∈ w.exp, lookupE id m = firstDeposit cfg tr cid id

/-- `recv_exact` (proved part).  After *any* step sequence, if the locked scan of the receive
attached to `cid` completes with the map `m`, then `m` has exactly one entry per requested sender
(the requested set without repetitions), and every entry `(id, p)` is a payload that `id`, a member
of the quorum, delivered under exactly this correlation ID `cid` — never one delivered under
another ID or namespace (namespaces are prefixes of the ID, see `namespace_disjoint`), never one
from a non-member — and it is the payload stored for `(cid, id)`, which `stored_is_stable` shows
unchanged since it was first deposited.
That it is the *first* such delivery of the trace is `recv_exact` below. -/
theorem recv_exact_partial (cfg : Config) (tr : List (Step C P)) (cid : C) (m : List (Nat × P))
    (hscan : (step cfg (run cfg tr (init : State C P)) (.scan cid)).log
      = (cid, .complete m) :: (run cfg tr (init : State C P)).log) :
    ∃ w, (run cfg tr (init : State C P)).waiter cid = some w ∧ m.map Prod.fst = w.exp ∧ w.exp.Nodup ∧
      ∀ id p, (id, p) ∈ m →
        Step.deliver id cid p ∈ tr ∧ id ∈ cfg.members ∧ get (run cfg tr (init : State C P)) cid id = some p := by
  have hprov := prov_run cfg tr
  have hacc := acc_run (C := C) (P := P) cfg tr
  generalize run cfg tr (init : State C P) = s at *
  simp only [step] at hscan
  rcases scan_cases s cid with ⟨_, _, _, hl | ⟨r, hr, hl⟩⟩ | ⟨w, hw, _, _, hc, _, _, hl⟩
  · rw [hl] at hscan
    have := congrArg List.length hscan
    simp at this
  · rw [hl] at hscan
    simp only [List.cons.injEq, Prod.mk.injEq, true_and, and_true] at hscan
    exact absurd hscan (hr m)
  · rw [hl] at hscan
    simp only [List.cons.injEq, Prod.mk.injEq, true_and, and_true, Result.complete.injEq] at hscan
    subst hscan
    refine ⟨w, hw, collected_fst _ (by simpa [isComplete, List.all_eq_true] using hc), hacc.wexp cid w hw, ?_⟩
    intro id p hm
    have := mem_collected hm
    have hp := hprov.1 cid id p (mem_of_lookupE this.2)
    exact ⟨hp.1, hp.2, this.2⟩

/-- **recv_exact**, full strength.  After *any* step sequence `tr` (every interleaving of reader,
receivers, cancellations, failures and `Close`), if no earlier receive on `cid` has collected
("each correlation identifier is used for one exchange") and the locked scan of the receive
attached to `cid` completes with the map `m`, then `m` has exactly one entry per requested sender
and the entry of sender `id` is the **first** payload that `id`, as a member of the quorum,
deposited under exactly `cid` in `tr` — whatever else arrived before, between or after it:
identical or conflicting retransmissions, traffic on other IDs and namespaces, non-members. -/
theorem recv_exact : recv_exact_statement := by
  intro C P _ _ cfg tr cid m s hnc hscan
  have hfirst : FirstInv cfg tr s := first_run cfg tr
  simp only [step] at hscan
  rcases scan_cases s cid with ⟨_, _, _, hl | ⟨r, hr, hl⟩⟩ | ⟨w, hw, _, _, hc, _, _, hl⟩
  · rw [hl] at hscan
    have := congrArg List.length hscan
    simp at this
  · rw [hl] at hscan
    simp only [List.cons.injEq, Prod.mk.injEq, true_and, and_true] at hscan
    exact absurd hscan (hr m)
  · rw [hl] at hscan
    simp only [List.cons.injEq, Prod.mk.injEq, true_and, and_true, Result.complete.injEq] at hscan
    subst hscan
    have hall : ∀ id ∈ w.exp, (get s cid id).isSome = true := by
      simpa [isComplete, List.all_eq_true] using hc
    refine ⟨w, hw, collected_fst _ hall, ?_⟩
    intro id hid
    rw [lookupE_collected s cid id w.exp hid]
    cases hg : get s cid id with
    | none => have := hall id hid; simp [hg] at this
    | some p => exact ((hfirst cid id hnc).1 p hg).symm

/-- the general form without the one-exchange hypothesis: the entry of sender `id` is the first
payload `id` deposited under exactly `cid` **since the last completed collection** of `(cid, id)`
(`firstSince` threads that ghost along the run) -/
theorem recv_exact_since (cfg : Config) (tr : List (Step C P)) (cid : C) (m : List (Nat × P))
    (hscan : (step cfg (run cfg tr (init : State C P)) (.scan cid)).log
      = (cid, .complete m) :: (run cfg tr (init : State C P)).log) :
    ∃ w, (run cfg tr (init : State C P)).waiter cid = some w ∧ m.map Prod.fst = w.exp ∧
      ∀ id ∈ w.exp, lookupE id m = firstSince cfg tr cid id ∧ (lookupE id m).isSome = true := by
  have hsince := since_run cfg tr
  generalize run cfg tr (init : State C P) = s at *
  simp only [step] at hscan
  rcases scan_cases s cid with ⟨_, _, _, hl | ⟨r, hr, hl⟩⟩ | ⟨w, hw, _, _, hc, _, _, hl⟩
  · rw [hl] at hscan
    have := congrArg List.length hscan
    simp at this
  · rw [hl] at hscan
    simp only [List.cons.injEq, Prod.mk.injEq, true_and, and_true] at hscan
    exact absurd hscan (hr m)
  · rw [hl] at hscan
    simp only [List.cons.injEq, Prod.mk.injEq, true_and, and_true, Result.complete.injEq] at hscan
    subst hscan
    have hall : ∀ id ∈ w.exp, (get s cid id).isSome = true := by
      simpa [isComplete, List.all_eq_true] using hc
    refine ⟨w, hw, collected_fst _ hall, ?_⟩
    intro id hid
    rw [lookupE_collected s cid id w.exp hid]
    cases hg : get s cid id with
    | none => have := hall id hid; simp [hg] at this
    | some p => exact ⟨((hsince cid id).1 p hg).symm, rfl⟩

/-- a stored payload is never overwritten or dropped by anything except the collecting scan of its
own correlation ID: in particular not by retransmissions, by traffic or receives on other
IDs/namespaces, by cancellation, failure or `Close` -/
theorem stored_is_stable (cfg : Config) (s : State C P) (cid : C) (id : Nat) (p : P) (st : Step C P)
    (hst : st ≠ .scan cid) (h : get s cid id = some p) : get (step cfg s st) cid id = some p := by
  by_cases hd : ∃ a b c, st = .deliver a b c
  · obtain ⟨sender, c, q, rfl⟩ := hd
    simp only [step, deposit]
    split
    · exact h
    split
    · split
      · split
        · exact h
        · simpa [Router.get, (signal_fields _ c).1] using h
      · rename_i hnone
        split
        · simpa [Router.get, (failWith_fields s .full).1] using h
        · simp only [Router.get, (signal_fields _ c).1, lookupE]
          split
          · rename_i hk; cases hk
            simp [Router.get] at h hnone; rw [hnone] at h; cases h
          · exact h
    · exact h
  · by_cases hs : ∃ c, st = .scan c
    · obtain ⟨c, rfl⟩ := hs
      have hc : cid ≠ c := fun e => hst (by rw [e])
      simp only [step]
      rcases scan_cases s c with ⟨he, _⟩ | ⟨w, _, _, _, _, he, _⟩
      · simpa [Router.get, he] using h
      · simp only [Router.get, he]
        rw [lookupE_removeAll_of_not (by intro i _ e; cases e; exact hc rfl)]
        exact h
    · have hf := step_frame cfg s st (fun a b c e => hd ⟨a, b, c, e⟩) (fun c e => hs ⟨c, e⟩)
      simpa [Router.get, hf.1] using h

/-! ## retransmissions -/

/-- an identical retransmission is absorbed: the state does not change at all -/
theorem dup_absorbed (cfg : Config) (s : State C P) (id : Nat) (cid : C) (p : P)
    (h : get s cid id = some p) : step cfg s (.deliver id cid p) = s := by
  simp only [step, deposit, h]
  split
  · rfl
  · split <;> simp

/-- a conflicting retransmission from a member poisons the mailbox, tags the sender, and wakes the
attached receive; the poison is latched; a poisoned scan fails blaming the tagged sender; and a
blamed party really sent two different payloads under that correlation ID (no honest party is
ever blamed) -/
theorem conflict_poisons_and_blames (cfg : Config) :
    (∀ (s : State C P) (id : Nat) (cid : C) (p q : P), s.stopped = false → id ∈ cfg.members →
        get s cid id = some q → q ≠ p →
        (step cfg s (.deliver id cid p)).poison cid = some id ∧
        (step cfg s (.deliver id cid p)).entries = s.entries ∧
        ∀ w, s.waiter cid = some w → ∃ w', (step cfg s (.deliver id cid p)).waiter cid = some w' ∧ w'.token = true) ∧
    (∀ (s : State C P) (st : Step C P) (cid : C), s.poison cid ≠ none → (step cfg s st).poison cid ≠ none) ∧
    (∀ (s : State C P) (cid : C) (w : Waiter) (b : Nat), s.waiter cid = some w → w.phase = .running →
        s.poison cid = some b → (step cfg s (.scan cid)).log = (cid, .poisoned b) :: s.log) ∧
    (∀ (tr : List (Step C P)) (cid : C) (b : Nat), (run cfg tr (init : State C P)).poison cid = some b →
        b ∈ cfg.members ∧ ∃ p q, p ≠ q ∧ Step.deliver b cid p ∈ tr ∧ Step.deliver b cid q ∈ tr) := by
  refine ⟨?_, ?_, ?_, ?_⟩
  · intro s id cid p q hst hm hg hne
    simp only [step, deposit, hst, hm, hg, hne, if_true, if_false, Bool.false_eq_true]
    refine ⟨by simp [(signal_fields _ cid).2.1], by simp [(signal_fields _ cid).1], ?_⟩
    intro w hw
    simp only [signal, hw]
    exact ⟨{ w with token := true }, by simp, rfl⟩
  · intro s st cid hp
    by_cases hd : ∃ a b c, st = .deliver a b c
    · obtain ⟨sender, c, q, rfl⟩ := hd
      simp only [step, deposit]
      split
      · exact hp
      split
      · split
        · split
          · exact hp
          · simp only [(signal_fields _ c).2.1, upd_apply]
            split
            · simp
            · exact hp
        · split
          · simpa [(failWith_fields s .full).2.1] using hp
          · simpa [(signal_fields _ c).2.1] using hp
      · exact hp
    · by_cases hs : ∃ c, st = .scan c
      · obtain ⟨c, rfl⟩ := hs
        simp only [step]
        rcases scan_cases s c with ⟨_, _, hpo, _⟩ | ⟨w, _, _, _, _, _, hpo, _⟩ <;> rw [hpo] <;> exact hp
      · rw [(step_frame cfg s st (fun a b c e => hd ⟨a, b, c, e⟩) (fun c e => hs ⟨c, e⟩)).2.1]; exact hp
  · intro s cid w b hw hph hpo
    simp [step, scan, hw, hph, hpo, finish]
  · intro tr cid b h
    exact (prov_run cfg tr).2 cid b h

/-! ## cancellation -/

/-- a receive that ends cancelled (or failed, or parks again) removes nothing from the mailboxes:
payloads, poison marks and the buffer count are exactly as before; together with
`stored_is_stable` a retry with the same arguments finds every payload again -/
theorem cancel_loses_nothing (cfg : Config) (s : State C P) (cid : C) (r : Result P)
    (hr : ∀ m, r ≠ .complete m)
    (h : (step cfg s (.scan cid)).log = (cid, r) :: s.log ∨ (step cfg s (.scan cid)).log = s.log) :
    (step cfg s (.scan cid)).entries = s.entries ∧ (step cfg s (.scan cid)).buffered = s.buffered ∧
    (step cfg s (.scan cid)).poison = s.poison := by
  simp only [step] at h ⊢
  rcases scan_cases s cid with ⟨he, hb, hp, _⟩ | ⟨w, _, _, _, _, _, _, hl⟩
  · exact ⟨he, hb, hp⟩
  · rw [hl] at h
    rcases h with h | h
    · simp only [List.cons.injEq, Prod.mk.injEq, true_and, and_true] at h
      exact absurd h.symm (hr _)
    · have := congrArg List.length h; simp at this

/-- the scan of a cancelled receive whose set is incomplete and whose box is clean returns
`cancelled` (used with the previous theorem) -/
theorem cancelled_scan (cfg : Config) (s : State C P) (cid : C) (w : Waiter)
    (hw : s.waiter cid = some w) (hph : w.phase = .running) (hpo : s.poison cid = none)
    (hc : isComplete s cid w.exp = false) (hf : s.fatal = none) (hcan : w.cancelled = true) :
    (step cfg s (.scan cid)).log = (cid, .cancelled) :: s.log := by
  simp [step, scan, hw, hph, hpo, hc, hf, hcan, finish]

/-! ## buffer accounting -/

/-- number of payloads held in the mailbox of `cid` -/
def boxSize (s : State C P) (cid : C) : Nat := (s.entries.map (·.1.1)).count cid

/-- `buffered` is the sum of the mailbox sizes, never exceeds the bound, and no mailbox holds two
payloads of one sender -/
theorem buffered_eq_sum (cfg : Config) (tr : List (Step C P)) :
    let s := run cfg tr (init : State C P)
    s.buffered = (((s.entries.map (·.1.1)).dedup).map (boxSize s)).sum ∧
    s.buffered = s.entries.length ∧ s.buffered ≤ cfg.bound ∧ (s.entries.map Prod.fst).Nodup := by
  have h := acc_run (C := C) (P := P) cfg tr
  refine ⟨?_, h.len, h.bound, h.nodup⟩
  have h2 : ((((run cfg tr (init : State C P)).entries.map (·.1.1)).dedup).map
      (boxSize (run cfg tr (init : State C P)))).sum
      = ((run cfg tr (init : State C P)).entries.map (·.1.1)).length :=
    List.sum_map_count_dedup_eq_length ((run cfg tr (init : State C P)).entries.map (·.1.1))
  rw [h2, List.length_map]
  exact h.len

/-- below the bound a new message of a member is stored (the reader does not fail) -/
theorem deposit_stores (cfg : Config) (s : State C P) (id : Nat) (cid : C) (p : P)
    (hst : s.stopped = false) (hm : id ∈ cfg.members) (hg : get s cid id = none) (hb : s.buffered < cfg.bound) :
    get (step cfg s (.deliver id cid p)) cid id = some p ∧ (step cfg s (.deliver id cid p)).fatal = s.fatal := by
  have hb' : ¬ cfg.bound ≤ s.buffered := by omega
  simp only [step, deposit, hst, hm, hg, hb', if_true, if_false, Bool.false_eq_true]
  exact ⟨by simp [Router.get, (signal_fields _ cid).1, lookupE], by simp [(signal_fields _ cid).2.2.2.2.2]⟩

/-- **dup_does_not_consume_budget**: a retransmission (identical *or* conflicting) of a message that
is still in its mailbox leaves the buffer budget and the stored payloads untouched -/
theorem dup_does_not_consume_budget (cfg : Config) (s : State C P) (id : Nat) (cid : C) (p q : P)
    (h : get s cid id = some q) :
    (step cfg s (.deliver id cid p)).buffered = s.buffered ∧ (step cfg s (.deliver id cid p)).entries = s.entries := by
  simp only [step]
  rcases deposit_cases cfg s id cid p with ⟨he, _, hb, _⟩ | ⟨hn, _⟩ | ⟨hn, _⟩
  · exact ⟨hb, he⟩
  · rw [hn] at h; cases h
  · rw [hn] at h; cases h

/-- the `(cid, sender)` keys under which members delivered anything in the trace -/
def memberKeys (cfg : Config) (tr : List (Step C P)) : List (C × Nat) :=
  tr.filterMap fun
    | .deliver id cid _ => if id ∈ cfg.members then some (cid, id) else none
    | _ => none

/-- over the whole life of a router the budget in use is at most the number of *distinct*
(correlation ID, member) pairs that ever delivered: no number of retransmissions, messages of
non-members, cancellations or failed receives can use it up -/
theorem budget_le_distinct_keys (cfg : Config) (tr : List (Step C P)) :
    (run cfg tr (init : State C P)).buffered ≤ (memberKeys cfg tr).dedup.length := by
  have hacc := acc_run (C := C) (P := P) cfg tr
  have hprov := prov_run cfg tr
  rw [hacc.len, ← List.length_map (f := Prod.fst)]
  apply List.Subperm.length_le
  apply hacc.nodup.subperm
  intro k hk
  obtain ⟨e, he, rfl⟩ := List.mem_map.mp hk
  obtain ⟨⟨cid, id⟩, p⟩ := e
  have := hprov.1 cid id p he
  apply List.mem_dedup.mpr
  simp only [memberKeys, List.mem_filterMap]
  exact ⟨_, this.1, by simp [this.2]⟩

/-- progress: after *any* step sequence, a receive that is attached (parked or about to scan),
whose mailbox is not poisoned and holds a payload of every requested sender, completes in its next
scheduled steps — directly, or after consuming the wake-up token, which is then guaranteed to be
pending (`no_lost_wakeup`) -/
theorem progress_complete (cfg : Config) (tr : List (Step C P)) (cid : C) (w : Waiter) :
    let s := run cfg tr (init : State C P)
    s.waiter cid = some w → (w.phase = .parked ∨ w.phase = .running) → s.poison cid = none →
    (∀ id ∈ w.exp, (get s cid id).isSome = true) →
    ∃ pre, (pre = [] ∨ pre = [Step.wakeToken cid]) ∧
      (run cfg (pre ++ [.scan cid]) s).log = (cid, .complete (collected s cid w.exp)) :: s.log := by
  intro s hw hph hpo hall
  have htok : TokInv s := tok_run cfg tr
  have hc : isComplete s cid w.exp = true := by simpa [isComplete, List.all_eq_true] using hall
  rcases hph with hph | hph
  · have ht : w.token = true := by
      cases ht : w.token with
      | true => rfl
      | false => have := (htok cid w hw hph ht).2; rw [hc] at this; cases this
    refine ⟨[.wakeToken cid], Or.inr rfl, ?_⟩
    simp only [run, List.cons_append, List.nil_append, List.foldl_cons, List.foldl_nil, step, wake, hw, hph, ht,
      and_self, if_true]
    have hc' : isComplete ({ s with waiter := upd s.waiter cid (some { w with phase := .running, token := false }) } : State C P)
        cid w.exp = true := by rw [← hc]; exact isComplete_congr _ (by intro id; rfl)
    simp [scan, hpo, hc', finish, collected, Router.get]
  · refine ⟨[], Or.inl rfl, ?_⟩
    simp [run, step, scan, hw, hph, hpo, hc, finish]

/-- **progress_below_bound**: the last missing message of an attached receive arrives while the
reader is alive and fewer than `bound` messages are outstanding.  Then it is stored (not dropped,
the reader does not fail), and the receive completes in its next scheduled steps with exactly one
entry per requested sender, the new payload among them.  So a receive never fails or hangs while
its messages are deliverable and fewer undelivered messages are outstanding than the bound. -/
theorem progress_below_bound (cfg : Config) (tr : List (Step C P)) (cid : C) (w : Waiter) (id : Nat) (p : P) :
    let s := run cfg tr (init : State C P)
    s.waiter cid = some w → (w.phase = .parked ∨ w.phase = .running) → s.poison cid = none →
    s.stopped = false → s.buffered < cfg.bound → id ∈ cfg.members → get s cid id = none →
    (∀ j ∈ w.exp, j ≠ id → (get s cid j).isSome = true) →
    ∃ pre m, (pre = [] ∨ pre = [Step.wakeToken cid]) ∧
      (run cfg (pre ++ [.scan cid]) (step cfg s (.deliver id cid p))).log = (cid, .complete m) :: s.log ∧
      m.map Prod.fst = w.exp ∧ (id ∈ w.exp → lookupE id m = some p) ∧
      (step cfg s (.deliver id cid p)).fatal = s.fatal := by
  intro s hw hph hpo hst hb hm hg hrest
  have hstore := deposit_stores cfg s id cid p hst hm hg hb
  have hs1 : step cfg s (.deliver id cid p) = run cfg (tr ++ [.deliver id cid p]) (init : State C P) :=
    (run_snoc cfg tr _ _).symm
  -- the state after the deposit
  have hlog : (step cfg s (.deliver id cid p)).log = s.log := by
    rcases deposit_cases cfg s id cid p with h | h | h
    · exact h.2.2.2.1
    · exact h.2.2.2.2.2.2
    · exact h.2.2.2.2.2.2.2
  have hpo1 : (step cfg s (.deliver id cid p)).poison cid = none := by
    have hb' : ¬ cfg.bound ≤ s.buffered := by omega
    simp only [step, deposit, hst, hm, hg, hb', if_true, if_false, Bool.false_eq_true]
    rw [(signal_fields _ cid).2.1]; exact hpo
  have hw1 : (step cfg s (.deliver id cid p)).waiter cid = some { w with token := true } := by
    have hb' : ¬ cfg.bound ≤ s.buffered := by omega
    simp only [step, deposit, hst, hm, hg, hb', if_true, if_false, Bool.false_eq_true]
    rw [signal_waiter]; simp [hw]
  have hall1 : ∀ j ∈ ({ w with token := true } : Waiter).exp,
      (get (step cfg s (.deliver id cid p)) cid j).isSome = true := by
    intro j hj
    by_cases hji : j = id
    · subst hji; rw [hstore.1]; rfl
    · have := hrest j hj hji
      cases hgj : get s cid j with
      | none => simp [hgj] at this
      | some q => rw [stored_is_stable cfg s cid j q _ (by intro e; cases e) hgj]; rfl
  have hprog := progress_complete cfg (tr ++ [.deliver id cid p]) cid { w with token := true }
  simp only [← hs1] at hprog
  obtain ⟨pre, hpre, hl⟩ := hprog hw1 hph hpo1 hall1
  refine ⟨pre, _, hpre, by rw [hl, hlog], collected_fst _ hall1, ?_, hstore.2⟩
  intro hid
  rw [lookupE_collected _ cid id _ hid, hstore.1]

/-- **no_mailbox_leak**: after *any* step sequence the key set of the Go map `boxes` (tracked by
`boxesStep`, which mirrors `boxFor` and the `delete` of the deferred section) has no repetitions,
contains every correlation ID whose mailbox is in use (holds a payload, is poisoned, or has a
receive attached), and — while the reader is alive — nothing else: completed, cancelled and failed
receives leave no mailbox object behind, so `len(boxes)` is bounded by the undelivered messages,
the poisoned IDs and the attached receives. -/
theorem no_mailbox_leak (cfg : Config) (tr : List (Step C P)) :
    let sb := runBoxes cfg tr ((init : State C P), ([] : List C))
    sb.1 = run cfg tr (init : State C P) ∧ sb.2.Nodup ∧ (∀ cid, inUse sb.1 cid → cid ∈ sb.2) ∧
    (sb.1.stopped = false → ∀ cid ∈ sb.2, inUse sb.1 cid) := by
  have h := box_run (C := C) (P := P) cfg tr
  exact ⟨runBoxes_fst cfg tr _, h.nodup, h.live, h.noleak⟩

/-! ## no lost wake-up -/

/-- after *any* step sequence: a receive parked in `select` with no pending token has nothing to
see (its mailbox is neither poisoned nor complete); consequently, whenever the outcome of a parked
receive is decided — poisoned, complete, router failed, or cancelled — one of its wake-up
transitions is enabled, and waking followed by the locked scan returns (progress in the model). -/
theorem no_lost_wakeup (cfg : Config) (tr : List (Step C P)) :
    let s := run cfg tr (init : State C P)
    TokInv s ∧
    ∀ cid w, s.waiter cid = some w → w.phase = .parked →
      (s.poison cid ≠ none ∨ isComplete s cid w.exp = true ∨ s.fatal ≠ none ∨ w.cancelled = true) →
      ∃ wk ∈ [Step.wakeToken cid, Step.wakeCtx cid, Step.wakeFailed cid],
        ∃ r, (step cfg (step cfg s wk) (.scan cid)).log = (cid, r) :: s.log := by
  have htok := tok_run (C := C) (P := P) cfg tr
  refine ⟨htok, ?_⟩
  generalize run cfg tr (init : State C P) = s at *
  intro cid w hw hph hready
  -- which wake-up is enabled
  have hen : w.token = true ∨ (w.token = false ∧ (s.fatal ≠ none ∨ w.cancelled = true)) := by
    cases ht : w.token with
    | true => exact Or.inl rfl
    | false =>
      right
      refine ⟨rfl, ?_⟩
      have := htok cid w hw hph ht
      rcases hready with h | h | h | h
      · exact absurd this.1 h
      · rw [this.2] at h; cases h
      · exact Or.inl h
      · exact Or.inr h
  -- after any enabled wake-up the scan decides
  have scan_decides : ∀ (s1 : State C P) (w1 : Waiter), s1.waiter cid = some w1 → w1.phase = .running →
      w1.exp = w.exp → w1.cancelled = w.cancelled → s1.poison = s.poison → s1.entries = s.entries →
      s1.fatal = s.fatal → s1.log = s.log → ∃ r, (scan s1 cid).log = (cid, r) :: s.log := by
    intro s1 w1 hw1 hph1 hexp hcan hpo hent hfat hlog
    have hcomp : isComplete s1 cid w1.exp = isComplete s cid w.exp := by
      rw [hexp]; exact isComplete_congr _ (by intro id; simp [Router.get, hent])
    simp only [scan, hw1, hph1, if_true]
    cases hp : s1.poison cid with
    | some b => exact ⟨.poisoned b, by simp [finish, hlog]⟩
    | none =>
      simp only
      by_cases hc : isComplete s1 cid w1.exp = true
      · simp only [hc, if_true]; exact ⟨.complete (collected s1 cid w1.exp), by simp [finish, hlog]⟩
      · simp only [hc, if_false, Bool.false_eq_true]
        cases hf : s1.fatal with
        | some k => exact ⟨.fatal k, by simp [finish, hlog]⟩
        | none =>
          simp only
          by_cases hcc : w1.cancelled = true
          · simp only [hcc, if_true]; exact ⟨.cancelled, by simp [finish, hlog]⟩
          · exfalso
            rw [hpo] at hp; rw [hcomp] at hc; rw [hfat] at hf; rw [hcan] at hcc
            rcases hready with h | h | h | h
            · exact h hp
            · exact hc h
            · exact h hf
            · exact hcc h
  rcases hen with ht | ⟨_, hf | hc⟩
  · refine ⟨.wakeToken cid, by simp, ?_⟩
    simp only [step, wake, hw, hph, ht, and_self, if_true]
    exact scan_decides _ _ (upd_same _ _ _) rfl rfl rfl rfl rfl rfl rfl
  · refine ⟨.wakeFailed cid, by simp, ?_⟩
    have : s.fatal.isSome = true := by cases h : s.fatal <;> simp_all
    simp only [step, wake, hw, hph, this, and_self, if_true]
    exact scan_decides _ _ (upd_same _ _ _) rfl rfl rfl rfl rfl rfl rfl
  · refine ⟨.wakeCtx cid, by simp, ?_⟩
    simp only [step, wake, hw, hph, hc, and_self, if_true]
    exact scan_decides _ _ (upd_same _ _ _) rfl rfl hc.symm rfl rfl rfl rfl

/-! ## namespaces -/

theorem sep_split {n n' x x' : List Char} (hn : sep ∉ n) (hn' : sep ∉ n')
    (h : n ++ sep :: x = n' ++ sep :: x') : n = n' ∧ x = x' := by
  induction n generalizing n' with
  | nil =>
    cases n' with
    | nil => simpa using h
    | cons a n' =>
      simp only [List.nil_append, List.cons_append, List.cons.injEq] at h
      exact absurd (by rw [← h.1]; simp) hn'
  | cons a n ih =>
    cases n' with
    | nil =>
      simp only [List.nil_append, List.cons_append, List.cons.injEq] at h
      exact absurd (by rw [h.1]; simp) hn
    | cons b n' =>
      simp only [List.cons_append, List.cons.injEq] at h
      have := ih (n' := n') (fun hm => hn (List.mem_cons_of_mem _ hm)) (fun hm => hn' (List.mem_cons_of_mem _ hm)) h.2
      exact ⟨by rw [h.1, this.1], this.2⟩

/-- views with different namespace paths, or different correlation IDs, never share a wire ID —
given that namespaces and correlation IDs do not contain the separator (as `Namespaced` documents) -/
theorem namespace_disjoint : ∀ (path path' : List (List Char)) (cid cid' : List Char),
    (∀ n ∈ path, sep ∉ n) → (∀ n ∈ path', sep ∉ n) → sep ∉ cid → sep ∉ cid' →
    wire path cid = wire path' cid' → path = path' ∧ cid = cid'
  | [], [], cid, cid', _, _, _, _, h => ⟨rfl, by simpa [wire] using h⟩
  | [], n' :: rest', cid, cid', _, _, hc, _, h => by
    simp only [wire] at h
    exact absurd (by rw [h]; simp) hc
  | n :: rest, [], cid, cid', _, _, _, hc', h => by
    simp only [wire] at h
    exact absurd (by rw [← h]; simp) hc'
  | n :: rest, n' :: rest', cid, cid', hp, hp', hc, hc', h => by
    simp only [wire] at h
    have h1 := sep_split (hp n (by simp)) (hp' n' (by simp)) h
    have h2 := namespace_disjoint rest rest' cid cid' (fun m hm => hp m (List.mem_cons_of_mem _ hm))
      (fun m hm => hp' m (List.mem_cons_of_mem _ hm)) hc hc' h1.2
    exact ⟨by rw [h1.1, h2.1], h2.2⟩

/-! ## echo broadcast -/

/-- Two honest parties `p ≠ q` that both run round 3 — it suffices that `p` accepts sender `s` —
hold the same payload for `s`: `p`'s test includes the digest echoed by `q`, an honest `q` echoes
the digest of what it holds, and the digest is injective on the payloads that occur.
(`hecho`: the router delivered to `p` what `q` sent, which is `recv_exact`.) -/
theorem echo_agreement {P D : Type} [DecidableEq D] (H : P → D) (S : Set P) (hH : Set.InjOn H S)
    (quorum : List Nat) (p q s : Nat) (hq : q ∈ quorum) (hqp : q ≠ p) (hqs : q ≠ s)
    (r1p r1q : Nat → P) (echoP : Nat → Nat → D)
    (hecho : echoP q = Echo.honestEcho H r1q)
    (hS : r1p s ∈ S ∧ r1q s ∈ S)
    (hacc : Echo.acceptsSender H quorum p r1p echoP s = true) : r1p s = r1q s := by
  simp only [Echo.acceptsSender, List.all_eq_true] at hacc
  have := hacc q hq
  simp only [hqp, hqs, decide_false, Bool.false_or, decide_eq_true_eq, hecho, Echo.honestEcho] at this
  exact (hH hS.2 hS.1 this).symm

/-- whole-round form: if round 3 of both honest parties delivers, they deliver the same payload for
every third party -/
theorem echo_agreement_round3 {P D : Type} [DecidableEq D] (H : P → D) (S : Set P) (hH : Set.InjOn H S)
    (quorum : List Nat) (p q s : Nat) (hp : p ∈ quorum) (hq : q ∈ quorum) (hs : s ∈ quorum)
    (hqp : q ≠ p) (hqs : q ≠ s) (hps : p ≠ s)
    (r1p r1q : Nat → P) (echoP echoQ : Nat → Nat → D)
    (hecho : echoP q = Echo.honestEcho H r1q)
    (hS : r1p s ∈ S ∧ r1q s ∈ S) (mp mq : List (Nat × P))
    (hmp : Echo.round3 H quorum p r1p echoP = some mp) (hmq : Echo.round3 H quorum q r1q echoQ = some mq) :
    ∀ v v', (s, v) ∈ mp → (s, v') ∈ mq → v = v' := by
  simp only [Echo.round3] at hmp hmq
  split at hmp <;> [skip; cases hmp]
  split at hmq <;> [skip; cases hmq]
  rename_i hallp hallq
  cases hmp; cases hmq
  intro v v' hv hv'
  simp only [List.mem_map, List.mem_filter, Prod.mk.injEq] at hv hv'
  obtain ⟨a, _, ha, hva⟩ := hv
  obtain ⟨b, _, hb, hvb⟩ := hv'
  rw [← hva, ← hvb, ha, hb]
  rw [List.all_eq_true] at hallp
  have := hallp s (by simp [List.mem_filter, hs, Ne.symm hps])
  exact echo_agreement H S hH quorum p q s hq hqp hqs r1p r1q echoP hecho hS this

/-! ## non-vacuity: concrete histories -/

section Examples

def exCfg : Config := { members := [1, 2, 3], bound := 4 }

/-- deposit, identical retransmission (absorbed), attach, conflicting retransmission (poison),
scan: the receive fails and blames sender 2 -/
def exTrace : List (Step Nat Nat) :=
  [.deliver 2 7 10, .deliver 2 7 10, .attach 7 [2, 3], .scan 7, .deliver 2 7 11, .wakeToken 7, .scan 7]

example : (run exCfg exTrace (init : State Nat Nat)).log = [(7, .poisoned 2)] := by decide
example : (run exCfg exTrace (init : State Nat Nat)).buffered = 1 := by decide
example : (run exCfg exTrace (init : State Nat Nat)).poison 7 = some 2 := by decide

/-- a completed receive (hypothesis of `recv_exact_partial` is satisfiable) with traffic on another
ID and from a non-member in between -/
def exTrace2 : List (Step Nat Nat) :=
  [.attach 7 [2, 3], .scan 7, .deliver 3 7 20, .deliver 9 7 66, .deliver 2 8 55, .wakeToken 7, .scan 7,
   .deliver 2 7 10, .deliver 2 7 10, .wakeToken 7]

example : (step exCfg (run exCfg exTrace2 (init : State Nat Nat)) (.scan 7)).log
    = (7, .complete [(2, 10), (3, 20)]) :: (run exCfg exTrace2 (init : State Nat Nat)).log := by decide

/-- `recv_exact` on that history: no earlier collection on ID 7, and the payloads returned are the
first deposits of senders 2 and 3 under ID 7 -/
example : noCollect (run exCfg exTrace2 (init : State Nat Nat)) 7 := by
  have h : (run exCfg exTrace2 (init : State Nat Nat)).log = [] := by decide
  intro m hm; rw [h] at hm; cases hm
example : firstDeposit exCfg exTrace2 7 2 = some 10 ∧ firstDeposit exCfg exTrace2 7 3 = some 20 := by decide

/-- `recv_exact_since`: the ID is used a second time after a completed collection; the second
receive returns the first payload deposited *since* (11), not the first of the trace (10) -/
def exTraceReuse : List (Step Nat Nat) :=
  [.deliver 2 7 10, .attach 7 [2], .scan 7, .detach 7, .deliver 2 7 11, .deliver 2 7 11, .attach 7 [2]]

example : (step exCfg (run exCfg exTraceReuse (init : State Nat Nat)) (.scan 7)).log
    = (7, .complete [(2, 11)]) :: (run exCfg exTraceReuse (init : State Nat Nat)).log := by decide
example : firstSince exCfg exTraceReuse 7 2 = some 11 ∧ firstDeposit exCfg exTraceReuse 7 2 = some 10 := by decide

/-- `dup_does_not_consume_budget` / `budget_le_distinct_keys`: five copies (one of them conflicting)
of one message use one unit of the budget -/
def exTraceDups : List (Step Nat Nat) :=
  [.deliver 2 7 10, .deliver 2 7 10, .deliver 2 7 10, .deliver 9 7 10, .deliver 2 7 11, .deliver 2 7 10]

example : get (run exCfg exTraceDups (init : State Nat Nat)) 7 2 = some 10 := by decide
example : (run exCfg exTraceDups (init : State Nat Nat)).buffered = 1 ∧
    (memberKeys exCfg exTraceDups).dedup.length = 1 := by decide
example : (step exCfg (run exCfg exTraceDups (init : State Nat Nat)) (.deliver 2 7 10)).buffered = 1 :=
  (dup_does_not_consume_budget exCfg _ 2 7 10 10 (by decide)).1.trans (by decide)

/-- `progress_below_bound`: receive parked on {2,3}, 3 has arrived, one of four slots in use; the
message of 2 arrives: all hypotheses hold, and waking + scanning completes with both payloads -/
def exTraceParked : List (Step Nat Nat) := [.attach 7 [2, 3], .scan 7, .deliver 3 7 20, .wakeToken 7, .scan 7]

example : ∃ pre m, (pre = [] ∨ pre = [Step.wakeToken 7]) ∧
    (run exCfg (pre ++ [.scan 7]) (step exCfg (run exCfg exTraceParked (init : State Nat Nat)) (.deliver 2 7 10))).log
      = (7, .complete m) :: (run exCfg exTraceParked (init : State Nat Nat)).log ∧
    m.map Prod.fst = [2, 3] ∧ (2 ∈ [2, 3] → lookupE 2 m = some 10) ∧
    (step exCfg (run exCfg exTraceParked (init : State Nat Nat)) (.deliver 2 7 10)).fatal
      = (run exCfg exTraceParked (init : State Nat Nat)).fatal :=
  progress_below_bound exCfg exTraceParked 7 ⟨[2, 3], false, .parked, false⟩ 2 10
    (by decide) (Or.inl rfl) (by decide) (by decide) (by decide) (by decide) (by decide) (by decide)
example : (run exCfg (exTraceParked ++ [.deliver 2 7 10, .wakeToken 7, .scan 7]) (init : State Nat Nat)).log
    = [(7, .complete [(2, 10), (3, 20)])] := by decide

/-- `progress_complete` with the token pending: the parked receive of `exTraceParked` after the
deposit of 2 -/
example : ((run exCfg (exTraceParked ++ [.deliver 2 7 10]) (init : State Nat Nat)).waiter 7).map
    (fun w => (w.phase, w.token)) = some (.parked, true) := by decide

/-- `no_mailbox_leak`: the mailbox of ID 7 exists while its message is undelivered and is gone after
the collecting receive has detached; a cancelled receive on an empty mailbox leaves nothing -/
example : (runBoxes exCfg [.deliver 2 7 10, .deliver 2 7 10] ((init : State Nat Nat), [])).2 = [7] := by decide
example : (runBoxes exCfg [.deliver 2 7 10, .attach 7 [2], .scan 7, .detach 7] ((init : State Nat Nat), [])).2 = [] := by decide
example : (runBoxes exCfg [.attach 8 [2], .scan 8, .cancel 8, .wakeCtx 8, .scan 8, .detach 8] ((init : State Nat Nat), [])).2 = [] := by
  decide

/-- a parked receive whose context is cancelled: the hypotheses of `no_lost_wakeup` and
`cancel_loses_nothing` are satisfiable, and the payload survives -/
def exTrace3 : List (Step Nat Nat) := [.attach 7 [2, 3], .deliver 2 7 10, .scan 7, .cancel 7]

example : ((run exCfg exTrace3 (init : State Nat Nat)).waiter 7).map (fun w => (w.phase, w.cancelled, w.exp))
    = some (.parked, true, [2, 3]) := by decide
example : (run exCfg (exTrace3 ++ [.wakeCtx 7, .scan 7]) (init : State Nat Nat)).log = [(7, .cancelled)] := by decide
example : get (run exCfg (exTrace3 ++ [.wakeCtx 7, .scan 7]) (init : State Nat Nat)) 7 2 = some 10 := by decide

/-- the buffer bound latches `full` -/
example : (run exCfg [.deliver 2 1 0, .deliver 2 2 0, .deliver 2 3 0, .deliver 2 4 0, .deliver 2 5 0]
    (init : State Nat Nat)).fatal = some .full := by decide

example : wire ["a".toList, "b".toList] "c".toList = "a/b/c".toList := by decide
example : wire ["a".toList] "bc".toList ≠ wire ["ab".toList] "c".toList := by decide

/-- echo: an equivocating sender 3 (payload 1 to party 1, payload 2 to party 2) is rejected by both -/
example : Echo.round3 (fun v : Nat => v) [1, 2, 3] 1 (fun s => if s = 3 then 1 else 10 + s)
    (fun e s => if e = 2 ∧ s = 3 then 2 else if e = 3 ∧ s = 2 then 12 else 0) = none := by decide
example : Echo.round3 (fun v : Nat => v) [1, 2, 3] 1 (fun s => if s = 3 then 1 else 10 + s)
    (fun e s => if e = 2 ∧ s = 3 then 1 else if e = 3 ∧ s = 2 then 12 else 0) = some [(2, 12), (3, 1)] := by decide

end Examples

end BronVerif.Props.C11
