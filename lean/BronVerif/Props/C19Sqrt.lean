import BronVerif.Lemmas.H2CSqrtRatio
import BronVerif.Model.Curves
import Mathlib.Data.ZMod.Basic
import Mathlib.Algebra.Field.ZMod
import Mathlib.Tactic.NormNum.Prime
/-!
Property theorems of C19, hash-to-curve part: the GENERATED generic `sqrt_ratio` (`Gen/H2CMaps.sqrtRatio` with its
loop `sqrtRatioLoop`, translated from `SqrtRatio` in sqrt.go; RFC 9380 §F.2.1.1; used by pallas, vesta and
BLS12-381 G2) meets the `sqrt_ratio` specification, over an arbitrary field, for every loop length `c1`.

The answer for `u = 0` is `(false, 0)` (as in the RFC pseudocode), so the clause "`false` ⇒ `u/v` is a non-square"
holds for `u ≠ 0` only: `H2CSqrt.SqrtRatioSpecW`.  `sswu_on_curve_generic` proves that the generated SSWU map
lands on the curve for every `u` under this weaker specification.
-/
namespace BronVerif.Props.C19
open BronVerif.Gen.H2CMaps BronVerif.Lemmas

/-- **Generic `sqrt_ratio` meets its specification** (any `c1 ≥ 1`, i.e. any number of loop iterations).
`fpow` is exponentiation; `q - 1 = 2^c1·c2` with `c2 = 2·c3 + 1` enters as `a^(2^c1·c2) = 1` for `a ≠ 0`;
`c5 = 2^(c1-1)`, `c6 = Z^c2`, `c7 = Z^((c2+1)/2)`, `Z^((q-1)/2) = -1` (Euler's criterion for the non-square `Z`).
Conclusion: for `v ≠ 0` the routine returns `(true, y)` with `y²·v = u`, or `(false, y)` with `y²·v = Z·u` and,
when `u ≠ 0`, `u/v` not a square. -/
theorem sqrt_ratio_generic_spec {F : Type} [Field F] [DecidableEq F] (Z : F) (fpow : F → Nat → F)
    (hpow : ∀ a e, fpow a e = a ^ e) (c1 c3 c4 c5 : Nat) (c6 c7 : F) (hc1 : 1 ≤ c1) (hc5 : c5 = 2 ^ (c1 - 1))
    (hc6 : c6 = Z ^ (2 * c3 + 1)) (hc7 : c7 = Z ^ (c3 + 1))
    (hF : ∀ a : F, a ≠ 0 → a ^ (2 ^ c1 * (2 * c3 + 1)) = 1) (hZ : Z ^ (2 ^ (c1 - 1) * (2 * c3 + 1)) = -1) :
    H2CSqrt.SqrtRatioSpecW Z (sqrtRatio fpow c1 c3 c4 c5 c6 c7) := by
  obtain ⟨k, rfl⟩ : ∃ k, c1 = k + 1 := ⟨c1 - 1, by omega⟩
  exact H2CSqrt.sqrtRatio_spec Z fpow hpow k c3 c4 c5 c6 c7 hc5 hc6 hc7 hF hZ

/-- the strict specification (`false` ⇒ non-square, also for `u = 0`) is NOT met: `sqrt_ratio(0, v) = (false, 0)` -/
theorem sqrt_ratio_generic_zero {F : Type} [Field F] [DecidableEq F] (fpow : F → Nat → F)
    (hpow : ∀ a e, fpow a e = a ^ e) (c1 c3 c4 c5 : Nat) (c6 c7 v : F) (hc5 : c5 ≠ 0) :
    sqrtRatio fpow c1 c3 c4 c5 c6 c7 0 v = (false, 0) :=
  H2CSqrt.sqrtRatio_zero fpow hpow c1 c3 c4 c5 c6 c7 v hc5

/-- For every `u` the generated SSWU map with a `sqrt_ratio` of RFC strength (`SqrtRatioSpecW`) returns a point of
`y² = x³ + A·x + B`; `g(B/(Z·A))` must be a non-zero square. -/
theorem sswu_on_curve_generic {F : Type} [Field F] [DecidableEq F] (A B Z : F) (mulByA mulByB : F → F)
    (sr : F → F → Bool × F) (sgn0 : F → Bool)
    (hA : ∀ x, mulByA x = A * x) (hB : ∀ x, mulByB x = B * x)
    (hA0 : A ≠ 0) (hZ : ¬ IsSquare Z) (hsr : H2CSqrt.SqrtRatioSpecW Z sr)
    (hexc : IsSquare ((B / (Z * A)) ^ 3 + A * (B / (Z * A)) + B))
    (hexc0 : (B / (Z * A)) ^ 3 + A * (B / (Z * A)) + B ≠ 0) (u : F) :
    (sswu Z mulByA mulByB sr sgn0 u).2 ^ 2 =
      (sswu Z mulByA mulByB sr sgn0 u).1 ^ 3 + A * (sswu Z mulByA mulByB sr sgn0 u).1 + B :=
  H2CSqrt.sswu_on_curve_w A B Z mulByA mulByB sr sgn0 hA hB hA0 hZ hsr hexc hexc0 u

local instance decIsSquareZModSqrt {n : ℕ} [NeZero n] : DecidablePred (IsSquare : ZMod n → Prop) :=
  fun a => decidable_of_iff (∃ r, a = r * r) Iff.rfl

local instance fact_prime_17 : Fact (Nat.Prime 17) := ⟨by norm_num⟩

/-- non-vacuity over `ZMod 17` (`q - 1 = 2⁴·1`: `c1 = 4`, three loop iterations, `c3 = 0`, `c4 = 15`, `c5 = 8`),
`Z = 3` (a primitive root), `c6 = c7 = 3`: all hypotheses hold -/
example : H2CSqrt.SqrtRatioSpecW (3 : ZMod 17) (sqrtRatio (fun a n => a ^ n) 4 0 15 8 3 3) :=
  sqrt_ratio_generic_spec 3 _ (fun _ _ => rfl) 4 0 15 8 3 3 (by decide) (by decide) (by decide) (by decide)
    (by decide) (by decide)

/-- … and the toy curve `y² = x³ + x + 1` over `ZMod 17` with the generic routine: every `u` lands on the curve -/
example : ∀ u : ZMod 17,
    (sswu 3 (fun x => 1 * x) (fun x => 1 * x) (sqrtRatio (fun a n => a ^ n) 4 0 15 8 3 3) (fun x => x.val % 2 == 1) u).2 ^ 2 =
      (sswu 3 (fun x => 1 * x) (fun x => 1 * x) (sqrtRatio (fun a n => a ^ n) 4 0 15 8 3 3) (fun x => x.val % 2 == 1) u).1 ^ 3
        + 1 * (sswu 3 (fun x => 1 * x) (fun x => 1 * x) (sqrtRatio (fun a n => a ^ n) 4 0 15 8 3 3) (fun x => x.val % 2 == 1) u).1 + 1 :=
  fun u => sswu_on_curve_generic 1 1 3 _ _ _ _ (fun _ => rfl) (fun _ => rfl) (by decide) (by decide)
    (sqrt_ratio_generic_spec 3 _ (fun _ _ => rfl) 4 0 15 8 3 3 (by decide) (by decide) (by decide) (by decide)
      (by decide) (by decide))
    (by
      have h : (1 / (3 * 1) : ZMod 17) = 6 := by rw [div_eq_iff (by decide)]; decide
      rw [h]; exact ⟨6, by decide⟩)
    (by
      have h : (1 / (3 * 1) : ZMod 17) = 6 := by rw [div_eq_iff (by decide)]; decide
      rw [h]; decide) u

example : sqrtRatio (fun (a : ZMod 17) n => a ^ n) 4 0 15 8 3 3 0 5 = (false, 0) :=
  sqrt_ratio_generic_zero _ (fun _ _ => rfl) 4 0 15 8 3 3 5 (by decide)

/-! ### the three suites that use the generic routine (regenerated constants) -/

/-- the regenerated loop constants of pallas, vesta and BLS12-381 G2 have the shape the theorem needs:
`c1 ≥ 1`, `c4 = 2^c1 - 1`, `c5 = 2^(c1-1)`, and `2^c1·(2·c3+1) = q - 1` for the field size `q` of the suite
(`p` for pallas/vesta, `p²` for G2; `p` as in `Model/Curves.lean`) -/
theorem sqrt_ratio_constants_shape :
    (pallas.pallasSqrtRatioC1 = 32 ∧ pallas.pallasSqrtRatioC4 + 1 = 2 ^ pallas.pallasSqrtRatioC1 ∧
      pallas.pallasSqrtRatioC5 = 2 ^ (pallas.pallasSqrtRatioC1 - 1) ∧
      2 ^ pallas.pallasSqrtRatioC1 * (2 * pallas.pallasSqrtRatioC3 + 1) + 1 = Curves.pallas.p) ∧
    (vesta.vestaSqrtRatioC1 = 32 ∧ vesta.vestaSqrtRatioC4 + 1 = 2 ^ vesta.vestaSqrtRatioC1 ∧
      vesta.vestaSqrtRatioC5 = 2 ^ (vesta.vestaSqrtRatioC1 - 1) ∧
      2 ^ vesta.vestaSqrtRatioC1 * (2 * vesta.vestaSqrtRatioC3 + 1) + 1 = Curves.vesta.p) ∧
    (bls12381g2.g2SqrtRatioC1 = 3 ∧ bls12381g2.g2SqrtRatioC4 + 1 = 2 ^ bls12381g2.g2SqrtRatioC1 ∧
      bls12381g2.g2SqrtRatioC5 = 2 ^ (bls12381g2.g2SqrtRatioC1 - 1) ∧
      2 ^ bls12381g2.g2SqrtRatioC1 * (2 * bls12381g2.g2SqrtRatioC3 + 1) + 1 = Curves.blsP ^ 2) := by
  decide

/-- **The `SqrtRatio` methods of the pallas, vesta and BLS12-381 G2 mapper-params meet the specification** in any
field `F` (resp. `F₂`) in which `fpow` is exponentiation, `a^(q-1) = 1` for `a ≠ 0` (`q - 1` written with the
regenerated `c1`, `c3`; equal to `p - 1`, `p² - 1` by `sqrt_ratio_constants_shape`), and the embedded constants
satisfy `c6 = Z^c2`, `c7 = Z^((c2+1)/2)`, `Z^((q-1)/2) = -1`. -/
theorem sqrt_ratio_suites_spec {F : Type} [Field F] [DecidableEq F] (fpow : F → Nat → F)
    (hpow : ∀ a e, fpow a e = a ^ e) :
    (∀ K : Nat → F,
      K pallas.pallasSqrtRatioC6 = K pallas.pallasSswuZ ^ (2 * pallas.pallasSqrtRatioC3 + 1) →
      K pallas.pallasSqrtRatioC7 = K pallas.pallasSswuZ ^ (pallas.pallasSqrtRatioC3 + 1) →
      (∀ a : F, a ≠ 0 → a ^ (2 ^ pallas.pallasSqrtRatioC1 * (2 * pallas.pallasSqrtRatioC3 + 1)) = 1) →
      K pallas.pallasSswuZ ^ (2 ^ (pallas.pallasSqrtRatioC1 - 1) * (2 * pallas.pallasSqrtRatioC3 + 1)) = -1 →
      H2CSqrt.SqrtRatioSpecW (K pallas.pallasSswuZ) (pallas.sqrtRatio K fpow)) ∧
    (∀ K : Nat → F,
      K vesta.vestaSqrtRatioC6 = K vesta.vestaSswuZ ^ (2 * vesta.vestaSqrtRatioC3 + 1) →
      K vesta.vestaSqrtRatioC7 = K vesta.vestaSswuZ ^ (vesta.vestaSqrtRatioC3 + 1) →
      (∀ a : F, a ≠ 0 → a ^ (2 ^ vesta.vestaSqrtRatioC1 * (2 * vesta.vestaSqrtRatioC3 + 1)) = 1) →
      K vesta.vestaSswuZ ^ (2 ^ (vesta.vestaSqrtRatioC1 - 1) * (2 * vesta.vestaSqrtRatioC3 + 1)) = -1 →
      H2CSqrt.SqrtRatioSpecW (K vesta.vestaSswuZ) (vesta.sqrtRatio K fpow)) ∧
    (∀ K : Nat × Nat → F,
      K bls12381g2.g2SqrtRatioC6 = K bls12381g2.g2SswuZ ^ (2 * bls12381g2.g2SqrtRatioC3 + 1) →
      K bls12381g2.g2SqrtRatioC7 = K bls12381g2.g2SswuZ ^ (bls12381g2.g2SqrtRatioC3 + 1) →
      (∀ a : F, a ≠ 0 → a ^ (2 ^ bls12381g2.g2SqrtRatioC1 * (2 * bls12381g2.g2SqrtRatioC3 + 1)) = 1) →
      K bls12381g2.g2SswuZ ^ (2 ^ (bls12381g2.g2SqrtRatioC1 - 1) * (2 * bls12381g2.g2SqrtRatioC3 + 1)) = -1 →
      H2CSqrt.SqrtRatioSpecW (K bls12381g2.g2SswuZ) (bls12381g2.sqrtRatio K fpow)) := by
  refine ⟨?_, ?_, ?_⟩
  · intro K h6 h7 hF hZ
    exact sqrt_ratio_generic_spec _ fpow hpow _ _ _ _ _ _ (by decide) (by decide) h6 h7 hF hZ
  · intro K h6 h7 hF hZ
    exact sqrt_ratio_generic_spec _ fpow hpow _ _ _ _ _ _ (by decide) (by decide) h6 h7 hF hZ
  · intro K h6 h7 hF hZ
    exact sqrt_ratio_generic_spec _ fpow hpow _ _ _ _ _ _ (by decide) (by decide) h6 h7 hF hZ

end BronVerif.Props.C19
