import BronVerif.Gen.CommitFacts
import BronVerif.Model.Commit
/-!
# C18 — constants and statement sequences of `pkg/commitments` are those of `Model/Commit.lean`

`BronVerif.Gen.CommitFacts` is regenerated from `/repo/pkg/commitments/{internal,hashcom,pedersencom,
intcom,indcpacom}` on every run (translator/consts_commit.go + tie_events.go, go/ast only).

* `commit_constants_match_source`: key / digest sizes, the keyed hash constructor and the scheme names.
* `commit_structure_matches_model`: the statement sequences (guards included, messages elided) of
  `GenericOpen`, every `CommitWithWitness` / `Open`, the key constructors and the transcript key
  derivations equal the expectations below, each written next to the model definition it stands for.
  Swapping message and witness, committing with the wrong generator, dropping the comparison in
  `GenericOpen`, dropping a key-validity guard, changing a derived label … breaks the obligation even
  when no sampled input shows it.  (A harmless restructuring also breaks it; the expectation is then
  re-read against the model and updated by hand.)  Core-only.
-/
namespace BronVerif.Props.C18Facts
open BronVerif

/-- scheme names (`Type()`), by package -/
def expectedNames : List (String × String) := [
  ("hashcom.Name", "HashCommitment"),
  ("pedersencom.Name", "Prime-order Pedersen commitment scheme"),
  ("intcom.Name", "Bounded Integer Commitment Scheme (CGGMP21)")]

theorem commit_constants_match_source :
    Gen.CommitFacts.numConsts = [("hashcom.KeySize", toString Commit.hashKeySize),
      ("hashcom.DigestSize", toString Commit.hashDigestSize)] ∧
    Gen.CommitFacts.hmacFunc = Commit.hashFunctionName ∧
    Gen.CommitFacts.consts = expectedNames ∧
    (Gen.CommitFacts.consts.map (·.2)).Nodup := by
  decide

/-- **`internal.GenericOpen`** = `Commit.genericOpen`: recompute with `CommitWithWitness`, reject unless the result `Equal`s the given commitment (`decide (commit m w = c)`). -/
def expected_genericOpen : List String := [
  "guard utils.IsNil(key) || utils.IsNil(commitment) || utils.IsNil(message) || utils.IsNil(witness) => commitments.ErrIsNil",
  "recomputed, err := key.CommitWithWitness(message, witness)",
  "guard err != nil => errs.Wrap(err)",
  "guard !recomputed.Equal(commitment) => commitments.ErrVerificationFailed",
  "return nil"]

/-- **`hashcom.CommitWithWitness`** = `Commit.hashCommit H k m w = H k (hashFrame m w)`: the hash is keyed with the whole key, then `message`, then `witness` are written (`hashFrame m w = m ++ w`), the digest is the commitment. -/
def expected_hashCommit : List String := [
  "guard k == nil => Commitment{}, commitments.ErrIsNil",
  "h, err := hmacFunc(k[:])",
  "guard err != nil => Commitment{}, errs.Wrap(err)",
  "h.Write(message)",
  "h.Write(witness[:])",
  "return Commitment(h.Sum(nil)), nil"]

/-- `hashcom.Open` is `GenericOpen` (`Commit.hashOpen`). -/
def expected_hashOpen : List String := [
  "guard k == nil => commitments.ErrIsNil",
  "guard err := internal.GenericOpen(k, commitment, message, witness); err != nil => errs.Wrap(err)",
  "return nil"]

/-- **`hashcom.ExtractCommitmentKey`** = `Commit.extractKey` with `toGroup = id`: the key is the `KeySize` bytes extracted from the transcript under `label`. -/
def expected_hashExtractKey : List String := [
  "guard transcript == nil || label == \"\" => nil, commitments.ErrIsNil",
  "bs, err := transcript.ExtractBytes(label, KeySize)",
  "guard err != nil => nil, errs.Wrap(err)",
  "var out CommitmentKey",
  "copy(out[:], bs)",
  "return &out, nil"]

/-- **`pedersencom.CommitWithWitness`** = `Commit.pedCommit g h m r = m • g + r • h` (message on `g`, witness on `h`). -/
def expected_pedCommit : List String := [
  "guard message == nil || witness == nil => nil, ErrIsNil",
  "out, err := NewCommitment(k.g.ScalarOp(message.Value()).Op(k.h.ScalarOp(witness.r)))",
  "guard err != nil => nil, errs.Wrap(err)",
  "return out, nil"]

/-- `pedersencom.Open` is `GenericOpen` (`Hom.open`). -/
def expected_pedOpen : List String := [
  "guard err := internal.GenericOpen(k, commitment, message, witness); err != nil => errs.Wrap(err)",
  "return nil"]

/-- **`NewCommitmentKeyUnchecked`** = `Commit.pedKeyValid`: `g ≠ h`, neither is the identity. -/
def expected_pedNewKey : List String := [
  "guard utils.IsNil(g) || utils.IsNil(h) => nil, ErrIsNil",
  "guard g.Equal(h) => nil, ErrInvalidArgument",
  "guard g.IsOpIdentity() || h.IsOpIdentity() => nil, ErrIsIdentity",
  "return &CommitmentKey[E, S]{g: g, h: h}, nil"]

/-- **`pedersencom.ExtractCommitmentKey`** = `Commit.extractKey`: `h` is extracted from the transcript under `label` into the group of the base point, `g` is the base point, and the pair passes the key validity check. -/
def expected_pedExtractKey : List String := [
  "guard utils.IsNil(basePoint) => nil, ErrInvalidArgument",
  "guard transcript == nil => nil, ErrInvalidArgument",
  "guard label == \"\" => nil, ErrInvalidArgument",
  "group := algebra.StructureMustBeAs[algebra.PrimeGroup[E, S]](basePoint.Structure())",
  "h, err := ts.Extract(transcript, label, group)",
  "guard err != nil => nil, errs.Wrap(err)",
  "out, err := NewCommitmentKeyUnchecked(basePoint, h)",
  "guard err != nil => nil, errs.Wrap(err)",
  "return out, nil"]

/-- **`TrapdoorKey.CommitWithWitness`** = `Commit.pedTrapdoorCommit g λ m r = (m + λ * r) • g`. -/
def expected_pedTrapdoorCommit : List String := [
  "guard message == nil || witness == nil => nil, ErrIsNil",
  "out, err := NewCommitment(t.g.ScalarOp(message.m.Add(t.lambda.Mul(witness.r))))",
  "guard err != nil => nil, errs.Wrap(err)",
  "return out, nil"]

/-- **`TrapdoorKey.Equivocate`** = `Commit.pedEquivocate λ m r m' = r + λ⁻¹ * (m - m')`. -/
def expected_pedEquivocate : List String := [
  "guard message == nil || witness == nil || newMessage == nil => nil, ErrIsNil",
  "lambdaInv, err := t.lambda.TryInv()",
  "guard err != nil => nil, errs.Wrap(err)",
  "out, err := NewWitness(witness.r.Add(lambdaInv.Mul(message.m.Sub(newMessage.m))))",
  "guard err != nil => nil, errs.Wrap(err)",
  "return out, nil"]

/-- **`intcom.CommitWithWitness`** = `Commit.intCommit s t m r = s ^ m * t ^ r` (signed exponents, `ExpI`). -/
def expected_intCommit : List String := [
  "guard message == nil || witness == nil => nil, commitments.ErrIsNil",
  "out, err := NewCommitment(k.s.ExpI(message.Value()).Mul(k.t.ExpI(witness.Value())).ForgetOrder())",
  "guard err != nil => nil, errs.Wrap(err)",
  "return out, nil"]

/-- `intcom.Open` is `GenericOpen`. -/
def expected_intOpen : List String := [
  "guard err := internal.GenericOpen(k, commitment, message, witness); err != nil => errs.Wrap(err)",
  "return nil"]

/-- `intcom.newCommitmentKey`: same group, `s ≠ t`, neither is one, both torsion-free, `gcd(s-1, N) = gcd(t-1, N) = 1`; witness range `± N·2^StatisticalSecurityBits`. -/
def expected_intNewKey : List String := [
  "guard s == nil || t == nil => nil, commitments.ErrInvalidArgument",
  "guard s.Structure().Name() != t.Structure().Name() => nil, commitments.ErrInvalidArgument",
  "guard s.Equal(t) => nil, commitments.ErrInvalidArgument",
  "guard s.IsOne() || t.IsOne() => nil, commitments.ErrInvalidArgument",
  "guard !s.IsTorsionFree() || !t.IsTorsionFree() => nil, commitments.ErrInvalidArgument",
  "guard !s.Value().Decrement().Nat().Coprime(s.Modulus().Nat()) => nil, commitments.ErrInvalidArgument",
  "guard !t.Value().Decrement().Nat().Coprime(t.Modulus().Nat()) => nil, commitments.ErrInvalidArgument",
  "witnessUpper := s.Group().Modulus().Lsh(base.StatisticalSecurityBits).Lift()",
  "witnessLower := witnessUpper.Neg()",
  "return &CommitmentKey{ s: s, t: t, witnessUpper: witnessUpper, witnessLower: witnessLower, }, nil"]

/-- `intcom.ExtractCommitmentKey`: `s`, `t` are squares of elements extracted under the derived labels `s_<label>_<counter>` / `t_<label>_<counter>` (distinct prefixes, counter restarted), retried until `gcd(x-1, N) = 1`. -/
def expected_intExtractKey : List String := [
  "guard transcript == nil => nil, commitments.ErrInvalidArgument",
  "guard label == \"\" => nil, commitments.ErrInvalidArgument",
  "guard group == nil => nil, commitments.ErrInvalidArgument",
  "var s, t *znstar.RSAGroupElement[A]",
  "counter := 0",
  "for {",
  "sSqrt, err := ts.Extract(transcript, fmt.Sprintf(\"s_%s_%d\", label, counter), group)",
  "guard err != nil => nil, errs.Wrap(err)",
  "s = sSqrt.Mul(sSqrt)",
  "if s.Value().Decrement().Nat().Coprime(group.Modulus().Nat()) {",
  "break",
  "}",
  "counter++",
  "}",
  "counter = 0",
  "for {",
  "tSqrt, err := ts.Extract(transcript, fmt.Sprintf(\"t_%s_%d\", label, counter), group)",
  "guard err != nil => nil, errs.Wrap(err)",
  "t = tSqrt.Mul(tSqrt)",
  "if t.Value().Decrement().Nat().Coprime(group.Modulus().Nat()) {",
  "break",
  "}",
  "counter++",
  "}",
  "out, err := newCommitmentKey(s.ForgetOrder(), t.ForgetOrder())",
  "guard err != nil => nil, errs.Wrap(err)",
  "return out, nil"]

/-- **`intcom.TrapdoorKey.CommitWithWitness`** = `Commit.intTrapdoorCommit t λ m r = t ^ (m * λ + r)`. -/
def expected_intTrapdoorCommit : List String := [
  "guard message == nil || witness == nil => nil, commitments.ErrIsNil",
  "tt, err := t.t.LearnOrder(t.group)",
  "guard err != nil => nil, errs.Wrap(err)",
  "out, err := NewCommitment(tt.ExpI(message.m.Mul(t.lambda.Lift()).Add(witness.r)).ForgetOrder())",
  "guard err != nil => nil, errs.Wrap(err)",
  "return out, nil"]

/-- **`indcpacom.CommitWithWitness`**: the commitment is `EncryptWithNonce(message, witness)` (`Commit.egEncrypt` / `Commit.paiEncrypt`). -/
def expected_indcpaCommit : List String := [
  "guard message == nil || witness == nil => nil, commitments.ErrIsNil",
  "ciphertext, err := k.encryptionKey.EncryptWithNonce(message.Value(), witness.Value())",
  "guard err != nil => nil, errs.Wrap(err)",
  "out, err := NewCommitment(ciphertext)",
  "guard err != nil => nil, errs.Wrap(err)",
  "return out, nil"]

/-- `indcpacom.Open` is `GenericOpen`. -/
def expected_indcpaOpen : List String := [
  "guard err := internal.GenericOpen(k, commitment, message, witness); err != nil => errs.Wrap(err)",
  "return nil"]

theorem commit_structure_matches_model :
    Gen.CommitFacts.functions = ["genericOpen", "hashCommit", "hashOpen", "hashExtractKey", "pedCommit", "pedOpen", "pedNewKey", "pedExtractKey", "pedTrapdoorCommit", "pedEquivocate", "intCommit", "intOpen", "intNewKey", "intExtractKey", "intTrapdoorCommit", "indcpaCommit", "indcpaOpen"] ∧
    Gen.CommitFacts.genericOpen = expected_genericOpen ∧
    Gen.CommitFacts.hashCommit = expected_hashCommit ∧
    Gen.CommitFacts.hashOpen = expected_hashOpen ∧
    Gen.CommitFacts.hashExtractKey = expected_hashExtractKey ∧
    Gen.CommitFacts.pedCommit = expected_pedCommit ∧
    Gen.CommitFacts.pedOpen = expected_pedOpen ∧
    Gen.CommitFacts.pedNewKey = expected_pedNewKey ∧
    Gen.CommitFacts.pedExtractKey = expected_pedExtractKey ∧
    Gen.CommitFacts.pedTrapdoorCommit = expected_pedTrapdoorCommit ∧
    Gen.CommitFacts.pedEquivocate = expected_pedEquivocate ∧
    Gen.CommitFacts.intCommit = expected_intCommit ∧
    Gen.CommitFacts.intOpen = expected_intOpen ∧
    Gen.CommitFacts.intNewKey = expected_intNewKey ∧
    Gen.CommitFacts.intExtractKey = expected_intExtractKey ∧
    Gen.CommitFacts.intTrapdoorCommit = expected_intTrapdoorCommit ∧
    Gen.CommitFacts.indcpaCommit = expected_indcpaCommit ∧
    Gen.CommitFacts.indcpaOpen = expected_indcpaOpen :=
  ⟨rfl, rfl, rfl, rfl, rfl, rfl, rfl, rfl, rfl, rfl, rfl, rfl, rfl, rfl, rfl, rfl, rfl, rfl⟩

end BronVerif.Props.C18Facts
