import Mathlib.Tactic.Ring
import Mathlib.Tactic.FieldSimp
import Mathlib.Tactic.LinearCombination
import Mathlib.Algebra.Field.Basic
import Mathlib.Algebra.Field.ZMod
import Mathlib.Data.ZMod.Basic
import Mathlib.Tactic.NormNum.Prime
import Mathlib.Algebra.BigOperators.Group.List.Basic
import BronVerif.Lemmas.Weierstrass
import BronVerif.Lemmas.Edwards
import BronVerif.Lemmas.Window
import BronVerif.Lemmas.MulShape
import BronVerif.Drive.C14
/-!
# C14 — curve arithmetic equals the mathematical group operation (property theorems)

The theorems are about the definitions REGENERATED from the Go source (`Gen/Weierstrass.lean`,
`Gen/Edwards.lean`) and relate them to the affine laws of `Model/Curve.lean` (`W.add`, `E.add`),
which are what the driver uses as the specification of every Go point operation.  `wToAff`/`eToAff`
are the driver's own projective→affine maps (`Drive/C14.lean`).
-/
namespace BronVerif.Props.C14
open BronVerif BronVerif.Curve BronVerif.Drive.C14
open BronVerif.Lemmas

variable {F : Type} [Field F] [DecidableEq F]

/-! ## Short Weierstrass: Renes–Costello–Batina complete formulas -/

theorem wToAff_scale {s x y z : F} (hs : s ≠ 0) : wToAff (s * x) (s * y) (s * z) = wToAff x y z := by
  unfold wToAff
  by_cases hz : z = 0
  · simp [hz]
  · have : s * z ≠ 0 := mul_ne_zero hs hz
    simp only [hz, this, if_false]
    congr 1 <;> field_simp

/-- **Homogeneity**: rescaling the projective representatives of the operands rescales the output
by `(l·m)²`; hence the affine image of the result does not depend on the representatives. -/
theorem rcb_add_homogeneous (a b3 l m x1 y1 z1 x2 y2 z2 : F) :
    Gen.Weierstrass.add a b3 (l * x1) (l * y1) (l * z1) (m * x2) (m * y2) (m * z2) =
      ((l * m) ^ 2 * Weierstrass.X3 a b3 x1 y1 z1 x2 y2 z2, (l * m) ^ 2 * Weierstrass.Y3 a b3 x1 y1 z1 x2 y2 z2,
       (l * m) ^ 2 * Weierstrass.Z3 a b3 x1 y1 z1 x2 y2 z2) :=
  Weierstrass.add_homogeneous a b3 l m x1 y1 z1 x2 y2 z2

/-- reduction of arbitrary representatives (Z ≠ 0) to normalised ones -/
theorem add_toAff_normalise {a b3 x1 y1 z1 x2 y2 z2 : F} (hz1 : z1 ≠ 0) (hz2 : z2 ≠ 0) :
    let R := Gen.Weierstrass.add a b3 x1 y1 z1 x2 y2 z2
    wToAff R.1 R.2.1 R.2.2 =
      wToAff (Weierstrass.X3 a b3 (x1 / z1) (y1 / z1) 1 (x2 / z2) (y2 / z2) 1)
        (Weierstrass.Y3 a b3 (x1 / z1) (y1 / z1) 1 (x2 / z2) (y2 / z2) 1)
        (Weierstrass.Z3 a b3 (x1 / z1) (y1 / z1) 1 (x2 / z2) (y2 / z2) 1) := by
  intro R
  have h := Weierstrass.add_homogeneous a b3 z1 z2 (x1 / z1) (y1 / z1) 1 (x2 / z2) (y2 / z2) 1
  have e1 : z1 * (x1 / z1) = x1 := by field_simp
  have e2 : z1 * (y1 / z1) = y1 := by field_simp
  have e3 : z2 * (x2 / z2) = x2 := by field_simp
  have e4 : z2 * (y2 / z2) = y2 := by field_simp
  rw [e1, e2, e3, e4, mul_one, mul_one] at h
  show wToAff (Gen.Weierstrass.add a b3 x1 y1 z1 x2 y2 z2).1 (Gen.Weierstrass.add a b3 x1 y1 z1 x2 y2 z2).2.1
    (Gen.Weierstrass.add a b3 x1 y1 z1 x2 y2 z2).2.2 = _
  rw [h]
  exact wToAff_scale (pow_ne_zero 2 (mul_ne_zero hz1 hz2))

theorem affine_of_proj {a b x y z : F} (h : y ^ 2 * z = x ^ 3 + a * x * z ^ 2 + b * z ^ 3) (hz : z ≠ 0) :
    (y / z) ^ 2 = (x / z) ^ 3 + a * (x / z) + b := by
  field_simp
  linear_combination h

theorem toAff_chord {a X Y Z u1 v1 u2 v2 : F} (hZ : Z ≠ 0) (hx : u1 ≠ u2)
    (cx : X * (u2 - u1) ^ 2 = ((v2 - v1) ^ 2 - (u1 + u2) * (u2 - u1) ^ 2) * Z)
    (cy : Y * (u2 - u1) ^ 3 = ((v2 - v1) * (u1 * (u2 - u1) ^ 2 - ((v2 - v1) ^ 2 - (u1 + u2) * (u2 - u1) ^ 2))
      - v1 * (u2 - u1) ^ 3) * Z) :
    wToAff X Y Z = W.add a (.aff u1 v1) (.aff u2 v2) := by
  have hd : u2 - u1 ≠ 0 := sub_ne_zero.mpr (Ne.symm hx)
  simp only [wToAff, hZ, if_false, W.add, hx]
  congr 1
  · field_simp
    linear_combination cx
  · field_simp
    linear_combination cy

theorem toAff_tangent {a X Y Z u1 v1 : F} (hZ : Z ≠ 0) (hv : v1 ≠ 0) (h2 : (2 : F) ≠ 0)
    (cx : X * (2 * v1) ^ 2 = ((3 * u1 ^ 2 + a) ^ 2 - 2 * u1 * (2 * v1) ^ 2) * Z)
    (cy : Y * (2 * v1) ^ 3 = ((3 * u1 ^ 2 + a) * (u1 * (2 * v1) ^ 2 - ((3 * u1 ^ 2 + a) ^ 2 - 2 * u1 * (2 * v1) ^ 2))
      - v1 * (2 * v1) ^ 3) * Z) :
    wToAff X Y Z = W.add a (.aff u1 v1) (.aff u1 v1) := by
  have hd2 : 2 * v1 ≠ 0 := mul_ne_zero h2 hv
  simp only [wToAff, hZ, if_false, W.add, W.double, if_true, hv]
  have e : (v1 + v1)⁻¹ = (2 * v1)⁻¹ := by rw [two_mul]
  rw [e]
  congr 1
  · rw [← sub_eq_zero]
    have : X * Z⁻¹ - ((u1 * u1 + u1 * u1 + u1 * u1 + a) * (2 * v1)⁻¹ * ((u1 * u1 + u1 * u1 + u1 * u1 + a) * (2 * v1)⁻¹)
          - u1 - u1)
        = (X * (2 * v1) ^ 2 - ((3 * u1 ^ 2 + a) ^ 2 - 2 * u1 * (2 * v1) ^ 2) * Z) / (Z * (2 * v1) ^ 2) := by
      field_simp
      ring
    rw [this, cx, sub_self, zero_div]
  · rw [← sub_eq_zero]
    have : Y * Z⁻¹ - ((u1 * u1 + u1 * u1 + u1 * u1 + a) * (2 * v1)⁻¹ *
            (u1 - ((u1 * u1 + u1 * u1 + u1 * u1 + a) * (2 * v1)⁻¹ * ((u1 * u1 + u1 * u1 + u1 * u1 + a) * (2 * v1)⁻¹)
              - u1 - u1)) - v1)
        = (Y * (2 * v1) ^ 3 - ((3 * u1 ^ 2 + a) * (u1 * (2 * v1) ^ 2 - ((3 * u1 ^ 2 + a) ^ 2 - 2 * u1 * (2 * v1) ^ 2))
            - v1 * (2 * v1) ^ 3) * Z) / (Z * (2 * v1) ^ 3) := by
      field_simp
      ring
    rw [this, cy, sub_self, zero_div]

theorem wToAff_of_ne {x y z : F} (hz : z ≠ 0) : wToAff x y z = .aff (x / z) (y / z) := by
  simp [wToAff, hz, div_eq_mul_inv]

/-- **Chord case** (`rcb_add_generic`): operands on the curve with `Z ≠ 0` and different affine
`x`; whenever the computed `Z₃ ≠ 0`, the affine image of the generated RCB sum is the model's
(chord-and-tangent) sum of the affine images. -/
theorem rcb_add_generic {a b x1 y1 z1 x2 y2 z2 : F}
    (h1 : y1 ^ 2 * z1 = x1 ^ 3 + a * x1 * z1 ^ 2 + b * z1 ^ 3)
    (h2 : y2 ^ 2 * z2 = x2 ^ 3 + a * x2 * z2 ^ 2 + b * z2 ^ 3)
    (hz1 : z1 ≠ 0) (hz2 : z2 ≠ 0) (hx : x1 / z1 ≠ x2 / z2)
    (hz3 : Weierstrass.Z3 a (3 * b) (x1 / z1) (y1 / z1) 1 (x2 / z2) (y2 / z2) 1 ≠ 0) :
    let R := Gen.Weierstrass.add a (3 * b) x1 y1 z1 x2 y2 z2
    wToAff R.1 R.2.1 R.2.2 = W.add a (wToAff x1 y1 z1) (wToAff x2 y2 z2) := by
  intro R
  have hn := add_toAff_normalise (a := a) (b3 := 3 * b) (x1 := x1) (y1 := y1) (x2 := x2) (y2 := y2) hz1 hz2
  have a1 := affine_of_proj h1 hz1
  have a2 := affine_of_proj h2 hz2
  show wToAff R.1 R.2.1 R.2.2 = _
  rw [hn, wToAff_of_ne hz1, wToAff_of_ne hz2]
  exact toAff_chord hz3 hx (Weierstrass.chord_x a1 a2) (Weierstrass.chord_y a1 a2)

/-- **Tangent case** (`rcb_add_self`): both operands represent the same affine point with `y ≠ 0`
(characteristic ≠ 2): the same formulas return the model's doubling — this is what "unified"
means.  `Z₃ ≠ 0` is proved (`Z₃ = 8·y³` for normalised representatives). -/
theorem rcb_add_self {a b x1 y1 z1 x2 y2 z2 : F}
    (h1 : y1 ^ 2 * z1 = x1 ^ 3 + a * x1 * z1 ^ 2 + b * z1 ^ 3)
    (hz1 : z1 ≠ 0) (hz2 : z2 ≠ 0) (hx : x2 / z2 = x1 / z1) (hy : y2 / z2 = y1 / z1)
    (hy0 : y1 ≠ 0) (h2 : (2 : F) ≠ 0) :
    let R := Gen.Weierstrass.add a (3 * b) x1 y1 z1 x2 y2 z2
    wToAff R.1 R.2.1 R.2.2 = W.add a (wToAff x1 y1 z1) (wToAff x2 y2 z2) := by
  intro R
  have hn := add_toAff_normalise (a := a) (b3 := 3 * b) (x1 := x1) (y1 := y1) (x2 := x2) (y2 := y2) hz1 hz2
  have a1 := affine_of_proj h1 hz1
  have hv : y1 / z1 ≠ 0 := div_ne_zero hy0 hz1
  show wToAff R.1 R.2.1 R.2.2 = _
  rw [hn, wToAff_of_ne hz1, wToAff_of_ne hz2, hx, hy]
  have hZ : Weierstrass.Z3 a (3 * b) (x1 / z1) (y1 / z1) 1 (x1 / z1) (y1 / z1) 1 ≠ 0 := by
    rw [Weierstrass.tan_z a1]
    have h8 : (8 : F) ≠ 0 := by
      have : (8 : F) = 2 ^ 3 := by norm_num
      rw [this]; exact pow_ne_zero 3 h2
    exact mul_ne_zero h8 (pow_ne_zero 3 hv)
  exact toAff_tangent hZ hv h2 (Weierstrass.tan_x a1) (Weierstrass.tan_y a1)

/-- the dedicated doubling formula agrees with `add P P` on the curve (`X`, `Y` identically, `Z` up to
`6·y·(curve equation)`) -/
theorem rcb_double_eq_add_self {a b x y z : F} (h : y ^ 2 * z = x ^ 3 + a * x * z ^ 2 + b * z ^ 3) :
    Gen.Weierstrass.double a (3 * b) x y z = Gen.Weierstrass.add a (3 * b) x y z x y z := by
  simp only [Gen.Weierstrass.double, Gen.Weierstrass.add, Prod.mk.injEq]
  refine ⟨by ring, by ring, ?_⟩
  linear_combination (6 * y) * h

/-- **Opposite operands**: `P + (−P)` has `Z₃ = 0` and `X₃ = 0`, i.e. is the point at infinity
`(0 : Y₃ : 0)` (that `Y₃ ≠ 0` is part of `rcb_complete`). -/
theorem rcb_add_neg (a b3 x y z : F) :
    (Gen.Weierstrass.add a b3 x y z x (-y) z).1 = 0 ∧ (Gen.Weierstrass.add a b3 x y z x (-y) z).2.2 = 0 := by
  simp only [Gen.Weierstrass.add]
  constructor <;> ring

/-- **Identity operand**: adding any representative `(0 : l : 0)` of the identity returns the other
operand rescaled by `l²·y₁` (and symmetrically). -/
theorem rcb_add_identity (a b3 l x y z : F) :
    Gen.Weierstrass.add a b3 x y z 0 l 0 = (l ^ 2 * y * x, l ^ 2 * y * y, l ^ 2 * y * z) ∧
    Gen.Weierstrass.add a b3 0 l 0 x y z = (l ^ 2 * y * x, l ^ 2 * y * y, l ^ 2 * y * z) := by
  simp only [Gen.Weierstrass.add, Prod.mk.injEq]
  refine ⟨⟨?_, ?_, ?_⟩, ⟨?_, ?_, ?_⟩⟩ <;> ring

/-- negation is the affine negation -/
theorem rcb_neg (x y z : F) :
    let R := Gen.Weierstrass.neg x y z
    wToAff R.1 R.2.1 R.2.2 = W.neg (wToAff x y z) := by
  simp only [Gen.Weierstrass.neg, wToAff]
  by_cases hz : z = 0 <;> simp [hz, W.neg]

/-- the cross-multiplied `Equal` is equality of the affine images -/
theorem rcb_equal_iff {x1 y1 z1 x2 y2 z2 : F} (hz1 : z1 ≠ 0) (hz2 : z2 ≠ 0) :
    Gen.Weierstrass.equal x1 y1 z1 x2 y2 z2 = true ↔ wToAff x1 y1 z1 = wToAff x2 y2 z2 := by
  simp only [Gen.Weierstrass.equal, Bool.and_eq_true, beq_iff_eq, wToAff_of_ne hz1, wToAff_of_ne hz2,
    WPt.aff.injEq]
  constructor
  · rintro ⟨h1, h2⟩
    constructor
    · field_simp; linear_combination h1
    · field_simp; linear_combination h2
  · rintro ⟨h1, h2⟩
    field_simp at h1 h2
    exact ⟨by linear_combination h1, by linear_combination h2⟩

/-- `SetAffine` accepts exactly the solutions of the curve equation and then stores `(x, y, 1)` -/
theorem set_affine_iff (a b x0 y0 z0 x y : F) :
    ((Gen.Weierstrass.setAffine a b x0 y0 z0 x y).1 = true ↔ W.onCurve a b (.aff x y) = true) ∧
    ((Gen.Weierstrass.setAffine a b x0 y0 z0 x y).1 = true →
      (Gen.Weierstrass.setAffine a b x0 y0 z0 x y).2 = (x, y, 1)) := by
  simp only [Gen.Weierstrass.setAffine, W.onCurve, beq_iff_eq]
  constructor
  · constructor <;> intro h <;> linear_combination h
  · intro h
    simp [h]

/-- **On-curve preservation**: the RCB output satisfies the homogeneous curve equation. -/
theorem rcb_add_on_curve {a b x1 y1 x2 y2 : F}
    (h1 : y1 ^ 2 = x1 ^ 3 + a * x1 + b) (h2 : y2 ^ 2 = x2 ^ 3 + a * x2 + b) :
    let R := Gen.Weierstrass.add a (3 * b) x1 y1 1 x2 y2 1
    R.2.1 ^ 2 * R.2.2 = R.1 ^ 3 + a * R.1 * R.2.2 ^ 2 + b * R.2.2 ^ 3 := by
  intro R
  have hR : R = _ := Weierstrass.add_closed a (3 * b) x1 y1 1 x2 y2 1
  rw [hR]
  exact Weierstrass.on_curve h1 h2

/-- **Completeness of the Renes–Costello–Batina formulas** (the converse direction): on a curve
without rational 2-torsion over a field of characteristic ≠ 2, for ANY two projective points of the
curve the output is never `(0,0,0)`, and `Z₃ = 0` only when the affine sum is the point at infinity
(`Q = −P`, or both operands are the identity).  The hypothesis `(2 : F) ≠ 0` was missing from the
first formulation of this statement, which is FALSE in characteristic 2 (counterexample below:
`y² = x³ + x + 1` over `𝔽₂`, `P = (0,1)`: doubling gives `Z₃ = 8y³ = 0`); every curve of the library
has odd characteristic. -/
def rcb_complete_statement : Prop :=
  ∀ (F : Type) [Field F] [DecidableEq F] (a b x1 y1 z1 x2 y2 z2 : F),
    (2 : F) ≠ 0 →
    (∀ x : F, x ^ 3 + a * x + b ≠ 0) →
    y1 ^ 2 * z1 = x1 ^ 3 + a * x1 * z1 ^ 2 + b * z1 ^ 3 → (x1, y1, z1) ≠ (0, 0, 0) →
    y2 ^ 2 * z2 = x2 ^ 3 + a * x2 * z2 ^ 2 + b * z2 ^ 3 → (x2, y2, z2) ≠ (0, 0, 0) →
    Gen.Weierstrass.add a (3 * b) x1 y1 z1 x2 y2 z2 ≠ (0, 0, 0) ∧
    ((Gen.Weierstrass.add a (3 * b) x1 y1 z1 x2 y2 z2).2.2 = 0 →
      W.add a (wToAff x1 y1 z1) (wToAff x2 y2 z2) = .inf)

/-- **`rcb_complete_affine`**: normalised representatives.  `Z₃(P, Q) = (x₂−x₁)³ · y(P − Q)` and
`Y₃(P, −P) = (2y)³ · y(2P)` (`Lemmas/Weierstrass`), and a point of the curve with `y = 0` would be a
root of `x³ + ax + b`. -/
theorem rcb_complete_affine {a b x1 y1 x2 y2 : F} (h2 : (2 : F) ≠ 0) (hroot : ∀ x : F, x ^ 3 + a * x + b ≠ 0)
    (h1 : y1 ^ 2 = x1 ^ 3 + a * x1 + b) (h2' : y2 ^ 2 = x2 ^ 3 + a * x2 + b) :
    (Weierstrass.Y3 a (3 * b) x1 y1 1 x2 y2 1 ≠ 0 ∨ Weierstrass.Z3 a (3 * b) x1 y1 1 x2 y2 1 ≠ 0) ∧
    (Weierstrass.Z3 a (3 * b) x1 y1 1 x2 y2 1 = 0 → W.add a (.aff x1 y1) (.aff x2 y2) = .inf) := by
  have hy1 : y1 ≠ 0 := by
    intro h; apply hroot x1; rw [h] at h1; linear_combination (-1 : F) * h1
  by_cases hx : x1 = x2
  · subst hx
    have hyy : (y1 - y2) * (y1 + y2) = 0 := by linear_combination h1 - h2'
    rcases mul_eq_zero.mp hyy with h | h
    · -- doubling
      have e : y2 = y1 := by linear_combination (-1 : F) * h
      subst e
      have hz : Weierstrass.Z3 a (3 * b) x1 y2 1 x1 y2 1 ≠ 0 := by
        rw [Weierstrass.tan_z h1]
        have h8 : (8 : F) ≠ 0 := by
          have : (8 : F) = 2 ^ 3 := by norm_num
          rw [this]; exact pow_ne_zero 3 h2
        exact mul_ne_zero h8 (pow_ne_zero 3 hy1)
      exact ⟨Or.inr hz, fun h0 => absurd h0 hz⟩
    · -- opposite points
      have e : y2 = -y1 := by linear_combination h
      subst e
      have hne : y1 ≠ -y1 := by
        intro h'
        have : 2 * y1 = 0 := by linear_combination h'
        rcases mul_eq_zero.mp this with h'' | h''
        · exact h2 h''
        · exact hy1 h''
      refine ⟨Or.inl ?_, fun _ => by simp [W.add, hne]⟩
      rw [Weierstrass.y3_neg_eq_y_double h1 hy1 h2]
      intro h0
      have h2y : (2 * y1) ^ 3 ≠ 0 := pow_ne_zero 3 (mul_ne_zero h2 hy1)
      have hyy0 := (mul_eq_zero.mp h0).resolve_right h2y
      have hc := Weierstrass.tangent_closure h1 hy1 h2
      rw [hyy0] at hc
      exact hroot (((3 * x1 ^ 2 + a) / (2 * y1)) ^ 2 - 2 * x1) (by linear_combination (-1 : F) * hc)
  · have hd : x2 - x1 ≠ 0 := sub_ne_zero.mpr (Ne.symm hx)
    have hz : Weierstrass.Z3 a (3 * b) x1 y1 1 x2 y2 1 ≠ 0 := by
      rw [Weierstrass.z3_eq_y_diff h1 h2' hx]
      intro h0
      have hyy0 := (mul_eq_zero.mp h0).resolve_right (pow_ne_zero 3 hd)
      have hc := Weierstrass.chord_closure h1 h2' hx
      rw [hyy0] at hc
      exact hroot (((-y2 - y1) / (x2 - x1)) ^ 2 - x1 - x2) (by linear_combination (-1 : F) * hc)
    exact ⟨Or.inr hz, fun h0 => absurd h0 hz⟩


omit [DecidableEq F] in
theorem proj_root_of_y_zero {a b x z : F} (hz : z ≠ 0) (h : (0 : F) ^ 2 * z = x ^ 3 + a * x * z ^ 2 + b * z ^ 3) :
    (x / z) ^ 3 + a * (x / z) + b = 0 := by
  field_simp
  linear_combination (-1 : F) * h

theorem rcb_complete_proved (a b x1 y1 z1 x2 y2 z2 : F) (h2 : (2 : F) ≠ 0)
    (hroot : ∀ x : F, x ^ 3 + a * x + b ≠ 0)
    (h1 : y1 ^ 2 * z1 = x1 ^ 3 + a * x1 * z1 ^ 2 + b * z1 ^ 3) (n1 : (x1, y1, z1) ≠ (0, 0, 0))
    (h2' : y2 ^ 2 * z2 = x2 ^ 3 + a * x2 * z2 ^ 2 + b * z2 ^ 3) (n2 : (x2, y2, z2) ≠ (0, 0, 0)) :
    Gen.Weierstrass.add a (3 * b) x1 y1 z1 x2 y2 z2 ≠ (0, 0, 0) ∧
    ((Gen.Weierstrass.add a (3 * b) x1 y1 z1 x2 y2 z2).2.2 = 0 →
      W.add a (wToAff x1 y1 z1) (wToAff x2 y2 z2) = .inf) := by
  -- a point with Z = 0 is (0 : y : 0) with y ≠ 0; a point with Z ≠ 0 has y ≠ 0 (no 2-torsion)
  have inf_form : ∀ {x y z : F}, y ^ 2 * z = x ^ 3 + a * x * z ^ 2 + b * z ^ 3 → (x, y, z) ≠ (0, 0, 0) →
      z = 0 → x = 0 ∧ y ≠ 0 := by
    intro x y z h n hz
    subst hz
    have hx : x = 0 := by
      have : x ^ 3 = 0 := by linear_combination (-1 : F) * h
      exact pow_eq_zero_iff (n := 3) (by norm_num) |>.mp this
    refine ⟨hx, ?_⟩
    intro hy; apply n; rw [hx, hy]
  have y_ne : ∀ {x y z : F}, y ^ 2 * z = x ^ 3 + a * x * z ^ 2 + b * z ^ 3 → z ≠ 0 → y ≠ 0 := by
    intro x y z h hz hy
    subst hy
    exact hroot (x / z) (proj_root_of_y_zero hz h)
  by_cases hz1 : z1 = 0
  · obtain ⟨hx1, hy1⟩ := inf_form h1 n1 hz1
    subst hz1; subst hx1
    have hR := (rcb_add_identity a (3 * b) y1 x2 y2 z2).2
    have hy2 : y2 ≠ 0 := by
      by_cases hz2 : z2 = 0
      · exact (inf_form h2' n2 hz2).2
      · exact y_ne h2' hz2
    rw [hR]
    refine ⟨?_, ?_⟩
    · intro h
      have := (Prod.mk.injEq _ _ _ _ ▸ h).2
      have h3 : y1 ^ 2 * y2 * y2 = 0 := (Prod.mk.injEq _ _ _ _ ▸ this).1
      exact mul_ne_zero (mul_ne_zero (pow_ne_zero 2 hy1) hy2) hy2 h3
    · intro h
      have hz2 : z2 = 0 := by
        rcases mul_eq_zero.mp h with h' | h'
        · exact absurd h' (mul_ne_zero (pow_ne_zero 2 hy1) hy2)
        · exact h'
      simp [wToAff, hz2, W.add]
  · by_cases hz2 : z2 = 0
    · obtain ⟨hx2, hy2⟩ := inf_form h2' n2 hz2
      subst hz2; subst hx2
      have hR := (rcb_add_identity a (3 * b) y2 x1 y1 z1).1
      have hy1 : y1 ≠ 0 := y_ne h1 hz1
      rw [hR]
      have hz : y2 ^ 2 * y1 * z1 ≠ 0 := mul_ne_zero (mul_ne_zero (pow_ne_zero 2 hy2) hy1) hz1
      refine ⟨?_, fun h => absurd h hz⟩
      intro h
      have := (Prod.mk.injEq _ _ _ _ ▸ h).2
      exact hz (Prod.mk.injEq _ _ _ _ ▸ this).2
    · -- both affine: normalise and use the affine statement
      have a1 := affine_of_proj h1 hz1
      have a2 := affine_of_proj h2' hz2
      obtain ⟨hne, hinf⟩ := rcb_complete_affine h2 hroot a1 a2
      have hs : (z1 * z2) ^ 2 ≠ 0 := pow_ne_zero 2 (mul_ne_zero hz1 hz2)
      have hh := Weierstrass.add_homogeneous a (3 * b) z1 z2 (x1 / z1) (y1 / z1) 1 (x2 / z2) (y2 / z2) 1
      have e1 : z1 * (x1 / z1) = x1 := by field_simp
      have e2 : z1 * (y1 / z1) = y1 := by field_simp
      have e3 : z2 * (x2 / z2) = x2 := by field_simp
      have e4 : z2 * (y2 / z2) = y2 := by field_simp
      rw [e1, e2, e3, e4, mul_one, mul_one] at hh
      rw [hh]
      refine ⟨?_, ?_⟩
      · intro h
        have h23 := (Prod.mk.injEq _ _ _ _ ▸ h).2
        have hY := (Prod.mk.injEq _ _ _ _ ▸ h23).1
        have hZ := (Prod.mk.injEq _ _ _ _ ▸ h23).2
        rcases hne with hy | hz
        · exact hy ((mul_eq_zero.mp hY).resolve_left hs)
        · exact hz ((mul_eq_zero.mp hZ).resolve_left hs)
      · intro h
        have hZ := (mul_eq_zero.mp h).resolve_left hs
        rw [wToAff_of_ne hz1, wToAff_of_ne hz2]
        exact hinf hZ


/-- **`rcb_complete`**: the completeness statement holds for the REGENERATED formulas. -/
theorem rcb_complete : rcb_complete_statement := by
  intro F _ _ a b x1 y1 z1 x2 y2 z2 h2 hroot h1 n1 h2' n2
  exact rcb_complete_proved a b x1 y1 z1 x2 y2 z2 h2 hroot h1 n1 h2' n2

/-- the part of completeness that is proved: opposite operands give `Z₃ = 0 ∧ X₃ = 0` -/
theorem rcb_complete_partial (a b3 x y z : F) :
    (Gen.Weierstrass.add a b3 x y z x (-y) z).1 = 0 ∧ (Gen.Weierstrass.add a b3 x y z x (-y) z).2.2 = 0 :=
  rcb_add_neg a b3 x y z

/-! ## Twisted Edwards, extended coordinates -/

/-- the extended-coordinate invariant `T·Z = X·Y` holds for every output of `Add` and `Double`,
unconditionally -/
theorem ed_ext_invariant (a d x1 y1 t1 z1 x2 y2 t2 z2 : F) :
    (let R := Gen.Edwards.add a d x1 y1 t1 z1 x2 y2 t2 z2; R.2.2.1 * R.2.2.2 = R.1 * R.2.1) ∧
    (let R := Gen.Edwards.double a x1 y1 z1; R.2.2.1 * R.2.2.2 = R.1 * R.2.1) := by
  simp only [Gen.Edwards.add, Gen.Edwards.double]
  constructor <;> ring

theorem ed_comm (a d x1 y1 t1 z1 x2 y2 t2 z2 : F) :
    Gen.Edwards.add a d x1 y1 t1 z1 x2 y2 t2 z2 = Gen.Edwards.add a d x2 y2 t2 z2 x1 y1 t1 z1 := by
  simp only [Gen.Edwards.add, Prod.mk.injEq]
  refine ⟨?_, ?_, ?_, ?_⟩ <;> ring

/-- adding the identity `(0 : 1 : 0 : 1)` returns the operand rescaled by `Z₁` -/
theorem ed_identity {a d x y t z : F} (hT : t * z = x * y) :
    Gen.Edwards.add a d x y t z 0 1 0 1 = (z * x, z * y, z * t, z * z) := by
  simp only [Gen.Edwards.add, Prod.mk.injEq]
  refine ⟨by ring, by ring, ?_, by ring⟩
  linear_combination (-1 : F) * hT

theorem ed_neg (x y t z : F) :
    let R := Gen.Edwards.neg x y t z
    eToAff R.1 R.2.1 R.2.2.2 = E.neg (eToAff x y z) ∧ R.2.2.1 * R.2.2.2 = R.1 * R.2.1 ↔ True ∧ (t * z = x * y) := by
  simp only [Gen.Edwards.neg, eToAff, E.neg, true_and]
  constructor
  · rintro ⟨_, h⟩; linear_combination (-1 : F) * h
  · intro h
    exact ⟨by congr 1; ring, by linear_combination (-1 : F) * h⟩

/-- bihomogeneity of the extended-coordinate addition: rescaling the representatives rescales the
output by `(l·m)²` — the affine image does not depend on the representatives -/
theorem ed_add_homogeneous (a d l m x1 y1 t1 z1 x2 y2 t2 z2 : F) :
    Gen.Edwards.add a d (l * x1) (l * y1) (l * t1) (l * z1) (m * x2) (m * y2) (m * t2) (m * z2) =
      (let R := Gen.Edwards.add a d x1 y1 t1 z1 x2 y2 t2 z2
       ((l * m) ^ 2 * R.1, (l * m) ^ 2 * R.2.1, (l * m) ^ 2 * R.2.2.1, (l * m) ^ 2 * R.2.2.2)) := by
  simp only [Gen.Edwards.add, Prod.mk.injEq]
  refine ⟨?_, ?_, ?_, ?_⟩ <;> ring

/-- **Unified Edwards addition** (normalised representatives `(x, y, x·y, 1)`): whenever the two
denominators `1 ± d·x₁x₂y₁y₂` do not vanish, the affine image of the generated sum is the model's
Edwards sum — one formula for generic, equal, opposite and identity operands. -/
theorem ed_add_affine {a d x1 y1 x2 y2 : F}
    (hP : 1 + d * x1 * x2 * y1 * y2 ≠ 0) (hM : 1 - d * x1 * x2 * y1 * y2 ≠ 0) :
    let R := Gen.Edwards.add a d x1 y1 (x1 * y1) 1 x2 y2 (x2 * y2) 1
    eToAff R.1 R.2.1 R.2.2.2 = E.add a d ⟨x1, y1⟩ ⟨x2, y2⟩ := by
  intro R
  have hR : R = _ := Edwards.add_closed a d x1 y1 (x1 * y1) 1 x2 y2 (x2 * y2) 1
  rw [hR]
  have eM : (1 : F) * 1 - d * (x1 * y1) * (x2 * y2) = 1 - d * x1 * x2 * y1 * y2 := by ring
  have eP : (1 : F) * 1 + d * (x1 * y1) * (x2 * y2) = 1 + d * x1 * x2 * y1 * y2 := by ring
  simp only [eToAff, E.add]
  rw [eM, eP]
  generalize 1 + d * x1 * x2 * y1 * y2 = p at *
  generalize 1 - d * x1 * x2 * y1 * y2 = m at *
  congr 1
  · field_simp
  · field_simp

/-- the dedicated doubling is `add P P` up to the projective factor `−1`, on the curve -/
theorem ed_double_eq_add_self {a d x y t z : F} (hC : a * x ^ 2 + y ^ 2 = z ^ 2 + d * t ^ 2) :
    Gen.Edwards.double a x y z =
      (-(Gen.Edwards.add a d x y t z x y t z).1, -(Gen.Edwards.add a d x y t z x y t z).2.1,
       -(Gen.Edwards.add a d x y t z x y t z).2.2.1, -(Gen.Edwards.add a d x y t z x y t z).2.2.2) := by
  simp only [Gen.Edwards.double, Gen.Edwards.add, Prod.mk.injEq]
  refine ⟨?_, ?_, ?_, ?_⟩
  · linear_combination (2 * x * y) * hC
  · linear_combination (a * x ^ 2 - y ^ 2) * hC
  · ring
  · linear_combination (a * x ^ 2 + d * t ^ 2 + y ^ 2 - z ^ 2) * hC

/-- NOT PROVED: (i) the denominators never vanish on the curve when `a` is a square and `d` is not
(Bernstein–Lange completeness); (ii) associativity of the rational Edwards law.  Both are carried by
the correspondence stream (small-order points, random triples through `msm`). -/
def ed_complete_assoc_statement : Prop :=
  ∀ (F : Type) [Field F] [DecidableEq F] (a d : F), IsSquare a → ¬ IsSquare d →
    (∀ x1 y1 x2 y2 : F, a * x1 ^ 2 + y1 ^ 2 = 1 + d * x1 ^ 2 * y1 ^ 2 → a * x2 ^ 2 + y2 ^ 2 = 1 + d * x2 ^ 2 * y2 ^ 2 →
      1 + d * x1 * x2 * y1 * y2 ≠ 0 ∧ 1 - d * x1 * x2 * y1 * y2 ≠ 0) ∧
    (∀ P Q R : EPt F, E.onCurve a d P → E.onCurve a d Q → E.onCurve a d R →
      E.add a d (E.add a d P Q) R = E.add a d P (E.add a d Q R))

/-! ## Scalar and multi-scalar multiplication of the model

`W.smul`/`W.msm` (what the driver evaluates for every Go `ScalarMul`, `ScalarBaseMul`,
`MultiScalarMul`, and the raw windowed ladder) are double-and-add / a left fold.  They are the
`k`-fold sum in ANY additive monoid `G` that the model's `add` represents through a map `φ`
(`φ (x + y) = W.add a (φ x) (φ y)`, `φ 0 = inf`) — for the curves of the library `G` is the group
of rational points; that `W.add` is that group law is the content of Mathlib's
`WeierstrassCurve.Affine.Point` and is taken as the hypothesis `hadd`.  The Go windowed ladder and
Pippenger bucket method are modelled by hand in `Model/Window.lean` (section "windowed ladder and
bucket method" below). -/

theorem W_double_eq_add_self (a : F) (P : WPt F) : W.double a P = W.add a P P := by
  cases P with
  | inf => simp [W.double, W.add]
  | aff x y => simp [W.add]

theorem smulAux_hom {G : Type} [AddMonoid G] (a : F) (φ : G → WPt F)
    (hadd : ∀ x y, φ (x + y) = W.add a (φ x) (φ y)) :
    ∀ (fuel k : Nat) (g acc : G), k < 2 ^ fuel → W.smulAux a fuel k (φ g) (φ acc) = φ (acc + k • g) := by
  intro fuel
  induction fuel with
  | zero =>
    intro k g acc hk
    have : k = 0 := by omega
    subst this
    simp [W.smulAux]
  | succ n ih =>
    intro k g acc hk
    unfold W.smulAux
    by_cases h0 : k = 0
    · subst h0; simp
    · simp only [h0, if_false]
      rw [W_double_eq_add_self, ← hadd]
      have hk2 : k / 2 < 2 ^ n := by
        rw [pow_succ] at hk; omega
      have key : ∀ acc' : G, acc' + (k / 2) • (g + g) = acc' + (2 * (k / 2)) • g := by
        intro acc'; rw [← two_nsmul, ← mul_nsmul', mul_comm]
      by_cases h1 : k % 2 = 1
      · simp only [h1, if_true]
        have hk' : 2 * (k / 2) + 1 = k := by omega
        rw [← hadd, ih (k / 2) (g + g) (acc + g) hk2, key, add_assoc, ← succ_nsmul', hk']
      · simp only [h1, if_false]
        have hk' : 2 * (k / 2) = k := by omega
        rw [ih (k / 2) (g + g) acc hk2, key, hk']

/-- **`smul_spec`**: the model's double-and-add is the `k`-fold sum, for every `k` (in particular
`0, 1, n−1, n, n+1`). -/
theorem smul_spec {G : Type} [AddMonoid G] (a : F) (φ : G → WPt F) (h0 : φ 0 = .inf)
    (hadd : ∀ x y, φ (x + y) = W.add a (φ x) (φ y)) (k : Nat) (g : G) :
    W.smul a k (φ g) = φ (k • g) := by
  unfold W.smul
  rw [← h0, smulAux_hom a φ hadd _ k g 0 Nat.lt_log2_self, zero_add]

/-- **`msm_spec`**: the model's multi-scalar multiplication is `Σ kᵢ • gᵢ` (left fold), for vectors
of every length including 0 and 1. -/
theorem msm_spec {G : Type} [AddMonoid G] (a : F) (φ : G → WPt F) (h0 : φ 0 = .inf)
    (hadd : ∀ x y, φ (x + y) = W.add a (φ x) (φ y)) (ks : List Nat) (gs : List G) :
    W.msm a ks (gs.map φ) = φ ((List.zipWith (fun k g => k • g) ks gs).foldl (· + ·) 0) := by
  unfold W.msm
  rw [← h0]
  generalize (0 : G) = acc
  induction ks generalizing gs acc with
  | nil => simp
  | cons k ks ih =>
    cases gs with
    | nil => simp
    | cons g gs =>
      simp only [List.map_cons, List.zipWith_cons_cons, List.foldl_cons]
      rw [smul_spec a φ h0 hadd, ← hadd]
      exact ih gs (acc + k • g)


/-! ## The Go windowed ladder and Pippenger bucket method (`pkg/base/algebra/impl/mul.go`)

`Model/Window.lean` is a hand-written, statement-by-statement model of `ScalarMulLowLevel`,
`MultiScalarMulLowLevel` and its `getWindow` closure over an abstract additive structure; the driver
executes it on every `smulg`/`msmg`/`smulrawb`/`msmrawb`/`msm` line (over `ℤ/n` resp. the runtime
curve points) and `msm_structure_matches_model` ties its constants and loop shapes to the Go source.
Scalars are arbitrary little-endian byte strings (any length, also ≥ the group order, also empty);
`k = leToNat bytes`. -/

section window
open BronVerif.Window BronVerif.Lemmas.Window

/-- **`getWindow` is the base-`2^w` digit**: the bit-by-bit extraction (with its `break` past the end
of the scalar) returns `⌊k / 2^start⌋ mod 2^w`, for every width, start and byte string. -/
theorem get_window_spec (w : Nat) (b : Array UInt8) (start : Nat) :
    getWindow w b start = (leToNat b / 2 ^ start) % 2 ^ w := by
  rw [getWindow_eq, Nat.shiftRight_eq_div_pow]

/-- **`window_digits_sum`**: the digits the bucket method / the ladder read — `getWindow w b (w·j)` for
`j < numWindows = ⌈8·len / w⌉` — recompose the scalar, `Σⱼ digitⱼ · 2^(w·j) = k`, for every width
`w ≥ 1` (in particular `1 ≤ w ≤ 16`, windows that straddle one or two byte boundaries, a top window
that runs past the end) and every byte string. -/
theorem window_digits_sum (w : Nat) (hw : 1 ≤ w) (b : Array UInt8) :
    ((List.range (numWindows (b.size * 8) w)).map fun j => getWindow w b (j * w) * 2 ^ (j * w)).sum =
      leToNat b := by
  simp only [getWindow_eq]
  rw [digits_sum_mod, Nat.mod_eq_of_lt]
  refine lt_of_lt_of_le (leToNat_lt b) (Nat.pow_le_pow_right (by norm_num) ?_)
  have := numWindows_cover hw (b.size * 8)
  omega

/-- more windows than needed (the longest scalar of an MSM determines `numWindows`): still exact -/
theorem window_digits_sum_of_le (w : Nat) (hw : 1 ≤ w) (b : Array UInt8) (bits : Nat) (hb : b.size * 8 ≤ bits) :
    ((List.range (numWindows bits w)).map fun j => getWindow w b (j * w) * 2 ^ (j * w)).sum = leToNat b := by
  simp only [getWindow_eq]
  rw [digits_sum_mod, Nat.mod_eq_of_lt]
  refine lt_of_lt_of_le (leToNat_lt b) (Nat.pow_le_pow_right (by norm_num) ?_)
  have := numWindows_cover hw bits
  omega

/-- **`smul_nibble_spec`**: the Go-literal model of `ScalarMulLowLevel` (table of 16 built by
double-and-add-one, bytes from the last to the first, high nibble then low nibble, four doublings
before each table addition) returns `k • P` in every additive monoid, for every byte string. -/
theorem smul_nibble_spec {G : Type} [AddMonoid G] (P : G) (s : Array UInt8) :
    smulNibble P s = leToNat s • P :=
  smulNibble_eq P s

/-- **`windowed_smul_spec`**: the fixed-window ladder of any width `w ≥ 1` (table of `2^w` multiples,
`getWindow` digits from the top window down, `w` doublings then one table addition per window)
returns `k • P` in every additive monoid. -/
theorem windowed_smul_spec {G : Type} [AddMonoid G] (w : Nat) (hw : 1 ≤ w) (P : G) (s : Array UInt8) :
    windowedSmul w P s = leToNat s • P :=
  windowedSmul_eq hw P s

/-- for `w = 4` the `getWindow` digits are the nibbles the Go ladder reads -/
theorem nibble_digits (x : UInt8) (xs : List UInt8) :
    getWindow 4 (x :: xs).toArray 0 = x.toNat &&& 0b1111 ∧
    getWindow 4 (x :: xs).toArray 4 = (x.toNat >>> 4) &&& 0b1111 := by
  have hx : x.toNat < 256 := x.toNat_lt
  have e : (0b1111 : Nat) = 2 ^ 4 - 1 := by decide
  rw [getWindow_eq, getWindow_eq, e, Nat.and_two_pow_sub_one_eq_mod, Nat.and_two_pow_sub_one_eq_mod]
  simp only [leToNat, leToNatL, Nat.shiftRight_eq_div_pow]
  constructor <;> omega

/-- **`bucket_msm_spec`**: the model of `MultiScalarMulLowLevel` — empty input, the naive path
`n ≤ 7`, "all scalars empty", and the bucket method with `w = clamp(bits.Len n, 2, 16)`,
`numWindows = ⌈maxBits / w⌉`, scatter into `2^w` buckets skipping digit 0, running-sum collapse from
the highest bucket down skipping identity buckets — returns `Σ kᵢ • Pᵢ` in every additive
commutative monoid, for vectors of every length (0 and 1 included) and scalars of arbitrary,
possibly different, byte lengths.  `isz` is the implementation's `IsZero` (only its soundness is
used). -/
theorem bucket_msm_spec {G : Type} [AddCommMonoid G] (isz : G → Bool) (hisz : ∀ x, isz x = true → x = 0)
    (scalars : List (Array UInt8)) (points : List G) (hlen : scalars.length = points.length) :
    msm isz scalars points = (List.zipWith (fun b P => leToNat b • P) scalars points).sum :=
  msm_eq isz hisz scalars points hlen

/-- the bucket method alone, for ANY width `w ≥ 1` and any vector length (the Go code only reaches
it with `n ≥ 8`, `w = msmWidth n`) -/
theorem bucket_core_spec {G : Type} [AddCommMonoid G] (isz : G → Bool) (hisz : ∀ x, isz x = true → x = 0)
    (w : Nat) (hw : 1 ≤ w) (scalars : List (Array UInt8)) (points : List G) :
    bucketCore isz w (numWindows (maxBits scalars) w) scalars points =
      (List.zipWith (fun b P => leToNat b • P) scalars points).sum :=
  bucketCore_eq isz hisz hw scalars points

/-- the width function: `bits.Len n` clamped to `[2, 16]` -/
theorem msm_width_spec (n : Nat) :
    2 ≤ msmWidth n ∧ msmWidth n ≤ 16 ∧ (2 ≤ n → n < 2 ^ 16 → 2 ^ (msmWidth n - 1) ≤ n ∧ n < 2 ^ msmWidth n) := by
  unfold msmWidth bitsLen clampLo clampHi
  refine ⟨by simp only; split_ifs <;> omega, by simp only; split_ifs <;> omega, ?_⟩
  intro h2 h16
  have hn : n ≠ 0 := by omega
  have hlog : n.log2 < 16 := (Nat.log2_lt hn).mpr h16
  have h1 : 1 ≤ n.log2 := by
    by_contra h
    have : n.log2 < 1 := by omega
    have := (Nat.log2_lt hn).mp this
    omega
  simp only [hn, if_false]
  have e1 : ¬ (n.log2 + 1 < 2) := by omega
  have e2 : ¬ (n.log2 + 1 > 16) := by omega
  simp only [e1, e2, if_false, Nat.add_sub_cancel]
  exact ⟨Nat.log2_self_le hn, Nat.lt_log2_self⟩

/-- **`msm_structure_matches_model`** (T): the statement-by-statement structure of
`ScalarMulLowLevel` and `MultiScalarMulLowLevel` REGENERATED from the Go source equals the structure
the model mirrors, with every threshold / mask / loop bound spliced in from the model's constants
(`Lemmas/MulShape.lean`): table size `16 = 2^4`, four doublings per nibble, `>> 4`, `& 15`, naive
path `n ≤ 7`, clamp `[2, 16]`, `numWindows = (maxBits + w − 1)/w`, the bit loop of `getWindow` with its
`break`, `startBit = wIdx·w`, the `win == 0` skip, the running-sum loop `k = 2^w − 1 … 1`. -/
theorem msm_structure_matches_model :
    Gen.MulFacts.scalarMul = MulShape.expectedScalarMul ∧
    Gen.MulFacts.multiScalarMul = MulShape.expectedMultiScalarMul ∧
    tableSize = 2 ^ nibbleBits := by
  decide +kernel

end window

/-! ## Non-vacuity: concrete instances over `ZMod 7` -/

instance : Fact (Nat.Prime 7) := ⟨by norm_num⟩

/-- chord case on `y² = x³ + 3` over `𝔽₇`: `P = (1, 2)`, `Q = (2, 2)` -/
example :
    let R := Gen.Weierstrass.add (0 : ZMod 7) (3 * 3) 1 2 1 2 2 1
    wToAff R.1 R.2.1 R.2.2 = W.add (0 : ZMod 7) (wToAff 1 2 1) (wToAff 2 2 1) :=
  rcb_add_generic (a := 0) (b := 3) (by decide) (by decide) (by decide) (by decide)
    (by rw [div_one, div_one]; decide) (by simp only [div_one]; decide)

/-- tangent case on the same curve, second operand in the representative `(4 : 1 : 4)` of `(1, 2)` -/
example :
    let R := Gen.Weierstrass.add (0 : ZMod 7) (3 * 3) 1 2 1 1 2 1
    wToAff R.1 R.2.1 R.2.2 = W.add (0 : ZMod 7) (wToAff 1 2 1) (wToAff 1 2 1) :=
  rcb_add_self (a := 0) (b := 3) (by decide) (by decide) (by decide) rfl rfl (by decide) (by decide)

example : Gen.Weierstrass.double (0 : ZMod 7) (3 * 3) 3 6 3 = Gen.Weierstrass.add 0 (3 * 3) 3 6 3 3 6 3 :=
  rcb_double_eq_add_self (b := 3) (by decide)

/-- Edwards `x² + y² = 1 + 2x²y²`… over `𝔽₇` with `a = 1`, `d = 3` (a non-square): `P = Q = (0,1)`-free
instance `P = (1, 0)`, `Q = (0, 6)` -/
example :
    let R := Gen.Edwards.add (1 : ZMod 7) 3 1 0 (1 * 0) 1 0 6 (0 * 6) 1
    eToAff R.1 R.2.1 R.2.2.2 = E.add (1 : ZMod 7) 3 ⟨1, 0⟩ ⟨0, 6⟩ :=
  ed_add_affine (by decide) (by decide)

/-- `smul_spec`/`msm_spec` instantiated with the subgroup `{∞, (3,0)}` of `y² = x³ + x + 5` over `𝔽₇`
(`(3,0)` has order 2), `G = ZMod 2` -/
def phi2 : ZMod 2 → WPt (ZMod 7) := fun t => if t = 0 then .inf else .aff 3 0

example (k : Nat) (g : ZMod 2) : W.smul (1 : ZMod 7) k (phi2 g) = phi2 (k • g) :=
  smul_spec 1 phi2 (by decide) (by decide) k g

example : W.msm (1 : ZMod 7) [3, 0, 5] ([1, 1, 1].map phi2) = phi2 ((List.zipWith (fun k g => k • g) [3, 0, 5] [1, 1, 1]).foldl (· + ·) 0) :=
  msm_spec 1 phi2 (by decide) (by decide) _ _

/-- `rcb_complete` on `y² = x³ + 3` over `𝔽₇` (no root of `x³ + 3`): `P = (1,2)`, `Q = (1,5) = −P` -/
example :
    Gen.Weierstrass.add (0 : ZMod 7) (3 * 3) 1 2 1 1 5 1 ≠ (0, 0, 0) ∧
    ((Gen.Weierstrass.add (0 : ZMod 7) (3 * 3) 1 2 1 1 5 1).2.2 = 0 →
      W.add (0 : ZMod 7) (wToAff 1 2 1) (wToAff 1 5 1) = .inf) :=
  rcb_complete (ZMod 7) 0 3 1 2 1 1 5 1 (by decide) (by decide) (by decide) (by decide) (by decide) (by decide)

/-- the characteristic-2 counterexample to the statement without `(2 : F) ≠ 0`: on
`y² = x³ + x + 1` over `𝔽₂` (no root), doubling `P = (0,1)` gives `Z₃ = 0` although `2P ≠ ∞` in the model -/
example :
    (∀ x : ZMod 2, x ^ 3 + 1 * x + 1 ≠ 0) ∧
    (Gen.Weierstrass.add (1 : ZMod 2) (3 * 1) 0 1 1 0 1 1).2.2 = 0 ∧
    W.add (1 : ZMod 2) (wToAff 0 1 1) (wToAff 0 1 1) ≠ .inf := by
  refine ⟨by decide, by decide, ?_⟩
  have h1 : wToAff (0 : ZMod 2) 1 1 = .aff 0 1 := by simp [wToAff]
  rw [h1]
  simp [W.add, W.double]

/-! non-vacuity of the window theorems -/

open BronVerif.Window in
/-- `w = 11` (vector length 1024 … 2047): the window starting at bit 22 of `2^32` straddles three
bytes; its digit is `2^10` -/
example : getWindow 11 #[0, 0, 0, 0, 1, 0, 0, 0] 22 = 2 ^ 10 := by decide

open BronVerif.Window in
example : ((List.range (numWindows (8 * 8) 11)).map fun j =>
    getWindow 11 #[0, 0, 0, 0, 1, 0, 0, 0] (j * 11) * 2 ^ (j * 11)).sum = 2 ^ 32 :=
  window_digits_sum 11 (by decide) #[0, 0, 0, 0, 1, 0, 0, 0]

open BronVerif.Window in
example (P : ZMod 1009) : smulNibble P #[0xff, 0x12, 0x80] = (0x8012ff : Nat) • P :=
  smul_nibble_spec P _

open BronVerif.Window in
example (P : ZMod 1009) : windowedSmul 11 P #[0xff, 0x12, 0x80] = (0x8012ff : Nat) • P :=
  windowed_smul_spec 11 (by decide) P _

open BronVerif.Window in
/-- nine points (bucket path, `w = 4`), scalars of different lengths including an empty one -/
example (P : ZMod 1009) :
    msm (fun x : ZMod 1009 => decide (x = 0)) [#[3], #[0, 1], #[], #[255, 255, 255], #[7], #[1], #[2], #[9], #[16]]
        [P, 2 • P, P, P, 5, 6, 7, 8, 9] =
      (List.zipWith (fun b Q => leToNat b • Q) [#[3], #[0, 1], #[], #[255, 255, 255], #[7], #[1], #[2], #[9], #[16]]
        [P, 2 • P, P, P, 5, 6, 7, 8, 9]).sum :=
  bucket_msm_spec _ (by intro x hx; simpa using hx) _ _ rfl

open BronVerif.Window in
/-- lengths 0 and 1 -/
example (P : ZMod 1009) : msm (fun x : ZMod 1009 => decide (x = 0)) [] ([] : List (ZMod 1009)) = 0 ∧
    msm (fun x : ZMod 1009 => decide (x = 0)) [#[5, 1]] [P] = (261 : Nat) • P := by
  constructor
  · simpa using bucket_msm_spec (G := ZMod 1009) (fun x => decide (x = 0)) (by intro x hx; simpa using hx) [] [] rfl
  · have := bucket_msm_spec (G := ZMod 1009) (fun x => decide (x = 0)) (by intro x hx; simpa using hx) [#[5, 1]] [P] rfl
    simpa [leToNat, leToNatL] using this

end BronVerif.Props.C14
