import BronVerif.Lemmas.Cbor
import BronVerif.Lemmas.CborCanon
import BronVerif.Lemmas.CborDiscipline
import BronVerif.Lemmas.WireAccess
import BronVerif.Lemmas.WireShard
import BronVerif.Lemmas.WirePaillier
/-!
# C12 — wire formats round-trip deterministically; decoding validates like construction

Theorems about

* the CBOR model the driver executes (`Model/Cbor.lean`: `encode` = what `serde.MarshalCBOR` must
  produce, `decode` = what `serde.UnmarshalCBOR` may accept at container level);
* the typed wire models the driver executes on every `canon` line and every accepted mutant
  (`Model/Wire.lean`: per type `decT`, `encT`, `validT`; byte level `decodeWith decT`,
  `encodeWith encT`): `decodeT_valid` — whatever decodes satisfies the constructor's rules — and
  `decodeT_encodeT` — every valid value is the decoding of its own encoding (so the validity
  predicates are not vacuous and the encodings are injective);
* the regenerated table of all `UnmarshalCBOR` methods (`Gen/UnmarshalFacts.lean`).
-/
namespace BronVerif.Props.C12
open BronVerif.Cbor BronVerif.Wire

/-! ## the generic codec -/

/-- Round trip of the order-preserving encoder: every well-formed item (arguments below 2^64, no
duplicate map keys, no bignum tags, at most 32 nesting levels) is decoded back exactly, with no
bytes left over. -/
theorem cbor_roundtrip_raw (x : Item) (hx : wf x = true) (hd : depth x ≤ maxDepth) :
    decode (encRaw x) = some x := decode_encRaw x hx hd

/-- insertion sort is the identity on strictly ascending keys: a canonical item is its own normal
form -/
theorem canon_fixed (x : Item) (hx : wf x = true) (hc : isCanon x = true) : canon x = x :=
  canon_of_isCanon x hx hc

/-- **Round trip** of the deterministic encoder at full strength: a well-formed item whose maps are
in core-deterministic order is decoded back exactly. -/
theorem cbor_roundtrip (x : Item) (hx : wf x = true) (hc : isCanon x = true)
    (hd : depth x ≤ maxDepth) : decode (encode x) = some x := decode_encode x hx hc hd

/-- the statement kept from the first version of this file, now a theorem -/
def cbor_roundtrip_statement : Prop :=
  ∀ x : Item, wf x = true → isCanon x = true → depth x ≤ maxDepth → decode (encode x) = some x

theorem cbor_roundtrip_statement_holds : cbor_roundtrip_statement := cbor_roundtrip

/-- For arbitrary (unsorted) items `decode ∘ encode` returns the core-deterministic normal form. -/
theorem cbor_roundtrip_normal_form (x : Item) (hx : wf (canon x) = true)
    (hd : depth (canon x) ≤ maxDepth) : decode (encode x) = some (canon x) :=
  decode_encRaw (canon x) hx hd

/-- The deterministic encoding determines the (normal form of the) value. -/
theorem encode_injective (x y : Item) (hx : wf (canon x) = true) (hy : wf (canon y) = true)
    (dx : depth (canon x) ≤ maxDepth) (dy : depth (canon y) ≤ maxDepth)
    (h : encode x = encode y) : canon x = canon y := by
  have h1 := cbor_roundtrip_normal_form x hx dx
  have h2 := cbor_roundtrip_normal_form y hy dy
  rw [h] at h1
  exact Option.some.inj (h1.symm.trans h2)

/-- **Canonical encodings are unique**: two canonical well-formed items with equal encodings are
equal. -/
theorem canonical_unique (x y : Item) (hx : wf x = true) (hy : wf y = true)
    (cx : isCanon x = true) (cy : isCanon y = true) (dx : depth x ≤ maxDepth)
    (dy : depth y ≤ maxDepth) (h : encode x = encode y) : x = y :=
  BronVerif.Cbor.canonical_unique x y hx hy cx cy dx dy h

/-- … and so does the order-preserving encoding. -/
theorem encRaw_injective (x y : Item) (hx : wf x = true) (hy : wf y = true)
    (dx : depth x ≤ maxDepth) (dy : depth y ≤ maxDepth) (h : encRaw x = encRaw y) : x = y := by
  have h1 := decode_encRaw x hx dx
  have h2 := decode_encRaw y hy dy
  rw [h] at h1
  exact Option.some.inj (h1.symm.trans h2)

/-- unsigned-integer map keys (shareholder IDs, row indices): numeric order is the bytewise order of
the encoded keys, so ascending IDs are in core-deterministic order -/
theorem uint_keys_ascending (ids : List Nat) (hs : ascNat ids = true) (hb : ∀ i ∈ ids, i < two64) :
    keysAscending (ids.map Item.uint) = true := keysAscending_uints_asc ids hs hb

/-- Trailing bytes after a complete encoding are rejected. -/
theorem decode_strict_trailing (x : Item) (hx : wf (canon x) = true)
    (hd : depth (canon x) ≤ maxDepth) (t : Bytes) (ht : t ≠ []) :
    decode (encode x ++ t) = none := decode_encRaw_trailing (canon x) hx hd t ht

/-- Indefinite lengths, the break byte and the reserved additional-information values are rejected
at every position where a data item is read (all items are read by `decItem`). -/
theorem decode_strict_indefinite (f d : Nat) (b : UInt8) (rest : Bytes)
    (h : 28 ≤ b.toNat % 32) : decItem f d (b :: rest) = none := by
  cases f with
  | zero => rfl
  | succ f => simp only [decItem, decHead_reserved b rest h]

/-- The empty input is rejected. -/
theorem decode_strict_empty : decode [] = none := by decide

/-- **Duplicate map keys are rejected**: a map head followed by the encodings of pairs among which
a key repeats is refused wherever it occurs (any position, any fuel, any remaining depth, any
continuation). -/
theorem decode_strict_dupkeys (kvs : List Item) (hw : wfList kvs = true)
    (he : kvs.length % 2 = 0) (hl : kvs.length / 2 < two64) (hdup : noDupKeys kvs = false)
    (f d : Nat) (rest : Bytes) :
    decItem f d (head 5 (kvs.length / 2) ++ encList kvs ++ rest) = none :=
  decItem_dupkeys kvs hw he hl hdup f d rest

/-- … in particular as a complete input. -/
theorem decode_strict_dupkeys_top (kvs : List Item) (hw : wfList kvs = true)
    (he : kvs.length % 2 = 0) (hl : kvs.length / 2 < two64) (hdup : noDupKeys kvs = false) :
    decode (encRaw (.map kvs)) = none := decode_dupkeys kvs hw he hl hdup

/-- **Bignum tags (2, 3) are rejected**, however the tag head is spelled. -/
theorem decode_strict_bignum_tag (f d : Nat) (bs rest : Bytes) (ai n : Nat)
    (h : decHead bs = some (6, ai, n, rest)) (hn : n = 2 ∨ n = 3) : decItem f d bs = none :=
  decItem_bignum_tag f d bs rest ai n h hn

/-- The decoder's answer does not depend on the fuel / depth budget once it succeeds. -/
theorem decode_budget_monotone (f d : Nat) (bs : Bytes) (r : Item × Bytes)
    (h : decItem f d bs = some r) (f' d' : Nat) (hf : f ≤ f') (hd : d ≤ d') :
    decItem f' d' bs = some r := decItem_mono f d bs r h f' d' hf hd

/-! ## access structures (all five families) -/

theorem decodeThreshold_valid (b : Bytes) (v : Threshold)
    (h : decodeWith decThreshold b = some v) : validThreshold v = true :=
  BronVerif.Wire.decodeThreshold_valid b v h
theorem decodeThreshold_encodeThreshold (v : Threshold) (h : validThreshold v = true) :
    decodeWith decThreshold (encodeWith encThreshold v) = some v :=
  BronVerif.Wire.decodeThreshold_encodeThreshold v h
theorem encodeThreshold_injective (v w : Threshold) (hv : validThreshold v = true)
    (hw : validThreshold w = true) (h : encodeWith encThreshold v = encodeWith encThreshold w) :
    v = w := BronVerif.Wire.encodeThreshold_injective v w hv hw h

theorem decodeUnanimity_valid (b : Bytes) (v : Unanimity)
    (h : decodeWith decUnanimity b = some v) : validUnanimity v = true :=
  BronVerif.Wire.decodeUnanimity_valid b v h
theorem decodeUnanimity_encodeUnanimity (v : Unanimity) (h : validUnanimity v = true) :
    decodeWith decUnanimity (encodeWith encUnanimity v) = some v :=
  BronVerif.Wire.decodeUnanimity_encodeUnanimity v h
theorem encodeUnanimity_injective (v w : Unanimity) (hv : validUnanimity v = true)
    (hw : validUnanimity w = true) (h : encodeWith encUnanimity v = encodeWith encUnanimity w) :
    v = w := BronVerif.Wire.encodeUnanimity_injective v w hv hw h

theorem decodeCNF_valid (b : Bytes) (v : CNF) (h : decodeWith decCNF b = some v) :
    validCNF v = true := BronVerif.Wire.decodeCNF_valid b v h
theorem decodeCNF_encodeCNF (v : CNF) (h : validCNF v = true) :
    decodeWith decCNF (encodeWith encCNF v) = some v := BronVerif.Wire.decodeCNF_encodeCNF v h
theorem encodeCNF_injective (v w : CNF) (hv : validCNF v = true) (hw : validCNF w = true)
    (h : encodeWith encCNF v = encodeWith encCNF w) : v = w :=
  BronVerif.Wire.encodeCNF_injective v w hv hw h

theorem decodeHierarchical_valid (b : Bytes) (v : Hierarchical)
    (h : decodeWith decHierarchical b = some v) : validHierarchical v = true :=
  BronVerif.Wire.decodeHierarchical_valid b v h
theorem decodeHierarchical_encodeHierarchical (v : Hierarchical) (h : validHierarchical v = true) :
    decodeWith decHierarchical (encodeWith encHierarchical v) = some v :=
  BronVerif.Wire.decodeHierarchical_encodeHierarchical v h
theorem encodeHierarchical_injective (v w : Hierarchical) (hv : validHierarchical v = true)
    (hw : validHierarchical w = true)
    (h : encodeWith encHierarchical v = encodeWith encHierarchical w) : v = w :=
  BronVerif.Wire.encodeHierarchical_injective v w hv hw h

theorem decodeBoolAS_valid (b : Bytes) (v : BoolAS) (h : decodeWith decBoolAS b = some v) :
    validBoolAS v = true := BronVerif.Wire.decodeBoolAS_valid b v h
theorem decodeBoolAS_encodeBoolAS (v : BoolAS) (h : validBoolAS v = true) :
    decodeWith decBoolAS (encodeWith encBoolAS v) = some v :=
  BronVerif.Wire.decodeBoolAS_encodeBoolAS v h
theorem encodeBoolAS_injective (v w : BoolAS) (hv : validBoolAS v = true)
    (hw : validBoolAS w = true) (h : encodeWith encBoolAS v = encodeWith encBoolAS w) : v = w :=
  BronVerif.Wire.encodeBoolAS_injective v w hv hw h

/-! ## shares, matrices, MSP, verification vector, public material, shard, signature

Generic over the element codecs (`ElemIO`: `FromBytes`/`Bytes` of the scalar field,
`FromCompressed`/`ToCompressed` of the group); the round-trip direction assumes them lawful
(`dec (enc x) = some x`, lengths below 2^64), the validity direction assumes nothing. The driver
instantiates them with `Fp n` and the runtime curve points (k256: SEC1, BLS12-381 G1: Zcash form). -/

section algebraic
variable {F G : Type}

theorem decodeMatW_valid (decE : Item → Option F) (b : Bytes) (m : MatW F)
    (h : decodeWith (decMatW decE) b = some m) : validMatW m = true :=
  BronVerif.Wire.decodeMatW_valid decE b m h
theorem decodeMatW_encodeMatW (encE : F → Item) (decE : Item → Option F) (d : Nat)
    (hde : ∀ x, decE (encE x) = some x)
    (hce : ∀ x, wf (encE x) = true ∧ isCanon (encE x) = true ∧ depth (encE x) ≤ d)
    (hd : d + 2 ≤ maxDepth) (m : MatW F) (hv : validMatW m = true) :
    decodeWith (decMatW decE) (encodeWith (encMatW encE) m) = some m :=
  BronVerif.Wire.decodeMatW_encodeMatW encE decE d hde hce hd m hv

/-- KW share: non-zero holder, at least one component -/
theorem decodeShareW_valid (io : ElemIO F) (b : Bytes) (s : ShareW F)
    (h : decodeWith (decShareW io) b = some s) : validShareW s = true :=
  BronVerif.Wire.decodeShareW_valid io b s h
theorem decodeShareW_encodeShareW (io : ElemIO F) (hio : io.Lawful) (s : ShareW F)
    (hv : validShareW s = true) :
    decodeWith (decShareW io) (encodeWith (encShareW io) s) = some s :=
  BronVerif.Wire.decodeShareW_encodeShareW io hio s hv

/-- MSP: a non-zero label for exactly the rows of the matrix -/
theorem decodeMSPW_valid (io : ElemIO F) (b : Bytes) (m : MSPW F)
    (h : decodeWith (decMSPW io) b = some m) : validMSPW m = true :=
  BronVerif.Wire.decodeMSPW_valid io b m h
theorem decodeMSPW_encodeMSPW (io : ElemIO F) (hio : io.Lawful) (m : MSPW F)
    (hv : validMSPW m = true) : decodeWith (decMSPW io) (encodeWith (encMSPW io) m) = some m :=
  BronVerif.Wire.decodeMSPW_encodeMSPW io hio m hv

/-- Feldman verification vector: a non-empty column -/
theorem decodeVV_valid (io : ElemIO G) (b : Bytes) (V : List G)
    (h : decodeWith (decVV io) b = some V) : validVV V = true :=
  BronVerif.Wire.decodeVV_valid io b V h
theorem decodeVV_encodeVV (io : ElemIO G) (hio : io.Lawful) (V : List G) (hv : validVV V = true) :
    decodeWith (decVV io) (encodeWith (encVV io) V) = some V :=
  BronVerif.Wire.decodeVV_encodeVV io hio V hv

/-- `BasePublicMaterial`: valid MSP, valid vector, `len V` = number of MSP columns -/
theorem decodePMW_valid (fio : ElemIO F) (gio : ElemIO G) (b : Bytes) (p : PMW F G)
    (h : decodeWith (decPMW fio gio) b = some p) : validPMW p = true :=
  BronVerif.Wire.decodePMW_valid fio gio b p h
theorem decodePMW_encodePMW (fio : ElemIO F) (gio : ElemIO G) (hf : fio.Lawful) (hg : gio.Lawful)
    (p : PMW F G) (hv : validPMW p = true) :
    decodeWith (decPMW fio gio) (encodeWith (encPMW fio gio) p) = some p :=
  BronVerif.Wire.decodePMW_encodePMW fio gio hf hg p hv

section shard
variable [Add G] [OfNat G 0] [HSMul F G G] [DecidableEq G]

/-- `BaseShard`: whatever bytes decode as a shard satisfy `NewBaseShard`'s rules … -/
theorem decodeShardW_valid (fio : ElemIO F) (gio : ElemIO G) (g : G) (b : Bytes) (sh : ShardW F G)
    (h : decodeWith (decShardW fio gio g) b = some sh) : validShardW g sh = true :=
  BronVerif.Wire.decodeShardW_valid fio gio g b sh h

/-- … in particular the private share matches the public data in EVERY component
(`shareMatches` = `Vss.feldmanVerify`: `sₖ • g = (M_{rows(id)} · V)ₖ` for all `k`, lengths included) -/
theorem decodeShardW_shareMatches (fio : ElemIO F) (gio : ElemIO G) (g : G) (b : Bytes)
    (sh : ShardW F G) (h : decodeWith (decShardW fio gio g) b = some sh) :
    shareMatches g sh = true := BronVerif.Wire.decodeShardW_shareMatches fio gio g b sh h

theorem decodeShardW_encodeShardW (fio : ElemIO F) (gio : ElemIO G) (hf : fio.Lawful)
    (hg : gio.Lawful) (g : G) (sh : ShardW F G) (hv : validShardW g sh = true) :
    decodeWith (decShardW fio gio g) (encodeWith (encShardW fio gio) sh) = some sh :=
  BronVerif.Wire.decodeShardW_encodeShardW fio gio hf hg g sh hv

end shard

section sig
variable [OfNat F 0] [DecidableEq F]

/-- ECDSA signature: `r, s ≠ 0`, recovery id absent or at most 3 -/
theorem decodeSigW_valid (io : ElemIO F) (b : Bytes) (s : SigW F)
    (h : decodeWith (decSigW io) b = some s) : validSigW s = true :=
  BronVerif.Wire.decodeSigW_valid io b s h
theorem decodeSigW_encodeSigW (io : ElemIO F) (hio : io.Lawful) (s : SigW F)
    (hv : validSigW s = true) : decodeWith (decSigW io) (encodeWith (encSigW io) s) = some s :=
  BronVerif.Wire.decodeSigW_encodeSigW io hio s hv

end sig
end algebraic

/-! ## Paillier public key: the size floor -/

theorem decodePaillierPK_valid (b : Bytes) (v : PaillierPK)
    (h : decodeWith decPaillierPK b = some v) : validPaillierPK v = true :=
  BronVerif.Wire.decodePaillierPK_valid b v h

/-- a decoded Paillier key has a modulus of at least `2^3071` (3072 bits, `base.IFCKeyLength`) -/
theorem decodePaillierPK_floor (b : Bytes) (v : PaillierPK)
    (h : decodeWith decPaillierPK b = some v) : 2 ^ (ifcKeyLength - 1) ≤ beVal v.nBytes := by
  have hv := decodePaillierPK_valid b v h
  simp only [validPaillierPK, Bool.and_eq_true, decide_eq_true_eq] at hv
  exact hv.1

theorem decodePaillierPK_encodePaillierPK (v : PaillierPK) (h : validPaillierPK v = true) :
    decodeWith decPaillierPK (encodeWith encPaillierPK v) = some v :=
  BronVerif.Wire.decodePaillierPK_encodePaillierPK v h

/-! ## decoder discipline (fact table) -/

/-- **Decoder discipline** (T): over the complete regenerated table of `UnmarshalCBOR` methods,
each decodes into its DTO with `serde.UnmarshalCBOR` and then calls the validating constructor /
performs the explicit checks that the hand-written expectation names for it; a DTO field flows
into the receiver unvalidated only where the expectation says so.  Known gaps are explicit in the
expectations: `unvalidated` (1 entry: `modular.SimpleModulus`) and `nullPanics` (pointer DTO
without nil guard). A new, removed or changed method breaks this theorem. -/
theorem unmarshal_discipline :
    BronVerif.Lemmas.CborDiscipline.disciplineOk BronVerif.Gen.UnmarshalFacts.table
      BronVerif.Lemmas.CborDiscipline.expectations = true :=
  BronVerif.Lemmas.CborDiscipline.unmarshal_discipline_table

/-! ## non-vacuity -/

/-- a struct-like map with unsorted text keys, a nested array, bytes and a tag -/
def sample : Item :=
  .map [.text [0x62], .array [.uint 1000, .nint 3, .simple 22], .text [0x61], .tag 5053 (.bytes [1, 2, 3])]

example : wf (canon sample) = true ∧ depth (canon sample) ≤ maxDepth := by decide
example : (canon sample == sample) = false := by decide
example : encode sample =
    [0xa2, 0x61, 0x61, 0xd9, 0x13, 0xbd, 0x43, 1, 2, 3, 0x61, 0x62, 0x83, 0x19, 0x03, 0xe8, 0x23, 0xf6] := by decide
example : decode (encode sample) = some (canon sample) := by rfl
/-- `cbor_roundtrip` on the canonical form of the sample: its hypotheses hold -/
example : wf (canon sample) = true ∧ isCanon (canon sample) = true := by decide
example : decode (encode (canon sample)) = some (canon sample) :=
  cbor_roundtrip (canon sample) (by decide) (by decide) (by decide)
example : decode (encode sample ++ [0]) = none := by decide
/-- duplicate keys, also in a non-shortest spelling, are rejected -/
example : decode [0xa2, 0x01, 0x02, 0x18, 0x01, 0x03] = none := by decide
example (f d : Nat) : decItem f d ([0xa2, 0x01, 0x02, 0x01, 0x03] ++ [0xff]) = none :=
  decode_strict_dupkeys [.uint 1, .uint 2, .uint 1, .uint 3] (by decide) (by decide) (by decide)
    (by decide) f d [0xff]
/-- indefinite-length array, bignum tag (short and long spelling), 33 nested arrays -/
example : decode [0x9f, 0x01, 0xff] = none := by decide
example : decode [0xc2, 0x41, 0x01] = none := by decide
example (f d : Nat) : decItem f d [0xd8, 0x03, 0x41, 0x01] = none :=
  decode_strict_bignum_tag f d _ [0x41, 0x01] 24 3 (by rfl) (Or.inr rfl)
example : decode (List.replicate 33 0x81 ++ [0x01]) = none := by decide
example : (decode (List.replicate 32 0x81 ++ [0x01])).isSome = true := by decide
/-- non-shortest heads and unsorted maps are accepted by the decoder (as fxamacker does) but are
not what the encoder produces -/
example : decode [0x18, 0x05] = some (.uint 5) ∧ encode (.uint 5) = [0x05] := ⟨by rfl, by decide⟩

/-- a real encoding produced by the library: `threshold.Threshold` 2-of-{1,4} -/
example : decodeWith decThreshold
    [0xd9, 0x13, 0xbd, 0xa2, 0x69, 0x74, 0x68, 0x72, 0x65, 0x73, 0x68, 0x6f, 0x6c, 0x64, 0x02, 0x6c,
     0x73, 0x68, 0x61, 0x72, 0x65, 0x68, 0x6f, 0x6c, 0x64, 0x65, 0x72, 0x73, 0xa2, 0x01, 0xf5, 0x04, 0xf5]
    = some ⟨2, [1, 4]⟩ := by decide
/-- the same bytes with threshold 3 (> 2 shareholders) and threshold 1 are not accepted -/
example : decodeWith decThreshold
    [0xd9, 0x13, 0xbd, 0xa2, 0x69, 0x74, 0x68, 0x72, 0x65, 0x73, 0x68, 0x6f, 0x6c, 0x64, 0x03, 0x6c,
     0x73, 0x68, 0x61, 0x72, 0x65, 0x68, 0x6f, 0x6c, 0x64, 0x65, 0x72, 0x73, 0xa2, 0x01, 0xf5, 0x04, 0xf5]
    = none := by decide
example : validThreshold ⟨1, [1, 4]⟩ = false ∧ validThreshold ⟨2, [0, 4]⟩ = false := by decide
/-- the non-ideal CNF structure with maximal unqualified sets {1,2},{3,4},{5} -/
example : validCNF ⟨[1, 2, 3, 4, 5], [[1, 2], [3, 4], [5]]⟩ = true := by decide
example : validCNF ⟨[1, 2, 3, 4, 5], [[1, 2], [1, 2, 3], [5]]⟩ = false := by decide
example : validUnanimity ⟨[3, 7]⟩ = true ∧ validUnanimity ⟨[3]⟩ = false := by decide
example : validHierarchical ⟨[⟨1, [1, 2]⟩, ⟨3, [3, 4]⟩]⟩ = true
    ∧ validHierarchical ⟨[⟨2, [1, 2]⟩, ⟨2, [3]⟩]⟩ = false := by decide

/-- the shard predicate on a holder with two MSP rows: a wrong FIRST component is refused although
the last one is right (toy group `G = ℤ`, `g = 1`) -/
example : validShardW (1 : Int) (shd_exShard 12 19) = true
    ∧ validShardW (1 : Int) (shd_exShard 13 19) = false
    ∧ validShardW (1 : Int) (shd_exShard 12 20) = false := by decide

example : validPaillierPK ⟨0x80 :: List.replicate 383 1⟩ = true := by decide +kernel
example : validPaillierPK ⟨0x7f :: List.replicate 383 0xff⟩ = false := by decide +kernel

end BronVerif.Props.C12
