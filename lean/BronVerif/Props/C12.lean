import BronVerif.Model.Cbor
/-! # C12 — wire formats (property theorems; work in progress) -/
namespace BronVerif.Props.C12
open BronVerif.Cbor

/-- trailing bytes are rejected (concrete instance; the general theorem follows) -/
theorem decode_trailing_example : decode [0x05, 0x00] = none := by decide

end BronVerif.Props.C12
