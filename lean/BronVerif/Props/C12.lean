import BronVerif.Lemmas.Cbor
import BronVerif.Lemmas.CborDiscipline
/-!
# C12 — wire formats round-trip deterministically; decoding validates like construction

Theorems about the CBOR model the driver executes (`Model/Cbor.lean`: `encode` = what
`serde.MarshalCBOR` must produce, `decode` = what `serde.UnmarshalCBOR` may accept at container
level) and about the regenerated table of all `UnmarshalCBOR` methods (`Gen/UnmarshalFacts.lean`).
-/
namespace BronVerif.Props.C12
open BronVerif.Cbor

/-- Round trip of the order-preserving encoder: every well-formed item (arguments below 2^64, no
duplicate map keys, no bignum tags, at most 32 nesting levels) is decoded back exactly, with no
bytes left over. -/
theorem cbor_roundtrip_raw (x : Item) (hx : wf x = true) (hd : depth x ≤ maxDepth) :
    decode (encRaw x) = some x := decode_encRaw x hx hd

/-- Full statement: the deterministic encoder round-trips on well-formed items whose maps are
already in core-deterministic order. -/
def cbor_roundtrip_statement : Prop :=
  ∀ x : Item, wf x = true → isCanon x = true → depth x ≤ maxDepth → decode (encode x) = some x

/-- Proved part: `decode ∘ encode` returns the core-deterministic normal form `canon x`.
Missing for `cbor_roundtrip_statement`: the lemma `isCanon x → wf x → canon x = x` (insertion sort
is the identity on strictly ascending keys). -/
theorem cbor_roundtrip_partial (x : Item) (hx : wf (canon x) = true)
    (hd : depth (canon x) ≤ maxDepth) : decode (encode x) = some (canon x) :=
  decode_encRaw (canon x) hx hd

/-- The deterministic encoding determines the (normal form of the) value. -/
theorem encode_injective (x y : Item) (hx : wf (canon x) = true) (hy : wf (canon y) = true)
    (dx : depth (canon x) ≤ maxDepth) (dy : depth (canon y) ≤ maxDepth)
    (h : encode x = encode y) : canon x = canon y := by
  have h1 := cbor_roundtrip_partial x hx dx
  have h2 := cbor_roundtrip_partial y hy dy
  rw [h] at h1
  exact Option.some.inj (h1.symm.trans h2)

/-- … and so does the order-preserving encoding. -/
theorem encRaw_injective (x y : Item) (hx : wf x = true) (hy : wf y = true)
    (dx : depth x ≤ maxDepth) (dy : depth y ≤ maxDepth) (h : encRaw x = encRaw y) : x = y := by
  have h1 := decode_encRaw x hx dx
  have h2 := decode_encRaw y hy dy
  rw [h] at h1
  exact Option.some.inj (h1.symm.trans h2)

/-- Trailing bytes after a complete encoding are rejected. -/
theorem decode_strict_trailing (x : Item) (hx : wf (canon x) = true)
    (hd : depth (canon x) ≤ maxDepth) (t : Bytes) (ht : t ≠ []) :
    decode (encode x ++ t) = none := decode_encRaw_trailing (canon x) hx hd t ht

/-- Indefinite lengths, the break byte and the reserved additional-information values are rejected
at every position where a data item is read (all items are read by `decItem`). -/
theorem decode_strict_indefinite (f d : Nat) (b : UInt8) (rest : Bytes)
    (h : 28 ≤ b.toNat % 32) : decItem f d (b :: rest) = none := by
  cases f with
  | zero => rfl
  | succ f => simp only [decItem, decHead_reserved b rest h]

/-- The empty input is rejected. -/
theorem decode_strict_empty : decode [] = none := by decide

/-- **Decoder discipline** (T): over the complete regenerated table of `UnmarshalCBOR` methods,
each decodes into its DTO with `serde.UnmarshalCBOR` and then calls the validating constructor /
performs the explicit checks that the hand-written expectation names for it; a DTO field flows
into the receiver unvalidated only where the expectation says so.  Known gaps are explicit in the
expectations: `unvalidated` (1 entry: `modular.SimpleModulus`) and `nullPanics` (pointer DTO
without nil guard). A new, removed or changed method breaks this theorem. -/
theorem unmarshal_discipline :
    BronVerif.Lemmas.CborDiscipline.disciplineOk BronVerif.Gen.UnmarshalFacts.table
      BronVerif.Lemmas.CborDiscipline.expectations = true :=
  BronVerif.Lemmas.CborDiscipline.unmarshal_discipline_table

/-! ## non-vacuity -/

/-- a struct-like map with unsorted text keys, a nested array, bytes and a tag -/
def sample : Item :=
  .map [.text [0x62], .array [.uint 1000, .nint 3, .simple 22], .text [0x61], .tag 5053 (.bytes [1, 2, 3])]

example : wf (canon sample) = true ∧ depth (canon sample) ≤ maxDepth := by decide
example : (canon sample == sample) = false := by decide
example : encode sample =
    [0xa2, 0x61, 0x61, 0xd9, 0x13, 0xbd, 0x43, 1, 2, 3, 0x61, 0x62, 0x83, 0x19, 0x03, 0xe8, 0x23, 0xf6] := by decide
example : decode (encode sample) = some (canon sample) := by rfl
example : decode (encode sample ++ [0]) = none := by decide
/-- duplicate keys, also in a non-shortest spelling, are rejected -/
example : decode [0xa2, 0x01, 0x02, 0x18, 0x01, 0x03] = none := by decide
/-- indefinite-length array, bignum tag, 33 nested arrays -/
example : decode [0x9f, 0x01, 0xff] = none := by decide
example : decode [0xc2, 0x41, 0x01] = none := by decide
example : decode (List.replicate 33 0x81 ++ [0x01]) = none := by decide
example : (decode (List.replicate 32 0x81 ++ [0x01])).isSome = true := by decide
/-- non-shortest heads and unsorted maps are accepted by the decoder (as fxamacker does) but are
not what the encoder produces -/
example : decode [0x18, 0x05] = some (.uint 5) ∧ encode (.uint 5) = [0x05] := ⟨by rfl, by decide⟩

end BronVerif.Props.C12
