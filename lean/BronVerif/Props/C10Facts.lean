import BronVerif.Gen.SessionFacts
import BronVerif.Gen.Hagrid
import BronVerif.Model.Session
/-!
# C10 — the labels and hash-input layouts of `pkg/mpc/session` are those of `Model/Session.lean`

`BronVerif.Gen.SessionFacts` is regenerated from `/repo/pkg/mpc/session/{context.go,participant.go}` on
every run (translator/consts_session.go + tie_events.go, go/ast only): every string constant, the bytes
of `commonCommitmentKey`, and the event lists (statement sequence with guards, messages elided) of
`NewContext`, `Context.SubContext`, `Participant.Round3`, `Participant.Round4`.

* `session_constants_match_source`: the regenerated labels, encoded as ASCII, ARE the byte strings the
  model (and so the driver) uses (`Session.transcriptName`, `seedLabel`, `sessionDom`, …), the key is
  `Session.commonKey`, and the hagrid framing constants the model re-uses are those of hagrid.go.
* `session_layout_matches_model`: the event lists equal the expectations written below next to the
  model clauses they stand for.  A label used for another purpose, a swapped write order, min/max
  exchanged, a dropped dummy read, a dropped opening … breaks the obligation even when no sampled
  session shows a difference.  (A harmless restructuring also breaks it; the expectation is then
  re-read against the model and updated by hand.)  Core-only.
-/
namespace BronVerif.Props.C10Facts
open BronVerif

/-- the model's labels, by the name of the Go constant they transcribe -/
def expectedConsts : List (String × Session.Bytes) := [
  ("transcriptName", Session.transcriptName),
  ("transcriptInitLabel", Session.transcriptInitLabel),
  ("seedDomainSeparatorLabel", Session.seedLabel),
  ("subQuorumLabel", Session.subQuorumLabel),
  ("subContextDomainSeparatorLabel", Session.subContextLabel),
  ("sessionDomainSeparator", Session.sessionDom),
  ("seedDomainSeparator", Session.seedDom)]

theorem session_constants_match_source :
    Gen.SessionFacts.consts.map (fun p => (p.1, Session.ascii p.2)) = expectedConsts ∧
    Gen.SessionFacts.commonCommitmentKey.map UInt8.ofNat = Session.commonKey ∧
    Session.ascii Gen.Hagrid.customizedShakeName = Session.hagridName ∧
    [Gen.Hagrid.appendTag, Gen.Hagrid.extractTag, Gen.Hagrid.extractedTag] =
      [Session.appendTag.toNat, Session.extractTag.toNat, Session.extractedTag.toNat] := by
  decide

/-- the labels are pairwise distinct and none is a prefix-free accident: no two hashes of the setup
share a customisation / domain string -/
theorem session_labels_distinct : (Gen.SessionFacts.consts.map (·.2)).Nodup := by decide

/-- **`NewContext`** against `Session.newContext` / `sidOf` / `tinitOf` / `seedAbsorb`:

* `sha3.Sum512(commonSeed)`; `sid = image[:32]` (`sidOf = (h512 common).take 32`); the transcript is
  `hagrid.NewTranscript(transcriptName)` with `AppendBytes(transcriptInitLabel, image[32:])`
  (`tlog := tAppend transcriptInitLabel (tinitOf H common)`);
* quorum sorted (`sortIds`), own ID skipped (`filter (· != id)`);
* per peer a cSHAKE256 with customisation `seedDomainSeparatorLabel` (`seedLabel`) absorbing
  `le64 (min id i) ‖ le64 (max id i) ‖ pairwiseSeeds[i]` (`seedAbsorb`), closed by a 32-byte dummy read
  (`SeedState.read` starts at offset 32);
* entropy guards: common seed and every pairwise seed at least `CollisionResistanceBytesCeil` bytes. -/
def expected_newContext : List String := [
  "guard id < 1 || quorum == nil || pairwiseSeeds == nil || quorum.Size() < 2 || !quorum.Contains(id) => nil, ErrInvalidArgument",
  "guard len(commonSeed) < base.CollisionResistanceBytesCeil => nil, ErrInvalidArgument",
  "for i := range quorum.Iter() {",
  "if i == id {",
  "continue",
  "}",
  "guard s, ok := pairwiseSeeds[i]; !ok || len(s) < base.CollisionResistanceBytesCeil => nil, ErrInvalidArgument",
  "}",
  "commonImage := sha3.Sum512(commonSeed)",
  "var sid network.SID",
  "copy(sid[:], commonImage[:32])",
  "tape := hagrid.NewTranscript(transcriptName)",
  "tape.AppendBytes(transcriptInitLabel, commonImage[32:])",
  "sortedQuorum := slices.Collect(quorum.Iter())",
  "slices.Sort(sortedQuorum)",
  "seeds := make(map[sharing.ID]*sha3.SHAKE)",
  "for _, i := range sortedQuorum {",
  "if i == id {",
  "continue",
  "}",
  "seed := sha3.NewCSHAKE256(nil, []byte(seedDomainSeparatorLabel))",
  "guard err := binary.Write(seed, binary.LittleEndian, uint64(min(id, i))); err != nil => nil, errs.Wrap(err)",
  "guard err := binary.Write(seed, binary.LittleEndian, uint64(max(id, i))); err != nil => nil, errs.Wrap(err)",
  "s := pairwiseSeeds[i]",
  "guard _, err := seed.Write(s); err != nil => nil, errs.Wrap(err)",
  "guard _, err := seed.Read(make([]byte, 32)); err != nil => nil, errs.Wrap(err)",
  "seeds[i] = seed",
  "}",
  "ctx := &Context{ sid: sid, holderID: id, sortedQuorum: sortedQuorum, tape: tape, seeds: seeds, }",
  "return ctx, nil"]

/-- **`Context.SubContext`** against `Session.subContext` / `subQuorumData` / `subSeedAbsorb`:

* `subQuorumData = le64 |sub| ‖ le64 id …` over the **sorted** sub-quorum;
* transcript: clone, then `AppendBytes(subQuorumLabel, subQuorumData)`;
* per peer: read `CollisionResistanceBytesCeil` (32) bytes from a **clone** of the parent seed
  (`(c.seeds.lookup i).read H 32`), new cSHAKE256 with customisation
  `subContextDomainSeparatorLabel` absorbing `seed ‖ subQuorumData`, closed by a 32-byte dummy read;
* `sid` and `holderID` are inherited. -/
def expected_subContext : List String := [
  "guard subQuorum == nil || subQuorum.Size() < 2 => nil, ErrInvalidArgument",
  "guard !subQuorum.IsSubSet(hashset.NewComparable(ctx.sortedQuorum...).Freeze()) || !subQuorum.Contains(ctx.holderID) => nil, ErrInvalidArgument",
  "subQuorumSorted := slices.Collect(subQuorum.Iter())",
  "slices.Sort(subQuorumSorted)",
  "subQuorumData := new(bytes.Buffer)",
  "guard err := binary.Write(subQuorumData, binary.LittleEndian, uint64(subQuorum.Size())); err != nil => nil, errs.Wrap(err)",
  "for _, id := range subQuorumSorted {",
  "guard err := binary.Write(subQuorumData, binary.LittleEndian, uint64(id)); err != nil => nil, errs.Wrap(err)",
  "}",
  "subTranscript := ctx.Transcript().Clone()",
  "subTranscript.AppendBytes(subQuorumLabel, subQuorumData.Bytes())",
  "subPairwiseSeeds := make(map[sharing.ID]*sha3.SHAKE)",
  "for _, id := range subQuorumSorted {",
  "if id == ctx.holderID {",
  "continue",
  "}",
  "clone := *ctx.seeds[id]",
  "seed := make([]byte, base.CollisionResistanceBytesCeil)",
  "guard _, err := clone.Read(seed); err != nil => nil, errs.Wrap(err)",
  "newSeed := sha3.NewCSHAKE256(nil, []byte(subContextDomainSeparatorLabel))",
  "guard _, err := newSeed.Write(seed); err != nil => nil, errs.Wrap(err)",
  "guard _, err := newSeed.Write(subQuorumData.Bytes()); err != nil => nil, errs.Wrap(err)",
  "guard _, err := newSeed.Read(make([]byte, 32)); err != nil => nil, errs.Wrap(err)",
  "subPairwiseSeeds[id] = newSeed",
  "}",
  "newCtx := &Context{ sid: ctx.sid, holderID: ctx.holderID, sortedQuorum: subQuorumSorted, tape: subTranscript, seeds: subPairwiseSeeds, }",
  "return newCtx, nil"]

/-- **`Participant.Round3`** against `Session.round3`: validate broadcasts, validate unicasts, then per
other party in sorted order open the common commitment under the hard-coded `commonCommitmentKey`
(`badCommonOpen … commonKey`) and blame the sender (`IdentifiableAbortPartyIDTag, id`). -/
def expected_round3 : List String := [
  "guard p.round != 3 => nil, ErrRound",
  "guard errB := network.ValidateIncomingMessages(p, p.otherParticipantsOrdered(), inB); errB != nil => nil, errs.Wrap(errB)",
  "guard errU := network.ValidateIncomingMessages(p, p.otherParticipantsOrdered(), inU); errU != nil => nil, errs.Wrap(errU)",
  "for id := range p.otherParticipantsOrdered() {",
  "b, ok := inB.Get(id)",
  "guard !ok => nil, ErrInvalidArgument",
  "u, ok := inU.Get(id)",
  "guard !ok => nil, ErrInvalidArgument",
  "guard err := commonCommitmentKey.Open(p.commonContributionCommitments[id], b.CommonContribution[:], b.CommonContributionWitness); err != nil => nil, errs.Wrap(err).WithTag(base.IdentifiableAbortPartyIDTag, id)",
  "p.commonContributions[id] = b.CommonContribution",
  "p.commonContributionWitnesses[id] = b.CommonContributionWitness",
  "p.pairwiseContributionCommitments[id] = u.PairwiseContributionCommitment",
  "}",
  "uOut := hashmap.NewComparable[sharing.ID, *Round3P2P]()",
  "for id := range p.otherParticipantsOrdered() {",
  "pairwiseContribution, ok := p.pairwiseContributions[id]",
  "guard !ok => nil, ErrInvalidArgument",
  "pairwiseWitness, ok := p.pairwiseContributionWitnesses[id]",
  "guard !ok => nil, ErrInvalidArgument",
  "uOut.Put(id, &Round3P2P{ PairwiseContribution: pairwiseContribution, PairwiseContributionWitness: pairwiseWitness, })",
  "}",
  "p.round++",
  "return uOut.Freeze(), nil"]

/-- **`Participant.Round4`** against `Session.commonSeedFrame` / `entryFrame` / `pairSeedInput` /
`round4`:

* `commonSeed = sessionDomainSeparator ‖ le64 |quorum| ‖ (le64 id ‖ ck ‖ commitment ‖ contribution ‖
  witness)…` over the sorted quorum (`sessionDom ++ (le64 es.length ++ es.flatMap entryFrame)`);
* per other party: open the pairwise commitment under the **own** key `ck` (blame the sender), then
  `seedDomainSeparator ‖ commonSeed ‖ (mine ‖ theirs if p.id < id else theirs ‖ mine)` (`pairSeedInput`);
* `NewContext(p.id, quorum, commonSeed, pairwiseSeeds)`. -/
def expected_round4 : List String := [
  "guard p.round != 4 => nil, ErrRound",
  "guard err := network.ValidateIncomingMessages(p, p.otherParticipantsOrdered(), uIn); err != nil => nil, errs.Wrap(err)",
  "ck, ok := p.commitmentKeys[p.id]",
  "guard !ok => nil, ErrInvalidArgument",
  "commonSeed := []byte(sessionDomainSeparator)",
  "commonSeed = binary.LittleEndian.AppendUint64(commonSeed, uint64(len(p.sortedQuorum)))",
  "for _, id := range p.sortedQuorum {",
  "commonSeed = binary.LittleEndian.AppendUint64(commonSeed, uint64(id))",
  "ckid, ok := p.commitmentKeys[id]",
  "guard !ok => nil, ErrInvalidArgument",
  "commonSeed = append(commonSeed, ckid[:]...)",
  "c, ok := p.commonContributionCommitments[id]",
  "guard !ok => nil, ErrInvalidArgument",
  "commonSeed = append(commonSeed, c[:]...)",
  "m, ok := p.commonContributions[id]",
  "guard !ok => nil, ErrInvalidArgument",
  "commonSeed = append(commonSeed, m[:]...)",
  "w, ok := p.commonContributionWitnesses[id]",
  "guard !ok => nil, ErrInvalidArgument",
  "commonSeed = append(commonSeed, w[:]...)",
  "}",
  "pairwiseSeeds := make(map[sharing.ID][]byte)",
  "for id := range p.otherParticipantsOrdered() {",
  "u, ok := uIn.Get(id)",
  "guard !ok => nil, ErrInvalidArgument",
  "pairwiseCommitment, ok := p.pairwiseContributionCommitments[id]",
  "guard !ok => nil, ErrInvalidArgument",
  "err := ck.Open(pairwiseCommitment, u.PairwiseContribution[:], u.PairwiseContributionWitness)",
  "guard err != nil => nil, errs.Wrap(err).WithTag(base.IdentifiableAbortPartyIDTag, id)",
  "pairwiseSeed := new(bytes.Buffer)",
  "_, err = pairwiseSeed.WriteString(seedDomainSeparator)",
  "guard err != nil => nil, errs.Wrap(err)",
  "_, err = pairwiseSeed.Write(commonSeed)",
  "guard err != nil => nil, errs.Wrap(err)",
  "myPairwiseContribution, ok := p.pairwiseContributions[id]",
  "guard !ok => nil, ErrInvalidArgument",
  "theirPairwiseContribution := u.PairwiseContribution",
  "if p.id < id {",
  "_, err := pairwiseSeed.Write(myPairwiseContribution[:])",
  "guard err != nil => nil, errs.Wrap(err)",
  "_, err = pairwiseSeed.Write(theirPairwiseContribution[:])",
  "guard err != nil => nil, errs.Wrap(err)",
  "}",
  "else {",
  "_, err = pairwiseSeed.Write(theirPairwiseContribution[:])",
  "guard err != nil => nil, errs.Wrap(err)",
  "_, err := pairwiseSeed.Write(myPairwiseContribution[:])",
  "guard err != nil => nil, errs.Wrap(err)",
  "}",
  "pairwiseSeeds[id] = pairwiseSeed.Bytes()",
  "}",
  "ctx, err := NewContext(p.id, hashset.NewComparable(p.sortedQuorum...).Freeze(), commonSeed, pairwiseSeeds)",
  "guard err != nil => nil, errs.Wrap(err)",
  "p.round++",
  "return ctx, nil"]

theorem session_layout_matches_model :
    Gen.SessionFacts.functions = ["newContext", "subContext", "round3", "round4"] ∧
    Gen.SessionFacts.newContext = expected_newContext ∧
    Gen.SessionFacts.subContext = expected_subContext ∧
    Gen.SessionFacts.round3 = expected_round3 ∧
    Gen.SessionFacts.round4 = expected_round4 :=
  ⟨rfl, rfl, rfl, rfl, rfl⟩

end BronVerif.Props.C10Facts
