import BronVerif.Lemmas.H2CSswu
import BronVerif.Lemmas.H2CEll2
import BronVerif.Lemmas.H2CIso
import BronVerif.Lemmas.H2CExpand
import BronVerif.Model.H2CMap
import Mathlib.Data.ZMod.Basic
import Mathlib.Algebra.Field.ZMod
import Mathlib.Tactic.NormNum.Prime
/-!
Property theorems of C19, hash-to-curve part.

The map-to-curve theorems are about the definitions of `Gen/H2CMaps.lean`, which the translator regenerates from
`pkg/base/curves/impl/rfc9380/mappers` and the per-curve params files on every run, and which the driver executes
(`Model/H2CMap.genMap`) next to the straight-line RFC 9380 specification on every line of the stream.  The helper
functions the Go code obtains from elsewhere (`Pow`, `sqrt_ratio`, `sgn0`, the constant embedding `K`) are
parameters constrained by hypotheses; the hypotheses about the concrete constants are discharged for the real
suites by `h2c_constants_match_source` (a `decide` over the regenerated tables).

`expand_message_xmd` / `hash_to_field` theorems are about `Model/H2C.lean`, compared byte for byte with Go.
-/
namespace BronVerif.Props.C19
open BronVerif.Gen.H2CMaps BronVerif.Lemmas BronVerif.H2C

/-! ### simplified SWU (`sswu.go`) -/

/-- For every `u` — the exceptional inputs `Z·u² ∈ {0, -1}` included — the generated SSWU map returns a point of
`y² = x³ + A·x + B`.  `mulByA/mulByB` multiply by `A ≠ 0` and `B`; `Z` is a non-square; `sqrt_ratio` meets its
specification (`H2CSswu.SqrtRatioSpec`: `(true, y)` with `y²·v = u`, or `(false, y)` with `y²·v = Z·u` and `u/v` a
non-square); `g(B/(Z·A))` is a square (RFC 9380 §H.2, criterion 4). -/
theorem sswu_on_curve {F : Type} [Field F] [DecidableEq F] (A B Z : F) (mulByA mulByB : F → F)
    (sr : F → F → Bool × F) (sgn0 : F → Bool)
    (hA : ∀ x, mulByA x = A * x) (hB : ∀ x, mulByB x = B * x)
    (hA0 : A ≠ 0) (hZ : ¬ IsSquare Z) (hsr : H2CSswu.SqrtRatioSpec Z sr)
    (hexc : IsSquare ((B / (Z * A)) ^ 3 + A * (B / (Z * A)) + B)) (u : F) :
    (sswu Z mulByA mulByB sr sgn0 u).2 ^ 2 =
      (sswu Z mulByA mulByB sr sgn0 u).1 ^ 3 + A * (sswu Z mulByA mulByB sr sgn0 u).1 + B :=
  H2CSswu.sswu_on_curve A B Z mulByA mulByB sr sgn0 hA hB hA0 hZ hsr hexc u

/-- the generated `SqrtRatio3Mod4` meets the `sqrt_ratio` specification: `fpow · c1` is exponentiation by
`(q-3)/4` (stated as `(a^c1)⁴·a³ = a`), `c2² = -Z`, and `-1` is a non-square (`q ≡ 3 mod 4`) -/
theorem sqrt_ratio_3mod4_spec {F : Type} [Field F] [DecidableEq F] (Z : F) (fpow : F → Nat → F) (c1 : Nat) (c2 : F)
    (hpow : ∀ a, fpow a c1 ^ 4 * a ^ 3 = a) (hc2 : c2 ^ 2 = -Z) (hm1 : ¬ IsSquare (-1 : F)) :
    H2CSswu.SqrtRatioSpec Z (sqrtRatio3Mod4 fpow c1 c2) :=
  H2CSswu.sqrtRatio3Mod4_spec Z fpow c1 c2 hpow hc2 hm1

/-- `sgn0(y) = sgn0(u)` for the output of the generated map whenever `y ≠ 0` -/
theorem sswu_sign {F : Type} [Field F] [DecidableEq F] (Z : F) (mulByA mulByB : F → F) (sr : F → F → Bool × F)
    (sgn0 : F → Bool) (hsgn : ∀ y : F, y ≠ 0 → sgn0 (-y) = !sgn0 y) (u : F)
    (hy : (sswu Z mulByA mulByB sr sgn0 u).2 ≠ 0) :
    sgn0 (sswu Z mulByA mulByB sr sgn0 u).2 = sgn0 u :=
  H2CSswu.sswu_sign Z mulByA mulByB sr sgn0 hsgn u hy

/-- squares in a small `ZMod n` are decidable by enumeration (used only by the non-vacuity examples) -/
local instance {n : ℕ} [NeZero n] : DecidablePred (IsSquare : ZMod n → Prop) :=
  fun a => decidable_of_iff (∃ r, a = r * r) Iff.rfl

instance : Fact (Nat.Prime 11) := ⟨by norm_num⟩
instance : Fact (Nat.Prime 13) := ⟨by norm_num⟩

/-- non-vacuity: the toy curve `y² = x³ + x + 1` over `ZMod 11` (`11 ≡ 3 mod 4`) with `Z = 2`, the generated
`SqrtRatio3Mod4` (`c1 = 2`, `c2 = 3 = sqrt(-2)`) and `sgn0` = parity; all hypotheses hold and every `u` (11 of
them, `u = 0` and `2·u² = -1` … included) lands on the curve with the sign of `u` -/
example : ∀ u : ZMod 11,
    (sswu 2 (fun x => 1 * x) (fun x => 1 * x) (sqrtRatio3Mod4 (fun a n => a ^ n) 2 3) (fun x => x.val % 2 == 1) u).2 ^ 2 =
      (sswu 2 (fun x => 1 * x) (fun x => 1 * x) (sqrtRatio3Mod4 (fun a n => a ^ n) 2 3) (fun x => x.val % 2 == 1) u).1 ^ 3
        + 1 * (sswu 2 (fun x => 1 * x) (fun x => 1 * x) (sqrtRatio3Mod4 (fun a n => a ^ n) 2 3) (fun x => x.val % 2 == 1) u).1 + 1 :=
  fun u => sswu_on_curve 1 1 2 _ _ _ _ (fun _ => rfl) (fun _ => rfl) (by decide) (by decide)
    (sqrt_ratio_3mod4_spec 2 _ 2 3 (by decide) (by decide) (by decide))
    (by
      have h : (1 / (2 * 1) : ZMod 11) = 6 := by rw [div_eq_iff (by decide)]; decide
      rw [h]; exact ⟨5, by decide⟩) u

example : ∀ y : ZMod 11, y ≠ 0 → ((-y).val % 2 == 1) = !(y.val % 2 == 1) := by decide

/-! ### Elligator 2 (`curve25519.go`, `edwards25519.go`) -/

/-- For every `u` the generated Elligator 2 map returns fractions `(xn/xd, y/1)` with `xd ≠ 0` on the Montgomery
curve `t² = s³ + J·s² + s` (`J = K JLimbs`): `y²·xd³ = xn³ + J·xn²·xd + xn·xd²`.  `fpow · c4` is exponentiation by
`(q-5)/8` (stated as `(a^c4)⁸·a⁵ = a`), `c3² = -1`, `c2⁴ = -4`, and `2` (the `Z` of the suite) is a non-square. -/
theorem elligator2_on_curve {F : Type} [Field F] [DecidableEq F] (K : Nat → F) (fpow : F → Nat → F)
    (sgn0 : F → Bool) (u : F)
    (hpow : ∀ a, fpow a curve25519Elligator2C4 ^ 8 * a ^ 5 = a)
    (hc3 : K curve25519Elligator2C3Limbs ^ 2 = -1) (hc2 : K curve25519Elligator2C2Limbs ^ 4 = -4)
    (h2 : ¬ IsSquare (2 : F)) (r : F × F × F × F) (hr : r = mapToCurveElligator2Curve25519 K fpow sgn0 u) :
    r.2.1 ≠ 0 ∧ r.2.2.2 = 1 ∧
    r.2.2.1 ^ 2 * r.2.1 ^ 3 = r.1 ^ 3 + K curve25519Elligator2JLimbs * r.1 ^ 2 * r.2.1 + r.1 * r.2.1 ^ 2 :=
  H2CEll2.elligator2_on_curve' K fpow sgn0 u hpow hc3 hc2 h2 r hr

/-- For every `u` the generated map to edwards25519 returns fractions with non-zero denominators on
`-x² + y² = 1 + d·x²·y²`, where `c1² = -(J+2)` and `d·(J+2) = -(J-2)` (exceptional points go to `(0, 1)`). -/
theorem elligator2_edwards_on_curve {F : Type} [Field F] [DecidableEq F] (K : Nat → F) (fpow : F → Nat → F)
    (sgn0 : F → Bool) (u d : F)
    (hpow : ∀ a, fpow a curve25519Elligator2C4 ^ 8 * a ^ 5 = a)
    (hc3 : K curve25519Elligator2C3Limbs ^ 2 = -1) (hc2 : K curve25519Elligator2C2Limbs ^ 4 = -4)
    (h2 : ¬ IsSquare (2 : F))
    (hc1 : K edwards25519Elligator2C1Limbs ^ 2 = -(K curve25519Elligator2JLimbs + 2))
    (hd : d * (K curve25519Elligator2JLimbs + 2) = -(K curve25519Elligator2JLimbs - 2))
    (r : F × F × F × F) (hr : r = mapToCurveElligator2Edwards25519 K fpow sgn0 u) :
    r.2.1 ≠ 0 ∧ r.2.2.2 ≠ 0 ∧
    -(r.1 / r.2.1) ^ 2 + (r.2.2.1 / r.2.2.2) ^ 2 = 1 + d * (r.1 / r.2.1) ^ 2 * (r.2.2.1 / r.2.2.2) ^ 2 :=
  H2CEll2.elligator2_edwards_on_curve K fpow sgn0 u d hpow hc3 hc2 h2 hc1 hd r hr

/-- non-vacuity over `ZMod 13` (`13 ≡ 5 mod 8`): `J = 1`, `c3 = 5`, `c2 = 4`, `c1 = 6`, `d = 9`, `fpow a _ = a`
(`(13-5)/8 = 1`); the embedding sends the limb tables to these values -/
def toyK : Nat → ZMod 13 := fun n =>
  if n = curve25519Elligator2C3Limbs then 5 else if n = curve25519Elligator2C2Limbs then 4
  else if n = edwards25519Elligator2C1Limbs then 6 else 1

example : ∀ u : ZMod 13, ∀ r, r = mapToCurveElligator2Edwards25519 toyK (fun a _ => a) (fun x => x.val % 2 == 1) u →
    r.2.1 ≠ 0 ∧ r.2.2.2 ≠ 0 ∧
    -(r.1 / r.2.1) ^ 2 + (r.2.2.1 / r.2.2.2) ^ 2 = 1 + 9 * (r.1 / r.2.1) ^ 2 * (r.2.2.1 / r.2.2.2) ^ 2 :=
  fun u r hr => elligator2_edwards_on_curve toyK _ _ u 9 (by decide) (by decide) (by decide) (by decide)
    (by decide) (by decide) r hr

/-! ### the 3-isogeny of secp256k1 (`isogeny.go` with the tables of `k256/impl/params.go`) -/

/-- For `(x, y)` on `E' : y² = x³ + A'·x + B'` the generated `mapIso` with the regenerated coefficient tables returns
either the fractions `(0/1, 1/0)` of the identity (a denominator polynomial vanishes: the point is in the kernel,
RFC 9380 §6.6.3) or fractions with non-zero denominators on `E : y² = x³ + 7`.  `F` is any field of
characteristic `p = 2²⁵⁶ − 2³² − 977` (hypothesis `hp`); the proof checks a degree-15 polynomial certificate. -/
theorem iso_map_on_curve {F : Type} [Field F] [DecidableEq F] (hp : ((H2CIso.k256P : ℕ) : F) = 0) (x y : F)
    (hE : y ^ 2 = x ^ 3 + ((k256.sswuIsogenyA : ℕ) : F) * x + ((k256.sswuIsogenyB : ℕ) : F))
    (r : F × F × F × F)
    (hr : r = mapIso (k256.xNum Nat.cast) (k256.xDen Nat.cast) (k256.yNum Nat.cast) (k256.yDen Nat.cast) x y) :
    r = (0, 1, 1, 0) ∨ (r.2.1 ≠ 0 ∧ r.2.2.2 ≠ 0 ∧ (r.2.2.1 / r.2.2.2) ^ 2 = (r.1 / r.2.1) ^ 3 + 7) :=
  H2CIso.iso_map_on_curve_k256 hp x y hE r hr

/-- non-vacuity (given that `p` is prime, which no tactic available here can certify): `ZMod p` is such a field
and `E'` has points -/
example [Fact (Nat.Prime H2CIso.k256P)] : ((H2CIso.k256P : ℕ) : ZMod H2CIso.k256P) = 0 := ZMod.natCast_self _

/-! ### cofactor clearing, expand_message, hash_to_field -/

/-- if `h·n` annihilates the group (its order is `h·n`, or its exponent divides `h·n`), `h • P` lies in the
subgroup annihilated by `n`.  Pure group theory; the driver applies `h_eff` of RFC 9380 §8 in
`Model/Curves.lean` arithmetic and checks `n • output = 0` on every line. -/
theorem clear_cofactor_in_subgroup {G : Type} [AddCommGroup G] (h n : ℕ) (hord : ∀ P : G, (h * n) • P = 0)
    (P : G) : n • (h • P) = 0 :=
  H2CExpand.clear_cofactor_in_subgroup h n hord P

example : ∀ P : ZMod 24, (8 * 3) • P = 0 := by decide

/-- `expand_message_xmd` returns exactly `len_in_bytes` bytes whenever it does not abort (any hash with a fixed
non-zero output size) -/
theorem expand_xmd_len (h : XmdHash) (hH : ∀ x, (h.H x).size = (h.H ByteArray.empty).size)
    (hb : 0 < (h.H ByteArray.empty).size) (dst msg out : ByteArray) (len : Nat)
    (hout : expandXmd h dst msg len = some out) : out.size = len :=
  H2CExpand.expand_xmd_len h hH hb dst msg out len hout

example : let h : XmdHash := ⟨fun _ => ByteArray.mk #[1, 2, 3], 4⟩
    (∀ x, (h.H x).size = (h.H ByteArray.empty).size) ∧ 0 < (h.H ByteArray.empty).size :=
  ⟨fun _ => rfl, by decide⟩

/-- `hash_to_field` (`m = 1`): `count` elements, the `i`-th being `OS2IP` of the `i`-th `L`-byte block of the
expanded message, reduced modulo `p` -/
theorem h2f_reduces (expand : ByteArray → ByteArray → Nat → Option ByteArray) (p L count : Nat)
    (dst msg : ByteArray) (us : List Nat) (h : hashToField expand p L count dst msg = some us) :
    ∃ u, expand dst msg (count * L) = some u ∧ us.length = count ∧
      ∀ i, i < count → us[i]? = some (bytesToNatBE (u.extract (L * i) (L * i + L)) % p) :=
  H2CExpand.h2f_reduces expand p L count dst msg us h

/-- every output of `hash_to_field` is a canonical residue -/
theorem h2f_canonical (expand : ByteArray → ByteArray → Nat → Option ByteArray) (p L count : Nat) (hp : 0 < p)
    (dst msg : ByteArray) (us : List Nat) (h : hashToField expand p L count dst msg = some us) :
    ∀ x ∈ us, x < p :=
  H2CExpand.h2f_lt expand p L count hp dst msg us h

example : ∃ us, hashToField (fun _ _ n => some (ByteArray.mk (Array.replicate n 1))) 5 2 3 ByteArray.empty ByteArray.empty = some us :=
  ⟨_, rfl⟩

/-- Domain separation, idealised as for the transcript: if the expander is injective **on the set `S` of
(DST, message, length) triples that occur**, triples that differ (in particular in the DST only) give different
uniform byte strings.  Determinism is definitional (`expandXmd`, `hashToField`, `genMap` are functions). -/
theorem dst_separation (X : ByteArray → ByteArray → Nat → Option ByteArray) (S : Set (ByteArray × ByteArray × Nat))
    (hinj : Set.InjOn (fun t : ByteArray × ByteArray × Nat => X t.1 t.2.1 t.2.2) S)
    {dst dst' msg msg' : ByteArray} {len len' : Nat} (h : (dst, msg, len) ∈ S) (h' : (dst', msg', len') ∈ S)
    (hne : (dst, msg, len) ≠ (dst', msg', len')) : X dst msg len ≠ X dst' msg' len' :=
  H2CExpand.dst_separation X S hinj h h' hne

example : ∃ (X : ByteArray → ByteArray → Nat → Option ByteArray) (S : Set (ByteArray × ByteArray × Nat)),
    Set.InjOn (fun t : ByteArray × ByteArray × Nat => X t.1 t.2.1 t.2.2) S ∧
    ("a".toUTF8, ByteArray.empty, 1) ∈ S ∧ ("b".toUTF8, ByteArray.empty, 1) ∈ S :=
  ⟨fun d _ _ => some d, {("a".toUTF8, ByteArray.empty, 1), ("b".toUTF8, ByteArray.empty, 1)}, by
    intro a ha b hb hab
    simp only [Set.mem_insert_iff, Set.mem_singleton_iff] at ha hb
    rcases ha with rfl | rfl <;> rcases hb with rfl | rfl <;> first | rfl | (exfalso; revert hab; decide), by simp, by simp⟩

/-! ### regenerated `Sgn0` and `MulByA` methods -/

/-- the regenerated `Sgn0` methods are RFC 9380 §4.1 `sgn0`: the parity of the element for `m = 1`, and
`sign_0 OR (zero_0 AND sign_1)` for `Fp2`; the regenerated P-256 `MulByA` is multiplication by `-3` -/
theorem sgn0_matches_rfc {F B : Type} [Field F] (lsb : F → Bool) (u0 u1 : F → B) (lsbB isZeroB : B → Bool) (v : F) :
    k256.sgn0 lsb v = lsb v ∧ p256.sgn0 lsb v = lsb v ∧ pallas.sgn0 lsb v = lsb v ∧ vesta.sgn0 lsb v = lsb v ∧
    bls12381g1.sgn0 lsb v = lsb v ∧
    bls12381g2.sgn0 u0 u1 lsbB isZeroB v = (lsbB (u0 v) || (isZeroB (u0 v) && lsbB (u1 v))) ∧
    p256.mulByA v = -3 * v := by
  refine ⟨rfl, rfl, rfl, rfl, rfl, rfl, ?_⟩
  simp only [p256.mulByA]; ring

example : k256.sgn0 (fun x : ZMod 11 => x.val % 2 == 1) 3 = true := by decide

/-! ### regenerated constants -/

/-- every regenerated suite constant equals the published one (RFC 9380 §8; pasta: zcash/pasta_curves), and the
square-root constants satisfy their defining relations — see `Model/H2CMap.constantChecks` -/
theorem h2c_constants_match_source : constantFailures = [] := by decide

end BronVerif.Props.C19
