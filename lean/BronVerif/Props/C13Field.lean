import Mathlib.Algebra.Field.Basic
import Mathlib.Tactic.Ring
import Mathlib.Tactic.NormNum
import BronVerif.Model.CurveEnc
import BronVerif.Lemmas.CurveEncBytes
import BronVerif.Lemmas.CurveEncStrings
/-!
# C13, prime-field elements (scalars, base fields) and GT (Fp12) element encodings

Theorems about `CurveEnc.Scalar` and `CurveEnc.GT`, the models the driver runs against
`FromBytes / Bytes / FromWideBytes / FromBytesBEReduce` of the ten prime fields and against
`Gt.FromBytes / GtElement.Bytes`.

The Go decoders **reduce** a non-canonical string, they do not reject it (`SetBytes` of the fiat fields
checks the length only; edwards25519's base field additionally refuses a set top bit):
`fromBytes_noncanonical_reduces`, `fromBytes_not_injective`.  GT: `Gt.FromBytes` checks the length and
nothing else — the twelve coefficients are reduced, there is no test that the element lies in the
cyclotomic subgroup (or is a unit at all): `gt_cyclotomic_statement` is kept as the statement the
property would need and refuted by the zero string (`gt_cyclotomic_not_enforced`).
-/
namespace BronVerif.Props.C13
open BronVerif BronVerif.CurveEnc

/-! ## prime fields -/

/-- accepted ⇒ the length is the format's and the value is the canonical residue of the bytes -/
theorem fromBytes_canonical (q len : Nat) (hq : 0 < q) (bs : List Nat) (v : Nat)
    (h : Scalar.fromBytes q len bs = some v) : bs.length = len ∧ v < q ∧ v = beNat bs % q := by
  unfold Scalar.fromBytes at h
  split_ifs at h with hl
  cases h
  exact ⟨by simpa using hl, Nat.mod_lt _ hq, rfl⟩

/-- **non-canonical strings are reduced, not rejected** (mirrors the code): a string of the right
length whose value is `≥ q` is accepted and denotes a value different from the one written -/
theorem fromBytes_noncanonical_reduces (q len : Nat) (hq : 0 < q) (bs : List Nat)
    (hl : bs.length = len) (hn : q ≤ beNat bs) :
    Scalar.fromBytes q len bs = some (beNat bs % q) ∧ beNat bs % q ≠ beNat bs := by
  refine ⟨by simp [Scalar.fromBytes, hl], ?_⟩
  have := Nat.mod_lt (beNat bs) hq
  omega

/-- consequently decoding is not injective on strings: `v` and `v + q` (when it fits) are two
accepted encodings of one element, although `Bytes` only ever writes the first -/
theorem fromBytes_not_injective (q len v : Nat) (hq : 0 < q) (hv : v < q) (hfit : v + q < 256 ^ len) :
    Scalar.toBytes len v ≠ Scalar.toBytes len (v + q) ∧
    Scalar.fromBytes q len (Scalar.toBytes len v) = some v ∧
    Scalar.fromBytes q len (Scalar.toBytes len (v + q)) = some v := by
  have h1 := beNat_beBytes len v (by omega)
  have h2 := beNat_beBytes len (v + q) hfit
  refine ⟨?_, ?_, ?_⟩
  · intro he
    have := congrArg beNat he
    simp only [Scalar.toBytes, h1, h2] at this
    omega
  · simp [Scalar.fromBytes, Scalar.toBytes, length_beBytes, h1, Nat.mod_eq_of_lt hv]
  · simp [Scalar.fromBytes, Scalar.toBytes, length_beBytes, h2, Nat.mod_eq_of_lt hv]

/-- **encode ∘ decode = id on canonical strings**: a string of bytes with value `< q` is what `Bytes`
writes for the element it decodes to -/
theorem fromBytes_bytes_canonical (q len : Nat) (bs : List Nat) (hb : IsBytes bs) (hl : bs.length = len)
    (hc : beNat bs < q) :
    ∃ v, Scalar.fromBytes q len bs = some v ∧ Scalar.toBytes len v = bs := by
  refine ⟨beNat bs, by simp [Scalar.fromBytes, hl, Nat.mod_eq_of_lt hc], ?_⟩
  exact beBytes_beNat len bs hl hb

/-- the edwards25519 base field: accepted iff the length is right **and the top bit is clear**;
then the value is `bytes mod q` (values in `[q, 2^255)` are reduced) -/
theorem fromBytesClearTop_spec (q len : Nat) (bs : List Nat) :
    (bs.length = len → beNat bs < topBit len → Scalar.fromBytesClearTop q len bs = some (beNat bs % q)) ∧
    (bs.length ≠ len → Scalar.fromBytesClearTop q len bs = none) ∧
    (topBit len ≤ beNat bs → Scalar.fromBytesClearTop q len bs = none) := by
  refine ⟨?_, ?_, ?_⟩
  · intro hl ht; simp [Scalar.fromBytesClearTop, hl, Nat.not_le.2 ht]
  · intro hl; simp [Scalar.fromBytesClearTop, hl]
  · intro ht
    unfold Scalar.fromBytesClearTop
    split_ifs <;> rfl

/-- round trip for the top-bit-checking decoder (needs `q ≤ 2^(8·len−1)`: true for `2^255 − 19`) -/
theorem clearTop_roundtrip (q len v : Nat) (hlen : 0 < len) (hv : v < q) (hq : q ≤ topBit len) :
    Scalar.fromBytesClearTop q len (Scalar.toBytes len v) = some v := by
  have ht := topBit_double len hlen
  have hb := beNat_beBytes len v (by omega)
  have : ¬ topBit len ≤ v := by omega
  simp [Scalar.fromBytesClearTop, Scalar.toBytes, length_beBytes, hb, this, Nat.mod_eq_of_lt hv]

theorem leNat_replicate_zero (k : Nat) : leNat (List.replicate k 0) = 0 := by
  induction k with
  | zero => rfl
  | succ k ih => simp [List.replicate_succ, leNat, ih]

/-- **`FromWideBytes` reduces, for every input length `≤ 2·size`**: the split-and-recombine of
`SetBytesWide` (`d0 + d1·256^size` in the field, on the zero-padded little-endian string) is the
big-endian value of the input modulo the order — the one-shot model `Scalar.fromWideBytes` -/
theorem fromWide_split_reduces (q size : Nat) (bs : List Nat) :
    Scalar.fromWideSplit q size bs = Scalar.fromWideBytes q (2 * size) bs := by
  unfold Scalar.fromWideSplit Scalar.fromWideBytes
  split_ifs with hl
  · rfl
  · have hlen : (bs.reverse ++ List.replicate (2 * size - bs.length) 0).length = 2 * size := by
      simp; omega
    set le := bs.reverse ++ List.replicate (2 * size - bs.length) 0 with hle
    have hval : leNat le = beNat bs := by
      rw [hle, leNat_append, leNat_replicate_zero]; simp [beNat]
    have hsplit : leNat le = leNat (le.take size) + 256 ^ size * leNat (le.drop size) := by
      conv_lhs => rw [← List.take_append_drop size le]
      rw [leNat_append]
      have : (le.take size).length = size := by simp [hlen]; omega
      rw [this]
    simp only [Option.some.injEq]
    rw [← hval, hsplit]
    conv_rhs => rw [Nat.add_mod, Nat.mul_mod]
    conv_lhs => rw [Nat.add_mod, Nat.mul_comm (leNat (List.drop size le) % q)]
    simp [Nat.mod_mod]

/-- too long ⇒ rejected (both models) -/
theorem fromWide_too_long (q size : Nat) (bs : List Nat) (h : 2 * size < bs.length) :
    Scalar.fromWideSplit q size bs = none := by
  simp [Scalar.fromWideSplit, h]

/-- a short wide input is the same as its zero-extension on the left (big endian) -/
theorem fromWide_leading_zeros (q wide k : Nat) (bs : List Nat) (h : k + bs.length ≤ wide) :
    Scalar.fromWideBytes q wide (List.replicate k 0 ++ bs) = Scalar.fromWideBytes q wide bs := by
  have h1 : ¬ wide < (List.replicate k 0 ++ bs).length := by
    simp only [List.length_append, List.length_replicate]; omega
  have h2 : ¬ wide < bs.length := by omega
  have hv : beNat (List.replicate k 0 ++ bs) = beNat bs := by
    simp [beNat, List.reverse_append, leNat_append, leNat_replicate_zero]
  have h1' : ¬ wide < k + bs.length := by omega
  simp [Scalar.fromWideBytes, h1', h2, hv]

example : Scalar.fromBytes 251 1 [255] = some (beNat [255] % 251) ∧ beNat [255] % 251 ≠ beNat [255] :=
  fromBytes_noncanonical_reduces 251 1 (by decide) [255] rfl (by decide)
example : Scalar.toBytes 1 3 ≠ Scalar.toBytes 1 254 ∧ Scalar.fromBytes 251 1 (Scalar.toBytes 1 3) = some 3 ∧
    Scalar.fromBytes 251 1 (Scalar.toBytes 1 (3 + 251)) = some 3 :=
  fromBytes_not_injective 251 1 3 (by decide) (by decide) (by decide)
example : [1, 2].length = 2 ∧ 258 < 65521 ∧ 258 = beNat [1, 2] % 65521 :=
  fromBytes_canonical 65521 2 (by decide) [1, 2] 258 (by decide)
example : ∃ v, Scalar.fromBytes 65521 2 [1, 2] = some v ∧ Scalar.toBytes 2 v = [1, 2] :=
  fromBytes_bytes_canonical 65521 2 [1, 2] (by simp [IsBytes]) rfl (by decide)
example : Scalar.fromBytesClearTop 127 1 [130] = none ∧ Scalar.fromBytesClearTop 113 1 [120] = some 7 :=
  ⟨(fromBytesClearTop_spec 127 1 [130]).2.2 (by decide), by decide⟩
example : Scalar.fromBytesClearTop 127 1 (Scalar.toBytes 1 100) = some 100 :=
  clearTop_roundtrip 127 1 100 (by decide) (by decide) (by decide)
example : Scalar.fromWideSplit 251 1 [7, 9] = some ((7 * 256 + 9) % 251) := by
  rw [fromWide_split_reduces]; decide
example : Scalar.fromWideSplit 251 1 [9] = some 9 ∧ Scalar.fromWideSplit 251 1 [1, 2, 3] = none :=
  ⟨by rw [fromWide_split_reduces]; decide, fromWide_too_long 251 1 [1, 2, 3] (by decide)⟩
example : Scalar.fromWideBytes 251 4 ([0, 0] ++ [7, 9]) = Scalar.fromWideBytes 251 4 [7, 9] :=
  fromWide_leading_zeros 251 4 2 [7, 9] (by decide)

/-! ## GT: twelve base-field coefficients -/

theorem chunks_length (k len : Nat) (bs : List Nat) : (Bls.chunks k len bs).length = k := by
  induction k generalizing bs with
  | zero => rfl
  | succ k ih => simp [Bls.chunks, ih]

/-- **length**: only strings of `12·len` bytes are accepted — and *every* such string is -/
theorem gt_decode_len (p len : Nat) (bs : List Nat) :
    (bs.length ≠ 12 * len → GT.decode p len bs = none) ∧
    (bs.length = 12 * len → ∃ cs, GT.decode p len bs = some cs) := by
  constructor <;> intro h <;> simp [GT.decode, h]

/-- **accepted ⇒ twelve canonical coefficients** (`< p`): the decoded element is a well-formed
element of `Fp12` — that is all the decoder guarantees -/
theorem gt_decode_canonical (p len : Nat) (hp : 0 < p) (bs cs : List Nat)
    (h : GT.decode p len bs = some cs) : cs.length = 12 ∧ ∀ c ∈ cs, c < p := by
  unfold GT.decode at h
  split_ifs at h
  cases h
  refine ⟨by simp [chunks_length], ?_⟩
  intro c hc
  simp only [List.mem_map] at hc
  obtain ⟨_, _, rfl⟩ := hc
  exact Nat.mod_lt _ hp

theorem chunks_replicate_zero (k len : Nat) :
    Bls.chunks k len (List.replicate (k * len) 0) = List.replicate k (List.replicate len 0) := by
  induction k with
  | zero => rfl
  | succ k ih =>
    have h1 : (k + 1) * len = len + k * len := by ring
    simp only [Bls.chunks, h1, List.replicate_succ]
    rw [List.replicate_add, List.take_left' (by simp), List.drop_left' (by simp), ih]

/-- the all-zero string decodes to the zero of `Fp12` -/
theorem gt_decode_zero (p len : Nat) :
    GT.decode p len (List.replicate (12 * len) 0) = some (List.replicate 12 0) := by
  have hb : beNat (List.replicate len 0) = 0 := by simp [beNat, leNat_replicate_zero]
  simp [GT.decode, chunks_replicate_zero 12 len, hb, List.map_replicate]

/-- the cyclotomic subgroup `G_{Φ₁₂(p)} ⊂ Fp12ˣ` (which contains GT, the subgroup of order `r`):
`x^(p⁴ − p² + 1) = 1`, stated over any interpretation `toK` of the twelve coefficients in a field -/
def InCyclotomic {K : Type} [Field K] (p : Nat) (x : K) : Prop := x ^ (p ^ 4 - p ^ 2 + 1) = 1

/-- what "the decoder admits only valid group elements" would mean for GT.  **Not enforced by the
code** (`Gt.SetBytes` reduces twelve coefficients and returns): refuted by `gt_cyclotomic_not_enforced`. -/
def gt_cyclotomic_statement {K : Type} [Field K] (toK : List Nat → K) (p len : Nat) : Prop :=
  ∀ bs cs, GT.decode p len bs = some cs → InCyclotomic p (toK cs)

/-- **GT membership is not checked**: for every interpretation that maps the zero vector to `0`, the
decoder accepts a string whose element is not in the cyclotomic subgroup (it is not even a unit).
What *is* guaranteed: `gt_decode_canonical`. -/
theorem gt_cyclotomic_not_enforced {K : Type} [Field K] (toK : List Nat → K) (p len : Nat)
    (h0 : toK (List.replicate 12 0) = 0) : ¬ gt_cyclotomic_statement toK p len := by
  intro hs
  have := hs _ _ (gt_decode_zero p len)
  unfold InCyclotomic at this
  rw [h0, zero_pow (by omega)] at this
  exact zero_ne_one this

/-- the part of the membership statement that holds: the decoded vector is a canonical element of the
ambient ring `Fp12` (twelve residues `< p`).  Missing: membership in the cyclotomic subgroup (false for
the code, `gt_cyclotomic_not_enforced`); the byte-level round trip `decode (encode cs) = cs` is carried
by correspondence (`gtrt` lines) only. -/
theorem gt_cyclotomic_partial (p len : Nat) (hp0 : 0 < p) :
    ∀ bs cs, GT.decode p len bs = some cs → cs.length = 12 ∧ ∀ c ∈ cs, c < p :=
  fun bs cs h => gt_decode_canonical p len hp0 bs cs h

example : GT.decode 7 1 [9, 2, 3, 4, 5, 6, 0, 1, 2, 3, 4, 5] = some [2, 2, 3, 4, 5, 6, 0, 1, 2, 3, 4, 5] := by decide
example : ([2, 2, 3, 4, 5, 6, 0, 1, 2, 3, 4, 5] : List Nat).length = 12 ∧ ∀ c ∈ [2, 2, 3, 4, 5, 6, 0, 1, 2, 3, 4, 5], c < 7 :=
  gt_decode_canonical 7 1 (by decide) [9, 2, 3, 4, 5, 6, 0, 1, 2, 3, 4, 5] _ (by decide)
example : GT.decode 7 1 [1, 2, 3] = none := (gt_decode_len 7 1 [1, 2, 3]).1 (by decide)
/-- interpretation: the first coefficient in `ℚ` … any map sending the zero vector to 0 -/
example : ¬ gt_cyclotomic_statement (K := ℚ) (fun cs => (cs.headD 0 : ℚ)) 7 1 :=
  gt_cyclotomic_not_enforced _ 7 1 (by simp)

end BronVerif.Props.C13
