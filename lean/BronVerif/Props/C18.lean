import Mathlib.Algebra.Module.Basic
import Mathlib.Algebra.Field.Basic
import Mathlib.Algebra.Field.Rat
import Mathlib.Algebra.Group.TypeTags.Basic
import Mathlib.Algebra.Group.Int.TypeTags
import Mathlib.Data.Set.Function
import Mathlib.GroupTheory.OrderOfElement
import Mathlib.Data.Int.ModEq
import Mathlib.Tactic.Ring
import Mathlib.Tactic.FieldSimp
import Mathlib.Tactic.LinearCombination
import Mathlib.Tactic.Abel
import BronVerif.Model.Commit
/-!
# C18 — commitments open only to what was committed (property theorems)

All statements are about the definitions of `Model/Commit.lean`, i.e. the very functions the
driver executes (there with runtime curve / modular arithmetic, here with an arbitrary field `F`,
`F`-module `G` resp. commutative group).  Idealisations are hypotheses: the keyed hash is injective
on the inputs that occur (`Set.InjOn`), `g` generates a group on which `F` acts faithfully
(`∀ a, a • g = 0 → a = 0`), the encryption is injective (Paillier: proved in C16).
-/
namespace BronVerif.Props.C18
open BronVerif.Commit

/-! ## `internal.GenericOpen` -/

/-- `Open` accepts exactly when recomputing the commitment from `(m, w)` gives `c`. -/
theorem open_iff_recompute {M W C : Type} [DecidableEq C] (commit : M → W → C) (c : C) (m : M) (w : W) :
    genericOpen commit c m w = true ↔ commit m w = c := by
  simp [genericOpen]

/-- completeness of every scheme: the honest opening is accepted -/
theorem open_complete {M W C : Type} [DecidableEq C] (commit : M → W → C) (m : M) (w : W) :
    genericOpen commit (commit m w) m w = true := by
  simp [genericOpen]

/-- a changed commitment is rejected by every scheme -/
theorem open_reject_commitment {M W C : Type} [DecidableEq C] (commit : M → W → C) (m : M) (w : W)
    (c' : C) (h : c' ≠ commit m w) : genericOpen commit c' m w = false := by
  simp [genericOpen]; exact fun e => h e.symm

example : genericOpen (fun m w : Nat => m + 2 * w) 7 3 2 = true := by decide
example : genericOpen (fun m w : Nat => m + 2 * w) 8 3 2 = false := by decide

/-! ## hash commitments -/

/-- the framing `m ‖ w` with a witness of fixed length is injective -/
theorem hashcom_frame_injective {m m' w w' : List UInt8} (hw : w.length = w'.length)
    (h : hashFrame m w = hashFrame m' w') : m = m' ∧ w = w' :=
  List.append_inj' h hw

/-- Binding of the hash commitment: if the keyed hash is injective on the (key, input) pairs that
occur, a commitment to `(m, w)` under `k` opens under `k'` only with `k' = k`, `m' = m`, `w' = w`. -/
theorem hashcom_open_binding {K D : Type} [DecidableEq D] (H : K → List UInt8 → D)
    (S : Set (K × List UInt8)) (hinj : Set.InjOn (Function.uncurry H) S)
    {k k' : K} {m m' w w' : List UInt8} (hw : w.length = w'.length)
    (hmem : (k, hashFrame m w) ∈ S) (hmem' : (k', hashFrame m' w') ∈ S)
    (hopen : hashOpen H k' (hashCommit H k m w) m' w' = true) :
    k' = k ∧ m' = m ∧ w' = w := by
  have h1 : hashCommit H k' m' w' = hashCommit H k m w := (open_iff_recompute _ _ _ _).1 hopen
  have h2 : (k', hashFrame m' w') = (k, hashFrame m w) := hinj hmem' hmem h1
  have hk : k' = k := congrArg Prod.fst h2
  have hf : hashFrame m' w' = hashFrame m w := congrArg Prod.snd h2
  obtain ⟨hm, hw'⟩ := hashcom_frame_injective hw.symm hf
  exact ⟨hk, hm, hw'⟩

/-- … hence every change of key, message or witness on its own (or together) is rejected -/
theorem hashcom_reject_changed {K D : Type} [DecidableEq D] (H : K → List UInt8 → D)
    (S : Set (K × List UInt8)) (hinj : Set.InjOn (Function.uncurry H) S)
    {k k' : K} {m m' w w' : List UInt8} (hw : w.length = w'.length)
    (hmem : (k, hashFrame m w) ∈ S) (hmem' : (k', hashFrame m' w') ∈ S)
    (hne : ¬ (k' = k ∧ m' = m ∧ w' = w)) :
    hashOpen H k' (hashCommit H k m w) m' w' = false := by
  by_contra hcon
  have : hashOpen H k' (hashCommit H k m w) m' w' = true := by simpa using hcon
  exact hne (hashcom_open_binding H S hinj hw hmem hmem' this)

/-- The driver's injectivity-only prediction (`hashOpenPredict`, used when no hash model is
available and cross-checked against BLAKE2b when it is) is what `Open` answers. -/
theorem hashOpenPredict_sound {K D : Type} [DecidableEq K] [DecidableEq D] (H : K → List UInt8 → D)
    (S : Set (K × List UInt8)) (hinj : Set.InjOn (Function.uncurry H) S)
    {k₀ k : K} {m₀ w₀ m w : List UInt8} {c : D} {b : Bool} (hw : w₀.length = w.length)
    (hmem : (k₀, hashFrame m₀ w₀) ∈ S) (hmem' : (k, hashFrame m w) ∈ S)
    (hp : hashOpenPredict k₀ m₀ w₀ (hashCommit H k₀ m₀ w₀) k c m w = some b) :
    hashOpen H k c m w = b := by
  unfold hashOpenPredict at hp
  split at hp
  · rename_i h
    obtain ⟨rfl, rfl, rfl⟩ := h
    cases hp
    simp only [hashOpen, genericOpen]
    by_cases hc : hashCommit H k m w = c
    · simp [hc]
    · have : ¬ c = hashCommit H k m w := fun e => hc e.symm
      simp [hc, this]
  · rename_i h
    split at hp
    · rename_i hc
      cases hp
      subst hc
      exact hashcom_reject_changed H S hinj hw hmem hmem' h
    · cases hp

/-- non-vacuity: an injective "hash" (the identity on pairs) satisfies the hypotheses, the honest
opening is accepted and a one-byte change of the message is rejected -/
example : hashOpen (fun (k : Nat) x => (k, x)) 5 (hashCommit (fun (k : Nat) x => (k, x)) 5 [1, 2] [9]) [1, 2] [9] = true
    ∧ hashOpen (fun (k : Nat) x => (k, x)) 5 (hashCommit (fun (k : Nat) x => (k, x)) 5 [1, 2] [9]) [1, 3] [9] = false := by
  decide
example : Set.InjOn (Function.uncurry fun (k : Nat) (x : List UInt8) => (k, x)) Set.univ :=
  fun a _ b _ h => by cases a; cases b; simpa using h

/-! ## Pedersen commitments (prime-order group written additively: an `F`-module `G`) -/
section pedersen
variable {F G : Type} [Field F] [AddCommGroup G] [Module F G]

theorem ped_open_complete [DecidableEq G] (g h : G) (m r : F) :
    (pedersen g h).open (pedCommit g h m r) m r = true :=
  open_complete _ _ _

/-- the homomorphic operations commute with committing: `Op`, `OpInv`, `ScalarOp`,
`ReRandomise`, `Shift` on commitment / message / witness -/
theorem ped_hom (g h : G) (m₁ r₁ m₂ r₂ k s d : F) :
    let P := pedersen (S := F) g h
    P.commit (P.mOp m₁ m₂) (P.wOp r₁ r₂) = P.cOp (P.commit m₁ r₁) (P.commit m₂ r₂)
    ∧ P.commit (P.mInv m₁) (P.wInv r₁) = P.cInv (P.commit m₁ r₁)
    ∧ P.commit (P.mScalar m₁ k) (P.wScalar r₁ k) = P.cScalar (P.commit m₁ r₁) k
    ∧ P.commit m₁ (P.wOp r₁ s) = P.reRandomise (P.commit m₁ r₁) s
    ∧ P.commit (P.mOp m₁ d) r₁ = P.shift (P.commit m₁ r₁) d := by
  simp only [pedersen, pedCommit]
  refine ⟨?_, ?_, ?_, ?_, ?_⟩
  · simp only [add_smul]; abel
  · simp only [neg_smul]; abel
  · simp only [smul_add, smul_smul, mul_comm]
  · simp only [add_smul]; abel
  · simp only [add_smul]; abel

/-- … so the combination opens to the combined message and witness -/
theorem ped_hom_opens [DecidableEq G] (g h : G) (m₁ r₁ m₂ r₂ : F) :
    (pedersen g h).open ((pedersen (S := F) g h).cOp (pedCommit g h m₁ r₁) (pedCommit g h m₂ r₂))
      (m₁ + m₂) (r₁ + r₂) = true := by
  have := (ped_hom g h m₁ r₁ m₂ r₂ 0 0 0).1
  simp only [Hom.open, genericOpen, pedersen] at this ⊢
  simp [this]

/-- the trapdoor key commits exactly like the exported public key `(g, λ • g)` -/
theorem ped_trapdoor_commit (g : G) (lam m r : F) :
    pedTrapdoorCommit g lam m r = pedCommit g (lam • g) m r := by
  simp only [pedTrapdoorCommit, pedCommit, add_smul, smul_smul, mul_comm]

/-- Equivocation (the designed exception): with the trapdoor `λ ≠ 0` the witness
`r' = r + λ⁻¹ (m − m')` opens the same commitment to `m'` under the exported key. -/
theorem ped_equivocate [DecidableEq G] (g : G) {lam : F} (hl : lam ≠ 0) (m r m' : F) :
    (pedersen g (lam • g)).open (pedCommit g (lam • g) m r) m' (pedEquivocate lam m r m') = true := by
  rw [Hom.open, open_iff_recompute]
  simp only [pedersen, pedCommit, pedEquivocate, smul_smul, ← add_smul]
  congr 1
  field_simp
  ring

/-- Binding as an extractor: two openings of one commitment with different witnesses reveal the
discrete logarithm `λ` of `h = λ • g`. -/
theorem ped_binding_extract {g : G} (hg : ∀ a : F, a • g = 0 → a = 0) (lam m r m' r' : F)
    (hr : r ≠ r') (h : pedCommit g (lam • g) m r = pedCommit g (lam • g) m' r') :
    lam = (m - m') / (r' - r) := by
  simp only [pedCommit, smul_smul, ← add_smul] at h
  have h0 : ((m + r * lam) - (m' + r' * lam)) • g = 0 := by rw [sub_smul, h, sub_self]
  have h1 := hg _ h0
  have hne : r' - r ≠ 0 := sub_ne_zero.2 (Ne.symm hr)
  rw [eq_div_iff hne]
  linear_combination -h1

/-- Under the exported key `(g, λ • g)` accept/reject is decided by the scalars alone — the
prediction the driver uses for the bulk of the single-bit changes (`opens` lines). -/
theorem ped_open_iff_scalars [DecidableEq G] {g : G} (hg : ∀ a : F, a • g = 0 → a = 0) [DecidableEq F]
    (lam m₀ r₀ dc m r : F) :
    (pedersen g (lam • g)).open (pedCommit g (lam • g) m₀ r₀ + dc • g) m r
      = pedOpenScalars lam m₀ r₀ dc m r := by
  rw [Bool.eq_iff_iff, Hom.open, open_iff_recompute]
  simp only [pedersen, pedOpenScalars, pedCommit, smul_smul, ← add_smul, decide_eq_true_eq]
  constructor
  · intro h
    have h0 : ((m + r * lam) - (m₀ + r₀ * lam + dc)) • g = 0 := by rw [sub_smul, h, sub_self]
    have := hg _ h0
    linear_combination this
  · intro h
    congr 1
    linear_combination h

/-- a change of the message alone is rejected — exactly, for every second generator `h` -/
theorem ped_reject_message [DecidableEq G] {g : G} (hg : ∀ a : F, a • g = 0 → a = 0) (h : G) {m m' : F} (r : F)
    (hm : m' ≠ m) : (pedersen g h).open (pedCommit g h m r) m' r = false := by
  by_contra hcon
  have ho : (pedersen g h).open (pedCommit g h m r) m' r = true := by simpa using hcon
  rw [Hom.open, open_iff_recompute] at ho
  simp only [pedersen, pedCommit, add_left_inj] at ho
  have : (m' - m) • g = 0 := by rw [sub_smul, ho, sub_self]
  exact hm (sub_eq_zero.1 (hg _ this))

/-- a change of the witness alone is rejected — exactly, when `h` is not the identity of a
group on which `F` acts faithfully (e.g. `h = λ • g`, `λ ≠ 0`) -/
theorem ped_reject_witness [DecidableEq G] (g : G) {h : G} (hh : ∀ a : F, a • h = 0 → a = 0) (m : F) {r r' : F}
    (hr : r' ≠ r) : (pedersen g h).open (pedCommit g h m r) m r' = false := by
  by_contra hcon
  have ho : (pedersen g h).open (pedCommit g h m r) m r' = true := by simpa using hcon
  rw [Hom.open, open_iff_recompute] at ho
  simp only [pedersen, pedCommit, add_right_inj] at ho
  have : (r' - r) • h = 0 := by rw [sub_smul, ho, sub_self]
  exact hr (sub_eq_zero.1 (hh _ this))

/-- a change of the second generator alone is rejected unless the witness is zero -/
theorem ped_reject_key [DecidableEq G] {g h h' : G} (hh : ∀ a : F, a • (h' - h) = 0 → a = 0) (m : F) {r : F}
    (hr : r ≠ 0) : (pedersen g h').open (pedCommit g h m r) m r = false := by
  by_contra hcon
  have ho : (pedersen g h').open (pedCommit g h m r) m r = true := by simpa using hcon
  rw [Hom.open, open_iff_recompute] at ho
  simp only [pedersen, pedCommit, add_right_inj] at ho
  have : r • (h' - h) = 0 := by rw [smul_sub, ho, sub_self]
  exact hr (hh _ this)

/-- `NewCommitmentKeyUnchecked` accepts exactly distinct non-identity generators -/
theorem pedKeyValid_iff [DecidableEq G] (g h : G) : pedKeyValid 0 g h = true ↔ g ≠ h ∧ g ≠ 0 ∧ h ≠ 0 := by
  simp [pedKeyValid, and_assoc]

-- non-vacuity over `F = G = ℚ`, `g = 1`: the generator hypothesis holds, equivocation opens,
-- single-component changes are rejected
example : ∀ a : ℚ, a • (1 : ℚ) = 0 → a = 0 := fun a h => by simpa using h
example : (pedersen (1 : ℚ) ((3 : ℚ) • (1 : ℚ))).open (pedCommit (1 : ℚ) ((3 : ℚ) • (1 : ℚ)) (5 : ℚ) 2) 8
    (pedEquivocate (3 : ℚ) 5 2 8) = true := ped_equivocate (1 : ℚ) (by norm_num) 5 2 8
example : (pedersen (1 : ℚ) (3 : ℚ)).open (pedCommit (1 : ℚ) (3 : ℚ) (5 : ℚ) 2) (6 : ℚ) 2 = false :=
  ped_reject_message (fun a h => by simpa using h) _ _ (by norm_num)
example : (3 : ℚ) = ((5 : ℚ) - 8) / (1 - 2) := by norm_num

end pedersen

/-! ## integer (ring-Pedersen) commitments: exponents in `ℤ`, commitments in a commutative group -/
section intcom
variable {G : Type} [CommGroup G]

theorem intcom_complete [DecidableEq G] (s t : G) (m r : ℤ) :
    (ringPedersen s t).open (intCommit s t m r) m r = true :=
  open_complete _ _ _

theorem intcom_hom (s t : G) (m₁ r₁ m₂ r₂ k x d : ℤ) :
    let P := ringPedersen s t
    P.commit (P.mOp m₁ m₂) (P.wOp r₁ r₂) = P.cOp (P.commit m₁ r₁) (P.commit m₂ r₂)
    ∧ P.commit (P.mInv m₁) (P.wInv r₁) = P.cInv (P.commit m₁ r₁)
    ∧ P.commit (P.mScalar m₁ k) (P.wScalar r₁ k) = P.cScalar (P.commit m₁ r₁) k
    ∧ P.commit m₁ (P.wOp r₁ x) = P.reRandomise (P.commit m₁ r₁) x
    ∧ P.commit (P.mOp m₁ d) r₁ = P.shift (P.commit m₁ r₁) d := by
  simp only [ringPedersen, intCommit]
  refine ⟨?_, ?_, ?_, ?_, ?_⟩
  · simp only [zpow_add]; exact mul_mul_mul_comm _ _ _ _
  · simp only [zpow_neg, mul_inv]
  · simp only [zpow_mul, mul_zpow]
  · simp only [zpow_add, mul_assoc]
  · simp only [zpow_add]; exact mul_right_comm _ _ _

/-- the trapdoor key (`s = t^λ`) commits like the public key -/
theorem intcom_trapdoor_commit (t : G) (lam m r : ℤ) :
    intTrapdoorCommit t lam m r = intCommit (t ^ lam) t m r := by
  simp only [intTrapdoorCommit, intCommit, zpow_add, ← zpow_mul, mul_comm]

/-- Equivocation: `r' = r + λ (m − m')`, shifted by any multiple of an exponent `ord` that kills `t`
(the re-randomisation inside its residue class), opens the same commitment to `m'`. -/
theorem intcom_equivocate [DecidableEq G] (t : G) (lam m r m' : ℤ) (ord x : ℤ) (ht : t ^ ord = 1) :
    (ringPedersen (t ^ lam) t).open (intCommit (t ^ lam) t m r) m'
      (intEquivocateRaw lam m r m' + x * ord) = true := by
  rw [Hom.open, open_iff_recompute]
  simp only [ringPedersen, intCommit, intEquivocateRaw, ← zpow_mul, ← zpow_add]
  have : lam * m' + (r + lam * (m - m') + x * ord) = (lam * m + r) + ord * x := by ring
  rw [this, zpow_add, zpow_mul, ht, one_zpow, mul_one]

/-- the full (computational) binding statement cannot be a theorem about a finite group: two
openings always exist for the holder of the group order.  Kept as the statement the extractor
below approximates. -/
def intcom_binding_statement (s t : G) : Prop :=
  ∀ m r m' r' : ℤ, intCommit s t m r = intCommit s t m' r' → m = m' ∧ r = r'

/-- Binding as an extractor: two openings of one commitment give the relation
`s^(m−m') = t^(r'−r)` between the generators (a discrete-log relation / a multiple of the order,
which yields the factorisation of `N̂`). -/
theorem intcom_binding_partial (s t : G) (m r m' r' : ℤ)
    (h : intCommit s t m r = intCommit s t m' r') : s ^ (m - m') = t ^ (r' - r) := by
  simp only [intCommit] at h
  rw [zpow_sub, zpow_sub, mul_inv_eq_iff_eq_mul, mul_right_comm, eq_mul_inv_iff_mul_eq, h, mul_comm]

/-- A change of the message alone is accepted iff it is a multiple of the order of `s`: every
single-bit change `±2^i` is rejected exactly when the order of `s` is not a power of two
(it is the odd number `p'q'`). -/
theorem intcom_open_message_change [DecidableEq G] (s t : G) (m m' r : ℤ) :
    (ringPedersen s t).open (intCommit s t m r) m' r = true ↔ (orderOf s : ℤ) ∣ m' - m := by
  rw [Hom.open, open_iff_recompute]
  simp only [ringPedersen, intCommit, mul_left_inj]
  rw [eq_comm, zpow_eq_zpow_iff_modEq, Int.modEq_iff_dvd]

theorem intcom_open_witness_change [DecidableEq G] (s t : G) (m r r' : ℤ) :
    (ringPedersen s t).open (intCommit s t m r) m r' = true ↔ (orderOf t : ℤ) ∣ r' - r := by
  rw [Hom.open, open_iff_recompute]
  simp only [ringPedersen, intCommit, mul_right_inj]
  rw [eq_comm, zpow_eq_zpow_iff_modEq, Int.modEq_iff_dvd]

-- non-vacuity: `G = Multiplicative ℤ` (infinite cyclic): only the committed message opens
example : (ringPedersen (Multiplicative.ofAdd (2 : ℤ)) (Multiplicative.ofAdd (1 : ℤ))).open
    (intCommit (Multiplicative.ofAdd (2 : ℤ)) (Multiplicative.ofAdd (1 : ℤ)) 5 3) 5 3 = true :=
  intcom_complete _ _ _ _

end intcom

/-! ## IND-CPA commitments -/

/-- Perfect binding from injectivity of the encryption in (plaintext, nonce): a commitment has at
most one opening.  (ElGamal: `elgamal_enc_injective`; Paillier: injectivity of
`(m, r) ↦ (1+N)^m r^N` on `ℤ_N × ℤ_N^*` is proved for C16 and enters here as hypothesis.) -/
theorem indcpa_binding {M W C : Type} [DecidableEq C] (enc : M → W → C)
    (hinj : Function.Injective2 enc) {c : C} {m m' : M} {w w' : W}
    (h : genericOpen enc c m w = true) (h' : genericOpen enc c m' w' = true) : m = m' ∧ w = w' := by
  rw [open_iff_recompute] at h h'
  exact hinj (h.trans h'.symm)

/-- binding on the message from correctness of decryption alone -/
theorem indcpa_binding_dec {M W C : Type} [DecidableEq C] (enc : M → W → C) (dec : C → M)
    (hdec : ∀ m w, dec (enc m w) = m) {c : C} {m m' : M} {w w' : W}
    (h : genericOpen enc c m w = true) (h' : genericOpen enc c m' w' = true) : m = m' := by
  rw [open_iff_recompute] at h h'
  rw [← hdec m w, ← hdec m' w', h, h']

/-- a single-component change of an IND-CPA commitment's opening is rejected -/
theorem indcpa_reject_changed {M W C : Type} [DecidableEq C] (enc : M → W → C)
    (hinj : Function.Injective2 enc) (m m' : M) (w w' : W) (hne : ¬ (m' = m ∧ w' = w)) :
    genericOpen enc (enc m w) m' w' = false := by
  by_contra hcon
  have ho : genericOpen enc (enc m w) m' w' = true := by simpa using hcon
  exact hne (indcpa_binding enc hinj ho (open_complete enc m w))

section elgamal
variable {F G : Type} [Field F] [AddCommGroup G] [Module F G]

/-- ElGamal encryption `(r • g, M + r • h)` is injective in `(M, r)` -/
theorem elgamal_enc_injective {g : G} (hg : ∀ a : F, a • g = 0 → a = 0) (h : G) :
    Function.Injective2 (egEncrypt (S := F) 0 g h) := by
  intro m m' r r' e
  simp only [egEncrypt, zero_add, Prod.mk.injEq] at e
  obtain ⟨e1, e2⟩ := e
  have hr : r = r' := by
    have : (r - r') • g = 0 := by rw [sub_smul, e1, sub_self]
    exact sub_eq_zero.1 (hg _ this)
  subst hr
  exact ⟨add_right_cancel e2, rfl⟩

theorem elgamal_hom (g h : G) (m₁ m₂ d : G) (r₁ r₂ k s : F) :
    let P := elgamal (S := F) 0 g h
    P.commit (P.mOp m₁ m₂) (P.wOp r₁ r₂) = P.cOp (P.commit m₁ r₁) (P.commit m₂ r₂)
    ∧ P.commit (P.mInv m₁) (P.wInv r₁) = P.cInv (P.commit m₁ r₁)
    ∧ P.commit (P.mScalar m₁ k) (P.wScalar r₁ k) = P.cScalar (P.commit m₁ r₁) k
    ∧ P.commit m₁ (P.wOp r₁ s) = P.reRandomise (P.commit m₁ r₁) s
    ∧ P.commit (P.mOp m₁ d) r₁ = P.shift (P.commit m₁ r₁) d := by
  simp only [elgamal, egEncrypt, zero_add, add_zero, Prod.mk.injEq]
  refine ⟨⟨?_, ?_⟩, ⟨?_, ?_⟩, ⟨?_, ?_⟩, ⟨?_, ?_⟩, ⟨?_, ?_⟩⟩
  · simp only [add_smul]
  · simp only [add_smul]; abel
  · simp only [neg_smul]
  · simp only [neg_smul]; abel
  · simp only [smul_smul, mul_comm]
  · simp only [smul_add, smul_smul, mul_comm]
  · simp only [add_smul]
  · simp only [add_smul]; abel
  · trivial
  · abel

example : Function.Injective2 (egEncrypt (S := ℚ) 0 (1 : ℚ) (3 : ℚ)) :=
  elgamal_enc_injective (fun a h => by simpa using h) _

end elgamal

/-! ## keys derived from transcripts -/

/-- equal transcripts and labels give equal keys -/
theorem extract_key_deterministic {T B G : Type} (extractBytes : T → String → B) (toGroup : B → G)
    {t₁ t₂ : T} {l₁ l₂ : String} (g : G) (ht : t₁ = t₂) (hl : l₁ = l₂) :
    extractKey extractBytes toGroup t₁ l₁ g = extractKey extractBytes toGroup t₂ l₂ g := by
  rw [ht, hl]

/-- different (transcript, label) pairs give different keys when extraction followed by
hash-to-group is injective on the pairs that occur (C19 proves the framing part) -/
theorem extract_key_separated {T B G : Type} (extractBytes : T → String → B) (toGroup : B → G)
    (S : Set (T × String)) (hinj : Set.InjOn (fun p => toGroup (extractBytes p.1 p.2)) S)
    {t₁ t₂ : T} {l₁ l₂ : String} (g : G) (h₁ : (t₁, l₁) ∈ S) (h₂ : (t₂, l₂) ∈ S)
    (hne : (t₁, l₁) ≠ (t₂, l₂)) :
    extractKey extractBytes toGroup t₁ l₁ g ≠ extractKey extractBytes toGroup t₂ l₂ g := by
  intro e
  simp only [extractKey, Prod.mk.injEq, true_and] at e
  exact hne (hinj h₁ h₂ e)

example : extractKey (fun (t : List Nat) (l : String) => (t, l)) id [1, 2] "a" ([], "")
    ≠ extractKey (fun (t : List Nat) (l : String) => (t, l)) id [1, 2] "b" ([], "") := by
  simp [extractKey]

end BronVerif.Props.C18
