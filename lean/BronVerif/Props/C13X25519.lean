import Mathlib.Data.ZMod.Basic
import Mathlib.Algebra.Field.Basic
import Mathlib.Tactic.Ring
import Mathlib.Tactic.NormNum
import Mathlib.Tactic.LinearCombination
import Mathlib.Tactic.FieldSimp
import BronVerif.Model.CurveEnc
import BronVerif.Lemmas.CurveEncBytes
import BronVerif.Lemmas.CurveEncStrings
import BronVerif.Props.C13
/-!
# C13, curve25519: the Montgomery-`u` (compressed) and `u ‖ v` (uncompressed) codecs

Theorems about the executable model `CurveEnc.Mont` (the functions the driver runs against
`curve25519.Curve.FromCompressed / FromUncompressed / FromAffine`, `Point.ToCompressed /
ToUncompressed`).  The group is kept in twisted-Edwards coordinates `a·x² + y² = 1 + d·x²·y²`; the wire
carries `u = (1+y)/(1−y)` and `v = c·u/x`.

What holds, exactly (all statements for every field with `2 ≠ 0`, every byte length, every string):

* accepted ⇒ on the curve (`mont_decode_valid`, `mont_decode_valid_uncompressed`); there is **no**
  subgroup rule in these decoders (the prime-subgroup type adds it, `ed_sub_decode_valid`), and a `u` on
  the quadratic twist is rejected because the square root fails (`mont_decode_twist_rejected`);
* accepted ⇒ the point has the `u` the bytes denote, reduced mod p (`mont_decode_u`); a string with bit
  `8·len − 1` set is **rejected, not masked** (`mont_topbit_rejected`; RFC 7748 masks — the code does
  not), `p ≤ u < 2^(8·len−1)` is reduced (`mont_noncanonical_reduced`);
* `decode (encode P)` is `P` **or `−P`** (`mont_decode_encode_u`) — the sign is not on the wire, so for
  `x ≠ 0` at most one of `P`, `−P` round-trips (`mont_roundtrip_one_sign_fails`, the known finding);
  the point of order 2 `(0, −1)` has `u = 0`, the identity's encoding, and decodes to the identity
  (`mont_order2_compressed_collides`);
* `encode (decode bs) = bs` on accepted canonical strings (`mont_encode_decode`);
* the uncompressed form carries the sign: `decode (encode P) = P` for every curve point except
  `(0, −1)` (`mont_decode_encode_uncompressed`), accepted ⇒ `v` is the one on the wire
  (`mont_decode_v_uncompressed`).
-/
namespace BronVerif.Props.C13
open BronVerif BronVerif.Curve BronVerif.CurveEnc BronVerif.Curves

section mont
variable {F : Type} [Field F] [DecidableEq F] (io : FieldIO F) (a d : F) (len : Nat)

theorem ed_zero_onCurve : E.onCurve a d (E.zero : EPt F) = true := by
  simp [E.onCurve, E.zero]

theorem ed_neg_onCurve (P : EPt F) (h : E.onCurve a d P = true) : E.onCurve a d (E.neg P) = true := by
  rw [ed_onCurve_iff] at h ⊢
  simp only [E.neg]
  linear_combination h

/-- what `Mont.decodeCompressed` computes on a string that is not the identity's -/
theorem mont_decode_unfold (bs : List Nat) (hl : bs.length = len) (hz : bs.all (· == 0) = false) :
    Mont.decodeCompressed io a d len bs =
      (if topBit len ≤ leNat bs then none else
       let u := io.ofNat (leNat bs)
       if u + 1 = 0 then none else
       let y := (u - 1) * (u + 1)⁻¹
       let den := a - d * (y * y)
       if den = 0 then none
       else match io.sqrt? ((1 - y * y) * den⁻¹) with
         | none => none
         | some x => some ⟨x, y⟩) := by
  unfold Mont.decodeCompressed
  rw [if_neg (by simp [hl]), if_neg (by simp [hz])]
  rfl

/-- **length**: both decoders accept only strings of the format length -/
theorem mont_decode_len (c : F) (bs : List Nat) :
    (bs.length ≠ len → Mont.decodeCompressed io a d len bs = none) ∧
    (bs.length ≠ 2 * len → Mont.decodeUncompressed io a d c len bs = none) := by
  constructor <;> intro h <;> simp [Mont.decodeCompressed, Mont.decodeUncompressed, h]

/-- the shape of an accepted non-identity string -/
theorem mont_decode_shape (h : GoodIO io len) (bs : List Nat) (P : EPt F)
    (hz : bs.all (· == 0) = false)
    (hd : Mont.decodeCompressed io a d len bs = some P) :
    bs.length = len ∧ leNat bs < topBit len ∧ io.ofNat (leNat bs) + 1 ≠ 0 ∧
    P.y = (io.ofNat (leNat bs) - 1) * (io.ofNat (leNat bs) + 1)⁻¹ ∧
    a - d * (P.y * P.y) ≠ 0 ∧ P.x * P.x = (1 - P.y * P.y) * (a - d * (P.y * P.y))⁻¹ := by
  have hl : bs.length = len := by
    by_contra hne
    simp [Mont.decodeCompressed, hne] at hd
  rw [mont_decode_unfold io a d len bs hl hz] at hd
  by_cases ht : topBit len ≤ leNat bs
  · simp [ht] at hd
  · by_cases hu : io.ofNat (leNat bs) + 1 = 0
    · simp [ht, hu] at hd
    · by_cases hden : a - d * ((io.ofNat (leNat bs) - 1) * (io.ofNat (leNat bs) + 1)⁻¹ *
          ((io.ofNat (leNat bs) - 1) * (io.ofNat (leNat bs) + 1)⁻¹)) = 0
      · simp [ht, hu, hden] at hd
      · simp only [ht, hu, hden, if_false] at hd
        split at hd
        · simp at hd
        · next x hs =>
          cases hd
          exact ⟨hl, Nat.lt_of_not_le ht, hu, rfl, hden, h.sqrt_sound _ _ hs⟩

/-- **accepted ⇒ on the curve** (compressed form; every string, every length).  The decoder has no
subgroup rule: points with a torsion component are accepted (the prime-subgroup type re-checks). -/
theorem mont_decode_valid (h : GoodIO io len) (bs : List Nat) (P : EPt F)
    (hd : Mont.decodeCompressed io a d len bs = some P) : E.onCurve a d P = true := by
  by_cases hz : bs.all (· == 0) = true
  · by_cases hl : bs.length = len
    · simp [Mont.decodeCompressed, hl, hz] at hd
      subst hd; exact ed_zero_onCurve a d
    · simp [Mont.decodeCompressed, hl] at hd
  · have hz' : bs.all (· == 0) = false := by simpa using hz
    obtain ⟨-, -, -, -, hden, hx⟩ := mont_decode_shape io a d len h bs P hz' hd
    rw [ed_onCurve_iff]
    have h1 : P.x * P.x * (a - d * (P.y * P.y)) = 1 - P.y * P.y := by
      rw [hx, mul_assoc, inv_mul_cancel₀ hden, mul_one]
    linear_combination h1

/-- **accepted ⇒ the point has the `u` read from the bytes** (little endian, reduced mod p): the
decoder cannot return a point other than `±` the one the bytes denote -/
theorem mont_decode_u (h : GoodIO io len) (h2 : (2 : F) ≠ 0) (bs : List Nat) (P : EPt F)
    (hz : bs.all (· == 0) = false)
    (hd : Mont.decodeCompressed io a d len bs = some P) :
    Mont.u? P = some (io.ofNat (leNat bs)) ∧ P ≠ E.zero := by
  obtain ⟨-, -, hu, hy, -, -⟩ := mont_decode_shape io a d len h bs P hz hd
  set u := io.ofNat (leNat bs) with hudef
  have h1y : 1 - P.y = 2 * (u + 1)⁻¹ := by
    rw [hy]; field_simp; ring
  have hne : 1 - P.y ≠ 0 := by
    rw [h1y]; exact mul_ne_zero h2 (inv_ne_zero hu)
  refine ⟨?_, ?_⟩
  · have : (1 + P.y) * (1 - P.y)⁻¹ = u := by
      rw [h1y, hy]; field_simp; ring
    simp [Mont.u?, hne, this]
  · intro h0
    apply hne
    rw [h0]; simp [E.zero]

/-- **bit `8·len − 1` set ⇒ rejected** — the code does *not* mask the top bit of `u` (RFC 7748 §5
says implementations MUST mask it); such strings are simply not decodable -/
theorem mont_topbit_rejected (bs : List Nat) (ht : topBit len ≤ leNat bs) :
    Mont.decodeCompressed io a d len bs = none := by
  by_cases hl : bs.length = len
  · have hz : bs.all (· == 0) = false := by
      by_contra hne
      have h1 : bs.all (· == 0) = true := by simpa using hne
      have := (all_zero_iff bs).1 h1
      have := topBit_pos len
      omega
    rw [mont_decode_unfold io a d len bs hl hz]; simp [ht]
  · simp [Mont.decodeCompressed, hl]

/-- **non-canonical `u`** (`p ≤ u < 2^(8·len−1)`) **is reduced**: two strings below the top bit with the
same residue decode alike (so `u` and `u + p` are two accepted encodings of one point) -/
theorem mont_noncanonical_reduced (bs bs' : List Nat) (hl : bs.length = len) (hl' : bs'.length = len)
    (hz : bs.all (· == 0) = false) (hz' : bs'.all (· == 0) = false)
    (ht : leNat bs < topBit len) (ht' : leNat bs' < topBit len)
    (he : io.ofNat (leNat bs) = io.ofNat (leNat bs')) :
    Mont.decodeCompressed io a d len bs = Mont.decodeCompressed io a d len bs' := by
  rw [mont_decode_unfold io a d len bs hl hz, mont_decode_unfold io a d len bs' hl' hz']
  simp [Nat.not_le.2 ht, Nat.not_le.2 ht', he]

/-- **twist**: a `u` whose `x² = (1−y²)/(a−d·y²)` is a non-square has no curve point and is rejected -/
theorem mont_decode_twist_rejected (bs : List Nat) (hz : bs.all (· == 0) = false)
    (hs : ∀ y, y = (io.ofNat (leNat bs) - 1) * (io.ofNat (leNat bs) + 1)⁻¹ →
      io.sqrt? ((1 - y * y) * (a - d * (y * y))⁻¹) = none) :
    Mont.decodeCompressed io a d len bs = none := by
  by_cases hl : bs.length = len
  · rw [mont_decode_unfold io a d len bs hl hz]
    have hs' := hs _ rfl
    simp only
    split_ifs <;> simp [hs']
  · simp [Mont.decodeCompressed, hl]

/-- the encoder's `u` of a curve point other than the identity (`hden`: the curve is complete in `y`,
as for `ed_decode_encode`; for curve25519 `d/a` is a non-square) -/
theorem mont_u_of_point (h2 : (2 : F) ≠ 0) (hden : ∀ y : F, a - d * (y * y) ≠ 0)
    (P : EPt F) (hP : E.onCurve a d P = true) (h0 : P ≠ E.zero) :
    1 - P.y ≠ 0 ∧ Mont.u? P = some ((1 + P.y) * (1 - P.y)⁻¹) ∧
    (1 + P.y) * (1 - P.y)⁻¹ + 1 ≠ 0 ∧
    ((1 + P.y) * (1 - P.y)⁻¹ - 1) * ((1 + P.y) * (1 - P.y)⁻¹ + 1)⁻¹ = P.y ∧
    ((1 + P.y) * (1 - P.y)⁻¹ = 0 ↔ P.y = -1) := by
  obtain ⟨x, y⟩ := P
  rw [ed_onCurve_iff] at hP
  simp only at hP ⊢
  have hy1 : 1 - y ≠ 0 := by
    intro hy
    have hy' : y = 1 := by linear_combination -hy
    subst hy'
    have hx : x * x * (a - d * (1 * 1)) = 0 := by linear_combination hP
    rcases mul_eq_zero.1 hx with h | h
    · exact h0 (by simp [E.zero, mul_self_eq_zero.1 h])
    · exact hden 1 h
  have hu1 : (1 + y) * (1 - y)⁻¹ + 1 = 2 * (1 - y)⁻¹ := by field_simp; ring
  have hu1' : (1 + y) * (1 - y)⁻¹ - 1 = 2 * y * (1 - y)⁻¹ := by field_simp; ring
  refine ⟨hy1, by simp [Mont.u?, hy1], ?_, ?_, ?_⟩
  · rw [hu1]; exact mul_ne_zero h2 (inv_ne_zero hy1)
  · rw [hu1, hu1']; field_simp
  · constructor
    · intro h
      rcases mul_eq_zero.1 h with h | h
      · linear_combination h
      · exact absurd h (inv_ne_zero hy1)
    · intro h; rw [h]; simp

/-- **decode ∘ encode, compressed: the result is `P` or `−P`** — exactly the `u`-coordinate survives.
Holds for every curve point except the identity's twin `(0, −1)` (order 2, `u = 0`: see
`mont_order2_compressed_collides`).  `hTop`: representatives leave the top bit free. -/
theorem mont_decode_encode_u (h : GoodIO io len) (hTop : ∀ x, io.toNat x < topBit len)
    (h2 : (2 : F) ≠ 0) (hden : ∀ y : F, a - d * (y * y) ≠ 0)
    (P : EPt F) (hP : E.onCurve a d P = true) (hy : P.y ≠ -1) :
    ∃ bs Q, Mont.encodeCompressed io len P = some bs ∧ bs.length = len ∧
      Mont.decodeCompressed io a d len bs = some Q ∧ (Q = P ∨ Q = E.neg P) := by
  by_cases h0 : P = E.zero
  · subst h0
    refine ⟨leBytes len 0, E.zero, by simp [Mont.encodeCompressed], length_leBytes _ _, ?_, Or.inl rfl⟩
    have hz : (leBytes len 0).all (· == 0) = true := by
      rw [leBytes_all_zero_iff len 0 (by positivity)]
    simp [Mont.decodeCompressed, length_leBytes, hz]
  · obtain ⟨hy1, hu, hu1, huy, hu0⟩ := mont_u_of_point a d h2 hden P hP h0
    set u := (1 + P.y) * (1 - P.y)⁻¹ with hudef
    have hune : u ≠ 0 := fun h => hy (hu0.1 h)
    have hn0 : io.toNat u ≠ 0 := by
      intro hn
      apply hune
      rw [← h.ofNat_toNat u, hn, h.ofNat_zero]
    have hz : (leBytes len (io.toNat u)).all (· == 0) = false := by
      have := leBytes_all_zero_iff len (io.toNat u) (h.toNat_lt u)
      by_contra hne
      have h1 : (leBytes len (io.toNat u)).all (· == 0) = true := by simpa using hne
      exact hn0 (this.1 h1)
    have hle : leNat (leBytes len (io.toNat u)) = io.toNat u := leNat_leBytes _ _ (h.toNat_lt u)
    obtain ⟨r, hr, hrx⟩ := sqrt_pm io len h P.x
    have hxy : a * P.x * P.x + P.y * P.y = 1 + d * P.x * P.x * P.y * P.y := (ed_onCurve_iff a d P).1 hP
    have hd0 := hden P.y
    have harg : (1 - P.y * P.y) * (a - d * (P.y * P.y))⁻¹ = P.x * P.x := by
      have h1 : P.x * P.x * (a - d * (P.y * P.y)) = 1 - P.y * P.y := by linear_combination hxy
      rw [← h1, mul_assoc, mul_inv_cancel₀ hd0, mul_one]
    refine ⟨leBytes len (io.toNat u), ⟨r, P.y⟩, ?_, length_leBytes _ _, ?_, ?_⟩
    · simp [Mont.encodeCompressed, h0, hu]
    · rw [mont_decode_unfold io a d len _ (length_leBytes _ _) hz]
      simp only [hle, h.ofNat_toNat, Nat.not_le.2 (hTop u), if_false, hu1, huy, hd0, harg, hr]
    · obtain ⟨x, y⟩ := P
      rcases hrx with rfl | rfl
      · left; rfl
      · right; simp [E.neg]

/-- **the finding, compressed form**: `P` and `−P` share the encoding, so for `x ≠ 0` (every point of
order > 2) at most one of the two round-trips — "decode∘encode = id" is false for half the group -/
theorem mont_roundtrip_one_sign_fails (h2 : (2 : F) ≠ 0) (P : EPt F) (hx : P.x ≠ 0) :
    ¬ ((Mont.encodeCompressed io len P).bind (Mont.decodeCompressed io a d len) = some P ∧
       (Mont.encodeCompressed io len (E.neg P)).bind (Mont.decodeCompressed io a d len) = some (E.neg P)) := by
  rintro ⟨h1, h3⟩
  rw [mont_compressed_sign_lost io len P, h1] at h3
  have := congrArg EPt.x (Option.some.inj h3)
  simp only [E.neg] at this
  apply hx
  have h4 : (2 : F) * P.x = 0 := by linear_combination this
  rcases mul_eq_zero.1 h4 with h | h
  · exact absurd h h2
  · exact h

/-- the full compressed round trip, as the property demands it (false: `mont_roundtrip_one_sign_fails`) -/
def mont_decode_encode_statement : Prop :=
  ∀ P : EPt F, E.onCurve a d P = true →
    (Mont.encodeCompressed io len P).bind (Mont.decodeCompressed io a d len) = some P

/-- **order-2 point, compressed**: `(0, −1)` has `u = 0`; its encoding is the identity's all-zero
string, which decodes to the identity -/
theorem mont_order2_compressed_collides (h2 : (2 : F) ≠ 0) (h0 : io.toNat 0 = 0) :
    (⟨0, -1⟩ : EPt F) ≠ E.zero ∧
    Mont.encodeCompressed io len ⟨0, -1⟩ = Mont.encodeCompressed io len E.zero ∧
    (Mont.encodeCompressed io len (⟨0, -1⟩ : EPt F)).bind (Mont.decodeCompressed io a d len) = some E.zero := by
  have hne : (⟨0, -1⟩ : EPt F) ≠ E.zero := (mont_order2_collides io len (0 : F) h2 h0).1
  have hu : Mont.u? (⟨0, -1⟩ : EPt F) = some 0 := by
    have : (1 : F) - -1 = 2 := by ring
    simp [Mont.u?, this, h2]
  have hz : (leBytes len 0).all (· == 0) = true := by
    rw [leBytes_all_zero_iff len 0 (by positivity)]
  have he : Mont.encodeCompressed io len (⟨0, -1⟩ : EPt F) = some (leBytes len 0) := by
    simp [Mont.encodeCompressed, hne, hu, h0]
  refine ⟨hne, ?_, ?_⟩
  · rw [he]; simp [Mont.encodeCompressed]
  · rw [he]; simp [Mont.decodeCompressed, length_leBytes, hz]

/-- **encode ∘ decode = id on accepted canonical strings**: a string of bytes whose value is the
canonical representative of its residue (`u < p`) and that the decoder accepts is what the encoder
writes for the decoded point -/
theorem mont_encode_decode (h : GoodIO io len) (h2 : (2 : F) ≠ 0) (bs : List Nat) (P : EPt F)
    (hb : IsBytes bs) (hc : io.toNat (io.ofNat (leNat bs)) = leNat bs)
    (hd : Mont.decodeCompressed io a d len bs = some P) :
    Mont.encodeCompressed io len P = some bs := by
  have hl : bs.length = len := by
    by_contra hne
    simp [Mont.decodeCompressed, hne] at hd
  by_cases hz : bs.all (· == 0) = true
  · simp [Mont.decodeCompressed, hl, hz] at hd
    subst hd
    have h0 := (all_zero_iff bs).1 hz
    have := leBytes_leNat' len bs hl hb
    rw [h0] at this
    simp [Mont.encodeCompressed, this]
  · have hz' : bs.all (· == 0) = false := by simpa using hz
    obtain ⟨hu, hne⟩ := mont_decode_u io a d len h h2 bs P hz' hd
    simp [Mont.encodeCompressed, hne, hu, hc, leBytes_leNat' len bs hl hb]

/-! ### uncompressed `u ‖ v` -/

/-- **accepted ⇒ on the curve** (uncompressed form) -/
theorem mont_decode_valid_uncompressed (h : GoodIO io len) (c : F) (bs : List Nat) (P : EPt F)
    (hd : Mont.decodeUncompressed io a d c len bs = some P) : E.onCurve a d P = true := by
  unfold Mont.decodeUncompressed at hd
  dsimp only at hd
  split_ifs at hd with h1 h2 h3
  · cases hd; exact ed_zero_onCurve a d
  · unfold Mont.fromAffine at hd
    split at hd
    · simp at hd
    · next Q hQ =>
      have hQc := mont_decode_valid io a d len h _ Q hQ
      split_ifs at hd with h4 h5
      · cases hd; exact hQc
      · cases hd; exact ed_neg_onCurve a d Q hQc

/-- **accepted ⇒ the point has the `v` on the wire** (so the sign is the transmitted one) -/
theorem mont_decode_v_uncompressed (c : F) (bs : List Nat) (P : EPt F)
    (hz : bs.all (· == 0) = false)
    (hd : Mont.decodeUncompressed io a d c len bs = some P) :
    Mont.v? c P = some (io.ofNat (leNat (bs.drop len))) := by
  unfold Mont.decodeUncompressed at hd
  dsimp only at hd
  split_ifs at hd with h1 h2 h3
  · simp [hz] at h2
  · unfold Mont.fromAffine at hd
    split at hd
    · simp at hd
    · split_ifs at hd with h4 h5
      · cases hd; exact h4
      · cases hd; exact h5

end mont

/-! ## non-vacuity: the Edwards curve `−x² + y² = 1 + 4·x²·y²` over `F₇` with one-byte coordinates
(`a − d·y² ≠ 0` for every `y`: `den7`); `(2, 3)` is a point with `u = (1+3)/(1−3) = 5` -/

section examples
open BronVerif.Props.C13

theorem den7 : ∀ y : ZMod 7, (-1 : ZMod 7) - 4 * (y * y) ≠ 0 := by decide

example : E.onCurve (-1 : ZMod 7) 4 ⟨2, 3⟩ = true := by decide

example : ∃ bs Q, Mont.encodeCompressed io7 1 (⟨2, 3⟩ : EPt (ZMod 7)) = some bs ∧ bs.length = 1 ∧
    Mont.decodeCompressed io7 (-1) 4 1 bs = some Q ∧ (Q = ⟨2, 3⟩ ∨ Q = E.neg ⟨2, 3⟩) :=
  mont_decode_encode_u io7 (-1) 4 1 io7_good io7_top (by decide) den7 ⟨2, 3⟩ (by decide) (by decide)

example : Mont.decodeCompressed io7 (-1) 4 1 [5] = some ⟨2, 3⟩ ∧ E.onCurve (-1 : ZMod 7) 4 ⟨2, 3⟩ = true :=
  ⟨by decide +kernel, mont_decode_valid io7 (-1) 4 1 io7_good [5] _ (by decide +kernel)⟩

example : Mont.u? (⟨2, 3⟩ : EPt (ZMod 7)) = some (io7.ofNat (leNat [5])) ∧ (⟨2, 3⟩ : EPt (ZMod 7)) ≠ E.zero :=
  mont_decode_u io7 (-1) 4 1 io7_good (by decide) [5] ⟨2, 3⟩ (by decide) (by decide +kernel)

example : Mont.encodeCompressed io7 1 (⟨2, 3⟩ : EPt (ZMod 7)) = some [5] :=
  mont_encode_decode io7 (-1) 4 1 io7_good (by decide) [5] ⟨2, 3⟩ (by simp [IsBytes]) (by decide) (by decide +kernel)

/-- `[12]` is the non-canonical `5 + 7`: same point; `[133]` has the top bit set: rejected -/
example : Mont.decodeCompressed io7 (-1) 4 1 [12] = Mont.decodeCompressed io7 (-1) 4 1 [5] :=
  mont_noncanonical_reduced io7 (-1) 4 1 [12] [5] rfl rfl (by decide) (by decide) (by decide) (by decide) (by decide)

example : Mont.decodeCompressed io7 (-1) 4 1 [133] = none :=
  mont_topbit_rejected io7 (-1) 4 1 [133] (by decide)

example : (Mont.decodeCompressed io7 (-1 : ZMod 7) 4 1 [5, 0] = none) ∧
    (Mont.decodeUncompressed io7 (-1 : ZMod 7) 4 3 1 [5] = none) :=
  ⟨(mont_decode_len io7 (-1) 4 1 3 [5, 0]).1 (by decide), (mont_decode_len io7 (-1) 4 1 3 [5]).2 (by decide)⟩

/-- `u = 1` (`y = 0`, `x² = 6`) is on the twist -/
example : Mont.decodeCompressed io7 (-1 : ZMod 7) 4 1 [1] = none :=
  mont_decode_twist_rejected io7 (-1) 4 1 [1] (by decide) (by intro y hy; subst hy; decide +kernel)

example : ¬ ((Mont.encodeCompressed io7 1 (⟨2, 3⟩ : EPt (ZMod 7))).bind (Mont.decodeCompressed io7 (-1) 4 1) = some ⟨2, 3⟩ ∧
    (Mont.encodeCompressed io7 1 (E.neg (⟨2, 3⟩ : EPt (ZMod 7)))).bind (Mont.decodeCompressed io7 (-1) 4 1) = some (E.neg ⟨2, 3⟩)) :=
  mont_roundtrip_one_sign_fails io7 (-1) 4 1 (by decide) ⟨2, 3⟩ (by decide)

example : ¬ mont_decode_encode_statement io7 (-1 : ZMod 7) 4 1 := by
  intro hs
  exact mont_roundtrip_one_sign_fails io7 (-1) 4 1 (by decide) ⟨2, 3⟩ (by decide)
    ⟨hs ⟨2, 3⟩ (by decide), hs (E.neg ⟨2, 3⟩) (by decide)⟩

example : (⟨0, -1⟩ : EPt (ZMod 7)) ≠ E.zero ∧
    Mont.encodeCompressed io7 1 ⟨0, -1⟩ = Mont.encodeCompressed io7 1 E.zero ∧
    (Mont.encodeCompressed io7 1 (⟨0, -1⟩ : EPt (ZMod 7))).bind (Mont.decodeCompressed io7 (-1) 4 1) = some E.zero :=
  mont_order2_compressed_collides io7 (-1) 4 1 (by decide) (by decide)

end examples
end BronVerif.Props.C13
