import BronVerif.Gen.SolverFacts
/-!
# C20 — the structure of the Go Gauss–Jordan routines is the structure of `Model/LinAlg.lean`

`BronVerif.Gen.SolverFacts` is regenerated from `/repo/pkg/base/mat/{solver,square,traits}.go` on every
run (translator/facts_solver.go, go/ast only): the complete statement skeleton of `solveAugmented`,
`SolveLeft`, `Determinant`, `TryInv`, `findPivotRow`, `SwapRowAssign`, `idx` with local variables
renamed to `v0, v1, …` in binding order and messages elided (so renaming locals, rewording errors,
comments and layout do not matter).

The tables below are written by hand next to the model and say which clause of `Model/LinAlg.lean`
each Go statement stands for.  `solver_structure_matches_model` compares them with the regenerated
tables by `decide` over the complete tables: a pivot search that starts at row 0, an elimination that
skips rows above the pivot, a missing sign flip on swap, a consistency test over the wrong rows …
break the obligation even if no generated matrix exhibits a difference.  (A restructuring that is
harmless also breaks it; the expectation is then updated by hand after re-reading the code against
the model.)  Core-only.
-/
namespace BronVerif.Props.C20Facts
open BronVerif.Gen.SolverFacts

/-- **`solveAugmented`** (solver.go) against `LinAlg.gaussJordan` / `gjCol` / `solveAugmented`
(`v1` = aug, `v2` = rows, `v3` = cols, `v4` = numVars, `v5` = data, `v6` = pivotCols, `v7` = pivotRow):

* the column loop `for pc := 0; pc < numVars && pivotRow < rows` = `(List.range numVars).foldl gjCol`
  with `gjCol`'s guard `s.rows.length ≤ s.k → s` (once `pivotRow = rows` nothing changes any more);
* the pivot search **starts at `pivotRow`** and takes the **first** non-zero entry (`break`)
  = `findPivot m k pc = ((range m.length).filter (k ≤ r ∧ entry m r pc ≠ 0)).head?`;
  no pivot → `continue` = `| none => s` (free variable, `k` unchanged);
* swap rows `pivotRow`/`pr` over **all** `cols` columns = `swapRows rows k pr` (a no-op for `pr = k`);
* scale row `pivotRow` over all `cols` columns by `TryInv` of its entry in column `pc`
  = `scaleRow prow (prow.getD pc 0)⁻¹`;
* elimination over **all rows `i ≠ pivotRow`** (not only those below), factor = entry `(i, pc)`, rows
  with zero factor skipped, `d[i,j] -= factor * d[pivotRow,j]` over all columns
  = `pivotStep`'s `mapIdx` (`if i = k then prow' else if f = 0 then row else elimRow row prow' f`);
* `pivotCols = append(pivotCols, pc); pivotRow++` = `{ k := s.k + 1, pivots := s.pivots ++ [pc] }`;
* **consistency test on rows `pivotRow ≤ i < rows`**, column `numVars`
  = `(s.rows.drop s.k).any (r.getD numVars 0 ≠ 0) → none`;
* extraction: zero vector, then `sol[pc] = d[i, numVars]` for the `i`-th pivot column = `extract`/`pick`. -/
def expected_solveAugmented : List Step := [
  ⟨0, sf!"v2, v3 := v1.rows(), v1.cols()"⟩,
  ⟨0, sf!"v4 := v3 - 1"⟩,
  ⟨0, sf!"v5 := v1.data()"⟩,
  ⟨0, sf!"v6 := make([]int, 0, min(v2, v4))"⟩,
  ⟨0, sf!"v7 := 0"⟩,
  ⟨0, sf!"for v8 := 0; v8 < v4 && v7 < v2; v8++"⟩,
  ⟨1, sf!"v9 := -1"⟩,
  ⟨1, sf!"for v10 := v7; v10 < v2; v10++"⟩,
  ⟨2, sf!"if !v5[v1.idx(v10, v8)].IsZero()"⟩,
  ⟨3, sf!"v9 = v10"⟩,
  ⟨3, sf!"break"⟩,
  ⟨1, sf!"if v9 < 0"⟩,
  ⟨2, sf!"continue"⟩,
  ⟨1, sf!"if v9 != v7"⟩,
  ⟨2, sf!"for v11 := range v3"⟩,
  ⟨3, sf!"v12, v13 := v1.idx(v7, v11), v1.idx(v9, v11)"⟩,
  ⟨3, sf!"v5[v12], v5[v13] = v5[v13], v5[v12]"⟩,
  ⟨1, sf!"v14, v15 := v5[v1.idx(v7, v8)].TryInv()"⟩,
  ⟨1, sf!"if v15 != nil"⟩,
  ⟨2, sf!"return nil, ErrFailed"⟩,
  ⟨1, sf!"for v16 := range v3"⟩,
  ⟨2, sf!"v17 := v1.idx(v7, v16)"⟩,
  ⟨2, sf!"v5[v17] = v5[v17].Mul(v14)"⟩,
  ⟨1, sf!"for v18 := range v2"⟩,
  ⟨2, sf!"if v18 == v7"⟩,
  ⟨3, sf!"continue"⟩,
  ⟨2, sf!"v19 := v5[v1.idx(v18, v8)]"⟩,
  ⟨2, sf!"if v19.IsZero()"⟩,
  ⟨3, sf!"continue"⟩,
  ⟨2, sf!"for v20 := range v3"⟩,
  ⟨3, sf!"v21, v22 := v1.idx(v18, v20), v1.idx(v7, v20)"⟩,
  ⟨3, sf!"v5[v21] = v5[v21].Sub(v19.Mul(v5[v22]))"⟩,
  ⟨1, sf!"v6 = append(v6, v8)"⟩,
  ⟨1, sf!"v7++"⟩,
  ⟨0, sf!"for v23 := v7; v23 < v2; v23++"⟩,
  ⟨1, sf!"if !v5[v1.idx(v23, v4)].IsZero()"⟩,
  ⟨2, sf!"return nil, ErrFailed"⟩,
  ⟨0, sf!"v24 := make([]S, v4)"⟩,
  ⟨0, sf!"for v25 := range v4"⟩,
  ⟨1, sf!"v24[v25] = v0.Zero()"⟩,
  ⟨0, sf!"for v26, v27 := range v6"⟩,
  ⟨1, sf!"v24[v27] = v5[v1.idx(v26, v4)]"⟩,
  ⟨0, sf!"return v24, nil"⟩
]

/-- **`SolveLeft`** = `solveLeft m n r = solveRight (transposeN m n) m.length r`: the augmented matrix is
`n × (m+1)` with entry `(i, j) = M[j, i]` (`v3[v2.idx(v6, v7)] = v4[v0.idx(v7, v6)]`) and last column `r`,
handed to the same `solveAugmented`; the solution has `m` entries. -/
def expected_solveLeft : List Step := [
  ⟨0, sf!"if v1.rows() != 1"⟩,
  ⟨1, sf!"return nil, ErrDimension"⟩,
  ⟨0, sf!"if v1.cols() != v0.n"⟩,
  ⟨1, sf!"return nil, ErrDimension"⟩,
  ⟨0, sf!"var v2 Matrix[S]"⟩,
  ⟨0, sf!"v2.init(v0.n, v0.m + 1)"⟩,
  ⟨0, sf!"v3 := v2.data()"⟩,
  ⟨0, sf!"v4 := v0.data()"⟩,
  ⟨0, sf!"v5 := v1.data()"⟩,
  ⟨0, sf!"for v6 := range v0.n"⟩,
  ⟨1, sf!"for v7 := range v0.m"⟩,
  ⟨2, sf!"v3[v2.idx(v6, v7)] = v4[v0.idx(v7, v6)]"⟩,
  ⟨1, sf!"v3[v2.idx(v6, v0.m)] = v5[v6]"⟩,
  ⟨0, sf!"v8, v9 := algebra.StructureAs[algebra.FiniteField[S]](v0.Module().ScalarStructure())"⟩,
  ⟨0, sf!"if v9 != nil"⟩,
  ⟨1, sf!"return nil, errs.Wrap(v9)"⟩,
  ⟨0, sf!"v10, v9 := solveAugmented(v8, &v2)"⟩,
  ⟨0, sf!"if v9 != nil"⟩,
  ⟨1, sf!"return nil, errs.Wrap(v9)"⟩,
  ⟨0, sf!"v11, v9 := NewMatrixModule(uint(v0.m), 1, v8)"⟩,
  ⟨0, sf!"if v9 != nil"⟩,
  ⟨1, sf!"return nil, errs.Wrap(v9)"⟩,
  ⟨0, sf!"v12, v9 := v11.NewRowMajor(v10...)"⟩,
  ⟨0, sf!"if v9 != nil"⟩,
  ⟨1, sf!"return nil, errs.Wrap(v9)"⟩,
  ⟨0, sf!"return v12, nil"⟩
]

/-- **`Determinant`** against `LinAlg.det` / `detStep` / `elimBelow`
(`v1` = working copy, `v2` = n, `v3` = sign, `v4` = det, `v5` = k, `v6` = pivot row):

* `for k := range n` = `(List.range m.length).foldl detStep`, pivot search `findPivotRow(k, k)`
  = `findPivot s.rows k k`; no pivot → return `0` = `singular := true` (latched; `det = 0`);
* `pivot != k` → swap **and `sign = sign.Neg()`** = `sign := if pr = k then s.sign else - s.sign`;
* `det = det.Mul(pivotVal)` with the pivot read **after** the swap = `s.det * entry rows1 k k`;
* forward elimination of rows `i > k` only, factor `a[i,k] / pivotVal`, columns `j > k` updated and
  entry `(i, k)` set to zero = `elimBelow` (`elimRow row prow (row.getD k 0 * pv⁻¹)` on rows `i > k`:
  columns `< k` of the pivot row are already zero, column `k` becomes `a - (a/pv)·pv = 0`);
* result `det.Mul(sign)` = `s.det * s.sign`. -/
def expected_determinant : List Step := [
  ⟨0, sf!"v1 := v0.Clone()"⟩,
  ⟨0, sf!"v2 := v0.Algebra().N()"⟩,
  ⟨0, sf!"v3 := v0.Algebra().ScalarRing().One()"⟩,
  ⟨0, sf!"v4 := v0.Algebra().ScalarRing().One()"⟩,
  ⟨0, sf!"for v5 := range v2"⟩,
  ⟨1, sf!"v6 := v1.findPivotRow(v5, v5)"⟩,
  ⟨1, sf!"if v6 < 0"⟩,
  ⟨2, sf!"return v0.Algebra().ScalarRing().Zero()"⟩,
  ⟨1, sf!"if v6 != v5"⟩,
  ⟨2, sf!"v1.SwapRowAssign(v5, v6)"⟩,
  ⟨2, sf!"v3 = v3.Neg()"⟩,
  ⟨1, sf!"v7 := v1.v[v1.idx(v5, v5)]"⟩,
  ⟨1, sf!"v4 = v4.Mul(v7)"⟩,
  ⟨1, sf!"for v8 := v5 + 1; v8 < v2; v8++"⟩,
  ⟨2, sf!"v9, v10 := v1.v[v1.idx(v8, v5)].TryDiv(v7)"⟩,
  ⟨2, sf!"if v10 != nil"⟩,
  ⟨3, sf!"return v0.Algebra().ScalarRing().Zero()"⟩,
  ⟨2, sf!"for v11 := v5 + 1; v11 < v2; v11++"⟩,
  ⟨3, sf!"v12 := v9.Mul(v1.v[v1.idx(v5, v11)])"⟩,
  ⟨3, sf!"v1.v[v1.idx(v8, v11)] = v1.v[v1.idx(v8, v11)].Sub(v12)"⟩,
  ⟨2, sf!"v1.v[v1.idx(v8, v5)] = v0.Algebra().ScalarRing().Zero()"⟩,
  ⟨0, sf!"return v4.Mul(v3)"⟩
]

/-- **`TryInv`** against `LinAlg.inverse` / `invStep` (Gauss–Jordan on `[A | I]`; the Go code keeps the
two halves in `v3` = a and `v4` = out and applies every row operation to both):

* `for k := range n`, pivot `findPivotRow(k, k)`, none → "singular" = `invStep`'s `findPivot rows k k`,
  `none => none`;
* swap of rows `k`/`pivot` in both halves, scaling of row `k` of both halves by `1 / a[k,k]`,
  elimination from **all rows `i ≠ k`** with factor `a[i,k]` (zero factors skipped), both halves
  = `pivotStep rows k pr k` on the concatenated rows;
* result = the right half (`rows.map (·.drop m.length)`). -/
def expected_tryInv : List Step := [
  ⟨0, sf!"v1 := v0.Algebra()"⟩,
  ⟨0, sf!"v2 := v1.N()"⟩,
  ⟨0, sf!"v3 := v0.Clone()"⟩,
  ⟨0, sf!"v4 := v1.Identity()"⟩,
  ⟨0, sf!"for v5 := range v2"⟩,
  ⟨1, sf!"v6 := v3.findPivotRow(v5, v5)"⟩,
  ⟨1, sf!"if v6 < 0"⟩,
  ⟨2, sf!"return nil, ErrFailed"⟩,
  ⟨1, sf!"if v6 != v5"⟩,
  ⟨2, sf!"v3.SwapRowAssign(v5, v6)"⟩,
  ⟨2, sf!"v4.SwapRowAssign(v5, v6)"⟩,
  ⟨1, sf!"v7 := v3.v[v3.idx(v5, v5)]"⟩,
  ⟨1, sf!"v8, v9 := v1.ScalarRing().One().TryDiv(v7)"⟩,
  ⟨1, sf!"if v9 != nil"⟩,
  ⟨2, sf!"return nil, ErrFailed"⟩,
  ⟨1, sf!"for v10 := range v2"⟩,
  ⟨2, sf!"v3.v[v3.idx(v5, v10)] = v3.v[v3.idx(v5, v10)].Mul(v8)"⟩,
  ⟨2, sf!"v4.v[v4.idx(v5, v10)] = v4.v[v4.idx(v5, v10)].Mul(v8)"⟩,
  ⟨1, sf!"for v11 := range v2"⟩,
  ⟨2, sf!"if v11 == v5"⟩,
  ⟨3, sf!"continue"⟩,
  ⟨2, sf!"v12 := v3.v[v3.idx(v11, v5)]"⟩,
  ⟨2, sf!"if v12.IsZero()"⟩,
  ⟨3, sf!"continue"⟩,
  ⟨2, sf!"for v13 := range v2"⟩,
  ⟨3, sf!"v14 := v12.Mul(v3.v[v3.idx(v5, v13)])"⟩,
  ⟨3, sf!"v3.v[v3.idx(v11, v13)] = v3.v[v3.idx(v11, v13)].Sub(v14)"⟩,
  ⟨3, sf!"v14 = v12.Mul(v4.v[v4.idx(v5, v13)])"⟩,
  ⟨3, sf!"v4.v[v4.idx(v11, v13)] = v4.v[v4.idx(v11, v13)].Sub(v14)"⟩,
  ⟨0, sf!"return v4, nil"⟩
]

/-- **`findPivotRow(col, startRow)`** = `findPivot m k pc`: rows `startRow ≤ r < m`, first non-zero. -/
def expected_findPivotRow : List Step := [
  ⟨0, sf!"for v3 := v2; v3 < v0.m; v3++"⟩,
  ⟨1, sf!"if !v0.v[v0.idx(v3, v1)].IsZero()"⟩,
  ⟨2, sf!"return v3"⟩,
  ⟨0, sf!"return -1"⟩
]

/-- **`SwapRowAssign(i, j)`** = `swapRows`: exchanges the two rows over all `n` columns. -/
def expected_swapRowAssign : List Step := [
  ⟨0, sf!"if v1 < 0 || v1 >= v0.m || v2 < 0 || v2 >= v0.m"⟩,
  ⟨1, sf!"panic(ErrDimension)"⟩,
  ⟨0, sf!"for v3 := range v0.n"⟩,
  ⟨1, sf!"v4 := v0.idx(v1, v3)"⟩,
  ⟨1, sf!"v5 := v0.idx(v2, v3)"⟩,
  ⟨1, sf!"v0.v[v4], v0.v[v5] = v0.v[v5], v0.v[v4]"⟩
]

/-- row-major addressing `row * n + col` (the model keeps a list of rows; `parseMat` chunks by `cols`) -/
def expected_idx : List Step := [
  ⟨0, sf!"return v1 * v0.n + v2"⟩
]

/-- the regenerated skeletons of the Go solver, determinant and inverse routines are exactly the
hand-written expectations above (which mirror `Model/LinAlg.lean` clause by clause) -/
theorem solver_structure_matches_model :
    solveAugmented = expected_solveAugmented ∧ solveLeft = expected_solveLeft ∧
    determinant = expected_determinant ∧ tryInv = expected_tryInv ∧
    findPivotRow = expected_findPivotRow ∧ swapRowAssign = expected_swapRowAssign ∧
    idx = expected_idx := by
  refine ⟨?_, ?_, ?_, ?_, ?_, ?_, ?_⟩ <;> decide +kernel

/-! Named consequences (each is one row of the tables; they fail first when the corresponding
choice changes). -/

/-- the pivot search of `solveAugmented` starts at `pivotRow` (not at row 0) -/
theorem pivot_search_starts_at_pivotRow :
    (⟨1, sf!"for v10 := v7; v10 < v2; v10++"⟩ : Step) ∈ solveAugmented := by decide +kernel

/-- elimination skips exactly the pivot row (`if i == pivotRow { continue }` inside `for i := range rows`) -/
theorem elimination_over_all_other_rows :
    (⟨1, sf!"for v18 := range v2"⟩ : Step) ∈ solveAugmented ∧
    (⟨2, sf!"if v18 == v7"⟩ : Step) ∈ solveAugmented := by decide +kernel

/-- the consistency test runs over the non-pivot rows `pivotRow ≤ i < rows` on column `numVars` -/
theorem consistency_test_on_non_pivot_rows :
    (⟨0, sf!"for v23 := v7; v23 < v2; v23++"⟩ : Step) ∈ solveAugmented ∧
    (⟨1, sf!"if !v5[v1.idx(v23, v4)].IsZero()"⟩ : Step) ∈ solveAugmented := by decide +kernel

/-- `Determinant` flips the sign on every row swap -/
theorem determinant_sign_flip_on_swap :
    (⟨2, sf!"v3 = v3.Neg()"⟩ : Step) ∈ determinant ∧ (⟨0, sf!"return v4.Mul(v3)"⟩ : Step) ∈ determinant := by
  decide +kernel

end BronVerif.Props.C20Facts
