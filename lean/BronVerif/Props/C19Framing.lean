import BronVerif.Props.C19
/-!
Property theorems of C19, transcript part, second layer: statements for whole histories and whole runs
(every length, by induction over the operation / command list) on top of `Props/C19.lean`.

* `frame_prefix_iff`, `state_injective`: the absorbed bytes are prefix-ordered exactly as the histories are, and
  two transcript objects are equal iff name and history are.
* `earlier_extract_length_matters`, `extraction_trace`: an extraction output is the hash of the whole prior history,
  earlier extractions and their requested lengths included.
* `run_independent`: a whole run of commands that never addresses handle `i` leaves transcript `i` untouched
  (clone/fork independence for runs of any length), `clone_same_future`: origin and clone answer the same
  operations identically.
* the helper `transcripts.Append(tape, label, xs...)` (utils.go) is a loop of one-message `AppendBytes` calls:
  `appendEach_injective` (label and values are determined when at least one value is appended) and the two
  collisions the helper has by construction, exhibited as theorems: `appendEach_grouping_collision` (call
  boundaries of the helper are not recorded) and `appendEach_empty_collision` (a call without values absorbs
  nothing, not even its label).
-/
namespace BronVerif.Props.C19
open BronVerif.Transcript

/-! ### whole histories -/

/-- the absorbed stream of `a` is an initial segment of that of `b` exactly when the history `a` is an initial
segment of the history `b` (no re-bracketing of bytes across operation boundaries, for any lengths) -/
theorem frame_prefix_iff (a b : List Op) (ha : Valid a) (hb : Valid b) :
    (∃ Z, frame a ++ Z = frame b) ↔ ∃ c, b = a ++ c := by
  constructor
  · rintro ⟨Z, hZ⟩
    obtain ⟨c, hc, _⟩ := frame_prefix ha hb hZ
    exact ⟨c, hc⟩
  · rintro ⟨c, rfl⟩
    exact ⟨frame c, (frame_append a c).symm⟩

example : ¬ ∃ Z, frame [.append [1] [[2]]] ++ Z = frame [.append [1] [[2], [3]]] := by
  rw [frame_prefix_iff _ _ (by intro o ho; simp at ho; subst ho; simp [Op.ok])
    (by intro o ho; simp at ho; subst ho; simp [Op.ok])]
  rintro ⟨c, hc⟩
  simp at hc

/-- two transcript objects are in the same state iff they were created with the same name and performed the
same history -/
theorem state_injective (name name' : Bytes) (a b : List Op) (ha : Valid a) (hb : Valid b) :
    applyOps (State.new name) a = applyOps (State.new name') b ↔ name = name' ∧ a = b := by
  constructor
  · intro h
    have h1 := applyOps_absorbed (State.new name) a
    have h2 := applyOps_absorbed (State.new name') b
    rw [h] at h1
    have hn : name = name' := by
      have := h1.2.symm.trans h2.2
      simpa [State.new] using this
    have hf : frame a = frame b := by
      have := h1.1.symm.trans h2.1
      simpa [State.new] using this
    exact ⟨hn, frame_injective a b ha hb hf⟩
  · rintro ⟨rfl, rfl⟩; rfl

example : applyOps (State.new [1]) [.append [2] [[3]]] ≠ applyOps (State.new [1]) [.append [2, 3] [[]]] := by
  intro h
  have := (state_injective [1] [1] _ _ (by intro o ho; simp at ho; subst ho; simp [Op.ok])
    (by intro o ho; simp at ho; subst ho; simp [Op.ok])).mp h
  exact absurd this.2 (by decide)

private theorem valid_append {a b : List Op} (ha : Valid a) (hb : Valid b) : Valid (a ++ b) := by
  intro x hx
  rcases List.mem_append.mp hx with hx | hx
  · exact ha x hx
  · exact hb x hx

private theorem valid_single {op : Op} (h : op.ok) : Valid [op] := by
  intro x hx
  rw [List.mem_singleton.mp hx]; exact h

/-- **An earlier extraction's requested length changes every later output**, whatever happens in between:
histories `pre ++ [extract l₀ n₀] ++ mid` and `pre ++ [extract l₀ n₀'] ++ mid` with `n₀ ≠ n₀'`. -/
theorem earlier_extract_length_matters (H : Bytes → Bytes → Nat → Bytes) (S : Set (Bytes × Bytes × Nat))
    (hH : Set.InjOn (fun x : Bytes × Bytes × Nat => H x.1 x.2.1 x.2.2) S)
    (name : Bytes) (pre mid : List Op) (l₀ l : Bytes) (n₀ n₀' n : Nat)
    (hpre : Valid pre) (hmid : Valid mid) (hl₀ : l₀.length < 2 ^ 64) (hl : l.length < 2 ^ 64)
    (hn₀ : n₀ < 2 ^ 64) (hn₀' : n₀' < 2 ^ 64) (hn : n < 2 ^ 64) (hn0 : n ≠ 0) (hne : n₀ ≠ n₀')
    (hS : (name, extractInput (frame (pre ++ [.extract l₀ n₀] ++ mid)) l n, n) ∈ S)
    (hS' : (name, extractInput (frame (pre ++ [.extract l₀ n₀'] ++ mid)) l n, n) ∈ S) :
    ((applyOps (State.new name) (pre ++ [.extract l₀ n₀] ++ mid)).extract H l n).1 ≠
      ((applyOps (State.new name) (pre ++ [.extract l₀ n₀'] ++ mid)).extract H l n).1 := by
  refine outputs_differ H S hH name name _ _ l l n n
    (valid_append (valid_append hpre (valid_single ⟨hl₀, hn₀⟩)) hmid)
    (valid_append (valid_append hpre (valid_single ⟨hl₀, hn₀'⟩)) hmid) hl hl hn hn hn0 hn0 hS hS' ?_
  intro h
  simp only [Prod.mk.injEq, true_and, and_true] at h
  rw [List.append_assoc, List.append_assoc] at h
  have := List.append_cancel_left h
  simp only [List.cons_append, List.nil_append, List.cons.injEq, Op.extract.injEq, true_and, and_true] at this
  exact hne this

/-- the hypotheses are satisfiable: extraction of 16 vs 32 bytes, then an append, then the extraction compared -/
example : ∃ (H : Bytes → Bytes → Nat → Bytes) (S : Set (Bytes × Bytes × Nat)),
    Set.InjOn (fun x : Bytes × Bytes × Nat => H x.1 x.2.1 x.2.2) S ∧
    ([1], extractInput (frame ([.domSep [9]] ++ [.extract [5] 16] ++ [.append [1] [[2]]])) [7] 32, 32) ∈ S ∧
    ([1], extractInput (frame ([.domSep [9]] ++ [.extract [5] 32] ++ [.append [1] [[2]]])) [7] 32, 32) ∈ S :=
  ⟨fun _ input _ => input, {x | x.1 = [1] ∧ x.2.2 = 32}, by
    rintro ⟨a, b, c⟩ ⟨ha, hc⟩ ⟨a', b', c'⟩ ⟨ha', hc'⟩ hxy
    simp only at ha hc ha' hc' hxy
    rw [ha, hc, ha', hc', hxy], ⟨rfl, rfl⟩, ⟨rfl, rfl⟩⟩

/-! ### the user-level script of one transcript: every output is the hash of the whole prior history -/

/-- a user-level call on one transcript -/
inductive Call where
  | domSep (tag : Bytes)
  | append (label : Bytes) (msgs : List Bytes)
  | extract (label : Bytes) (n : Nat)
  deriving DecidableEq, Repr

/-- what a call leaves in the live history (a failing `ExtractBytes(label, 0)` leaves nothing) -/
def Call.ops : Call → List Op
  | .domSep tag => [.domSep tag]
  | .append l ms => [.append l ms]
  | .extract l n => if n = 0 then [] else [.extract l n]

def history (cs : List Call) : List Op := (cs.map Call.ops).flatten

def callState (H : Bytes → Bytes → Nat → Bytes) (s : State) : Call → State
  | .domSep tag => s.appendDomainSeparator tag
  | .append l ms => s.appendBytes l ms
  | .extract l n => (s.extract H l n).2

/-- the outputs a script produces, in order -/
def outputs (H : Bytes → Bytes → Nat → Bytes) (s : State) : List Call → List (Option Bytes)
  | [] => []
  | .extract l n :: cs => (s.extract H l n).1 :: outputs H (callState H s (.extract l n)) cs
  | c :: cs => outputs H (callState H s c) cs

/-- what the outputs must be: each successful extraction hashes the framed history of ALL earlier calls
(earlier successful extractions with their lengths included) followed by its own `extracted` frame -/
def outputsSpec (H : Bytes → Bytes → Nat → Bytes) (name : Bytes) (done : List Call) : List Call → List (Option Bytes)
  | [] => []
  | .extract l n :: cs =>
    (if n = 0 then none else some (H name (extractInput (frame (history done)) l n) n))
      :: outputsSpec H name (done ++ [.extract l n]) cs
  | c :: cs => outputsSpec H name (done ++ [c]) cs

theorem history_append (a b : List Call) : history (a ++ b) = history a ++ history b := by
  simp [history]

theorem callState_eq (H : Bytes → Bytes → Nat → Bytes) (s : State) (c : Call) :
    callState H s c = applyOps s c.ops := by
  cases c with
  | domSep tag => rfl
  | append l ms => rfl
  | extract l n =>
    simp only [callState, Call.ops, extract_state]
    by_cases h : n = 0 <;> simp [h, applyOps]

theorem applyOps_append (s : State) (a b : List Op) : applyOps s (a ++ b) = applyOps (applyOps s a) b := by
  simp [applyOps, List.foldl_append]

/-- **Extraction trace.**  For a script of any length, the state after it is `name` + the framed history, and
the outputs are exactly `outputsSpec`: the i-th extraction is `H name (frame(history of all earlier calls) ‖
extracted-frame) n`. -/
theorem extraction_trace (H : Bytes → Bytes → Nat → Bytes) (name : Bytes) (done cs : List Call) :
    outputs H (applyOps (State.new name) (history done)) cs = outputsSpec H name done cs := by
  induction cs generalizing done with
  | nil => rfl
  | cons c cs ih =>
    have hstep : callState H (applyOps (State.new name) (history done)) c =
        applyOps (State.new name) (history (done ++ [c])) := by
      rw [callState_eq, history_append, applyOps_append]
      simp [history]
    cases c with
    | domSep tag => simp only [outputs, outputsSpec]; rw [hstep, ih]
    | append l ms => simp only [outputs, outputsSpec]; rw [hstep, ih]
    | extract l n =>
      simp only [outputs, outputsSpec]
      rw [hstep, ih]
      congr 1
      have e := applyOps_absorbed (State.new name) (history done)
      by_cases h : n = 0
      · simp [State.extract, h]
      · rw [State.extract, if_neg h, e.1, e.2]
        simp [h, State.new]

example : outputs (fun _ i _ => i) (State.new [1]) [.append [2] [[3]], .extract [4] 8, .extract [5] 0, .extract [6] 8] =
    [some (extractInput (frame [.append [2] [[3]]]) [4] 8), none,
     some (extractInput (frame [.append [2] [[3]], .extract [4] 8]) [6] 8)] := by
  have := extraction_trace (fun _ i _ => i) [1] [] [.append [2] [[3]], .extract [4] 8, .extract [5] 0, .extract [6] 8]
  simpa [history, applyOps, outputsSpec, Call.ops] using this

/-- scripts whose extractions all succeed are determined by their history -/
theorem history_injective (a b : List Call)
    (ha : ∀ l, Call.extract l 0 ∉ a) (hb : ∀ l, Call.extract l 0 ∉ b) (h : history a = history b) : a = b := by
  induction a generalizing b with
  | nil =>
    cases b with
    | nil => rfl
    | cons y ys =>
      exfalso
      cases y with
      | domSep t => simp [history, Call.ops] at h
      | append l ms => simp [history, Call.ops] at h
      | extract l n =>
        have : n ≠ 0 := fun h0 => hb l (by simp [h0])
        simp [history, Call.ops, this] at h
  | cons x xs ih =>
    have hx : ∀ c : Call, (∀ l, Call.extract l 0 ≠ c) → ∃ o, c.ops = [o] ∧ ∀ c', (∀ l, Call.extract l 0 ≠ c') →
        c'.ops = [o] → c' = c := by
      intro c hc
      cases c with
      | domSep t =>
        refine ⟨_, rfl, ?_⟩
        intro c' hc' h'
        cases c' with
        | domSep t' => simpa [Call.ops] using h'
        | append l ms => simp [Call.ops] at h'
        | extract l n => by_cases h0 : n = 0 <;> simp [Call.ops, h0] at h'
      | append l ms =>
        refine ⟨_, rfl, ?_⟩
        intro c' hc' h'
        cases c' with
        | domSep t' => simp [Call.ops] at h'
        | append l' ms' => simpa [Call.ops] using h'
        | extract l n => by_cases h0 : n = 0 <;> simp [Call.ops, h0] at h'
      | extract l n =>
        have h0 : n ≠ 0 := fun h0 => hc l (by rw [h0])
        refine ⟨.extract l n, by simp [Call.ops, h0], ?_⟩
        intro c' hc' h'
        cases c' with
        | domSep t' => simp [Call.ops] at h'
        | append l' ms' => simp [Call.ops] at h'
        | extract l' n' =>
          by_cases h0' : n' = 0
          · simp [Call.ops, h0'] at h'
          · simpa [Call.ops, h0'] using h'
    cases b with
    | nil =>
      exfalso
      obtain ⟨o, ho, _⟩ := hx x (fun l hl => ha l (by simp [hl]))
      simp [history, ho] at h
    | cons y ys =>
      obtain ⟨o, ho, huniq⟩ := hx x (fun l hl => ha l (by simp [hl]))
      obtain ⟨o', ho', _⟩ := hx y (fun l hl => hb l (by simp [hl]))
      simp only [history, List.map_cons, List.flatten_cons, ho, ho', List.cons_append, List.nil_append,
        List.cons.injEq] at h
      have hyx : y = x := huniq y (fun l hl => hb l (by simp [hl])) (by rw [ho', h.1])
      rw [hyx, ih ys (fun l hl => ha l (by simp [hl])) (fun l hl => hb l (by simp [hl])) h.2]

example : history [.append [1] [[2]], .extract [3] 8] ≠ history [.append [1] [[2]], .extract [3] 9] := by decide

/-! ### runs of several transcripts -/

theorem modifyAt_length (m : Machine) (i : Nat) (f : State → State) : (modifyAt m i f).length = m.length := by
  induction m generalizing i with
  | nil => rfl
  | cons s rest ih => cases i <;> simp [modifyAt, ih]

theorem step_length_le (H : Bytes → Bytes → Nat → Bytes) (m : Machine) (cmd : Cmd) :
    m.length ≤ (step H m cmd).1.length := by
  cases cmd with
  | new name => simp [step]
  | domSep j tag => simp [step, modifyAt_length]
  | append j l ms => simp [step, modifyAt_length]
  | extract j l n =>
    simp only [step]
    cases m[j]? <;> simp [modifyAt_length]
  | clone j =>
    simp only [step]
    cases m[j]? <;> simp

theorem run_cons (H : Bytes → Bytes → Nat → Bytes) (m : Machine) (c : Cmd) (cs : List Cmd) :
    run H m (c :: cs) = ((run H (step H m c).1 cs).1, (step H m c).2 ++ (run H (step H m c).1 cs).2) := rfl

/-- **Clone / fork independence for whole runs.**  A run of any length in which no command addresses handle `i`
(operations on clones, on the origin of a clone, on unrelated transcripts, creation of further clones) leaves
transcript `i` exactly as it was. -/
theorem run_independent (H : Bytes → Bytes → Nat → Bytes) (m : Machine) (cmds : List Cmd) (i : Nat)
    (hi : i < m.length) (hne : ∀ c ∈ cmds, target c ≠ some i) : (run H m cmds).1[i]? = m[i]? := by
  induction cmds generalizing m with
  | nil => rfl
  | cons c cs ih =>
    rw [run_cons]
    show (run H (step H m c).1 cs).1[i]? = m[i]?
    rw [ih (step H m c).1 (Nat.lt_of_lt_of_le hi (step_length_le H m c)) (fun x hx => hne x (by simp [hx]))]
    exact clone_independent H m c i hi (hne c (by simp))

/-- handle 0 is cloned (clone = handle 1); then any number of operations on the clone: the origin is unchanged -/
example (cs : List (Bytes × List Bytes)) :
    (run cshakeH [State.new [1], State.new [1]] (cs.map fun p => Cmd.append 1 p.1 p.2)).1[0]? = some (State.new [1]) :=
  run_independent cshakeH _ _ 0 (by simp) (by
    intro c hc
    obtain ⟨p, _, rfl⟩ := List.mem_map.mp hc
    simp [target])

/-- origin and clone have the same future: the same call gives the same output and the same next state on both -/
theorem clone_same_future (H : Bytes → Bytes → Nat → Bytes) (m : Machine) (i : Nat) (s : State)
    (h : m[i]? = some s) (c : Call) :
    ∃ s', (step H m (.clone i)).1[m.length]? = some s' ∧ callState H s' c = callState H s c ∧
      outputs H s' [c] = outputs H s [c] :=
  ⟨s, (clone_copy H m i s h).2, rfl, rfl⟩

example : ∃ s', (step cshakeH [State.new [1]] (.clone 0)).1[1]? = some s' ∧
    callState cshakeH s' (.extract [2] 8) = callState cshakeH (State.new [1]) (.extract [2] 8) ∧
    outputs cshakeH s' [.extract [2] 8] = outputs cshakeH (State.new [1]) [.extract [2] 8] :=
  clone_same_future cshakeH [State.new [1]] 0 (State.new [1]) rfl _

/-! ### the helper `transcripts.Append(tape, label, xs...)`: one single-message `AppendBytes` per value -/

/-- `for _, x := range xs { tape.AppendBytes(label, x.Bytes()) }` -/
def appendEach (label : Bytes) (xs : List Bytes) : List Op := xs.map fun x => Op.append label [x]

theorem appendEach_valid (l : Bytes) (xs : List Bytes) (hl : l.length < 2 ^ 64) (hx : ∀ x ∈ xs, x.length < 2 ^ 64) :
    Valid (appendEach l xs) := by
  intro o ho
  obtain ⟨x, hxm, rfl⟩ := List.mem_map.mp ho
  exact ⟨hl, by simp, fun m hm => by rw [List.mem_singleton.mp hm]; exact hx x hxm⟩

private theorem appendEach_map_inj (l : Bytes) (xs ys : List Bytes)
    (h : xs.map (fun x => Op.append l [x]) = ys.map (fun x => Op.append l [x])) : xs = ys := by
  induction xs generalizing ys with
  | nil => cases ys with
    | nil => rfl
    | cons y ys => simp at h
  | cons x xs ih => cases ys with
    | nil => simp at h
    | cons y ys =>
      simp only [List.map_cons, List.cons.injEq, Op.append.injEq, true_and, and_true] at h
      rw [h.1, ih ys h.2]

/-- a multi-value append with at least one value determines its label and its values (order, number and
boundaries of the values) -/
theorem appendEach_injective (l l' : Bytes) (xs ys : List Bytes) (hne : xs ≠ [])
    (hl : l.length < 2 ^ 64) (hl' : l'.length < 2 ^ 64)
    (hx : ∀ x ∈ xs, x.length < 2 ^ 64) (hy : ∀ y ∈ ys, y.length < 2 ^ 64)
    (h : frame (appendEach l xs) = frame (appendEach l' ys)) : l = l' ∧ xs = ys := by
  have he := frame_injective _ _ (appendEach_valid l xs hl hx) (appendEach_valid l' ys hl' hy) h
  cases xs with
  | nil => exact absurd rfl hne
  | cons x xs =>
    cases ys with
    | nil => simp [appendEach] at he
    | cons y ys =>
      simp only [appendEach, List.map_cons, List.cons.injEq, Op.append.injEq, and_true] at he
      obtain ⟨⟨hll, hxy⟩, hrest⟩ := he
      subst hll hxy
      refine ⟨rfl, ?_⟩
      congr 1
      exact appendEach_map_inj l xs ys hrest

example : frame (appendEach [1] [[2], [3]]) ≠ frame (appendEach [1] [[2, 3]]) := by
  intro h
  have := appendEach_injective [1] [1] [[2], [3]] [[2, 3]] (by simp) (by simp) (by simp)
    (by intro x hx; simp at hx; rcases hx with rfl | rfl <;> simp) (by intro x hx; simp at hx; subst hx; simp) h
  exact absurd this.2 (by decide)

/-- **Collision of the helper (by construction):** the call boundaries of `transcripts.Append` are not recorded:
`Append(t, l, xs..., ys...)` absorbs exactly what `Append(t, l, xs...); Append(t, l, ys...)` absorbs
(unlike `AppendBytes(l, msgs...)`, which binds the message count). -/
theorem appendEach_grouping_collision (l : Bytes) (xs ys : List Bytes) :
    frame (appendEach l (xs ++ ys)) = frame (appendEach l xs ++ appendEach l ys) := by
  simp [appendEach]

/-- whereas the same regrouping at the `AppendBytes` level is distinguished -/
example : frame [.append [1] [[2], [3]]] ≠ frame [.append [1] [[2]], .append [1] [[3]]] := by decide

/-- **Collision of the helper (by construction):** `Append(t, label)` without values absorbs nothing, so neither
the call nor its label is bound (`AppendBytes(label)` with no message absorbs tag, label and count 0). -/
theorem appendEach_empty_collision (l l' : Bytes) :
    frame (appendEach l []) = frame (appendEach l' []) ∧ frame (appendEach l []) = [] ∧
      frame [.append l []] ≠ [] :=
  ⟨rfl, rfl, frame_cons_ne_nil _ _⟩

example : frame (appendEach [1] []) = frame (appendEach [2, 3] []) := (appendEach_empty_collision [1] [2, 3]).1

end BronVerif.Props.C19
