import Mathlib.NumberTheory.LegendreSymbol.JacobiSymbol
import Mathlib.Data.Nat.ModEq
import Mathlib.Tactic.Ring
import Mathlib.Tactic.Linarith
import BronVerif.Model.BigNum
/-!
# C17 — big-number and modular arithmetic return the mathematically correct value (property theorems)

`Nat`/`Int` are the specification.  The theorems below are about the very definitions of
`Model/BigNum.lean` that the driver executes: `powMod`, `invMod`, `crt2`, `sqrtMod`/`isQR`, `jacobi`,
the division conventions and the byte conversions.
-/
namespace BronVerif.Props.C17
open BronVerif.BigNum

/-! ## modular exponentiation -/

theorem powModAux_eq (m : Nat) : ∀ (fuel b e acc : Nat), e < 2 ^ fuel →
    powModAux m fuel b e (acc % m) = acc * b ^ e % m := by
  intro fuel
  induction fuel with
  | zero =>
    intro b e acc h
    have : e = 0 := by simpa using h
    subst this; simp [powModAux]
  | succ f ih =>
    intro b e acc h
    unfold powModAux
    by_cases he : e = 0
    · subst he; simp
    · simp only [he, if_false]
      have hlt : e / 2 < 2 ^ f := by
        rw [Nat.div_lt_iff_lt_mul (by norm_num)]; rw [pow_succ] at h; exact h
      have hpow : b ^ e = (b * b) ^ (e / 2) * b ^ (e % 2) := by
        rw [← pow_two, ← pow_mul, ← pow_add, Nat.div_add_mod]
      by_cases hodd : e % 2 = 1
      · simp only [hodd, if_true]
        rw [Nat.mod_mul_mod, ih _ _ _ hlt, hpow, hodd, pow_one]
        rw [Nat.mul_mod, Nat.pow_mod, Nat.mod_mod, ← Nat.pow_mod, ← Nat.mul_mod]
        ring_nf
      · have h0 : e % 2 = 0 := by omega
        simp only [hodd, if_false]
        rw [ih _ _ _ hlt, hpow, h0, pow_zero, mul_one]
        rw [Nat.mul_mod, Nat.pow_mod, Nat.mod_mod, ← Nat.pow_mod, ← Nat.mul_mod]

/-- the model's square-and-multiply is exponentiation modulo `m` (every base, exponent, modulus) -/
theorem powMod_eq (b e m : Nat) : powMod b e m = b ^ e % m := by
  unfold powMod
  rw [powModAux_eq m _ _ _ 1 (Nat.lt_log2_self), one_mul, Nat.pow_mod, Nat.mod_mod, ← Nat.pow_mod]

example : powMod 3 200 1000007 = 3 ^ 200 % 1000007 := powMod_eq _ _ _
example : powMod 3 5 7 = 5 := by decide

/-! ## division conventions -/

/-- truncated division: `a = q*b + r`, `|r| < |b|`, `r` has the sign of `a`;
Euclidean division: `a = q*b + r`, `0 ≤ r < |b|` -/
theorem divmod_conventions (a b : Int) (hb : b ≠ 0) :
    ((tdivmod a b).1 * b + (tdivmod a b).2 = a ∧ (tdivmod a b).2.natAbs < b.natAbs ∧
      (0 ≤ a → 0 ≤ (tdivmod a b).2) ∧ (a ≤ 0 → (tdivmod a b).2 ≤ 0)) ∧
    ((edivmod a b).1 * b + (edivmod a b).2 = a ∧ 0 ≤ (edivmod a b).2 ∧ (edivmod a b).2 < |b|) := by
  refine ⟨⟨?_, ?_, ?_, ?_⟩, ?_, ?_, ?_⟩
  · simp only [tdivmod]; rw [mul_comm]; exact Int.mul_tdiv_add_tmod a b
  · simp only [tdivmod]
    rw [Int.natAbs_tmod]
    exact Nat.mod_lt _ (Int.natAbs_pos.mpr hb)
  · intro ha; exact Int.tmod_nonneg b ha
  · intro ha; simp only [tdivmod]
    have h := Int.tmod_nonneg (a := -a) b (by omega)
    rw [Int.neg_tmod] at h; omega
  · simp only [edivmod]; rw [mul_comm]; exact Int.mul_ediv_add_emod a b
  · exact Int.emod_nonneg a hb
  · exact Int.emod_lt_abs a hb

example : tdivmod (-7) 2 = (-3, -1) ∧ edivmod (-7) 2 = (-4, 1) := by decide

/-! ## Jacobi symbol -/

/-- the formal witness of the defect of `nt/jacobi_purego.go`: reducing `|x|` instead of `x` gives
`(−1 | 3) = 1`, whereas the Jacobi symbol is `−1` -/
theorem jacobi_purego_abs_wrong : jacobiAbsVariant (-1) 3 ≠ jacobiSym (-1) 3 ∧ jacobi (-1) 3 = jacobiSym (-1) 3 := by
  have h : jacobiSym (-1) 3 = -1 := by
    rw [jacobiSym.mod_left]; decide +kernel
  rw [h]; decide

end BronVerif.Props.C17
