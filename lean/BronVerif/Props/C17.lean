import Mathlib.NumberTheory.LegendreSymbol.JacobiSymbol
import Mathlib.Data.Nat.ModEq
import Mathlib.Tactic.Ring
import Mathlib.Tactic.Linarith
import Mathlib.Tactic.NormNum.Prime
import Mathlib.Data.Nat.ChineseRemainder
import BronVerif.Model.BigNum
import BronVerif.Lemmas.Jacobi
import BronVerif.Lemmas.BigNumInv
import BronVerif.Lemmas.BigNumArith
import BronVerif.Lemmas.BigNumBytes
import BronVerif.Lemmas.BigNumGcd
import BronVerif.Lemmas.BigNumSqrt
import BronVerif.Lemmas.BigNumMR
/-!
# C17 — big-number and modular arithmetic return the mathematically correct value (property theorems)

`Nat`/`Int` are the specification.  The theorems below are about the very definitions of
`Model/BigNum.lean` that the driver executes: `powMod`/`powModI`, `invMod`, `crt2`, `isqrt`/`sqrtExact?`,
`sqrtMod`/`isQR`, `jacobi`/`jacobiChecked`, the mirrored binary gcd `gcdBin`/`lcmBin`, the mirrored
divisions `tdivFromAbs`/`edivFromAbs`/`ratFloor`/`ratCeil`/`symMod`, the capacity convention `trunc`,
the byte conversions and the Miller–Rabin test `probablyPrime`.  Proofs of the longer ones live in
`Lemmas/BigNum*.lean`, `Lemmas/Jacobi.lean`.
-/
namespace BronVerif.Props.C17
open BronVerif.BigNum

/-! ## modular exponentiation -/

/-- the model's square-and-multiply is exponentiation modulo `m` (every base, exponent, modulus) -/
theorem powMod_eq (b e m : Nat) : powMod b e m = b ^ e % m :=
  BronVerif.Lemmas.BigNumArith.powMod_eq b e m

example : powMod 3 200 1000007 = 3 ^ 200 % 1000007 := powMod_eq _ _ _
example : powMod 3 5 7 = 5 := by decide

/-- the signed-exponent convention of `ModExpI` / `Zn.ExpI` / `znstar ExpI`: a non-negative exponent is the
ordinary power; for a negative exponent (modulus `> 1`) the result exists exactly for units and is then
the inverse of `x^|e|` in `[0, m)`. -/
theorem powModI_spec (x : Nat) (e : Int) (m : Nat) (hm : 1 < m) :
    (0 ≤ e → powModI x e m = some (x ^ e.toNat % m)) ∧
    (e < 0 → Nat.Coprime x m → ∃ v, powModI x e m = some v ∧ v < m ∧ v * x ^ e.natAbs % m = 1) ∧
    (e < 0 → ¬ Nat.Coprime x m → powModI x e m = none) := by
  refine ⟨?_, ?_, ?_⟩
  · intro he
    unfold powModI
    rw [if_pos he, powMod_eq]
  · intro he hc; exact (BronVerif.Lemmas.BigNumArith.powModI_neg x e m hm he).1 hc
  · intro he hc; exact (BronVerif.Lemmas.BigNumArith.powModI_neg x e m hm he).2 hc

example : powModI 3 (-2) 7 = some 4 ∧ 4 * 3 ^ 2 % 7 = 1 ∧ powModI 2 (-1) 6 = none ∧ powModI 2 5 6 = some 2 := by decide

/-! ## division conventions -/

/-- truncated division: `a = q*b + r`, `|r| < |b|`, `r` has the sign of `a`;
Euclidean division: `a = q*b + r`, `0 ≤ r < |b|` -/
theorem divmod_conventions (a b : Int) (hb : b ≠ 0) :
    ((tdivmod a b).1 * b + (tdivmod a b).2 = a ∧ (tdivmod a b).2.natAbs < b.natAbs ∧
      (0 ≤ a → 0 ≤ (tdivmod a b).2) ∧ (a ≤ 0 → (tdivmod a b).2 ≤ 0)) ∧
    ((edivmod a b).1 * b + (edivmod a b).2 = a ∧ 0 ≤ (edivmod a b).2 ∧ (edivmod a b).2 < |b|) := by
  refine ⟨⟨?_, ?_, ?_, ?_⟩, ?_, ?_, ?_⟩
  · simp only [tdivmod]; rw [mul_comm]; exact Int.mul_tdiv_add_tmod a b
  · simp only [tdivmod]
    rw [Int.natAbs_tmod]
    exact Nat.mod_lt _ (Int.natAbs_pos.mpr hb)
  · intro ha; exact Int.tmod_nonneg b ha
  · intro ha; simp only [tdivmod]
    have h := Int.tmod_nonneg (a := -a) b (by omega)
    rw [Int.neg_tmod] at h; omega
  · simp only [edivmod]; rw [mul_comm]; exact Int.mul_ediv_add_emod a b
  · exact Int.emod_nonneg a hb
  · exact Int.emod_lt_abs a hb

example : tdivmod (-7) 2 = (-3, -1) ∧ edivmod (-7) 2 = (-4, 1) := by decide

/-- the two derivations the Go code uses (divide the magnitudes, then fix signs — `numct.Int.Div`,
`numct.Int.EuclideanDiv`) are the truncated and the Euclidean division: so `divmod_conventions` is a
statement about the definitions the driver executes (`tdivFromAbs` for every divisor, `edivFromAbs` for
every non-zero divisor; division by zero is refused by the API). -/
theorem divmod_mirror (a b : Int) :
    tdivFromAbs a b = tdivmod a b ∧ (b ≠ 0 → edivFromAbs a b = edivmod a b) :=
  ⟨BronVerif.Lemmas.BigNumArith.tdivFromAbs_eq a b, fun hb => BronVerif.Lemmas.BigNumArith.edivFromAbs_eq a b hb⟩

example : tdivFromAbs (-7) 2 = (-3, -1) ∧ edivFromAbs (-7) 2 = (-4, 1) ∧ edivFromAbs (-7) (-2) = (4, 1) ∧
    edivFromAbs (-6) 2 = (-3, 0) ∧ tdivFromAbs 7 (-2) = (-3, 1) := by decide

/-- exact sign rules of the exact-multiple and negative-dividend cases that `Int.Mod`-style callers rely
on: the Euclidean remainder is `0` exactly for multiples, and for a negative non-multiple it is
`|b| − (|a| mod |b|)` with the quotient moved one step away from zero -/
theorem ediv_sign_rules (a b : Int) (hb : b ≠ 0) :
    ((edivFromAbs a b).2 = 0 ↔ b ∣ a) ∧ 0 ≤ (edivFromAbs a b).2 ∧ (edivFromAbs a b).2 < |b| ∧
    (edivFromAbs a b).1 * b + (edivFromAbs a b).2 = a := by
  rw [BronVerif.Lemmas.BigNumArith.edivFromAbs_eq a b hb]
  refine ⟨?_, Int.emod_nonneg a hb, Int.emod_lt_abs a hb, ?_⟩
  · exact (Int.dvd_iff_emod_eq_zero).symm
  · dsimp only; rw [mul_comm]; exact Int.mul_ediv_add_emod a b

example : (edivFromAbs (-9) 3).2 = 0 ∧ (edivFromAbs (-10) 3) = (-4, 2) := by decide

/-- `num.Rat.Floor` / `Ceil` (Euclidean quotient of numerator by the positive denominator, plus one for
the ceiling of a non-integer): `d·⌊a/d⌋ ≤ a < d·(⌊a/d⌋+1)` and `d·(⌈a/d⌉−1) < a ≤ d·⌈a/d⌉` -/
theorem floor_ceil_conventions (a : Int) (d : Nat) (hd : 0 < d) :
    ((d : Int) * ratFloor a d ≤ a ∧ a < (d : Int) * (ratFloor a d + 1)) ∧
    ((d : Int) * (ratCeil a d - 1) < a ∧ a ≤ (d : Int) * ratCeil a d) :=
  BronVerif.Lemmas.BigNumArith.ratFloor_ceil_spec a d hd

example : ratFloor (-7) 2 = -4 ∧ ratCeil (-7) 2 = -3 ∧ ratFloor 7 2 = 3 ∧ ratCeil 7 2 = 4 ∧ ratCeil 6 2 = 3 := by decide

/-- `Modulus.ModSymmetric`: congruent to `x`, in `[-m/2, m/2)` -/
theorem symMod_conventions (x : Int) (m : Nat) (hm : 0 < m) :
    (m : Int) ∣ symMod x m - x ∧ -(m : Int) ≤ 2 * symMod x m ∧ 2 * symMod x m < m :=
  BronVerif.Lemmas.BigNumArith.symMod_spec x m hm

example : symMod 5 8 = -3 ∧ symMod 4 8 = -4 ∧ symMod 3 8 = 3 ∧ symMod (-1) 7 = -1 := by decide

/-! ## Jacobi symbol -/

/-- the formal witness of the defect of `nt/jacobi_purego.go`: reducing `|x|` instead of `x` gives
`(−1 | 3) = 1`, whereas the Jacobi symbol is `−1` -/
theorem jacobi_purego_abs_wrong : jacobiAbsVariant (-1) 3 ≠ jacobiSym (-1) 3 ∧ jacobi (-1) 3 = jacobiSym (-1) 3 := by
  have h : jacobiSym (-1) 3 = -1 := by
    rw [jacobiSym.mod_left]; decide +kernel
  rw [h]; decide

/-- **The mirrored (correct) binary Kronecker algorithm of `nt/jacobi_purego.go` is the Jacobi symbol**:
for every integer `x` (negative included) and every odd positive `y`. -/
theorem jacobi_binary_eq (x : Int) (y : Nat) (hy : y % 2 = 1) : jacobi x y = jacobiSym x y :=
  BronVerif.Lemmas.Jacobi.jacobi_eq x y hy

example : jacobi (-1) 3 = jacobiSym (-1) 3 := jacobi_binary_eq _ _ (by decide)
example : jacobi (-15) 23 = 1 ∧ jacobi 1001 9907 = -1 ∧ jacobi (-12) 55 = 1 ∧ jacobiAbsVariant (-15) 23 = -1 := by decide

/-- the symbol computed by the model is multiplicative in the numerator and in the (odd) denominator -/
theorem jacobi_mul (x₁ x₂ : Int) (y₁ y₂ : Nat) (h₁ : y₁ % 2 = 1) (h₂ : y₂ % 2 = 1) :
    jacobi (x₁ * x₂) y₁ = jacobi x₁ y₁ * jacobi x₂ y₁ ∧ jacobi x₁ (y₁ * y₂) = jacobi x₁ y₁ * jacobi x₁ y₂ := by
  have h12 : (y₁ * y₂) % 2 = 1 := by rw [Nat.mul_mod, h₁, h₂]
  have : NeZero y₁ := ⟨by omega⟩
  have : NeZero y₂ := ⟨by omega⟩
  rw [jacobi_binary_eq _ _ h₁, jacobi_binary_eq _ _ h₁, jacobi_binary_eq _ _ h₁, jacobi_binary_eq _ _ h12,
    jacobi_binary_eq _ _ h₂]
  exact ⟨jacobiSym.mul_left x₁ x₂ y₁, jacobiSym.mul_right x₁ y₁ y₂⟩

example : jacobi ((-3) * 5) 23 = jacobi (-3) 23 * jacobi 5 23 ∧ jacobi 7 (15 * 11) = jacobi 7 15 * jacobi 7 11 :=
  jacobi_mul (-3) 5 23 23 (by decide) (by decide) |>.1 |> fun h => ⟨h, (jacobi_mul 7 1 15 11 (by decide) (by decide)).2⟩

/-- the guard of `nt.Jacobi`: exactly the even denominators are refused; every other call returns the
Jacobi symbol -/
theorem jacobi_even_rejected (x : Int) (y : Nat) :
    (jacobiChecked x y = none ↔ y % 2 = 0) ∧ (y % 2 = 1 → jacobiChecked x y = some (jacobiSym x y)) := by
  unfold jacobiChecked
  constructor
  · by_cases h : y % 2 = 0
    · simp [h]
    · simp [h]
  · intro h
    have h' : ¬ y % 2 = 0 := by omega
    rw [if_neg h', jacobi_binary_eq x y h]

example : jacobiChecked 3 10 = none ∧ jacobiChecked (-1) 3 = some (-1) := by decide

/-! ## modular inverse -/

/-- `invMod` (extended Euclid) answers exactly for the units of `ℤ/m` (`m > 1`), and its answer is the
inverse in `[0, m)`: non-invertibility is reported exactly when it holds -/
theorem invMod_iff (a m : Nat) (hm : 1 < m) :
    ((invMod a m).isSome ↔ Nat.Coprime a m) ∧ (∀ x, invMod a m = some x → x < m ∧ a * x % m = 1) :=
  ⟨(BronVerif.Lemmas.BigNumInv.invMod_spec a m hm).2, (BronVerif.Lemmas.BigNumInv.invMod_spec a m hm).1⟩

example : invMod 3 7 = some 5 ∧ invMod 4 6 = none := by decide

/-- the inverse in `[0, m)` is unique: whatever the implementation returns as an inverse (`a·x ≡ 1`, `x < m`)
is the model's value -/
theorem invMod_unique (a m x y : Nat) (hx : x < m) (hy : y < m) (h1 : a * x % m = 1) (h2 : a * y % m = 1) : x = y :=
  BronVerif.Lemmas.BigNumArith.invMod_unique a m x y hx hy h1 h2

example : ∀ y, y < 7 → 3 * y % 7 = 1 → invMod 3 7 = some y := by
  intro y hy h
  have := invMod_unique 3 7 5 y (by decide) hy (by decide) h
  subst this; decide

/-! ## Chinese remaindering -/

/-- a solution below `p*q` of the two congruences is unique — this is what makes the driver's check
"`crt2`'s value satisfies both congruences and is `< p*q`, and the implementation returns the same
value" a specification check -/
theorem crt_unique (p q v w : Nat) (h : Nat.Coprime p q) (hv : v < p * q) (hw : w < p * q)
    (hp : v % p = w % p) (hq : v % q = w % q) : v = w :=
  Nat.ModEq.eq_of_lt_of_lt ((Nat.modEq_and_modEq_iff_modEq_mul h).mp ⟨hp, hq⟩) hv hw

example (w : Nat) (hw : w < 35) (h5 : w % 5 = 2) (h7 : w % 7 = 3) : w = 17 :=
  crt_unique 5 7 w 17 (by decide) hw (by decide) h5 h7

/-- **Garner's formula as implemented by `crt.Params.Recombine` (`crt2`)**: for coprime `p > 1`, `q` and a
reduced `b < q` it returns the unique `v < p·q` with `v ≡ a (mod p)`, `v ≡ b (mod q)` -/
theorem crt_recombine (a b p q : Nat) (hp : 1 < p) (h : Nat.Coprime p q) (hb : b < q) :
    ∃ v, crt2 a b p q = some v ∧ v % p = a % p ∧ v % q = b ∧ v < p * q ∧
      ∀ w, w < p * q → w % p = a % p → w % q = b → w = v := by
  obtain ⟨v, h1, h2, h3, h4⟩ := BronVerif.Lemmas.BigNumArith.crt2_spec a b p q hp h hb
  refine ⟨v, h1, h2, h3, h4, ?_⟩
  intro w hw hwp hwq
  exact crt_unique p q w v h hw h4 (hwp.trans h2.symm) (hwq.trans h3.symm)

example : crt2 2 3 5 7 = some 17 ∧ 17 % 5 = 2 ∧ 17 % 7 = 3 := by decide
example : ∃ v, crt2 12 3 5 7 = some v ∧ v % 5 = 12 % 5 ∧ v % 7 = 3 ∧ v < 35 := by
  obtain ⟨v, h1, h2, h3, h4, _⟩ := crt_recombine 12 3 5 7 (by decide) (by decide) (by decide)
  exact ⟨v, h1, h2, h3, h4⟩

/-- it agrees with Mathlib's `Nat.chineseRemainder` -/
theorem crt_eq_chineseRemainder (a b p q : Nat) (hp : 1 < p) (h : Nat.Coprime p q) (hb : b < q) :
    crt2 a b p q = some (Nat.chineseRemainder h a b : Nat) := by
  obtain ⟨v, h1, _, _, _, huniq⟩ := crt_recombine a b p q hp h hb
  have hq : 0 < q := by omega
  have hlt : (Nat.chineseRemainder h a b : Nat) < p * q :=
    Nat.chineseRemainder_lt_mul h a b (by omega) (by omega)
  have hc := (Nat.chineseRemainder h a b).2
  rw [h1, huniq _ hlt hc.1 (by rw [hc.2, Nat.mod_eq_of_lt hb])]

example : crt2 2 3 5 7 = some (Nat.chineseRemainder (by decide : Nat.Coprime 5 7) 2 3 : Nat) :=
  crt_eq_chineseRemainder 2 3 5 7 (by decide) _ (by decide)

/-! ## square roots -/

/-- a modular square root that is returned always squares back to its argument -/
theorem sqrtMod_sq (a p r : Nat) (h : sqrtMod a p = some r) : r * r % p = a % p := by
  unfold sqrtMod at h
  dsimp only at h
  split at h
  · rename_i hc; cases h; exact hc
  · cases h

/-- an integer square root that is returned is exact -/
theorem sqrtExact_sq (n r : Nat) (h : sqrtExact? n = some r) : r * r = n := by
  unfold sqrtExact? at h
  dsimp only at h
  split at h
  · rename_i hc; cases h; exact hc
  · cases h

example : sqrtMod 2 7 = some 4 ∧ sqrtMod 3 7 = none ∧ sqrtMod 5 41 = some 28 := by decide

/-- the Newton iteration of the model is the integer square root: `r² ≤ n < (r+1)²` -/
theorem isqrt_spec (n : Nat) : isqrt n * isqrt n ≤ n ∧ n < (isqrt n + 1) * (isqrt n + 1) :=
  BronVerif.Lemmas.BigNumSqrt.isqrt_spec n

example : isqrt 99 = 9 ∧ isqrt 100 = 10 ∧ isqrt (2 ^ 64 - 1) = 2 ^ 32 - 1 := by decide

/-- `Nat.Sqrt` / `Int.Sqrt` of the API answer only for perfect squares: the model answers for exactly those -/
theorem sqrtExact_iff (n : Nat) : (sqrtExact? n).isSome ↔ ∃ r, r * r = n :=
  BronVerif.Lemmas.BigNumSqrt.sqrtExact_iff n

example : sqrtExact? 144 = some 12 ∧ sqrtExact? 145 = none := by decide

/-- **Euler's criterion as executed by the model**: modulo an odd prime, `isQR` holds exactly for the
quadratic residues (zero included) -/
theorem isQR_iff (a p : Nat) (hp : p.Prime) (h2 : p ≠ 2) : isQR a p = true ↔ ∃ r, r * r % p = a % p := by
  have := Fact.mk hp
  rw [BronVerif.Lemmas.BigNumSqrt.isQR_iff_isSquare a h2, BronVerif.Lemmas.BigNumSqrt.exists_root_iff]

/-- in terms of the Legendre symbol: `isQR a p` iff `(a | p) ≠ −1` -/
theorem isQR_iff_legendre (a p : Nat) [Fact p.Prime] (h2 : p ≠ 2) : isQR a p = true ↔ legendreSym p a ≠ -1 := by
  rw [BronVerif.Lemmas.BigNumSqrt.isQR_iff_isSquare a h2, Ne, legendreSym.eq_neg_one_iff, not_not, Int.cast_natCast]

example : isQR 2 7 = true ∧ isQR 3 7 = false ∧ isQR 14 7 = true := by decide
example : True := by
  have : Fact (Nat.Prime 7) := ⟨by norm_num⟩
  have h : isQR 2 7 = true ↔ legendreSym 7 (2 : ℕ) ≠ -1 := isQR_iff_legendre 2 7 (by decide)
  have _h2 : legendreSym 7 (2 : ℕ) ≠ -1 := h.mp (by decide)
  trivial
example : ∃ r, r * r % 7 = 2 % 7 := (isQR_iff 2 7 (by norm_num) (by decide)).mp (by decide)

/-- **completeness of the modular square root modulo an odd prime** (the `p ≡ 3 (mod 4)` exponentiation and
Tonelli–Shanks with a searched non-residue, as the model implements them): a root is returned exactly
for the quadratic residues -/
theorem sqrtMod_prime_iff (a p : Nat) (hp : p.Prime) (h2 : p ≠ 2) :
    (sqrtMod a p).isSome ↔ ∃ r, r * r % p = a % p := by
  have := Fact.mk hp
  constructor
  · intro h
    obtain ⟨r, hr⟩ := Option.isSome_iff_exists.mp h
    exact ⟨r, sqrtMod_sq a p r hr⟩
  · intro h
    have hsq : IsSquare ((a % p : ℕ) : ZMod p) := by
      rw [ZMod.natCast_mod]; exact (BronVerif.Lemmas.BigNumSqrt.exists_root_iff a).mp h
    have hc := BronVerif.Lemmas.BigNumSqrt.sqrtCandidate_sq (a % p) h2 hsq
    have hroot : sqrtCandidate (a % p) p * sqrtCandidate (a % p) p % p = a % p := by
      have e : ((sqrtCandidate (a % p) p * sqrtCandidate (a % p) p : ℕ) : ZMod p) = ((a % p : ℕ) : ZMod p) := by
        rw [Nat.cast_mul, ← pow_two]; exact hc
      rw [ZMod.natCast_eq_natCast_iff'] at e
      rw [e, Nat.mod_mod]
    unfold sqrtMod
    dsimp only
    rw [if_pos hroot]; rfl

/-- and the root returned for a residue squares back (both directions together: what `ModSqrt` promises
modulo an odd prime) -/
theorem sqrtMod_prime_residue (a p : Nat) (hp : p.Prime) (h2 : p ≠ 2) (h : ∃ r, r * r % p = a % p) :
    ∃ r, sqrtMod a p = some r ∧ r * r % p = a % p := by
  obtain ⟨r, hr⟩ := Option.isSome_iff_exists.mp ((sqrtMod_prime_iff a p hp h2).mpr h)
  exact ⟨r, hr, sqrtMod_sq a p r hr⟩

example : (sqrtMod 5 41).isSome := (sqrtMod_prime_iff 5 41 (by norm_num) (by decide)).mpr ⟨28, by decide⟩
example : sqrtMod 5 41 = some 28 ∧ sqrtMod 2 17 = some 6 ∧ sqrtMod 3 17 = none ∧ sqrtMod 0 17 = some 0 := by decide

/-! ## byte conversions -/

/-- big-endian conversions (the byte order of every `Bytes`/`SetBytes`/`FillBytes` of `numct`/`num`; the API has
no little-endian conversion): decoding the `len`-byte encoding gives `n mod 256^len`, hence `n` itself when
it fits; the encoding has exactly `len` bytes, each below 256; and encoding is the inverse of decoding, so
the `len`-byte encoding is canonical -/
theorem bytes_roundtrip (n len : Nat) :
    bytesToNat (natToBytes n len) = n % 256 ^ len ∧ (n < 256 ^ len → bytesToNat (natToBytes n len) = n) ∧
    (natToBytes n len).length = len ∧ (∀ b ∈ natToBytes n len, b < 256) := by
  refine ⟨BronVerif.Lemmas.BigNumBytes.bytesToNat_natToBytes n len, ?_,
    BronVerif.Lemmas.BigNumBytes.natToBytes_length n len, BronVerif.Lemmas.BigNumBytes.natToBytes_lt n len⟩
  intro h
  rw [BronVerif.Lemmas.BigNumBytes.bytesToNat_natToBytes, Nat.mod_eq_of_lt h]

theorem bytes_canonical (l : List Nat) (h : ∀ b ∈ l, b < 256) :
    natToBytes (bytesToNat l) l.length = l ∧ bytesToNat l < 256 ^ l.length :=
  ⟨BronVerif.Lemmas.BigNumBytes.natToBytes_bytesToNat l h, BronVerif.Lemmas.BigNumBytes.bytesToNat_lt l h⟩

example : natToBytes (bytesToNat [0, 0x12, 0x34]) 3 = [0, 0x12, 0x34] :=
  (bytes_canonical [0, 0x12, 0x34] (by decide)).1

/-- concatenation: the left part is weighted by `256^(length of the right part)` (leading zero bytes do not
change the value, trailing ones multiply by 256) -/
theorem fromBytes_append (a b : List Nat) : bytesToNat (a ++ b) = bytesToNat a * 256 ^ b.length + bytesToNat b :=
  BronVerif.Lemmas.BigNumBytes.bytesToNat_append a b

example : bytesToNat (natToBytes 0x1234 2) = 0x1234 ∧ natToBytes 0x1234 3 = [0, 0x12, 0x34] ∧
    twosDecode (twosEncode (-2) 1) 1 = -2 := by decide
example : bytesToNat ([0, 0] ++ [0x12, 0x34]) = 0x1234 ∧ bytesToNat ([0x12] ++ [0x34, 0]) = 0x123400 := by decide
example : bytesToNat (natToBytes 0x123456 2) = 0x3456 := by decide

/-- two's complement (`Int.TwosComplementBytesBE` / `SetTwosComplementBytesBE`) round-trips on its range -/
theorem twos_roundtrip (i : Int) (len : Nat) (hlen : 0 < len)
    (hlo : -(2 ^ (8 * len - 1) : Int) ≤ i) (hhi : i < (2 ^ (8 * len - 1) : Int)) :
    twosDecode (twosEncode i len) len = i :=
  BronVerif.Lemmas.BigNumBytes.twos_roundtrip i len hlen hlo hhi

example : twosDecode (twosEncode (-128) 1) 1 = -128 ∧ twosDecode (twosEncode 127 1) 1 = 127 ∧ twosEncode (-1) 2 = 0xffff := by decide

/-! ## gcd, lcm -/

/-- **the binary gcd of `numct/internal/gcd.go`** (mirrored round by round by `gcdBin`, `2·cap` rounds on
`cap`-bit operands) **is `Nat.gcd`**, for every capacity at least the true lengths — in particular the
value does not depend on the announced capacity -/
theorem gcd_eq (cap x y : Nat) (hx : x < 2 ^ cap) (hy : y < 2 ^ cap) : gcdBin cap x y = Nat.gcd x y := by
  rw [BronVerif.Lemmas.BigNumGcd.gcdBin_eq, Nat.mod_eq_of_lt hx, Nat.mod_eq_of_lt hy]

/-- with a capacity below the true length the operands are first truncated (what the Go code does) -/
theorem gcd_truncating (cap x y : Nat) : gcdBin cap x y = Nat.gcd (x % 2 ^ cap) (y % 2 ^ cap) :=
  BronVerif.Lemmas.BigNumGcd.gcdBin_eq cap x y

/-- `numct.LCM` (zero guard, then `a·b / gcd`) is `Nat.lcm` -/
theorem lcm_eq (cap a b : Nat) (ha : a < 2 ^ cap) (hb : b < 2 ^ cap) : lcmBin cap a b = Nat.lcm a b :=
  BronVerif.Lemmas.BigNumGcd.lcmBin_eq cap a b ha hb

set_option maxRecDepth 8192 in
example : gcdBin 7 84 36 = 12 ∧ gcdBin 9 84 36 = 12 ∧ gcdBin 20 84 36 = 12 ∧ gcdBin 8 0 0 = 0 ∧ gcdBin 8 0 5 = 5 ∧
    gcdBin 4 84 36 = Nat.gcd 4 4 := by decide
example : gcdBin 64 84 36 = Nat.gcd 84 36 := gcd_eq 64 84 36 (by norm_num) (by norm_num)
set_option maxRecDepth 8192 in
example : lcmBin 8 84 36 = 252 ∧ lcmBin 8 0 36 = 0 ∧ lcmBin 8 7 0 = 0 := by decide

/-! ## capacities -/

/-- the announced-capacity convention (`trunc`, applied by `NewNatFromBig`, `Resize`, the `…Cap` methods):
a value is kept modulo `2^cap`; it is unchanged as soon as `cap` is at least its true length, whatever
larger capacity is announced -/
theorem cap_semantics (n : Nat) (cap : Int) :
    trunc n cap < 2 ^ cap.toNat ∧ trunc n cap ≡ n [MOD 2 ^ cap.toNat] ∧
    (bitLen n ≤ cap.toNat → trunc n cap = n) ∧ (bitLen n ≤ cap.toNat ↔ n < 2 ^ cap.toNat) := by
  refine ⟨BronVerif.Lemmas.BigNumArith.trunc_lt n cap, BronVerif.Lemmas.BigNumArith.trunc_modEq n cap, ?_,
    BronVerif.Lemmas.BigNumBytes.bitLen_le_iff n cap.toNat⟩
  intro h
  exact BronVerif.Lemmas.BigNumArith.trunc_eq_self n cap ((BronVerif.Lemmas.BigNumBytes.bitLen_le_iff n cap.toNat).mp h)

/-- the default result capacities never truncate: `max(cx, cy) + 1` bits hold a sum, `cx + cy` bits a product -/
theorem cap_default_exact (x y cx cy : Nat) (hx : x < 2 ^ cx) (hy : y < 2 ^ cy) :
    trunc (x + y) (Int.ofNat (max cx cy + 1)) = x + y ∧ trunc (x * y) (Int.ofNat (cx + cy)) = x * y :=
  ⟨BronVerif.Lemmas.BigNumArith.trunc_eq_self _ _ (BronVerif.Lemmas.BigNumArith.add_lt_cap x y cx cy hx hy),
   BronVerif.Lemmas.BigNumArith.trunc_eq_self _ _ (BronVerif.Lemmas.BigNumArith.mul_lt_cap x y cx cy hx hy)⟩

example : trunc 0x1ff 8 = 0xff ∧ trunc 0x1ff 9 = 0x1ff ∧ trunc 0x1ff 64 = 0x1ff ∧ trunc 5 (-1) = 0 ∧ bitLen 0x1ff = 9 := by decide
example : trunc (255 + 255) (Int.ofNat (max 8 8 + 1)) = 510 := (cap_default_exact 255 255 8 8 (by decide) (by decide)).1

/-! ## Miller–Rabin -/

/-- **the strong-probable-prime test of the model never rejects a prime**: for a prime `p` with
`p − 1 = 2^s·d` every base passes (bases that are multiples of `p` pass by convention).  The converse
(what passes 40 bases is prime) is not a theorem — primality of generated primes stays a named partial. -/
theorem millerRabin_prime_passes (p s d a : Nat) (hp : p.Prime) (hsd : p - 1 = 2 ^ s * d) :
    mrWitnessOk p s d a = true := by
  have := Fact.mk hp
  exact BronVerif.Lemmas.BigNumMR.mrWitnessOk_prime s d a hsd

/-- so the driver's 40-base test accepts every prime -/
theorem probablyPrime_of_prime (p : Nat) (hp : p.Prime) : probablyPrime p = true := by
  have := Fact.mk hp
  exact BronVerif.Lemmas.BigNumMR.probablyPrime_of_prime

example : mrWitnessOk 13 2 3 2 = true := millerRabin_prime_passes 13 2 3 2 (by norm_num) (by decide)
example : probablyPrime 1000003 = true ∧ probablyPrime 561 = false ∧ probablyPrime 3215031751 = false := by decide

end BronVerif.Props.C17
