import Mathlib.NumberTheory.LegendreSymbol.JacobiSymbol
import Mathlib.Data.Nat.ModEq
import Mathlib.Tactic.Ring
import Mathlib.Tactic.Linarith
import Mathlib.Data.Nat.ChineseRemainder
import BronVerif.Model.BigNum
import BronVerif.Lemmas.Jacobi
import BronVerif.Lemmas.BigNumInv
/-!
# C17 — big-number and modular arithmetic return the mathematically correct value (property theorems)

`Nat`/`Int` are the specification.  The theorems below are about the very definitions of
`Model/BigNum.lean` that the driver executes: `powMod`, `invMod`, `crt2`, `sqrtMod`/`isQR`, `jacobi`,
the division conventions and the byte conversions.
-/
namespace BronVerif.Props.C17
open BronVerif.BigNum

/-! ## modular exponentiation -/

theorem powModAux_eq (m : Nat) : ∀ (fuel b e acc : Nat), e < 2 ^ fuel →
    powModAux m fuel b e (acc % m) = acc * b ^ e % m := by
  intro fuel
  induction fuel with
  | zero =>
    intro b e acc h
    have : e = 0 := by simpa using h
    subst this; simp [powModAux]
  | succ f ih =>
    intro b e acc h
    unfold powModAux
    by_cases he : e = 0
    · subst he; simp
    · simp only [he, if_false]
      have hlt : e / 2 < 2 ^ f := by
        rw [Nat.div_lt_iff_lt_mul (by norm_num)]; rw [pow_succ] at h; exact h
      have hpow : b ^ e = (b * b) ^ (e / 2) * b ^ (e % 2) := by
        rw [← pow_two, ← pow_mul, ← pow_add, Nat.div_add_mod]
      by_cases hodd : e % 2 = 1
      · simp only [hodd, if_true]
        rw [Nat.mod_mul_mod, ih _ _ _ hlt, hpow, hodd, pow_one]
        rw [Nat.mul_mod, Nat.pow_mod, Nat.mod_mod, ← Nat.pow_mod, ← Nat.mul_mod]
        ring_nf
      · have h0 : e % 2 = 0 := by omega
        simp only [hodd, if_false]
        rw [ih _ _ _ hlt, hpow, h0, pow_zero, mul_one]
        rw [Nat.mul_mod, Nat.pow_mod, Nat.mod_mod, ← Nat.pow_mod, ← Nat.mul_mod]

/-- the model's square-and-multiply is exponentiation modulo `m` (every base, exponent, modulus) -/
theorem powMod_eq (b e m : Nat) : powMod b e m = b ^ e % m := by
  unfold powMod
  rw [powModAux_eq m _ _ _ 1 (Nat.lt_log2_self), one_mul, Nat.pow_mod, Nat.mod_mod, ← Nat.pow_mod]

example : powMod 3 200 1000007 = 3 ^ 200 % 1000007 := powMod_eq _ _ _
example : powMod 3 5 7 = 5 := by decide

/-! ## division conventions -/

/-- truncated division: `a = q*b + r`, `|r| < |b|`, `r` has the sign of `a`;
Euclidean division: `a = q*b + r`, `0 ≤ r < |b|` -/
theorem divmod_conventions (a b : Int) (hb : b ≠ 0) :
    ((tdivmod a b).1 * b + (tdivmod a b).2 = a ∧ (tdivmod a b).2.natAbs < b.natAbs ∧
      (0 ≤ a → 0 ≤ (tdivmod a b).2) ∧ (a ≤ 0 → (tdivmod a b).2 ≤ 0)) ∧
    ((edivmod a b).1 * b + (edivmod a b).2 = a ∧ 0 ≤ (edivmod a b).2 ∧ (edivmod a b).2 < |b|) := by
  refine ⟨⟨?_, ?_, ?_, ?_⟩, ?_, ?_, ?_⟩
  · simp only [tdivmod]; rw [mul_comm]; exact Int.mul_tdiv_add_tmod a b
  · simp only [tdivmod]
    rw [Int.natAbs_tmod]
    exact Nat.mod_lt _ (Int.natAbs_pos.mpr hb)
  · intro ha; exact Int.tmod_nonneg b ha
  · intro ha; simp only [tdivmod]
    have h := Int.tmod_nonneg (a := -a) b (by omega)
    rw [Int.neg_tmod] at h; omega
  · simp only [edivmod]; rw [mul_comm]; exact Int.mul_ediv_add_emod a b
  · exact Int.emod_nonneg a hb
  · exact Int.emod_lt_abs a hb

example : tdivmod (-7) 2 = (-3, -1) ∧ edivmod (-7) 2 = (-4, 1) := by decide

/-! ## Jacobi symbol -/

/-- the formal witness of the defect of `nt/jacobi_purego.go`: reducing `|x|` instead of `x` gives
`(−1 | 3) = 1`, whereas the Jacobi symbol is `−1` -/
theorem jacobi_purego_abs_wrong : jacobiAbsVariant (-1) 3 ≠ jacobiSym (-1) 3 ∧ jacobi (-1) 3 = jacobiSym (-1) 3 := by
  have h : jacobiSym (-1) 3 = -1 := by
    rw [jacobiSym.mod_left]; decide +kernel
  rw [h]; decide

/-- **The mirrored (correct) binary Kronecker algorithm of `nt/jacobi_purego.go` is the Jacobi symbol**:
for every integer `x` (negative included) and every odd positive `y`. -/
theorem jacobi_binary_eq (x : Int) (y : Nat) (hy : y % 2 = 1) : jacobi x y = jacobiSym x y :=
  BronVerif.Lemmas.Jacobi.jacobi_eq x y hy

example : jacobi (-1) 3 = jacobiSym (-1) 3 := jacobi_binary_eq _ _ (by decide)
example : jacobi (-15) 23 = 1 ∧ jacobi 1001 9907 = -1 ∧ jacobi (-12) 55 = 1 ∧ jacobiAbsVariant (-15) 23 = -1 := by decide

/-! ## modular inverse -/

/-- `invMod` (extended Euclid) answers exactly for the units of `ℤ/m` (`m > 1`), and its answer is the
inverse in `[0, m)`: non-invertibility is reported exactly when it holds -/
theorem invMod_iff (a m : Nat) (hm : 1 < m) :
    ((invMod a m).isSome ↔ Nat.Coprime a m) ∧ (∀ x, invMod a m = some x → x < m ∧ a * x % m = 1) :=
  ⟨(BronVerif.Lemmas.BigNumInv.invMod_spec a m hm).2, (BronVerif.Lemmas.BigNumInv.invMod_spec a m hm).1⟩

example : invMod 3 7 = some 5 ∧ invMod 4 6 = none := by decide

/-! ## Chinese remaindering -/

/-- a solution below `p*q` of the two congruences is unique — this is what makes the driver's check
"`crt2`'s value satisfies both congruences and is `< p*q`, and the implementation returns the same
value" a specification check -/
theorem crt_unique (p q v w : Nat) (h : Nat.Coprime p q) (hv : v < p * q) (hw : w < p * q)
    (hp : v % p = w % p) (hq : v % q = w % q) : v = w :=
  Nat.ModEq.eq_of_lt_of_lt ((Nat.modEq_and_modEq_iff_modEq_mul h).mp ⟨hp, hq⟩) hv hw

/-- full statement for Garner's formula as implemented by `crt2` (not proved here; every `crt2` value the
driver uses is re-validated against both congruences at run time, and `crt_unique` gives uniqueness) -/
def crt_recombine_statement : Prop :=
  ∀ a b p q : Nat, 1 < p → Nat.Coprime p q → b < q →
    ∃ v, crt2 a b p q = some v ∧ v % p = a % p ∧ v % q = b ∧ v < p * q

example : crt2 2 3 5 7 = some 17 ∧ 17 % 5 = 2 ∧ 17 % 7 = 3 := by decide

/-! ## square roots -/

/-- a modular square root that is returned always squares back to its argument -/
theorem sqrtMod_sq (a p r : Nat) (h : sqrtMod a p = some r) : r * r % p = a % p := by
  unfold sqrtMod at h
  dsimp only at h
  split at h
  · rename_i hc; cases h; exact hc
  · cases h

/-- an integer square root that is returned is exact -/
theorem sqrtExact_sq (n r : Nat) (h : sqrtExact? n = some r) : r * r = n := by
  unfold sqrtExact? at h
  dsimp only at h
  split at h
  · rename_i hc; cases h; exact hc
  · cases h

example : sqrtMod 2 7 = some 4 ∧ sqrtMod 3 7 = none ∧ sqrtMod 5 41 = some 28 := by decide

/-- completeness modulo an odd prime (Euler's criterion for `isQR`, Tonelli–Shanks for `sqrtMod`): kept as
statements; the driver additionally squares every root returned by the implementation -/
def sqrtMod_prime_iff_statement : Prop :=
  ∀ a p : Nat, p.Prime → p ≠ 2 → ((sqrtMod a p).isSome ↔ ∃ r, r * r % p = a % p)
def isQR_iff_statement : Prop :=
  ∀ a p : Nat, p.Prime → p ≠ 2 → (isQR a p = true ↔ ∃ r, r * r % p = a % p)

/-! ## byte conversions -/

def bytes_roundtrip_statement : Prop :=
  ∀ n len : Nat, bytesToNat (natToBytes n len) = n % 256 ^ len

example : bytesToNat (natToBytes 0x1234 2) = 0x1234 ∧ natToBytes 0x1234 3 = [0, 0x12, 0x34] ∧
    twosDecode (twosEncode (-2) 1) 1 = -2 := by decide

end BronVerif.Props.C17
