import BronVerif.Model.Transcript
/-! Property theorems of C19 (transcripts). -/
namespace BronVerif.Props.C19
open BronVerif.Transcript

/-- the five framing tags are pairwise distinct -/
theorem tags_distinct :
    [domainTag, appendTag, extractTag, extractedTag, continuedTag].Nodup := by decide

end BronVerif.Props.C19
