import BronVerif.Lemmas.Transcript
import BronVerif.Gen.Hagrid
import Mathlib.Data.Set.Function
/-!
Property theorems of C19, transcript part.  All statements are about the definitions of
`Model/Transcript.lean` that the native driver executes to predict the Go outputs.

The hash is abstract (`H name input n`); "outputs differ" is stated under `Set.InjOn` on the set `S` of
hash inputs that occur (never global injectivity).
-/
namespace BronVerif.Props.C19
open BronVerif.Transcript

/-- all 64-bit length fields are faithful (true for every Go slice/string) -/
def Valid (ops : List Op) : Prop := ∀ op ∈ ops, op.ok

/-- a live history: what a transcript object can have absorbed (no `extracted` fork marker) -/
def Live (ops : List Op) : Prop := ∀ op ∈ ops, op.live = true

/-- the five framing tags are pairwise distinct -/
theorem tags_distinct :
    [domainTag, appendTag, extractTag, extractedTag, continuedTag].Nodup := by decide

/-- the parser inverts the framing of any history -/
theorem frame_parse (ops : List Op) (h : Valid ops) : parse (frame ops) = some ops :=
  parseAux_frame ops h _ (length_le_frame_length ops)

example : parse (frame [.domSep [1, 2], .append [3] [[], [4, 5]], .extract [6] 32]) =
    some [.domSep [1, 2], .append [3] [[], [4, 5]], .extract [6] 32] := by decide

/-- the absorbed byte string determines the history -/
theorem frame_injective (a b : List Op) (ha : Valid a) (hb : Valid b) (h : frame a = frame b) : a = b := by
  have h1 := frame_parse a ha
  rw [h, frame_parse b hb] at h1
  exact (Option.some.inj h1).symm

example : Valid [.append [1] [[2], []], .extract [] 16] := by
  intro op hop
  simp only [List.mem_cons, List.mem_nil_iff, or_false] at hop
  rcases hop with rfl | rfl <;> simp [Op.ok]

/-- histories that differ in any way — in particular only in how the same bytes are split across labels,
messages and calls — are absorbed as different byte strings -/
theorem splits_distinguished (a b : List Op) (ha : Valid a) (hb : Valid b) (hne : a ≠ b) :
    frame a ≠ frame b := fun h => hne (frame_injective a b ha hb h)

/-- the same raw bytes `1 2 3` split as label `1 2` + message `3`, label `1` + message `2 3`,
two messages, two calls: pairwise different histories, so `splits_distinguished` applies -/
example : ([.append [1, 2] [[3]]] : List Op) ≠ [.append [1] [[2, 3]]] ∧
    ([.append [1] [[2], [3]]] : List Op) ≠ [.append [1] [[2, 3]]] ∧
    ([.append [1] [[2]], .append [1] [[3]]] : List Op) ≠ [.append [1] [[2], [3]]] := by decide

theorem extractInput_eq_frame (h : List Op) (l : Bytes) (n : Nat) :
    extractInput (frame h) l n = frame (h ++ [.extracted l n]) := by
  rw [frame_append, frame_singleton, extractInput]

private theorem ok_extracted {l : Bytes} {n : Nat} (hl : l.length < 2 ^ 64) (hn : n < 2 ^ 64) :
    (Op.extracted l n).ok := ⟨hl, hn⟩

private theorem valid_snoc {h : List Op} {op : Op} (hv : Valid h) (ho : op.ok) : Valid (h ++ [op]) := by
  intro x hx
  rcases List.mem_append.mp hx with hx | hx
  · exact hv x hx
  · rw [List.mem_singleton.mp hx]; exact ho

/-- The byte string hashed for an extraction determines the whole history, the label and the requested
length (so an earlier extraction, the order, count and boundaries of messages, every label and domain
separator, and the length all matter). -/
theorem extract_input_unique (h h' : List Op) (l l' : Bytes) (n n' : Nat)
    (hv : Valid h) (hv' : Valid h') (hl : l.length < 2 ^ 64) (hl' : l'.length < 2 ^ 64)
    (hn : n < 2 ^ 64) (hn' : n' < 2 ^ 64) :
    extractInput (frame h) l n = extractInput (frame h') l' n' ↔ h = h' ∧ l = l' ∧ n = n' := by
  constructor
  · intro he
    rw [extractInput_eq_frame, extractInput_eq_frame] at he
    have := frame_injective _ _ (valid_snoc hv (ok_extracted hl hn)) (valid_snoc hv' (ok_extracted hl' hn')) he
    obtain ⟨h1, h2⟩ := List.append_inj' this rfl
    simp only [List.cons.injEq, Op.extracted.injEq, and_true] at h2
    exact ⟨h1, h2.1, h2.2⟩
  · rintro ⟨rfl, rfl, rfl⟩; rfl

/-- The byte string hashed for an extraction is never a prefix of (in particular never equal to) what a
live transcript absorbs: outputs cannot be extended into, or confused with, later states. -/
theorem extract_input_not_prefix_of_live (h h' : List Op) (l : Bytes) (n : Nat) (Z : Bytes)
    (hv : Valid h) (hv' : Valid h') (hl : l.length < 2 ^ 64) (hn : n < 2 ^ 64) (hlive : Live h') :
    extractInput (frame h) l n ++ Z ≠ frame h' := by
  intro he
  rw [extractInput_eq_frame] at he
  obtain ⟨c, hc, _⟩ := frame_prefix (valid_snoc hv (ok_extracted hl hn)) hv' he
  have hmem : Op.extracted l n ∈ h' := by rw [hc]; simp
  have := hlive _ hmem
  simp [Op.live] at this

/-- Extraction inputs are prefix-free among themselves: if one extends another they are the same
extraction of the same history. -/
theorem extract_input_prefix_free (h h' : List Op) (l l' : Bytes) (n n' : Nat) (Z : Bytes)
    (hv : Valid h) (hv' : Valid h') (hl : l.length < 2 ^ 64) (hl' : l'.length < 2 ^ 64)
    (hn : n < 2 ^ 64) (hn' : n' < 2 ^ 64) (hlive : Live h')
    (he : extractInput (frame h) l n ++ Z = extractInput (frame h') l' n') :
    Z = [] ∧ h = h' ∧ l = l' ∧ n = n' := by
  rw [extractInput_eq_frame, extractInput_eq_frame] at he
  obtain ⟨c, hc, hZ⟩ := frame_prefix (valid_snoc hv (ok_extracted hl hn)) (valid_snoc hv' (ok_extracted hl' hn')) he
  -- `extracted l n` occurs in `h' ++ [extracted l' n']`, and not inside the live `h'`
  have hlen : h.length = h'.length := by
    have hlen0 := congrArg List.length hc
    simp only [List.length_append, List.length_cons, List.length_nil] at hlen0
    rcases Nat.lt_or_ge h.length h'.length with hlt | hge
    · exfalso
      have hget : (h' ++ [Op.extracted l' n'])[h.length]? = ((h ++ [Op.extracted l n]) ++ c)[h.length]? := by
        rw [hc]
      rw [List.getElem?_append_left hlt, List.append_assoc, List.getElem?_append_right (Nat.le_refl _)] at hget
      simp only [Nat.sub_self, List.cons_append, List.nil_append, List.getElem?_cons_zero] at hget
      have hmem : Op.extracted l n ∈ h' := List.mem_of_getElem? hget
      have := hlive _ hmem
      simp [Op.live] at this
    · omega
  have hc0 : c = [] := by
    have hlen0 := congrArg List.length hc
    simp only [List.length_append, List.length_cons, List.length_nil] at hlen0
    exact List.eq_nil_of_length_eq_zero (by omega)
  subst hc0
  rw [List.append_nil] at hc
  obtain ⟨h1, h2⟩ := List.append_inj' hc rfl
  simp only [List.cons.injEq, Op.extracted.injEq, and_true] at h2
  exact ⟨by simpa [frame] using hZ, h1.symm, h2.1.symm, h2.2.symm⟩

/-! ### transcripts as states -/

/-- a transcript that performed the (live) history `ops` -/
def applyOps (s : State) (ops : List Op) : State := ops.foldl State.absorb s

theorem applyOps_absorbed (s : State) (ops : List Op) :
    (applyOps s ops).absorbed = s.absorbed ++ frame ops ∧ (applyOps s ops).name = s.name := by
  induction ops generalizing s with
  | nil => simp [applyOps, frame]
  | cons op ops ih =>
    have := ih (s.absorb op)
    simp only [applyOps, List.foldl_cons] at this ⊢
    rw [this.1, this.2]
    simp [State.absorb, frame]

/-- a successful extraction leaves `extract label n` in the history; a failed one (`n = 0`) leaves nothing -/
theorem extract_state (H : Bytes → Bytes → Nat → Bytes) (s : State) (l : Bytes) (n : Nat) :
    (s.extract H l n).2 = if n = 0 then s else applyOps s [.extract l n] := by
  by_cases h : n = 0 <;> simp [State.extract, h, applyOps]

/-- **Every difference changes the output.**  Two transcripts (names `name`, `name'`) that performed the
live histories `h`, `h'` and now extract under labels `l`, `l'` with lengths `n`, `n'`: if anything differs —
the protocol name, any label, message boundary, order or number of messages, domain separator, an earlier
extraction or its length (all recorded in `h`), or the final label or requested length — the outputs
differ, for any hash that is injective on the inputs that occur. -/
theorem outputs_differ (H : Bytes → Bytes → Nat → Bytes) (S : Set (Bytes × Bytes × Nat))
    (hH : Set.InjOn (fun x : Bytes × Bytes × Nat => H x.1 x.2.1 x.2.2) S)
    (name name' : Bytes) (h h' : List Op) (l l' : Bytes) (n n' : Nat)
    (hv : Valid h) (hv' : Valid h') (hl : l.length < 2 ^ 64) (hl' : l'.length < 2 ^ 64)
    (hn : n < 2 ^ 64) (hn' : n' < 2 ^ 64) (hn0 : n ≠ 0) (hn0' : n' ≠ 0)
    (hS : (name, extractInput (frame h) l n, n) ∈ S) (hS' : (name', extractInput (frame h') l' n', n') ∈ S)
    (hne : (name, h, l, n) ≠ (name', h', l', n')) :
    ((applyOps (State.new name) h).extract H l n).1 ≠ ((applyOps (State.new name') h').extract H l' n').1 := by
  have e1 := applyOps_absorbed (State.new name) h
  have e2 := applyOps_absorbed (State.new name') h'
  rw [State.extract, State.extract, if_neg hn0, if_neg hn0', e1.1, e1.2, e2.1, e2.2]
  simp only [State.new, List.nil_append]
  intro heq
  have := hH hS hS' (Option.some.inj heq)
  simp only [Prod.mk.injEq] at this
  obtain ⟨hname, hin, _⟩ := this
  obtain ⟨hh, hll, hnn⟩ := (extract_input_unique h h' l l' n n' hv hv' hl hl' hn hn').mp hin
  exact hne (by rw [hname, hh, hll, hnn])

/-- non-vacuity: the hypotheses of `outputs_differ` are satisfiable — two histories with the same raw bytes
split differently, and a hash that is injective on the inputs that occur (here: it returns its input) -/
example : ∃ (H : Bytes → Bytes → Nat → Bytes) (S : Set (Bytes × Bytes × Nat)),
    Set.InjOn (fun x : Bytes × Bytes × Nat => H x.1 x.2.1 x.2.2) S ∧
    ([1], extractInput (frame [.append [1, 2] [[3]]]) [7] 32, 32) ∈ S ∧
    ([1], extractInput (frame [.append [1] [[2, 3]]]) [7] 32, 32) ∈ S ∧
    (([1], [.append [1, 2] [[3]]], [7], 32) : Bytes × List Op × Bytes × Nat) ≠ ([1], [.append [1] [[2, 3]]], [7], 32) :=
  ⟨fun _ input _ => input, {x | x.1 = [1] ∧ x.2.2 = 32}, by
    rintro ⟨a, b, c⟩ ⟨ha, hc⟩ ⟨a', b', c'⟩ ⟨ha', hc'⟩ hxy
    simp only at ha hc ha' hc' hxy
    rw [ha, hc, ha', hc', hxy], ⟨rfl, rfl⟩, ⟨rfl, rfl⟩, by decide⟩

/-! ### clones and several transcripts -/

/-- the handle a command writes to (`new`/`clone` only add a handle) -/
def target : Cmd → Option Nat
  | .domSep i _ => some i
  | .append i _ _ => some i
  | .extract i _ _ => some i
  | _ => none

theorem modifyAt_getElem?_ne (m : Machine) (i j : Nat) (f : State → State) (hne : j ≠ i) :
    (modifyAt m j f)[i]? = m[i]? := by
  induction m generalizing i j with
  | nil => simp [modifyAt]
  | cons s rest ih =>
    cases j with
    | zero =>
      cases i with
      | zero => exact absurd rfl hne
      | succ i => simp [modifyAt]
    | succ j =>
      cases i with
      | zero => simp [modifyAt]
      | succ i => simpa [modifyAt] using ih i j (by omega)

/-- **Clone independence.**  A command never changes any transcript other than the one it addresses:
operations on a clone (or on the origin) leave the other untouched. -/
theorem clone_independent (H : Bytes → Bytes → Nat → Bytes) (m : Machine) (cmd : Cmd) (i : Nat)
    (hi : i < m.length) (hne : target cmd ≠ some i) : (step H m cmd).1[i]? = m[i]? := by
  cases cmd with
  | new name => simp [step, List.getElem?_append_left hi]
  | domSep j tag => exact modifyAt_getElem?_ne m i j _ (fun h => hne (by simp [target, h]))
  | append j l ms => exact modifyAt_getElem?_ne m i j _ (fun h => hne (by simp [target, h]))
  | extract j l n =>
    simp only [step]
    cases hj : m[j]? with
    | none => rfl
    | some s => exact modifyAt_getElem?_ne m i j _ (fun h => hne (by simp [target, h]))
  | clone j =>
    simp only [step]
    cases hj : m[j]? with
    | none => rfl
    | some s => simp [List.getElem?_append_left hi]

/-- a clone starts as an exact copy (so the same later operations give the same outputs, `run` being a
function), under the next free handle -/
theorem clone_copy (H : Bytes → Bytes → Nat → Bytes) (m : Machine) (i : Nat) (s : State) (h : m[i]? = some s) :
    (step H m (.clone i)).1 = m ++ [s] ∧ (step H m (.clone i)).1[m.length]? = some s := by
  simp [step, h, State.clone]

example : (step cshakeH [State.new [1], State.new [2]] (.append 1 [3] [[4]])).1[0]? = some (State.new [1]) :=
  clone_independent cshakeH _ _ 0 (by simp) (by simp [target])

/-! ### tie to the Go source (regenerated from /repo on every check run: `Gen/Hagrid.lean`) -/

/-- the model's tag bytes and cSHAKE customisation prefix are those of hagrid.go (Go `iota` rules applied
by the translator) -/
theorem constants_match_source :
    Gen.Hagrid.tags = [("domainTag", domainTag.toNat), ("appendTag", appendTag.toNat),
      ("extractTag", extractTag.toNat), ("extractedTag", extractedTag.toNat),
      ("continuedTag", continuedTag.toNat)] ∧
    Gen.Hagrid.customizedShakeName = customizedShakeName := by decide

/-- the sequence of sponge writes of every hagrid method is the one `frameOp`/`State.extract` were
transcribed from: tag, 64-bit label length, label, (count, then per message length and bytes | requested
length, fork, `continued` on the live sponge and `extracted` on the squeezed clone) -/
theorem writes_match_source :
    Gen.Hagrid.functions = ["NewTranscript", "AppendDomainSeparator", "AppendBytes", "ExtractBytes", "Clone", "cloneShake"] ∧
    Gen.Hagrid.writes_NewTranscript = ["sha3.NewCSHAKE256(nil, []byte(customizedShakeName+name))"] ∧
    Gen.Hagrid.writes_AppendDomainSeparator =
      ["t.h.Write []byte{byte(domainTag)}",
       "t.h.Write binary.BigEndian.AppendUint64(nil, uint64(len(domainSeparatorTag)))",
       "t.h.Write []byte(domainSeparatorTag)"] ∧
    Gen.Hagrid.writes_AppendBytes =
      ["t.h.Write []byte{byte(appendTag)}",
       "t.h.Write binary.BigEndian.AppendUint64(nil, uint64(len(label)))",
       "t.h.Write []byte(label)",
       "t.h.Write binary.BigEndian.AppendUint64(nil, uint64(len(messages)))",
       "range messages {",
       "t.h.Write binary.BigEndian.AppendUint64(nil, uint64(len(message)))",
       "t.h.Write message",
       "}"] ∧
    Gen.Hagrid.writes_ExtractBytes =
      ["if outLen == 0 {", "return-error", "}",
       "t.h.Write []byte{byte(extractTag)}",
       "t.h.Write binary.BigEndian.AppendUint64(nil, uint64(len(label)))",
       "t.h.Write []byte(label)",
       "t.h.Write binary.BigEndian.AppendUint64(nil, uint64(outLen))",
       "cloneShake t.h",
       "t.h.Write []byte{byte(continuedTag)}",
       "hClone.Write []byte{byte(extractedTag)}",
       "ReadFull hClone",
       "if err != nil {", "return-error", "}"] ∧
    Gen.Hagrid.writes_Clone = ["cloneShake t.h"] ∧
    Gen.Hagrid.writes_cloneShake = [] :=
  ⟨rfl, rfl, rfl, rfl, rfl, rfl, rfl⟩

end BronVerif.Props.C19
