import Mathlib.Algebra.Module.Basic
import Mathlib.Algebra.Module.LinearMap.Defs
import Mathlib.Algebra.Module.BigOperators
import Mathlib.LinearAlgebra.BilinearMap
import Mathlib.Algebra.Field.Basic
import Mathlib.Algebra.BigOperators.Group.List.Basic
import Mathlib.Data.Set.Function
import Mathlib.Tactic.Module
import Mathlib.Tactic.FieldSimp
import Mathlib.Tactic.Ring
import Mathlib.Tactic.LinearCombination
import Mathlib.Tactic.NormNum
import Mathlib.Tactic.Abel
import Mathlib.Algebra.Algebra.Bilinear
import Mathlib.Data.Fin.VecNotation
import Mathlib.Algebra.BigOperators.Fin
import BronVerif.Model.Sig
/-!
# C15 — single-party signatures verify exactly for the signed message and key (property theorems)

All statements are about the executable definitions of `Model/Sig.lean` (the ones the driver runs),
instantiated with an arbitrary field `F` of scalars and an `F`-module `G` (additive group of prime
order `|F|`).  Idealisations are hypotheses: the generator (`∀ a, a • g = 0 → a = 0`), the
x-coordinate map `xr`, parity `evenY`, the challenge hash (`Set.InjOn`), and — for BLS — an abstract
bilinear map that is non-degenerate at the generator (the pairing is not modelled).
-/
namespace BronVerif.Props.C15
open BronVerif.Sig

set_option linter.unusedSectionVars false
set_option linter.unusedSimpArgs false

variable {F G : Type} [Field F] [AddCommGroup G] [Module F G] [DecidableEq F] [DecidableEq G]

/-! ## ECDSA -/

theorem ecdsaCore_iff (xr : G → F) (g pk : G) (e r s : F) :
    ecdsaCore xr g pk e r s = true ↔
      r ≠ 0 ∧ s ≠ 0 ∧ ecdsaPoint g pk e r s ≠ 0 ∧ xr (ecdsaPoint g pk e r s) = r := by
  simp [ecdsaCore, and_assoc]

/-- the verifier's point for the key `d•g`: `((e' + r d) s⁻¹) • g` -/
theorem ecdsaPoint_key (g : G) (d e' r s : F) :
    ecdsaPoint g (d • g) e' r s = ((e' + r * d) * s⁻¹) • g := by
  unfold ecdsaPoint; module

/-- for an honest signature (`s = k⁻¹ (e + r d)`, `s ≠ 0`) and any digest `e'` the verifier recomputes
`k•g + ((e' − e) s⁻¹)•g` -/
theorem ecdsaPoint_honest (g : G) (d k e e' r : F) (hk : k ≠ 0) (hs : k⁻¹ * (e + r * d) ≠ 0) :
    ecdsaPoint g (d • g) e' r (k⁻¹ * (e + r * d)) = k • g + ((e' - e) * (k⁻¹ * (e + r * d))⁻¹) • g := by
  have h1 : e + r * d ≠ 0 := fun h => hs (by rw [h, mul_zero])
  rw [ecdsaPoint_key, ← add_smul]
  congr 1
  field_simp
  ring

/-- **sign ⇒ verify**: the signature `ecdsaSign` produces with a non-zero nonce verifies (core check),
provided `r` and `s` are non-zero (the signer retries otherwise) -/
theorem ecdsa_sign_verify (xr : G → F) (g : G) (hg : ∀ a : F, a • g = 0 → a = 0) (d k e : F)
    (hk : k ≠ 0) (hr : (ecdsaSign xr g d k e).1 ≠ 0) (hs : (ecdsaSign xr g d k e).2 ≠ 0) :
    ecdsaCore xr g (d • g) e (ecdsaSign xr g d k e).1 (ecdsaSign xr g d k e).2 = true := by
  simp only [ecdsaSign] at hr hs ⊢
  rw [ecdsaCore_iff]
  have hp := ecdsaPoint_honest g d k e e (xr (k • g)) hk hs
  simp only [sub_self, zero_mul, zero_smul, add_zero] at hp
  refine ⟨hr, hs, ?_, ?_⟩
  · rw [hp]; exact fun h => hk (hg k h)
  · rw [hp]

/-- **recovery**: with the true recovery id (`lift r v` is the nonce point `k•g`) the recovered key is
the signing key -/
theorem ecdsa_recover (lift : F → Nat → Option G) (g : G) (d k e r : F) (v : Nat)
    (hk : k ≠ 0) (hr : r ≠ 0) (hl : lift r v = some (k • g)) :
    ecdsaRecover lift g e r (k⁻¹ * (e + r * d)) v = some (d • g) := by
  simp only [ecdsaRecover, hl, Option.map_some, Option.some.injEq]
  have : (r⁻¹ * (k⁻¹ * (e + r * d))) • k • g + -((r⁻¹ * e) • g) = (r⁻¹ * (k⁻¹ * (e + r * d) * k - e)) • g := by module
  rw [this]
  congr 1
  field_simp
  ring

/-- the two-multiplication form of the model is the library's formula `(s•R − e•g)•r⁻¹` -/
theorem ecdsaRecover_eq (lift : F → Nat → Option G) (g : G) (e r s : F) (v : Nat) :
    ecdsaRecover lift g e r s v = (lift r v).map fun R => r⁻¹ • (s • R + -(e • g)) := by
  unfold ecdsaRecover
  congr 1
  funext R
  module

/-- negating `s` negates the recomputed point -/
theorem ecdsaPoint_neg (g pk : G) (e r s : F) :
    ecdsaPoint g pk e r (-s) = -ecdsaPoint g pk e r s := by
  unfold ecdsaPoint; rw [inv_neg]; module

/-- **malleability (core)**: `(r, s)` is valid iff `(r, −s)` is, because `x(−P) = x(P)` -/
theorem ecdsa_malleable (xr : G → F) (hxr : ∀ P, xr (-P) = xr P) (g pk : G) (e r s : F) :
    ecdsaCore xr g pk e r (-s) = ecdsaCore xr g pk e r s := by
  rw [Bool.eq_iff_iff, ecdsaCore_iff, ecdsaCore_iff, ecdsaPoint_neg, hxr]
  simp [neg_ne_zero]

/-- recovery from `(r, −s)` with the y-parity bit flipped gives the same key -/
theorem ecdsaRecover_neg (lift : F → Nat → Option G)
    (hlift : ∀ r v, lift r (v ^^^ 1) = (lift r v).map (fun P => -P)) (g : G) (e r s : F) (v : Nat) :
    ecdsaRecover lift g e r (-s) (v ^^^ 1) = ecdsaRecover lift g e r s v := by
  simp only [ecdsaRecover, hlift, Option.map_map]
  congr 1
  funext R
  simp only [Function.comp]
  module

/-- **documented malleability of the default verifier**: `(r, n−s, v⊕1)` is accepted iff `(r, s, v)` is,
and likewise with the recovery id omitted -/
theorem ecdsa_malleable_verify (xr : G → F) (hxr : ∀ P, xr (-P) = xr P) (lift : F → Nat → Option G)
    (hlift : ∀ r v, lift r (v ^^^ 1) = (lift r v).map (fun P => -P)) (low : F → Bool)
    (g pk : G) (e r s : F) (v : Option Nat) :
    ecdsaVerify xr lift low false g pk e (r, -s, v.map (· ^^^ 1)) =
      ecdsaVerify xr lift low false g pk e (r, s, v) := by
  cases v with
  | none => simp [ecdsaVerify, ecdsa_malleable xr hxr]
  | some v => simp [ecdsaVerify, ecdsa_malleable xr hxr, ecdsaRecover_neg lift hlift]

/-- **strict verifier** (`VerifyNonMalleably`) = default verifier ∧ low-S -/
theorem ecdsa_strict (xr : G → F) (lift : F → Nat → Option G) (low : F → Bool) (g pk : G) (e : F)
    (sig : F × F × Option Nat) :
    ecdsaVerify xr lift low true g pk e sig = (low sig.2.1 && ecdsaVerify xr lift low false g pk e sig) := by
  simp [ecdsaVerify, Bool.and_assoc]

/-- in particular the strict verifier rejects every high-S signature -/
theorem ecdsa_strict_rejects_high (xr : G → F) (lift : F → Nat → Option G) (low : F → Bool) (g pk : G)
    (e : F) (sig : F × F × Option Nat) (h : low sig.2.1 = false) :
    ecdsaVerify xr lift low true g pk e sig = false := by
  rw [ecdsa_strict, h, Bool.false_and]

/-- **Normalise** preserves validity under the default verifier and yields a low-S signature, hence the
strict verifier accepts the normalised form exactly when the default verifier accepts the original
(`hlow`: of `s` and `−s` at least one is low — true for `s ≤ n−s` on integers) -/
theorem ecdsa_normalise (xr : G → F) (hxr : ∀ P, xr (-P) = xr P) (lift : F → Nat → Option G)
    (hlift : ∀ r v, lift r (v ^^^ 1) = (lift r v).map (fun P => -P)) (low : F → Bool)
    (hlow : ∀ s, low s = false → low (-s) = true) (g pk : G) (e : F) (sig : F × F × Option Nat) :
    low (ecdsaNormalise low sig).2.1 = true ∧
    ecdsaVerify xr lift low false g pk e (ecdsaNormalise low sig) = ecdsaVerify xr lift low false g pk e sig ∧
    ecdsaVerify xr lift low true g pk e (ecdsaNormalise low sig) = ecdsaVerify xr lift low false g pk e sig := by
  obtain ⟨r, s, v⟩ := sig
  have key : low (ecdsaNormalise low (r, s, v)).2.1 = true ∧
      ecdsaVerify xr lift low false g pk e (ecdsaNormalise low (r, s, v)) =
        ecdsaVerify xr lift low false g pk e (r, s, v) := by
    unfold ecdsaNormalise
    by_cases h : low s = true
    · simp [h]
    · have h' : low s = false := by simpa using h
      simp only [h', Bool.false_eq_true, if_false]
      exact ⟨hlow s h', ecdsa_malleable_verify xr hxr lift hlift low g pk e r s v⟩
  refine ⟨key.1, key.2, ?_⟩
  rw [ecdsa_strict, key.1, Bool.true_and, key.2]

/-- **exact rejection, general form**: for an honest signature on digest `e` under key `d•g` with nonce
`k`, a digest `e'` is accepted iff `k•g + δ•g` (with `δ = (e'−e) s⁻¹`) is non-zero and has the same
x-coordinate as the nonce point -/
theorem ecdsa_reject_exact (xr : G → F) (g : G) (d k e e' : F) (hk : k ≠ 0)
    (hs : k⁻¹ * (e + xr (k • g) * d) ≠ 0) :
    let r := xr (k • g)
    let s := k⁻¹ * (e + r * d)
    ecdsaCore xr g (d • g) e' r s = true ↔
      r ≠ 0 ∧ k • g + ((e' - e) * s⁻¹) • g ≠ 0 ∧ xr (k • g + ((e' - e) * s⁻¹) • g) = r := by
  intro r s
  rw [ecdsaCore_iff, ecdsaPoint_honest g d k e e' r hk hs]
  exact ⟨fun h => ⟨h.1, h.2.2.1, h.2.2.2⟩, fun h => ⟨h.1, hs, h.2.1, h.2.2⟩⟩

/-- **exact rejection of a changed digest**: if the x-coordinate map identifies exactly `P` and `−P`, a
digest `e' ≠ e` is accepted iff the exact coincidence `((e'−e) s⁻¹)•g = −2R` holds (`R = k•g`) -/
theorem ecdsa_reject_digest (xr : G → F) (hxr : ∀ P, xr (-P) = xr P)
    (hx : ∀ P Q, xr P = xr Q → P = Q ∨ P = -Q) (g : G) (hg : ∀ a : F, a • g = 0 → a = 0)
    (d k e e' : F) (hk : k ≠ 0) (hs : k⁻¹ * (e + xr (k • g) * d) ≠ 0) (hr : xr (k • g) ≠ 0) (hne : e' ≠ e) :
    let r := xr (k • g)
    let s := k⁻¹ * (e + r * d)
    ecdsaCore xr g (d • g) e' r s = true ↔ ((e' - e) * s⁻¹) • g = -(k • g + k • g) := by
  intro r s
  have hR : k • g ≠ 0 := fun h => hk (hg k h)
  have hex : ecdsaCore xr g (d • g) e' r s = true ↔
      r ≠ 0 ∧ k • g + ((e' - e) * s⁻¹) • g ≠ 0 ∧ xr (k • g + ((e' - e) * s⁻¹) • g) = r :=
    ecdsa_reject_exact xr g d k e e' hk hs
  rw [hex]
  constructor
  · rintro ⟨_, _, h3⟩
    rcases hx _ _ h3 with h | h
    · exfalso
      have h0 : ((e' - e) * s⁻¹) • g = 0 := by
        have := congrArg (fun P => P - k • g) h
        simpa using this
      have := hg _ h0
      rcases mul_eq_zero.mp this with h | h
      · exact hne (sub_eq_zero.mp h)
      · exact hs (inv_eq_zero.mp h)
    · have := congrArg (fun P => P - k • g) h
      simp only [add_sub_cancel_left] at this
      rw [this]; abel
  · intro h
    have h2 : k • g + ((e' - e) * s⁻¹) • g = -(k • g) := by rw [h]; abel
    refine ⟨hr, ?_, ?_⟩
    · rw [h2]; exact neg_ne_zero.mpr hR
    · rw [h2, hxr]

/-! ### Adversarially constructed triples: the verifier is characterised exactly, and
"the recovered key equals the supplied key" is *not* a substitute for the verification equation -/

/-- **exact characterisation of `ecdsa.Verifier.Verify`** (default and strict, with or without a recovery
id): low-S when strict; when `v` is present the key recovered from `(r, s, v)` is the supplied key; and
the textbook equation `r, s ≠ 0`, `R = (e s⁻¹)•g + (r s⁻¹)•pk ≠ 0`, `x(R) = r` -/
theorem ecdsa_verify_iff (xr : G → F) (lift : F → Nat → Option G) (low : F → Bool) (strict : Bool)
    (g pk : G) (e r s : F) (v : Option Nat) :
    ecdsaVerify xr lift low strict g pk e (r, s, v) = true ↔
      (strict = true → low s = true) ∧
      (∀ v', v = some v' → ecdsaRecover lift g e r s v' = some pk) ∧
      r ≠ 0 ∧ s ≠ 0 ∧ ecdsaPoint g pk e r s ≠ 0 ∧ xr (ecdsaPoint g pk e r s) = r := by
  cases v with
  | none => cases strict <;> simp [ecdsaVerify, ecdsaCore_iff, and_assoc]
  | some v' => cases strict <;> simp [ecdsaVerify, ecdsaCore_iff, and_assoc]

/-- the point the verifier recomputes under the *recovered* key is the lifted point itself -/
theorem ecdsaPoint_recover (g R : G) (e r s : F) (hr : r ≠ 0) (hs : s ≠ 0) :
    ecdsaPoint g ((r⁻¹ * s) • R + -((r⁻¹ * e) • g)) e r s = R := by
  unfold ecdsaPoint
  have h : (e * s⁻¹) • g + (r * s⁻¹) • ((r⁻¹ * s) • R + -((r⁻¹ * e) • g)) =
      ((e * s⁻¹) - (r * s⁻¹ * r⁻¹ * e)) • g + (r * s⁻¹ * r⁻¹ * s) • R := by module
  rw [h]
  have h1 : r * s⁻¹ * r⁻¹ * s = 1 := by field_simp
  have h2 : e * s⁻¹ - r * s⁻¹ * r⁻¹ * e = 0 := by field_simp; ring
  rw [h1, h2, zero_smul, one_smul, zero_add]

/-- **recover, then verify — without x-overflow wrap.**  If the point `R` lifted from `(r, v)` is non-zero
and its x-coordinate reduces to `r` (for `v ∈ {0,1}`: always; for `v ∈ {2,3}`: exactly when
`r + n < p`, see `x_nowrap`), then `(r, s, v)` is a valid signature under the key recovered from it: the
default verifier accepts it with and without the recovery id -/
theorem recover_then_verify (xr : G → F) (lift : F → Nat → Option G) (low : F → Bool) (g R : G)
    (e r s : F) (v : Nat) (hr : r ≠ 0) (hs : s ≠ 0) (hl : lift r v = some R) (hR : R ≠ 0) (hx : xr R = r) :
    ∃ Q, ecdsaRecover lift g e r s v = some Q ∧
      ecdsaCore xr g Q e r s = true ∧
      ecdsaVerify xr lift low false g Q e (r, s, some v) = true ∧
      ecdsaVerify xr lift low false g Q e (r, s, none) = true := by
  have hrec : ecdsaRecover lift g e r s v = some ((r⁻¹ * s) • R + -((r⁻¹ * e) • g)) := by
    simp only [ecdsaRecover, hl, Option.map_some]
  refine ⟨(r⁻¹ * s) • R + -((r⁻¹ * e) • g), hrec, ?_⟩
  have hc : ecdsaCore xr g ((r⁻¹ * s) • R + -((r⁻¹ * e) • g)) e r s = true := by
    rw [ecdsaCore_iff, ecdsaPoint_recover g R e r s hr hs]
    exact ⟨hr, hs, hR, hx⟩
  refine ⟨hc, ?_, ?_⟩
  · rw [ecdsa_verify_iff]
    rw [ecdsaCore_iff] at hc
    exact ⟨fun h => Bool.noConfusion h, fun v' hv => by cases hv; exact hrec, hc⟩
  · rw [ecdsa_verify_iff]
    rw [ecdsaCore_iff] at hc
    exact ⟨fun h => Bool.noConfusion h, fun _ hv => by simp at hv, hc⟩

/-- **equality of the recovered key alone does not imply validity.**  If the x-coordinate of the lifted
point does *not* reduce to `r` (the x-overflow bit is set and `r + n` wraps around `p`, see `x_wrap_ne`),
the key `Q` recovered from `(r, s, v)` trivially "matches", yet `(r, s)` is not a signature under `Q`:
the equation fails, and the verifier — with or without `v` — must reject.  A verifier that returns
success as soon as the recovered key equals the supplied one accepts a triple anyone can fabricate. -/
theorem ecdsa_recover_eq_not_sufficient (xr : G → F) (lift : F → Nat → Option G) (low : F → Bool)
    (strict : Bool) (g R : G) (e r s : F) (v : Nat) (hr : r ≠ 0) (hs : s ≠ 0)
    (hl : lift r v = some R) (hx : xr R ≠ r) :
    ∃ Q, ecdsaRecover lift g e r s v = some Q ∧
      ecdsaCore xr g Q e r s = false ∧
      ecdsaVerify xr lift low strict g Q e (r, s, some v) = false ∧
      ecdsaVerify xr lift low strict g Q e (r, s, none) = false := by
  have hrec : ecdsaRecover lift g e r s v = some ((r⁻¹ * s) • R + -((r⁻¹ * e) • g)) := by
    simp only [ecdsaRecover, hl, Option.map_some]
  refine ⟨(r⁻¹ * s) • R + -((r⁻¹ * e) • g), hrec, ?_⟩
  have hcP : ¬ (r ≠ 0 ∧ s ≠ 0 ∧ ecdsaPoint g ((r⁻¹ * s) • R + -((r⁻¹ * e) • g)) e r s ≠ 0 ∧
      xr (ecdsaPoint g ((r⁻¹ * s) • R + -((r⁻¹ * e) • g)) e r s) = r) := by
    rw [ecdsaPoint_recover g R e r s hr hs]
    exact fun h => hx h.2.2.2
  refine ⟨?_, ?_, ?_⟩
  · rw [Bool.eq_false_iff, Ne, ecdsaCore_iff]; exact hcP
  · rw [Bool.eq_false_iff, Ne, ecdsa_verify_iff]; exact fun h => hcP h.2.2
  · rw [Bool.eq_false_iff, Ne, ecdsa_verify_iff]; exact fun h => hcP h.2.2

/-- what the driver's `ecdsa.forge` handler expects of the library (`Sig.ecdsaForge`) is the model verifier:
under the recovered key `Q` the default verifier returns the textbook verdict `c` with and without `v`,
the strict verifier `low s ∧ c` -/
theorem ecdsaForge_spec (xr : G → F) (lift : F → Nat → Option G) (low : F → Bool) (g : G) (e r s : F)
    (v : Nat) (Q : G) (c cs : Bool) (h : ecdsaForge xr lift low g e r s v = some (Q, c, cs)) :
    ecdsaRecover lift g e r s v = some Q ∧
    c = ecdsaCore xr g Q e r s ∧
    ecdsaVerify xr lift low false g Q e (r, s, some v) = c ∧
    ecdsaVerify xr lift low false g Q e (r, s, none) = c ∧
    ecdsaVerify xr lift low true g Q e (r, s, some v) = cs ∧
    ecdsaVerify xr lift low true g Q e (r, s, none) = cs := by
  unfold ecdsaForge at h
  cases hrec : ecdsaRecover lift g e r s v with
  | none => simp [hrec] at h
  | some Q' =>
    simp only [hrec, Option.map_some, Option.some.injEq, Prod.mk.injEq] at h
    obtain ⟨rfl, rfl, rfl⟩ := h
    simp [ecdsaVerify, hrec]

/-- a signature that carries a recovery id is rejected under every key other than the recovered one -/
theorem ecdsa_verify_other_key (xr : G → F) (lift : F → Nat → Option G) (low : F → Bool) (strict : Bool)
    (g Q pk : G) (e r s : F) (v : Nat) (h : ecdsaRecover lift g e r s v = some Q) (hne : pk ≠ Q) :
    ecdsaVerify xr lift low strict g pk e (r, s, some v) = false := by
  have : ¬ (Q = pk) := fun h' => hne h'.symm
  simp [ecdsaVerify, h, this]

/-- **no wrap**: for `r < n` and `r + j·n < p` the base-field element `r + j·n` *is* the integer `r + j·n`,
and it reduces to `r` modulo `n` (`j = 1`: the x-overflow bit of the recovery id) -/
theorem x_nowrap (p n r j : ℕ) (hr : r < n) (hlt : r + j * n < p) : (r + j * n) % p % n = r := by
  rw [Nat.mod_eq_of_lt hlt, Nat.add_mul_mod_self_right, Nat.mod_eq_of_lt hr]

/-- **wrap**: for `r < n < p ≤ r + n` the base-field element `r + n` is the integer `r + n − p`, which is
below `n` and different from `r`: the x-coordinate used by `RecoverPublicKey` does not reduce to `r` -/
theorem x_wrap_ne (p n r : ℕ) (hr : r < n) (hnp : n < p) (hge : p ≤ r + n) : (r + n) % p % n ≠ r := by
  have h1 : (r + n) % p = r + n - p := by
    rw [Nat.mod_eq_sub_mod hge, Nat.mod_eq_of_lt (by omega)]
  have h2 : r + n - p < n := by omega
  rw [h1, Nat.mod_eq_of_lt h2]
  omega

/-! ## Schnorr family -/

theorem schnorrVerify_iff (tf : G → Bool) (neg : Bool) (g pk R : G) (e s : F) :
    schnorrVerify tf neg g pk R e s = true ↔
      pk ≠ 0 ∧ s ≠ 0 ∧ R ≠ 0 ∧ tf R = true ∧ s • g = R + (if neg then -(e • pk) else e • pk) := by
  simp [schnorrVerify, and_assoc]

/-- **sign ⇒ verify** (configurable Schnorr / Mina): `R = k•g`, `s = k ± e x` verifies under `x•g` -/
theorem schnorr_sign_verify (tf : G → Bool) (neg : Bool) (g : G) (hg : ∀ a : F, a • g = 0 → a = 0)
    (x k e : F) (hx : x ≠ 0) (hk : k ≠ 0) (hs : schnorrResponse neg x k e ≠ 0) (htf : tf (k • g) = true) :
    schnorrVerify tf neg g (x • g) (k • g) e (schnorrResponse neg x k e) = true := by
  rw [schnorrVerify_iff]
  refine ⟨fun h => hx (hg x h), hs, fun h => hk (hg k h), htf, ?_⟩
  unfold schnorrResponse
  cases neg <;> simp <;> module

/-- **any other `s` is rejected** -/
theorem schnorr_reject_s (tf : G → Bool) (neg : Bool) (g : G) (hg : ∀ a : F, a • g = 0 → a = 0)
    (pk R : G) (e s s' : F) (h : schnorrVerify tf neg g pk R e s = true) (hne : s' ≠ s) :
    schnorrVerify tf neg g pk R e s' = false := by
  rw [Bool.eq_false_iff]
  intro h'
  rw [schnorrVerify_iff] at h h'
  have : (s' - s) • g = 0 := by rw [sub_smul, h.2.2.2.2, h'.2.2.2.2, sub_self]
  exact hne (sub_eq_zero.mp (hg _ this))

/-- **a changed message is rejected** when the challenge hash is injective on the framed inputs that occur -/
theorem schnorr_reject_m {M : Type} (H : G × G × M → F) (S : Set (G × G × M)) (hH : Set.InjOn H S)
    (tf : G → Bool) (neg : Bool) (g : G) (hg : ∀ a : F, a • g = 0 → a = 0) (x : F) (hx : x ≠ 0)
    (R : G) (s : F) (m m' : M) (hm : (R, x • g, m) ∈ S) (hm' : (R, x • g, m') ∈ S) (hne : m' ≠ m)
    (h : schnorrVerify tf neg g (x • g) R (H (R, x • g, m)) s = true) :
    schnorrVerify tf neg g (x • g) R (H (R, x • g, m')) s = false := by
  rw [Bool.eq_false_iff]
  intro h'
  rw [schnorrVerify_iff] at h h'
  have e1 := h.2.2.2.2
  have e2 := h'.2.2.2.2
  rw [e1] at e2
  have hsm : (H (R, x • g, m) - H (R, x • g, m')) • (x • g) = 0 := by
    cases neg
    · simp only [Bool.false_eq_true, if_false] at e2
      rw [sub_smul, add_left_cancel e2, sub_self]
    · simp only [if_true] at e2
      rw [sub_smul, neg_injective (add_left_cancel e2), sub_self]
  rw [smul_smul] at hsm
  have := hg _ hsm
  rcases mul_eq_zero.mp this with h0 | h0
  · have := hH hm hm' (sub_eq_zero.mp h0)
    exact hne (by simpa using this.symm)
  · exact hx h0

/-- **a changed `R` with the same `s`**: accepted exactly on the explicit coincidence
`R' ± e'•pk = R ± e•pk`; with a challenge that is injective on the occurring inputs `e' ≠ e`, so this
is a non-trivial relation between `R'` and its own hash (excluded only in the random-oracle model —
not formalised) -/
theorem schnorr_reject_R {M : Type} (H : G × G × M → F) (S : Set (G × G × M)) (hH : Set.InjOn H S)
    (tf : G → Bool) (neg : Bool) (g pk R R' : G) (s : F) (m : M)
    (hm : (R, pk, m) ∈ S) (hm' : (R', pk, m) ∈ S) (hne : R' ≠ R)
    (h : schnorrVerify tf neg g pk R (H (R, pk, m)) s = true) :
    H (R', pk, m) ≠ H (R, pk, m) ∧
    (schnorrVerify tf neg g pk R' (H (R', pk, m)) s = true ↔
      R' ≠ 0 ∧ tf R' = true ∧
        R' + (if neg then -(H (R', pk, m) • pk) else H (R', pk, m) • pk) =
          R + (if neg then -(H (R, pk, m) • pk) else H (R, pk, m) • pk)) := by
  rw [schnorrVerify_iff] at h
  refine ⟨fun he => hne (by simpa using (hH hm' hm he)), ?_⟩
  rw [schnorrVerify_iff, h.2.2.2.2]
  exact ⟨fun h' => ⟨h'.2.2.1, h'.2.2.2.1, h'.2.2.2.2.symm⟩, fun h' => ⟨h.1, h.2.1, h'.1, h'.2.1, h'.2.2.symm⟩⟩

/-- **a changed key**: accepted exactly on the coincidence `e'•pk' = e•pk` (with `e' ≠ e` under `InjOn`) -/
theorem schnorr_reject_pk {M : Type} (H : G × G × M → F) (S : Set (G × G × M)) (hH : Set.InjOn H S)
    (tf : G → Bool) (neg : Bool) (g pk pk' R : G) (s : F) (m : M)
    (hm : (R, pk, m) ∈ S) (hm' : (R, pk', m) ∈ S) (hne : pk' ≠ pk)
    (h : schnorrVerify tf neg g pk R (H (R, pk, m)) s = true) :
    H (R, pk', m) ≠ H (R, pk, m) ∧
    (schnorrVerify tf neg g pk' R (H (R, pk', m)) s = true ↔
      pk' ≠ 0 ∧ H (R, pk', m) • pk' = H (R, pk, m) • pk) := by
  rw [schnorrVerify_iff] at h
  refine ⟨fun he => hne (by simpa using (hH hm' hm he)), ?_⟩
  rw [schnorrVerify_iff, h.2.2.2.2]
  cases neg
  · simp only [Bool.false_eq_true, if_false]
    exact ⟨fun h' => ⟨h'.1, (add_left_cancel h'.2.2.2.2).symm⟩,
      fun h' => ⟨h'.1, h.2.1, h.2.2.1, h.2.2.2.1, by rw [h'.2]⟩⟩
  · simp only [if_true]
    exact ⟨fun h' => ⟨h'.1, (neg_injective (add_left_cancel h'.2.2.2.2)).symm⟩,
      fun h' => ⟨h'.1, h.2.1, h.2.2.1, h.2.2.2.1, by rw [h'.2]⟩⟩

/-! ### Adversarially constructed Schnorr signatures -/

/-- **forgery attempt without the secret key.**  For freely chosen `s`, `e'` the commitment
`R = schnorrCraftR … e' s` satisfies the verification equation *for the challenge `e'`*; a verifier that
recomputes the challenge `e` accepts exactly when `(e − e')•pk = 0`, i.e. (prime order, `pk = x•g`,
`x ≠ 0`) when the hash of the fabricated `R` happens to be `e'` -/
theorem schnorr_crafted_iff (tf : G → Bool) (neg : Bool) (g : G) (hg : ∀ a : F, a • g = 0 → a = 0)
    (x : F) (hx : x ≠ 0) (e e' s : F) :
    schnorrVerify tf neg g (x • g) (schnorrCraftR neg g (x • g) e' s) e s = true ↔
      s ≠ 0 ∧ schnorrCraftR neg g (x • g) e' s ≠ 0 ∧ tf (schnorrCraftR neg g (x • g) e' s) = true ∧ e = e' := by
  rw [schnorrVerify_iff]
  have key : (s • g = schnorrCraftR neg g (x • g) e' s + (if neg then -(e • x • g) else e • x • g)) ↔ e = e' := by
    unfold schnorrCraftR
    constructor
    · intro h
      have h0 : ((e - e') * x) • g = 0 := by
        cases neg
        · simp only [Bool.false_eq_true, if_false] at h
          have : ((e - e') * x) • g = (s • g + -(e' • x • g) + e • x • g) - s • g := by module
          rw [this, ← h, sub_self]
        · simp only [if_true] at h
          have : ((e - e') * x) • g = -((s • g + e' • x • g + -(e • x • g)) - s • g) := by module
          rw [this, ← h, sub_self, neg_zero]
      rcases mul_eq_zero.mp (hg _ h0) with h1 | h1
      · exact sub_eq_zero.mp h1
      · exact absurd h1 hx
    · rintro rfl
      cases neg <;> simp
  constructor
  · rintro ⟨_, h2, h3, h4, h5⟩
    exact ⟨h2, h3, h4, key.mp h5⟩
  · rintro ⟨h2, h3, h4, h5⟩
    exact ⟨fun h => hx (hg x h), h2, h3, h4, key.mpr h5⟩

/-- **the other response sign is rejected**: a signature made for `s = k ± e x` passes the verifier
configured with the opposite sign only if `(e + e) x = 0` (characteristic ≠ 2: `e = 0`) -/
theorem schnorr_wrong_sign (tf : G → Bool) (neg : Bool) (g : G) (hg : ∀ a : F, a • g = 0 → a = 0)
    (x k e : F) (hx : x ≠ 0)
    (h : schnorrVerify tf (!neg) g (x • g) (k • g) e (schnorrResponse neg x k e) = true) :
    e + e = 0 := by
  rw [schnorrVerify_iff] at h
  have h5 := h.2.2.2.2
  unfold schnorrResponse at h5
  have h0 : ((e + e) * x) • g = 0 := by
    cases neg
    · simp only [Bool.not_false, if_true, Bool.false_eq_true, if_false] at h5
      have : ((e + e) * x) • g = (k + e * x) • g - (k • g + -(e • x • g)) := by module
      rw [this, h5, sub_self]
    · simp only [Bool.not_true, Bool.false_eq_true, if_false, if_true] at h5
      have : ((e + e) * x) • g = -((k + -(e * x)) • g - (k • g + e • x • g)) := by module
      rw [this, h5, sub_self, neg_zero]
  rcases mul_eq_zero.mp (hg _ h0) with h1 | h1
  · exact h1
  · exact absurd h1 hx

/-! ### BIP-340 (x-only keys and nonces, even-y rules) -/

theorem bip340Verify_iff {X : Type} [DecidableEq X] (x : G → X) (evenY : G → Bool) (g pk R : G) (e s : F) :
    bip340Verify x evenY g pk R e s = true ↔
      pk ≠ 0 ∧ R ≠ 0 ∧ s ≠ 0 ∧ bip340Point evenY g pk e s ≠ 0 ∧
        evenY (bip340Point evenY g pk e s) = true ∧ x (bip340Point evenY g pk e s) = x R := by
  simp [bip340Verify, and_assoc]

theorem liftEven_smul (evenY : G → Bool) (g : G) (d : F) :
    liftEven evenY (d • g) = evenScalar evenY g d • g := by
  unfold liftEven evenScalar
  by_cases h : evenY (d • g) = true <;> simp [h]

theorem evenY_evenScalar (evenY : G → Bool) (hpar : ∀ P : G, P ≠ 0 → evenY (-P) = !evenY P)
    (g : G) (hg : ∀ a : F, a • g = 0 → a = 0) (k : F) (hk : k ≠ 0) :
    evenY (evenScalar evenY g k • g) = true := by
  unfold evenScalar
  by_cases h : evenY (k • g) = true
  · simp [h]
  · have hne : k • g ≠ 0 := fun h0 => hk (hg k h0)
    rw [if_neg h, neg_smul, hpar _ hne]
    simpa using h

/-- **sign ⇒ verify with the parity rules**: `bip340Sign` negates the secret / the nonce so that `P` and
`R` have even y; the result verifies under the (un-normalised) public key `d'•g`, and `R` is even -/
theorem schnorr_sign_verify_bip340 {X : Type} [DecidableEq X] (x : G → X) (evenY : G → Bool)
    (hpar : ∀ P : G, P ≠ 0 → evenY (-P) = !evenY P) (g : G) (hg : ∀ a : F, a • g = 0 → a = 0)
    (d' k' : F) (chal : G → G → F) (hd : d' ≠ 0) (hk : k' ≠ 0)
    (hs : (bip340Sign evenY g d' k' chal).2 ≠ 0) :
    let sig := bip340Sign evenY g d' k' chal
    evenY sig.1 = true ∧
    bip340Verify x evenY g (d' • g) sig.1 (chal sig.1 (liftEven evenY (d' • g))) sig.2 = true := by
  intro sig
  have hk2 : evenScalar evenY g k' ≠ 0 := by
    unfold evenScalar; split <;> simp [hk]
  have hR : evenY (evenScalar evenY g k' • g) = true := evenY_evenScalar evenY hpar g hg k' hk
  refine ⟨hR, ?_⟩
  rw [bip340Verify_iff]
  have hpt : bip340Point evenY g (d' • g) (chal sig.1 (liftEven evenY (d' • g))) sig.2 = sig.1 := by
    simp only [sig, bip340Sign, bip340Point, liftEven_smul]
    module
  rw [hpt]
  refine ⟨fun h => hd (hg d' h), fun h => hk2 (hg _ h), hs, fun h => hk2 (hg _ h), hR, rfl⟩

/-- **any other `s` is rejected** (BIP-340): x-coordinate plus parity determine the point -/
theorem schnorr_reject_s_bip340 {X : Type} [DecidableEq X] (x : G → X) (evenY : G → Bool)
    (hx : ∀ P Q : G, x P = x Q → evenY P = evenY Q → P = Q) (g : G) (hg : ∀ a : F, a • g = 0 → a = 0)
    (pk R : G) (e s s' : F) (h : bip340Verify x evenY g pk R e s = true) (hne : s' ≠ s) :
    bip340Verify x evenY g pk R e s' = false := by
  rw [Bool.eq_false_iff]
  intro h'
  rw [bip340Verify_iff] at h h'
  have := hx _ _ (h'.2.2.2.2.2.trans h.2.2.2.2.2.symm) (h'.2.2.2.2.1.trans h.2.2.2.2.1.symm)
  unfold bip340Point at this
  have h0 : (s' - s) • g = 0 := by rw [sub_smul, add_right_cancel this, sub_self]
  exact hne (sub_eq_zero.mp (hg _ h0))

/-- **BIP-340 nonce parity rule**: a signature computed as `s = k + e d` from a nonce whose point `k•g`
has odd y — i.e. without the negation step of the signing algorithm — is rejected, although it satisfies
the plain Schnorr equation (`d•g` is the even-y key the verifier lifts to) -/
theorem bip340_reject_odd_nonce {X : Type} [DecidableEq X] (x : G → X) (evenY : G → Bool) (g R : G)
    (d k e : F) (hP : evenY (d • g) = true) (hodd : evenY (k • g) = false) :
    bip340Point evenY g (d • g) e (k + e * d) = k • g ∧
    bip340Verify x evenY g (d • g) R e (k + e * d) = false := by
  have hpt : bip340Point evenY g (d • g) e (k + e * d) = k • g := by
    unfold bip340Point liftEven
    rw [if_pos hP]
    module
  refine ⟨hpt, ?_⟩
  rw [Bool.eq_false_iff, Ne, bip340Verify_iff, hpt, hodd]
  simp

/-- x-only semantics: `−pk` is the same BIP-340 key (the verifier lifts to even y) -/
theorem bip340_neg_key {X : Type} [DecidableEq X] (x : G → X) (evenY : G → Bool)
    (hpar : ∀ P : G, P ≠ 0 → evenY (-P) = !evenY P) (g pk R : G) (e s : F) :
    bip340Verify x evenY g (-pk) R e s = bip340Verify x evenY g pk R e s := by
  by_cases h0 : pk = 0
  · simp [h0]
  · have hl : liftEven evenY (-pk) = liftEven evenY pk := by
      unfold liftEven
      rw [hpar pk h0]
      by_cases h : evenY pk = true <;> simp [h]
    rw [Bool.eq_iff_iff, bip340Verify_iff, bip340Verify_iff]
    unfold bip340Point
    rw [hl]
    simp [h0]

/-! ## BLS with an abstract non-degenerate bilinear map -/

section BLS
variable {K S T : Type} [AddCommGroup K] [Module F K] [AddCommGroup S] [Module F S]
  [AddCommGroup T] [Module F T]

/-- the pairing equation of `coreVerify`: `e(pk, H(m)) = e(g, σ)` -/
def blsVerify (B : K →ₗ[F] S →ₗ[F] T) (gK pk : K) (hm σ : S) : Prop := B pk hm = B gK σ

/-- the pairing equation of `coreAggregateVerify`: `∏ e(pkᵢ, H(mᵢ)) = e(g, σ)` (additive notation) -/
def blsAggVerify {n : ℕ} (B : K →ₗ[F] S →ₗ[F] T) (gK : K) (pk : Fin n → K) (hm : Fin n → S) (σ : S) : Prop :=
  ∑ i, B (pk i) (hm i) = B gK σ

/-- **verify ⇔ σ = sk • H(m)** for a pairing that is non-degenerate at the key-group generator -/
theorem bls_verify_iff (B : K →ₗ[F] S →ₗ[F] T) (gK : K) (hB : ∀ y : S, B gK y = 0 → y = 0)
    (sk : F) (hm σ : S) :
    blsVerify B gK (sk • gK) hm σ ↔ σ = blsSign sk hm := by
  unfold blsVerify blsSign
  rw [map_smul, LinearMap.smul_apply, ← map_smul]
  constructor
  · intro h
    have : B gK (sk • hm - σ) = 0 := by rw [map_sub, h, sub_self]
    exact (sub_eq_zero.mp (hB _ this)).symm
  · rintro rfl; rfl

/-- **aggregate verify ⇔ σ = Σ skᵢ • H(mᵢ)**; hence an aggregate with a missing or foreign contribution
(a different sum) is rejected and the honest aggregate `Σ σᵢ` is accepted -/
theorem bls_aggregate_iff {n : ℕ} (B : K →ₗ[F] S →ₗ[F] T) (gK : K) (hB : ∀ y : S, B gK y = 0 → y = 0)
    (sk : Fin n → F) (hm : Fin n → S) (σ : S) :
    blsAggVerify B gK (fun i => sk i • gK) hm σ ↔ σ = ∑ i, blsSign (sk i) (hm i) := by
  unfold blsAggVerify blsSign
  have : ∑ i, B (sk i • gK) (hm i) = B gK (∑ i, sk i • hm i) := by
    rw [map_sum]
    refine Finset.sum_congr rfl fun i _ => ?_
    rw [map_smul, LinearMap.smul_apply, ← map_smul]
  rw [this]
  constructor
  · intro h
    have : B gK (∑ i, sk i • hm i - σ) = 0 := by rw [map_sub, h, sub_self]
    exact (sub_eq_zero.mp (hB _ this)).symm
  · rintro rfl; rfl

/-- fast aggregate verification (one message, aggregated key `Σ pkᵢ`) accepts exactly `(Σ skᵢ) • H(m)` -/
theorem bls_fast_aggregate_iff {n : ℕ} (B : K →ₗ[F] S →ₗ[F] T) (gK : K) (hB : ∀ y : S, B gK y = 0 → y = 0)
    (sk : Fin n → F) (hm σ : S) :
    blsVerify B gK (∑ i, sk i • gK) hm σ ↔ σ = ∑ i, blsSign (sk i) hm := by
  rw [← Finset.sum_smul, bls_verify_iff B gK hB]
  unfold blsSign
  rw [Finset.sum_smul]

/-- **proof of possession**: `PopVerify(pk, π)` ⇔ `π = sk • H_pop(pk)` -/
theorem bls_pop (B : K →ₗ[F] S →ₗ[F] T) (gK : K) (hB : ∀ y : S, B gK y = 0 → y = 0)
    (Hpop : K → S) (sk : F) (π : S) :
    blsVerify B gK (sk • gK) (Hpop (sk • gK)) π ↔ π = blsSign sk (Hpop (sk • gK)) :=
  bls_verify_iff B gK hB sk _ π

/-- **a signature for another hash point** (another message, another domain-separation tag, the
proof-of-possession tag, a missing or foreign key prefix) verifies iff `sk • (h' − h) = 0`; for a
non-zero key over a field: iff the two hash points coincide -/
theorem bls_verify_other_point (B : K →ₗ[F] S →ₗ[F] T) (gK : K) (hB : ∀ y : S, B gK y = 0 → y = 0)
    (sk : F) (hsk : sk ≠ 0) (hm hm' : S) :
    blsVerify B gK (sk • gK) hm (blsSign sk hm') ↔ hm' = hm := by
  rw [bls_verify_iff B gK hB]
  unfold blsSign
  constructor
  · intro h
    have h0 : sk • (hm' - hm) = 0 := by rw [smul_sub, h, sub_self]
    rcases smul_eq_zero.mp h0 with h1 | h1
    · exact absurd h1 hsk
    · exact sub_eq_zero.mp h1
  · rintro rfl; rfl

/-- **rogue key**: for `pk₂ = x•g − pk₁` the forged `σ = x•H(m)` satisfies the *fast* aggregate equation
`e(pk₁ + pk₂, H(m)) = e(g, σ)` — which is why that equation is only used behind proofs of possession
(and why the basic scheme demands distinct messages and the augmented scheme hashes `pk ‖ m`) -/
theorem bls_rogue_key_fast_aggregate (B : K →ₗ[F] S →ₗ[F] T) (gK : K) (a x : F) (hm : S) :
    blsVerify B gK (a • gK + (x - a) • gK) hm (blsSign x hm) := by
  have : a • gK + (x - a) • gK = x • gK := by module
  rw [this]
  unfold blsVerify blsSign
  rw [map_smul, LinearMap.smul_apply, ← map_smul]

/-- … and with per-signer hash points (message augmentation) the same forgery is accepted only on the
coincidence `a•h₁ + (x−a)•h₂ = x•h` -/
theorem bls_rogue_key_aggregate_iff (B : K →ₗ[F] S →ₗ[F] T) (gK : K) (hB : ∀ y : S, B gK y = 0 → y = 0)
    (a x : F) (h h₁ h₂ : S) :
    blsAggVerify B gK (fun i : Fin 2 => (![a, x - a] i) • gK) ![h₁, h₂] (blsSign x h) ↔
      x • h = a • h₁ + (x - a) • h₂ := by
  rw [bls_aggregate_iff B gK hB]
  simp [blsSign, Fin.sum_univ_two]

/-- the executable aggregation (`foldl (+) 0`) is the sum -/
theorem blsAggregate_eq_sum (xs : List S) : blsAggregate xs = xs.sum := by
  unfold blsAggregate
  have : ∀ (acc : S) (l : List S), l.foldl (· + ·) acc = acc + l.sum := by
    intro acc l
    induction l generalizing acc with
    | nil => simp
    | cons a t ih => simp [ih, add_assoc]
  simpa using this 0 xs

end BLS

/-! ## Non-vacuity: the hypotheses are satisfiable (scalars `ℚ` acting on `ℚ`, generator `1`) -/

example : ecdsaCore (id : ℚ → ℚ) 1 ((2 : ℚ) • (1 : ℚ)) 5 (ecdsaSign id (1 : ℚ) 2 3 5).1 (ecdsaSign id (1 : ℚ) 2 3 5).2 = true :=
  ecdsa_sign_verify id 1 (by intro a h; simpa using h) 2 3 5 (by norm_num)
    (by norm_num [ecdsaSign]) (by norm_num [ecdsaSign])

example : ecdsaRecover (fun (r : ℚ) _ => some r) (1 : ℚ) 5 3 ((3 : ℚ)⁻¹ * (5 + 3 * 2)) 0 = some ((2 : ℚ) • (1 : ℚ)) :=
  ecdsa_recover _ 1 2 3 5 3 0 (by norm_num) (by norm_num) (by simp)

example : schnorrVerify (fun _ => true) false (1 : ℚ) ((2 : ℚ) • (1 : ℚ)) ((3 : ℚ) • (1 : ℚ)) 5 (schnorrResponse false (2 : ℚ) 3 5) = true :=
  schnorr_sign_verify _ false 1 (by intro a h; simpa using h) 2 3 5 (by norm_num) (by norm_num)
    (by norm_num [schnorrResponse]) rfl

/-- crafted triple, no wrap (`xr = id`, `lift r v = r`): the recovered key verifies -/
example : ∃ Q, ecdsaRecover (fun (r : ℚ) _ => some r) (1 : ℚ) 5 3 7 2 = some Q ∧
    ecdsaCore (id : ℚ → ℚ) 1 Q 5 3 7 = true ∧
    ecdsaVerify id (fun (r : ℚ) _ => some r) (fun _ => true) false 1 Q 5 (3, 7, some 2) = true ∧
    ecdsaVerify id (fun (r : ℚ) _ => some r) (fun _ => true) false 1 Q 5 (3, 7, none) = true :=
  recover_then_verify id _ _ 1 3 5 3 7 2 (by norm_num) (by norm_num) rfl (by norm_num) rfl

/-- crafted triple, with wrap (the lifted point is `r + 1`, whose "x-coordinate" is not `r`): the recovered
key matches by construction and the signature is invalid -/
example : ∃ Q, ecdsaRecover (fun (r : ℚ) _ => some (r + 1)) (1 : ℚ) 5 3 7 2 = some Q ∧
    ecdsaCore (id : ℚ → ℚ) 1 Q 5 3 7 = false ∧
    ecdsaVerify id (fun (r : ℚ) _ => some (r + 1)) (fun _ => true) false 1 Q 5 (3, 7, some 2) = false ∧
    ecdsaVerify id (fun (r : ℚ) _ => some (r + 1)) (fun _ => true) false 1 Q 5 (3, 7, none) = false :=
  ecdsa_recover_eq_not_sufficient id _ _ false 1 (3 + 1) 5 3 7 2 (by norm_num) (by norm_num) rfl (by norm_num)

/-- secp256k1-shaped toy numbers: `n = 11 < p = 13`; `r = 1` does not wrap, `r = 5` does (`16 mod 13 = 3`) -/
example : (1 + 1 * 11) % 13 % 11 = 1 := x_nowrap 13 11 1 1 (by norm_num) (by norm_num)
example : (5 + 11) % 13 % 11 ≠ 5 := x_wrap_ne 13 11 5 (by norm_num) (by norm_num) (by norm_num)

example : ecdsaVerify (id : ℚ → ℚ) (fun (r : ℚ) _ => some r) (fun _ => true) false 1 (9 : ℚ) 5 (3, 7, some 0) = false :=
  ecdsa_verify_other_key id _ _ false 1 (3⁻¹ * 7 * 3 + -(3⁻¹ * 5 * 1)) 9 5 3 7 0 (by simp [ecdsaRecover]) (by norm_num)

/-- a fabricated commitment is accepted only if the recomputed challenge equals the chosen one -/
example : schnorrVerify (fun _ => true) false (1 : ℚ) ((2 : ℚ) • (1 : ℚ))
    (schnorrCraftR false (1 : ℚ) ((2 : ℚ) • (1 : ℚ)) 3 11) 4 11 = false := by
  have h := schnorr_crafted_iff (F := ℚ) (G := ℚ) (fun _ => true) false 1 (by intro a h; simpa using h) 2
    (by norm_num) 4 3 11
  rw [Bool.eq_false_iff]
  intro h'
  have := (h.mp h').2.2.2
  norm_num at this

example : bip340Verify (id : ℚ → ℚ) (fun P => decide (0 ≤ P)) (1 : ℚ) ((2 : ℚ) • (1 : ℚ)) (-3) (5 : ℚ) (-3 + 5 * 2) = false :=
  (bip340_reject_odd_nonce (F := ℚ) (G := ℚ) id (fun P => decide (0 ≤ P)) 1 (-3) 2 (-3) 5 (by norm_num) (by norm_num)).2

example : ¬ blsVerify (LinearMap.mul ℚ ℚ) (1 : ℚ) ((2 : ℚ) • (1 : ℚ)) 7 (blsSign (2 : ℚ) (8 : ℚ)) := by
  rw [bls_verify_other_point (LinearMap.mul ℚ ℚ) 1 (by intro y h; simpa using h) 2 (by norm_num)]
  norm_num

/-- BLS: `B x y = x * y` on `ℚ` is bilinear and non-degenerate at `1` -/
example : blsVerify (LinearMap.mul ℚ ℚ) (1 : ℚ) ((2 : ℚ) • (1 : ℚ)) 7 (blsSign (2 : ℚ) (7 : ℚ)) :=
  (bls_verify_iff (LinearMap.mul ℚ ℚ) 1 (by intro y h; simpa using h) 2 7 _).mpr rfl

end BronVerif.Props.C15
