import Mathlib.Data.Matrix.Mul
import Mathlib.Algebra.Module.BigOperators
import Mathlib.Algebra.BigOperators.Group.Finset.Basic
import Mathlib.Algebra.Field.Defs
import Mathlib.Algebra.Field.Rat
import Mathlib.Algebra.Module.Rat
import Mathlib.LinearAlgebra.Matrix.Notation
import Mathlib.Tactic.Abel
import Mathlib.Tactic.FinCases
import Mathlib.Tactic.NormNum
/-!
# C03 — key generation ends with one consistent, reconstructible key (property theorems)

Pure-Mathlib statements over an arbitrary field `F`, an arbitrary `F`-module `G` (the group, written
additively), an MSP matrix `M : Matrix ρ δ F` of any shape with distinguished target column `z`, and
any finite set of dealers `ι`.  The executable relations of `Model/SignAlg.lean`
(`vvSum`, `shareLiftOk`, `reconstruct`) evaluate exactly these equations with lists for `ρ`, `δ`
and `Model/LinAlg.solveLeft` supplying the coefficient vector `c`.
-/
namespace BronVerif.Props.C03
open BigOperators Matrix

variable {F G ρ δ ι : Type*} [Field F] [AddCommGroup G] [Module F G]
  [Fintype ρ] [Fintype δ] [Fintype ι]

/-- lifting a share entry: `(M r)_j • g = Σ_k M_jk • (r_k • g)` (the Feldman check of an honest share) -/
theorem lift_mulVec (M : Matrix ρ δ F) (r : δ → F) (g : G) (j : ρ) :
    (M *ᵥ r) j • g = ∑ k, M j k • (r k • g) := by
  simp [Matrix.mulVec, dotProduct, Finset.sum_smul, mul_smul]

/-- `dkg_sum`: dealers `i` deal `λ⁽ⁱ⁾ = M r⁽ⁱ⁾` and publish `V⁽ⁱ⁾ = r⁽ⁱ⁾ • g`.  With `r = Σ r⁽ⁱ⁾`,
`V = Σ V⁽ⁱ⁾`: every row's summed share is `(M r)_j`, it verifies against the summed verification
vector, `V = r • g` component-wise, and `pk = V_z = (Σ r⁽ⁱ⁾_z) • g`. -/
theorem dkg_sum (M : Matrix ρ δ F) (r : ι → δ → F) (g : G) (z : δ) :
    (∀ j, ∑ i, (M *ᵥ r i) j = (M *ᵥ (∑ i, r i)) j) ∧
    (∀ j, (∑ i, (M *ᵥ r i) j) • g = ∑ k, M j k • (∑ i, r i k • g)) ∧
    (∀ k, ∑ i, r i k • g = (∑ i, r i) k • g) ∧
    (∑ i, r i z • g = (∑ i, r i z) • g) := by
  have h1 : ∀ j, ∑ i, (M *ᵥ r i) j = (M *ᵥ (∑ i, r i)) j := by
    intro j
    simp only [Matrix.mulVec, dotProduct, Finset.sum_apply, Finset.mul_sum]
    exact Finset.sum_comm
  have h3 : ∀ k, ∑ i, r i k • g = (∑ i, r i) k • g := by
    intro k; rw [Finset.sum_apply, Finset.sum_smul]
  refine ⟨h1, ?_, h3, ?_⟩
  · intro j
    rw [h1 j, lift_mulVec]
    exact Finset.sum_congr rfl fun k _ => by rw [h3 k]
  · rw [Finset.sum_smul]

/-- `dkg_reconstruct`: any coefficient vector with `c ᵥ* M = e_z` (what a qualified set obtains from
`solveLeft`; the support of `c` is the set's rows) reconstructs from the summed shares exactly the
discrete logarithm of `pk`. -/
theorem dkg_reconstruct [DecidableEq δ] (M : Matrix ρ δ F) (r : ι → δ → F) (g : G) (z : δ) (c : ρ → F)
    (hc : c ᵥ* M = Pi.single z 1) :
    c ⬝ᵥ (fun j => ∑ i, (M *ᵥ r i) j) = ∑ i, r i z ∧
    (c ⬝ᵥ (fun j => ∑ i, (M *ᵥ r i) j)) • g = ∑ i, r i z • g := by
  have hs : (fun j => ∑ i, (M *ᵥ r i) j) = M *ᵥ (∑ i, r i) := by
    funext j; exact (dkg_sum M r g z).1 j
  have h : c ⬝ᵥ (fun j => ∑ i, (M *ᵥ r i) j) = ∑ i, r i z := by
    rw [hs, Matrix.dotProduct_mulVec, hc, single_one_dotProduct, Finset.sum_apply]
  exact ⟨h, by rw [h, Finset.sum_smul]⟩

/-- no unqualified set reconstructs: if `e_z` is not in the row span selected by `S` there is no
coefficient vector supported on `S` (this is the driver's span test `reconCoeffs = none`). -/
theorem dkg_unqualified_no_coeffs [DecidableEq δ] (M : Matrix ρ δ F) (z : δ) (S : Set ρ)
    (h : ¬ ∃ c : ρ → F, (∀ j, j ∉ S → c j = 0) ∧ c ᵥ* M = Pi.single z 1) (c : ρ → F)
    (hS : ∀ j, j ∉ S → c j = 0) : c ᵥ* M ≠ Pi.single z 1 :=
  fun hc => h ⟨c, hS, hc⟩

/-- `dkg_contribution_injective`: for fixed contributions of the other dealers (`rest`), the map from
dealer `i`'s secret `x = r⁽ⁱ⁾_z` to the public key is injective, under the generator hypothesis. -/
theorem dkg_contribution_injective (g : G) (hg : ∀ a : F, a • g = 0 → a = 0) (rest : F) :
    Function.Injective fun x : F => (x + rest) • g := by
  intro x y hxy
  have h : (x - y) • g = 0 := by
    have : (x + rest) • g - (y + rest) • g = 0 := sub_eq_zero.mpr hxy
    rw [← sub_smul] at this
    simpa using this
  exact sub_eq_zero.mp (hg _ h)

/-- `pedersen_then_feldman_consistent` (Gennaro): the share `s = (M r)_j` with blinding `s' = (M r')_j`
verifies against the round-1 Pedersen vector `C_k = r_k • g + r'_k • h`, the same `s` verifies against
the round-2 Feldman vector `V_k = r_k • g`, and the two vectors differ exactly by the blinding part. -/
theorem pedersen_then_feldman_consistent (M : Matrix ρ δ F) (r r' : δ → F) (g h : G) (j : ρ) :
    (M *ᵥ r) j • g + (M *ᵥ r') j • h = ∑ k, M j k • (r k • g + r' k • h) ∧
    (M *ᵥ r) j • g = ∑ k, M j k • (r k • g) ∧
    (∀ k, (r k • g + r' k • h) - r' k • h = r k • g) := by
  refine ⟨?_, lift_mulVec M r g j, fun k => add_sub_cancel_right _ _⟩
  rw [lift_mulVec, lift_mulVec, ← Finset.sum_add_distrib]
  exact Finset.sum_congr rfl fun k _ => by rw [smul_add]

/-! ### non-vacuity: 2-of-2 additive MSP over ℚ with two dealers -/

example : ∃ (M : Matrix (Fin 2) (Fin 2) ℚ) (c : Fin 2 → ℚ), c ᵥ* M = Pi.single 0 1 ∧ c ≠ 0 := by
  refine ⟨Matrix.of ![![1, 1], ![0, 1]], ![1, -1], ?_, ?_⟩
  · funext k; fin_cases k <;> simp [Matrix.vecMul, dotProduct, Fin.sum_univ_two]
  · intro h; have := congrFun h 0; simp at this

example : Function.Injective fun x : ℚ => (x + 5) • (1 : ℚ) :=
  dkg_contribution_injective (1 : ℚ) (fun a h => by simpa using h) 5

end BronVerif.Props.C03
