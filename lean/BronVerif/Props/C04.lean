import BronVerif.Model.CheckGraph
import BronVerif.Model.CheckGraphs
import BronVerif.Model.CheckGraphVec
import BronVerif.Model.CheckGraphClaims
import BronVerif.Lemmas.CheckGraphReceive
import BronVerif.Lemmas.CheckGraphVec
import BronVerif.Gen.CheckInventory
import Mathlib.Algebra.Group.Basic
import Mathlib.Algebra.Module.Basic
import Mathlib.Data.ZMod.Basic
/-! # C04 — a deviating party is detected, blamed correctly, and cannot cause a bad output

Three layers.

**(T) `checks_present`** — `decide` over the WHOLE regenerated inventory of guarded error returns of the
round / aggregator functions (`Gen/CheckInventory.lean`, from `translator/facts_checks.go`): for every
round of every modelled protocol the Go function contains each predicate of the check graph, matched
by role (function + callee chain + arguments), tagged with the variable of the loop over the senders
whose message the loop body fetches (`….Get(<loop var>)`), or — for the untagged aggregate checks —
returning `base.ErrAbort`.

**(model) `detect`, `blame_sound`, `no_bad_output`** — about `CheckGraph.receive` / `release`, the very
definitions whose data (`Model/CheckGraphs.lean`) the driver uses to judge every line of the tamper
matrix. The cryptographic content enters as *binding hypotheses on the predicates*: a predicate
that accepts two messages in the same context forces them to agree on the leaves it binds. The
instances below show the shape for each kind of predicate (commitment opening — C18; share vs
verification vector — C05; consistency equations of the multiplier — C09, DKLs23 round 4; public-key
sum; proofs of knowledge are bound by idealisation, as DESIGN §5 states for C04).

**(rows) `detect_boldyreva_component`, `summed_check_misses_paired_shift`, `detect_rows`,
`blame_sound_rows`** — vector-valued leaves. Under a non-ideal access structure a sender owns several
MSP rows and its share / partial signature is a vector; a predicate marked `perRow` is a family with
one member per row (`Model/CheckGraphVec.lean`). The per-component form of the Boldyreva check detects
EVERY change of a partial signature (pairing non-degenerate at the generator); the summed form does
not: a paired shift passes it and the recombined signature is invalid — which is why
`checks_present` demands the partial-signature `Verify` inside the loop over the row keys.

**(claims) `detect_redistribute_claim`, `last_claim_check_misses_coherent_deviation`** — coherent
deviations. A previous holder that re-shares (its share + δ) AND claims the old public key was
`pk + δ·G` sends mutually consistent messages; a newcomer without anchor catches it only because the
aggregated new key is compared with EVERY sender's claim — one honest claim suffices. Comparing only
one sender's claim (the last one) accepts the deviation when that sender is the deviator.

**(C)** the tamper matrix itself (harness/c04*.go, Drive/C04.lean), including the relational
operators (harness/c04_rel.go) over non-ideal access structures.
-/
namespace BronVerif.Props.C04
open BronVerif.CheckGraph

/-! ## Part D — theorems over the check-graph model -/

section model
variable {ι C V : Type}

/-- `holds p c m`: predicate `p`, evaluated by a receiver whose context is `c` (its own state, the
earlier messages, public key material), accepts the message `m` (leaf ↦ value) of one sender.
`Binding`: the context determines the bound leaves. -/
def Binding (holds : Pred → C → (Leaf → V) → Prop) (p : Pred) : Prop :=
  ∀ c m m', holds p c m → holds p c m' → ∀ l ∈ p.binds, m l = m' l

/-- **Detection.** Exactly one sender `d` deviates by changing a leaf that the graph binds; the
context of the honest receiver is the one of the honest run (earlier messages, its own state);
honest messages pass every predicate. Then the receiver loop does not accept. -/
theorem detect (g : Graph) (holds : Pred → C → (Leaf → V) → Prop) [∀ p c m, Decidable (holds p c m)]
    (hbind : ∀ p ∈ g.preds, Binding holds p)
    (c : C) (honest tampered : ι → Leaf → V) (senders : List ι) (d : ι) (hd : d ∈ senders)
    (hcomplete : ∀ p ∈ g.preds, holds p c (honest d))
    (l : Leaf) (hl : g.bound l = true) (hchg : tampered d l ≠ honest d l) :
    receive g.preds (fun p s => decide (holds p c (tampered s))) senders ≠ Verdict.accept := by
  intro hacc
  rw [receive_accept_iff] at hacc
  have hne : g.predsOn l ≠ [] := by
    intro h; simp [Graph.bound, h] at hl
  obtain ⟨p, hp⟩ := List.exists_mem_of_ne_nil _ hne
  have hp' : p ∈ g.preds ∧ p.binds.contains l = true := by
    simpa [Graph.predsOn] using hp
  have hpass := hacc d hd p hp'.1
  have h1 : holds p c (tampered d) := by simpa using hpass
  have h2 := hcomplete p hp'.1
  have hmem : l ∈ p.binds := by simpa using hp'.2
  exact hchg (hbind p hp'.1 c _ _ h1 h2 l hmem)

/-- the failing predicate is one of those that bind the changed leaf, or an earlier one — in any case
some predicate of the graph is false on the deviator's message (the form stated in the design) -/
theorem detect_pred (g : Graph) (holds : Pred → C → (Leaf → V) → Prop)
    (hbind : ∀ p ∈ g.preds, Binding holds p)
    (c : C) (honest tampered : Leaf → V)
    (hcomplete : ∀ p ∈ g.preds, holds p c honest)
    (l : Leaf) (hl : g.bound l = true) (hchg : tampered l ≠ honest l) :
    ∃ p ∈ g.preds, l ∈ p.binds ∧ ¬ holds p c tampered := by
  have hne : g.predsOn l ≠ [] := by
    intro h; simp [Graph.bound, h] at hl
  obtain ⟨p, hp⟩ := List.exists_mem_of_ne_nil _ hne
  have hp' : p ∈ g.preds ∧ p.binds.contains l = true := by
    simpa [Graph.predsOn] using hp
  have hmem : l ∈ p.binds := by simpa using hp'.2
  exact ⟨p, hp'.1, hmem, fun h1 => hchg (hbind p hp'.1 c _ _ h1 (hcomplete p hp'.1) l hmem)⟩

/-- **Blame soundness.** Every predicate is evaluated on the message of the sender of the current
loop iteration and tagged with that sender (`checks_present`); honest senders' messages satisfy all
predicates (completeness). Then whoever is blamed is the deviator. -/
theorem blame_sound (preds : List Pred) (passes : Pred → ι → Bool) (senders : List ι) (d b : ι)
    (hhonest : ∀ s ∈ senders, s ≠ d → ∀ p ∈ preds, passes p s = true)
    (h : receive preds passes senders = Verdict.reject (some b)) : b = d := by
  obtain ⟨hb, p, hp, _, hfalse⟩ := receive_blame preds passes senders b h
  by_contra hne
  have := hhonest b hb hne p hp
  rw [hfalse] at this
  cases this

/-- the blamed party really sent a message on which a tagged predicate failed -/
theorem blame_justified (preds : List Pred) (passes : Pred → ι → Bool) (senders : List ι) (b : ι)
    (h : receive preds passes senders = Verdict.reject (some b)) :
    b ∈ senders ∧ ∃ p ∈ preds, p.tagged = true ∧ passes p b = false :=
  receive_blame preds passes senders b h

/-- **No bad output.** Outputs are released only through the gate: whatever the messages were, a
released output satisfies what the gate checks, and every receiver loop had accepted. -/
theorem no_bad_output {α : Type} (verdicts : List (Verdict ι)) (gate : Bool) (out : α) (valid : α → Prop)
    (hgate : gate = true → valid out) (o : α) (h : release verdicts gate out = some o) :
    valid o ∧ ∀ v ∈ verdicts, v = Verdict.accept := by
  obtain ⟨rfl, hg, hall⟩ := release_some verdicts gate out o h
  exact ⟨hgate hg, hall⟩

end model

/-! ### the binding hypotheses, instance by instance (shapes of C18 / C05 / C09 / DKLs23 round 4) -/

section instances

/-- commitment opening (`hashcom.Open`): with the hash injective on the framed inputs that occur
(C18 `open_binding`), the commitment determines message and witness. -/
theorem binding_commit {K M W D : Type} (H : K → M → W → D) (ck : K)
    (hinj : ∀ m w m' w', H ck m w = H ck m' w' → m = m' ∧ w = w')
    (c : D) (m m' : M) (w w' : W) (h1 : H ck m w = c) (h2 : H ck m' w' = c) : m = m' ∧ w = w' :=
  hinj m w m' w' (h1.trans h2.symm)

variable {R G : Type} [Ring R] [AddCommGroup G] [Module R G]

/-- share vs verification vector (`feldman.Verify`, C05 `feldman_verify_iff`): the expected lifted
share `P = (M·V)_row` determines the share. -/
theorem binding_share (g : G) (hg : ∀ a : R, a • g = 0 → a = 0) (P : G) (s s' : R)
    (h1 : s • g = P) (h2 : s' • g = P) : s = s' := by
  have : (s - s') • g = 0 := by rw [sub_smul, h1, h2, sub_self]
  exact sub_eq_zero.1 (hg _ this)

/-- … and, the share being fixed by the receiver, determines the lifted row of the verification vector -/
theorem binding_vv_row (g : G) (s : R) (P P' : G) (h1 : s • g = P) (h2 : s • g = P') : P = P' :=
  h1.symm.trans h2

/-- DKLs23 round-4/5 consistency `R_j·χ − Γᵁ = d_u • g` (and the same with `Pk_j`, `Γⱽ`): the
receiver's `χ`, `d` and the opened `R_j` determine `Γ`. -/
theorem binding_gamma (g : G) (Rχ Γ Γ' : G) (d : R) (h1 : Rχ - Γ = d • g) (h2 : Rχ - Γ' = d • g) : Γ = Γ' := by
  have := h1.trans h2.symm
  exact sub_right_injective this

/-- public-key sum `Σ Pk = pk`: the other summands and `pk` determine the deviator's summand -/
theorem binding_pk_sum (rest pk P P' : G) (h1 : P + rest = pk) (h2 : P' + rest = pk) : P = P' :=
  add_right_cancel (h1.trans h2.symm)

/-- redistribution `oldPk = newPk` and the per-sender partial public key: equality checks bind outright -/
theorem binding_equal {α : Type} (expected a a' : α) (h1 : a = expected) (h2 : a' = expected) : a = a' :=
  h1.trans h2.symm

end instances



/-! ## Part R — vector-valued leaves: per-row predicate families -/

section rows
open BronVerif.CheckGraph.Vec

variable {ι : Type}

/-- **Detection, per-row form.** If a member of some family (row `c.row` of predicate `c.pred`) is
false on the deviator's message, the receiver loop over the expanded families does not accept. -/
theorem detect_rows (preds : List Pred) (rows : ι → Nat) (passes : CompPred → ι → Bool)
    (senders : List ι) (d : ι) (hd : d ∈ senders) (c : CompPred)
    (hc : c ∈ componentsOf preds (rows d)) (hfail : passes c d = false) :
    receiveRows preds rows passes senders ≠ Verdict.accept := by
  intro hacc
  have := (receiveRows_accept_iff preds rows passes senders).1 hacc d hd c hc
  rw [hfail] at this
  cases this

/-- **Blame soundness, per-row form**: honest senders pass every member of every family, hence
whoever is blamed is the deviator. -/
theorem blame_sound_rows (preds : List Pred) (rows : ι → Nat) (passes : CompPred → ι → Bool)
    (senders : List ι) (d b : ι)
    (hhonest : ∀ s ∈ senders, s ≠ d → ∀ c ∈ componentsOf preds (rows s), passes c s = true)
    (h : receiveRows preds rows passes senders = Verdict.reject (some b)) : b = d := by
  obtain ⟨hb, c, hc, _, hfalse⟩ := receiveRows_blame preds rows passes senders b h
  by_contra hne
  have := hhonest b hb hne c hc
  rw [hfalse] at this
  cases this

variable {G1 G2 GT : Type} [AddCommGroup G2] [AddCommGroup GT] [DecidableEq GT]

/-- the BLS check of one component: `e(g, σ) = e(pk, H(m))` (`GT` written additively) -/
def blsCheck (e : G1 → G2 → GT) (g : G1) (h : G2) (pk : G1) (σ : G2) : Bool :=
  decide (e g σ = e pk h)

/-- with the pairing additive in its second argument and non-degenerate at the generator, each row
key admits exactly one passing component -/
theorem blsCheck_binding (e : G1 → G2 → GT) (g : G1) (h : G2)
    (hsub : ∀ a b, e g (a - b) = e g a - e g b) (hnd : ∀ σ, e g σ = 0 → σ = 0)
    (pk : G1) (a b : G2) (ha : blsCheck e g h pk a = true) (hb : blsCheck e g h pk b = true) : a = b := by
  unfold blsCheck at ha hb
  have ha' : e g a = e pk h := by simpa using ha
  have hb' : e g b = e pk h := by simpa using hb
  have : e g (a - b) = 0 := by rw [hsub, ha', hb', sub_self]
  exact sub_eq_zero.1 (hnd _ this)

/-- **Every change of a partial signature is detected by the per-component family.** `σs` is the
honest partial signature of a sender with row keys `pks` (every component verifies under its own
row key); `σs'` is ANY other vector. Then some member of the family is false — the per-component
form rejects — and the first failing row is reported. -/
theorem detect_boldyreva_component (e : G1 → G2 → GT) (g : G1) (h : G2)
    (hsub : ∀ a b, e g (a - b) = e g a - e g b) (hnd : ∀ σ, e g σ = 0 → σ = 0)
    (pks : List G1) (σs σs' : List G2)
    (hhon : perComponent (blsCheck e g h) pks σs = true) (hne : σs' ≠ σs) :
    perComponent (blsCheck e g h) pks σs' = false := by
  cases hacc : perComponent (blsCheck e g h) pks σs' with
  | false => rfl
  | true =>
    exact absurd (perComponent_unique (blsCheck e g h)
      (fun pk a b ha hb => blsCheck_binding e g h hsub hnd pk a b ha hb) pks σs σs' hhon hacc) hne

/-- … in particular a change of any SINGLE component -/
theorem detect_boldyreva_single (e : G1 → G2 → GT) (g : G1) (h : G2)
    (hsub : ∀ a b, e g (a - b) = e g a - e g b) (hnd : ∀ σ, e g σ = 0 → σ = 0)
    (pks : List G1) (σs : List G2) (hhon : perComponent (blsCheck e g h) pks σs = true)
    (i : Nat) (hi : i < σs.length) (a : G2) (ha : a ≠ σs[i]) :
    perComponent (blsCheck e g h) pks (σs.set i a) = false :=
  detect_boldyreva_component e g h hsub hnd pks σs _ hhon (set_ne_self σs i hi a ha)

/-- … and a change of any PAIR of components, e.g. the paired shift `σᵢ + D`, `σⱼ − D` that leaves
the sum of the components unchanged (`i ≠ j` is not even needed: component `j` ends up as `σⱼ − D`) -/
theorem detect_boldyreva_pair (e : G1 → G2 → GT) (g : G1) (h : G2)
    (hsub : ∀ a b, e g (a - b) = e g a - e g b) (hnd : ∀ σ, e g σ = 0 → σ = 0)
    (pks : List G1) (σs : List G2) (hhon : perComponent (blsCheck e g h) pks σs = true)
    (i j : Nat) (hi : i < σs.length) (hj : j < σs.length) (D : G2) (hD : D ≠ 0) :
    perComponent (blsCheck e g h) pks (pairedShift σs i j D) = false := by
  apply detect_boldyreva_component e g h hsub hnd pks σs _ hhon
  unfold pairedShift
  rw [List.getElem?_eq_getElem hi, List.getElem?_eq_getElem hj]
  intro heq
  have hj' : j < ((σs.set i (σs[i] + D)).set j (σs[j] - D)).length := by simpa using hj
  have h1 : ((σs.set i (σs[i] + D)).set j (σs[j] - D))[j]'hj' = σs[j] - D := List.getElem_set_self _
  have h2 : ((σs.set i (σs[i] + D)).set j (σs[j] - D))[j]'hj' = σs[j] := by simp only [heq]
  have : σs[j] - D = σs[j] := h1.symm.trans h2
  exact hD (by simpa using this)

/-- **The summed form accepts EVERY paired shift** (any check whatsoever, any commutative group):
moving `D` from component `j` to component `i` leaves the sums it inspects unchanged. -/
theorem summed_accepts_paired_shift {K X : Type} [Add K] [OfNat K 0] [AddCommGroup X]
    (check : K → X → Bool) (keys : List K) (xs : List X) (i j : Nat) (hij : i ≠ j) (D : X)
    (h : summed check keys xs = true) : summed check keys (pairedShift xs i j D) = true := by
  unfold summed at *
  rw [total_pairedShift xs i j hij D]
  have hlen : (pairedShift xs i j D).length = xs.length := by
    unfold pairedShift
    split <;> simp
  rw [hlen]
  exact h

/-- toy pairing on `ZMod 11`: `e(a, b) = a·b`, generator 1, `H(m) = 1` — bilinear and non-degenerate -/
def toyCheck (pk σ : ZMod 11) : Bool := blsCheck (fun a b : ZMod 11 => a * b) 1 1 pk σ

/-- **The summed check does NOT detect a paired shift, and the released signature is then invalid.**
Concrete instance: row keys `x = (2, 3)` of one sender, honest partial signature `σ = (2, 3)`,
reconstruction coefficients `c = (3, 5)` (so `sk = 3·2 + 5·3 = 10`, `pk = 10`); the deviator sends
`σ' = (σ₀ + 1, σ₁ − 1) = (3, 2)`. The summed form accepts `σ'`, the per-component form rejects it, and
the recombination `Σ cᵢ σ'ᵢ = 8` released after the summed check fails the public verification under
`pk` (the honest recombination `10` passes). -/
theorem summed_check_misses_paired_shift :
    let keys : List (ZMod 11) := [2, 3]
    let honest : List (ZMod 11) := [2, 3]
    let coeffs : List (ZMod 11) := [3, 5]
    let pk : ZMod 11 := 10
    let tampered := pairedShift honest 0 1 1
    tampered = [3, 2] ∧
    perComponent toyCheck keys honest = true ∧
    summed toyCheck keys honest = true ∧
    summed toyCheck keys tampered = true ∧
    perComponent toyCheck keys tampered = false ∧
    firstFailing toyCheck keys tampered = some 0 ∧
    toyCheck pk (recombine (· * ·) coeffs honest) = true ∧
    toyCheck pk (recombine (· * ·) coeffs tampered) = false := by
  decide

/-! non-vacuity: the hypotheses of `detect_boldyreva_component` hold for the toy pairing, and the
theorem applies to the very paired shift the summed check misses -/

example : ∀ a b : ZMod 11, (1 : ZMod 11) * (a - b) = 1 * a - 1 * b := by decide
example : ∀ σ : ZMod 11, (1 : ZMod 11) * σ = 0 → σ = 0 := by decide

example : perComponent toyCheck [2, 3] (pairedShift [2, 3] 0 1 (1 : ZMod 11)) = false :=
  detect_boldyreva_pair (fun a b : ZMod 11 => a * b) 1 1 (by decide) (by decide) [2, 3] [2, 3] (by decide)
    0 1 (by decide) (by decide) 1 (by decide)

example : perComponent toyCheck [2, 3] ([2, 3].set 1 (7 : ZMod 11)) = false :=
  detect_boldyreva_single (fun a b : ZMod 11 => a * b) 1 1 (by decide) (by decide) [2, 3] [2, 3] (by decide)
    1 (by decide) 7 (by decide)

example : summed toyCheck [2, 3] (pairedShift [2, 3] 0 1 (4 : ZMod 11)) = true :=
  summed_accepts_paired_shift toyCheck [2, 3] [2, 3] 0 1 (by decide) 4 (by decide)

/-- the aggregator's loop on the toy instance: sender 7 owns two rows and sends the paired shift; with
the per-row family expanded the loop rejects and blames 7; an aggregate predicate (one member) that
evaluates the summed form accepts -/
def toyAgg : Pred :=
  { name := "partial-signature-verifies", evalRound := 0, who := .aggregator, tagged := true,
    binds := [⟨1, .bcast, "sigma_i"⟩], perRow := true }

def toyMsg (s : Nat) : List (ZMod 11) := if s = 7 then pairedShift [2, 3] 0 1 1 else [2, 3]

def toyPasses (c : CompPred) (s : Nat) : Bool :=
  match ([2, 3] : List (ZMod 11))[c.row]?, (toyMsg s)[c.row]? with
  | some k, some x => toyCheck k x
  | _, _ => false

example : receiveRows [toyAgg] (fun _ => 2) toyPasses [5, 7] = Verdict.reject (some 7) := by decide
example : receiveRows [toyAgg] (fun _ => 2) toyPasses [5, 6] = Verdict.accept := by decide
example : receiveRows [{ toyAgg with perRow := false }] (fun _ => 2)
    (fun _ s => summed toyCheck [2, 3] (toyMsg s)) [5, 7] = Verdict.accept := by decide
example : receiveRows [toyAgg] (fun _ => 2) toyPasses [5, 7] ≠ Verdict.accept :=
  detect_rows [toyAgg] (fun _ => 2) toyPasses [5, 7] 7 (by decide) ⟨toyAgg, 0⟩ (by decide) (by decide)
example : (7 : Nat) = 7 :=
  blame_sound_rows [toyAgg] (fun _ => 2) toyPasses [5, 7] 7 7
    (by intro s hs hne c hc
        have : s = 5 := by simp at hs; omega
        subst this
        have : c = ⟨toyAgg, 0⟩ ∨ c = ⟨toyAgg, 1⟩ := by
          simpa [componentsOf, Pred.components, toyAgg, List.range, List.range.loop] using hc
        rcases this with rfl | rfl <;> decide)
    (by decide)

end rows


/-! ## Part Q — claims about the past compared with an aggregate (coherent deviations) -/

section claims
open BronVerif.CheckGraph.Claims

/-- **`oldPk = newPk` for EVERY sender's claim detects a shifted key.** `claims` are the old public
keys claimed by the senders a next holder hears (in the order of its loop), `pk` the true old key,
`newPk` the aggregate of the contributions. If at least one of those senders is honest (claims `pk`)
and the aggregate is not `pk` — whatever the others claim, in particular a deviator claiming exactly
`newPk` — the check aborts. -/
theorem detect_redistribute_claim {X : Type} [DecidableEq X] (claims : List X) (pk newPk : X)
    (hhonest : pk ∈ claims) (hne : newPk ≠ pk) : everyClaim claims newPk = false := by
  cases h : everyClaim claims newPk with
  | false => rfl
  | true =>
    unfold everyClaim at h
    have := List.all_eq_true.1 h pk hhonest
    exact absurd (of_decide_eq_true this).symm hne

/-- … and when it accepts, every sender claimed the aggregate (so the aggregate is the true old key as
soon as one sender is honest) -/
theorem everyClaim_accepts_iff {X : Type} [DecidableEq X] (claims : List X) (newPk : X) :
    everyClaim claims newPk = true ↔ ∀ c ∈ claims, c = newPk := by
  unfold everyClaim
  rw [List.all_eq_true]
  constructor
  · intro h c hc; exact of_decide_eq_true (h c hc)
  · intro h c hc; exact decide_eq_true (h c hc)

variable {G : Type} [AddCommGroup G]

/-- a dealing substitution by sender `i` (contribution `+ D`) shifts the aggregate by exactly `D` -/
theorem aggregate_redeal (contribs : List G) (i : Nat) (hi : i < contribs.length) (D : G) :
    aggregate (contribs.set i (contribs[i] + D)) = aggregate contribs + D := by
  unfold aggregate
  rw [← List.sum_eq_foldl, ← List.sum_eq_foldl, List.sum_set']
  simp only [hi, dite_true]
  abel

/-- **Coherent redeal + claim is detected by the every-sender form**: the honest contributions
aggregate to `pk`, the deviator `i` re-shares `+ D` with `D ≠ 0` and may claim anything (e.g.
`pk + D`); as long as another sender's honest claim `pk` is inspected, the next holder aborts. -/
theorem detect_redistribute_coherent [DecidableEq G] (contribs claims : List G) (pk : G)
    (hagg : aggregate contribs = pk) (i : Nat) (hi : i < contribs.length) (D : G) (hD : D ≠ 0)
    (hhonest : pk ∈ claims) :
    everyClaim claims (aggregate (contribs.set i (contribs[i] + D))) = false := by
  apply detect_redistribute_claim claims pk _ hhonest
  rw [aggregate_redeal contribs i hi D, hagg]
  intro h
  exact hD (by simpa using h)

/-- **Checking only ONE sender's claim misses a coherent deviation by that sender.** `ZMod 11`, old
key `pk = 4` held additively as `1 + 3` by senders 2 and 3 (loop order `[2, 3]`). Sender 3 re-shares
`3 + 5` and claims the old key was `4 + 5 = 9`; sender 2 is honest. The aggregated new key is `9`.
The last-claim form accepts (the new key changed and nobody noticed); the every-claim form rejects
because of sender 2's honest claim. The same deviation by sender 2 (not last) is caught by both. -/
theorem last_claim_check_misses_coherent_deviation :
    let pk : ZMod 11 := 4
    let honestContribs : List (ZMod 11) := [1, 3]
    let contribs : List (ZMod 11) := honestContribs.set 1 (3 + 5)
    let claims : List (ZMod 11) := [pk, pk + 5]
    let newPk := aggregate contribs
    aggregate honestContribs = pk ∧ newPk = 9 ∧ newPk ≠ pk ∧
    lastClaim claims newPk = true ∧
    everyClaim claims newPk = false ∧
    lastClaim [pk + 5, pk] (aggregate (honestContribs.set 0 (1 + 5))) = false ∧
    everyClaim [pk, pk] (aggregate honestContribs) = true := by
  decide

/-! non-vacuity -/
example : everyClaim [(4 : ZMod 11), 9] 9 = false :=
  detect_redistribute_claim [4, 9] 4 9 (by decide) (by decide)
example : everyClaim [(4 : ZMod 11), 9] (aggregate ([(1 : ZMod 11), 3].set 1 (3 + 5))) = false :=
  detect_redistribute_coherent [1, 3] [4, 9] 4 (by decide) 1 (by decide) 5 (by decide) (by decide)

end claims

/-! ## Part C — `checks_present`: the Go round functions contain the predicates of the check graph -/

namespace Inventory
open BronVerif.Gen.CheckInventory

/-- how a required guard must be tagged -/
inductive Tag where
  /-- `.WithTag(IdentifiableAbortPartyIDTag, v)` with `v` the key variable of the enclosing loop over
      `loopOver`, and every message fetched in that loop body is fetched with `.Get(v)` -/
  | sender (loopOver : Str)
  /-- two-party code without a loop: the fixed counterparty expression -/
  | fixed (e : Str)
  /-- an aggregate check (sees only sums / the final signature): untagged, returns `base.ErrAbort` -/
  | abortOnly
  /-- a helper or a structural step: only presence is required -/
  | any
  deriving DecidableEq

/-- one predicate of the check graph as it must appear in the Go code (matched by role) -/
structure Need where
  proto : Str
  fn : Str
  /-- callee chain that must be among the calls deciding the guard (`[]`: none required) -/
  call : Str := []
  /-- arguments that must all be passed to those calls -/
  args : List Str := []
  /-- `!a.Equal(b)` operand that must be in the condition (`[]`: none required) -/
  neg : Str := []
  tag : Tag
  /-- PER-ROW family: the guard must sit inside a `for … := range <rowLoop>` over the row keys of the
      sender (`[]`: no such requirement). An aggregate form of the check — one call on the summed
      components — is not inside such a loop. -/
  rowLoop : Str := []
  deriving DecidableEq

def tagOk (s : Site) : Tag → Bool
  | .sender over => s.tag != [] && s.tag == s.loopVar && s.loopOver == over && s.gets.all (· == s.loopVar)
  | .fixed e => s.tag == e
  | .abortOnly => s.tag == [] && s.abort
  | .any => true

def Need.metBy (n : Need) (s : Site) : Bool :=
  s.fn == n.fn && s.proto == n.proto &&
  (n.call == [] || s.calls.contains n.call) && n.args.all (fun a => s.args.contains a) &&
  (n.neg == [] || s.negs.contains n.neg) && tagOk s n.tag &&
  (n.rowLoop == [] || s.loops.contains n.rowLoop)

def present (table : List Site) (n : Need) : Bool := table.any n.metBy

def others : Str := cps!"p.ctx.OtherPartiesOrdered()"
def othersC : Str := cps!"c.ctx.OtherPartiesOrdered()"

/-- `network.ValidateIncomingMessages(p, <senders>, <msgs>)` guards the round -/
def validate (proto fn senders msgs : Str) : Need :=
  { proto := proto, fn := fn, call := cps!"network.ValidateIncomingMessages", args := [senders, msgs], tag := .any }

/-- the predicates of the check graphs, per round function -/
def needs : List Need := [
  -- structural validation, tagged with the sender, before use (every protocol)
  { proto := cps!"network", fn := cps!"ValidateIncomingMessages", call := cps!"messages.Get", args := [cps!"id"], tag := .sender cps!"senders" },
  { proto := cps!"network", fn := cps!"ValidateIncomingMessages", call := cps!"m.Validate", args := [cps!"p", cps!"id"], tag := .sender cps!"senders" },
  -- session setup: commit-then-open of the common and the pairwise contributions
  validate cps!"session" cps!"Participant.Round2" cps!"p.otherParticipantsOrdered()" cps!"inB",
  validate cps!"session" cps!"Participant.Round3" cps!"p.otherParticipantsOrdered()" cps!"inB",
  validate cps!"session" cps!"Participant.Round3" cps!"p.otherParticipantsOrdered()" cps!"inU",
  validate cps!"session" cps!"Participant.Round4" cps!"p.otherParticipantsOrdered()" cps!"uIn",
  { proto := cps!"session", fn := cps!"Participant.Round3", call := cps!"commonCommitmentKey.Open",
    args := [cps!"p.commonContributionCommitments[id]", cps!"b.CommonContribution[:]", cps!"b.CommonContributionWitness"],
    tag := .sender cps!"p.otherParticipantsOrdered()" },
  { proto := cps!"session", fn := cps!"Participant.Round4", call := cps!"ck.Open",
    args := [cps!"pairwiseCommitment", cps!"u.PairwiseContribution[:]", cps!"u.PairwiseContributionWitness"],
    tag := .sender cps!"p.otherParticipantsOrdered()" },
  -- Gennaro: Okamoto PoK + Pedersen share (round 2), batch Schnorr PoK + Feldman share (round 3), shard gate
  validate cps!"gennaro" cps!"Participant.Round2" others cps!"r2bin",
  validate cps!"gennaro" cps!"Participant.Round2" others cps!"r2uin",
  validate cps!"gennaro" cps!"Participant.Round3" others cps!"r3bi",
  { proto := cps!"gennaro", fn := cps!"Participant.Round2", call := cps!"verifier.Verify", args := [cps!"composedStatements", cps!"inB.Proof"], tag := .sender others },
  { proto := cps!"gennaro", fn := cps!"Participant.Round2", call := cps!"p.state.pedersenVSS.Verify", args := [cps!"inU.Share", cps!"inB.PedersenVerificationVector"], tag := .sender others },
  { proto := cps!"gennaro", fn := cps!"Participant.Round3", call := cps!"verifier.Verify", args := [cps!"statement", cps!"inB.Proof"], tag := .sender others },
  { proto := cps!"gennaro", fn := cps!"Participant.Round3", call := cps!"p.state.feldmanVSS.Verify", args := [cps!"kwShare", cps!"inB.FeldmanVerificationVector"], tag := .sender others },
  { proto := cps!"gennaro", fn := cps!"Participant.Round3", call := cps!"mpc.NewBaseShard", tag := .any },
  -- Canetti: commitment opening + share (round 3), proof commitment consistency + proof (round 4), shard gate
  validate cps!"canetti" cps!"Participant.Round2" others cps!"r1b",
  validate cps!"canetti" cps!"Participant.Round3" others cps!"r2b",
  validate cps!"canetti" cps!"Participant.Round3" others cps!"r2u",
  validate cps!"canetti" cps!"Participant.Round4" others cps!"r3b",
  { proto := cps!"canetti", fn := cps!"Participant.Round3", call := cps!"p.commitmentKey.Open", args := [cps!"p.state.vs[id]", cps!"b.Message.Bytes()", cps!"b.U"], tag := .sender others },
  { proto := cps!"canetti", fn := cps!"Participant.Round3", call := cps!"p.sharingScheme.Verify", args := [cps!"u.Share", cps!"b.Message.X"], tag := .sender others },
  { proto := cps!"canetti", fn := cps!"Participant.Round4", neg := cps!"b.Psi.Commitment().A.Equal(p.state.msg[id].A.A)", tag := .sender others },
  { proto := cps!"canetti", fn := cps!"Participant.Round4", call := cps!"zkmodule.Verify", args := [cps!"p.state.verifierCtxs[id]", cps!"schStatement", cps!"b.Psi"], tag := .sender others },
  { proto := cps!"canetti", fn := cps!"Participant.Round4", call := cps!"mpc.NewBaseShard", tag := .any },
  -- the shard gate itself: lift(share) = (M·V) rows of the holder
  { proto := cps!"baseshard", fn := cps!"NewBaseShard", neg := cps!"manuallyLiftedShare.Equal(pks)", tag := .any },
  -- HJKY zero sharing
  validate cps!"hjky" cps!"Participant.Round2" others cps!"r1b",
  validate cps!"hjky" cps!"Participant.Round2" others cps!"r1u",
  { proto := cps!"hjky", fn := cps!"Participant.Round2", call := cps!"p.scheme.Verify", args := [cps!"u.ZeroShare", cps!"b.VerificationVector"], tag := .sender others },
  { proto := cps!"hjky", fn := cps!"Participant.Round2", neg := cps!"pk.Equal(p.group.OpIdentity())", tag := .sender others },
  -- redistribution
  validate cps!"redistribute" cps!"Participant.Round2" cps!"p.otherPrevShareholders()" cps!"r1b",
  validate cps!"redistribute" cps!"Participant.Round2" cps!"p.otherPrevShareholders()" cps!"r1u",
  validate cps!"redistribute" cps!"Participant.Round3" cps!"p.otherPrevShareholders()" cps!"r2b",
  validate cps!"redistribute" cps!"Participant.Round3" cps!"p.otherPrevShareholders()" cps!"r2u",
  { proto := cps!"redistribute", fn := cps!"Participant.Round2", call := cps!"p.zeroParticipant.Round2", tag := .any },
  { proto := cps!"redistribute", fn := cps!"Participant.Round3", call := cps!"nextScheme.Verify", args := [cps!"u.NextShareContribution", cps!"b.NextVerificationVectorContribution"], tag := .sender cps!"p.otherPrevShareholders()" },
  { proto := cps!"redistribute", fn := cps!"Participant.Round3", neg := cps!"b.PrevMSP.Equal(trustedMSP)", tag := .sender cps!"p.otherPrevShareholders()" },
  { proto := cps!"redistribute", fn := cps!"Participant.Round3", neg := cps!"b.PrevVerificationVector.Equal(trustedVerificationVector)", tag := .sender cps!"p.otherPrevShareholders()" },
  { proto := cps!"redistribute", fn := cps!"Participant.Round3", neg := cps!"b.ZeroVerificationVector.Equal(trustedZeroVerificationVector)", tag := .sender cps!"p.otherPrevShareholders()" },
  { proto := cps!"redistribute", fn := cps!"Participant.Round3", neg := cps!"actualPartialPk.Equal(expectedPartialPk)", tag := .sender cps!"p.otherPrevShareholders()" },
  -- (EVERY sender's claim: the guard sits inside the loop over all previous holders)
  { proto := cps!"redistribute", fn := cps!"Participant.Round3", neg := cps!"oldPk.Equal(newPk)", tag := .abortOnly, rowLoop := cps!"p.otherPrevShareholders()" },
  { proto := cps!"redistribute", fn := cps!"Participant.Round3", call := cps!"nextScheme.Verify", args := [cps!"p.state.share", cps!"p.state.shareVerificationVector"], tag := .abortOnly },
  { proto := cps!"redistribute", fn := cps!"Participant.Round3", call := cps!"mpc.NewBaseShard", tag := .any },
  -- DKLs23 (softspoken): nonce commitment opening, multiplier output, GammaU / GammaV, pk sum
  validate cps!"dkls23-softspoken" cps!"Cosigner.Round2" othersC cps!"r1u",
  validate cps!"dkls23-softspoken" cps!"Cosigner.Round3" othersC cps!"r2u",
  validate cps!"dkls23-softspoken" cps!"Cosigner.Round4" othersC cps!"r3b",
  validate cps!"dkls23-softspoken" cps!"Cosigner.Round4" othersC cps!"r3u",
  validate cps!"dkls23-softspoken" cps!"Cosigner.Round5" othersC cps!"r4b",
  validate cps!"dkls23-softspoken" cps!"Cosigner.Round5" othersC cps!"r4u",
  { proto := cps!"dkls23-softspoken", fn := cps!"Cosigner.Round5", call := cps!"c.state.ck.Open", args := [cps!"c.state.bigRCommitment[id]", cps!"bIn.BigR.ToCompressed()", cps!"bIn.BigRWitness"], tag := .sender othersC },
  { proto := cps!"dkls23-softspoken", fn := cps!"Cosigner.Round5", call := cps!"c.bobMul[·].Round3", args := [cps!"uIn.MulR2"], tag := .sender othersC },
  { proto := cps!"dkls23-softspoken", fn := cps!"Cosigner.Round5", neg := cps!"c.state.bigR[id].ScalarMul(c.state.chi[id]).Sub(uIn.GammaU).Equal(c.suite.Curve().ScalarBaseMul(d[0]))", tag := .sender othersC },
  { proto := cps!"dkls23-softspoken", fn := cps!"Cosigner.Round5", neg := cps!"bIn.Pk.ScalarMul(c.state.chi[id]).Sub(uIn.GammaV).Equal(c.suite.Curve().ScalarBaseMul(d[1]))", tag := .sender othersC },
  { proto := cps!"dkls23-softspoken", fn := cps!"Cosigner.Round5", neg := cps!"pk.Equal(c.shard.PublicKey().Value())", tag := .abortOnly },
  -- DKLs23 (bbot)
  validate cps!"dkls23-bbot" cps!"Cosigner.Round2" othersC cps!"r1b",
  validate cps!"dkls23-bbot" cps!"Cosigner.Round2" othersC cps!"r1u",
  validate cps!"dkls23-bbot" cps!"Cosigner.Round3" othersC cps!"r2b",
  validate cps!"dkls23-bbot" cps!"Cosigner.Round3" othersC cps!"r2u",
  validate cps!"dkls23-bbot" cps!"Cosigner.Round4" othersC cps!"r3b",
  validate cps!"dkls23-bbot" cps!"Cosigner.Round4" othersC cps!"r3u",
  { proto := cps!"dkls23-bbot", fn := cps!"Cosigner.Round3", call := cps!"c.state.ck.Open", args := [cps!"c.state.bigRCommitment[id]", cps!"bIn.BigR.ToCompressed()", cps!"bIn.BigRWitness"], tag := .sender othersC },
  { proto := cps!"dkls23-bbot", fn := cps!"Cosigner.Round4", call := cps!"c.state.bobMul[·].Round4", tag := .sender othersC },
  { proto := cps!"dkls23-bbot", fn := cps!"Cosigner.Round4", neg := cps!"c.state.bigR[id].ScalarMul(c.state.chi[id]).Sub(uIn.GammaU).Equal(c.suite.Curve().ScalarBaseMul(d[0]))", tag := .sender othersC },
  { proto := cps!"dkls23-bbot", fn := cps!"Cosigner.Round4", neg := cps!"bIn.Pk.ScalarMul(c.state.chi[id]).Sub(uIn.GammaV).Equal(c.suite.Curve().ScalarBaseMul(d[1]))", tag := .sender othersC },
  { proto := cps!"dkls23-bbot", fn := cps!"Cosigner.Round4", neg := cps!"pk.Equal(c.shard.PublicKey().Value())", tag := .abortOnly },
  -- the multipliers' `mu` consistency check
  { proto := cps!"rvole-softspoken", fn := cps!"Bob.Round3", call := cps!"ct.CompareBytes", args := [cps!"r2.Mu", cps!"mu"], tag := .abortOnly },
  { proto := cps!"rvole-bbot", fn := cps!"Bob.Round4", call := cps!"ct.CompareBytes", args := [cps!"r3Out.Mu", cps!"mu"], tag := .abortOnly },
  -- DKLs23 aggregation: equal nonce points, final signature verification before release
  { proto := cps!"dkls23", fn := cps!"Aggregate", neg := cps!"partialSignature.r.Equal(r)", tag := .abortOnly },
  { proto := cps!"dkls23", fn := cps!"Aggregate", call := cps!"verifier.Verify", args := [cps!"signature", cps!"publicKey", cps!"message"], tag := .abortOnly },
  -- Lindell22: nonce commitment opening + dlog proof (round 3); aggregator re-verifies
  validate cps!"lindell22" cps!"Cosigner.Round2" othersC cps!"inb",
  validate cps!"lindell22" cps!"Cosigner.Round2" othersC cps!"inu",
  validate cps!"lindell22" cps!"Cosigner.Round3" othersC cps!"inb",
  { proto := cps!"lindell22", fn := cps!"Cosigner.Round2", call := cps!"c.zeroParticipant.Round2", tag := .any },
  { proto := cps!"lindell22", fn := cps!"Cosigner.Round3", call := cps!"c.cks[·].Open", args := [cps!"theirCommitment", cps!"theirBigR.X.Bytes()", cps!"theirOpening"], tag := .sender othersC },
  { proto := cps!"lindell22", fn := cps!"Cosigner.Round3", call := cps!"dlogVerify", args := [cps!"pid", cps!"received.BigRProof", cps!"theirBigR"], tag := .sender othersC },
  { proto := cps!"lindell22", fn := cps!"dlogVerify", call := cps!"verifier.Verify", args := [cps!"theirBigR", cps!"proof"], tag := .any },
  { proto := cps!"lindell22-agg", fn := cps!"Aggregator.Aggregate", call := cps!"a.verifier.Verify", args := [cps!"aggregatedSignature", cps!"a.pkm.PublicKey()", cps!"message"], tag := .abortOnly },
  -- Boldyreva: every partial signature is validated and verified against the sender's key share
  { proto := cps!"boldyreva", fn := cps!"Aggregator.Aggregate", call := cps!"psig.Validate", tag := .sender cps!"partialSigs.Iter()" },
  -- (PER-ROW families: each component `i` against the key of row `i`, inside the loop over the row keys;
  --  the recombined signature is not verified again, so this loop is the gate)
  { proto := cps!"boldyreva", fn := cps!"Aggregator.Aggregate", call := cps!"partialSignatureVerifier.Verify", args := [cps!"psig.SigmaI[i]", cps!"pki", cps!"internalMessage"], tag := .sender cps!"partialSigs.Iter()", rowLoop := cps!"partialPublicKey" },
  { proto := cps!"boldyreva", fn := cps!"Aggregator.Aggregate", call := cps!"popVerifier.Verify", args := [cps!"psig.SigmaPopI[i]", cps!"pki"], tag := .sender cps!"partialSigs.Iter()", rowLoop := cps!"partialPublicKey" },
  { proto := cps!"boldyreva", fn := cps!"Aggregator.Aggregate", call := cps!"len", args := [cps!"psig.SigmaI", cps!"publicKeyShare.Value()"], tag := .sender cps!"partialSigs.Iter()" },
  -- Lindell17 (two parties, no loop): the counterparty is the fixed culprit
  { proto := cps!"lindell17", fn := cps!"PrimaryCosigner.Round3", call := cps!"dlogVerify", args := [cps!"r2out.BigR2Proof", cps!"r2out.BigR2"], tag := .fixed cps!"pc.secondarySharingID" },
  { proto := cps!"lindell17", fn := cps!"SecondaryCosigner.Round4", call := cps!"sc.commitmentKey.Open", args := [cps!"sc.state.bigR1Commitment", cps!"r3out.BigR1Opening"], tag := .fixed cps!"sc.primarySharingID" },
  { proto := cps!"lindell17", fn := cps!"SecondaryCosigner.Round4", call := cps!"dlogVerify", args := [cps!"r3out.BigR1Proof", cps!"r3out.BigR1"], tag := .fixed cps!"sc.primarySharingID" },
  { proto := cps!"lindell17", fn := cps!"PrimaryCosigner.Round5", call := cps!"verifier.Verify", args := [cps!"signature", cps!"publicKey", cps!"message"], tag := .fixed cps!"pc.secondarySharingID" }
]

/-- **Every predicate of the check graphs is present in the Go round function it belongs to**, with
the loop's sender variable as blame tag (aggregate checks: `base.ErrAbort`). Deleting an `Open`, a
proof `Verify`, the GammaU/GammaV check, the pk-sum check or a `WithTag`, or tagging another
identifier than the loop variable the message was fetched with, makes this `decide` fail. -/
theorem checks_present : ∀ n ∈ needs, present sites n = true := by
  have h : needs.all (present sites) = true := by decide +kernel
  exact List.all_eq_true.mp h

/-- no tagged abort anywhere in the anchored files names anything but the variable of an enclosing
loop over senders — or, in the two-party Lindell17 code, the counterparty -/
def tagIsSender (s : Site) : Bool :=
  s.tag == [] || s.tag == s.loopVar ||
    (s.proto == cps!"lindell17" && (s.tag == cps!"pc.secondarySharingID" || s.tag == cps!"sc.primarySharingID")) ||
    -- gennaro Round2 builds the Okamoto statements of sender `pid` in an inner loop over its vector
    (s.proto == cps!"gennaro" && s.fn == cps!"Participant.Round2" && s.tag == cps!"pid" && s.calls == [cps!"okamoto.NewStatement"])

theorem every_tag_is_the_loop_sender : ∀ s ∈ sites, tagIsSender s = true := by
  have h : sites.all tagIsSender = true := by decide +kernel
  exact List.all_eq_true.mp h

/-! sensitivity of the rule on hand-made rows -/

private def goodRow : Site :=
  { proto := cps!"session", fn := cps!"Participant.Round4", calls := [cps!"ck.Open"],
    args := [cps!"pairwiseCommitment", cps!"u.PairwiseContribution[:]", cps!"u.PairwiseContributionWitness"], negs := [],
    tag := cps!"id", abort := false, loopVar := cps!"id", loopOver := cps!"p.otherParticipantsOrdered()", gets := [cps!"id"],
    loops := [cps!"p.otherParticipantsOrdered()"] }

private def needOpen : Need :=
  { proto := cps!"session", fn := cps!"Participant.Round4", call := cps!"ck.Open",
    args := [cps!"pairwiseCommitment", cps!"u.PairwiseContribution[:]", cps!"u.PairwiseContributionWitness"],
    tag := .sender cps!"p.otherParticipantsOrdered()" }

example : present [goodRow] needOpen = true := by decide
/-- the `Open` deleted -/
example : present [] needOpen = false := by decide
/-- the tag deleted -/
example : present [{ goodRow with tag := [] }] needOpen = false := by decide
/-- the wrong identifier tagged -/
example : present [{ goodRow with tag := cps!"p.id" }] needOpen = false := by decide
/-- the message fetched for another party than the one blamed -/
example : present [{ goodRow with gets := [cps!"p.id"] }] needOpen = false := by decide
example : sites.length = count ∧ 300 ≤ count := by decide +kernel

/-! per-row family vs aggregate form, on hand-made rows -/

private def rowGood : Site :=
  { proto := cps!"boldyreva", fn := cps!"Aggregator.Aggregate", calls := [cps!"partialSignatureVerifier.Verify"],
    args := [cps!"psig.SigmaI[i]", cps!"pki", cps!"internalMessage"], negs := [], tag := cps!"sender", abort := false,
    loopVar := cps!"sender", loopOver := cps!"partialSigs.Iter()", gets := [cps!"sender"],
    loops := [cps!"partialPublicKey", cps!"partialSigs.Iter()"] }

private def needRow : Need :=
  { proto := cps!"boldyreva", fn := cps!"Aggregator.Aggregate", call := cps!"partialSignatureVerifier.Verify",
    args := [cps!"psig.SigmaI[i]", cps!"pki", cps!"internalMessage"], tag := .sender cps!"partialSigs.Iter()",
    rowLoop := cps!"partialPublicKey" }

example : present [rowGood] needRow = true := by decide
/-- the same call moved out of the loop over the row keys (an aggregate form) -/
example : present [{ rowGood with loops := [cps!"partialSigs.Iter()"] }] needRow = false := by decide
/-- one aggregate verification of the summed components -/
private def rowSummed : Site :=
  { proto := cps!"boldyreva", fn := cps!"Aggregator.Aggregate", calls := [cps!"partialSignatureVerifier.AggregateVerify"],
    args := [cps!"sigmaRows", cps!"partialPublicKey", cps!"rowMessages"], negs := [], tag := cps!"sender", abort := false,
    loopVar := cps!"sender", loopOver := cps!"partialSigs.Iter()", gets := [cps!"sender"],
    loops := [cps!"partialSigs.Iter()"] }
example : present [rowSummed] needRow = false := by decide
/-- a loop over a prefix of the row keys -/
example : present [{ rowGood with loops := [cps!"partialPublicKey[:1]", cps!"partialSigs.Iter()"] }] needRow = false := by decide

end Inventory


/-- the driver's classification feeds `detect`: a site classified as bound leaf is a leaf with
`g.bound = true`, reported together with exactly the predicates that bind it -/
theorem classify_bound (g : Graph) (r : Nat) (k : Kind) (path : String) (l : Leaf) (ps : List Pred)
    (h : g.classify r k path = SiteClass.boundLeaf l ps) : g.bound l = true ∧ ps = g.predsOn l := by
  unfold Graph.classify at h
  split at h
  · cases h
  · split at h
    · cases h
    · split at h
      · cases h
      · split at h
        · rename_i l' _
          split at h
          · rename_i hb
            injection h with h1 h2
            subst h1; subst h2
            exact ⟨hb, rfl⟩
          · cases h
        · unfold Graph.classifyContainer at h
          split at h <;> cases h

/-! ### the graphs the driver uses are well formed -/

/-- every predicate binds only declared leaves -/
def predsDeclared (g : Graph) : Bool := g.preds.all fun p => p.binds.all fun l => g.leaves.contains l

/-- every message (round, kind) carries at least one bound leaf: replacing a whole message, or
dropping it, is a deviation on a bound leaf -/
def everyMessageBound (g : Graph) : Bool :=
  g.preds.isEmpty || g.leaves.all fun l => g.messageBound l.round l.kind

/-- predicates evaluated by receivers inside the sender loop are tagged, except the listed aggregate
checks (which see only sums: `pk` sum, `oldPk = newPk`, the multiplier's `mu`, OT consistency) -/
def taggedOrAggregate (g : Graph) : Bool :=
  g.preds.all fun p => p.tagged || p.who == .aggregator || untaggedAllowed.contains p.name

/-- every vector-valued leaf is a declared leaf bound by at least one TAGGED per-row family, and a
per-row family binds at least one vector-valued leaf -/
def vectorsPerRow (g : Graph) : Bool :=
  (g.vectors.all fun l => g.leaves.contains l && (g.predsOn l).any fun p => p.perRow && p.tagged) &&
  (g.preds.all fun p => !p.perRow || p.binds.any fun l => g.vectors.contains l)

theorem graphs_well_formed :
    allGraphs.all (fun g => predsDeclared g && everyMessageBound g && taggedOrAggregate g && vectorsPerRow g) = true := by
  decide

/-- every coherent deviation names at least one predicate of its graph, and a graph lists a kind once -/
def coherentDeclared (g : Graph) : Bool :=
  (g.coherent.all fun c => !c.caughtBy.isEmpty && c.caughtBy.all fun n => g.preds.any (·.name == n)) &&
  decide ((g.coherent.map (·.kind)).Nodup)

/-- the claim-vs-aggregate predicate of redistribution inspects EVERY sender's claim -/
def claimsEverySender : Bool :=
  redistribute.preds.any fun p => p.name == "oldPk-equals-newPk" && p.everySender

theorem coherent_well_formed :
    allGraphs.all coherentDeclared = true ∧ claimsEverySender = true := by
  decide

/-- the driver's guard on vector-valued leaves never fires on the shipped graphs: a site classified
as a bound leaf that is a declared vector comes with a per-row family -/
theorem vectors_have_row_families :
    allGraphs.all (fun g => g.vectors.all fun l => (g.predsOn l).any (·.perRow)) = true := by
  decide

theorem graph_names_distinct : (allGraphs.map (·.proto)).Nodup := by decide

/-! ### non-vacuity on a concrete small graph -/

namespace Example

def lC : Leaf := ⟨1, .bcast, "commitment"⟩
def lM : Leaf := ⟨2, .bcast, "message"⟩
def lFree : Leaf := ⟨2, .bcast, "nonce"⟩

def pOpen : Pred := { name := "open", evalRound := 3, who := .receivers, tagged := true, binds := [lC, lM] }

def g : Graph := { proto := "toy", leaves := [lC, lM, lFree], preds := [pOpen], gate := "verify" }

/-- toy commitment: the commitment is the message plus 7 -/
def holds (p : Pred) (_c : Unit) (m : Leaf → Nat) : Prop := p = pOpen → m lC = m lM + 7 ∧ m lM = 5

instance : ∀ p c m, Decidable (holds p c m) := fun p c m => by unfold holds; infer_instance

theorem toy_binding : ∀ p ∈ g.preds, Binding holds p := by
  intro p hp c m m' h1 h2 l hl
  have hpe : p = pOpen := by simpa [g] using hp
  subst hpe
  have a := h1 rfl
  have b := h2 rfl
  have : l = lC ∨ l = lM := by simpa [pOpen] using hl
  rcases this with rfl | rfl
  · omega
  · omega

def honestMsg : Nat → Leaf → Nat := fun _ l => if l = lC then 12 else if l = lM then 5 else 0
def tamperedMsg : Nat → Leaf → Nat := fun s l => if s = 2 ∧ l = lM then 6 else honestMsg s l

example : receive g.preds (fun p s => decide (holds p () (tamperedMsg s))) [1, 2, 3] ≠ Verdict.accept :=
  detect g holds toy_binding () honestMsg tamperedMsg [1, 2, 3] 2 (by decide)
    (by intro p hp; have : p = pOpen := by simpa [g] using hp
        subst this; intro _; decide)
    lM (by decide) (by decide)

example : receive g.preds (fun p s => decide (holds p () (tamperedMsg s))) [1, 2, 3] = Verdict.reject (some 2) := by
  decide

example : receive g.preds (fun p s => decide (holds p () (honestMsg s))) [1, 2, 3] = Verdict.accept := by decide

example : g.bound lFree = false ∧ g.bound lM = true ∧ g.bound lC = true := by decide

/-- blame soundness on the toy run: the blamed party is the deviator 2 -/
example : (2 : Nat) = 2 :=
  (blame_sound g.preds (fun p s => decide (holds p () (tamperedMsg s))) [1, 2, 3] 2 2
    (by intro s hs hne p hp
        have : p = pOpen := by simpa [g] using hp
        subst this
        have : s = 1 ∨ s = 3 := by
          simp at hs; omega
        rcases this with rfl | rfl <;> decide)
    (by decide))

example : release [Verdict.accept, (Verdict.reject (some 2) : Verdict Nat)] true "sig" = none := by decide
example : release [(Verdict.accept : Verdict Nat), Verdict.accept] false "sig" = none := by decide
example : release [(Verdict.accept : Verdict Nat), Verdict.accept] true "sig" = some "sig" := by decide

example : ∀ a : ZMod 7, a • (1 : ZMod 7) = 0 → a = 0 := by decide
example : (3 : ZMod 7) = 3 := binding_share (R := ZMod 7) (G := ZMod 7) 1 (by decide) 3 3 3 (by decide) (by decide)

end Example

end BronVerif.Props.C04
