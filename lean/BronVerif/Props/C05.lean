import Mathlib.Algebra.Module.Basic
import Mathlib.Algebra.Field.Basic
import Mathlib.Algebra.BigOperators.Group.Finset.Basic
import Mathlib.Algebra.Module.BigOperators
import Mathlib.Data.ZMod.Basic
import Mathlib.Algebra.Field.ZMod
import Mathlib.Tactic.Abel
import Mathlib.Data.Fin.VecNotation
import BronVerif.Lemmas.Vss
/-!
# C05 — share verification accepts exactly the dealer's shares (property theorems)

All theorems except `reconstruct_in_exponent` are about the definitions of `Model/Vss.lean` that
the driver executes (`feldmanVerify`, `pedersenVerify`, `vvOp`, `shareOf`, `actOnColumn` — the
latter is `LinAlg.leftAction` on a column), for an arbitrary field `F`, an arbitrary `F`-module
`G`, matrices and vectors of any size.  The prime-order-group idealisation is the hypothesis
`hg : ∀ a, a • g = 0 → a = 0` (the generator has no non-trivial annihilator).
-/
set_option linter.unusedSectionVars false
namespace BronVerif.Props.C05
open BronVerif.LinAlg BronVerif.Vss BronVerif.Lemmas.Vss

variable {F G : Type} [Field F] [DecidableEq F] [AddCommGroup G] [Module F G] [DecidableEq G]

/-- the non-vacuity examples live in the field `ZMod 7` acting on itself, generator `1` -/
local instance : Fact (Nat.Prime 7) := ⟨by decide⟩

theorem hg7 : ∀ a : ZMod 7, a • (1 : ZMod 7) = 0 → a = 0 := fun a h => by simpa using h

/-- (2,3)-threshold MSP over `ZMod 7` (Vandermonde rows of the holders 1, 2, 3) and a CNF-like MSP
in which holder 1 owns two rows -/
abbrev M23 : Mat (ZMod 7) := [[1, 1], [1, 2], [1, 3]]
abbrev Mcnf : Mat (ZMod 7) := [[1, 1], [0, 6], [1, 0]]

/-- the verifier's expected lifted share is the lift of the dealer's share -/
theorem expected_of_honest (M : Mat F) (labels : List Nat) (r : List F) (g : G) (id : Nat) :
    actOnColumn (Vss.pick labels id M) (liftColumn r g) = (shareOf M labels r id).map (· • g) := by
  simp only [actOnColumn_eq, gdot_lift, shareOf, mulVec, pick_map, List.map_map, Function.comp_def]

/-- **Feldman verification accepts exactly the dealer's value**: against `V = r • g`, the pair
`(id, s)` passes iff the dimension guard holds, `id` is a holder and `s` equals the whole
vector `(M r)|_id` the dealer's sharing assigns to `id`. -/
theorem feldman_verify_iff (g : G) (hg : ∀ a : F, a • g = 0 → a = 0) (M : Mat F)
    (labels : List Nat) (r : List F) (id : Nat) (s : List F) :
    feldmanVerify M labels (liftColumn r g) g id s = true ↔
      numCols M = r.length ∧ id ∈ labels ∧ s = shareOf M labels r id := by
  unfold feldmanVerify
  have hinj := List.map_injective_iff.mpr (smul_gen_injective g hg)
  simp only [Bool.and_eq_true, liftedEq_iff, expected_of_honest, beq_iff_eq, List.contains_iff_mem]
  simp only [liftColumn, List.length_map]
  constructor
  · rintro ⟨⟨h1, h2⟩, h3⟩; exact ⟨h1, h2, hinj h3⟩
  · rintro ⟨h1, h2, h3⟩; exact ⟨⟨h1, h2⟩, by rw [h3]⟩


example := (feldman_verify_iff (F := ZMod 7) (1 : ZMod 7) hg7 M23 [1, 2, 3] [3, 5] 2 _).mpr
  ⟨rfl, by decide, rfl⟩

/-- any share whose length differs from the number of rows of the holder is rejected, whatever `V` -/
theorem feldman_len_share (g : G) (M : Mat F) (labels : List Nat) (V : List G) (id : Nat) (s : List F)
    (h : s.length ≠ (Vss.pick labels id M).length) : feldmanVerify M labels V g id s = false := by
  by_contra hc
  have hc : feldmanVerify M labels V g id s = true := by simpa using hc
  unfold feldmanVerify at hc
  simp only [Bool.and_eq_true, liftedEq_iff, actOnColumn_eq] at hc
  have := congrArg List.length hc.2
  simp at this
  exact h this


example := feldman_len_share (F := ZMod 7) (1 : ZMod 7) Mcnf [1, 2, 1] [3, 5] 1 [1] (by decide)

/-- a verification vector whose length differs from the MSP column count is rejected for every
holder and every share (the guard against the Dahlgren attack) -/
theorem feldman_len_vv (g : G) (M : Mat F) (labels : List Nat) (V : List G) (id : Nat) (s : List F)
    (h : V.length ≠ numCols M) : feldmanVerify M labels V g id s = false := by
  unfold feldmanVerify
  have : (numCols M == V.length) = false := by rw [beq_eq_false_iff_ne]; exact fun e => h e.symm
  simp [this]


example := feldman_len_vv (F := ZMod 7) (1 : ZMod 7) M23 [1, 2, 3] [3, 5, 0] 1 [1] (by decide)

/-- changing entry `k` of an accepted verification vector by `δ ≠ 0` keeps a holder's share valid
**iff** none of the holder's rows has a non-zero coefficient in column `k`; in particular
verification fails for every holder whose share depends on that entry. -/
theorem feldman_vv_entry (g : G) (M : Mat F) (labels : List Nat) (V : List G) (id : Nat) (s : List F)
    (k : Nat) (δ : G) (hδ : δ ≠ 0) (hk : k < V.length)
    (hacc : feldmanVerify M labels V g id s = true) :
    feldmanVerify M labels (V.set k (V.getD k 0 + δ)) g id s = true ↔
      ∀ row ∈ Vss.pick labels id M, row.getD k 0 = 0 := by
  unfold feldmanVerify at hacc ⊢
  simp only [Bool.and_eq_true, liftedEq_iff, actOnColumn_eq, List.length_set] at hacc ⊢
  obtain ⟨⟨h1, h2⟩, h3⟩ := hacc
  constructor
  · rintro ⟨_, h4⟩ row hrow
    have := h3.symm.trans h4
    rw [List.map_inj_left] at this
    have h5 := this row hrow
    rw [gdot_set row V k δ hk] at h5
    have h6 : row.getD k 0 • δ = 0 := by simpa using h5.symm
    exact (smul_eq_zero.mp h6).resolve_right hδ
  · intro h
    refine ⟨⟨h1, h2⟩, h3.trans ?_⟩
    rw [List.map_inj_left]
    intro row hrow
    rw [gdot_set row V k δ hk, h row hrow]; simp


example := feldman_vv_entry (F := ZMod 7) (1 : ZMod 7) Mcnf [1, 2, 1] (liftColumn [3, 5] 1) 1 _ 1
  (1 : ZMod 7) one_ne_zero (by simp [liftColumn])
  ((feldman_verify_iff (1 : ZMod 7) hg7 Mcnf [1, 2, 1] [3, 5] 1 _).mpr ⟨rfl, by decide, rfl⟩)

/-- a share presented under another holder's identity passes iff the two holders were assigned the
same value -/
theorem feldman_wrong_id (g : G) (hg : ∀ a : F, a • g = 0 → a = 0) (M : Mat F) (labels : List Nat)
    (r : List F) (i j : Nat) (hdim : numCols M = r.length) (hi : i ∈ labels) :
    feldmanVerify M labels (liftColumn r g) g i (shareOf M labels r j) = true ↔
      shareOf M labels r j = shareOf M labels r i := by
  rw [feldman_verify_iff g hg]; exact ⟨fun h => h.2.2, fun h => ⟨hdim, hi, h⟩⟩


example := feldman_wrong_id (F := ZMod 7) (1 : ZMod 7) hg7 M23 [1, 2, 3] [3, 5] 1 2 rfl (by decide)

/-- an accepted share is the only vector accepted for that holder against that `V` -/
theorem feldman_verify_unique (g : G) (hg : ∀ a : F, a • g = 0 → a = 0) (M : Mat F) (labels : List Nat)
    (V : List G) (id : Nat) (s s' : List F)
    (h : feldmanVerify M labels V g id s = true) (h' : feldmanVerify M labels V g id s' = true) :
    s = s' := by
  unfold feldmanVerify at h h'
  simp only [Bool.and_eq_true, liftedEq_iff] at h h'
  exact List.map_injective_iff.mpr (smul_gen_injective g hg) (h.2.trans h'.2.symm)

example := feldman_verify_unique (F := ZMod 7) (1 : ZMod 7) hg7 M23 [1, 2, 3] _ 2 _ _
  ((feldman_verify_iff (1 : ZMod 7) hg7 M23 [1, 2, 3] [3, 5] 2 _).mpr ⟨rfl, by decide, rfl⟩)
  ((feldman_verify_iff (1 : ZMod 7) hg7 M23 [1, 2, 3] [3, 5] 2 _).mpr ⟨rfl, by decide, rfl⟩)

/-- combined dealings: `VerificationVector.Op` of two accepted vectors exists and verifies the sum
of the shares (by `feldman_verify_unique` it verifies nothing else); by induction this covers any
number of dealers -/
theorem vv_op_verifies_sum (g : G) (M : Mat F) (labels : List Nat) (V W : List G) (id : Nat)
    (s t : List F) (h1 : feldmanVerify M labels V g id s = true)
    (h2 : feldmanVerify M labels W g id t = true) :
    ∃ U, vvOp V W = some U ∧ feldmanVerify M labels U g id (shareAdd s t) = true := by
  unfold feldmanVerify at h1 h2
  simp only [Bool.and_eq_true, liftedEq_iff, actOnColumn_eq, beq_iff_eq] at h1 h2
  obtain ⟨⟨hV, hid⟩, hs⟩ := h1
  obtain ⟨⟨hW, _⟩, ht⟩ := h2
  have hlen : V.length = W.length := hV.symm.trans hW
  refine ⟨List.zipWith (· + ·) V W, by simp [vvOp, hlen], ?_⟩
  unfold feldmanVerify
  simp only [Bool.and_eq_true, liftedEq_iff, actOnColumn_eq, beq_iff_eq, List.length_zipWith]
  refine ⟨⟨by omega, hid⟩, ?_⟩
  have e1 : (List.map (fun row => gdot row (List.zipWith (· + ·) V W)) (Vss.pick labels id M))
      = List.zipWith (· + ·) ((Vss.pick labels id M).map fun row => gdot row V)
          ((Vss.pick labels id M).map fun row => gdot row W) := by
    rw [List.zipWith_map_left, List.zipWith_map_right, List.zipWith_self]
    exact List.map_congr_left fun row _ => gdot_add row V W hlen
  rw [e1, ← hs, ← ht, shareAdd]
  simp [List.zipWith_map_left, List.zipWith_map_right, List.map_zipWith, add_smul]


example := vv_op_verifies_sum (F := ZMod 7) (1 : ZMod 7) Mcnf [1, 2, 1] _ _ 1 _ _
  ((feldman_verify_iff (1 : ZMod 7) hg7 Mcnf [1, 2, 1] [3, 5] 1 _).mpr ⟨rfl, by decide, rfl⟩)
  ((feldman_verify_iff (1 : ZMod 7) hg7 Mcnf [1, 2, 1] [6, 1] 1 _).mpr ⟨rfl, by decide, rfl⟩)

/-! ### Verification data held in a reused object

The library's vector is a mutable object; the property speaks about the verification *data*.  The
following theorems say what a correct implementation must do after the object was changed in
place (the `@reuse` lines of the stream, key `stale-state-…`). -/

/-- verification on an object is a function of the value it holds now: two objects with the same
current value — whatever they were used with before — give the same verdict for every MSP,
holder and share (definitional in the model; this is the statement the `@reuse` lines test) -/
theorem verify_depends_only_on_current_value (g : G) (M : Mat F) (labels : List Nat)
    (o o' : VVObject G) (id : Nat) (s : List F) (h : o.value = o'.value) :
    feldmanVerifyObject M labels o g id s = feldmanVerifyObject M labels o' g id s := by
  unfold feldmanVerifyObject; rw [h]

example := verify_depends_only_on_current_value (F := ZMod 7) (1 : ZMod 7) M23 [1, 2, 3]
  ((VVObject.fresh [3, 5]).update [2, 6]) (VVObject.fresh [2, 6]) 2 [0] rfl

/-- after any sequence of in-place changes the object behaves as a fresh object of its last value -/
theorem verify_after_update (g : G) (M : Mat F) (labels : List Nat) (o : VVObject G) (V : List G)
    (id : Nat) (s : List F) :
    feldmanVerifyObject M labels (o.update V) g id s = feldmanVerify M labels V g id s := rfl

example : feldmanVerifyObject M23 [1, 2, 3] ((VVObject.fresh [(3 : ZMod 7), 5]).update [2, 6])
    (1 : ZMod 7) 2 [0] = true := by
  rw [verify_after_update]; decide

/-- the same for Pedersen verification -/
theorem pedersen_verify_depends_only_on_current_value (g h : G) (M : Mat F) (labels : List Nat)
    (o o' : VVObject G) (id : Nat) (s b : List F) (hv : o.value = o'.value) :
    pedersenVerifyObject M labels o g h id s b = pedersenVerifyObject M labels o' g h id s b := by
  unfold pedersenVerifyObject; rw [hv]

example := pedersen_verify_depends_only_on_current_value (F := ZMod 7) (1 : ZMod 7) (3 : ZMod 7) M23
  [1, 2, 3] ((VVObject.fresh [3, 5]).update [2, 0]) (VVObject.fresh [2, 0]) 2 [6] [1] rfl

/-- **a used object that is overwritten with another dealer's vector accepts exactly the other
dealer's shares** (decode into a used object): `feldman_verify_iff` for the updated object -/
theorem verify_after_update_iff (g : G) (hg : ∀ a : F, a • g = 0 → a = 0) (M : Mat F)
    (labels : List Nat) (o : VVObject G) (r' : List F) (id : Nat) (s : List F) :
    feldmanVerifyObject M labels (o.update (liftColumn r' g)) g id s = true ↔
      numCols M = r'.length ∧ id ∈ labels ∧ s = shareOf M labels r' id := by
  rw [verify_after_update]; exact feldman_verify_iff g hg M labels r' id s

/-- the object first held dealer `[3,5]`'s vector, then dealer `[6,1]`'s: holder 2's share of the
second dealing is accepted … -/
example := (verify_after_update_iff (F := ZMod 7) (1 : ZMod 7) hg7 M23 [1, 2, 3]
  (VVObject.fresh (liftColumn [3, 5] 1)) [6, 1] 2 _).mpr ⟨rfl, by decide, rfl⟩

/-- … and holder 2's share of the first dealing is not -/
example : feldmanVerifyObject M23 [1, 2, 3]
    ((VVObject.fresh (liftColumn [(3 : ZMod 7), 5] (1 : ZMod 7))).update (liftColumn [6, 1] 1)) 1 2
    (shareOf M23 [1, 2, 3] [3, 5] 2) = false := by decide

/-- **when does a verdict survive a change of the vector?**  A share accepted against `V` is
accepted against `V'` iff `V'` has the right length and yields the *same* expected lifted share
for that holder.  (So an implementation answering from a product `M·V` computed before the change
is right exactly when the holder's part of `M·V'` equals that of `M·V`.) -/
theorem vv_update_keeps_verdict_iff (g : G) (M : Mat F) (labels : List Nat) (V V' : List G)
    (id : Nat) (s : List F) (hacc : feldmanVerify M labels V g id s = true) :
    feldmanVerify M labels V' g id s = true ↔
      numCols M = V'.length ∧
        actOnColumn (Vss.pick labels id M) V' = actOnColumn (Vss.pick labels id M) V := by
  unfold feldmanVerify at hacc ⊢
  simp only [Bool.and_eq_true, liftedEq_iff, beq_iff_eq] at hacc ⊢
  obtain ⟨⟨_, h2⟩, h3⟩ := hacc
  constructor
  · rintro ⟨⟨h1', _⟩, h3'⟩; exact ⟨h1', h3'.symm.trans h3⟩
  · rintro ⟨h1', he⟩; exact ⟨⟨h1', h2⟩, h3.trans he.symm⟩

example := (vv_update_keeps_verdict_iff (F := ZMod 7) (1 : ZMod 7) Mcnf [1, 2, 1]
  (liftColumn [3, 5] 1) (liftColumn [3, 5] 1) 1 _
  ((feldman_verify_iff (1 : ZMod 7) hg7 Mcnf [1, 2, 1] [3, 5] 1 _).mpr ⟨rfl, by decide, rfl⟩)).mpr
  ⟨rfl, rfl⟩

/-- **a changed entry changes the verdict**: if entry `k` of the vector is changed by `δ ≠ 0` and
holder `id` has a row with a non-zero coefficient in column `k`, then no share verifies for `id`
under both the old and the new vector — an object that still accepts the old share after the
change is wrong, and so is one that rejects the new dealer's share -/
theorem vv_update_changes_verdict (g : G) (M : Mat F) (labels : List Nat) (V : List G) (id : Nat)
    (s : List F) (k : Nat) (δ : G) (hδ : δ ≠ 0) (hk : k < V.length)
    (hrow : ∃ row ∈ Vss.pick labels id M, row.getD k 0 ≠ 0) :
    ¬ (feldmanVerify M labels V g id s = true ∧
        feldmanVerify M labels (V.set k (V.getD k 0 + δ)) g id s = true) := by
  rintro ⟨h1, h2⟩
  obtain ⟨row, hr, hne⟩ := hrow
  exact hne ((feldman_vv_entry g M labels V id s k δ hδ hk h1).mp h2 row hr)

/-- threshold (2,3): every holder depends on entry 1 -/
example := vv_update_changes_verdict (F := ZMod 7) (1 : ZMod 7) M23 [1, 2, 3] (liftColumn [3, 5] 1) 2
  (shareOf M23 [1, 2, 3] [3, 5] 2) 1 (1 : ZMod 7) one_ne_zero (by simp [liftColumn])
  ⟨[1, 2], by decide, by decide⟩

/-- the same at the level of objects: after the in-place change of one entry the object must not
accept what it accepted before, for every holder depending on that entry -/
theorem object_entry_update_rejects_old (g : G) (M : Mat F) (labels : List Nat) (o : VVObject G)
    (id : Nat) (s : List F) (k : Nat) (δ : G) (hδ : δ ≠ 0) (hk : k < o.value.length)
    (hrow : ∃ row ∈ Vss.pick labels id M, row.getD k 0 ≠ 0)
    (hacc : feldmanVerifyObject M labels o g id s = true) :
    feldmanVerifyObject M labels (o.update (o.value.set k (o.value.getD k 0 + δ))) g id s = false := by
  by_contra hc
  have hc : feldmanVerifyObject M labels (o.update (o.value.set k (o.value.getD k 0 + δ))) g id s
      = true := by simpa using hc
  exact vv_update_changes_verdict g M labels o.value id s k δ hδ hk hrow ⟨hacc, hc⟩

example := object_entry_update_rejects_old (F := ZMod 7) (1 : ZMod 7) M23 [1, 2, 3]
  (VVObject.fresh (liftColumn [3, 5] 1)) 2 (shareOf M23 [1, 2, 3] [3, 5] 2) 1 (1 : ZMod 7)
  one_ne_zero (by simp [liftColumn, VVObject.fresh]) ⟨[1, 2], by decide, by decide⟩
  ((feldman_verify_iff (1 : ZMod 7) hg7 M23 [1, 2, 3] [3, 5] 2 _).mpr ⟨rfl, by decide, rfl⟩)

/-- **reconstruction in the exponent** (abstract linear algebra, instantiated by
`Vss.reconstructInExponent`): for public shares `Λᵢ = Σₖ Mᵢₖ • Vₖ` and any coefficient vector `c`
with `c · M = e₀`, `Σᵢ cᵢ • Λᵢ = V₀`; with `V = r • g` this is `r₀ • g`.  Stated over index types,
not over the list model. -/
theorem reconstruct_in_exponent {ρ δ : Type} [Fintype ρ] [Fintype δ] [DecidableEq δ]
    (M : ρ → δ → F) (V : δ → G) (c : ρ → F) (k0 : δ)
    (hc : ∀ k, ∑ i, c i * M i k = if k = k0 then 1 else 0) :
    ∑ i, c i • ∑ k, M i k • V k = V k0 := by
  simp_rw [Finset.smul_sum, smul_smul]
  rw [Finset.sum_comm]
  simp_rw [← Finset.sum_smul, hc]
  simp


example := reconstruct_in_exponent (F := ZMod 7) (G := ZMod 7)
  (![![1, 1], ![1, 2]] : Fin 2 → Fin 2 → ZMod 7) ![3, 5] ![2, 6] 0 (by decide)

/-- **extension by identity**: against the MSP extended by extra columns, the verification vector
extended by identity entries yields the same expected lifted shares, hence accepts exactly the same
shares for the same rows -/
theorem extend_by_identity (rows ext : Mat F) (V : List G) (m : Nat)
    (hlen : ext.length = rows.length) (hrows : ∀ row ∈ rows, row.length = V.length) :
    actOnColumn (List.zipWith (· ++ ·) rows ext) (V ++ List.replicate m 0) = actOnColumn rows V := by
  simp only [actOnColumn_eq]
  induction rows generalizing ext with
  | nil => simp
  | cons row rows ih =>
    cases ext with
    | nil => simp at hlen
    | cons e es =>
      have h1 := ih es (by simpa using hlen) (fun r hr => hrows r (List.mem_cons_of_mem _ hr))
      have h2 : row.length = V.length := hrows row List.mem_cons_self
      simp [h1, gdot_append row e V _ h2, gdot_replicate_zero]

/-- `extend_by_identity` at the level of `feldmanVerify`: `M' = [M | E]`, `V' = V ++ 0…0` -/
theorem extend_by_identity_verify (g : G) (M E : Mat F) (labels : List Nat) (V : List G) (m : Nat)
    (id : Nat) (s : List F) (hlen : E.length = M.length) (hM : ∀ row ∈ M, row.length = V.length)
    (hcols : numCols M = V.length) (hcols' : numCols (List.zipWith (· ++ ·) M E) = V.length + m) :
    feldmanVerify (List.zipWith (· ++ ·) M E) labels (V ++ List.replicate m 0) g id s
      = feldmanVerify M labels V g id s := by
  unfold feldmanVerify
  have hE : (Vss.pick labels id E).length = (Vss.pick labels id M).length := pick_length _ _ _ _ hlen
  have hr : ∀ row ∈ Vss.pick labels id M, row.length = V.length := by
    intro row hrow
    apply hM
    simp only [Vss.pick, List.mem_map, List.mem_filter] at hrow
    obtain ⟨⟨l, r⟩, ⟨hz, _⟩, rfl⟩ := hrow
    exact (List.of_mem_zip hz).2
  rw [pick_zipWith, extend_by_identity _ _ V m hE hr]
  simp [hcols, hcols']


example := extend_by_identity_verify (F := ZMod 7) (1 : ZMod 7) Mcnf [[4], [0], [2]] [1, 2, 1]
  [(3 : ZMod 7), 5] 1 1 [1, 3] rfl (by decide) rfl rfl

/-- **Pedersen completeness**: the dealer's share (secret part and blinding part) of every holder
verifies against `V = r_g • g + r_h • h` -/
theorem pedersen_verify_complete (g h : G) (M : Mat F) (labels : List Nat) (rg rh : List F) (id : Nat)
    (hg : numCols M = rg.length) (hh : rg.length = rh.length) (hid : id ∈ labels) :
    pedersenVerify M labels (pedersenColumn rg rh g h) g h id
      (shareOf M labels rg id) (shareOf M labels rh id) = true := by
  unfold pedersenVerify
  have hl : (pedersenColumn rg rh g h).length = rg.length := by simp [pedersenColumn, hh]
  simp only [Bool.and_eq_true, beq_iff_eq, List.contains_iff_mem, pedersenLiftedEq_iff, actOnColumn_eq, hl]
  refine ⟨⟨hg, hid⟩, ?_, ?_⟩
  · simp only [shareOf, mulVec]; exact pick_length _ _ _ _ (by simp)
  · simp only [shareOf, mulVec, pick_map, List.zipWith_map_left, List.zipWith_map_right, List.zipWith_self]
    exact List.map_congr_left fun row _ => (gdot_pedersen row rg rh g h hh).symm


example := pedersen_verify_complete (F := ZMod 7) (1 : ZMod 7) (3 : ZMod 7) Mcnf [1, 2, 1] [3, 5] [2, 4] 1
  rfl rfl (by decide)

/-- Pedersen: wrong share length / wrong verification-vector length are rejected -/
theorem pedersen_len_share (g h : G) (M : Mat F) (labels : List Nat) (V : List G) (id : Nat) (s b : List F)
    (hne : s.length ≠ (Vss.pick labels id M).length ∨ b.length ≠ (Vss.pick labels id M).length) :
    pedersenVerify M labels V g h id s b = false := by
  by_contra hc
  have hc : pedersenVerify M labels V g h id s b = true := by simpa using hc
  unfold pedersenVerify at hc
  simp only [Bool.and_eq_true, pedersenLiftedEq_iff, actOnColumn_eq] at hc
  have := congrArg List.length hc.2.2
  simp at this
  omega

example := pedersen_len_share (F := ZMod 7) (1 : ZMod 7) (3 : ZMod 7) Mcnf [1, 2, 1] [3, 5] 1 [1] [1, 2]
  (Or.inl (by decide))

theorem pedersen_len_vv (g h : G) (M : Mat F) (labels : List Nat) (V : List G) (id : Nat) (s b : List F)
    (hne : V.length ≠ numCols M) : pedersenVerify M labels V g h id s b = false := by
  unfold pedersenVerify
  have : (numCols M == V.length) = false := by rw [beq_eq_false_iff_ne]; exact fun e => hne e.symm
  simp [this]

example := pedersen_len_vv (F := ZMod 7) (1 : ZMod 7) (3 : ZMod 7) Mcnf [1, 2, 1] [3] 1 [1] [1] (by decide)

/-- The full soundness statement of Pedersen VSS (an accepted share is the dealer's) is only
computational; it is kept here as a proposition and **not** claimed. -/
def pedersen_verify_sound_statement (g h : G) : Prop :=
  ∀ (M : Mat F) (labels : List Nat) (rg rh : List F) (id : Nat) (s b : List F),
    pedersenVerify M labels (pedersenColumn rg rh g h) g h id s b = true →
      s = shareOf M labels rg id ∧ b = shareOf M labels rh id

/-- what two accepted openings of the same commitments give (used by the induction) -/
theorem pedersen_extract_aux (g h : G) (hg : ∀ a : F, a • g = 0 → a = 0) :
    ∀ (s b s' b' : List F) (Ps : List G),
      pedersenLiftedEq g h s b Ps = true → pedersenLiftedEq g h s' b' Ps = true →
      (s ≠ s' ∨ b ≠ b') → ∃ a, pedersenExtract s b s' b' = some a ∧ h = a • g := by
  intro s
  induction s with
  | nil =>
    intro b s' b' Ps h1 h2 hne
    cases b <;> cases Ps <;> simp [pedersenLiftedEq] at h1
    cases s' <;> cases b' <;> simp [pedersenLiftedEq] at h2
    simp at hne
  | cons x xs ih =>
    intro b s' b' Ps h1 h2 hne
    cases b with
    | nil => cases Ps <;> simp [pedersenLiftedEq] at h1
    | cons y ys =>
      cases Ps with
      | nil => simp [pedersenLiftedEq] at h1
      | cons P Ps =>
        cases s' with
        | nil => cases b' <;> simp [pedersenLiftedEq] at h2
        | cons x' xs' =>
          cases b' with
          | nil => simp [pedersenLiftedEq] at h2
          | cons y' ys' =>
            simp only [pedersenLiftedEq, Bool.and_eq_true, beq_iff_eq] at h1 h2
            have e : x • g + y • h = x' • g + y' • h := h1.1.trans h2.1.symm
            by_cases hy : y = y'
            · subst hy
              have : x • g = x' • g := add_right_cancel e
              have hx : x = x' := smul_gen_injective g hg this
              subst hx
              have hne' : xs ≠ xs' ∨ ys ≠ ys' := by
                rcases hne with hne | hne
                · left; intro hh; exact hne (by rw [hh])
                · right; intro hh; exact hne (by rw [hh])
              obtain ⟨a, ha, hh⟩ := ih ys xs' ys' Ps h1.2 h2.2 hne'
              exact ⟨a, by simp [pedersenExtract, ha], hh⟩
            · refine ⟨(x - x') * (y' - y)⁻¹, by simp [pedersenExtract, hy], ?_⟩
              have hd : y' - y ≠ 0 := sub_ne_zero.mpr (Ne.symm hy)
              have e2 : (y' - y) • h = (x - x') • g := by
                simp only [sub_smul]
                rw [sub_eq_sub_iff_add_eq_add]
                rw [add_comm (y' • h), add_comm (x • g)]
                exact e.symm ▸ (by abel_nf)
              calc h = (y' - y)⁻¹ • ((y' - y) • h) := by rw [smul_smul, inv_mul_cancel₀ hd, one_smul]
                _ = ((x - x') * (y' - y)⁻¹) • g := by rw [e2, smul_smul, mul_comm]

/-- **Pedersen binding as an extractor** (the `_partial` of soundness): two different openings
`(s, b) ≠ (s', b')` accepted for one holder against the same verification vector yield
`log_g h` explicitly (`Vss.pedersenExtract`).  Hence an adversary who makes verification accept
anything but the dealer's share knows the discrete logarithm of `h`. -/
theorem pedersen_binding_extract_partial (g h : G) (hg : ∀ a : F, a • g = 0 → a = 0) (M : Mat F)
    (labels : List Nat) (V : List G) (id : Nat) (s b s' b' : List F)
    (h1 : pedersenVerify M labels V g h id s b = true)
    (h2 : pedersenVerify M labels V g h id s' b' = true) (hne : s ≠ s' ∨ b ≠ b') :
    ∃ a, pedersenExtract s b s' b' = some a ∧ h = a • g := by
  unfold pedersenVerify at h1 h2
  simp only [Bool.and_eq_true] at h1 h2
  exact pedersen_extract_aux g h hg s b s' b' _ h1.2 h2.2 hne


/-- two different openings of holder 2's commitment `2 = 6·1 + 1·3 = 2·1 + 0·3` in `ZMod 7` -/
example := pedersen_binding_extract_partial (F := ZMod 7) (1 : ZMod 7) (3 : ZMod 7) hg7 M23 [1, 2, 3]
  [2, 0] 2 [6] [1] [2] [0] (by decide) (by decide) (by decide)

end BronVerif.Props.C05
