import Mathlib.Algebra.Module.Basic
import Mathlib.Algebra.Field.Basic
import Mathlib.Algebra.Group.Hom.Defs
import Mathlib.Algebra.Module.Pi
import Mathlib.Data.ZMod.Basic
import Mathlib.Data.Fintype.Pi
import Mathlib.Data.Fintype.Card
import Mathlib.Data.Fin.VecNotation
import Mathlib.Tactic.Ring
import Mathlib.Tactic.Abel
import Mathlib.Tactic.LinearCombination
import BronVerif.Lemmas.OTAlgebra
import BronVerif.Lemmas.OTBf128
/-!
# C09 — oblivious transfer and multiplication outputs are correctly correlated (property theorems)

* `bf128_mul_spec` — the model product of GF(2^128) is the carry-less product reduced modulo
  `X^128 + X^7 + X^2 + X + 1`;
* `baseot_correct` — both base OTs (VSOT, endemic/POPF "ecbbot") as Diffie–Hellman key agreements;
* `softspoken_correlation` — rows `qᵢ = t⁰ᵢ ⊕ Δᵢ·x'` and, after transposition, receiver's column =
  sender's column for the receiver's choice bit;
* `softspoken_check_complete`, `softspoken_check_exact` — the consistency check, honest and with
  arbitrary deviations (`_exact` is the exact algebraic acceptance condition; the probability that a
  random challenge satisfies it is not proved: see `softspoken_check_sound_statement`);
* `rvole_correct`, `rvole_check_complete`, `rvole_check_exact` — the multiplier.

The OT/rvole theorems are about the generic definitions of `Model/OT.lean`, `Model/Rvole.lean` that the
driver instantiates with `Bf128.BF`, `Fp q` and zero-padded lists.
-/
namespace BronVerif.Props.C09
open BronVerif.OT BronVerif.Rvole BronVerif.Lemmas.OT

/-! ## bf128 -/

/-- The model product `Bf128.mul a b` (what the driver compares `FieldElement.Mul` with) is *the*
reduction of the carry-less product modulo the field polynomial: (1) coefficient `k` of the
carry-less product is the GF(2) convolution `⊕_{i ≤ k, i < 128} aᵢ ∧ b_{k-i}`; (2) the result differs
from the carry-less product by a GF(2)[X]-multiple of `X^128 + X^7 + X^2 + X + 1` (an XOR of shifted
copies of `poly`); (3) the result has degree `< 128`. -/
theorem bf128_mul_spec (a b : Nat) (ha : a < 2 ^ 128) (hb : b < 2 ^ 128) :
    (∀ k, (Bf128.clmul a b).testBit k = Lemmas.Bf128.convBit a b 128 k)
    ∧ Lemmas.Bf128.PolyMultiple (Bf128.clmul a b ^^^ Bf128.mul a b)
    ∧ Bf128.mul a b < 2 ^ 128 :=
  ⟨fun k => Lemmas.Bf128.clmulAux_testBit a b 128 k,
   Lemmas.Bf128.reduce_congr _,
   Lemmas.Bf128.reduce_lt _ (Lemmas.Bf128.clmul_lt a b ha hb)⟩

/-- non-vacuity / sanity on the reduction boundary: `X^127 · X = X^7 + X^2 + X + 1`, and the
multiple relation is not trivially true for everything (`1` is not a multiple of the polynomial
of degree `< 128`: the model product of `1·1` is `1`, not `0`). -/
example : Bf128.mul (2 ^ 127) 2 = 0x87 ∧ Bf128.mul 1 1 = 1 ∧ Bf128.mul 3 3 = 5 := by decide +kernel

/-! ## base OTs as key agreements -/

section BaseOT
variable {F G : Type*} [Field F] [AddCommGroup G] [Module F G]

/-- **VSOT** (`vsot/rounds.go`): `B = b•g`, `A = a•g + ω•B`; receiver key `a•B`, sender keys
`ρ⁰ = b•A`, `ρ¹ = b•(A − B)`.  **Endemic OT** (`ecbbot/rounds.go`, `popf.go`): `M_S = a•g`,
`M_R = b•g`, the POPF program `(s₀,s₁)` for choice `c` evaluates to `M_R` at `c`; receiver key `b•M_S`,
sender keys `a•Eval(s₀,s₁,j)`.  In both, the receiver's key is the sender's key for the chosen bit,
and the two sender keys differ iff the relevant public value (`B`, resp. `a` and
`Eval 0 − Eval 1`) is non-zero — under the generator hypothesis `x•g = 0 → x = 0`. -/
theorem baseot_correct (g : G) (hg : ∀ x : F, x • g = 0 → x = 0) (a b : F) :
    -- VSOT
    (∀ ω : Bool,
      let B := b • g
      let A := a • g + (if ω then B else 0)
      a • B = (if ω then b • (A - B) else b • A) ∧ (b • A ≠ b • (A - B) ↔ B ≠ 0))
    -- endemic OT with a programmable-once public function (h0, h1 arbitrary functions)
    ∧ (∀ (h0 h1 : G → G) (c : Bool) (r : G),
      let mS := a • g
      let mR := b • g
      let s : G × G := if c then (r, mR - h1 r) else (mR - h0 r, r)
      let eval : Bool → G := fun x => if x then s.2 + h1 s.1 else s.1 + h0 s.2
      b • mS = a • eval c ∧ (a • eval false ≠ a • eval true ↔ a ≠ 0 ∧ eval false ≠ eval true)) := by
  refine ⟨?_, ?_⟩
  · intro ω
    refine ⟨?_, ?_⟩
    · cases ω
      · simp [smul_smul, mul_comm]
      · simp [smul_smul, mul_comm]
    · have hdiff : ∀ A : G, b • A - b • (A - b • g) = (b * b) • g := by
        intro A; rw [← smul_sub, sub_sub_cancel, smul_smul]
      constructor
      · intro h hB
        apply h
        have := hdiff (a • g + (if ω then b • g else 0))
        rw [← sub_eq_zero, this]
        have hb : b = 0 := hg b hB
        simp [hb]
      · intro hB h
        apply hB
        have := hdiff (a • g + (if ω then b • g else 0))
        rw [sub_eq_zero.mpr h] at this
        have hbb : b * b = 0 := hg _ this.symm
        have hb : b = 0 := by simpa using hbb
        simp [hb]
  · intro h0 h1 c r
    refine ⟨?_, ?_⟩
    · cases c <;> simp [smul_smul, mul_comm]
    · constructor
      · intro h
        refine ⟨?_, ?_⟩
        · intro ha; apply h; simp [ha]
        · intro he; apply h; rw [he]
      · rintro ⟨ha, hne⟩ h
        apply hne
        have := congrArg (fun x => a⁻¹ • x) h
        simpa [smul_smul, inv_mul_cancel₀ ha] using this

/-- the generator hypothesis is satisfiable and the statement is not vacuous: `F = G = ℚ`, `g = 1` -/
example : ∀ x : ℚ, x • (1 : ℚ) = 0 → x = 0 := by intro x h; simpa using h

end BaseOT

/-! ## SoftSpoken: correlation -/

/-- `softspoken/rounds.go`, steps 1.4/2.2 and the transposition of steps 1.7/2.5.
For every seed OT `i` with sender choice `Δᵢ`, PRG rows `t⁰ᵢ, t¹ᵢ` (the sender of the extension holds
`tbᵢ = t^{Δᵢ}ᵢ` by the seed-OT correlation) and receiver vector `x'`:
(1) `qᵢ = tbᵢ ⊕ Δᵢ·uᵢ = t⁰ᵢ ⊕ Δᵢ·x'` where `uᵢ = t⁰ᵢ ⊕ t¹ᵢ ⊕ x'`;
(2) column `j` of the receiver's matrix `t⁰` equals column `j` of the sender's matrix `q` if
`x'ⱼ = 0` and that column XOR `Δ` if `x'ⱼ = 1` — so for every function `H` the receiver's message
`H(t⁰ʲ)` is the sender's message `H(qʲ)` resp. `H(qʲ ⊕ Δ)` selected by its choice bit. -/
theorem softspoken_correlation (x' : List Bool) (rows : List (Bool × List Bool × List Bool))
    (hlen : ∀ r ∈ rows, r.2.1.length = x'.length ∧ r.2.2.length = x'.length) :
    let q := rows.map fun r => senderQ r.1 (if r.1 then r.2.2 else r.2.1) (receiverU r.2.1 r.2.2 x')
    let t0 := rows.map fun r => r.2.1
    let Δ := rows.map fun r => r.1
    (q = rows.map fun r => xorRow r.2.1 (andRow r.1 x'))
    ∧ ∀ j, j < x'.length → ∀ {α : Type} (H : List Bool → α),
        H (col j t0) = if x'.getD j false then H (xorRow (col j q) Δ) else H (col j q) := by
  intro q t0 Δ
  have hq : q = rows.map fun r => xorRow r.2.1 (andRow r.1 x') := by
    apply List.map_congr_left
    intro r hr
    obtain ⟨h0, h1⟩ := hlen r hr
    obtain ⟨d, r0, r1⟩ := r
    cases d
    · simp [senderQ, xorRow_andRow_false _ _ h0]
    · simp only [senderQ, if_true]
      exact xorRow_mask_true r0 r1 x' h0 h1
  refine ⟨hq, ?_⟩
  intro j _hj α H
  have hcol : col j q = xorRow (col j t0) (andRow (x'.getD j false) Δ) := by
    rw [hq]
    have := col_sender (rows.map fun r => (r.1, r.2.1)) x' j (by
      intro r hr
      obtain ⟨r', hr', rfl⟩ := List.mem_map.mp hr
      exact (hlen r' hr').1)
    simpa [List.map_map, Function.comp_def, t0, Δ] using this
  have hl : (col j t0).length = Δ.length := by simp [col, t0, Δ]
  cases hx : x'.getD j false
  · simp only [Bool.false_eq_true, if_false]
    rw [hcol, hx, xorRow_andRow_false _ _ hl]
  · simp only [if_true]
    rw [hcol, hx, xorRow_xorRow_cancel _ _ hl]

/-- non-vacuity: two seed OTs, four extension bits -/
example :
    let x' := [true, false, true, true]
    let rows := [(true, [true, true, false, false], [false, true, true, false]),
                 (false, [false, true, false, true], [true, true, true, true])]
    (∀ r ∈ rows, r.2.1.length = x'.length ∧ r.2.2.length = x'.length)
    ∧ (rows.map fun r => senderQ r.1 (if r.1 then r.2.2 else r.2.1) (receiverU r.2.1 r.2.2 x'))
        = [[false, true, true, true], [false, true, false, true]] := by decide

/-! ## SoftSpoken: consistency check -/

section Check
variable {K : Type} [CommRing K] [DecidableEq K]

/-- `computeResponse` / `verifyChallenge`: for an honest receiver (`qᵢ = t⁰ᵢ + Δᵢ·x'` blockwise, any
challenge `χ`) the sender's test `q̇ᵢ = ṫᵢ + Δᵢ·ẋ` holds. -/
theorem softspoken_check_complete (chi t x : List K) (d : Bool) (h : t.length = x.length) :
    ssVerifyRow chi d (List.zipWith (· + ·) t (x.map (bsel d))) (lin chi x) (lin chi t) = true := by
  simp only [ssVerifyRow, decide_eq_true_eq]
  rw [lin_add _ _ _ (by simpa using h), lin_bsel]

/-- Exact acceptance condition.  The receiver used `x' + δ` for seed `i` (an altered/inconsistent
mask row `uᵢ`), and sends the response `(ẋ + εx, ṫᵢ + εt)`.  The sender's test for seed `i` passes
**iff** `Δᵢ·(χ·δ) = εt + Δᵢ·εx` where `χ·δ = lin χ δ`.  In particular an altered `T[i]` alone
(`δ = 0, εx = 0, εt ≠ 0`) never passes; an altered `X` alone passes only for seeds with `Δᵢ = 0`;
an altered `U[i]` with `Δᵢ = 1` passes iff `χ·δ = 0`. -/
theorem softspoken_check_exact (chi t x δ : List K) (d : Bool) (εx εt : K)
    (h : t.length = x.length) (hδ : x.length = δ.length) :
    ssVerifyRow chi d (List.zipWith (· + ·) t ((List.zipWith (· + ·) x δ).map (bsel d)))
        (lin chi x + εx) (lin chi t + εt) = true
      ↔ bsel d (lin chi δ) = εt + bsel d εx := by
  simp only [ssVerifyRow, decide_eq_true_eq]
  rw [lin_add _ _ _ (by simp [h, hδ]), lin_bsel, lin_add _ _ _ hδ]
  cases d
  · simp only [bsel, Bool.false_eq_true, if_false]
    constructor
    · intro e; linear_combination e
    · intro e; linear_combination e
  · simp only [bsel, if_true]
    constructor
    · intro e; linear_combination e
    · intro e; linear_combination e

/-- corollaries used by the fault stream: altered `T[i]` never passes; altered `X` is caught by
every seed with `Δᵢ = 1`; altered `U[i]` with `Δᵢ = 1` passes iff `χ·δ = 0`. -/
theorem softspoken_altered_rejected (chi t x : List K) (h : t.length = x.length) (ε : K) (hε : ε ≠ 0) :
    (∀ d, ssVerifyRow chi d (List.zipWith (· + ·) t (x.map (bsel d))) (lin chi x) (lin chi t + ε) = false)
    ∧ ssVerifyRow chi true (List.zipWith (· + ·) t (x.map (bsel true))) (lin chi x + ε) (lin chi t) = false := by
  refine ⟨fun d => ?_, ?_⟩
  · simp only [ssVerifyRow, decide_eq_false_iff_not]
    rw [lin_add _ _ _ (by simpa using h), lin_bsel]
    intro e; apply hε; linear_combination -e
  · simp only [ssVerifyRow, decide_eq_false_iff_not]
    rw [lin_add _ _ _ (by simpa using h), lin_bsel]
    intro e; apply hε
    simp only [bsel, if_true] at e
    linear_combination -e

/-- The statistical part — **not proved** (kept as a statement only): for a uniformly random
challenge `χ ∈ K^m` the condition `χ·δ = 0` of `softspoken_check_exact` holds with probability at most
`1/|K|` (`= 2^-128`) when `δ ≠ 0`. -/
def softspoken_check_sound_statement : Prop :=
  ∀ (F : Type) [Field F] [Fintype F] [DecidableEq F] (m : Nat) (δ : Fin m → F) (last : F),
    (last ≠ 0 ∨ ∃ k, δ k ≠ 0) →
    (Finset.univ.filter fun chi : Fin m → F => lin (List.ofFn chi) (List.ofFn δ ++ [last]) = 0).card
        * Fintype.card F ≤ Fintype.card F ^ m

/-- non-vacuity over `ZMod 5`, two challenge blocks, rows of three blocks -/
example : ssVerifyRow (K := ZMod 5) [2, 3] true
    (List.zipWith (· + ·) [1, 4, 2] ([3, 0, 1].map (bsel true))) (lin [2, 3] [3, 0, 1]) (lin [2, 3] [1, 4, 2]) = true := by
  decide

example : ssVerifyRow (K := ZMod 5) [2, 3] true
    (List.zipWith (· + ·) [1, 4, 2] ([3, 0, 1].map (bsel true))) (lin [2, 3] [3, 0, 1] + 1) (lin [2, 3] [1, 4, 2]) = false := by
  decide

end Check

/-! ## random-VOLE multiplication -/

section Rvole
variable {K M N : Type} [CommRing K] [AddCommGroup M] [Module K M] [AddCommGroup N]

/-- `rvole/*/rounds.go`: with `γ_j = α_j^{β_j}` (the OT correlation, `Rvole.gamma`) and Alice's honest
`ã_j = α⁰_j − α¹_j + a`, the outputs satisfy `c + d = b • a` in the row module `M`
(for `M = Fin (l+ρ) → K`: `cᵢ + dᵢ = aᵢ·b` component-wise, the first `l` components being the
protocol outputs). -/
theorem rvole_correct (os : List (Inst K M)) (a : M) :
    aliceC os + bobD (os.map fun o => (o, aTilde o a)) = bobB os • a := by
  induction os with
  | nil => simp [aliceC, bobD, bobB]
  | cons o os ih =>
    simp only [List.map_cons, aliceC, bobD, bobB, bobRow_aTilde]
    have : -(o.g • o.a0) + aliceC os + (o.g • (o.a0 + bselM o.beta a) + bobD (os.map fun o => (o, aTilde o a)))
        = o.g • bselM o.beta a + (aliceC os + bobD (os.map fun o => (o, aTilde o a))) := by
      rw [smul_add]; abel
    rw [this, ih, add_smul]
    congr 1
    cases o.beta <;> simp [bselM, bsel]

omit [CommRing K] [Module K M] in
/-- honest Alice passes Bob's check: `μ'_j = Θ ḋ_j − β_j·η = Θ α⁰_j = μ_j` for every additive `Θ`
(in the code: `Θ(v, v̂) = v̂ + θᵀ v`), `η = Θ a`. -/
theorem rvole_check_complete [DecidableEq N] (Θ : M →+ N) (os : List (Inst K M)) (a : M) :
    accepts Θ Θ (Θ a) (os.map fun o => (o, aTilde o a)) = true := by
  induction os with
  | nil => simp [accepts]
  | cons o os ih =>
    simp only [List.map_cons, accepts, ih, Bool.and_true, decide_eq_true_eq, muB, muA, bobRow_aTilde, map_add]
    cases o.beta <;> simp [bselM, bselN]

omit [CommRing K] [Module K M] in
/-- Exact acceptance condition for one OT instance when Bob receives `ã_j + δ` and `η + ε` and derives
`Θ'` (from the altered `ã`; `Θ' = Θ` if only `η` is altered):
`μ'_j = μ_j  ⇔  (Θ' − Θ) α⁰_j + β_j·(Θ'(a + δ) − Θ a − ε) = 0`. -/
theorem rvole_check_exact (Θ Θ' : M →+ N) (o : Inst K M) (a δ : M) (ε : N) :
    muB Θ' o (aTilde o a + δ) (Θ a + ε) = muA Θ o
      ↔ (Θ' o.a0 - Θ o.a0) + bselN o.beta (Θ' (a + δ) - Θ a - ε) = 0 := by
  obtain ⟨g, beta, a0, a1⟩ := o
  cases beta
  · simp only [muB, muA, bobRow, gamma, bselM, bselN, aTilde, Bool.false_eq_true, if_false, add_zero, sub_zero]
    exact sub_eq_zero.symm
  · simp only [muB, muA, bobRow, gamma, bselM, bselN, aTilde, if_true]
    have : a1 + (a0 - a1 + a + δ) = a0 + (a + δ) := by abel
    rw [this, map_add]
    constructor
    · intro e; rw [← sub_eq_zero] at e; rw [← e]; abel
    · intro e; rw [← sub_eq_zero, ← e]; abel

omit [CommRing K] [Module K M] in
/-- altered `η` only (`Θ' = Θ`, `δ = 0`, `ε ≠ 0`): every instance with `β_j = 1` fails, hence Bob's
acceptance test fails as soon as one choice bit is set. -/
theorem rvole_eta_altered_rejected [DecidableEq N] (Θ : M →+ N) (os : List (Inst K M)) (a : M) (ε : N)
    (hε : ε ≠ 0) (hβ : ∃ o ∈ os, o.beta = true) :
    accepts Θ Θ (Θ a + ε) (os.map fun o => (o, aTilde o a)) = false := by
  induction os with
  | nil => simp at hβ
  | cons o os ih =>
    simp only [List.map_cons, accepts]
    by_cases hb : o.beta = true
    · have h := rvole_check_exact Θ Θ o a 0 ε
      simp only [add_zero, sub_self, zero_add, hb, bselN, if_true] at h
      have : ¬ muB Θ o (aTilde o a) (Θ a + ε) = muA Θ o := by
        intro e
        have := h.mp e
        apply hε
        have h2 : -ε = 0 := by simpa using this
        simpa using h2
      simp [this]
    · obtain ⟨o', ho', hb'⟩ := hβ
      have hmem : o' ∈ os := by
        rcases List.mem_cons.mp ho' with rfl | h
        · exact absurd hb' hb
        · exact h
      simp [ih ⟨o', hmem, hb'⟩]

omit [AddCommGroup N] in
/-- The digest layer (`roMu`): Bob compares `H(μ')` with the received digest.  If the digest function
is injective on the two vectors that occur, Bob accepts an unaltered digest iff `μ' = μ`, and an altered
digest is rejected whenever `μ' = μ`. -/
theorem rvole_digest_layer {D : Type} (H : List N → D) (mu mu' : List N)
    (hinj : H mu' = H mu → mu' = mu) : (H mu' = H mu ↔ mu' = mu) ∧ ∀ dg, dg ≠ H mu → mu' = mu → H mu' ≠ dg :=
  ⟨⟨hinj, fun e => by rw [e]⟩, fun _ hdg e h => hdg (by rw [← h, e])⟩

/-- non-vacuity (component-wise reading): `K = ZMod 7`, rows in `Fin 2 → ZMod 7`, two OT instances -/
example :
    let os : List (Inst (ZMod 7) (Fin 2 → ZMod 7)) :=
      [{ g := 3, beta := true, a0 := ![1, 2], a1 := ![4, 6] }, { g := 5, beta := false, a0 := ![0, 3], a1 := ![2, 2] }]
    let a : Fin 2 → ZMod 7 := ![2, 5]
    ∀ i, (aliceC os + bobD (os.map fun o => (o, aTilde o a))) i = a i * bobB os := by
  intro os a i
  rw [rvole_correct]
  simp [mul_comm]

end Rvole

end BronVerif.Props.C09
