import Mathlib.GroupTheory.Index
import Mathlib.Algebra.BigOperators.Group.Finset.Basic
import Mathlib.Algebra.BigOperators.Ring.Finset
import Mathlib.Data.Fintype.BigOperators
import Mathlib.Data.ZMod.Basic
import Mathlib.Algebra.Field.ZMod
import Mathlib.Tactic.FieldSimp
import BronVerif.Props.C06
/-!
# C06 — the counting half of the mixed-epoch clause

`Props/C06.mixed_epoch_exact` shows that shares mixed from two epochs reconstruct the secret iff a
linear form in the fresh randomness `r_b − r_a` vanishes; the driver (`Epoch.weightOn`) checks on
every emitted pair that this form is not the zero form.  Here the remaining step is proved: a
non-zero linear form on `Fⁿ` over a finite field vanishes on exactly `|F|ⁿ⁻¹` of the `|F|ⁿ` points,
and takes every value equally often — so the coincidence "shares of different epochs combine into
the secret" happens for exactly a `1/|F|` fraction of the refresh randomness, for every dimension
`n`, every form and every finite field (`mixed_epoch_negligible_statement` of `Props/C06.lean`,
now a theorem).  No probability space is needed: the statement is the count itself.
-/
set_option linter.unusedSectionVars false
namespace BronVerif.Props.C06
open Finset BigOperators

section Count
variable {F : Type} [Field F] [Fintype F] [DecidableEq F]

/-- the linear form `x ↦ Σ wₖ xₖ` as an additive homomorphism -/
def formHom {n : ℕ} (w : Fin n → F) : (Fin n → F) →+ F where
  toFun x := ∑ k, w k * x k
  map_zero' := by simp
  map_add' x y := by simp [mul_add, Finset.sum_add_distrib]

theorem formHom_surjective {n : ℕ} (w : Fin n → F) (hw : w ≠ 0) :
    Function.Surjective (formHom w) := by
  obtain ⟨k0, hk0⟩ := Function.ne_iff.mp hw
  have hk0' : w k0 ≠ 0 := by simpa using hk0
  intro t
  refine ⟨Pi.single k0 (t / w k0), ?_⟩
  show ∑ k, w k * (Pi.single k0 (t / w k0) : Fin n → F) k = t
  rw [Finset.sum_eq_single k0]
  · rw [Pi.single_eq_same]; field_simp
  · intro b _ hb; rw [Pi.single_eq_of_ne hb]; simp
  · intro h; exact absurd (Finset.mem_univ k0) h

/-- a non-zero linear form takes every value `t` on the same number of points as the value `0` -/
theorem form_fibers_equal {n : ℕ} (w : Fin n → F) (hw : w ≠ 0) (t : F) :
    (univ.filter fun x : Fin n → F => ∑ k, w k * x k = t).card
      = (univ.filter fun x : Fin n → F => ∑ k, w k * x k = 0).card :=
  AddMonoidHom.card_fiber_eq_of_mem_range (formHom w)
    (Set.mem_range.mpr (formHom_surjective w hw t)) (Set.mem_range.mpr (formHom_surjective w hw 0))

/-- **`mixed_epoch_negligible`** (the former `mixed_epoch_negligible_statement`): the kernel of a
non-zero linear form on `Fⁿ` has exactly `|F|ⁿ / |F|` elements. -/
theorem mixed_epoch_negligible : mixed_epoch_negligible_statement F := by
  intro n w hw
  have hsum : (univ : Finset (Fin n → F)).card
      = ∑ t : F, (univ.filter fun x : Fin n → F => ∑ k, w k * x k = t).card :=
    Finset.card_eq_sum_card_fiberwise (f := fun x : Fin n → F => ∑ k, w k * x k)
      (s := univ) (t := univ) (fun _ _ => Finset.mem_coe.mpr (Finset.mem_univ _))
  rw [← Finset.card_univ (α := Fin n → F), hsum,
    Finset.sum_congr rfl (fun t _ => form_fibers_equal w hw t), Finset.sum_const, Finset.card_univ,
    smul_eq_mul, Nat.mul_comm]

/-- the coincidence count for an arbitrary target value: exactly a `1/|F|` fraction of the fresh
randomness makes the mixed reconstruction hit any prescribed value `t` (in particular the secret) -/
theorem mixed_epoch_hits_value_count {n : ℕ} (w : Fin n → F) (hw : w ≠ 0) (t : F) :
    (univ.filter fun x : Fin n → F => ∑ k, w k * x k = t).card * Fintype.card F
      = Fintype.card (Fin n → F) := by
  rw [form_fibers_equal w hw t]; exact mixed_epoch_negligible n w hw

/-- combined with `mixed_epoch_exact`: for a reconstruction vector `c` of the MSP `M`, a set `B` of
rows taken from the other epoch whose weight form `w = Σ_{i∈B} cᵢ Mᵢ` is not the zero form, the
number of refresh columns `d = r_b − r_a` for which the mixed shares still reconstruct the secret,
times `|F|`, is the number of all columns. -/
theorem mixed_epoch_coincidence_count {m n : ℕ} (M : Matrix (Fin m) (Fin n) F) (z : Fin n)
    (ra : Fin n → F) (c : Fin m → F) (hc : Matrix.vecMul c M = Pi.single z 1) (B : Finset (Fin m))
    (hw : (fun k => ∑ i ∈ B, c i * M i k) ≠ 0) :
    (univ.filter fun d : Fin n → F =>
        (c ⬝ᵥ fun i => if i ∈ B then (M.mulVec (ra + d)) i else (M.mulVec ra) i) = ra z).card
      * Fintype.card F = Fintype.card (Fin n → F) := by
  have hiff : ∀ d : Fin n → F,
      ((c ⬝ᵥ fun i => if i ∈ B then (M.mulVec (ra + d)) i else (M.mulVec ra) i) = ra z)
        ↔ ∑ k, (∑ i ∈ B, c i * M i k) * d k = 0 := by
    intro d
    rw [(mixed_epoch_exact M z ra (ra + d) c hc B).2, add_sub_cancel_left]
    have : ∑ i ∈ B, c i * (M.mulVec d) i = ∑ k, (∑ i ∈ B, c i * M i k) * d k := by
      simp only [Matrix.mulVec, dotProduct, Finset.mul_sum, Finset.sum_mul]
      rw [Finset.sum_comm]
      exact Finset.sum_congr rfl fun k _ => Finset.sum_congr rfl fun i _ => by ring
    rw [this]
  rw [Finset.filter_congr (fun d _ => hiff d)]
  exact mixed_epoch_negligible n _ hw

end Count

/-! ### non-vacuity: the form `x₀ + 2 x₁` over `ZMod 7` (dimension 2): 7 of 49 points -/

local instance : Fact (Nat.Prime 7) := ⟨by decide⟩

example : (univ.filter fun x : Fin 2 → ZMod 7 => ∑ k, (![1, 2] : Fin 2 → ZMod 7) k * x k = 0).card * 7
    = Fintype.card (Fin 2 → ZMod 7) := by
  have h := mixed_epoch_negligible (F := ZMod 7) 2 ![1, 2] (by decide)
  simpa [ZMod.card] using h

end BronVerif.Props.C06
