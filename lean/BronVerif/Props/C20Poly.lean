import Mathlib.LinearAlgebra.Lagrange
import Mathlib.Data.Rat.Defs
import Mathlib.Tactic.NormNum
import BronVerif.Lemmas.PolyList
import BronVerif.Lemmas.PolyLagrange
import BronVerif.Lemmas.PolyMatrix
import BronVerif.Lemmas.PolyBirkhoff
/-!
# C20, polynomial half — property theorems

"Evaluating a polynomial of admissible degree at distinct nodes and interpolating (Lagrange,
Birkhoff with derivative orders, Vandermonde) recovers that polynomial's value at every point, and
the same computations carried out on group elements 'in the exponent' commute with lifting."

All theorems are about the executable definitions of `Model/Poly.lean` / `Model/LinAlg.lean` (the
ones the driver runs against the Go code), instantiated at an arbitrary Mathlib `[Field F]` and an
arbitrary `F`-module `G` (the curve groups are modules over their scalar fields).  Node lists are
arbitrary `Nodup` lists: unsorted, large, including or excluding `0`.
-/
namespace BronVerif.Props.C20Poly
open BronVerif BronVerif.LinAlg BronVerif.Poly Polynomial
open BronVerif.Lemmas.PolyList BronVerif.Lemmas.PolyLagrange BronVerif.Lemmas.PolyMatrix
open BronVerif.Lemmas.PolyBirkhoff
open scoped BigOperators

section Scalar
variable {F : Type} [Field F]

/-- Horner evaluation of the coefficient list is evaluation of the polynomial `Σ cᵢ Xⁱ` -/
theorem eval_eq (cs : List F) (x : F) :
    Poly.eval cs x = (∑ i ∈ Finset.range cs.length, C (cs.getD i 0) * X ^ i : F[X]).eval x :=
  eval_eq_toPoly cs x

example : Poly.eval ([1, 2, 3] : List ℚ) 2 = 17 := by norm_num [Poly.eval]

variable [DecidableEq F]

/-- `lagrange.InterpolateAt` on distinct nodes (any order, any size) succeeds and returns the value at
`x` of Mathlib's Lagrange interpolant through `(xsⱼ, ysⱼ)` -/
theorem lagrange_interpolate (xs ys : List F) (x : F) (hnd : xs.Nodup)
    (hlen : xs.length = ys.length) :
    interpolateAt xs ys x = .ok ((Lagrange.interpolate (Finset.range xs.length)
      (fun j => xs.getD j 0) (fun j => ys.getD j 0)).eval x) := by
  unfold interpolateAt
  rw [if_neg (not_not.mpr hlen), basisAt_eq_basis hnd]
  simp only
  rw [dot_eq_sum_range _ _ (by simpa using hlen)]
  simp only [List.length_map, List.length_range]
  rw [Lagrange.interpolate_apply, eval_finsetSum]
  congr 1
  apply Finset.sum_congr rfl
  intro i hi
  rw [getD_map_range _ _ (Finset.mem_range.mp hi), eval_mul, eval_C, mul_comm]
  rfl

/-- hence: interpolating the evaluations of any polynomial of degree `< #nodes` recovers its value
at every point -/
theorem lagrange_recovers (xs : List F) (f : F[X]) (x : F) (hnd : xs.Nodup)
    (hdeg : f.degree < xs.length) :
    interpolateAt xs (xs.map fun a => f.eval a) x = .ok (f.eval x) := by
  rw [lagrange_interpolate xs _ x hnd (by simp)]
  congr 2
  symm
  apply Lagrange.eq_interpolate_of_eval_eq _ (nodeFn_injOn hnd) (by simpa using hdeg)
  intro i hi
  have hi' : i < xs.length := by simpa using hi
  simp [nodeFn, List.getD_eq_getElem?_getD, hi']

/-- the same about the model's own `Poly.eval` (what the harness oracle
`interpolate(evaluate f) = f(x)` checks on the Go side) -/
theorem lagrange_recovers_model (xs cs : List F) (x : F) (hnd : xs.Nodup)
    (hdeg : cs.length ≤ xs.length) :
    interpolateAt xs (xs.map (Poly.eval cs)) x = .ok (Poly.eval cs x) := by
  have h := lagrange_recovers xs (toPoly cs) x hnd
    (lt_of_lt_of_le (degree_toPoly_lt cs) (by exact_mod_cast hdeg))
  simpa only [← eval_eq_toPoly] using h

example : interpolateAt ([3, 0, 5] : List ℚ) (([3, 0, 5] : List ℚ).map (Poly.eval [5, 0, 1])) 7
    = .ok (Poly.eval [5, 0, 1] 7) :=
  lagrange_recovers_model _ _ _ (by decide) (by simp)

/-- `lagrange.BasisAt` on distinct nodes returns the values of Mathlib's Lagrange basis polynomials -/
theorem basisAt_eq (xs : List F) (x : F) (hnd : xs.Nodup) :
    basisAt xs x = some ((List.range xs.length).map fun i =>
      (Lagrange.basis (Finset.range xs.length) (fun j => xs.getD j 0) i).eval x) :=
  basisAt_eq_basis hnd x

/-- the Lagrange basis values sum to one -/
theorem basisAt_sum_one (xs : List F) (x : F) (hnd : xs.Nodup) (hne : xs ≠ []) (b : List F)
    (hb : basisAt xs x = some b) : b.sum = 1 := by
  rw [basisAt_eq_basis hnd, Option.some.injEq] at hb
  subst hb
  have hs : (Finset.range xs.length).Nonempty := by
    simpa [Finset.nonempty_range_iff, List.length_eq_zero_iff] using hne
  have := congrArg (Polynomial.eval x) (Lagrange.sum_basis (nodeFn_injOn hnd) hs)
  rw [eval_finsetSum, eval_one] at this
  rw [sum_map_range]; exact this

example : ∃ b, basisAt ([3, 0, 5] : List ℚ) 7 = some b ∧ b.sum = 1 := by
  refine ⟨_, basisAt_eq_basis (by decide) 7, ?_⟩
  exact basisAt_sum_one _ 7 (by decide) (by simp) _ (basisAt_eq_basis (by decide) 7)

omit [DecidableEq F] in
/-- Vandermonde: a solution `c` of the model's Vandermonde system `V(xs) · c = ys` (the system
`vandermonde.Interpolate` hands to `SolveRight`) is the coefficient list of the Lagrange interpolant -/
theorem vandermonde_interpolate (xs ys c : List F) (hnd : xs.Nodup) (hc : c.length = xs.length)
    (hsol : mulVec (xs.map fun x => powers x xs.length) c = ys) :
    (∑ i ∈ Finset.range c.length, C (c.getD i 0) * X ^ i : F[X])
      = Lagrange.interpolate (Finset.range xs.length) (fun j => xs.getD j 0) (fun j => ys.getD j 0) := by
  apply Lagrange.eq_interpolate_of_eval_eq _ (nodeFn_injOn hnd)
  · have := degree_toPoly_lt c
    rw [hc] at this; simpa [toPoly] using this
  · intro i hi
    have := vandermonde_solution_eval xs ys c hc hsol i (by simpa using hi)
    rw [eval_eq_toPoly] at this
    exact this

omit [DecidableEq F] in
/-- the Vandermonde system built from the evaluations of a coefficient list `cs` (degree `< n`) at
distinct nodes is solvable and `cs` is its only solution: solving it recovers the polynomial -/
theorem vandermonde_recovers (xs cs : List F) (hnd : xs.Nodup) (hcs : cs.length = xs.length) :
    mulVec (xs.map fun x => powers x xs.length) cs = xs.map (Poly.eval cs) ∧
    ∀ c : List F, c.length = xs.length →
      mulVec (xs.map fun x => powers x xs.length) c = xs.map (Poly.eval cs) → c = cs := by
  have hex : mulVec (xs.map fun x => powers x xs.length) cs = xs.map (Poly.eval cs) := by
    unfold mulVec
    rw [List.map_map]
    apply List.map_congr_left
    intro x _
    simp only [Function.comp]
    rw [← hcs, dot_powers]
  refine ⟨hex, ?_⟩
  intro c hc hsol
  apply toPoly_injective (hc.trans hcs.symm)
  have h1 := vandermonde_interpolate xs _ c hnd hc hsol
  have h2 := vandermonde_interpolate xs _ cs hnd hcs hex
  exact h1.trans h2.symm

example : mulVec (([3, 0, 5] : List ℚ).map fun x => powers x 3) [5, 0, 1]
    = ([3, 0, 5] : List ℚ).map (Poly.eval [5, 0, 1]) :=
  (vandermonde_recovers ([3, 0, 5] : List ℚ) [5, 0, 1] (by decide) rfl).1

/-- full statement for `vandermonde.Interpolate` (model `vandermondeInterpolate`, which calls the
Gauss–Jordan model `LinAlg.solveRight`) -/
def vandermonde_interpolate_statement (F : Type) [Field F] [DecidableEq F] : Prop :=
  ∀ (xs cs : List F), xs.Nodup → xs ≠ [] → cs.length = xs.length →
    vandermondeInterpolate xs (xs.map (Poly.eval cs)) = .ok cs

/-- PARTIAL: `vandermonde_interpolate_statement` relative to soundness and completeness of
`LinAlg.solveRight` on this system (these are the Gauss–Jordan theorems of `Props/C20.lean`,
proved separately; they enter here as hypotheses `hsound`, `hcomplete`).  What is proved here
unconditionally is the interpolation content: `vandermonde_recovers`. -/
theorem vandermonde_interpolate_partial (xs cs : List F) (hnd : xs.Nodup) (hne : xs ≠ [])
    (hcs : cs.length = xs.length)
    (hsound : ∀ c, solveRight (xs.map fun x => powers x xs.length) xs.length (xs.map (Poly.eval cs)) = some c →
      c.length = xs.length ∧ mulVec (xs.map fun x => powers x xs.length) c = xs.map (Poly.eval cs))
    (hcomplete : solveRight (xs.map fun x => powers x xs.length) xs.length (xs.map (Poly.eval cs)) = none →
      ¬ ∃ c : List F, c.length = xs.length ∧
        mulVec (xs.map fun x => powers x xs.length) c = xs.map (Poly.eval cs)) :
    vandermondeInterpolate xs (xs.map (Poly.eval cs)) = .ok cs := by
  unfold vandermondeInterpolate
  rw [if_neg (by simp), if_neg (by simpa using hne)]
  obtain ⟨hex, huniq⟩ := vandermonde_recovers xs cs hnd hcs
  cases h : solveRight (xs.map fun x => powers x xs.length) xs.length (xs.map (Poly.eval cs)) with
  | none => exact absurd ⟨cs, hcs, hex⟩ (hcomplete h)
  | some c =>
    obtain ⟨h1, h2⟩ := hsound c h
    simp only [huniq c h1 h2]

/-- full statement for `birkhoff.Interpolate` (on sorted nodes, with the model's determinant routine
`LinAlg.det`): a returned coefficient list has `n` entries and satisfies every derivative
constraint `(d/dx)^{jᵣ} p (xᵣ) = yᵣ` -/
def birkhoff_cramer_statement (F : Type) [Field F] [DecidableEq F] : Prop :=
  ∀ (xs : List F) (js : List ℕ) (ys c : List F), js.length = xs.length → ys.length = xs.length →
    birkhoffSorted LinAlg.det xs js ys = .ok c →
    c.length = xs.length ∧
      ∀ r, r < xs.length → Poly.eval (iterDeriv (js.getD r 0) c) (xs.getD r 0) = ys.getD r 0

/-- PARTIAL (Cramer's rule, `Matrix.mulVec_cramer`): if the determinant routine used by the model
computes `Matrix.det` on `n × n` list matrices (hypothesis `hdet`; for `LinAlg.det` this is the
forward-elimination theorem of `Props/C20.lean`), then whenever `birkhoff.Interpolate` (model
`birkhoffSorted`) returns coefficients `c`, they solve the Birkhoff–Vandermonde system
`B(xs, js) · c = ys`, whose row `r` is `(Phi(0,xᵣ,jᵣ), …, Phi(n-1,xᵣ,jᵣ))`.
Missing for `birkhoff_cramer_statement`: `hdet` for `LinAlg.det`, and the identification of a row
of `B` with the functional `c ↦ (d/dx)^{jᵣ} (Σ cₖ Xᵏ) (xᵣ)` (the harness/driver check that identity on
every answer by direct evaluation instead). -/
theorem birkhoff_cramer_partial (detF : Mat F → F) (xs : List F) (js : List ℕ) (ys c : List F)
    (hj : js.length = xs.length) (hy : ys.length = xs.length)
    (hdet : ∀ m : Mat F, m.length = xs.length → (∀ row ∈ m, row.length = xs.length) →
      detF m = (toMatrix xs.length m).det)
    (hok : birkhoffSorted detF xs js ys = .ok c) :
    c.length = xs.length ∧ mulVec (birkhoffMatrix xs js xs.length) c = ys := by
  unfold birkhoffSorted at hok
  simp only at hok
  split at hok
  · cases hok
  · rename_i hne
    injection hok with hc
    subst hc
    refine ⟨by simp, ?_⟩
    apply cramer_list detF _ ys xs.length _ _ hy hdet hne
    · simp [birkhoffMatrix, hj]
    · intro row h
      unfold birkhoffMatrix at h
      obtain ⟨i, hi, rfl⟩ := List.mem_iff_getElem.mp h
      rw [List.getElem_zipWith]
      simp

example : ∃ c, birkhoffSorted (fun m => entry m 0 0 * entry m 1 1 - entry m 0 1 * entry m 1 0)
    ([2, 5] : List ℚ) [0, 1] [7, 3] = .ok c := ⟨_, by
  simp [birkhoffSorted, birkhoffMatrix, phi, iterDeriv, deriv, trim, derivCoeffs, Poly.eval, Poly.nsmul,
    entry, setColumn]; rfl⟩

end Scalar

section Exponent
variable {F G : Type} [Field F] [DecidableEq F] [AddCommGroup G] [Module F G]

/-- Lagrange interpolation in the exponent commutes with lifting: on lifted values it returns the
lift of the scalar interpolation (and fails exactly when the scalar one fails) -/
theorem interpolateExpAt_lift (xs ys : List F) (g : G) (x : F) :
    interpolateExpAt xs (ys.map fun y => y • g) x = (interpolateAt xs ys x).map fun v => v • g := by
  unfold interpolateExpAt interpolateAt
  simp only [List.length_map]
  split
  · rfl
  · cases basisAt xs x with
    | none => rfl
    | some b => simp only [gdot_map_smul]; rfl

/-- hence interpolation in the exponent of `f(xᵢ) • g` at distinct nodes recovers `f(x) • g` -/
theorem lagrange_exponent_recovers (xs : List F) (f : F[X]) (x : F) (g : G) (hnd : xs.Nodup)
    (hdeg : f.degree < xs.length) :
    interpolateExpAt xs (xs.map fun a => f.eval a • g) x = .ok (f.eval x • g) := by
  have h := interpolateExpAt_lift xs (xs.map fun a => f.eval a) g x
  rw [List.map_map, lagrange_recovers xs f x hnd hdeg] at h
  exact h

example : interpolateExpAt ([3, 0, 5] : List ℚ) (([3, 0, 5] : List ℚ).map fun a => (X ^ 2 + C 5 : ℚ[X]).eval a • (2 : ℚ)) 7
    = .ok ((X ^ 2 + C 5 : ℚ[X]).eval 7 • (2 : ℚ)) :=
  lagrange_exponent_recovers _ _ _ _ (by decide)
    (lt_of_le_of_lt (degree_add_le _ _) (by simp; norm_num))

omit [DecidableEq F] in
/-- `mat.LeftAction` commutes with `mat.Lift`: `A · (R • g) = (A · R) • g` (any shapes; short rows
read as zero on both sides) -/
theorem leftAction_lift (A R : Mat F) (g : G) :
    leftAction A (lift R g) = lift (mul A R) g := by
  unfold leftAction
  simp only [gtranspose_lift]
  unfold mul lift
  simp only [List.map_map]
  apply List.map_congr_left
  intro r _
  simp only [Function.comp, List.map_map]
  apply List.map_congr_left
  intro col _
  simp only [Function.comp, gdot_map_smul]

omit [DecidableEq F] in
/-- `mat.RightAction` commutes with `mat.Lift`: `(R • g) · B = (R · B) • g` -/
theorem rightAction_lift (R B : Mat F) (g : G) :
    rightAction (lift R g) B = lift (mul R B) g := by
  unfold rightAction mul lift
  simp only [List.map_map]
  apply List.map_congr_left
  intro r _
  simp only [Function.comp, List.map_map]
  apply List.map_congr_left
  intro col _
  simp only [Function.comp, gdot_map_smul, dot_comm col r]

example : leftAction ([[1, 2], [0, 3]] : Mat ℚ) (lift ([[5], [7]] : Mat ℚ) (2 : ℚ))
    = lift (mul ([[1, 2], [0, 3]] : Mat ℚ) [[5], [7]]) (2 : ℚ) := leftAction_lift _ _ _

end Exponent

end BronVerif.Props.C20Poly
