import Mathlib.LinearAlgebra.Lagrange
import Mathlib.Data.Rat.Defs
import Mathlib.Tactic.NormNum
import BronVerif.Lemmas.PolyList
import BronVerif.Lemmas.PolyLagrange
import BronVerif.Lemmas.PolyMatrix
import BronVerif.Lemmas.PolyBirkhoff
import BronVerif.Lemmas.PolyDeriv
import BronVerif.Lemmas.PolyBirkhoffExp
import BronVerif.Lemmas.GaussJordanDet
import BronVerif.Props.C20
import Mathlib.Tactic.NormNum.Prime
/-!
# C20, polynomial half — property theorems

"Evaluating a polynomial of admissible degree at distinct nodes and interpolating (Lagrange,
Birkhoff with derivative orders, Vandermonde) recovers that polynomial's value at every point, and
the same computations carried out on group elements 'in the exponent' commute with lifting."

All theorems are about the executable definitions of `Model/Poly.lean` / `Model/LinAlg.lean` (the
ones the driver runs against the Go code), instantiated at an arbitrary Mathlib `[Field F]` and an
arbitrary `F`-module `G` (the curve groups are modules over their scalar fields).  Node lists are
arbitrary `Nodup` lists: unsorted, large, including or excluding `0`.
-/
namespace BronVerif.Props.C20Poly
open BronVerif BronVerif.LinAlg BronVerif.Poly Polynomial
open BronVerif.Lemmas.PolyList BronVerif.Lemmas.PolyLagrange BronVerif.Lemmas.PolyMatrix
open BronVerif.Lemmas.PolyBirkhoff BronVerif.Lemmas.PolyDeriv BronVerif.Lemmas.PolyBirkhoffExp
open scoped BigOperators

section Scalar
variable {F : Type} [Field F]

/-- Horner evaluation of the coefficient list is evaluation of the polynomial `Σ cᵢ Xⁱ` -/
theorem eval_eq (cs : List F) (x : F) :
    Poly.eval cs x = (∑ i ∈ Finset.range cs.length, C (cs.getD i 0) * X ^ i : F[X]).eval x :=
  eval_eq_toPoly cs x

example : Poly.eval ([1, 2, 3] : List ℚ) 2 = 17 := by norm_num [Poly.eval]

/-- **evaluation is linear** (`Polynomial.Add`): `(a + b)(x) = a(x) + b(x)` for coefficient lists of
any two lengths -/
theorem eval_add (a b : List F) (x : F) :
    Poly.eval (Poly.add a b) x = Poly.eval a x + Poly.eval b x := by
  simp only [eval_eq_toPoly, toPoly_add, Polynomial.eval_add]

/-- (`Polynomial.ScalarMul` / `ScalarOp`): `(a · s)(x) = a(x) · s` -/
theorem eval_smul (a : List F) (s x : F) : Poly.eval (Poly.smul a s) x = Poly.eval a x * s := by
  simp only [eval_eq_toPoly, toPoly_smul, Polynomial.eval_mul, Polynomial.eval_C]

/-- evaluation is multiplicative (`Polynomial.Mul`, schoolbook product) -/
theorem eval_mulPoly (a b : List F) (x : F) :
    Poly.eval (Poly.mulPoly a b) x = Poly.eval a x * Poly.eval b x := by
  simp only [eval_eq_toPoly, toPoly_mulPoly, Polynomial.eval_mul]

example : Poly.eval (Poly.add ([1, 2, 3] : List ℚ) [5, 1]) 2 = 17 + 7 := by
  rw [eval_add]; norm_num [Poly.eval]
example : Poly.mulPoly ([1, 2] : List ℚ) [3, 0, 1] = [3, 6, 1, 2] := by
  norm_num [Poly.mulPoly, Poly.add]

variable [DecidableEq F]

/-- `lagrange.InterpolateAt` on distinct nodes (any order, any size) succeeds and returns the value at
`x` of Mathlib's Lagrange interpolant through `(xsⱼ, ysⱼ)` -/
theorem lagrange_interpolate (xs ys : List F) (x : F) (hnd : xs.Nodup)
    (hlen : xs.length = ys.length) :
    interpolateAt xs ys x = .ok ((Lagrange.interpolate (Finset.range xs.length)
      (fun j => xs.getD j 0) (fun j => ys.getD j 0)).eval x) := by
  unfold interpolateAt
  rw [if_neg (not_not.mpr hlen), basisAt_eq_basis hnd]
  simp only
  rw [dot_eq_sum_range _ _ (by simpa using hlen)]
  simp only [List.length_map, List.length_range]
  rw [Lagrange.interpolate_apply, eval_finsetSum]
  congr 1
  apply Finset.sum_congr rfl
  intro i hi
  rw [getD_map_range _ _ (Finset.mem_range.mp hi), eval_mul, eval_C, mul_comm]
  rfl

/-- hence: interpolating the evaluations of any polynomial of degree `< #nodes` recovers its value
at every point -/
theorem lagrange_recovers (xs : List F) (f : F[X]) (x : F) (hnd : xs.Nodup)
    (hdeg : f.degree < xs.length) :
    interpolateAt xs (xs.map fun a => f.eval a) x = .ok (f.eval x) := by
  rw [lagrange_interpolate xs _ x hnd (by simp)]
  congr 2
  symm
  apply Lagrange.eq_interpolate_of_eval_eq _ (nodeFn_injOn hnd) (by simpa using hdeg)
  intro i hi
  have hi' : i < xs.length := by simpa using hi
  simp [nodeFn, List.getD_eq_getElem?_getD, hi']

/-- the same about the model's own `Poly.eval` (what the harness oracle
`interpolate(evaluate f) = f(x)` checks on the Go side) -/
theorem lagrange_recovers_model (xs cs : List F) (x : F) (hnd : xs.Nodup)
    (hdeg : cs.length ≤ xs.length) :
    interpolateAt xs (xs.map (Poly.eval cs)) x = .ok (Poly.eval cs x) := by
  have h := lagrange_recovers xs (toPoly cs) x hnd
    (lt_of_lt_of_le (degree_toPoly_lt cs) (by exact_mod_cast hdeg))
  simpa only [← eval_eq_toPoly] using h

example : interpolateAt ([3, 0, 5] : List ℚ) (([3, 0, 5] : List ℚ).map (Poly.eval [5, 0, 1])) 7
    = .ok (Poly.eval [5, 0, 1] 7) :=
  lagrange_recovers_model _ _ _ (by decide) (by simp)

/-- `lagrange.BasisAt` on distinct nodes returns the values of Mathlib's Lagrange basis polynomials -/
theorem basisAt_eq (xs : List F) (x : F) (hnd : xs.Nodup) :
    basisAt xs x = some ((List.range xs.length).map fun i =>
      (Lagrange.basis (Finset.range xs.length) (fun j => xs.getD j 0) i).eval x) :=
  basisAt_eq_basis hnd x

/-- the Lagrange basis values sum to one -/
theorem basisAt_sum_one (xs : List F) (x : F) (hnd : xs.Nodup) (hne : xs ≠ []) (b : List F)
    (hb : basisAt xs x = some b) : b.sum = 1 := by
  rw [basisAt_eq_basis hnd, Option.some.injEq] at hb
  subst hb
  have hs : (Finset.range xs.length).Nonempty := by
    simpa [Finset.nonempty_range_iff, List.length_eq_zero_iff] using hne
  have := congrArg (Polynomial.eval x) (Lagrange.sum_basis (nodeFn_injOn hnd) hs)
  rw [eval_finsetSum, eval_one] at this
  rw [sum_map_range]; exact this

example : ∃ b, basisAt ([3, 0, 5] : List ℚ) 7 = some b ∧ b.sum = 1 := by
  refine ⟨_, basisAt_eq_basis (by decide) 7, ?_⟩
  exact basisAt_sum_one _ 7 (by decide) (by simp) _ (basisAt_eq_basis (by decide) 7)

/-- **`Polynomial.Derivative` is the formal derivative**: the returned coefficient list (after the Go
code's trimming to the degree, `[0]` for constants) denotes Mathlib's `derivative` of the input -/
theorem derivative_eval (cs : List F) (x : F) :
    Poly.eval (Poly.deriv cs) x
      = (derivative (∑ i ∈ Finset.range cs.length, C (cs.getD i 0) * X ^ i : F[X])).eval x := by
  rw [eval_eq_toPoly, toPoly_deriv]; rfl

/-- iterated: `Derivative` applied `j` times is the `j`-th formal derivative -/
theorem iterDeriv_eval (j : ℕ) (cs : List F) (x : F) :
    Poly.eval (iterDeriv j cs) x
      = (derivative^[j] (∑ i ∈ Finset.range cs.length, C (cs.getD i 0) * X ^ i : F[X])).eval x := by
  rw [eval_eq_toPoly, toPoly_iterDeriv]; rfl

/-- the derivative is linear and obeys the product rule on coefficient lists (through `toPoly`) -/
theorem derivative_add_mul (a b : List F) (x : F) :
    Poly.eval (Poly.deriv (Poly.add a b)) x = Poly.eval (Poly.deriv a) x + Poly.eval (Poly.deriv b) x ∧
    Poly.eval (Poly.deriv (Poly.mulPoly a b)) x
      = Poly.eval (Poly.deriv a) x * Poly.eval b x + Poly.eval a x * Poly.eval (Poly.deriv b) x := by
  simp only [eval_eq_toPoly, toPoly_deriv, toPoly_add, toPoly_mulPoly, derivative_add, derivative_mul,
    Polynomial.eval_add, Polynomial.eval_mul, and_self]

example : Poly.deriv ([5, 0, 1, 0] : List ℚ) = [0, 2] := by
  simp [Poly.deriv, trim, derivCoeffs, Poly.nsmul, List.zipIdx]; norm_num

/-- **`internal.Phi(t, x, j)`** is `(d/dx)^j Xᵗ` at `x` (in particular `0` for `j > t`) -/
theorem phi_eq_iterate_derivative (t : ℕ) (x : F) (j : ℕ) :
    phi t x j = (derivative^[j] (X ^ t : F[X])).eval x := phi_eq t x j

omit [DecidableEq F] in
/-- Vandermonde: a solution `c` of the model's Vandermonde system `V(xs) · c = ys` (the system
`vandermonde.Interpolate` hands to `SolveRight`) is the coefficient list of the Lagrange interpolant -/
theorem vandermonde_interpolate (xs ys c : List F) (hnd : xs.Nodup) (hc : c.length = xs.length)
    (hsol : mulVec (xs.map fun x => powers x xs.length) c = ys) :
    (∑ i ∈ Finset.range c.length, C (c.getD i 0) * X ^ i : F[X])
      = Lagrange.interpolate (Finset.range xs.length) (fun j => xs.getD j 0) (fun j => ys.getD j 0) := by
  apply Lagrange.eq_interpolate_of_eval_eq _ (nodeFn_injOn hnd)
  · have := degree_toPoly_lt c
    rw [hc] at this; simpa [toPoly] using this
  · intro i hi
    have := vandermonde_solution_eval xs ys c hc hsol i (by simpa using hi)
    rw [eval_eq_toPoly] at this
    exact this

omit [DecidableEq F] in
/-- the Vandermonde system built from the evaluations of a coefficient list `cs` (degree `< n`) at
distinct nodes is solvable and `cs` is its only solution: solving it recovers the polynomial -/
theorem vandermonde_recovers (xs cs : List F) (hnd : xs.Nodup) (hcs : cs.length = xs.length) :
    mulVec (xs.map fun x => powers x xs.length) cs = xs.map (Poly.eval cs) ∧
    ∀ c : List F, c.length = xs.length →
      mulVec (xs.map fun x => powers x xs.length) c = xs.map (Poly.eval cs) → c = cs := by
  have hex : mulVec (xs.map fun x => powers x xs.length) cs = xs.map (Poly.eval cs) := by
    unfold mulVec
    rw [List.map_map]
    apply List.map_congr_left
    intro x _
    simp only [Function.comp]
    rw [← hcs, dot_powers]
  refine ⟨hex, ?_⟩
  intro c hc hsol
  apply toPoly_injective (hc.trans hcs.symm)
  have h1 := vandermonde_interpolate xs _ c hnd hc hsol
  have h2 := vandermonde_interpolate xs _ cs hnd hcs hex
  exact h1.trans h2.symm

example : mulVec (([3, 0, 5] : List ℚ).map fun x => powers x 3) [5, 0, 1]
    = ([3, 0, 5] : List ℚ).map (Poly.eval [5, 0, 1]) :=
  (vandermonde_recovers ([3, 0, 5] : List ℚ) [5, 0, 1] (by decide) rfl).1

/-- full statement for `vandermonde.Interpolate` (model `vandermondeInterpolate`, which calls the
Gauss–Jordan model `LinAlg.solveRight`); proved below as `vandermonde_interpolate_recovers` -/
def vandermonde_interpolate_statement (F : Type) [Field F] [DecidableEq F] : Prop :=
  ∀ (xs cs : List F), xs.Nodup → xs ≠ [] → cs.length = xs.length →
    vandermondeInterpolate xs (xs.map (Poly.eval cs)) = .ok cs

/-- `vandermonde_interpolate_statement` relative to soundness and completeness of `LinAlg.solveRight`
on this system (hypotheses `hsound`, `hcomplete`).  Kept as the lemma from which the full statement
`vandermonde_interpolate_recovers` is obtained by discharging both hypotheses with the Gauss–Jordan
theorems `C20.solveRight_sound` / `C20.solveRight_complete`; nothing is missing any more. -/
theorem vandermonde_interpolate_partial (xs cs : List F) (hnd : xs.Nodup) (hne : xs ≠ [])
    (hcs : cs.length = xs.length)
    (hsound : ∀ c, solveRight (xs.map fun x => powers x xs.length) xs.length (xs.map (Poly.eval cs)) = some c →
      c.length = xs.length ∧ mulVec (xs.map fun x => powers x xs.length) c = xs.map (Poly.eval cs))
    (hcomplete : solveRight (xs.map fun x => powers x xs.length) xs.length (xs.map (Poly.eval cs)) = none →
      ¬ ∃ c : List F, c.length = xs.length ∧
        mulVec (xs.map fun x => powers x xs.length) c = xs.map (Poly.eval cs)) :
    vandermondeInterpolate xs (xs.map (Poly.eval cs)) = .ok cs := by
  unfold vandermondeInterpolate
  rw [if_neg (by simp), if_neg (by simpa using hne)]
  obtain ⟨hex, huniq⟩ := vandermonde_recovers xs cs hnd hcs
  cases h : solveRight (xs.map fun x => powers x xs.length) xs.length (xs.map (Poly.eval cs)) with
  | none => exact absurd ⟨cs, hcs, hex⟩ (hcomplete h)
  | some c =>
    obtain ⟨h1, h2⟩ := hsound c h
    simp only [huniq c h1 h2]

omit [DecidableEq F] in
theorem length_powers (x : F) (n : ℕ) : (powers x n).length = n := by
  induction n with
  | zero => rfl
  | succ n ih => simp [powers, ih]

/-- **`vandermonde.Interpolate` recovers the polynomial** (`vandermonde_interpolate_statement`): on
distinct nodes (any order, any size, `0` allowed) and the evaluations of a coefficient list of length
`n = #nodes`, the model — Vandermonde matrix handed to the mirrored Gauss–Jordan `solveRight` —
returns exactly that coefficient list.  The hypotheses of `vandermonde_interpolate_partial` are
discharged by `C20.solveRight_sound` / `C20.solveRight_complete`. -/
theorem vandermonde_interpolate_recovers : vandermonde_interpolate_statement F := by
  intro xs cs hnd hne hcs
  have hW : ∀ row ∈ xs.map (fun x => powers x xs.length), row.length = xs.length := by
    intro row h
    obtain ⟨x, _, rfl⟩ := List.mem_map.mp h
    exact length_powers x _
  exact vandermonde_interpolate_partial xs cs hnd hne hcs
    (fun c h => C20.solveRight_sound _ _ _ hW (by simp) c h)
    (fun h => C20.solveRight_complete _ _ _ hW (by simp) h)

example : vandermondeInterpolate ([3, 0, 5] : List ℚ) (([3, 0, 5] : List ℚ).map (Poly.eval [5, 0, 1]))
    = .ok [5, 0, 1] :=
  vandermonde_interpolate_recovers _ _ (by decide) (by simp) rfl

/-- the coefficient list (length `n`) of a polynomial of degree `< n` -/
noncomputable def coeffList (p : F[X]) (n : ℕ) : List F := (List.range n).map p.coeff

omit [DecidableEq F] in
theorem toPoly_coeffList (p : F[X]) (n : ℕ) (h : p.degree < n) : toPoly (coeffList p n) = p := by
  ext i
  rw [coeff_toPoly]
  unfold coeffList
  by_cases hi : i < n
  · rw [getD_map_range _ _ hi]
  · rw [getD_of_le _ (by simpa using not_lt.mp hi)]
    exact (coeff_eq_zero_of_degree_lt (lt_of_lt_of_le h (by exact_mod_cast not_lt.mp hi))).symm

/-- **`vandermonde.Interpolate` at distinct nodes returns the unique interpolating polynomial of degree
`< n`**, for arbitrary values: the call succeeds, the returned list has `n` coefficients, it is the
coefficient list of Mathlib's `Lagrange.interpolate` (so it passes through every point), and any
other coefficient list of length `n` through the points equals it. -/
theorem vandermonde_interpolate_unique (xs ys : List F) (hnd : xs.Nodup) (hne : xs ≠ [])
    (hlen : ys.length = xs.length) :
    ∃ c, vandermondeInterpolate xs ys = .ok c ∧ c.length = xs.length ∧
      toPoly c = Lagrange.interpolate (Finset.range xs.length) (fun j => xs.getD j 0)
        (fun j => ys.getD j 0) ∧
      (∀ i, i < xs.length → Poly.eval c (xs.getD i 0) = ys.getD i 0) ∧
      ∀ c' : List F, c'.length = xs.length →
        (∀ i, i < xs.length → Poly.eval c' (xs.getD i 0) = ys.getD i 0) → c' = c := by
  set p := Lagrange.interpolate (Finset.range xs.length) (fun j => xs.getD j 0)
    (fun j => ys.getD j 0) with hp
  have hdeg : p.degree < xs.length := by
    have := Lagrange.degree_interpolate_lt (s := Finset.range xs.length)
      (v := fun j => xs.getD j 0) (fun j => ys.getD j 0) (nodeFn_injOn hnd)
    rw [Finset.card_range] at this
    exact this
  set cs := coeffList p xs.length with hcs
  have hcl : cs.length = xs.length := by simp [hcs, coeffList]
  have htp : toPoly cs = p := toPoly_coeffList p _ hdeg
  have hev : ∀ i, i < xs.length → Poly.eval cs (xs.getD i 0) = ys.getD i 0 := by
    intro i hi
    rw [eval_eq_toPoly, htp, hp]
    exact Lagrange.eval_interpolate_at_node (fun j => ys.getD j 0) (nodeFn_injOn hnd)
      (Finset.mem_range.mpr hi)
  have hys : ys = xs.map (Poly.eval cs) := by
    apply List.ext_getElem (by simp [hlen])
    intro i h1 h2
    have hi : i < xs.length := by simpa using h2
    have := hev i hi
    simp only [List.getD_eq_getElem?_getD, List.getElem?_eq_getElem hi, List.getElem?_eq_getElem h1,
      Option.getD_some] at this
    simp [this]
  refine ⟨cs, ?_, hcl, htp, hev, ?_⟩
  · rw [hys]; exact vandermonde_interpolate_recovers xs cs hnd hne hcl
  · intro c' hc' hev'
    apply toPoly_injective (hc'.trans hcl.symm)
    rw [htp, hp]
    apply Lagrange.eq_interpolate_of_eval_eq _ (nodeFn_injOn hnd)
    · have := degree_toPoly_lt c'; rw [hc'] at this; simpa using this
    · intro i hi
      have := hev' i (by simpa using hi)
      rw [eval_eq_toPoly] at this
      exact this

example : ∃ c, vandermondeInterpolate ([3, 0, 5] : List ℚ) [1, 1, 4] = .ok c ∧ c.length = 3 := by
  obtain ⟨c, h, hl, _⟩ := vandermonde_interpolate_unique ([3, 0, 5] : List ℚ) [1, 1, 4] (by decide)
    (by simp) rfl
  exact ⟨c, h, hl⟩

/-- full statement for `birkhoff.Interpolate` (on sorted nodes, with the model's determinant routine
`LinAlg.det`): a returned coefficient list has `n` entries and satisfies every derivative
constraint `(d/dx)^{jᵣ} p (xᵣ) = yᵣ`; proved below as `birkhoff_cramer` (and for the unsorted public
entry point as `birkhoff_interpolate_sound`) -/
def birkhoff_cramer_statement (F : Type) [Field F] [DecidableEq F] : Prop :=
  ∀ (xs : List F) (js : List ℕ) (ys c : List F), js.length = xs.length → ys.length = xs.length →
    birkhoffSorted LinAlg.det xs js ys = .ok c →
    c.length = xs.length ∧
      ∀ r, r < xs.length → Poly.eval (iterDeriv (js.getD r 0) c) (xs.getD r 0) = ys.getD r 0

/-- (Cramer's rule, `Matrix.mulVec_cramer`; relative to an abstract determinant routine `detF`): if the determinant routine used by the model
computes `Matrix.det` on `n × n` list matrices (hypothesis `hdet`; for `LinAlg.det` this is the
forward-elimination theorem of `Props/C20.lean`), then whenever `birkhoff.Interpolate` (model
`birkhoffSorted`) returns coefficients `c`, they solve the Birkhoff–Vandermonde system
`B(xs, js) · c = ys`, whose row `r` is `(Phi(0,xᵣ,jᵣ), …, Phi(n-1,xᵣ,jᵣ))`.
Kept as the lemma behind `birkhoff_cramer`, which supplies the two ingredients that were missing
here: `hdet` for the executable `LinAlg.det` (`det_computes_matrix_det`, from
`Lemmas/GaussJordanDet.lean`) and the identification of a row of `B` with the functional
`c ↦ (d/dx)^{jᵣ} (Σ cₖ Xᵏ) (xᵣ)` (`Lemmas/PolyDeriv.lean`: `mulVec_birkhoffMatrix`). -/
theorem birkhoff_cramer_partial (detF : Mat F → F) (xs : List F) (js : List ℕ) (ys c : List F)
    (hj : js.length = xs.length) (hy : ys.length = xs.length)
    (hdet : ∀ m : Mat F, m.length = xs.length → (∀ row ∈ m, row.length = xs.length) →
      detF m = (toMatrix xs.length m).det)
    (hok : birkhoffSorted detF xs js ys = .ok c) :
    c.length = xs.length ∧ mulVec (birkhoffMatrix xs js xs.length) c = ys := by
  unfold birkhoffSorted at hok
  simp only at hok
  split at hok
  · cases hok
  · rename_i hne
    injection hok with hc
    subst hc
    refine ⟨by simp, ?_⟩
    apply cramer_list detF _ ys xs.length _ _ hy hdet hne
    · simp [birkhoffMatrix, hj]
    · intro row h
      unfold birkhoffMatrix at h
      obtain ⟨i, hi, rfl⟩ := List.mem_iff_getElem.mp h
      rw [List.getElem_zipWith]
      simp

example : ∃ c, birkhoffSorted (fun m => entry m 0 0 * entry m 1 1 - entry m 0 1 * entry m 1 0)
    ([2, 5] : List ℚ) [0, 1] [7, 3] = .ok c := ⟨_, by
  simp [birkhoffSorted, birkhoffMatrix, phi, iterDeriv, deriv, trim, derivCoeffs, Poly.eval, Poly.nsmul,
    entry, setColumn]; rfl⟩

/-- the model's own determinant routine satisfies the hypothesis `hdet` of `birkhoff_cramer_partial`
(`Lemmas/GaussJordanDet.lean`: forward elimination with sign tracking computes `Matrix.det`) -/
theorem det_computes_matrix_det (n : ℕ) (m : Mat F) (hl : m.length = n)
    (hW : ∀ row ∈ m, row.length = n) : LinAlg.det m = (LinAlg.toMatrix n m).det := by
  subst hl
  exact det_eq_matrix_det m hW

/-- **Birkhoff / Cramer** (`birkhoff_cramer_statement`): with the model's own executable determinant
`LinAlg.det`, whenever `birkhoff.Interpolate` (on sorted nodes) returns coefficients, there are `n` of
them and every derivative constraint `(d/dx)^{jᵣ} p (xᵣ) = yᵣ` holds — for every node/order pattern
(the returned-`ok` case is exactly "the Birkhoff matrix has non-zero determinant"). -/
theorem birkhoff_cramer : birkhoff_cramer_statement F := by
  intro xs js ys c hj hy hok
  obtain ⟨hc, hmul⟩ := birkhoff_cramer_partial LinAlg.det xs js ys c hj hy
    (fun m hl hW => det_computes_matrix_det _ m hl hW) hok
  refine ⟨hc, ?_⟩
  intro r hr
  rw [← hc, mulVec_birkhoffMatrix] at hmul
  have := congrArg (fun l => l.getD r 0) hmul
  simp only [List.getD_eq_getElem?_getD, List.getElem?_zipWith] at this ⊢
  rw [List.getElem?_eq_getElem hr, List.getElem?_eq_getElem (hj ▸ hr)] at this ⊢
  simpa using this

/-- `birkhoff.Interpolate` returns a result exactly when the determinant (the model's, hence Mathlib's)
of the Birkhoff matrix is non-zero -/
theorem birkhoffSorted_ok_iff (xs : List F) (js : List ℕ) (ys : List F) :
    (∃ c, birkhoffSorted LinAlg.det xs js ys = .ok c) ↔
      LinAlg.det (birkhoffMatrix xs js xs.length) ≠ 0 := by
  unfold birkhoffSorted
  simp only
  split
  · rename_i h; simp [h]
  · rename_i h; simp [h]

/-- **Birkhoff recovers the polynomial**: if the Birkhoff matrix of the (sorted) nodes is non-singular
and the values are the prescribed derivatives of a coefficient list `cs` of length `n`, then
`birkhoff.Interpolate` returns exactly `cs` (Cramer's solution solves the system, and a non-singular
system has only one solution). -/
theorem birkhoff_recovers (xs : List F) (js : List ℕ) (cs : List F) (hj : js.length = xs.length)
    (hcs : cs.length = xs.length)
    (hdet : LinAlg.det (birkhoffMatrix xs js xs.length) ≠ 0) :
    birkhoffSorted LinAlg.det xs js
      (List.zipWith (fun x j => Poly.eval (iterDeriv j cs) x) xs js) = .ok cs := by
  set ys := List.zipWith (fun x j => Poly.eval (iterDeriv j cs) x) xs js with hys
  have hyl : ys.length = xs.length := by simp [hys, hj]
  obtain ⟨c, hok⟩ := (birkhoffSorted_ok_iff xs js ys).mpr hdet
  obtain ⟨hc, hmul⟩ := birkhoff_cramer_partial LinAlg.det xs js ys c hj hyl
    (fun m hl hW => det_computes_matrix_det _ m hl hW) hok
  have hmul' : mulVec (birkhoffMatrix xs js xs.length) cs = ys := by
    rw [← hcs, mulVec_birkhoffMatrix]
  rw [hok]
  congr 1
  -- both solve the non-singular system
  have hBl : (birkhoffMatrix xs js xs.length).length = xs.length := by simp [birkhoffMatrix, hj]
  have hBW : ∀ row ∈ birkhoffMatrix xs js xs.length, row.length = xs.length := by
    intro row h
    unfold birkhoffMatrix at h
    obtain ⟨i, hi, rfl⟩ := List.mem_iff_getElem.mp h
    rw [List.getElem_zipWith]; simp
  have hd : (LinAlg.toMatrix xs.length (birkhoffMatrix xs js xs.length)).det ≠ 0 := by
    rw [← det_computes_matrix_det _ _ hBl hBW]; exact hdet
  have h1 := (mulVec_eq_iff _ xs.length c ys hc (by rw [hBl, hyl])).mp hmul
  have h2 := (mulVec_eq_iff _ xs.length cs ys hcs (by rw [hBl, hyl])).mp hmul'
  rw [hBl] at h1 h2
  have hinj := Matrix.mulVec_injective_of_det_ne_zero hd
  have hv : toVec xs.length c = toVec xs.length cs := hinj (h1.trans h2.symm)
  refine list_eq_of_getD c cs (hc.trans hcs.symm) fun i hi => ?_
  exact congrFun hv ⟨i, hc ▸ hi⟩

example : birkhoffSorted LinAlg.det ([2, 5] : List ℚ) [0, 1]
    (List.zipWith (fun x j => Poly.eval (iterDeriv j [7, 3]) x) [2, 5] [0, 1]) = .ok [7, 3] :=
  birkhoff_recovers _ _ _ rfl rfl (by
    rw [det_computes_matrix_det 2 _ rfl (by decide)]
    simp [LinAlg.toMatrix, Matrix.det_fin_two, birkhoffMatrix, phi, iterDeriv, deriv, trim,
      derivCoeffs, Poly.eval, Poly.nsmul, entry])

/-- the public entry point (unsorted nodes; `internal.SortNodes` by `(x, j)` first): a returned
coefficient list has `n` entries and satisfies the derivative constraint of **every input node**,
whatever the order in which the nodes were given -/
theorem birkhoff_interpolate_sound (key : F → ℕ) (xs : List F) (js : List ℕ) (ys c : List F)
    (hok : birkhoffInterpolate LinAlg.det key xs js ys = .ok c) :
    c.length = xs.length ∧
      ∀ i, i < xs.length → Poly.eval (iterDeriv (js.getD i 0) c) (xs.getD i 0) = ys.getD i 0 := by
  unfold birkhoffInterpolate at hok
  split at hok
  · cases hok
  rename_i hlen
  split at hok
  · cases hok
  have hlen : xs.length = js.length ∧ xs.length = ys.length := by
    by_contra hc; exact hlen (by tauto)
  simp only at hok
  set s := sortNodes key (List.zip xs (List.zip js ys)) with hs
  have hperm : s.Perm (List.zip xs (List.zip js ys)) := by
    rw [hs]; unfold sortNodes; exact List.mergeSort_perm _ _
  have hsl : s.length = xs.length := by
    rw [hperm.length_eq]; simp [← hlen.1, ← hlen.2]
  obtain ⟨hc, hall⟩ := birkhoff_cramer (s.map (·.1)) (s.map (·.2.1)) (s.map (·.2.2)) c (by simp)
    (by simp) hok
  rw [List.length_map, hsl] at hc hall
  refine ⟨hc, ?_⟩
  intro i hi
  have hmem : (xs[i], js[i]'(hlen.1 ▸ hi), ys[i]'(hlen.2 ▸ hi)) ∈ s := by
    rw [hperm.mem_iff]
    refine List.mem_iff_getElem.mpr ⟨i, by simp [← hlen.1, ← hlen.2, hi], ?_⟩
    simp
  obtain ⟨r, hr, hsr⟩ := List.mem_iff_getElem.mp hmem
  have := hall r (hsl ▸ hr)
  simp only [List.getD_eq_getElem?_getD, List.getElem?_map, List.getElem?_eq_getElem hr, hsr,
    Option.map_some, Option.getD_some] at this
  simp only [List.getD_eq_getElem?_getD, List.getElem?_eq_getElem hi,
    List.getElem?_eq_getElem (hlen.1 ▸ hi), List.getElem?_eq_getElem (hlen.2 ▸ hi), Option.getD_some]
  exact this

section
local instance : Fact (Nat.Prime 7) := ⟨by norm_num⟩
/-- unsorted input `(5, 1, 3), (2, 0, 6)` over `ZMod 7`: `p(2) = 6`, `p'(5) = 3` gives `p = 3X` -/
example : birkhoffInterpolate LinAlg.det ZMod.val ([5, 2] : List (ZMod 7)) [1, 0] [3, 6] = .ok [0, 3] := by
  have hs : sortNodes ZMod.val (List.zip [5, 2] (List.zip [1, 0] [3, 6]))
      = [((2 : ZMod 7), 0, (6 : ZMod 7)), (5, 1, 3)] := by
    simp [sortNodes, List.mergeSort, List.merge, List.MergeSort.Internal.splitInTwo]
    decide
  unfold birkhoffInterpolate
  rw [if_neg (by decide), if_neg (by decide)]
  simp only [hs]
  decide +kernel
end

end Scalar

section Exponent
variable {F G : Type} [Field F] [DecidableEq F] [AddCommGroup G] [Module F G]

/-- Lagrange interpolation in the exponent commutes with lifting: on lifted values it returns the
lift of the scalar interpolation (and fails exactly when the scalar one fails) -/
theorem interpolateExpAt_lift (xs ys : List F) (g : G) (x : F) :
    interpolateExpAt xs (ys.map fun y => y • g) x = (interpolateAt xs ys x).map fun v => v • g := by
  unfold interpolateExpAt interpolateAt
  simp only [List.length_map]
  split
  · rfl
  · cases basisAt xs x with
    | none => rfl
    | some b => simp only [gdot_map_smul]; rfl

/-- hence interpolation in the exponent of `f(xᵢ) • g` at distinct nodes recovers `f(x) • g` -/
theorem lagrange_exponent_recovers (xs : List F) (f : F[X]) (x : F) (g : G) (hnd : xs.Nodup)
    (hdeg : f.degree < xs.length) :
    interpolateExpAt xs (xs.map fun a => f.eval a • g) x = .ok (f.eval x • g) := by
  have h := interpolateExpAt_lift xs (xs.map fun a => f.eval a) g x
  rw [List.map_map, lagrange_recovers xs f x hnd hdeg] at h
  exact h

example : interpolateExpAt ([3, 0, 5] : List ℚ) (([3, 0, 5] : List ℚ).map fun a => (X ^ 2 + C 5 : ℚ[X]).eval a • (2 : ℚ)) 7
    = .ok ((X ^ 2 + C 5 : ℚ[X]).eval 7 • (2 : ℚ)) :=
  lagrange_exponent_recovers _ _ _ _ (by decide)
    (lt_of_le_of_lt (degree_add_le _ _) (by simp; norm_num))

omit [DecidableEq F] in
/-- **`ModuleValuedPolynomial.Eval` commutes with `LiftPolynomial`**: `(f • g)(x) = f(x) • g` -/
theorem evalG_lift (cs : List F) (g : G) (x : F) :
    evalG (liftPoly cs g) x = Poly.eval cs x • g := evalG_liftPoly cs g x

omit [DecidableEq F] in
/-- **`ModuleValuedPolynomial.Derivative` commutes with `LiftPolynomial`**: it is the lift of the
coefficient-wise derivative, hence evaluates to `f'(x) • g` -/
theorem derivG_lift (cs : List F) (g : G) (x : F) :
    derivG (liftPoly cs g) = liftPoly (if cs.length ≤ 1 then [0] else derivCoeffs cs) g ∧
    evalG (derivG (liftPoly cs g)) x
      = (derivative (∑ i ∈ Finset.range cs.length, C (cs.getD i 0) * X ^ i : F[X])).eval x • g := by
  refine ⟨derivG_liftPoly cs g, ?_⟩
  rw [derivG_liftPoly, evalG_liftPoly, eval_eq_toPoly]
  congr 2
  split
  · rename_i h
    rw [toPoly_singleton, map_zero]
    exact (toPoly_of_length_le_one cs h).symm
  · exact toPoly_derivCoeffs cs

example : evalG (liftPoly ([5, 0, 1] : List ℚ) (2 : ℚ)) (7 : ℚ) = Poly.eval ([5, 0, 1] : List ℚ) 7 • (2 : ℚ) :=
  evalG_lift (F := ℚ) (G := ℚ) [5, 0, 1] 2 7

/-- **Birkhoff in the exponent commutes with lifting** (sorted nodes): the cofactor expansion evaluated
on lifted values `yᵣ • g` returns the lift of Cramer's rule on the scalars `yᵣ`, and fails exactly
when the scalar routine fails (Laplace expansion `Matrix.det_succ_column` for the model's `det`). -/
theorem birkhoffExpSorted_lift (xs : List F) (js : List ℕ) (ys : List F) (g : G)
    (hj : js.length = xs.length) (hy : ys.length = xs.length) :
    birkhoffExpSorted LinAlg.det xs js (ys.map fun y => y • g)
      = (birkhoffSorted LinAlg.det xs js ys).map fun c => c.map fun v => v • g := by
  unfold birkhoffExpSorted birkhoffSorted
  simp only
  split
  · rfl
  · show Except.ok _ = Except.ok _
    congr 1
    show List.map _ _ = List.map _ (List.map _ _)
    rw [List.map_map]
    apply List.map_congr_left
    intro c hc
    have hc : c < xs.length := List.mem_range.mp hc
    simp only [Function.comp, gdot_map_smul, smul_smul]
    congr 1
    have hBl : (birkhoffMatrix xs js xs.length).length = xs.length := by simp [birkhoffMatrix, hj]
    have hBW : ∀ row ∈ birkhoffMatrix xs js xs.length, row.length = xs.length := by
      intro row h
      unfold birkhoffMatrix at h
      obtain ⟨i, hi, rfl⟩ := List.mem_iff_getElem.mp h
      rw [List.getElem_zipWith]; simp
    rw [det_setColumn_eq_cofactor_sum LinAlg.det (fun n m hl hW => det_computes_matrix_det n m hl hW)
      _ ys xs.length c hBl hBW hy hc, mul_comm]

/-- the public entry point: `birkhoff.InterpolateInExponent` on lifted values is the lift of
`birkhoff.Interpolate` (same sorting, same refusals) -/
theorem birkhoffExpInterpolate_lift (key : F → ℕ) (xs : List F) (js : List ℕ) (ys : List F) (g : G) :
    birkhoffExpInterpolate LinAlg.det key xs js (ys.map fun y => y • g)
      = (birkhoffInterpolate LinAlg.det key xs js ys).map fun c => c.map fun v => v • g := by
  unfold birkhoffExpInterpolate birkhoffInterpolate
  simp only [List.length_map]
  split
  · rfl
  split
  · rfl
  set f : F × ℕ × F → F × ℕ × G := Prod.map id (Prod.map id fun y => y • g) with hf
  have hzip : List.zip xs (List.zip js (ys.map fun y => y • g)) = (List.zip xs (List.zip js ys)).map f := by
    rw [hf, List.zip_map_right, List.zip_map_right]
  have hsort : sortNodes key (List.zip xs (List.zip js (ys.map fun y => y • g)))
      = (sortNodes key (List.zip xs (List.zip js ys))).map f := by
    rw [hzip]; unfold sortNodes
    exact (List.map_mergeSort
      (r := fun a b : F × ℕ × F => decide (key a.1 < key b.1 ∨ (key a.1 = key b.1 ∧ a.2.1 ≤ b.2.1)))
      (s := fun a b : F × ℕ × G => decide (key a.1 < key b.1 ∨ (key a.1 = key b.1 ∧ a.2.1 ≤ b.2.1)))
      (f := f) (fun a _ b _ => rfl)).symm
  simp only [hsort, List.map_map]
  have h1 : ((fun t : F × ℕ × G => t.1) ∘ f) = fun t => t.1 := rfl
  have h2 : ((fun t : F × ℕ × G => t.2.1) ∘ f) = fun t => t.2.1 := rfl
  have h3 : ((fun t : F × ℕ × G => t.2.2) ∘ f) = (fun y => y • g) ∘ fun t => t.2.2 := rfl
  rw [h1, h2, h3, ← List.map_map]
  exact birkhoffExpSorted_lift _ _ _ g (by simp) (by simp)

example : birkhoffExpSorted LinAlg.det ([2, 5] : List ℚ) [0, 1] (([13, 3] : List ℚ).map fun y => y • (2 : ℚ))
    = (birkhoffSorted LinAlg.det ([2, 5] : List ℚ) [0, 1] [13, 3]).map fun c => c.map fun v => v • (2 : ℚ) :=
  birkhoffExpSorted_lift _ _ _ _ rfl rfl

omit [DecidableEq F] in
/-- `mat.LeftAction` commutes with `mat.Lift`: `A · (R • g) = (A · R) • g` (any shapes; short rows
read as zero on both sides) -/
theorem leftAction_lift (A R : Mat F) (g : G) :
    leftAction A (lift R g) = lift (mul A R) g := by
  unfold leftAction
  simp only [gtranspose_lift]
  unfold mul lift
  simp only [List.map_map]
  apply List.map_congr_left
  intro r _
  simp only [Function.comp, List.map_map]
  apply List.map_congr_left
  intro col _
  simp only [Function.comp, gdot_map_smul]

omit [DecidableEq F] in
/-- `mat.RightAction` commutes with `mat.Lift`: `(R • g) · B = (R · B) • g` -/
theorem rightAction_lift (R B : Mat F) (g : G) :
    rightAction (lift R g) B = lift (mul R B) g := by
  unfold rightAction mul lift
  simp only [List.map_map]
  apply List.map_congr_left
  intro r _
  simp only [Function.comp, List.map_map]
  apply List.map_congr_left
  intro col _
  simp only [Function.comp, gdot_map_smul, dot_comm col r]

example : leftAction ([[1, 2], [0, 3]] : Mat ℚ) (lift ([[5], [7]] : Mat ℚ) (2 : ℚ))
    = lift (mul ([[1, 2], [0, 3]] : Mat ℚ) [[5], [7]]) (2 : ℚ) := leftAction_lift _ _ _

end Exponent

end BronVerif.Props.C20Poly
