import BronVerif.Lemmas.Sigma
import BronVerif.Gen.SigmaLenChecks
import Mathlib.Data.Set.Function
import Mathlib.Data.ZMod.Basic
import Mathlib.Algebra.Group.TypeTags.Basic
/-!
# C08 — non-interactive proofs verify only for the right statement, prover and session

All theorems are about the executable definitions of `Model/Sigma.lean` that the driver runs
(`Maurer.verify/respond/simulate/extract`, `batchVerify`, `andVerify`, `orVerify`, `fsVerify`,
`fischlinVerify`, `zkRound4`), instantiated with an arbitrary Mathlib `CommGroup` through
`Grp.ofGroup` / `Maurer.Lawful` (see `Lemmas/Sigma.lean`); `maurer_extract` is additionally stated in
the pure-Mathlib shape of DESIGN.md Appendix A.

Idealisations are hypotheses: the hash is injective *on the inputs that occur* (`Set.InjOn`), the
transcript framing is injective (`frameInj`; the concrete framing theorem is C19's), the challenge
commitment of the ZK compiler is binding.
-/
namespace BronVerif.Props.C08
open BronVerif.Sigma

section maurer
variable {H G : Type} [CommGroup G] [DecidableEq G] {P : Maurer H G}

theorem verify_iff (hP : P.Lawful) (x a : G) (e : Nat) (z : H) :
    P.verify x a e z = true ↔ P.phi z = a * x ^ e := by
  unfold Maurer.verify
  rw [hP.cod_eq]
  simp

/-- completeness: the honest response to any challenge verifies -/
theorem maurer_complete (hP : P.Lawful) (w s : H) (e : Nat) :
    P.verify (P.phi w) (P.commit s) e (P.respond w s e) = true := by
  rw [verify_iff hP]
  unfold Maurer.respond Maurer.commit
  rw [hP.map_mul, hP.map_pow]

/-- the simulator's transcript verifies, for every statement (no witness needed) -/
theorem maurer_simulator_verifies (hP : P.Lawful) (x : G) (e : Nat) (z : H) :
    P.verify x (P.simulate x e z) e z = true := by
  rw [verify_iff hP]
  unfold Maurer.simulate
  rw [hP.cod_eq]
  simp [inv_pow]

/-- special soundness, Appendix A shape (pure Mathlib): from two accepting transcripts with the same
commitment, the anchor pre-image and Bézout coefficients of `(ℓ, e₁ - e₂)` give a witness -/
theorem maurer_extract {H G : Type} [CommGroup H] [CommGroup G] (φ : H →* G) (ℓ : ℤ) (u : H) (x a : G)
    (hu : φ u = x ^ ℓ) (e₁ e₂ : ℤ) (z₁ z₂ : H) (α β : ℤ) (hb : α * ℓ + β * (e₁ - e₂) = 1)
    (h₁ : φ z₁ = a * x ^ e₁) (h₂ : φ z₂ = a * x ^ e₂) : φ (u ^ α * (z₁ * z₂⁻¹) ^ β) = x := by
  have hz : φ (z₁ * z₂⁻¹) = x ^ (e₁ - e₂) := by
    rw [map_mul, map_inv, h₁, h₂, zpow_sub, mul_inv, mul_mul_mul_comm, mul_inv_cancel, one_mul]
  rw [map_mul, map_zpow, map_zpow, hu, hz, ← zpow_mul, ← zpow_mul, ← zpow_add]
  have : ℓ * α + (e₁ - e₂) * β = 1 := by rw [← hb]; ring
  rw [this, zpow_one]

/-- the same for the model's `extractWith` (what `Extract` computes from the coefficients) -/
theorem maurer_extractWith (hP : P.Lawful) (x a : G) (e₁ e₂ : Nat) (z₁ z₂ : H) (α β : ℤ)
    (hb : α * P.ell + β * ((e₁ : ℤ) - (e₂ : ℤ)) = 1)
    (h₁ : P.verify x a e₁ z₁ = true) (h₂ : P.verify x a e₂ z₂ = true) :
    P.phi (P.extractWith x z₁ z₂ α β) = x := by
  rw [verify_iff hP] at h₁ h₂
  unfold Maurer.extractWith
  rw [hP.map_mul, hP.map_zpow, hP.map_zpow, hP.map_mul, hP.map_inv, hP.anchor, h₁, h₂]
  have hz : (a * x ^ e₂)⁻¹ * (a * x ^ e₁) = x ^ ((e₁ : ℤ) - (e₂ : ℤ)) := by
    rw [zpow_sub, zpow_natCast, zpow_natCast, mul_inv, mul_mul_mul_comm, inv_mul_cancel, one_mul, mul_comm]
  rw [hz, ← zpow_mul, ← zpow_mul, ← zpow_add]
  have : P.ell * α + ((e₁ : ℤ) - (e₂ : ℤ)) * β = 1 := by rw [← hb]; ring
  rw [this, zpow_one]

/-- full statement for the model extractor: two accepting transcripts with coprime `(ℓ, e₁-e₂)`
always yield a witness.  Missing for the full statement: correctness of `xgcd` (that it finds
Bézout coefficients whenever the gcd is 1) — the extractor checks the identity at run time and the
C08 stream exercises it; what is proved is that every witness it returns is valid. -/
def maurer_extract_model_statement (P : Maurer H G) : Prop :=
  ∀ (x a : G) (e₁ e₂ : Nat) (z₁ z₂ : H), P.verify x a e₁ z₁ = true → P.verify x a e₂ z₂ = true →
    Int.gcd P.ell ((e₁ : ℤ) - (e₂ : ℤ)) = 1 → ∃ w, P.extract x a e₁ e₂ z₁ z₂ = some w ∧ P.phi w = x

/-- every witness returned by the model extractor (`Extract`) satisfies `φ w = x` -/
theorem maurer_extract_model_partial (hP : P.Lawful) (x a : G) (e₁ e₂ : Nat) (z₁ z₂ w : H)
    (h : P.extract x a e₁ e₂ z₁ z₂ = some w) : P.phi w = x := by
  unfold Maurer.extract at h
  split at h
  · rename_i hv
    simp only [Bool.and_eq_true] at hv
    dsimp only at h
    split at h
    · rename_i hb
      cases h
      exact maurer_extractWith hP x a e₁ e₂ z₁ z₂ _ _ hb hv.1 hv.2
    · cases h
  · cases h

/-- changing only the response of an accepted transcript is rejected when `φ` is injective -/
theorem maurer_response_unique (hP : P.Lawful) (hinj : Function.Injective P.phi) (x a : G) (e : Nat) (z z' : H)
    (h : P.verify x a e z = true) (hne : z' ≠ z) : P.verify x a e z' = false := by
  rw [verify_iff hP] at h
  rw [Bool.eq_false_iff]
  intro h'
  rw [verify_iff hP] at h'
  exact hne (hinj (h'.trans h.symm))

end maurer

/-! ### Instances: Schnorr, ElGamal commitment opening, Okamoto, batch Schnorr -/

section instances
variable {G : Type} [CommGroup G] [DecidableEq G]

/-- Schnorr (the instance the driver runs: scalars are naturals reduced modulo `q`) is complete -/
theorem schnorr_complete (q : Nat) (g : G) (hq0 : 0 < q) (hq : ∀ x : G, x ^ q = 1) (w s e : Nat) :
    (schnorr (Grp.ofGroup G) q g).verify (g ^ w) (g ^ s) e ((s + (w * e) % q) % q) = true :=
  maurer_complete (schnorr_lawful q g hq0 hq) w s e

theorem schnorr_extract_partial (q : Nat) (g : G) (hq0 : 0 < q) (hq : ∀ x : G, x ^ q = 1) (x a : G)
    (e₁ e₂ z₁ z₂ w : Nat) (h : (schnorr (Grp.ofGroup G) q g).extract x a e₁ e₂ z₁ z₂ = some w) : g ^ w = x :=
  maurer_extract_model_partial (schnorr_lawful q g hq0 hq) x a e₁ e₂ z₁ z₂ w h

theorem elcomop_complete (q : Nat) (g pk : G) (hq0 : 0 < q) (hq : ∀ x : G, x ^ q = 1) (w s : G × Nat) (e : Nat) :
    let P := elcomop (Grp.ofGroup G) q g pk
    P.verify (P.phi w) (P.commit s) e (P.respond w s e) = true :=
  maurer_complete (elcomop_lawful q g pk hq0 hq) w s e

theorem elcomop_extract_partial (q : Nat) (g pk : G) (hq0 : 0 < q) (hq : ∀ x : G, x ^ q = 1) (x a : G × G)
    (e₁ e₂ : Nat) (z₁ z₂ w : G × Nat) (h : (elcomop (Grp.ofGroup G) q g pk).extract x a e₁ e₂ z₁ z₂ = some w) :
    (g ^ w.2, w.1 * pk ^ w.2) = x :=
  maurer_extract_model_partial (elcomop_lawful q g pk hq0 hq) x a e₁ e₂ z₁ z₂ w h

/-- Okamoto is complete for witness / nonce vectors of the right length -/
theorem okamoto_complete (q : Nat) (gs : List G) (hq : ∀ x : G, x ^ q = 1) (w s : List Nat) (e : Nat)
    (hw : w.length = gs.length) (hs : s.length = gs.length) :
    let P := okamoto (Grp.ofGroup G) q gs
    P.verify (P.phi w) (P.commit s) e (P.respond w s e) = true := by
  intro P
  show (P.phi (List.zipWith (fun x y => (x + y) % q) s (w.map fun x => (x * e) % q)) ==
    (Grp.ofGroup G).mul (P.phi s) ((Grp.ofGroup G).pow (P.phi w) e)) = true
  rw [beq_iff_eq]
  show (Grp.ofGroup G).prod _ = (Grp.ofGroup G).prod _ * (Grp.ofGroup G).prod _ ^ e
  rw [okamoto_map_mul q hq gs s _ hs (by simpa using hw), okamoto_map_pow q hq e gs w]

/-- batch Schnorr: the honest response verifies -/
theorem batch_complete (q : Nat) (g : G) (hq : ∀ x : G, x ^ q = 1) (ws : List Nat) (s e : Nat) :
    batchVerify (Grp.ofGroup G) g (ws.map (g ^ ·)) (g ^ s) e (batchRespond q ws s e) = true := by
  unfold batchVerify batchRespond
  rw [beq_iff_eq]
  show g ^ _ = polyEvalExp (Grp.ofGroup G) ((s :: ws).map (g ^ ·)) e
  generalize s :: ws = cs
  induction cs with
  | nil => simp [polyEvalExp]
  | cons c cs ih =>
    simp only [List.foldr_cons, List.map_cons, polyEvalExp] at ih ⊢
    rw [pow_mod_of_pow_eq_one (hq g), pow_add, pow_mul, ih]
    rfl

/-- batch Schnorr: the simulated commitment `a = g^z · (∏ xᵢ^{e^i})⁻¹` verifies -/
theorem batch_simulator_verifies (g : G) (xs : List G) (e z : Nat) :
    batchVerify (Grp.ofGroup G) g xs (g ^ z * ((polyEvalExp (Grp.ofGroup G) xs e) ^ e)⁻¹) e z = true := by
  unfold batchVerify
  rw [beq_iff_eq]
  show g ^ z = (g ^ z * ((polyEvalExp (Grp.ofGroup G) xs e) ^ e)⁻¹) * (polyEvalExp (Grp.ofGroup G) xs e) ^ e
  rw [inv_mul_cancel_right]

end instances

/-! ### AND / OR composition -/

section compose
variable {X A Z : Type}

theorem zip3_mem (ts : List (X × A × Z)) (t : X × A × Z) :
    t ∈ List.zip (ts.map (·.1)) (List.zip (ts.map (·.2.1)) (ts.map (·.2.2))) ↔ t ∈ ts := by
  induction ts with
  | nil => simp
  | cons t' ts ih =>
    simp only [List.map_cons, List.zip_cons_cons, List.mem_cons, ih]

theorem andVerify_iff (verify : X → A → Nat → Z → Bool) (ts : List (X × A × Z)) (e : Nat) :
    andVerify verify (ts.map (·.1)) (ts.map (·.2.1)) e (ts.map (·.2.2)) = true ↔
      ∀ t ∈ ts, verify t.1 t.2.1 e t.2.2 = true := by
  unfold andVerify
  simp only [List.length_map, beq_self_eq_true, Bool.true_and, List.all_eq_true]
  constructor
  · intro h t ht
    exact h t ((zip3_mem ts t).2 ht)
  · intro h t ht
    exact h t ((zip3_mem ts t).1 ht)

/-- AND composition is complete: if every branch's transcript verifies under the common challenge -/
theorem and_complete (verify : X → A → Nat → Z → Bool) (ts : List (X × A × Z)) (e : Nat)
    (h : ∀ t ∈ ts, verify t.1 t.2.1 e t.2.2 = true) :
    andVerify verify (ts.map (·.1)) (ts.map (·.2.1)) e (ts.map (·.2.2)) = true :=
  (andVerify_iff verify ts e).2 h

/-- AND composition is special-sound branch by branch: two accepting AND transcripts with the same
commitments and challenges `e₁, e₂` give a witness for *every* branch -/
theorem and_extract {H G : Type} [CommGroup G] [DecidableEq G] {P : Maurer H G} (hP : P.Lawful)
    (ts : List (G × G × H × H)) (e₁ e₂ : Nat) (α β : ℤ) (hb : α * P.ell + β * ((e₁ : ℤ) - (e₂ : ℤ)) = 1)
    (h₁ : andVerify P.verify (ts.map (·.1)) (ts.map (·.2.1)) e₁ (ts.map (·.2.2.1)) = true)
    (h₂ : andVerify P.verify (ts.map (·.1)) (ts.map (·.2.1)) e₂ (ts.map (·.2.2.2)) = true) :
    ∀ t ∈ ts, P.phi (P.extractWith t.1 t.2.2.1 t.2.2.2 α β) = t.1 := by
  intro t ht
  have k₁ := (andVerify_iff P.verify (ts.map fun t => (t.1, t.2.1, t.2.2.1)) e₁).1
    (by simpa [List.map_map, Function.comp_def] using h₁) (t.1, t.2.1, t.2.2.1) (List.mem_map_of_mem ht)
  have k₂ := (andVerify_iff P.verify (ts.map fun t => (t.1, t.2.1, t.2.2.2)) e₂).1
    (by simpa [List.map_map, Function.comp_def] using h₂) (t.1, t.2.1, t.2.2.2) (List.mem_map_of_mem ht)
  exact maurer_extractWith hP t.1 t.2.1 e₁ e₂ t.2.2.1 t.2.2.2 α β hb k₁ k₂

theorem xor_cancel (p r e : Nat) : p ^^^ ((e ^^^ (p ^^^ r)) ^^^ r) = e := by
  apply Nat.eq_of_testBit_eq
  intro i
  simp only [Nat.testBit_xor]
  cases p.testBit i <;> cases r.testBit i <;> cases e.testBit i <;> rfl

theorem zip4_mem (ts : List (X × A × Nat × Z)) (t : X × A × Nat × Z) :
    t ∈ List.zip (ts.map (·.1)) (List.zip (ts.map (·.2.1)) (List.zip (ts.map (·.2.2.1)) (ts.map (·.2.2.2)))) ↔ t ∈ ts := by
  induction ts with
  | nil => simp
  | cons t' ts ih =>
    simp only [List.map_cons, List.zip_cons_cons, List.mem_cons, ih]

/-- an OR transcript verifies iff the branch challenges XOR to the challenge and every branch
verifies under its own challenge -/
theorem or_verifies_iff_split (verify : X → A → Nat → Z → Bool) (ts : List (X × A × Nat × Z)) (e : Nat) :
    orVerify verify (ts.map (·.1)) (ts.map (·.2.1)) e (ts.map (·.2.2.1)) (ts.map (·.2.2.2)) = true ↔
      xorAll (ts.map (·.2.2.1)) = e ∧ ∀ t ∈ ts, verify t.1 t.2.1 t.2.2.1 t.2.2.2 = true := by
  unfold orVerify
  simp only [List.length_map, beq_self_eq_true, Bool.true_and, Bool.and_eq_true, beq_iff_eq, List.all_eq_true]
  constructor
  · rintro ⟨hx, h⟩
    exact ⟨hx, fun t ht => h t ((zip4_mem ts t).2 ht)⟩
  · rintro ⟨hx, h⟩
    exact ⟨hx, fun t ht => h t ((zip4_mem ts t).1 ht)⟩

/-- OR composition is complete with exactly one real branch: the simulated branches `l₁`, `l₂`
carry their own (pre-chosen) challenges, the real branch answers the challenge
`e ⊕ (XOR of the others)` -/
theorem or_complete (verify : X → A → Nat → Z → Bool) (l₁ l₂ : List (X × A × Nat × Z)) (x : X) (a : A) (e : Nat)
    (respond : Nat → Z)
    (hsim : ∀ t ∈ l₁ ++ l₂, verify t.1 t.2.1 t.2.2.1 t.2.2.2 = true)
    (hreal : ∀ c, verify x a c (respond c) = true) :
    let eb := e ^^^ xorAll ((l₁ ++ l₂).map (·.2.2.1))
    let ts := l₁ ++ (x, a, eb, respond eb) :: l₂
    orVerify verify (ts.map (·.1)) (ts.map (·.2.1)) e (ts.map (·.2.2.1)) (ts.map (·.2.2.2)) = true := by
  intro eb ts
  rw [or_verifies_iff_split]
  constructor
  · show xorAll ((l₁ ++ (x, a, eb, respond eb) :: l₂).map (·.2.2.1)) = e
    rw [List.map_append, List.map_cons, xorAll_append, xorAll_cons]
    show xorAll (l₁.map (·.2.2.1)) ^^^ ((e ^^^ xorAll ((l₁ ++ l₂).map (·.2.2.1))) ^^^ xorAll (l₂.map (·.2.2.1))) = e
    rw [List.map_append, xorAll_append]
    exact xor_cancel _ _ _
  · intro t ht
    simp only [ts, List.mem_append, List.mem_cons] at ht
    rcases ht with ht | rfl | ht
    · exact hsim t (List.mem_append_left _ ht)
    · exact hreal eb
    · exact hsim t (List.mem_append_right _ ht)

/-- AND configured for `n` branches accepts exactly the `n`-component transcripts `andVerify` accepts -/
theorem andVerifyN_iff (n : Nat) (verify : X → A → Nat → Z → Bool) (xs : List X) (as : List A) (e : Nat) (zs : List Z) :
    andVerifyN n verify xs as e zs = true ↔
      xs.length = n ∧ as.length = n ∧ zs.length = n ∧ andVerify verify xs as e zs = true := by
  unfold andVerifyN andVerify
  simp only [Bool.and_eq_true, beq_iff_eq]
  constructor
  · rintro ⟨h0, ⟨h1, h2⟩, h3⟩
    exact ⟨h0, by omega, by omega, ⟨h1, h2⟩, h3⟩
  · rintro ⟨h0, _, _, h3⟩
    exact ⟨h0, h3⟩

/-- a missing or an extra branch (in the statement, the commitment or the response) is rejected,
whatever the transcript hash says -/
theorem and_wrong_count_rejected (n : Nat) (verify : X → A → Nat → Z → Bool) (xs : List X) (as : List A) (e : Nat)
    (zs : List Z) (h : xs.length ≠ n ∨ as.length ≠ n ∨ zs.length ≠ n) : andVerifyN n verify xs as e zs = false := by
  rw [Bool.eq_false_iff]
  intro hacc
  obtain ⟨h0, h1, h2, _⟩ := (andVerifyN_iff n verify xs as e zs).1 hacc
  rcases h with h | h | h <;> contradiction

theorem orVerifyN_iff (n : Nat) (verify : X → A → Nat → Z → Bool) (xs : List X) (as : List A) (e : Nat)
    (es : List Nat) (zs : List Z) :
    orVerifyN n verify xs as e es zs = true ↔
      xs.length = n ∧ as.length = n ∧ es.length = n ∧ zs.length = n ∧ orVerify verify xs as e es zs = true := by
  unfold orVerifyN orVerify
  simp only [Bool.and_eq_true, beq_iff_eq]
  constructor
  · rintro ⟨h0, ⟨⟨⟨h1, h2⟩, h3⟩, h4⟩, h5⟩
    exact ⟨h0, by omega, by omega, by omega, ⟨⟨⟨h1, h2⟩, h3⟩, h4⟩, h5⟩
  · rintro ⟨h0, _, _, _, h5⟩
    exact ⟨h0, h5⟩

/-- OR: a missing or an extra branch (statement, commitment, branch challenges or responses) is rejected -/
theorem or_wrong_count_rejected (n : Nat) (verify : X → A → Nat → Z → Bool) (xs : List X) (as : List A) (e : Nat)
    (es : List Nat) (zs : List Z) (h : xs.length ≠ n ∨ as.length ≠ n ∨ es.length ≠ n ∨ zs.length ≠ n) :
    orVerifyN n verify xs as e es zs = false := by
  rw [Bool.eq_false_iff]
  intro hacc
  obtain ⟨h0, h1, h2, h3, _⟩ := (orVerifyN_iff n verify xs as e es zs).1 hacc
  rcases h with h | h | h | h <;> contradiction

/-- OR: branch challenges that do not XOR to the challenge are rejected even if every branch
verifies (an all-simulated proof with free branch challenges) -/
theorem or_unsplit_challenge_rejected (n : Nat) (verify : X → A → Nat → Z → Bool) (xs : List X) (as : List A) (e : Nat)
    (es : List Nat) (zs : List Z) (h : xorAll es ≠ e) : orVerifyN n verify xs as e es zs = false := by
  rw [Bool.eq_false_iff]
  intro hacc
  have := ((orVerifyN_iff n verify xs as e es zs).1 hacc).2.2.2.2
  unfold orVerify at this
  simp only [Bool.and_eq_true, beq_iff_eq] at this
  exact h this.1.2

end compose

/-- batch Schnorr configured for `k` statements rejects a statement with another number of them -/
theorem batch_wrong_count_rejected {G : Type} [DecidableEq G] (k : Nat) (cod : Grp G) (g : G) (xs : List G) (a : G)
    (e z : Nat) (h : xs.length ≠ k) : batchVerifyK k cod g xs a e z = false := by
  unfold batchVerifyK
  simp [h]

/-! ### Fiat–Shamir -/

section fs
variable {Hst X A E Z I : Type} [DecidableEq E]

/-- the honest Fiat–Shamir proof verifies in the context it was made for -/
theorem fs_complete (chal : I → E) (frame : Hst → X → A → I) (verify : X → A → E → Z → Bool)
    (respond : E → Z) (h : Hst) (x : X) (a : A)
    (hv : verify x a (chal (frame h x a)) (respond (chal (frame h x a))) = true) :
    fsVerify chal frame verify h x (fsProve chal frame respond h x a) = true := by
  simp [fsVerify, fsProve, hv]

/-- context binding: under a hash injective on the inputs that occur and an injective framing, a proof
accepted under (history `h`, statement `x`) is rejected under every other `(h', x')` — a different
session id, transcript state, prover-identity label, protocol name (all part of the history) or
statement -/
theorem fs_context_binding (chal : I → E) (S : Set I) (hH : Set.InjOn chal S)
    (frame : Hst → X → A → I)
    (frameInj : ∀ h x a h' x' a', frame h x a = frame h' x' a' → h = h' ∧ x = x' ∧ a = a')
    (verify : X → A → E → Z → Bool)
    (h h' : Hst) (x x' : X) (a : A) (e : E) (z : Z) (hne : (h, x) ≠ (h', x'))
    (hS : frame h x a ∈ S ∧ frame h' x' a ∈ S) :
    fsVerify chal frame verify h x (a, e, z) = true → fsVerify chal frame verify h' x' (a, e, z) = false := by
  intro hacc
  simp only [fsVerify, Bool.and_eq_true, beq_iff_eq] at hacc
  rw [Bool.eq_false_iff]
  intro hacc'
  simp only [fsVerify, Bool.and_eq_true, beq_iff_eq] at hacc'
  have := hH hS.1 hS.2 (hacc.1.symm.trans hacc'.1)
  obtain ⟨h1, h2, _⟩ := frameInj _ _ _ _ _ _ this
  exact hne (by rw [h1, h2])

/-- component binding: changing the commitment, or the challenge, of an accepted proof is rejected;
changing the response is rejected when the sigma verifier accepts at most one response
(`maurer_response_unique`: injective `φ`, i.e. Schnorr-type) -/
theorem fs_component_binding (chal : I → E) (S : Set I) (hH : Set.InjOn chal S)
    (frame : Hst → X → A → I)
    (frameInj : ∀ h x a h' x' a', frame h x a = frame h' x' a' → h = h' ∧ x = x' ∧ a = a')
    (verify : X → A → E → Z → Bool) (h : Hst) (x : X) (a : A) (e : E) (z : Z)
    (hacc : fsVerify chal frame verify h x (a, e, z) = true) :
    (∀ a', a' ≠ a → frame h x a ∈ S → frame h x a' ∈ S → fsVerify chal frame verify h x (a', e, z) = false) ∧
    (∀ e', e' ≠ e → fsVerify chal frame verify h x (a, e', z) = false) ∧
    (∀ z', z' ≠ z → (∀ z'', verify x a e z'' = true → z'' = z) → fsVerify chal frame verify h x (a, e, z') = false) := by
  simp only [fsVerify, Bool.and_eq_true, beq_iff_eq] at hacc
  refine ⟨?_, ?_, ?_⟩
  · intro a' hne hs hs'
    rw [Bool.eq_false_iff]
    intro h'
    simp only [fsVerify, Bool.and_eq_true, beq_iff_eq] at h'
    have := hH hs hs' (hacc.1.symm.trans h'.1)
    exact hne (frameInj _ _ _ _ _ _ this).2.2.symm
  · intro e' hne
    rw [Bool.eq_false_iff]
    intro h'
    simp only [fsVerify, Bool.and_eq_true, beq_iff_eq] at h'
    exact hne (h'.1.trans hacc.1.symm)
  · intro z' hne huniq
    rw [Bool.eq_false_iff]
    intro h'
    simp only [fsVerify, Bool.and_eq_true, beq_iff_eq] at h'
    exact hne (huniq z' h'.2)

/-- an accepted Fiat–Shamir proof carries the transcript hash as its challenge -/
theorem fs_accepted_challenge_is_hash (chal : I → E) (frame : Hst → X → A → I) (verify : X → A → E → Z → Bool)
    (h : Hst) (x : X) (a : A) (e : E) (z : Z) (hacc : fsVerify chal frame verify h x (a, e, z) = true) :
    e = chal (frame h x a) := by
  simp only [fsVerify, Bool.and_eq_true, beq_iff_eq] at hacc
  exact hacc.1

/-- a witness-free forgery from the simulator: the simulated transcript `(a, e, z)` (a valid sigma
transcript for *every* statement) is accepted as a Fiat–Shamir proof iff its challenge happens to be
the transcript hash of its own commitment — i.e. it is rejected unless the hash matches -/
theorem fs_simulated_rejected_unless_hash_matches {H G Hst I : Type} [CommGroup G] [DecidableEq G] {P : Maurer H G}
    (hP : P.Lawful) (chal : I → Nat) (frame : Hst → G → G → I) (h : Hst) (x : G) (e : Nat) (z : H) :
    fsVerify chal frame P.verify h x (P.simulate x e z, e, z) = true ↔ e = chal (frame h x (P.simulate x e z)) := by
  simp only [fsVerify, Bool.and_eq_true, beq_iff_eq, maurer_simulator_verifies hP, and_true]

/-- full statement for a non-injective `φ` (Okamoto): a second accepted response would reveal a
non-trivial kernel element of `φ`, which for Okamoto is a discrete-log relation between the
generators; that no efficient prover can find one is a computational assumption, not mechanised -/
def fs_z_change_statement {H G : Type} [CommGroup G] [DecidableEq G] (P : Maurer H G) : Prop :=
  ∀ (x a : G) (e : Nat) (z z' : H), P.verify x a e z = true → z' ≠ z → P.verify x a e z' = false

/-- non-injective `φ`: if a changed response is *also* accepted, the quotient `z' · z⁻¹` is a
kernel element of `φ` (for Okamoto: a representation of 1, i.e. `log_g h`) -/
theorem fs_z_change_extract_partial {H G : Type} [CommGroup G] [DecidableEq G] {P : Maurer H G} (hP : P.Lawful)
    (x a : G) (e : Nat) (z z' : H) (h : P.verify x a e z = true) (h' : P.verify x a e z' = true) :
    P.phi (P.dom.mul z' (P.dom.inv z)) = 1 := by
  rw [verify_iff hP] at h h'
  rw [hP.map_mul, hP.map_inv, h, h', mul_inv_cancel]

end fs

/-! ### Fischlin / randomised Fischlin -/

section fischlin
variable {Hst X A E Z C : Type}

theorem withIdx_mem_snd {α : Type} (xs : List α) (t : Nat × α) (h : t ∈ withIdx xs) : t.2 ∈ xs := by
  unfold withIdx at h
  exact (List.of_mem_zip h).2

/-- structure of an accepted Fischlin proof: exactly `ρ` repetitions, each meeting the hash target
under the common value of *this* context and all commitments, each a valid sigma transcript -/
theorem fischlin_verify_structure (ρ : Nat) (common : Hst → X → List A → C)
    (target : C → Nat → E → Z → Bool) (verify : X → A → E → Z → Bool) (h : Hst) (x : X) (π : List (A × E × Z)) :
    fischlinVerify ρ common target verify h x π = true ↔
      π.length = ρ ∧
      (∀ t ∈ withIdx π, target (common h x (π.map (·.1))) t.1 t.2.2.1 t.2.2.2 = true) ∧
      (∀ t ∈ π, verify x t.1 t.2.1 t.2.2 = true) := by
  unfold fischlinVerify
  simp only [Bool.and_eq_true, beq_iff_eq, List.all_eq_true, and_assoc]

/-- a proof whose number of repetitions differs from the specified `ρ` is rejected — whatever its
hashes and sigma transcripts are (in particular if each repetition meets the target and verifies) -/
theorem fischlin_short_proof_rejected (ρ : Nat) (common : Hst → X → List A → C)
    (target : C → Nat → E → Z → Bool) (verify : X → A → E → Z → Bool) (h : Hst) (x : X) (π : List (A × E × Z))
    (hlen : π.length ≠ ρ) : fischlinVerify ρ common target verify h x π = false := by
  rw [Bool.eq_false_iff]
  intro hacc
  exact hlen ((fischlin_verify_structure ρ common target verify h x π).1 hacc).1

/-- the forgery a verifier looping over the proof's own length would accept: a single (simulated)
repetition meeting its own target is rejected as soon as `ρ ≠ 1` -/
theorem fischlin_single_repetition_rejected (ρ : Nat) (hρ : ρ ≠ 1) (common : Hst → X → List A → C)
    (target : C → Nat → E → Z → Bool) (verify : X → A → E → Z → Bool) (h : Hst) (x : X) (t : A × E × Z) :
    fischlinVerify ρ common target verify h x [t] = false :=
  fischlin_short_proof_rejected ρ common target verify h x [t] (by simpa using Ne.symm hρ)

/-- the specified Fischlin parameters give `ρ · (b − ⌈log₂(ss−1)⌉) ≥ 128` bits and `t > b` -/
theorem fischlinSpec_sound (nthroot : Bool) (ss : Nat) :
    128 ≤ (fischlinSpec nthroot ss).1 * ((fischlinSpec nthroot ss).2.1 - ceilLog2 (ss - 1)) ∧
      (fischlinSpec nthroot ss).2.1 < (fischlinSpec nthroot ss).2.2 ∧ 2 ≤ (fischlinSpec nthroot ss).1 := by
  cases nthroot <;> simp [fischlinSpec] <;> omega

/-- context binding for Fischlin: if the common value is an injective function of the framed context
on the inputs that occur, and the (truncated) target hash is injective on the inputs that occur
(so at most one of them hits the all-zero target — an idealisation that holds for the two inputs
at stake except with probability `2^-b` per repetition), a non-empty proof accepted under `(h, x)`
is rejected under any other `(h', x')` -/
theorem fischlin_context_binding (ρ : Nat) (common : Hst → X → List A → C)
    (commonInj : ∀ h x as h' x' as', common h x as = common h' x' as' → h = h' ∧ x = x')
    (D : Type) (hash : C × Nat × E × Z → D) (zero : D) [DecidableEq D] (S : Set (C × Nat × E × Z)) (hH : Set.InjOn hash S)
    (verify : X → A → E → Z → Bool) (h h' : Hst) (x x' : X) (π : List (A × E × Z)) (hρ : 0 < ρ)
    (hne : (h, x) ≠ (h', x'))
    (hS : ∀ t ∈ withIdx π, (common h x (π.map (·.1)), t.1, t.2.2.1, t.2.2.2) ∈ S ∧
                            (common h' x' (π.map (·.1)), t.1, t.2.2.1, t.2.2.2) ∈ S) :
    fischlinVerify ρ common (fun c i e z => hash (c, i, e, z) == zero) verify h x π = true →
    fischlinVerify ρ common (fun c i e z => hash (c, i, e, z) == zero) verify h' x' π = false := by
  intro hacc
  rw [fischlin_verify_structure] at hacc
  rw [Bool.eq_false_iff]
  intro hacc'
  rw [fischlin_verify_structure] at hacc'
  obtain ⟨hlen, ht, _⟩ := hacc
  obtain ⟨_, ht', _⟩ := hacc'
  -- the first repetition
  have hpos : 0 < (withIdx π).length := by
    unfold withIdx
    simp only [List.length_zip, List.length_range, Nat.min_self]
    omega
  obtain ⟨t, htm⟩ := List.exists_mem_of_length_pos hpos
  have e1 := ht t htm
  have e2 := ht' t htm
  simp only [beq_iff_eq] at e1 e2
  have := hH (hS t htm).1 (hS t htm).2 (e1.trans e2.symm)
  have hc : common h x (π.map (·.1)) = common h' x' (π.map (·.1)) := congrArg Prod.fst this
  obtain ⟨a1, a2⟩ := commonInj _ _ _ _ _ _ hc
  exact hne (by rw [a1, a2])

end fischlin

/-! ### Interactive ZK compiler -/

/-- the prover of the ZK compiler answers only the challenge the verifier committed to: if the
commitment scheme is binding under the transcript-derived key `ck`, the challenge `e'` a prover
accepts for the commitment `c` of `e` is `e` itself (so the verifier cannot adapt its challenge to
the prover's first message — and an opening made under another context's key does not open) -/
theorem zk_binding {K C E R Z : Type} (openC : K → C → E → R → Bool) (respond : E → Z)
    (ck : K) (c : C) (e : E) (r : R)
    (binding : ∀ e₁ r₁ e₂ r₂, openC ck c e₁ r₁ = true → openC ck c e₂ r₂ = true → e₁ = e₂)
    (hcommitted : openC ck c e r = true) (e' : E) (r' : R) (z : Z)
    (hans : zkRound4 openC respond ck c e' r' = some z) : e' = e ∧ z = respond e := by
  unfold zkRound4 at hans
  split at hans
  · rename_i ho
    have := binding e' r' e r ho hcommitted
    cases hans
    exact ⟨this, by rw [this]⟩
  · cases hans

/-- and it refuses to answer when the opening fails (different context ⇒ different key) -/
theorem zk_refuses {K C E R Z : Type} (openC : K → C → E → R → Bool) (respond : E → Z)
    (ck : K) (c : C) (e : E) (r : R) (h : openC ck c e r = false) : zkRound4 openC respond ck c e r = none := by
  simp [zkRound4, h]

/-- the prover answers exactly when the opening is valid: a challenge opened to another value (for
which the commitment does not open) gets no response -/
theorem zk_answers_iff_opens {K C E R Z : Type} (openC : K → C → E → R → Bool) (respond : E → Z)
    (ck : K) (c : C) (e : E) (r : R) : (zkRound4 openC respond ck c e r).isSome = openC ck c e r := by
  unfold zkRound4
  split <;> simp_all

/-! ### Tie of the structural checks to the source

`Gen/SigmaLenChecks.lean` is regenerated from /repo on every run (go/ast): every comparison of a
`len(…)` in an `if` condition of the `Verify` methods of the count-prescribing verifiers, with the
*role* of the other side.  The model verifiers above take the specified count as a parameter
(`fischlinVerify ρ`, `andVerifyN n`, `orVerifyN n`, `batchVerifyK k`); this fact says that the Go
verifiers compare each prescribed component with `!=` against configured state (a field of the
verifier object, or a package constant) — not merely against the length of another component of
the same proof. -/

section source
open BronVerif.Gen.SigmaLenChecks

/-- the other side of the comparison is configured state: `recv.<field>` or `pkg.<Const>` -/
def configured (o : Str) : Bool := o.take 5 == slc!"recv." || o.take 4 == slc!"pkg."

/-- the table has a `len(what) != <configured state>` guard for `proto` -/
def hasCountGuard (tbl : List Guard) (proto what : Str) : Bool :=
  tbl.any fun g => g.proto == proto && g.what == what && g.op == slc!"!=" && configured g.other

/-- the components whose number is prescribed, per verifier -/
def prescribed : List (Str × Str) := [
  (slc!"fischlin", slc!"A"), (slc!"fischlin", slc!"E"), (slc!"fischlin", slc!"Z"),
  (slc!"randfischlin", slc!"A"), (slc!"randfischlin", slc!"E"), (slc!"randfischlin", slc!"Z"),
  (slc!"sigand", slc!"statement"), (slc!"sigand", slc!"commitment"), (slc!"sigand", slc!"response"),
  (slc!"sigor", slc!"statement"), (slc!"sigor", slc!"commitment"), (slc!"sigor", slc!"E"), (slc!"sigor", slc!"Z"),
  (slc!"batch", slc!"Xs")]

/-- every prescribed component count is compared against the verifier's configuration in the
regenerated source facts (complete finite table) -/
theorem verifiers_compare_counts_with_configuration :
    (prescribed.all fun pw => hasCountGuard guards pw.1 pw.2) = true := by decide

-- non-vacuity: the predicate is false on the table of a verifier that only compares the components
-- with each other (the shape of the seeded defect)
example : hasCountGuard [{ proto := slc!"fischlin", what := slc!"E", op := slc!"!=", other := slc!"len.A" }]
    (slc!"fischlin") (slc!"E") = false := by decide

end source

/-! ### Range-type proofs (Paillier range / LPDL / modulus, CGGMP21 enc/affg/dec/fac/blummod/prm)

Their verification equations are not Maurer instances; only the n-th-root proof (`nthroot`) is, and
is covered by the generic theorems through `Maurer.Lawful` for the unit group of `ZMod (N²)`.
For the others the property is checked dynamically (Go-side oracles of the C08 stream);
their soundness ranges are not mechanised. -/

/-! ## Non-vacuity: concrete instances of the hypotheses -/

section examples

/-- a group of exponent 7 -/
abbrev G7 := Multiplicative (ZMod 7)

theorem g7_exp : ∀ x : G7, x ^ 7 = 1 := by
  intro x
  apply Multiplicative.toAdd.injective
  rw [toAdd_pow, toAdd_one, nsmul_eq_mul]
  have : ((7 : ℕ) : ZMod 7) = 0 := by decide
  rw [this, zero_mul]

example : (schnorr (Grp.ofGroup G7) 7 (Multiplicative.ofAdd 3)).Lawful := schnorr_lawful 7 _ (by decide) g7_exp

-- completeness, simulator, extraction on a concrete non-trivial instance (g = 3, w = 5, s = 2)
example : (schnorr (Grp.ofGroup G7) 7 (Multiplicative.ofAdd 3)).verify
    (Multiplicative.ofAdd (3 * 5)) (Multiplicative.ofAdd (3 * 2)) 4 ((2 + 5 * 4 % 7) % 7) = true := by decide

example : (schnorr (Grp.ofGroup G7) 7 (Multiplicative.ofAdd (3 : ZMod 7))).extract
    (Multiplicative.ofAdd (3 * 5)) (Multiplicative.ofAdd (3 * 2)) 4 1 ((2 + 5 * 4) % 7) ((2 + 5 * 1) % 7) = some 5 := by
  decide

-- the hypotheses of `maurer_extract` are satisfiable (φ = id on a group of exponent 7, ℓ = 7,
-- e₁ - e₂ = 3, (α, β) = (1, -2), x = generator)
example : ∃ (u x a z₁ z₂ : G7) (α β : ℤ), (MonoidHom.id G7) u = x ^ (7 : ℤ) ∧ α * 7 + β * (4 - 1) = 1 ∧
    (MonoidHom.id G7) z₁ = a * x ^ (4 : ℤ) ∧ (MonoidHom.id G7) z₂ = a * x ^ (1 : ℤ) ∧ x ≠ 1 :=
  ⟨1, Multiplicative.ofAdd 1, Multiplicative.ofAdd 2, Multiplicative.ofAdd 6, Multiplicative.ofAdd 3, 1, -2,
    by decide, by decide, by decide, by decide, by decide⟩

-- OR: the split challenge of the real branch
example : xorAll [5, 12 ^^^ xorAll [5, 9], 9] = 12 := by decide

-- Fiat–Shamir binding hypotheses: an injective "hash" on a finite set and an injective framing
example : ∃ (chal : Nat × Nat × Nat → Nat) (S : Set (Nat × Nat × Nat)), Set.InjOn chal S ∧ (1, 2, 3) ∈ S ∧ (4, 2, 3) ∈ S ∧
    ∀ h x a h' x' a', ((h, x, a) : Nat × Nat × Nat) = (h', x', a') → h = h' ∧ x = x' ∧ a = a' :=
  ⟨fun t => t.1 + 10 * t.2.1 + 100 * t.2.2, {(1, 2, 3), (4, 2, 3)}, by
    intro a ha b hb hab
    simp only [Set.mem_insert_iff, Set.mem_singleton_iff] at ha hb
    rcases ha with rfl | rfl <;> rcases hb with rfl | rfl <;> simp_all,
   by simp, by simp, by
    intro h x a h' x' a' hh
    simpa using hh⟩

-- an accepted Fiat–Shamir proof under that oracle (so `fs_context_binding` is not vacuous)
example : fsVerify (fun t : Nat × Nat × Nat => t.1 + 10 * t.2.1 + 100 * t.2.2) (fun h x a => (h, x, a))
    (fun _ _ _ _ => true) 1 2 (3, 321, ()) = true := by decide

-- a witness-free simulated Schnorr transcript (x = 3·5, e = 4, z = 6 ⇒ a = 3·6 − 4·(3·5)) verifies as a
-- sigma transcript, and as a Fiat–Shamir proof only under an oracle that returns 4 on its frame
example : (schnorr (Grp.ofGroup G7) 7 (Multiplicative.ofAdd 3)).verify (Multiplicative.ofAdd (3 * 5))
    ((schnorr (Grp.ofGroup G7) 7 (Multiplicative.ofAdd 3)).simulate (Multiplicative.ofAdd (3 * 5)) 4 6) 4 6 = true := by decide

example : fsVerify (fun _ : Unit => 4) (fun (_ : Unit) (_ _ : G7) => ()) (schnorr (Grp.ofGroup G7) 7 (Multiplicative.ofAdd 3)).verify ()
    (Multiplicative.ofAdd (3 * 5))
    ((schnorr (Grp.ofGroup G7) 7 (Multiplicative.ofAdd 3)).simulate (Multiplicative.ofAdd (3 * 5)) 4 6, 4, 6) = true := by decide

example : fsVerify (fun _ : Unit => 5) (fun (_ : Unit) (_ _ : G7) => ()) (schnorr (Grp.ofGroup G7) 7 (Multiplicative.ofAdd 3)).verify ()
    (Multiplicative.ofAdd (3 * 5))
    ((schnorr (Grp.ofGroup G7) 7 (Multiplicative.ofAdd 3)).simulate (Multiplicative.ofAdd (3 * 5)) 4 6, 4, 6) = false := by decide

-- Fischlin: a single repetition that meets its target and verifies is accepted by a verifier
-- specified with ρ = 1 and rejected by the one specified with ρ = 16 (the seeded-defect shape);
-- two repetitions are accepted for ρ = 2 (so `fischlin_verify_structure` is not vacuous)
example : fischlinVerify 1 (fun (_ _ : Unit) (_ : List Nat) => ()) (fun _ _ _ _ => true) (fun _ _ _ _ => true) () ()
    [(1, 2, 3)] = true := by decide
example : fischlinVerify 16 (fun (_ _ : Unit) (_ : List Nat) => ()) (fun _ _ _ _ => true) (fun _ _ _ _ => true) () ()
    [(1, 2, 3)] = false := by decide
example : fischlinVerify 2 (fun (_ _ : Unit) (as : List Nat) => as.sum) (fun c i e _ => (c + i + e) % 2 == 1)
    (fun _ a e z => a + e == z) () () [(1, 4, 5), (2, 3, 5)] = true := by decide

example : fischlinSpec false 2 = (16, 8, 13) := by decide
example : fischlinSpec true 2 = (32, 4, 9) := by decide
example : fischlinSpec false 5 = (16, 10, 15) := by decide
example : randFischlinSpec 128 8 = (16, 56) := by decide

-- AND / OR / batch configured for 3 branches: two-branch transcripts that verify branch by branch
-- are rejected, three-branch ones accepted
example : andVerify (fun (x a e z : Nat) => x + a + e == z) [1, 2] [3, 4] 5 [9, 11] = true := by decide
example : andVerifyN 3 (fun (x a e z : Nat) => x + a + e == z) [1, 2] [3, 4] 5 [9, 11] = false := by decide
example : andVerifyN 3 (fun (x a e z : Nat) => x + a + e == z) [1, 2, 0] [3, 4, 0] 5 [9, 11, 5] = true := by decide
example : orVerifyN 2 (fun (x a e z : Nat) => x + a + e == z) [1, 2] [3, 4] (6 ^^^ 1) [6, 1] [10, 7] = true := by decide
example : orVerifyN 2 (fun (x a e z : Nat) => x + a + e == z) [1, 2] [3, 4] 5 [6, 1] [10, 7] = false := by decide
example : orVerifyN 3 (fun (x a e z : Nat) => x + a + e == z) [1, 2] [3, 4] (6 ^^^ 1) [6, 1] [10, 7] = false := by decide

-- ZK compiler: a binding commitment (`c = e`), and an accepted opening
example : zkRound4 (fun (_ : Unit) (c e : Nat) (_ : Unit) => c == e) (fun e => e + 1) () 5 5 () = some 6 := by decide

end examples

end BronVerif.Props.C08
