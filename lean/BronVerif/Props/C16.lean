import BronVerif.Lemmas.Paillier
import BronVerif.Lemmas.PaillierHom
import BronVerif.Lemmas.PaillierSk
import BronVerif.Model.ElGamal
import Mathlib.Algebra.Group.Basic
import Mathlib.Tactic.NormNum.Prime
import Mathlib.Tactic.NormNum.GCD
/-!
# C16 — Paillier and ElGamal decrypt correctly; the homomorphisms are exact (property theorems)

All Paillier statements are about the definitions of `Model/Paillier.lean` that the driver executes
on every harness line (`enc`, `dec`, `ctMul`, `ctScalar`, `shift`, `rerand`, `toSym`/`fromSym`,
`decCRT`, `openCRT`, and the secret-key mirrors `powModSk`, `ctScalarSk`, `noiseSk`, `encSk`,
`rerandSk`, … which the driver evaluates next to the textbook value on every secret-key line);
the ElGamal statements are about `Model/ElGamal.lean` instantiated with an arbitrary
commutative group (the driver instantiates the same definitions with the curve arithmetic).
-/
namespace BronVerif.Props.C16
open BronVerif.Paillier BronVerif.Lemmas.Paillier

/-! ## Paillier -/

/-- `(1+N)^m ≡ 1 + m·N (mod N²)`: the textbook embedding equals the `Representative` formula. -/
theorem one_plus_N_pow (N m : ℕ) : rep N m = (1 + m * N) % (N * N) := by
  unfold rep
  rw [powMod_eq]
  have h := one_add_mul_pow N 1 m
  simp only [one_mul, mul_one] at h
  exact h

example : rep 143 100 = (1 + 100 * 143) % (143 * 143) := one_plus_N_pow 143 100

/-- `(m, r) ↦ (1+N)^m · r^N mod N²` is injective on `ℤ_N × ℤ_N^*` when `gcd(N, φ(N)) = 1`.
Hence any `(m', r')` that re-encrypts to `c` *is* the encrypted pair: this turns the driver's
"`Open` re-encrypts to `c`" oracle into correctness of `Open`. -/
theorem paillier_enc_injective {N : ℕ} (hN : 1 < N) (hco : Nat.Coprime N (Nat.totient N))
    {m r m' r' : ℕ} (hm : m < N) (hm' : m' < N) (hr : r < N) (hr' : r' < N)
    (hru : Nat.Coprime r N) (hru' : Nat.Coprime r' N)
    (h : enc N m r = enc N m' r') : m = m' ∧ r = r' := by
  have hE : (1 + N) ^ m * r ^ N ≡ (1 + N) ^ m' * r' ^ N [MOD N * N] :=
    (enc_modEq N m r).symm.trans (h ▸ enc_modEq N m' r')
  have hEN : (1 + N) ^ m * r ^ N ≡ (1 + N) ^ m' * r' ^ N [MOD N] := hE.of_mul_left N
  have h1 : ∀ k, (1 + N) ^ k ≡ 1 [MOD N] := fun k => by
    have : 1 + N ≡ 1 [MOD N] := by simp [Nat.ModEq]
    simpa using this.pow k
  have hrN : r ^ N ≡ r' ^ N [MOD N] := by
    have a := (h1 m).mul_right (r ^ N)
    have b := (h1 m').mul_right (r' ^ N)
    simpa using a.symm.trans (hEN.trans b)
  have hr_eq : r ≡ r' [MOD N] := by
    rcases Nat.lt_or_ge 1 (Nat.totient N) with hφ | hφ
    · obtain ⟨k, -, hk⟩ := Nat.exists_mul_mod_eq_one_of_coprime hco hφ
      have key : ∀ x, Nat.Coprime x N → x ^ (N * k) ≡ x [MOD N] := by
        intro x hx
        have hdm := Nat.div_add_mod (N * k) (Nat.totient N)
        rw [← hdm, hk, pow_add, pow_mul, pow_one]
        have := ((Nat.ModEq.pow_totient hx).pow (N * k / Nat.totient N)).mul_right x
        simpa using this
      have := hrN.pow k
      rw [← pow_mul, ← pow_mul] at this
      exact (key r hru).symm.trans (this.trans (key r' hru'))
    · have hpos : 0 < Nat.totient N := Nat.totient_pos.2 (by omega)
      have hφ1 : Nat.totient N = 1 := by omega
      have e1 := Nat.ModEq.pow_totient hru
      have e2 := Nat.ModEq.pow_totient hru'
      rw [hφ1, pow_one] at e1 e2
      exact e1.trans e2.symm
  have hrr : r = r' := Nat.ModEq.eq_of_lt_of_lt hr_eq hr hr'
  subst hrr
  refine ⟨?_, rfl⟩
  have hc : Nat.gcd (N * N) (r ^ N) = 1 :=
    Nat.Coprime.pow_right N (Nat.Coprime.mul_left hru.symm hru.symm)
  have h2 : (1 + N) ^ m ≡ (1 + N) ^ m' [MOD N * N] := Nat.ModEq.cancel_right_of_coprime hc hE
  have a := one_add_mul_pow N 1 m
  have b := one_add_mul_pow N 1 m'
  simp only [one_mul, mul_one] at a b
  have h3 : 1 + m * N ≡ 1 + m' * N [MOD N * N] := a.symm.trans (h2.trans b)
  have h4 : m * N ≡ m' * N [MOD N * N] := Nat.ModEq.add_left_cancel' 1 h3
  have h5 : m ≡ m' [MOD N] := Nat.ModEq.mul_right_cancel' (by omega) h4
  exact Nat.ModEq.eq_of_lt_of_lt h5 hm hm'

example : enc 143 5 7 = enc 143 5 7 → (5 : ℕ) = 5 ∧ (7 : ℕ) = 7 :=
  paillier_enc_injective (N := 143) (by norm_num)
    (by rw [show (143 : ℕ) = 11 * 13 from rfl, Nat.totient_mul (by norm_num),
          Nat.totient_prime (by norm_num), Nat.totient_prime (by norm_num)]; norm_num)
    (by norm_num) (by norm_num)
    (by norm_num) (by norm_num) (by norm_num) (by norm_num)

/-- textbook decryption with any exponent `lam` that kills `r` mod `N` and is a unit mod `N` -/
theorem decWith_enc {N lam m r : ℕ} (hN : 1 < N) (hm : m < N) (hlamN : Nat.Coprime lam N)
    (hr : r ^ lam ≡ 1 [MOD N]) : decWith N lam (enc N m r) = m := by
  unfold decWith
  rw [powMod_eq]
  have h1 : (enc N m r) ^ lam ≡ 1 + (m * lam) * N [MOD N * N] := by
    have a := (enc_modEq N m r).pow lam
    rw [mul_pow, ← pow_mul, ← pow_mul] at a
    have b := one_add_mul_pow N 1 (m * lam)
    simp only [one_mul, mul_one] at b
    have c : r ^ (N * lam) ≡ 1 [MOD N * N] := by
      have := pow_modEq_sq hr
      rw [← pow_mul, one_pow, mul_comm lam N] at this
      exact this
    simpa using a.trans (b.mul c)
  have h2 : (enc N m r) ^ lam % (N * N) = (1 + (m * lam) * N) % (N * N) := h1
  rw [h2, L_one_add_mul hN]
  have hcop : Nat.Coprime (lam % N) N := by
    rw [Nat.Coprime, ← Nat.gcd_rec, Nat.gcd_comm]; exact hlamN
  have hinv := invModD_mul_modEq (show 0 < N by omega) hcop
  have e1 : m * lam % N * invModD (lam % N) N ≡ m * lam * invModD (lam % N) N [MOD N] :=
    (Nat.mod_modEq _ _).mul_right _
  have e2 : lam * invModD (lam % N) N ≡ 1 [MOD N] :=
    ((Nat.mod_modEq lam N).symm.mul_right _).trans hinv
  have e3 : m * lam * invModD (lam % N) N ≡ m * 1 [MOD N] := by
    rw [mul_assoc]; exact e2.mul_left m
  have e : m * lam % N * invModD (lam % N) N ≡ m [MOD N] := by simpa using e1.trans e3
  exact Eq.trans e (Nat.mod_eq_of_lt hm)

example : decWith 35 12 (enc 35 17 3) = 17 :=   -- λ = lcm(4, 6) = 12, 3^12 ≡ 1 (mod 35)
  decWith_enc (by norm_num) (by norm_num) (by norm_num) (by decide)

/-- **Textbook decryption inverts encryption**: for `N = p·q` (distinct primes, `gcd(N, φ(N)) = 1`),
every plaintext `m < N` and every nonce `r ∈ ℤ_N^*`, `dec p q (enc N m r) = m`. -/
theorem paillier_dec_enc {p q m r : ℕ} (hp : p.Prime) (hq : q.Prime) (hpq : p ≠ q)
    (hco : Nat.Coprime (p * q) ((p - 1) * (q - 1))) (hm : m < p * q) (hr : Nat.Coprime r (p * q)) :
    dec p q (enc (p * q) m r) = m := by
  unfold dec
  have hp2 := hp.two_le
  have hq2 := hq.two_le
  apply decWith_enc
  · nlinarith
  · exact hm
  · have hd : Nat.lcm (p - 1) (q - 1) ∣ (p - 1) * (q - 1) :=
      Nat.lcm_dvd (dvd_mul_right _ _) (dvd_mul_left _ _)
    exact Nat.Coprime.coprime_dvd_left hd hco.symm
  · have hcpq : Nat.Coprime p q := (Nat.coprime_primes hp hq).2 hpq
    refine (Nat.modEq_and_modEq_iff_modEq_mul hcpq).1 ⟨?_, ?_⟩
    · have hrp : Nat.Coprime r p := Nat.Coprime.coprime_mul_right_right hr
      have hf := Nat.ModEq.pow_totient hrp
      rw [Nat.totient_prime hp] at hf
      obtain ⟨t, ht⟩ := Nat.dvd_lcm_left (p - 1) (q - 1)
      rw [ht, pow_mul]
      simpa using hf.pow t
    · have hrq : Nat.Coprime r q := Nat.Coprime.coprime_mul_left_right hr
      have hf := Nat.ModEq.pow_totient hrq
      rw [Nat.totient_prime hq] at hf
      obtain ⟨t, ht⟩ := Nat.dvd_lcm_right (p - 1) (q - 1)
      rw [ht, pow_mul]
      simpa using hf.pow t

example : dec 11 13 (enc (11 * 13) 100 17) = 100 :=
  paillier_dec_enc (by norm_num) (by norm_num) (by norm_num) (by norm_num) (by norm_num) (by norm_num)

/-- **`CiphertextOp`**: the product of ciphertexts encrypts the sum of the plaintexts under the
product of the nonces (explicit resulting nonce, so the equality is between ciphertexts). -/
theorem ct_op (N m1 r1 m2 r2 : ℕ) :
    ctMul N (enc N m1 r1) (enc N m2 r2) = enc N (ptAdd N m1 m2) (nonceMul N r1 r2) :=
  ctMul_enc_enc N m1 r1 m2 r2

example : ctMul 143 (enc 143 100 17) (enc 143 99 5) = enc 143 (ptAdd 143 100 99) (nonceMul 143 17 5) :=
  ct_op 143 100 17 99 5

/-- **`Shift`**: multiplying by `(1+N)^d` adds `d` to the plaintext and keeps the nonce. -/
theorem ct_shift (N m r d : ℕ) : shift N (enc N m r) d = enc N (ptAdd N m d) r :=
  shift_enc N m r d

example : shift 143 (enc 143 100 17) 142 = enc 143 (ptAdd 143 100 142) 17 := ct_shift 143 100 17 142

/-- **`ReRandomise`**: multiplying by `s^N` keeps the plaintext; the resulting nonce is `r·s mod N`. -/
theorem rerandomise (N m r s : ℕ) : rerand N (enc N m r) s = enc N m (nonceMul N r s) :=
  rerand_enc N m r s

example : rerand 143 (enc 143 100 17) 5 = enc 143 100 (nonceMul 143 17 5) := rerandomise 143 100 17 5

/-- **`CiphertextScalarOp`** for every integer scalar (negative, zero, larger than `N` or `N²`):
`c^k` encrypts `m·k mod N` under the nonce `r^k mod N` (inverse for negative `k`). -/
theorem ct_scalar {N : ℕ} (hN : 1 < N) (m : ℕ) {r : ℕ} (hr : Nat.Coprime r N) (k : ℤ) :
    ctScalar N (enc N m r) k = enc N (ptScalar N m k) (nonceScalar N r k) :=
  ctScalar_enc hN m hr k

example : ctScalar 143 (enc 143 100 17) (-1000) = enc 143 (ptScalar 143 100 (-1000)) (nonceScalar 143 17 (-1000)) :=
  ct_scalar (by norm_num) 100 (by norm_num) (-1000)

/-- decryption after any homomorphic operation returns the plaintext algebra's value: combined
form used by the chains of the stream (`Decrypt(c₁·c₂) = m₁ + m₂ mod N`). -/
theorem paillier_dec_op {p q m1 r1 m2 r2 : ℕ} (hp : p.Prime) (hq : q.Prime) (hpq : p ≠ q)
    (hco : Nat.Coprime (p * q) ((p - 1) * (q - 1)))
    (hr1 : Nat.Coprime r1 (p * q)) (hr2 : Nat.Coprime r2 (p * q)) :
    dec p q (ctMul (p * q) (enc (p * q) m1 r1) (enc (p * q) m2 r2)) = (m1 + m2) % (p * q) := by
  rw [ct_op]
  have hpos : 0 < p * q := Nat.mul_pos hp.pos hq.pos
  apply paillier_dec_enc hp hq hpq hco
  · exact Nat.mod_lt _ hpos
  · unfold nonceMul
    rw [Nat.Coprime, ← Nat.gcd_rec, Nat.gcd_comm]
    exact Nat.Coprime.mul_left hr1 hr2

example : dec 11 13 (ctMul (11 * 13) (enc (11 * 13) 100 17) (enc (11 * 13) 99 5)) = (100 + 99) % (11 * 13) :=
  paillier_dec_op (by norm_num) (by norm_num) (by norm_num) (by norm_num) (by norm_num) (by norm_num)

/-- **Symmetric plaintext range**: on `-N/2 ≤ x < N/2` the embedding into `ℤ_N` is inverted by
`Normalise` (`toSym`); conversely every residue is the image of its normal form, which lies in the
range up to the single tie `x = N/2` for even `N` (Paillier moduli are odd). -/
theorem symmetric_range {N : ℕ} (hN : 0 < N) (x : ℤ) (h : inSymRange N x = true) :
    toSym N (fromSym N x) = x ∧ fromSym N x < N :=
  sym_roundtrip hN x h

example : toSym 143 (fromSym 143 (-71)) = -71 ∧ fromSym 143 (-71) < 143 :=
  symmetric_range (by norm_num) (-71) (by decide)

theorem symmetric_range_inv {N : ℕ} (hN : 0 < N) {m : ℕ} (hm : m < N) :
    fromSym N (toSym N m) = m ∧ -(N : ℤ) ≤ 2 * toSym N m ∧ 2 * toSym N m ≤ N :=
  sym_roundtrip_inv hN hm

example : fromSym 143 (toSym 143 72) = 72 ∧ -(143 : ℤ) ≤ 2 * toSym 143 72 ∧ 2 * toSym 143 72 ≤ 143 :=
  symmetric_range_inv (by norm_num) (by norm_num)

/-! ### the secret-key paths: CRT / Fermat-quotient decryption, N-th root by CRT, CRT arithmetic -/

/-- **`SecretKey.Decrypt` is correct**: for `N = p·q`, `p ≠ q` primes with `gcd(N, φ(N)) = 1` (which
forces both to be odd), the Fermat-quotient decryption `m_p = L_p(c^{p−1} mod p²)·(−q⁻¹) mod p`,
`m_q` likewise, recombined by Garner's formula, returns `m` for every plaintext `m < N` and every
unit nonce `r`, on the textbook ciphertext `c = (1+N)^m r^N mod N²`. -/
theorem paillier_crt_decrypt {p q m r : ℕ} (hp : p.Prime) (hq : q.Prime) (hpq : p ≠ q)
    (hco : Nat.Coprime (p * q) ((p - 1) * (q - 1))) (hm : m < p * q) (hr : Nat.Coprime r (p * q)) :
    decCRT p q (enc (p * q) m r) = m :=
  decCRT_enc ⟨hp, hq, hpq, hco⟩ hm hr

example : decCRT 5 7 (enc (5 * 7) 17 3) = 17 :=
  paillier_crt_decrypt (by norm_num) (by norm_num) (by norm_num) (by norm_num) (by norm_num) (by norm_num)

example : decCRT 11 7 (enc (11 * 7) 76 76) = 76 :=   -- p > q, m = r = N − 1
  paillier_crt_decrypt (by norm_num) (by norm_num) (by norm_num) (by norm_num) (by norm_num) (by norm_num)

/-- **`SecretKey.Open` is correct**: it returns the plaintext and the nonce reduced modulo `N`
(`y = c·(1 − mN) mod N²`, then the `q⁻¹ mod (p−1)`-th power of `y mod p`, the `p⁻¹ mod (q−1)`-th
power of `y mod q`, recombined), and the returned pair re-encrypts to `c`. -/
theorem paillier_open_nonce {p q m r : ℕ} (hp : p.Prime) (hq : q.Prime) (hpq : p ≠ q)
    (hco : Nat.Coprime (p * q) ((p - 1) * (q - 1))) (hm : m < p * q) (hr : Nat.Coprime r (p * q)) :
    openCRT p q (enc (p * q) m r) = (m, r % (p * q)) ∧
      enc (p * q) (openCRT p q (enc (p * q) m r)).1 (openCRT p q (enc (p * q) m r)).2
        = enc (p * q) m r := by
  have h := openCRT_enc ⟨hp, hq, hpq, hco⟩ hm hr
  refine ⟨h, ?_⟩
  rw [h]
  exact enc_mod_nonce _ _ _

example : openCRT 5 7 (enc (5 * 7) 17 3) = (17, 3 % (5 * 7)) :=
  (paillier_open_nonce (by norm_num) (by norm_num) (by norm_num) (by norm_num) (by norm_num)
    (by norm_num)).1

/-- every element of `Z*_{N²}` is the encryption of exactly one `(m, r) ∈ ℤ_N × ℤ_N^*` (existence;
uniqueness is `paillier_enc_injective`) — so the statements about `enc N m r` cover **every**
ciphertext `Decrypt`/`Open` accept. -/
theorem paillier_ct_surjective {p q c : ℕ} (hp : p.Prime) (hq : q.Prime) (hpq : p ≠ q)
    (hco : Nat.Coprime (p * q) ((p - 1) * (q - 1))) (hc : c < p * q * (p * q))
    (hcu : Nat.Coprime c (p * q)) :
    ∃ m r, m < p * q ∧ r < p * q ∧ Nat.Coprime r (p * q) ∧ enc (p * q) m r = c :=
  exists_enc_eq ⟨hp, hq, hpq, hco⟩ hc hcu

example : ∃ m r, m < 5 * 7 ∧ r < 5 * 7 ∧ Nat.Coprime r (5 * 7) ∧ enc (5 * 7) m r = 1224 :=
  paillier_ct_surjective (by norm_num) (by norm_num) (by norm_num) (by norm_num) (by norm_num)
    (by norm_num)

/-- full statement: the CRT formulas of `Decrypt` **and** `Open` agree with textbook decryption and
nonce recovery on every element of `Z*_{N²}`.  Proved as `paillier_crt` below. -/
def paillier_crt_statement : Prop :=
  ∀ p q c : ℕ, p.Prime → q.Prime → p ≠ q → Nat.Coprime (p * q) ((p - 1) * (q - 1)) →
    c < (p * q) * (p * q) → Nat.Coprime c (p * q) →
    decCRT p q c = dec p q c ∧ openCRT p q c = (dec p q c, recoverNonce p q c (dec p q c))

/-- the full CRT statement holds (no `_partial` left): every unit is an encryption
(`paillier_ct_surjective`), and on encryptions all four functions are computed above. -/
theorem paillier_crt : paillier_crt_statement := by
  intro p q c hp hq hpq hco hc hcu
  have k : KeyOK p q := ⟨hp, hq, hpq, hco⟩
  obtain ⟨m, r, hm, hr, hru, rfl⟩ := exists_enc_eq k hc hcu
  rw [decCRT_enc k hm hru, paillier_dec_enc hp hq hpq hco hm hru, openCRT_enc k hm hru,
    recoverNonce_enc k hru]
  exact ⟨rfl, rfl⟩

example : decCRT 5 7 1224 = dec 5 7 1224 ∧ openCRT 5 7 1224 = (dec 5 7 1224, recoverNonce 5 7 1224 (dec 5 7 1224)) :=
  paillier_crt 5 7 1224 (by norm_num) (by norm_num) (by norm_num) (by norm_num) (by norm_num) (by norm_num)

/-- **CRT exponentiation is exact** (`OddPrimeSquareFactors.ModExp` modulo `N²`,
`OddPrimeFactors.ModExp` modulo `N`): residues modulo `p²`, `q²` (resp. `p`, `q`) with the exponent
reduced modulo `φ(p²)`, `φ(q²)` (resp. `p−1`, `q−1`) **only when the base is coprime to that prime**
(the code's `Select(base.Coprime(p), exp, ep)`), Garner-recombined, give `b^e` for **every** base and
exponent — units and non-units. -/
theorem crt_exponentiation {p q : ℕ} (hp : p.Prime) (hq : q.Prime) (hpq : p ≠ q)
    (hco : Nat.Coprime (p * q) ((p - 1) * (q - 1))) (b e : ℕ) :
    powModSk p q b e = b ^ e % (p * q * (p * q)) ∧ powModSkN p q b e = b ^ e % (p * q) := by
  have k : KeyOK p q := ⟨hp, hq, hpq, hco⟩
  rw [powModSk_eq k, powModSkN_eq k, powMod_eq, powMod_eq]
  exact ⟨rfl, rfl⟩

example : powModSk 5 7 10 1000 = 10 ^ 1000 % (5 * 7 * (5 * 7)) :=   -- non-unit base, exponent > φ(N²)
  (crt_exponentiation (by norm_num) (by norm_num) (by norm_num) (by norm_num) 10 1000).1

/-- why the guard is there: reducing the exponent modulo `φ(p²)` for a base divisible by `p` is wrong
(`5^20 ≡ 0 (mod 25)` but `5^(20 mod 20) = 1`). -/
theorem crt_exp_guard_needed :
    powModCRTUnguarded (5 * 5) (7 * 7) ((5 - 1) * 5) ((7 - 1) * 7) 5 20 ≠ 5 ^ 20 % (5 * 7 * (5 * 7)) := by
  intro h
  have h1 := crt_modEq_left (p := 5 * 5) (q := 7 * 7) (by norm_num) (by norm_num)
    (powMod 5 (20 % ((5 - 1) * 5)) (5 * 5)) (powMod 5 (20 % ((7 - 1) * 7)) (7 * 7))
  unfold powModCRTUnguarded at h
  rw [h, powMod_eq] at h1
  revert h1
  unfold Nat.ModEq
  norm_num

/-- **Every secret-key-accelerated operation of the API equals the public-key operation and the
textbook formula modulo `N²`** (resp. `N` for nonces).  Guards: exactly the ones the methods enforce —
ciphertexts and nonces are units (`Contains` / the `Nonce`, `Ciphertext` type invariant); plaintexts
and scalars are arbitrary.
1. `Representative` (both key kinds: `1 + m·N`) is `(1+N)^m`;
2. `SecretKey.IdentityNoise` (`ExpToN`) is `r^N mod N²`;
3. `SecretKey.EncryptWithNonce` and `PublicKey.EncryptWithNonce` are the textbook `enc`;
4. `SecretKey.CiphertextScalarOp` (`ModExpI`: CRT power, CRT inverse if negative) is the public `c^k`;
5. `SecretKey.CiphertextOpInv` (CRT inverse) is the inverse modulo `N²`;
6. `SecretKey.ReRandomise` is the public re-randomisation;
7. `Shift` through the linear representative is the textbook shift;
8. `SecretKey.NonceScalarOp` / `NonceOp` (CRT modulo `p`, `q`) are the public nonce power / product. -/
theorem sk_ops_eq_pk_ops {p q : ℕ} (hp : p.Prime) (hq : q.Prime) (hpq : p ≠ q)
    (hco : Nat.Coprime (p * q) ((p - 1) * (q - 1))) :
    (∀ m, repLin (p * q) m = rep (p * q) m) ∧
    (∀ r, Nat.Coprime r (p * q) → noiseSk p q r = noise (p * q) r) ∧
    (∀ m r, Nat.Coprime r (p * q) →
      encSk p q m r = enc (p * q) m r ∧ encPk (p * q) m r = enc (p * q) m r) ∧
    (∀ c (k : ℤ), Nat.Coprime c (p * q) → ctScalarSk p q c k = ctScalar (p * q) c k) ∧
    (∀ c, Nat.Coprime c (p * q) → invModSk p q c = ctInv (p * q) c) ∧
    (∀ c s, Nat.Coprime s (p * q) → rerandSk p q c s = rerand (p * q) c s) ∧
    (∀ c d, shiftLin (p * q) c d = shift (p * q) c d) ∧
    (∀ r (k : ℤ), Nat.Coprime r (p * q) → nonceScalarSk p q r k = nonceScalar (p * q) r k) ∧
    (∀ a b, nonceMulSk p q a b = nonceMul (p * q) a b) := by
  have k : KeyOK p q := ⟨hp, hq, hpq, hco⟩
  exact ⟨repLin_eq_rep _, fun r hr => noiseSk_eq k hr,
    fun m r hr => ⟨encSk_eq k m hr, encPk_eq _ m r⟩,
    fun c s hc => ctScalarSk_eq k hc s, fun c hc => invModSk_eq k hc,
    fun c s hs => rerandSk_eq k c hs, shiftLin_eq _, fun r s hr => nonceScalarSk_eq k hr s,
    nonceMulSk_eq k⟩

example : ctScalarSk 5 7 (enc (5 * 7) 17 3) (-100000) = ctScalar (5 * 7) (enc (5 * 7) 17 3) (-100000) :=
  (sk_ops_eq_pk_ops (by norm_num) (by norm_num) (by norm_num) (by norm_num)).2.2.2.1 _ _
    (enc_coprime _ _ (by norm_num))

example : encSk 7 11 76 76 = enc (7 * 11) 76 76 :=
  ((sk_ops_eq_pk_ops (by norm_num) (by norm_num) (by norm_num) (by norm_num)).2.2.1 76 76
    (by norm_num)).1

/-! ## ElGamal in any commutative group -/
section elgamal
variable {G : Type} [CommGroup G]

/-- the model's operation record for a Mathlib group -/
def groupOps (G : Type) [CommGroup G] : ElGamal.Ops G :=
  { mul := (· * ·), inv := (·⁻¹), pow := (· ^ ·) }

/-- decryption inverts encryption: `(m·h^r)·((g^r)^a)⁻¹ = m` for `h = g^a` -/
theorem elgamal_dec_enc (g m : G) (a r : ℕ) :
    ElGamal.dec (groupOps G) a (ElGamal.enc (groupOps G) g (ElGamal.pub (groupOps G) g a) m r) = m := by
  simp only [ElGamal.dec, ElGamal.enc, ElGamal.pub, groupOps]
  rw [← pow_mul, ← pow_mul, mul_comm a r, mul_inv_cancel_right]

/-- component-wise product encrypts the product of plaintexts under the sum of nonces -/
theorem elgamal_op (g h m1 m2 : G) (r1 r2 : ℕ) :
    ElGamal.ctOp (groupOps G) (ElGamal.enc (groupOps G) g h m1 r1) (ElGamal.enc (groupOps G) g h m2 r2)
      = ElGamal.enc (groupOps G) g h (m1 * m2) (r1 + r2) := by
  simp only [ElGamal.ctOp, ElGamal.enc, groupOps, pow_add]
  rw [mul_mul_mul_comm m1]

/-- scaling raises the plaintext to the scalar and multiplies the nonce -/
theorem elgamal_scalar (g h m : G) (r k : ℕ) :
    ElGamal.ctScalar (groupOps G) (ElGamal.enc (groupOps G) g h m r) k
      = ElGamal.enc (groupOps G) g h (m ^ k) (r * k) := by
  simp only [ElGamal.ctScalar, ElGamal.enc, groupOps, mul_pow, pow_mul]

/-- `CiphertextScalarOp` (the name used by the property text): both components are scaled, the
result encrypts `m^k` under the nonce `r·k` -/
theorem elgamal_scalar_op (g h m : G) (r k : ℕ) :
    ElGamal.ctScalar (groupOps G) (ElGamal.enc (groupOps G) g h m r) k
      = ElGamal.enc (groupOps G) g h (m ^ k) (r * k) := elgamal_scalar g h m r k

/-- `CiphertextOpInv`: component-wise inverse; it decrypts to the inverse plaintext -/
theorem elgamal_inv (g m : G) (a r : ℕ) :
    ElGamal.dec (groupOps G) a
      (ElGamal.ctInv (groupOps G) (ElGamal.enc (groupOps G) g (ElGamal.pub (groupOps G) g a) m r)) = m⁻¹ := by
  simp only [ElGamal.dec, ElGamal.ctInv, ElGamal.enc, ElGamal.pub, groupOps]
  rw [← pow_mul, inv_pow, inv_inv, ← pow_mul, mul_comm r a, mul_inv, inv_mul_cancel_right]

/-- decryption is a group homomorphism on **arbitrary** ciphertext pairs (not only honest
encryptions): product, inverse, scalar, shift act on the decrypted plaintexts as the group
operation, inverse, power and multiplication, and re-randomisation under `h = g^a` as the identity. -/
theorem elgamal_dec_hom (g d : G) (a k s : ℕ) (c c' : G × G) :
    ElGamal.dec (groupOps G) a (ElGamal.ctOp (groupOps G) c c')
        = ElGamal.dec (groupOps G) a c * ElGamal.dec (groupOps G) a c' ∧
    ElGamal.dec (groupOps G) a (ElGamal.ctInv (groupOps G) c) = (ElGamal.dec (groupOps G) a c)⁻¹ ∧
    ElGamal.dec (groupOps G) a (ElGamal.ctScalar (groupOps G) c k) = (ElGamal.dec (groupOps G) a c) ^ k ∧
    ElGamal.dec (groupOps G) a (ElGamal.shift (groupOps G) c d) = ElGamal.dec (groupOps G) a c * d ∧
    ElGamal.dec (groupOps G) a (ElGamal.rerand (groupOps G) g (ElGamal.pub (groupOps G) g a) c s)
        = ElGamal.dec (groupOps G) a c := by
  simp only [ElGamal.dec, ElGamal.ctOp, ElGamal.ctInv, ElGamal.ctScalar, ElGamal.shift,
    ElGamal.rerand, ElGamal.pub, groupOps]
  refine ⟨?_, ?_, ?_, ?_, ?_⟩
  · rw [mul_pow, mul_inv, mul_mul_mul_comm]
  · rw [inv_pow, mul_inv]
  · rw [mul_pow, inv_pow, ← pow_mul, ← pow_mul, mul_comm a k]
  · rw [mul_right_comm]
  · rw [mul_pow, mul_inv, ← pow_mul, ← pow_mul, mul_comm s a, mul_mul_mul_comm, mul_inv_cancel,
      mul_one]

/-- re-randomisation keeps the plaintext (resulting nonce `r + s`) -/
theorem elgamal_rerandomise (g h m : G) (r s : ℕ) :
    ElGamal.rerand (groupOps G) g h (ElGamal.enc (groupOps G) g h m r) s
      = ElGamal.enc (groupOps G) g h m (r + s) := by
  simp only [ElGamal.rerand, ElGamal.enc, groupOps, pow_add, mul_assoc]

/-- the secret-key fast path `g^(s·a mod n)` of `IdentityNoise` gives the same ciphertext as the
public path `h^s` whenever `n` is an exponent of `g` -/
theorem elgamal_rerandomise_sk (g : G) (n a s : ℕ) (hn : g ^ n = 1) (c : G × G) :
    ElGamal.rerandSk (groupOps G) g n a c s
      = ElGamal.rerand (groupOps G) g (ElGamal.pub (groupOps G) g a) c s := by
  simp only [ElGamal.rerandSk, ElGamal.rerand, ElGamal.pub, groupOps]
  have : g ^ (s * a % n) = (g ^ a) ^ s := by
    rw [← pow_mul, mul_comm a s]
    conv_rhs => rw [← Nat.mod_add_div (s * a) n, pow_add, pow_mul, hn, one_pow, mul_one]
  rw [this]

/-- shifting multiplies the plaintext and keeps the nonce -/
theorem elgamal_shift (g h m d : G) (r : ℕ) :
    ElGamal.shift (groupOps G) (ElGamal.enc (groupOps G) g h m r) d
      = ElGamal.enc (groupOps G) g h (m * d) r := by
  simp only [ElGamal.shift, ElGamal.enc, groupOps]
  rw [mul_right_comm]

example : ElGamal.dec (groupOps (Multiplicative (ZMod 7))) 3
    (ElGamal.enc (groupOps _) (Multiplicative.ofAdd 1)
      (ElGamal.pub (groupOps _) (Multiplicative.ofAdd 1) 3) (Multiplicative.ofAdd 5) 4)
    = Multiplicative.ofAdd 5 := elgamal_dec_enc _ _ _ _

example : (Multiplicative.ofAdd (1 : ZMod 7)) ^ 7 = 1 := by decide

-- an arbitrary (not honestly generated) ciphertext pair, secret exponent n − 1
example : ElGamal.dec (groupOps (Multiplicative (ZMod 7))) 6
    (ElGamal.ctScalar (groupOps _) (Multiplicative.ofAdd 2, Multiplicative.ofAdd 3) 5)
    = (ElGamal.dec (groupOps _) 6 (Multiplicative.ofAdd 2, Multiplicative.ofAdd 3)) ^ 5 :=
  (elgamal_dec_hom (Multiplicative.ofAdd (1 : ZMod 7)) 1 6 5 0 _ (1, 1)).2.2.1

-- identity plaintext, zero nonce: the inverse ciphertext decrypts to the inverse
example : ElGamal.dec (groupOps (Multiplicative (ZMod 7))) 6
    (ElGamal.ctInv (groupOps _) (ElGamal.enc (groupOps _) (Multiplicative.ofAdd 1)
      (ElGamal.pub (groupOps _) (Multiplicative.ofAdd 1) 6) 1 0)) = 1⁻¹ := elgamal_inv _ _ _ _

example : ElGamal.ctScalar (groupOps (Multiplicative (ZMod 7)))
    (ElGamal.enc (groupOps _) (Multiplicative.ofAdd 1) (Multiplicative.ofAdd 3) (Multiplicative.ofAdd 5) 6) 4
    = ElGamal.enc (groupOps _) (Multiplicative.ofAdd 1) (Multiplicative.ofAdd 3)
        ((Multiplicative.ofAdd 5) ^ 4) (6 * 4) := elgamal_scalar_op _ _ _ _ _

end elgamal

end BronVerif.Props.C16
