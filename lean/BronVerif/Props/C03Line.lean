import Mathlib.Algebra.Field.Defs
import Mathlib.Algebra.Field.Rat
import Mathlib.Algebra.Module.Rat
import Mathlib.Algebra.Module.Basic
import Mathlib.Algebra.BigOperators.Group.List.Basic
import Mathlib.Tactic.NormNum
import BronVerif.Model.SignAlg
import BronVerif.Lemmas.SignAlgSpec
import BronVerif.Lemmas.EpochLin
import BronVerif.Lemmas.GaussJordanMatrix
import BronVerif.Props.C20
/-!
# C03 — what the correspondence checks per line implies the property (theorems about the executable model)

The C03 driver (`Drive/C03.lean`) evaluates, per `dkg` line, `vvSum` and `shareLiftOk` (hence
`rowLiftOk` for every MSP row of every party) and, per `recon` line, `reconstruct` / `reconCoeffs`
for a sample of ≤ 24 qualified and unqualified sets.  The theorems below are about exactly these
definitions of `Model/SignAlg.lean` (lists, `Model/LinAlg.solveLeft`), for any Mathlib field `F` and
`F`-module `G` (`Lemmas/FpField` shows the driver's `Fp p` is such a field):

* `recon_line_sound`: the per-row lift check of the `dkg` line implies that **every** set `S` for which
  `reconstruct` returns a value returns exactly the discrete logarithm of the public key `V₀`;
* `recon_none_iff_not_spanning`: `reconCoeffs … = none` iff `e₀` is not in the span of the selected rows,
  so the driver's qualified / unqualified span tests are exact;
* `shareLiftOk_iff`, `all_parties_agree`, `dkg_line_rows`: the party-level check is the row-level check
  on each owned row, and all parties' private shares are the rows of `M · r`;
* `vvSum_spec`, `vvSum_lift`, `vvSum_pk`: the summed verification vector is `(Σ r⁽ⁱ⁾) • g`, `pk = (Σ r⁽ⁱ⁾₀) • g`.
-/
set_option linter.unusedSectionVars false
set_option linter.unusedSimpArgs false
set_option linter.unusedVariables false
namespace BronVerif.Props.C03Line
open BronVerif BronVerif.LinAlg BronVerif.SignAlg BronVerif.Lemmas.SignAlgSpec
open BronVerif.Lemmas.EpochLin BronVerif.Props.C20

variable {F G : Type} [Field F] [DecidableEq F] [AddCommGroup G] [Module F G] [DecidableEq G]

/-! ### auxiliary facts about the model's lists -/

theorem signAlg_e0_eq (n : ℕ) : SignAlg.e0 (F := F) n = Vss.e0 n := rfl

/-- a vector of multiples of `g` is the lift of a scalar vector (the group is cyclic) -/
theorem exists_dlog_vector (g : G) (V : List G) (hV : ∀ P ∈ V, ∃ a : F, P = a • g) :
    ∃ r : List F, r.length = V.length ∧ V = r.map (· • g) := by
  induction V with
  | nil => exact ⟨[], rfl, rfl⟩
  | cons P V ih =>
    obtain ⟨a, ha⟩ := hV P (List.mem_cons_self ..)
    obtain ⟨r, hr, hV'⟩ := ih fun Q hQ => hV Q (List.mem_cons_of_mem _ hQ)
    exact ⟨a :: r, by simp [hr], by rw [List.map_cons, ← hV', ha]⟩

theorem headD_map_smul (g : G) (r : List F) : (r.map (· • g)).headD 0 = r.headD 0 • g := by
  cases r <;> simp

theorem mem_rowsOfSet_lt (labels S : List ℕ) (k : ℕ) (hk : k ∈ rowsOfSet labels S) :
    k < labels.length := by
  have := (List.mem_filter.mp hk).1
  exact List.mem_range.mp this

theorem mem_rowsOf_lt (labels : List ℕ) (id k : ℕ) (hk : k ∈ rowsOf labels id) :
    k < labels.length := by
  have := (List.mem_filter.mp hk).1
  exact List.mem_range.mp this

/-! ### 1. the `recon` line: every reconstructing set yields `dlog pk` -/

/-- the same for an explicit list of row indices: any `c` returned by `reconCoeffs` for `rows`
combines row shares that pass the lift check against `V = r • g` to `r₀`. -/
theorem reconCoeffs_dot (g : G) (hg : ∀ a : F, a • g = 0 → a = 0) (M : Mat F) (cols : ℕ)
    (hcols : 0 < cols) (r : List F) (hr : r.length = cols) (sor : ℕ → F) (rows : List ℕ)
    (hrows : ∀ k ∈ rows, rowLiftOk g (M.getD k []) (r.map (· • g)) (sor k) = true)
    (c : List F) (hc : reconCoeffs M cols rows = some c) :
    c.length = rows.length ∧ dot c (rows.map sor) = r.headD 0 := by
  have he : (SignAlg.e0 (F := F) cols).length = cols := by simp [SignAlg.e0]
  obtain ⟨hlen, hmul⟩ := solveLeft_sound _ cols _ he c hc
  refine ⟨by simpa using hlen, ?_⟩
  have hs : rows.map sor = mulVec (rows.map fun k => M.getD k []) r := by
    simp only [mulVec, List.map_map]
    refine List.map_congr_left fun k hk => ?_
    exact rowLiftOk_only_honest g hg _ r _ (hrows k hk)
  rw [hs]
  exact recon_dot _ cols c r hr hcols (by rw [hmul, signAlg_e0_eq])

/-- **`recon_line_sound`**.  Suppose the `dkg` line's row check holds for every MSP row `k`
(`rowLiftOk g M_k V (sor k)`, established by `shareLiftOk` for every party, see `dkg_line_rows`), the
verification vector `V` has `cols > 0` entries, all multiples of the generator `g` (cyclic group).
Then for **every** holder set `S` — not only the ≤ 24 sampled ones — whenever the executable
`reconstruct` returns a scalar `s`, that scalar is the discrete logarithm of the public key `V₀`. -/
theorem recon_line_sound (g : G) (hg : ∀ a : F, a • g = 0 → a = 0) (M : Mat F) (cols : ℕ)
    (hcols : 0 < cols) (labels : List ℕ) (V : List G) (hV : V.length = cols)
    (hcyc : ∀ P ∈ V, ∃ a : F, P = a • g) (sor : ℕ → F)
    (hrow : ∀ k < labels.length, rowLiftOk g (M.getD k []) V (sor k) = true)
    (S : List ℕ) (s : F) (h : reconstruct M cols labels sor S = some s) :
    s • g = V.headD 0 := by
  obtain ⟨r, hr, rfl⟩ := exists_dlog_vector g V hcyc
  simp only [reconstruct, Option.map_eq_some_iff] at h
  obtain ⟨c, hc, rfl⟩ := h
  have hrows : ∀ k ∈ rowsOfSet labels S,
      rowLiftOk g (M.getD k []) (r.map (· • g)) (sor k) = true :=
    fun k hk => hrow k (mem_rowsOfSet_lt labels S k hk)
  rw [(reconCoeffs_dot g hg M cols hcols r (by rw [hr, ← hV]) sor _ hrows c hc).2, headD_map_smul]

/-- the same with the dealt column `r` explicit (`V = r • g`): the reconstructed scalar is `r₀` itself -/
theorem recon_line_sound_dlog (g : G) (hg : ∀ a : F, a • g = 0 → a = 0) (M : Mat F) (cols : ℕ)
    (hcols : 0 < cols) (labels : List ℕ) (r : List F) (hr : r.length = cols) (sor : ℕ → F)
    (hrow : ∀ k < labels.length, rowLiftOk g (M.getD k []) (r.map (· • g)) (sor k) = true)
    (S : List ℕ) (s : F) (h : reconstruct M cols labels sor S = some s) :
    s = r.headD 0 := by
  simp only [reconstruct, Option.map_eq_some_iff] at h
  obtain ⟨c, hc, rfl⟩ := h
  exact (reconCoeffs_dot g hg M cols hcols r hr sor _
    (fun k hk => hrow k (mem_rowsOfSet_lt labels S k hk)) c hc).2

/-! ### 2. the span test of the `recon` line is exact -/

/-- **`recon_none_iff_not_spanning`**: `reconCoeffs` fails exactly when no coefficient vector `c`
(one entry per selected row) satisfies `c · M_rows = e₀`, i.e. when `e₀` is outside the row span. -/
theorem recon_none_iff_not_spanning (M : Mat F) (cols : ℕ) (rows : List ℕ) :
    reconCoeffs M cols rows = none ↔
      ¬ ∃ c : List F, c.length = rows.length ∧
        mulVec (transposeN (rows.map fun k => M.getD k []) cols) c = SignAlg.e0 cols := by
  have he : (SignAlg.e0 (F := F) cols).length = cols := by simp [SignAlg.e0]
  constructor
  · intro h
    have := solveLeft_complete _ cols _ he h
    simpa using this
  · intro h
    cases hc : reconCoeffs M cols rows with
    | none => rfl
    | some c =>
      exfalso
      obtain ⟨hlen, hmul⟩ := solveLeft_sound _ cols _ he c hc
      exact h ⟨c, by simpa using hlen, hmul⟩

/-- `reconCoeffs` succeeds iff a reconstruction vector exists, and then returns one -/
theorem recon_some_iff_spanning (M : Mat F) (cols : ℕ) (rows : List ℕ) :
    (∃ c, reconCoeffs M cols rows = some c) ↔
      ∃ c : List F, c.length = rows.length ∧
        mulVec (transposeN (rows.map fun k => M.getD k []) cols) c = SignAlg.e0 cols := by
  rw [← not_iff_not, ← recon_none_iff_not_spanning]
  cases reconCoeffs M cols rows <;> simp

/-- **`unqualified_line_sound`**: the driver's verdict on an unqualified set `S`
(`reconCoeffs M cols (rowsOfSet labels S) = none`) means that no linear combination of the rows held
by `S` equals `e₀`, and `reconstruct` returns nothing for any share assignment. -/
theorem unqualified_line_sound (M : Mat F) (cols : ℕ) (labels S : List ℕ)
    (h : reconCoeffs M cols (rowsOfSet labels S) = none) :
    (¬ ∃ c : List F, c.length = (rowsOfSet labels S).length ∧
        mulVec (transposeN ((rowsOfSet labels S).map fun k => M.getD k []) cols) c = SignAlg.e0 cols) ∧
    ∀ sor : ℕ → F, reconstruct M cols labels sor S = none := by
  refine ⟨(recon_none_iff_not_spanning M cols _).mp h, fun sor => ?_⟩
  simp [reconstruct, h]

/-! ### non-vacuity: 2-of-2 additive MSP `M = [[1,1],[0,1]]` over ℚ, `g = 1`, `r = (5, 7)` -/

section examples
private def Mq : Mat ℚ := [[1, 1], [0, 1]]
private def sorq : ℕ → ℚ := fun k => if k = 0 then 12 else 7

example : ∀ k < [1, 2].length, rowLiftOk (1 : ℚ) (Mq.getD k []) [5, 7] (sorq k) = true := by
  intro k hk
  have : k = 0 ∨ k = 1 := by simp at hk; omega
  rcases this with rfl | rfl <;> (rw [rowLiftOk_iff]; norm_num [Mq, sorq, gdot, gsum])

example : ∀ P ∈ ([5, 7] : List ℚ), ∃ a : ℚ, P = a • (1 : ℚ) := fun P _ => ⟨P, by simp⟩

example : ∃ c : List ℚ, c.length = 2 ∧
    mulVec (transposeN ([0, 1].map fun k => Mq.getD k []) 2) c = SignAlg.e0 2 :=
  ⟨[1, -1], rfl, by norm_num [mulVec, transposeN, Mq, SignAlg.e0, dot, List.range, List.range.loop]⟩

example : ¬ ∃ c : List ℚ, c.length = 1 ∧
    mulVec (transposeN ([1].map fun k => Mq.getD k []) 2) c = SignAlg.e0 2 := by
  rintro ⟨c, hc, h⟩
  match c, hc with
  | [x], _ =>
    norm_num [mulVec, transposeN, Mq, SignAlg.e0, dot, List.range, List.range.loop] at h
end examples

end BronVerif.Props.C03Line
