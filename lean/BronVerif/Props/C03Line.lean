import Mathlib.Algebra.Field.Defs
import Mathlib.Algebra.Field.Rat
import Mathlib.Algebra.Module.Rat
import Mathlib.Algebra.Module.Basic
import Mathlib.Algebra.BigOperators.Group.List.Basic
import Mathlib.Tactic.NormNum
import Mathlib.Tactic.Ring
import BronVerif.Model.SignAlg
import BronVerif.Lemmas.SignAlgSpec
import BronVerif.Lemmas.EpochLin
import BronVerif.Lemmas.GaussJordanMatrix
import BronVerif.Props.C20
import BronVerif.Drive.C03
import BronVerif.Lemmas.Vss
/-!
# C03 — what the correspondence checks per line implies the property (theorems about the executable model)

The C03 driver (`Drive/C03.lean`) evaluates, per `dkg` line, `vvSum` and `shareLiftOk` (hence
`rowLiftOk` for every MSP row of every party) and, per `recon` line, `reconstruct` / `reconCoeffs`
for a sample of ≤ 24 qualified and unqualified sets.  The theorems below are about exactly these
definitions of `Model/SignAlg.lean` (lists, `Model/LinAlg.solveLeft`), for any Mathlib field `F` and
`F`-module `G` (`Lemmas/FpField` shows the driver's `Fp p` is such a field):

* `recon_line_sound`: the per-row lift check of the `dkg` line implies that **every** set `S` for which
  `reconstruct` returns a value returns exactly the discrete logarithm of the public key `V₀`;
* `recon_none_iff_not_spanning`: `reconCoeffs … = none` iff `e₀` is not in the span of the selected rows,
  so the driver's qualified / unqualified span tests are exact;
* `shareLiftOk_iff`, `all_parties_agree`, `dkg_line_rows`: the party-level check is the row-level check
  on each owned row, and all parties' private shares are the rows of `M · r`;
* `vvSum_spec`, `vvSum_lift`, `vvSum_pk`: the summed verification vector is `(Σ r⁽ⁱ⁾) • g`, `pk = (Σ r⁽ⁱ⁾₀) • g`;
* `lindell17_dkg_*`: the decomposition `x = 3x′ + x″` check of the Lindell17 DKG recombines to the same key.
-/
set_option linter.unusedSectionVars false
set_option linter.unusedSimpArgs false
set_option linter.unusedVariables false
namespace BronVerif.Props.C03Line
open BronVerif BronVerif.LinAlg BronVerif.SignAlg BronVerif.Lemmas.SignAlgSpec
open BronVerif.Lemmas.EpochLin BronVerif.Props.C20

variable {F G : Type} [Field F] [DecidableEq F] [AddCommGroup G] [Module F G] [DecidableEq G]

/-! ### auxiliary facts about the model's lists -/

theorem signAlg_e0_eq (n : ℕ) : SignAlg.e0 (F := F) n = Vss.e0 n := rfl

/-- a vector of multiples of `g` is the lift of a scalar vector (the group is cyclic) -/
theorem exists_dlog_vector (g : G) (V : List G) (hV : ∀ P ∈ V, ∃ a : F, P = a • g) :
    ∃ r : List F, r.length = V.length ∧ V = r.map (· • g) := by
  induction V with
  | nil => exact ⟨[], rfl, rfl⟩
  | cons P V ih =>
    obtain ⟨a, ha⟩ := hV P (List.mem_cons_self ..)
    obtain ⟨r, hr, hV'⟩ := ih fun Q hQ => hV Q (List.mem_cons_of_mem _ hQ)
    exact ⟨a :: r, by simp [hr], by rw [List.map_cons, ← hV', ha]⟩

theorem headD_map_smul (g : G) (r : List F) : (r.map (· • g)).headD 0 = r.headD 0 • g := by
  cases r <;> simp

theorem mem_rowsOfSet_lt (labels S : List ℕ) (k : ℕ) (hk : k ∈ rowsOfSet labels S) :
    k < labels.length := by
  have := (List.mem_filter.mp hk).1
  exact List.mem_range.mp this

theorem mem_rowsOf_lt (labels : List ℕ) (id k : ℕ) (hk : k ∈ rowsOf labels id) :
    k < labels.length := by
  have := (List.mem_filter.mp hk).1
  exact List.mem_range.mp this

/-! ### 1. the `recon` line: every reconstructing set yields `dlog pk` -/

/-- the same for an explicit list of row indices: any `c` returned by `reconCoeffs` for `rows`
combines row shares that pass the lift check against `V = r • g` to `r₀`. -/
theorem reconCoeffs_dot (g : G) (hg : ∀ a : F, a • g = 0 → a = 0) (M : Mat F) (cols : ℕ)
    (hcols : 0 < cols) (r : List F) (hr : r.length = cols) (sor : ℕ → F) (rows : List ℕ)
    (hrows : ∀ k ∈ rows, rowLiftOk g (M.getD k []) (r.map (· • g)) (sor k) = true)
    (c : List F) (hc : reconCoeffs M cols rows = some c) :
    c.length = rows.length ∧ dot c (rows.map sor) = r.headD 0 := by
  have he : (SignAlg.e0 (F := F) cols).length = cols := by simp [SignAlg.e0]
  obtain ⟨hlen, hmul⟩ := solveLeft_sound _ cols _ he c hc
  refine ⟨by simpa using hlen, ?_⟩
  have hs : rows.map sor = mulVec (rows.map fun k => M.getD k []) r := by
    simp only [mulVec, List.map_map]
    refine List.map_congr_left fun k hk => ?_
    exact rowLiftOk_only_honest g hg _ r _ (hrows k hk)
  rw [hs]
  exact recon_dot _ cols c r hr hcols (by rw [hmul, signAlg_e0_eq])

/-- **`recon_line_sound`**.  Suppose the `dkg` line's row check holds for every MSP row `k`
(`rowLiftOk g M_k V (sor k)`, established by `shareLiftOk` for every party, see `dkg_line_rows`), the
verification vector `V` has `cols > 0` entries, all multiples of the generator `g` (cyclic group).
Then for **every** holder set `S` — not only the ≤ 24 sampled ones — whenever the executable
`reconstruct` returns a scalar `s`, that scalar is the discrete logarithm of the public key `V₀`. -/
theorem recon_line_sound (g : G) (hg : ∀ a : F, a • g = 0 → a = 0) (M : Mat F) (cols : ℕ)
    (hcols : 0 < cols) (labels : List ℕ) (V : List G) (hV : V.length = cols)
    (hcyc : ∀ P ∈ V, ∃ a : F, P = a • g) (sor : ℕ → F)
    (hrow : ∀ k < labels.length, rowLiftOk g (M.getD k []) V (sor k) = true)
    (S : List ℕ) (s : F) (h : reconstruct M cols labels sor S = some s) :
    s • g = V.headD 0 := by
  obtain ⟨r, hr, rfl⟩ := exists_dlog_vector g V hcyc
  simp only [reconstruct, Option.map_eq_some_iff] at h
  obtain ⟨c, hc, rfl⟩ := h
  have hrows : ∀ k ∈ rowsOfSet labels S,
      rowLiftOk g (M.getD k []) (r.map (· • g)) (sor k) = true :=
    fun k hk => hrow k (mem_rowsOfSet_lt labels S k hk)
  rw [(reconCoeffs_dot g hg M cols hcols r (by rw [hr, ← hV]) sor _ hrows c hc).2, headD_map_smul]

/-- the same with the dealt column `r` explicit (`V = r • g`): the reconstructed scalar is `r₀` itself -/
theorem recon_line_sound_dlog (g : G) (hg : ∀ a : F, a • g = 0 → a = 0) (M : Mat F) (cols : ℕ)
    (hcols : 0 < cols) (labels : List ℕ) (r : List F) (hr : r.length = cols) (sor : ℕ → F)
    (hrow : ∀ k < labels.length, rowLiftOk g (M.getD k []) (r.map (· • g)) (sor k) = true)
    (S : List ℕ) (s : F) (h : reconstruct M cols labels sor S = some s) :
    s = r.headD 0 := by
  simp only [reconstruct, Option.map_eq_some_iff] at h
  obtain ⟨c, hc, rfl⟩ := h
  exact (reconCoeffs_dot g hg M cols hcols r hr sor _
    (fun k hk => hrow k (mem_rowsOfSet_lt labels S k hk)) c hc).2

/-! ### 2. the span test of the `recon` line is exact -/

/-- **`recon_none_iff_not_spanning`**: `reconCoeffs` fails exactly when no coefficient vector `c`
(one entry per selected row) satisfies `c · M_rows = e₀`, i.e. when `e₀` is outside the row span. -/
theorem recon_none_iff_not_spanning (M : Mat F) (cols : ℕ) (rows : List ℕ) :
    reconCoeffs M cols rows = none ↔
      ¬ ∃ c : List F, c.length = rows.length ∧
        mulVec (transposeN (rows.map fun k => M.getD k []) cols) c = SignAlg.e0 cols := by
  have he : (SignAlg.e0 (F := F) cols).length = cols := by simp [SignAlg.e0]
  constructor
  · intro h
    have := solveLeft_complete _ cols _ he h
    simpa using this
  · intro h
    cases hc : reconCoeffs M cols rows with
    | none => rfl
    | some c =>
      exfalso
      obtain ⟨hlen, hmul⟩ := solveLeft_sound _ cols _ he c hc
      exact h ⟨c, by simpa using hlen, hmul⟩

/-- `reconCoeffs` succeeds iff a reconstruction vector exists, and then returns one -/
theorem recon_some_iff_spanning (M : Mat F) (cols : ℕ) (rows : List ℕ) :
    (∃ c, reconCoeffs M cols rows = some c) ↔
      ∃ c : List F, c.length = rows.length ∧
        mulVec (transposeN (rows.map fun k => M.getD k []) cols) c = SignAlg.e0 cols := by
  rw [← not_iff_not, ← recon_none_iff_not_spanning]
  cases reconCoeffs M cols rows <;> simp

/-- **`unqualified_line_sound`**: the driver's verdict on an unqualified set `S`
(`reconCoeffs M cols (rowsOfSet labels S) = none`) means that no linear combination of the rows held
by `S` equals `e₀`, and `reconstruct` returns nothing for any share assignment. -/
theorem unqualified_line_sound (M : Mat F) (cols : ℕ) (labels S : List ℕ)
    (h : reconCoeffs M cols (rowsOfSet labels S) = none) :
    (¬ ∃ c : List F, c.length = (rowsOfSet labels S).length ∧
        mulVec (transposeN ((rowsOfSet labels S).map fun k => M.getD k []) cols) c = SignAlg.e0 cols) ∧
    ∀ sor : ℕ → F, reconstruct M cols labels sor S = none := by
  refine ⟨(recon_none_iff_not_spanning M cols _).mp h, fun sor => ?_⟩
  simp [reconstruct, h]

/-! ### 3. the `dkg` line: party-level check = row-level check on every owned row -/

theorem zip_all_iff {α β : Type} (p : α × β → Bool) (d1 : α) (d2 : β) :
    ∀ (l1 : List α) (l2 : List β), l1.length = l2.length →
      ((l1.zip l2).all p = true ↔ ∀ i < l1.length, p (l1.getD i d1, l2.getD i d2) = true) := by
  intro l1
  induction l1 with
  | nil => intro l2 _; simp
  | cons a l1 ih =>
    intro l2 h
    cases l2 with
    | nil => simp at h
    | cons b l2 =>
      have h' : l1.length = l2.length := by simpa using h
      rw [List.zip_cons_cons, List.all_cons, Bool.and_eq_true, ih l2 h', List.length_cons,
        Nat.forall_lt_succ_left]
      simp

/-- **`shareLiftOk_iff`**: the driver's party-level check accepts `vals` for holder `id` iff there is
exactly one scalar per MSP row labelled `id` and the `i`-th scalar passes the row check of the `i`-th
owned row. -/
theorem shareLiftOk_iff (M : Mat F) (labels : List ℕ) (V : List G) (g : G) (id : ℕ) (vals : List F) :
    shareLiftOk M labels V g id vals = true ↔
      vals.length = (rowsOf labels id).length ∧
      ∀ i < (rowsOf labels id).length,
        rowLiftOk g (M.getD ((rowsOf labels id).getD i 0) []) V (vals.getD i 0) = true := by
  unfold shareLiftOk
  simp only [Bool.and_eq_true, beq_iff_eq]
  constructor
  · rintro ⟨h1, h2⟩
    exact ⟨h1.symm, (zip_all_iff _ 0 0 _ _ h1).mp h2⟩
  · rintro ⟨h1, h2⟩
    exact ⟨h1.symm, (zip_all_iff _ 0 0 _ _ h1.symm).mpr h2⟩

theorem mem_rowsOf (labels : List ℕ) (k : ℕ) (hk : k < labels.length) :
    k ∈ rowsOf labels labels[k] := by
  simp [rowsOf, hk]

/-- **`dkg_line_rows`**: what the `dkg` line establishes.  If every emitted share `(id, vals)` passes
`shareLiftOk` and every row label has a share, then the driver's row-share function
`Drive.C03.shareOfRow` passes the row check on **every** MSP row — the hypothesis of `recon_line_sound`. -/
theorem dkg_line_rows (M : Mat F) (labels : List ℕ) (V : List G) (g : G)
    (shares : List (ℕ × List F))
    (hall : ∀ sh ∈ shares, shareLiftOk M labels V g sh.1 sh.2 = true)
    (hcover : ∀ l ∈ labels, ∃ sh ∈ shares, sh.1 = l) :
    ∀ k < labels.length,
      rowLiftOk g (M.getD k []) V (Drive.C03.shareOfRow labels shares k) = true := by
  intro k hk
  have hlab : labels[k]? = some labels[k] := List.getElem?_eq_getElem hk
  obtain ⟨sh0, hsh0, hid0⟩ := hcover labels[k] (List.getElem_mem hk)
  cases hf : shares.find? (fun sh => sh.1 == labels[k]) with
  | none =>
    exfalso
    have := List.find?_eq_none.mp hf sh0 hsh0
    simp [hid0] at this
  | some sh =>
    have hmem : sh ∈ shares := List.mem_of_find?_eq_some hf
    have hid : sh.1 = labels[k] := by simpa using List.find?_some hf
    obtain ⟨id, vals⟩ := sh
    simp only at hid
    subst hid
    have hrow := ((shareLiftOk_iff M labels V g _ vals).mp (hall _ hmem)).2
    have hkm := mem_rowsOf labels k hk
    have hi : (rowsOf labels labels[k]).idxOf k < (rowsOf labels labels[k]).length :=
      List.idxOf_lt_length_iff.mpr hkm
    have hget : (rowsOf labels labels[k]).getD ((rowsOf labels labels[k]).idxOf k) 0 = k := by
      rw [List.getD_eq_getElem?_getD, List.getElem?_eq_getElem hi]
      simp
    have := hrow _ hi
    rw [hget] at this
    simpa [Drive.C03.shareOfRow, hlab, hf] using this

/-- **`all_parties_agree`**: if every party's share passes `shareLiftOk` against the same
`V = r • g`, the private shares are, row by row, the entries of `M · r` (each private share matches the
published public share `M_k · V`); with one label per row of `M` the concatenation of all shares in
row order is the model's `mulVec M r`. -/
theorem all_parties_agree (g : G) (hg : ∀ a : F, a • g = 0 → a = 0) (M : Mat F) (labels : List ℕ)
    (r : List F) (shares : List (ℕ × List F))
    (hall : ∀ sh ∈ shares, shareLiftOk M labels (r.map (· • g)) g sh.1 sh.2 = true)
    (hcover : ∀ l ∈ labels, ∃ sh ∈ shares, sh.1 = l) :
    (∀ k < labels.length, Drive.C03.shareOfRow labels shares k = dot (M.getD k []) r) ∧
    (∀ k < labels.length, Drive.C03.shareOfRow labels shares k • g = gdot (M.getD k []) (r.map (· • g))) ∧
    (M.length = labels.length →
      (List.range labels.length).map (Drive.C03.shareOfRow labels shares) = mulVec M r) := by
  have h1 : ∀ k < labels.length, Drive.C03.shareOfRow labels shares k = dot (M.getD k []) r :=
    fun k hk => rowLiftOk_only_honest g hg _ r _ (dkg_line_rows M labels _ g shares hall hcover k hk)
  refine ⟨h1, fun k hk => ?_, fun hM => ?_⟩
  · exact (rowLiftOk_iff g _ _ _).mp (dkg_line_rows M labels _ g shares hall hcover k hk)
  · apply list_eq_of_getD
    · simp [mulVec, hM]
    · intro i hi
      have hi' : i < labels.length := by simpa using hi
      rw [getD_mulVec M r i (by rw [hM]; exact hi'), ← h1 i hi']
      simp [List.getD_eq_getElem?_getD, List.getElem?_map, List.getElem?_range hi']

/-- **`dkg_then_recon`**: the two lines together.  Shares that pass the `dkg` line's checks against a
verification vector of multiples of `g` reconstruct, for every set `S` on which `reconstruct`
succeeds, exactly the discrete logarithm of `pk = V₀`. -/
theorem dkg_then_recon (g : G) (hg : ∀ a : F, a • g = 0 → a = 0) (M : Mat F) (cols : ℕ)
    (hcols : 0 < cols) (labels : List ℕ) (V : List G) (hV : V.length = cols)
    (hcyc : ∀ P ∈ V, ∃ a : F, P = a • g) (shares : List (ℕ × List F))
    (hall : ∀ sh ∈ shares, shareLiftOk M labels V g sh.1 sh.2 = true)
    (hcover : ∀ l ∈ labels, ∃ sh ∈ shares, sh.1 = l)
    (S : List ℕ) (s : F)
    (h : reconstruct M cols labels (Drive.C03.shareOfRow labels shares) S = some s) :
    s • g = V.headD 0 :=
  recon_line_sound g hg M cols hcols labels V hV hcyc _
    (dkg_line_rows M labels V g shares hall hcover) S s h

/-! ### 4. the summed verification vector -/

theorem vvSum_length (cols : ℕ) (vs : List (List G)) : (vvSum cols vs).length = cols := by
  simp [vvSum]

/-- **`vvSum_spec`**: `vvSum` is the entrywise sum of the dealers' vectors (missing entries read as `0`) -/
theorem vvSum_spec (cols : ℕ) (vs : List (List G)) (j : ℕ) (hj : j < cols) :
    (vvSum cols vs).getD j 0 = (vs.map fun v => v.getD j 0).sum := by
  simp [vvSum, List.getD_eq_getElem?_getD, List.getElem?_map, List.getElem?_range hj,
    BronVerif.Lemmas.Vss.gsum_eq_sum]

theorem sum_map_smul {α : Type} (g : G) (f : α → F) (xs : List α) :
    (xs.map fun x => f x • g).sum = (xs.map f).sum • g := by
  induction xs with
  | nil => simp
  | cons x xs ih => simp [ih, add_smul]

theorem getD_map_smul (g : G) (r : List F) (j : ℕ) : (r.map (· • g)).getD j 0 = r.getD j 0 • g := by
  by_cases hj : j < r.length
  · simp [List.getD_eq_getElem?_getD, List.getElem?_map, List.getElem?_eq_getElem hj]
  · have : r.length ≤ j := Nat.le_of_not_lt hj
    simp [List.getD_eq_getElem?_getD, List.getElem?_map, List.getElem?_eq_none this]

/-- **`vvSum_lift`** (model-level `dkg_sum`): the sum of the dealers' verification vectors
`V⁽ⁱ⁾ = r⁽ⁱ⁾ • g` is the lift of the entrywise sum of the dealt columns, `ΣV⁽ⁱ⁾ = (Σ r⁽ⁱ⁾) • g`. -/
theorem vvSum_lift (g : G) (cols : ℕ) (rs : List (List F)) :
    vvSum cols (rs.map fun r => r.map (· • g)) =
      ((List.range cols).map fun j => (rs.map fun r => r.getD j 0).sum).map (· • g) := by
  simp only [vvSum, List.map_map, BronVerif.Lemmas.Vss.gsum_eq_sum]
  refine List.map_congr_left fun j _ => ?_
  have hf : ((fun v : List G => v.getD j 0) ∘ fun r : List F => r.map (· • g))
      = fun r : List F => r.getD j 0 • g := by
    funext r; exact getD_map_smul g r j
  rw [hf]
  exact sum_map_smul g (fun r => r.getD j 0) rs

/-- **`vvSum_pk`**: the public key `pk = (ΣV⁽ⁱ⁾)₀` is the lift of the sum of the dealers' secrets -/
theorem vvSum_pk (g : G) (cols : ℕ) (hcols : 0 < cols) (rs : List (List F)) :
    (vvSum cols (rs.map fun r => r.map (· • g))).headD 0 = (rs.map fun r => r.headD 0).sum • g := by
  rw [vvSum_lift, headD_map_smul]
  obtain ⟨n, rfl⟩ := Nat.exists_eq_succ_of_ne_zero (Nat.pos_iff_ne_zero.mp hcols)
  have : (fun r : List F => r.getD 0 0) = fun r : List F => r.headD 0 := by
    funext r; cases r <;> simp
  simp only [List.range_succ_eq_map, List.map_cons, List.headD_cons, this]

/-- every entry of the summed vector is a multiple of `g` (the `hcyc` hypothesis of `recon_line_sound`
holds for the `V` of an honest run) -/
theorem vvSum_cyclic (g : G) (cols : ℕ) (rs : List (List F)) :
    ∀ P ∈ vvSum cols (rs.map fun r => r.map (· • g)), ∃ a : F, P = a • g := by
  rw [vvSum_lift]
  intro P hP
  obtain ⟨a, _, rfl⟩ := List.mem_map.mp hP
  exact ⟨a, rfl⟩

/-! ### 5. Lindell17 DKG (group-level algebra of `lindell17/keygen/dkg/round.go`)

Each party splits every component `x` of its MSP share as `x = 3x′ + x″`
(`lindell17.DecomposeTwoThirds`), publishes `Q′ = x′ • g`, `Q″ = x″ • g` with Schnorr proofs, and every
peer checks `triplePoint(Q′) + Q″ = ` public share component; `x′, x″` are then Paillier-encrypted
(LPDL proofs tie the ciphertexts to `Q′, Q″`).  The Paillier layer and the range condition
`x′, x″ ∈ [q/3, 2q/3)` are not modelled here (`decompose_two_thirds` stays a named gap). -/

/-- `Round1`/`Round3` of the Lindell17 DKG: an honest decomposition `x = 3x′ + x″` of a raw share
component passes the verifier's check `triplePoint(Q′) + Q″ = Λ` (`triplePoint P = P + P + P`) against
the public share component `Λ = x • g`. -/
theorem lindell17_dkg_component_complete (g : G) (x xp xpp : F) (h : x = 3 * xp + xpp) :
    (xp • g + xp • g + xp • g) + xpp • g = x • g := by
  subst h
  rw [add_smul, mul_smul, ← add_smul, ← add_smul, ← mul_smul]
  congr 2; ring

/-- conversely (generator hypothesis; `x′, x″` are the discrete logarithms of `Q′, Q″` that the two
Schnorr proofs of knowledge extract and that LPDL ties to the Paillier ciphertexts): a pair that passes
the check recombines to the share component, `x = 3x′ + x″`. -/
theorem lindell17_dkg_component_sound (g : G) (hg : ∀ a : F, a • g = 0 → a = 0) (x xp xpp : F)
    (h : (xp • g + xp • g + xp • g) + xpp • g = x • g) : x = 3 * xp + xpp := by
  rw [lindell17_dkg_component_complete g (3 * xp + xpp) xp xpp rfl] at h
  have : (x - (3 * xp + xpp)) • g = 0 := by rw [sub_smul, h, sub_self]
  exact sub_eq_zero.mp (hg _ this)

/-- against the public share component `M_k · V` of the base shard (`V = r • g`): the accepted pair
recombines to the dealt entry `⟨M_k, r⟩` and passes the model's row check. -/
theorem lindell17_dkg_component_public (g : G) (hg : ∀ a : F, a • g = 0 → a = 0) (row r : List F)
    (xp xpp : F)
    (h : (xp • g + xp • g + xp • g) + xpp • g = gdot row (r.map (· • g))) :
    3 * xp + xpp = dot row r ∧ rowLiftOk g row (r.map (· • g)) (3 * xp + xpp) = true := by
  have h2 : rowLiftOk g row (r.map (· • g)) (3 * xp + xpp) = true := by
    rw [rowLiftOk_iff, ← h]
    exact (lindell17_dkg_component_complete g _ xp xpp rfl).symm
  exact ⟨rowLiftOk_only_honest g hg row r _ h2, h2⟩

/-- **`lindell17_dkg_key`**: if every row's published pair passes the `Round3` check against `M_k · V`,
then for every set `S` on which the model's `reconstruct` succeeds, the recombined halves
`3x′_k + x″_k` (the plaintexts of the stored Paillier ciphertexts; their range `[q/3, 2q/3)` and the
encryption itself are abstracted away) reconstruct exactly the discrete logarithm of `pk = V₀`. -/
theorem lindell17_dkg_key (g : G) (hg : ∀ a : F, a • g = 0 → a = 0) (M : Mat F) (cols : ℕ)
    (hcols : 0 < cols) (labels : List ℕ) (V : List G) (hV : V.length = cols)
    (hcyc : ∀ P ∈ V, ∃ a : F, P = a • g) (xp xpp : ℕ → F)
    (hcheck : ∀ k < labels.length,
      (xp k • g + xp k • g + xp k • g) + xpp k • g = gdot (M.getD k []) V)
    (S : List ℕ) (s : F)
    (h : reconstruct M cols labels (fun k => 3 * xp k + xpp k) S = some s) :
    s • g = V.headD 0 := by
  refine recon_line_sound g hg M cols hcols labels V hV hcyc _ (fun k hk => ?_) S s h
  rw [rowLiftOk_iff, ← hcheck k hk]
  exact (lindell17_dkg_component_complete g _ (xp k) (xpp k) rfl).symm

/-- additive form: `Σ (3Q′ᵢ + Q″ᵢ) = (Σ (3x′ᵢ + x″ᵢ)) • g` -/
theorem lindell17_dkg_pk_sum (g : G) (xs : List (F × F)) :
    (xs.map fun x => (x.1 • g + x.1 • g + x.1 • g) + x.2 • g).sum
      = (xs.map fun x => 3 * x.1 + x.2).sum • g := by
  rw [← sum_map_smul g (fun x : F × F => 3 * x.1 + x.2) xs]
  congr 1
  refine List.map_congr_left fun x _ => ?_
  exact lindell17_dkg_component_complete g _ x.1 x.2 rfl

/-! ### non-vacuity: 2-of-2 additive MSP `M = [[1,1],[0,1]]` over ℚ, `g = 1`, dealt column `r = (5, 7)`,
`V = r • g = [5, 7]`, holders `1, 2` with shares `12 = 5 + 7` and `7` -/

section examples
private def Mq : Mat ℚ := [[1, 1], [0, 1]]
private def sorq : ℕ → ℚ := fun k => if k = 0 then 12 else 7
private def sharesq : List (ℕ × List ℚ) := [(1, [12]), (2, [7])]

private theorem hgq : ∀ a : ℚ, a • (1 : ℚ) = 0 → a = 0 := fun a h => by simpa using h

private theorem hrowq : ∀ k < [1, 2].length, rowLiftOk (1 : ℚ) (Mq.getD k []) [5, 7] (sorq k) = true := by
  intro k hk
  have : k = 0 ∨ k = 1 := by simp at hk; omega
  rcases this with rfl | rfl <;> (rw [rowLiftOk_iff]; norm_num [Mq, sorq, gdot, gsum])

private theorem hcycq : ∀ P ∈ ([5, 7] : List ℚ), ∃ a : ℚ, P = a • (1 : ℚ) := fun P _ => ⟨P, by simp⟩

private theorem hspanq : ∃ c : List ℚ, c.length = 2 ∧
    mulVec (transposeN ([0, 1].map fun k => Mq.getD k []) 2) c = SignAlg.e0 2 :=
  ⟨[1, -1], rfl, by norm_num [mulVec, transposeN, Mq, SignAlg.e0, dot, List.range, List.range.loop]⟩

private theorem hnospanq : ¬ ∃ c : List ℚ, c.length = 1 ∧
    mulVec (transposeN ([1].map fun k => Mq.getD k []) 2) c = SignAlg.e0 2 := by
  rintro ⟨c, hc, h⟩
  match c, hc with
  | [x], _ =>
    norm_num [mulVec, transposeN, Mq, SignAlg.e0, dot, List.range, List.range.loop] at h

private theorem hV57 : ([5, 7] : List ℚ).map (· • (1 : ℚ)) = [5, 7] := by simp

private theorem hrows12 : rowsOfSet [1, 2] [1, 2] = [0, 1] := by decide
private theorem hrows2 : rowsOfSet [1, 2] [2] = [1] := by decide

/-- `recon_line_sound` / `recon_line_sound_dlog`: hypotheses hold, every reconstructing set gives `5 = dlog pk` -/
example (S : List ℕ) (s : ℚ) (h : reconstruct Mq 2 [1, 2] sorq S = some s) : s • (1 : ℚ) = 5 :=
  recon_line_sound 1 hgq Mq 2 (by norm_num) [1, 2] [5, 7] rfl hcycq sorq hrowq S s h

example (S : List ℕ) (s : ℚ) (h : reconstruct Mq 2 [1, 2] sorq S = some s) : s = 5 :=
  recon_line_sound_dlog 1 hgq Mq 2 (by norm_num) [1, 2] [5, 7] rfl sorq (by rw [hV57]; exact hrowq) S s h

/-- … and the premise `reconstruct … = some s` is attained: the full set `{1, 2}` reconstructs -/
example : ∃ s, reconstruct Mq 2 [1, 2] sorq [1, 2] = some s := by
  obtain ⟨c, hc⟩ := (recon_some_iff_spanning Mq 2 [0, 1]).mpr hspanq
  exact ⟨dot c ([0, 1].map sorq), by simp only [reconstruct, hrows12, hc, Option.map_some]⟩

/-- `recon_none_iff_not_spanning` / `unqualified_line_sound`: holder `2` alone (row `[0,1]`) does not span `e₀` -/
example : reconCoeffs Mq 2 (rowsOfSet [1, 2] [2]) = none := by
  rw [hrows2]; exact (recon_none_iff_not_spanning Mq 2 [1]).mpr hnospanq

example (sor : ℕ → ℚ) : reconstruct Mq 2 [1, 2] sor [2] = none :=
  (unqualified_line_sound Mq 2 [1, 2] [2]
    (by rw [hrows2]; exact (recon_none_iff_not_spanning Mq 2 [1]).mpr hnospanq)).2 sor

private theorem hrowsOf1 : rowsOf [1, 2] 1 = [0] := by decide
private theorem hrowsOf2 : rowsOf [1, 2] 2 = [1] := by decide

/-- `shareLiftOk_iff`, `dkg_line_rows`, `all_parties_agree`, `dkg_then_recon`: both parties' shares pass -/
private theorem hallq : ∀ sh ∈ sharesq, shareLiftOk Mq [1, 2] [5, 7] (1 : ℚ) sh.1 sh.2 = true := by
  intro sh h
  simp only [sharesq, List.mem_cons, List.not_mem_nil, or_false] at h
  rcases h with rfl | rfl
  · rw [shareLiftOk_iff, hrowsOf1]
    refine ⟨rfl, fun i hi => ?_⟩
    have : i = 0 := by simpa using hi
    subst this; rw [rowLiftOk_iff]; norm_num [Mq, gdot, gsum]
  · rw [shareLiftOk_iff, hrowsOf2]
    refine ⟨rfl, fun i hi => ?_⟩
    have : i = 0 := by simpa using hi
    subst this; rw [rowLiftOk_iff]; norm_num [Mq, gdot, gsum]

private theorem hcoverq : ∀ l ∈ [1, 2], ∃ sh ∈ sharesq, sh.1 = l := by
  intro l h
  simp only [List.mem_cons, List.not_mem_nil, or_false] at h
  rcases h with rfl | rfl
  · exact ⟨(1, [12]), by simp [sharesq], rfl⟩
  · exact ⟨(2, [7]), by simp [sharesq], rfl⟩

example : ∀ k < [1, 2].length,
    rowLiftOk (1 : ℚ) (Mq.getD k []) [5, 7] (Drive.C03.shareOfRow [1, 2] sharesq k) = true :=
  dkg_line_rows Mq [1, 2] [5, 7] 1 sharesq hallq hcoverq

example : (List.range 2).map (Drive.C03.shareOfRow [1, 2] sharesq) = mulVec Mq [5, 7] :=
  (all_parties_agree (1 : ℚ) hgq Mq [1, 2] [5, 7] sharesq (by rw [hV57]; exact hallq) hcoverq).2.2 rfl

example (S : List ℕ) (s : ℚ)
    (h : reconstruct Mq 2 [1, 2] (Drive.C03.shareOfRow [1, 2] sharesq) S = some s) : s • (1 : ℚ) = 5 :=
  dkg_then_recon 1 hgq Mq 2 (by norm_num) [1, 2] [5, 7] rfl hcycq sharesq hallq hcoverq S s h

/-- `vvSum_spec`, `vvSum_lift`, `vvSum_pk`: two dealers with columns `(1,2)` and `(4,5)`: `pk = 5 • g` -/
example : (vvSum 2 ([[1, 2], [4, 5]].map fun r : List ℚ => r.map (· • (1 : ℚ)))).headD 0 = 5 := by
  rw [vvSum_pk (1 : ℚ) 2 (by norm_num)]; norm_num

example : (vvSum 2 ([[1, 2], [4, 5]] : List (List ℚ))).getD 1 0 = 7 := by
  rw [vvSum_spec 2 _ 1 (by norm_num)]; norm_num

example : ∀ P ∈ vvSum 2 ([[1, 2], [4, 5]].map fun r : List ℚ => r.map (· • (1 : ℚ))),
    ∃ a : ℚ, P = a • (1 : ℚ) := vvSum_cyclic 1 2 _
/-- Lindell17: `12 = 3·2 + 6`, and the rows `12 = 3·2 + 6`, `7 = 3·1 + 4` of the 2-of-2 example -/
example : ((2 : ℚ) • (1 : ℚ) + (2 : ℚ) • (1 : ℚ) + (2 : ℚ) • (1 : ℚ)) + (6 : ℚ) • (1 : ℚ) = (12 : ℚ) • (1 : ℚ) :=
  lindell17_dkg_component_complete 1 12 2 6 (by norm_num)

example : (12 : ℚ) = 3 * 2 + 6 :=
  lindell17_dkg_component_sound (1 : ℚ) hgq 12 2 6 (by norm_num)

example : (3 : ℚ) * 2 + 6 = dot [1, 1] [5, 7] :=
  (lindell17_dkg_component_public (1 : ℚ) hgq [1, 1] [5, 7] 2 6 (by norm_num [gdot, gsum])).1

private def xpq : ℕ → ℚ := fun k => if k = 0 then 2 else 1
private def xppq : ℕ → ℚ := fun k => if k = 0 then 6 else 4

example (S : List ℕ) (s : ℚ)
    (h : reconstruct Mq 2 [1, 2] (fun k => 3 * xpq k + xppq k) S = some s) : s • (1 : ℚ) = 5 := by
  refine lindell17_dkg_key 1 hgq Mq 2 (by norm_num) [1, 2] [5, 7] rfl hcycq xpq xppq ?_ S s h
  intro k hk
  have : k = 0 ∨ k = 1 := by simp at hk; omega
  rcases this with rfl | rfl <;> norm_num [Mq, xpq, xppq, gdot, gsum]

example : ([((2 : ℚ), (6 : ℚ)), (1, 4)].map fun x => (x.1 • (1 : ℚ) + x.1 • (1 : ℚ) + x.1 • (1 : ℚ)) + x.2 • (1 : ℚ)).sum
    = (19 : ℚ) • (1 : ℚ) := by
  rw [lindell17_dkg_pk_sum]; norm_num
end examples

end BronVerif.Props.C03Line
