import Mathlib.Data.Matrix.Mul
import Mathlib.LinearAlgebra.Basis.VectorSpace
import Mathlib.LinearAlgebra.Pi
import Mathlib.LinearAlgebra.StdBasis
import Mathlib.LinearAlgebra.Lagrange
import Mathlib.Algebra.BigOperators.Fin
import Mathlib.Data.ZMod.Basic
import Mathlib.LinearAlgebra.Matrix.Notation
import Mathlib.Tactic.NormNum.Prime
import Mathlib.Algebra.Field.ZMod
import Mathlib.Tactic.ComputeDegree
import BronVerif.Lemmas.SharingExamples
import BronVerif.Lemmas.SharingLCW
import Mathlib.LinearAlgebra.Matrix.NonsingularInverse
import Mathlib.Tactic.IntervalCases
import Mathlib.Tactic.FinCases
import BronVerif.Model.Access
import BronVerif.Model.Sharing
import BronVerif.Lemmas.SharingSpan
import BronVerif.Lemmas.SharingPoly
import BronVerif.Lemmas.SharingThreshold
import BronVerif.Lemmas.SharingTree
import BronVerif.Lemmas.SharingHier
import BronVerif.Lemmas.SharingDeal
import BronVerif.Lemmas.SharingPrivacy
import BronVerif.Lemmas.SharingClause
import BronVerif.Lemmas.SharingBirkhoff
/-!
# C02 — exactly the qualified sets can reconstruct; unqualified sets learn nothing

Property theorems.  The span-programme statements are about an arbitrary matrix `M : Matrix ρ δ F`
over an arbitrary field with target `e_z` (`Pi.single z 1`); `Model/Sharing.lean` instantiates them
(`MSP.deal = M·r`, `MSP.reconVector` = a solution `c` of `c·M_S = e₀`, …).  The per-family
"accepted iff qualified" theorems come in two forms: about the Mathlib form of the matrices that
`Model/Access.lean` (`thresholdMSP`, `unanimityMSP`, `cnfMSP`) builds (see the doc comments), and —
`model_accepts_iff_qualified_threshold`, `lcw_holds` / `model_accepts_iff_qualified_tree` — about the
executable definitions the driver runs (`thresholdMSP`, `treeMSP`, `MSP.accepts` with the mirrored
Gauss–Jordan solver whose soundness and completeness are `Props.C20.solveLeft_sound/complete`).
-/
namespace BronVerif.Props.C02
open Matrix BigOperators Polynomial
open BronVerif.Lemmas.SharingSpan BronVerif.Lemmas.SharingPoly BronVerif.Lemmas.SharingExamples
open BronVerif.Lemmas.SharingLCW

section SpanProgramme
variable {F : Type*} [Field F] {ρ δ : Type*} [Fintype ρ] [Fintype δ] [DecidableEq δ]

/-! ## reconstruction -/

/-- **Reconstruction.** If `c` is supported on the rows of `S` and `c·M = e_z`, then combining the
shares `M·r` of `S` with `c` returns the secret `r_z`, whatever the random column `r` is. -/

theorem msp_reconstruct (M : Matrix ρ δ F) (z : δ) (r : δ → F) (S : Finset ρ) (c : ρ → F)
    (_hS : ∀ i ∉ S, c i = 0) (hc : c ᵥ* M = Pi.single z 1) : c ⬝ᵥ (M *ᵥ r) = r z := by
  rw [dotProduct_mulVec, hc, single_one_dotProduct]


/-- non-vacuity: the (2,3) threshold programme over `ZMod 7`, rows of holders 1 and 2 -/
example : c12 ⬝ᵥ (M23 *ᵥ ![4, 5]) = 4 :=
  msp_reconstruct M23 0 ![4, 5] {0, 1} c12 (by decide) c12_spec

/-! ## privacy -/

omit [Fintype ρ] in
/-- **Privacy, kernel form.** If the target is not in the span of the rows of `S`, there is a
column `k` with `k_z = 1` that every row of `S` annihilates. -/
theorem msp_privacy (M : Matrix ρ δ F) (z : δ) (S : Finset ρ)
    (h : (Pi.single z 1 : δ → F) ∉ Submodule.span F (Set.range fun i : S => M i)) :
    ∃ k : δ → F, k z = 1 ∧ ∀ i ∈ S, (M *ᵥ k) i = 0 := by
  obtain ⟨f, hfz, hker⟩ := Submodule.exists_le_ker_of_notMem h
  let k0 : δ → F := fun j => f (fun j' => if j = j' then 1 else 0)
  have hf : ∀ v : δ → F, f v = v ⬝ᵥ k0 := fun v => by
    rw [LinearMap.pi_apply_eq_sum_univ f v]; simp [dotProduct, k0]
  have hz : k0 z = f (Pi.single z 1) := by
    simp only [k0]; congr 1; ext j; simp [Pi.single_apply, eq_comm]
  refine ⟨(k0 z)⁻¹ • k0, ?_, ?_⟩
  · simp only [Pi.smul_apply, smul_eq_mul, hz]; exact inv_mul_cancel₀ hfz
  · intro i hi
    have hmem : M i ∈ Submodule.span F (Set.range fun i : S => M i) :=
      Submodule.subset_span ⟨⟨i, hi⟩, rfl⟩
    have h0 : f (M i) = 0 := hker hmem
    rw [hf] at h0
    simp only [mulVec_smul, Pi.smul_apply, smul_eq_mul]
    show _ * (M i ⬝ᵥ k0) = 0
    rw [h0, mul_zero]

omit [Fintype ρ] in
/-- perfect privacy: shifting the random column along the kernel vector is a bijection between
the columns with secret `s` and those with secret `s'` that fixes every share of `S` -/
theorem msp_privacy_bijection (M : Matrix ρ δ F) (z : δ) (S : Finset ρ)
    (h : (Pi.single z 1 : δ → F) ∉ Submodule.span F (Set.range fun i : S => M i)) (s s' : F) :
    ∃ e : {r : δ → F // r z = s} ≃ {r : δ → F // r z = s'},
      ∀ r, ∀ i ∈ S, (M *ᵥ (e r).1) i = (M *ᵥ r.1) i := by
  obtain ⟨k, hk1, hk0⟩ := msp_privacy M z S h
  refine ⟨⟨fun r => ⟨r.1 + (s' - s) • k, by simp [r.2, hk1]⟩,
           fun r => ⟨r.1 + (s - s') • k, by simp [r.2, hk1]⟩, ?_, ?_⟩, ?_⟩
  · intro r; ext j; simp; ring
  · intro r; ext j; simp; ring
  · intro r i hi
    simp [mulVec_add, mulVec_smul, hk0 i hi]

/-- non-vacuity of the privacy hypothesis: in the (2,3) threshold programme over `ZMod 7` the row
`(1,1)` of a single holder does not span `e₀` -/
example : (Pi.single 0 1 : Fin 2 → ZMod 7) ∉
    Submodule.span (ZMod 7) (Set.range fun i : ({0} : Finset (Fin 3)) => M23 i) := by
  intro h
  let f : (Fin 2 → ZMod 7) →ₗ[ZMod 7] ZMod 7 :=
    LinearMap.proj (R := ZMod 7) (φ := fun _ : Fin 2 => ZMod 7) 0
      - LinearMap.proj (R := ZMod 7) (φ := fun _ : Fin 2 => ZMod 7) 1
  have hle : Submodule.span (ZMod 7) (Set.range fun i : ({0} : Finset (Fin 3)) => M23 i)
      ≤ LinearMap.ker f := by
    refine Submodule.span_le.mpr ?_
    rintro _ ⟨⟨i, hi⟩, rfl⟩
    have : i = 0 := by simpa using hi
    subst this
    simp [f, M23]
  have := hle h
  simp [f] at this

/-! ## linearity -/

/-- **Adding shares** gives the shares of the sum of the random columns, whose secret is the sum of
the secrets; reconstruction from the added shares returns that sum. -/
theorem share_add (M : Matrix ρ δ F) (z : δ) (r r' : δ → F) (c : ρ → F)
    (hc : c ᵥ* M = Pi.single z 1) :
    M *ᵥ r + M *ᵥ r' = M *ᵥ (r + r') ∧ (r + r') z = r z + r' z ∧
      c ⬝ᵥ (M *ᵥ r + M *ᵥ r') = r z + r' z := by
  refine ⟨(mulVec_add _ _ _).symm, rfl, ?_⟩
  rw [← mulVec_add, dotProduct_mulVec, hc, single_one_dotProduct]; rfl

/-- **Scaling shares** gives the shares of the scaled column; reconstruction returns `a · secret`. -/
theorem share_smul (M : Matrix ρ δ F) (z : δ) (a : F) (r : δ → F) (c : ρ → F)
    (hc : c ᵥ* M = Pi.single z 1) :
    a • (M *ᵥ r) = M *ᵥ (a • r) ∧ (a • r) z = a * r z ∧ c ⬝ᵥ (a • (M *ᵥ r)) = a * r z := by
  refine ⟨(mulVec_smul _ _ _).symm, rfl, ?_⟩
  rw [← mulVec_smul, dotProduct_mulVec, hc, single_one_dotProduct]; rfl

example : c12 ⬝ᵥ (M23 *ᵥ ![4, 5] + M23 *ᵥ ![6, 1]) = 4 + 6 :=
  (share_add M23 0 ![4, 5] ![6, 1] c12 c12_spec).2.2

example : c12 ⬝ᵥ ((3 : ZMod 7) • (M23 *ᵥ ![4, 5])) = 3 * 4 :=
  (share_smul M23 0 3 ![4, 5] c12 c12_spec).2.2

/-! ## conversion to additive shares -/

/-- **Additive conversion.** Every holder `h` of the quorum `Q` locally computes
`Σ_{rows i of h} cᵢ λᵢ`; these values sum to the secret. -/
theorem additive_conversion {ι : Type*} [DecidableEq ι] (M : Matrix ρ δ F) (z : δ) (r : δ → F)
    (holder : ρ → ι) (Q : Finset ι) (c : ρ → F) (hQ : ∀ i, holder i ∉ Q → c i = 0)
    (hc : c ᵥ* M = Pi.single z 1) :
    ∑ h ∈ Q, ∑ i ∈ Finset.univ.filter (fun i => holder i = h), c i * (M *ᵥ r) i = r z := by
  rw [← msp_reconstruct M z r Finset.univ c (fun i hi => absurd (Finset.mem_univ i) hi) hc]
  simp only [dotProduct]
  have hsub : ∑ i ∈ Finset.univ.filter (fun i => holder i ∈ Q), c i * (M *ᵥ r) i
      = ∑ i, c i * (M *ᵥ r) i := by
    rw [Finset.sum_filter]
    refine Finset.sum_congr rfl fun i _ => ?_
    by_cases h : holder i ∈ Q
    · simp [h]
    · simp [h, hQ i h]
  rw [← hsub, ← Finset.sum_fiberwise_of_maps_to (s := Finset.univ.filter fun i => holder i ∈ Q)
    (t := Q) (g := holder) (fun i hi => (Finset.mem_filter.mp hi).2)]
  refine Finset.sum_congr rfl fun h hh => ?_
  refine Finset.sum_congr ?_ fun _ _ => rfl
  ext i
  simp only [Finset.mem_filter, Finset.mem_univ, true_and]
  constructor
  · rintro rfl; exact ⟨hh, rfl⟩
  · rintro ⟨_, rfl⟩; rfl

example : ∑ h ∈ ({0, 1} : Finset (Fin 3)), ∑ i ∈ Finset.univ.filter (fun i : Fin 3 => id i = h),
    c12 i * (M23 *ᵥ ![4, 5]) i = 4 :=
  additive_conversion M23 0 ![4, 5] id {0, 1} c12 (by decide) c12_spec

end SpanProgramme

/-! ## exactly the qualified sets: threshold (Vandermonde) -/

section Threshold
variable {F : Type*} [Field F]

/-- **Threshold.** For the programme `threshold.InducedMSP` builds (row of holder `i`:
`[1, i, i², …, i^(t-1)]`; `Model.Access.thresholdMSP`), with IDs distinct and non-zero as field
elements, a set `S` of shareholders is accepted iff `t ≤ |S|`. -/
theorem accepts_iff_qualified_threshold (t : ℕ) (ids : Finset ℕ)
    (hid : Set.InjOn (Nat.cast : ℕ → F) ids) (h0 : ∀ i ∈ ids, (i : F) ≠ 0)
    (ht : 2 ≤ t ∧ t ≤ ids.card) (S : Finset ℕ) (hS : S ⊆ ids) :
    (∃ c : S → F, c ᵥ* vandermondeRows t S = Pi.single ⟨0, by omega⟩ 1) ↔ t ≤ S.card :=
  vandermonde_accepts_iff t (by omega) S (hid.mono fun _ hx => hS hx) (fun i hi => h0 i (hS hi))

/-- non-vacuity: (2,3) over `ZMod 7`, ids `{1,2,3}`, the set `{1,3}` is accepted -/
example : ∃ c : (({1, 3} : Finset ℕ)) → ZMod 7,
    c ᵥ* vandermondeRows 2 {1, 3} = Pi.single ⟨0, by omega⟩ 1 := by
  refine (accepts_iff_qualified_threshold (F := ZMod 7) 2 {1, 2, 3} ?_ ?_ (by decide) {1, 3}
    (by decide)).mpr (by decide)
  · intro a ha b hb h
    simp only [Finset.coe_insert, Finset.coe_singleton, Set.mem_insert_iff, Set.mem_singleton_iff] at ha hb
    rcases ha with rfl | rfl | rfl <;> rcases hb with rfl | rfl | rfl <;>
      first | rfl | (exfalso; revert h; decide)
  · intro i hi
    simp only [Finset.mem_insert, Finset.mem_singleton] at hi
    rcases hi with rfl | rfl | rfl <;> decide

/-- **Threshold, for the executable model.** Under the constructor's guards
(`Policy.validate`: no ID 0, `2 ≤ t ≤ n`), for shareholder IDs that are distinct and non-zero as
field elements, the span programme the driver builds (`Model.Access.thresholdMSP`, mirror of
`threshold.InducedMSP`) and tests with the mirrored solver (`MSP.accepts` = `solveLeft` against
`e₀`, sound and complete by `Props.C20.solveLeft_sound/complete`) accepts a set `S` of shareholders
iff the policy declares it qualified (`Policy.isQualified`: at least `t` distinct members). -/
theorem model_accepts_iff_qualified_threshold {F : Type} [Field F] [DecidableEq F] (t : ℕ)
    (ids S : List ℕ) (hv : (BronVerif.Access.Policy.threshold t ids).validate = .ok ())
    (hid : Set.InjOn (Nat.cast : ℕ → F) {i | i ∈ ids}) (h0 : ∀ i ∈ ids, (i : F) ≠ 0)
    (hS : ∀ i ∈ S, i ∈ ids) :
    (BronVerif.Access.thresholdMSP (F := F) t ids).accepts S =
      (BronVerif.Access.Policy.threshold t ids).isQualified S := by
  have ht : 2 ≤ t := by
    simp only [BronVerif.Access.Policy.validate] at hv
    by_contra hlt
    have : t < 2 := by omega
    split_ifs at hv
  rw [BronVerif.Lemmas.SharingThreshold.thresholdMSP_accepts t ids S (by omega) hid h0 hS]
  unfold BronVerif.Access.Policy.isQualified
  have hsub : BronVerif.Access.subset (BronVerif.Access.dedup S) ids = true := by
    unfold BronVerif.Access.subset
    rw [List.all_eq_true]
    intro x hx
    rw [List.contains_iff_mem]
    exact hS x (BronVerif.Lemmas.SharingThreshold.mem_dedup.mp hx)
  simp only [hsub, Bool.and_true]

/-- the same with the size written out: accepted iff `t ≤ |S|` (distinct members) -/
theorem model_accepts_threshold_card {F : Type} [Field F] [DecidableEq F] (t : ℕ)
    (ids S : List ℕ) (ht : 0 < t)
    (hid : Set.InjOn (Nat.cast : ℕ → F) {i | i ∈ ids}) (h0 : ∀ i ∈ ids, (i : F) ≠ 0)
    (hS : ∀ i ∈ S, i ∈ ids) :
    (BronVerif.Access.thresholdMSP (F := F) t ids).accepts S =
      decide (t ≤ (BronVerif.Access.dedup S).length) :=
  BronVerif.Lemmas.SharingThreshold.thresholdMSP_accepts t ids S ht hid h0 hS

/-- non-vacuity: (2,3) over `ZMod 7`, ids `[1,2,3]`: `[1,3]` is accepted -/
example : (BronVerif.Access.thresholdMSP (F := ZMod 7) 2 [1, 2, 3]).accepts [1, 3] = true := by
  rw [model_accepts_iff_qualified_threshold (F := ZMod 7) 2 [1, 2, 3] [1, 3] (by decide) ?_ ?_ (by decide)]
  · decide
  · intro a ha b hb h
    simp only [List.mem_cons, List.not_mem_nil, or_false, Set.mem_ofPred_eq] at ha hb
    rcases ha with rfl | rfl | rfl <;> rcases hb with rfl | rfl | rfl <;>
      first | rfl | (exfalso; revert h; decide)
  · intro i hi
    simp only [List.mem_cons, List.not_mem_nil, or_false] at hi
    rcases hi with rfl | rfl | rfl <;> decide

/-- … and `[2]` is rejected -/
example : (BronVerif.Access.thresholdMSP (F := ZMod 7) 2 [1, 2, 3]).accepts [2] = false := by
  rw [model_accepts_threshold_card (F := ZMod 7) 2 [1, 2, 3] [2] (by decide) ?_ ?_ (by decide)]
  · decide
  · intro a ha b hb h
    simp only [List.mem_cons, List.not_mem_nil, or_false, Set.mem_ofPred_eq] at ha hb
    rcases ha with rfl | rfl | rfl <;> rcases hb with rfl | rfl | rfl <;>
      first | rfl | (exfalso; revert h; decide)
  · intro i hi
    simp only [List.mem_cons, List.not_mem_nil, or_false] at hi
    rcases hi with rfl | rfl | rfl <;> decide

/-- **Shamir reconstruction**: Lagrange interpolation at zero over any `≥ t` distinct nodes returns
the constant term of a polynomial of degree `< t` (`shamir.Reconstruct`, `Model.Sharing.shamirReconstruct`;
the summands are the additive shares of `Share.ToAdditive`). -/
theorem shamir_reconstruct (t : ℕ) (f : F[X]) (hf : f.degree < t) (T : Finset ℕ)
    (hid : Set.InjOn (Nat.cast : ℕ → F) T) (hT : t ≤ T.card) :
    ∑ i ∈ T, (Lagrange.basis T (Nat.cast : ℕ → F) i).eval 0 * f.eval (i : F) = f.eval 0 :=
  lagrange_zero_sum T hid f (lt_of_lt_of_le hf (by exact_mod_cast hT))

example : (∑ i ∈ ({1, 3} : Finset ℕ), (Lagrange.basis {1, 3} (Nat.cast : ℕ → ZMod 7) i).eval 0 *
    (C 4 + C 5 * X : (ZMod 7)[X]).eval (i : ZMod 7)) = (C 4 + C 5 * X : (ZMod 7)[X]).eval 0 := by
  refine shamir_reconstruct 2 _ ?_ {1, 3} ?_ (by decide)
  · refine lt_of_le_of_lt (degree_add_le _ _) ?_
    refine max_lt (lt_of_le_of_lt degree_C_le (by norm_num)) ?_
    exact lt_of_le_of_lt (degree_C_mul_X_le _) (by norm_num)
  · intro a ha b hb h
    simp only [Finset.coe_insert, Finset.coe_singleton, Set.mem_insert_iff, Set.mem_singleton_iff] at ha hb
    rcases ha with rfl | rfl <;> rcases hb with rfl | rfl <;>
      first | rfl | (exfalso; revert h; decide)

/-- **Shamir privacy**: for fewer than `t` non-zero nodes there is a polynomial of degree `< t`
with value 1 at zero vanishing on all of them; adding a multiple of it changes the secret
arbitrarily and none of the shares of `S`. -/
theorem shamir_privacy (t : ℕ) (S : Finset ℕ) (h0 : ∀ i ∈ S, (i : F) ≠ 0) (hS : S.card < t)
    (f : F[X]) (hf : f.natDegree < t) (s' : F) :
    ∃ g : F[X], g.natDegree < t ∧ g.eval 0 = s' ∧ ∀ i ∈ S, g.eval (i : F) = f.eval (i : F) := by
  refine ⟨f + C (s' - f.eval 0) * killPoly S, ?_, ?_, ?_⟩
  · refine lt_of_le_of_lt (natDegree_add_le _ _) (max_lt hf ?_)
    exact lt_of_le_of_lt (natDegree_C_mul_le _ _) (lt_of_le_of_lt (killPoly_natDegree S) hS)
  · simp [killPoly_eval_zero]
  · intro i hi; simp [killPoly_eval_node S h0 i hi]

example : ∃ g : (ZMod 7)[X], g.natDegree < 2 ∧ g.eval 0 = 6 ∧
    ∀ i ∈ ({3} : Finset ℕ), g.eval (i : ZMod 7) = (C 4 + C 5 * X : (ZMod 7)[X]).eval (i : ZMod 7) :=
  shamir_privacy (F := ZMod 7) 2 {3}
    (by intro i hi; simp only [Finset.mem_singleton] at hi; subst hi; decide)
    (by decide) (C 4 + C 5 * X)
    (lt_of_le_of_lt (by compute_degree : (C 4 + C 5 * X : (ZMod 7)[X]).natDegree ≤ 1) (by norm_num)) 6

end Threshold

/-! ## exactly the qualified sets: CNF and unanimity (clause vectors) -/

section Clauses
variable {F : Type*} [Field F]

/-- **CNF.** Maximal unqualified sets `T j` (`j : Option κ`, `none` the last one in the Go order),
rows = pairs (clause `j`, holder `p ∉ T j`) carrying the clause vector of `j`
(`cnf.InducedMSP`, `Model.Access.cnfMSP`).  The rows owned by a set `S` of holders span the target
iff `S` is contained in no `T j`, i.e. iff `S` is qualified. -/
theorem accepts_iff_qualified_cnf {ι κ : Type*} [Fintype ι] [DecidableEq ι] [Fintype κ]
    [DecidableEq κ] (T : Option κ → Finset ι) (S : Finset ι) :
    (∃ c : {x : Option κ × ι // x.2 ∉ T x.1} → F, (∀ x, x.1.2 ∉ S → c x = 0) ∧
        c ᵥ* clauseMatrix (fun x : {x : Option κ × ι // x.2 ∉ T x.1} => x.1.1) = Pi.single none 1) ↔
      ∀ j, ¬ S ⊆ T j := by
  classical
  have key := clause_accepts_iff (F := F)
    (fun x : {x : Option κ × ι // x.2 ∉ T x.1} => x.1.1) (Finset.univ.filter fun x => x.1.2 ∈ S)
  have hsupp : ∀ c : {x : Option κ × ι // x.2 ∉ T x.1} → F,
      (∀ x, x.1.2 ∉ S → c x = 0) ↔ ∀ r ∉ Finset.univ.filter (fun x : {x : Option κ × ι // x.2 ∉ T x.1} => x.1.2 ∈ S), c r = 0 := by
    intro c; simp
  simp only [hsupp]
  rw [key]
  refine forall_congr' fun j => ?_
  rw [Finset.not_subset]
  constructor
  · rintro ⟨x, hx, rfl⟩
    exact ⟨x.1.2, (Finset.mem_filter.mp hx).2, x.2⟩
  · rintro ⟨p, hpS, hpT⟩
    exact ⟨⟨(j, p), hpT⟩, by simp [hpS], rfl⟩

/-- non-vacuity: holders `{0,1,2}`, maximal unqualified sets `{0}` and `{1}`; `{0,1}` is accepted -/
example : ∃ c : {x : Option (Fin 1) × Fin 3 // x.2 ∉ T2 x.1} → ZMod 7,
    (∀ x, x.1.2 ∉ ({0, 1} : Finset (Fin 3)) → c x = 0) ∧
    c ᵥ* clauseMatrix (fun x : {x : Option (Fin 1) × Fin 3 // x.2 ∉ T2 x.1} => x.1.1) = Pi.single none 1 :=
  (accepts_iff_qualified_cnf (F := ZMod 7) T2 {0, 1}).mpr (by decide)

/-- **Unanimity.** The `n × n` programme of `unanimity.InducedMSP` (`Model.Access.unanimityMSP`) is
the clause matrix with exactly one row per clause: a set of rows spans the target iff it is
everything. -/
theorem accepts_iff_qualified_unanimity {κ : Type*} [Fintype κ] [DecidableEq κ]
    (R : Finset (Option κ)) :
    (∃ c : Option κ → F, (∀ r ∉ R, c r = 0) ∧
        c ᵥ* clauseMatrix (fun r : Option κ => r) = Pi.single none 1) ↔ R = Finset.univ := by
  rw [clause_accepts_iff]
  constructor
  · intro h; ext j; obtain ⟨r, hr, rfl⟩ := h j; simp [hr]
  · rintro rfl j; exact ⟨j, Finset.mem_univ _, rfl⟩

example : ∃ c : Option (Fin 2) → ZMod 7, (∀ r ∉ (Finset.univ : Finset (Option (Fin 2))), c r = 0) ∧
    c ᵥ* clauseMatrix (fun r : Option (Fin 2) => r) = Pi.single none 1 :=
  (accepts_iff_qualified_unanimity _).mpr rfl

/-! ### the same for the executable model -/

open BronVerif.Access in
/-- **Unanimity, for the executable model**: under the constructor's guards (at least two distinct
IDs) the programme `unanimityMSP` the driver builds (mirror of `unanimity.InducedMSP`) accepts a set
`S` of shareholders, as decided by the mirrored solver, iff the policy declares it qualified (`S`
is everybody).  No hypothesis on the field. -/
theorem model_accepts_iff_qualified_unanimity {F : Type} [Field F] [DecidableEq F] (ids S : List ℕ)
    (hv : (Policy.unanimity ids).validate = .ok ()) (hS : ∀ i ∈ S, i ∈ ids) :
    (unanimityMSP (F := F) ids).accepts S = (Policy.unanimity ids).isQualified S := by
  have hlen : 2 ≤ (dedup ids).length := by
    simp only [Policy.validate] at hv
    by_contra hlt
    have : (dedup ids).length < 2 := by omega
    split_ifs at hv
  have hn : 0 < (sortedSet ids).length := by
    rw [BronVerif.Lemmas.SharingThreshold.length_sortedSet]; omega
  rw [BronVerif.Lemmas.SharingClause.unanimityMSP_accepts ids S hn hS]
  unfold Policy.isQualified sameSet subset
  rw [Bool.eq_iff_iff]
  simp only [decide_eq_true_iff, Bool.and_eq_true, List.all_eq_true, List.contains_iff_mem,
    BronVerif.Lemmas.SharingThreshold.mem_dedup]
  exact ⟨fun h => ⟨hS, h⟩, fun h => h.2⟩

open BronVerif.Access in
/-- **CNF, for the executable model**: the programme `cnfMSP` the driver builds (mirror of
`cnf.InducedMSP`: maximal unqualified sets normalised and ordered by bit mask, one row per clause
member) accepts a set `S` of shareholders iff the policy declares it qualified (`S` is contained in
no maximal unqualified set) — for sets all of whose members own a row, i.e. lie outside some maximal
unqualified set.  (A shareholder inside every maximal unqualified set owns no row and no set
containing it is accepted: the recorded finding `holder-without-rows`; the hypothesis `hrows` is
exactly its boundary.)  No hypothesis on the field. -/
theorem model_accepts_iff_qualified_cnf {F : Type} [Field F] [DecidableEq F] (sets : List (List ℕ))
    (S : List ℕ) (hne : cnfNormalise sets ≠ [])
    (hS : ∀ id ∈ S, id ∈ (cnfNormalise sets).flatten)
    (hrows : ∀ id ∈ S, ∃ u ∈ cnfNormalise sets, id ∉ u) :
    (cnfMSP (F := F) sets).accepts S = (Policy.cnf sets).isQualified S := by
  rw [BronVerif.Lemmas.SharingClause.cnfMSP_accepts sets S hne hS hrows]
  unfold Policy.isQualified subset
  rw [Bool.eq_iff_iff]
  simp only [decide_eq_true_iff, Bool.and_eq_true, List.all_eq_true, List.contains_iff_mem,
    BronVerif.Lemmas.SharingThreshold.mem_dedup, Bool.not_eq_eq_eq_not,
    Bool.not_true, List.all_eq_false]
  constructor
  · intro h
    refine ⟨hS, fun u hu => ?_⟩
    obtain ⟨id, hid, hnot⟩ := h u hu
    exact ⟨id, hid, hnot⟩
  · rintro ⟨-, h⟩ u hu
    obtain ⟨id, hid, hnot⟩ := h u hu
    exact ⟨id, hid, hnot⟩

/-- non-vacuity: unanimity over `[1,2,3]`, field `ZMod 7`: everybody together is accepted, `[1,3]` is not -/
example : (BronVerif.Access.unanimityMSP (F := ZMod 7) [1, 2, 3]).accepts [3, 1, 2] = true := by
  rw [model_accepts_iff_qualified_unanimity (F := ZMod 7) [1, 2, 3] [3, 1, 2] (by decide) (by decide)]
  decide

example : (BronVerif.Access.unanimityMSP (F := ZMod 7) [1, 2, 3]).accepts [1, 3] = false := by
  rw [model_accepts_iff_qualified_unanimity (F := ZMod 7) [1, 2, 3] [1, 3] (by decide) (by decide)]
  decide

/-- the maximal unqualified sets `{1,2}`, `{2,3}` are already normalised -/
theorem cnfNormalise_example :
    BronVerif.Access.cnfNormalise [[1, 2], [2, 3]] = [[1, 2], [2, 3]] := by
  have h12 : BronVerif.Access.sortedSet [1, 2] = [1, 2] :=
    BronVerif.Lemmas.SharingThreshold.sortedSet_of_sorted _ (by decide) (by decide)
  have h23 : BronVerif.Access.sortedSet [2, 3] = [2, 3] :=
    BronVerif.Lemmas.SharingThreshold.sortedSet_of_sorted _ (by decide) (by decide)
  unfold BronVerif.Access.cnfNormalise
  simp only [List.foldl_cons, List.foldl_nil, List.any_nil, Bool.false_eq_true, if_false,
    List.nil_append, h12]
  have : ([[1, 2]] : List (List ℕ)).any (BronVerif.Access.sameSet [2, 3]) = false := by decide
  simp only [this, Bool.false_eq_true, if_false, h23]
  decide

/-- non-vacuity: CNF with maximal unqualified sets `{1,2}`, `{2,3}` over `ZMod 7`: `{1,3}` lies in
neither and is accepted; `{1}` lies in the first and is rejected (holder 2, inside both, owns no row) -/
example : (BronVerif.Access.cnfMSP (F := ZMod 7) [[1, 2], [2, 3]]).accepts [1, 3] = true := by
  rw [model_accepts_iff_qualified_cnf (F := ZMod 7) [[1, 2], [2, 3]] [1, 3]
    (by rw [cnfNormalise_example]; decide) (by rw [cnfNormalise_example]; decide)
    (by rw [cnfNormalise_example]; decide)]
  unfold BronVerif.Access.Policy.isQualified
  simp only [cnfNormalise_example]
  decide

example : (BronVerif.Access.cnfMSP (F := ZMod 7) [[1, 2], [2, 3]]).accepts [1] = false := by
  rw [model_accepts_iff_qualified_cnf (F := ZMod 7) [[1, 2], [2, 3]] [1]
    (by rw [cnfNormalise_example]; decide) (by rw [cnfNormalise_example]; decide)
    (by rw [cnfNormalise_example]; decide)]
  unfold BronVerif.Access.Policy.isQualified
  simp only [cnfNormalise_example]
  decide

/-! ## ISN (replicated additive pieces, one per maximal unqualified set) -/

/-- **ISN reconstruction**: holder `p` knows piece `j` iff `p ∉ T j`; a set contained in no `T j`
knows every piece, so the pieces it knows sum to the secret. -/
theorem isn_reconstruct {ι κ : Type*} [Fintype κ] [DecidableEq ι] (T : κ → Finset ι)
    (piece : κ → F) (S : Finset ι) (hq : ∀ j, ¬ S ⊆ T j) [DecidablePred fun j => ∃ p ∈ S, p ∉ T j] :
    ∑ j ∈ Finset.univ.filter (fun j => ∃ p ∈ S, p ∉ T j), piece j = ∑ j, piece j := by
  congr 1
  ext j
  simpa using Finset.not_subset.mp (hq j)

/-- **ISN privacy**: a set inside some `T j₀` never sees piece `j₀`; for every other secret `s'`
there are pieces with that sum agreeing with all pieces the set sees. -/
theorem isn_privacy {ι κ : Type*} [Fintype κ] [DecidableEq κ] (T : κ → Finset ι)
    (piece : κ → F) (S : Finset ι) (j₀ : κ) (hS : S ⊆ T j₀) (s' : F) :
    ∃ piece' : κ → F, ∑ j, piece' j = s' ∧ ∀ j, (∃ p ∈ S, p ∉ T j) → piece' j = piece j := by
  refine ⟨Function.update piece j₀ (piece j₀ + (s' - ∑ j, piece j)), ?_, ?_⟩
  · rw [Finset.sum_update_of_mem (Finset.mem_univ _)]
    have := Finset.add_sum_erase Finset.univ piece (Finset.mem_univ j₀)
    rw [Finset.sdiff_singleton_eq_erase]
    linear_combination this
  · rintro j ⟨p, hp, hpT⟩
    have : j ≠ j₀ := fun h => hpT (h ▸ hS hp)
    simp [Function.update_of_ne this]

/-- **ISN additive conversion**: every piece is claimed by exactly one holder of the quorum (its
pivot); the per-holder sums add up to the secret. -/
theorem isn_additive {ι κ : Type*} [Fintype κ] [DecidableEq ι] (piece : κ → F) (Q : Finset ι)
    (pivot : κ → ι) (hp : ∀ j, pivot j ∈ Q) :
    ∑ p ∈ Q, ∑ j ∈ Finset.univ.filter (fun j => pivot j = p), piece j = ∑ j, piece j :=
  Finset.sum_fiberwise_of_maps_to (fun j _ => hp j) piece

example : ∑ j ∈ Finset.univ.filter (fun j : Fin 2 => ∃ p ∈ ({0, 1} : Finset (Fin 3)), p ∉ T2' j),
    (![3, 5] : Fin 2 → ZMod 7) j = ∑ j, (![3, 5] : Fin 2 → ZMod 7) j :=
  isn_reconstruct T2' ![3, 5] {0, 1} (by decide)

example : ∃ piece' : Fin 2 → ZMod 7, ∑ j, piece' j = 6 ∧
    ∀ j, (∃ p ∈ ({0} : Finset (Fin 3)), p ∉ T2' j) → piece' j = (![3, 5] : Fin 2 → ZMod 7) j :=
  isn_privacy T2' ![3, 5] {0} 0 (by decide) 6

example : ∑ p ∈ ({0, 1} : Finset (Fin 3)), ∑ j ∈ Finset.univ.filter (fun j : Fin 2 => (![1, 0] : Fin 2 → Fin 3) j = p),
    (![3, 5] : Fin 2 → ZMod 7) j = ∑ j, (![3, 5] : Fin 2 → ZMod 7) j :=
  isn_additive ![3, 5] {0, 1} ![1, 0] (by decide)

end Clauses

/-! ## gate trees (Liu–Cao–Wong) and hierarchical (Birkhoff) — partial -/

section Partial
open BronVerif.Access

/-- Full statement for gate trees, about the model's `treeMSP` (= `boolexpr.InducedMSP`): over a
field in which the child positions `0..n` are distinct, the programme accepts exactly the sets of
shareholders on which the tree evaluates to true.  **Proved**: `lcw_holds` below (arbitrary nesting of
AND/OR/threshold gates, shareholders labelling several leaves included). -/
def lcw_statement (F : Type) [Field F] [DecidableEq F] : Prop :=
  ∀ root : Tree, root.valid = true →
    Set.InjOn (Nat.cast : ℕ → F) (Finset.range (root.size + 1)) →
    ∀ S : List ℕ, S.all (root.leaves.contains ·) = true →
      (treeMSP (F := F) root).accepts S = root.eval S

/-- Proved part of `lcw_statement`: a single threshold gate over leaves at child positions `1..n`
(the first insertion step of Liu–Cao–Wong; `t = 1` is OR, `t = n` is AND).  Its rows are
`[1, x, …, x^(t-1)]` with `x` the child position, and a set of children spans `e₀` iff it has at
least `t` members.  (Kept as the Mathlib-matrix form of one gate; the full statement is `lcw_holds`.) -/
theorem lcw_single_gate_partial {F : Type*} [Field F] (t n : ℕ) (ht : 0 < t)
    (hinj : Set.InjOn (Nat.cast : ℕ → F) (Finset.Icc 0 n))
    (S : Finset ℕ) (hS : S ⊆ Finset.Icc 1 n) :
    (∃ c : S → F, c ᵥ* vandermondeRows t S = Pi.single ⟨0, ht⟩ 1) ↔ t ≤ S.card := by
  have hsub : ∀ i ∈ S, i ∈ Finset.Icc 0 n ∧ 1 ≤ i := fun i hi => by
    have := Finset.mem_Icc.mp (hS hi); exact ⟨Finset.mem_Icc.mpr ⟨by omega, this.2⟩, this.1⟩
  refine vandermonde_accepts_iff t ht S (fun a ha b hb h => hinj (hsub a ha).1 (hsub b hb).1 h) ?_
  intro i hi hz
  have h0 : (0 : ℕ) ∈ (Finset.Icc 0 n : Finset ℕ) := Finset.mem_Icc.mpr ⟨le_refl _, by omega⟩
  have := hinj (hsub i hi).1 h0 (by simpa using hz)
  have := (hsub i hi).2
  omega

/-- non-vacuity: a 2-of-3 gate over `ZMod 7`, children 1 and 3 present -/
example : ∃ c : (({1, 3} : Finset ℕ)) → ZMod 7,
    c ᵥ* vandermondeRows 2 {1, 3} = Pi.single ⟨0, by omega⟩ 1 := by
  refine (lcw_single_gate_partial (F := ZMod 7) 2 3 (by omega) ?_ {1, 3} (by decide)).mpr (by decide)
  intro a ha b hb h
  have ha' := Finset.mem_Icc.mp ha
  have hb' := Finset.mem_Icc.mp hb
  obtain ⟨_, ha2⟩ := ha'
  obtain ⟨_, hb2⟩ := hb'
  interval_cases a <;> interval_cases b <;> first | rfl | (exfalso; revert h; decide)

/-- **Liu–Cao–Wong, full statement, for the executable model.**  For every gate tree the
constructor accepts (`Tree.valid`: positive ids, `0 < t ≤ #children`, no repeated leaf under one
gate) — AND, OR and threshold gates nested to any depth, the same shareholder at any number of
leaves — over a field in which the child positions `0 … size` are distinct, the programme
`treeMSP root` that the driver builds (mirror of `boolexpr.convert`, Algorithm 1 of Liu–Cao–Wong)
accepts a set `S` of shareholders, as decided by the mirrored solver, iff the tree evaluates to
true on `S`.  Proof: `Lemmas/SharingTree.lean` (semantic invariant over `lcwRun`: the rows whose
node evaluates to true span `e₀`; one insertion step = `Lemmas/SharingInsert.insert_spans`). -/
theorem lcw_holds (F : Type) [Field F] [DecidableEq F] : lcw_statement F := by
  intro root hv hinj S hS
  have hok := BronVerif.Lemmas.SharingTree.treeOK_of_valid (F := F) root.size hinj root le_rfl hv
  refine BronVerif.Lemmas.SharingTree.treeMSP_accepts root hok S ?_
  intro id hid
  have := (List.all_eq_true.mp hS) id hid
  simpa using this

/-- the gate-tree programme accepts exactly the qualified sets (`Policy.isQualified` of a tree policy
is `Tree.eval`) -/
theorem model_accepts_iff_qualified_tree {F : Type} [Field F] [DecidableEq F] (root : Tree)
    (hv : (Policy.tree root).validate = .ok ())
    (hinj : Set.InjOn (Nat.cast : ℕ → F) (Finset.range (root.size + 1)))
    (S : List ℕ) (hnd : S.Nodup) (hS : ∀ id ∈ S, id ∈ root.leaves) :
    (treeMSP (F := F) root).accepts S = (Policy.tree root).isQualified S := by
  have hvalid : root.valid = true := by
    unfold Policy.validate at hv
    by_contra h
    simp [h] at hv
  have hdd : dedup S = S := by
    unfold dedup
    induction S with
    | nil => rfl
    | cons a S ih =>
      rw [List.eraseDups_cons]
      have ha : a ∉ S := (List.nodup_cons.mp hnd).1
      have hf : S.filter (fun b => !b == a) = S := by
        rw [List.filter_eq_self]
        intro b hb
        have : b ≠ a := fun h => ha (h ▸ hb)
        simpa using this
      rw [hf, ih (List.nodup_cons.mp hnd).2 (fun id hid => hS id (List.mem_cons_of_mem _ hid))]
  unfold Policy.isQualified
  simp only [hdd]
  exact lcw_holds F root hvalid hinj S (List.all_eq_true.mpr fun id hid => by simpa using hS id hid)

/-- non-vacuity: a 2-of-3 gate whose third child is an AND of the (repeated) leaf 1 and leaf 4, over
`ZMod 7`: `{1,4}` satisfies the tree (leaf 1 and the AND gate) and is accepted -/
example : (treeMSP (F := ZMod 7) (.gate 2 [.leaf 1, .leaf 2, .gate 2 [.leaf 1, .leaf 4]])).accepts [1, 4]
    = true := by
  rw [lcw_holds (ZMod 7) (.gate 2 [.leaf 1, .leaf 2, .gate 2 [.leaf 1, .leaf 4]]) (by decide) ?_ [1, 4]
    (by decide)]
  · decide
  · intro a ha b hb h
    have ha' : a < 7 := by
      have : (Tree.gate 2 [.leaf 1, .leaf 2, .gate 2 [.leaf 1, .leaf 4]]).size = 6 := by decide
      simpa [this] using ha
    have hb' : b < 7 := by
      have : (Tree.gate 2 [.leaf 1, .leaf 2, .gate 2 [.leaf 1, .leaf 4]]).size = 6 := by decide
      simpa [this] using hb
    interval_cases a <;> interval_cases b <;> first | rfl | (exfalso; revert h; decide)

example : (treeMSP (F := ZMod 7) (.gate 2 [.leaf 1, .leaf 2, .gate 2 [.leaf 1, .leaf 4]])).accepts [1, 4]
    = true := by decide +kernel
example : (treeMSP (F := ZMod 7) (.gate 2 [.leaf 1, .leaf 2, .gate 2 [.leaf 1, .leaf 4]])).accepts [4]
    = false := by decide +kernel

/-- Full statement for hierarchical conjunctive thresholds, about the model's `hierMSP`
(= `hierarchical.InducedMSP`, Birkhoff–Vandermonde rows) under the constructor's checks and
`CheckConstraints` for a field with `q` elements.  **Not proved** (it needs Tassa's Theorem 3: the
field-size condition makes every Birkhoff matrix satisfying Pólya's condition non-singular);
established per instance by the C02 driver (op `oracle` and `accepts` on every subset).  Proved
around it: `hier_qualified_accepted_partial` (accepted, given a non-singular square selection of
rows), `hier_unqualified_rejected` (every set violating some level threshold is rejected, given a
kernel vector for its rows of the levels up to the violated one — equivalently
`kernel_of_det_ne_zero`, given a non-singular completion containing the target row),
`model_hier_rejects_first_level` (the executable programme rejects every set below the first
threshold, with no extra hypothesis), `model_accepts_of_det` (the executable programme accepts a set
whose square row matrix has non-zero determinant), `hier_two_level_unisolvent` (two levels with
increasing identifiers: non-singular over ℝ). -/
def hier_statement (F : Type) [Field F] [DecidableEq F] [Fintype F] : Prop :=
  ∀ levels : List (Int × List ℕ), (Policy.hier levels).validate = .ok () →
    hierCheck (Fintype.card F) levels = .ok () →
    ∀ S : List ℕ, S.all ((Policy.hier levels).shareholders.contains ·) = true →
      (hierMSP (F := F) levels).accepts S = (Policy.hier levels).isQualified S

/-- Proved part of the "qualified ⇒ accepted" direction of `hier_statement` (and of any other
family): if some `d` rows of the set `S` form a non-singular `d × d` matrix — for the Birkhoff rows
of a qualified set this is what Tassa's theorem supplies — then `S` is accepted. -/
theorem hier_qualified_accepted_partial {F : Type*} [Field F] {ρ : Type*} [Fintype ρ]
    [DecidableEq ρ] {d : ℕ} (M : Matrix ρ (Fin d) F) (z : Fin d) (S : Finset ρ) (e : Fin d → ρ)
    (he : ∀ k, e k ∈ S) (hdet : (M.submatrix e id).det ≠ 0) :
    ∃ c : ρ → F, (∀ i ∉ S, c i = 0) ∧ c ᵥ* M = Pi.single z 1 := by
  set A := M.submatrix e id with hA
  have hunit : IsUnit A.det := isUnit_iff_ne_zero.mpr hdet
  let c' : Fin d → F := (Pi.single z 1) ᵥ* A⁻¹
  have hc' : c' ᵥ* A = Pi.single z 1 := by
    simp only [c', vecMul_vecMul, Matrix.nonsing_inv_mul A hunit, vecMul_one]
  refine ⟨fun i => ∑ k, if e k = i then c' k else 0, ?_, ?_⟩
  · intro i hi
    refine Finset.sum_eq_zero fun k _ => ?_
    have : e k ≠ i := fun h => hi (h ▸ he k)
    simp [this]
  · rw [← hc']
    ext j
    simp only [vecMul, dotProduct, Finset.sum_mul, hA, submatrix_apply, id]
    rw [Finset.sum_comm]
    refine Finset.sum_congr rfl fun k _ => ?_
    simp [ite_mul]

/-- non-vacuity: rows 0 and 1 of the (2,3) programme over `ZMod 7` form a non-singular square -/
example : ∃ c : Fin 3 → ZMod 7, (∀ i ∉ ({0, 1} : Finset (Fin 3)), c i = 0) ∧ c ᵥ* M23 = Pi.single 0 1 :=
  hier_qualified_accepted_partial M23 0 {0, 1} ![0, 1] (by decide) (by decide)

/-- **Hierarchical, every unqualified set is rejected — the part that needs no Birkhoff theory.**
`M` is the programme, `S` the rows of a set violating the threshold `t` of some level, `S₀ ⊆ S` its
rows of derivative order `< t` (members of the levels up to the violated one; fewer than `t` of
them), `low` the first `t` columns.  The rows of `S \ S₀` have order `≥ t`, so they vanish on the low
columns (`Lemmas.SharingHier.birkhoffEntry_of_lt` for the model's entries).  If the rows of `S₀`
have a common kernel vector `k` supported on the low columns with `k_z = 1` — a polynomial of
degree `< t` with constant term 1 satisfying the fewer than `t` Birkhoff conditions of `S₀`; this
existence is what Tassa's Theorem 3 supplies under `CheckConstraints`, `kernel_of_det_ne_zero`
derives it from a non-singular completion that contains the target row — then no combination of
the rows of `S` gives the target.  Missing for `hier_statement`: the existence of `k` at the levels
after the first (named gap: Tassa, Theorem 3); for the first level it is unconditional, see
`model_hier_rejects_first_level`. -/
theorem hier_unqualified_rejected {F : Type*} [Field F] {ρ δ : Type*} [Fintype ρ] [Fintype δ]
    [DecidableEq δ] (M : Matrix ρ δ F) (z : δ) (S S₀ : Finset ρ) (low : δ → Prop)
    (hzero : ∀ r ∈ S, r ∉ S₀ → ∀ j, low j → M r j = 0)
    (k : δ → F) (hk0 : k z = 1) (hkhigh : ∀ j, ¬ low j → k j = 0)
    (hker : ∀ r ∈ S₀, M r ⬝ᵥ k = 0) :
    ¬ ∃ c : ρ → F, (∀ r ∉ S, c r = 0) ∧ c ᵥ* M = Pi.single z 1 := by
  rintro ⟨c, hsupp, hc⟩
  have hrow : ∀ r ∈ S, (M *ᵥ k) r = 0 := by
    intro r hr
    by_cases hr0 : r ∈ S₀
    · exact hker r hr0
    · simp only [mulVec, dotProduct]
      refine Finset.sum_eq_zero fun j _ => ?_
      by_cases hl : low j
      · rw [hzero r hr hr0 j hl, zero_mul]
      · rw [hkhigh j hl, mul_zero]
  have h1 : c ⬝ᵥ (M *ᵥ k) = 0 := by
    simp only [dotProduct]
    refine Finset.sum_eq_zero fun r _ => ?_
    by_cases hr : r ∈ S
    · rw [hrow r hr, mul_zero]
    · rw [hsupp r hr, zero_mul]
  rw [dotProduct_mulVec, hc, single_one_dotProduct, hk0] at h1
  exact one_ne_zero h1

/-- the kernel vector of `hier_unqualified_rejected` from a non-singular completion: if a square
matrix whose row 0 is the target `e₀` is non-singular (for Birkhoff rows: Tassa's Theorem 3 applied
to the set together with a phantom dealer node `0` of order 0), there is `k` with `k₀ = 1` that every
other row annihilates -/
theorem kernel_of_det_ne_zero {F : Type*} [Field F] {n : ℕ} (N : Matrix (Fin (n + 1)) (Fin (n + 1)) F)
    (hdet : N.det ≠ 0) (h0 : N 0 = Pi.single 0 1) :
    ∃ k : Fin (n + 1) → F, k 0 = 1 ∧ ∀ i, i ≠ 0 → N i ⬝ᵥ k = 0 := by
  have hunit : IsUnit N.det := isUnit_iff_ne_zero.mpr hdet
  refine ⟨N⁻¹ *ᵥ Pi.single 0 1, ?_, ?_⟩
  · have h : (N *ᵥ (N⁻¹ *ᵥ Pi.single 0 1)) 0 = 1 := by
      rw [mulVec_mulVec, Matrix.mul_nonsing_inv N hunit, one_mulVec]; simp
    simp only [mulVec] at h
    rw [h0, single_one_dotProduct] at h
    exact h
  · intro i hi
    have h : (N *ᵥ (N⁻¹ *ᵥ Pi.single 0 1)) i = 0 := by
      rw [mulVec_mulVec, Matrix.mul_nonsing_inv N hunit, one_mulVec]; simp [hi]
    exact h

/-- non-vacuity: over `ZMod 7`, levels `{1}` (threshold 2) and `{2}` (threshold 3): the rows of the
set `{1, 2}` are `(1,1,1)` (id 1, order 0) and `(0,0,2)` (id 2, order 2); the set has one member of
the first level instead of two, the second row vanishes on the first two columns, `k = (1,-1,0)`
kills the first row: the set is rejected -/
example : ¬ ∃ c : Fin 2 → ZMod 7, (∀ r ∉ (Finset.univ : Finset (Fin 2)), c r = 0) ∧
    c ᵥ* (!![1, 1, 1; 0, 0, 2] : Matrix (Fin 2) (Fin 3) (ZMod 7)) = Pi.single 0 1 :=
  hier_unqualified_rejected _ 0 Finset.univ {0} (fun j => (j : ℕ) < 2)
    (by
      intro r _ hr j hj
      fin_cases r
      · simp at hr
      · fin_cases j <;> simp_all)
    ![1, -1, 0] (by decide)
    (by intro j hj; fin_cases j <;> simp_all)
    (by intro r hr; fin_cases r <;> simp_all [dotProduct, Fin.sum_univ_three])

example : ∃ k : Fin 2 → ZMod 7, k 0 = 1 ∧ ∀ i, i ≠ 0 →
    (!![1, 0; 1, 3] : Matrix (Fin 2) (Fin 2) (ZMod 7)) i ⬝ᵥ k = 0 :=
  kernel_of_det_ne_zero _ (by decide) (by decide)

/-- **Hierarchical, first level, for the executable model — unconditional.**  Levels
`(t₀, ids₀) :: rest` with `0 < t₀` and later thresholds at least `t₀` (the constructor demands
strictly increasing thresholds), shareholder IDs distinct and non-zero as field elements: the
programme the driver builds (`hierMSP`, mirror of `hierarchical.InducedMSP`) and tests with the
mirrored solver rejects every set `S` of shareholders that has fewer than `t₀` members of the first
level.  No field-size condition and no Birkhoff theory is needed for this level. -/
theorem model_hier_rejects_first_level {F : Type} [Field F] [DecidableEq F] (t0 : Int)
    (ids0 : List ℕ) (rest : List (Int × List ℕ)) (S : List ℕ) (ht0 : 0 < t0)
    (hmono : ∀ l ∈ rest, t0 ≤ l.1)
    (hid : Set.InjOn (Nat.cast : ℕ → F) {i | i ∈ (((t0, ids0) :: rest).map (·.2)).flatten})
    (h0 : ∀ i : ℕ, i ∈ (((t0, ids0) :: rest).map (·.2)).flatten → (i : F) ≠ 0)
    (hS : ∀ i ∈ S, i ∈ (((t0, ids0) :: rest).map (·.2)).flatten)
    (hfew : (S.toFinset ∩ ids0.toFinset).card < t0.toNat) :
    (hierMSP (F := F) ((t0, ids0) :: rest)).accepts S = false := by
  refine BronVerif.Lemmas.SharingHier.hierMSP_rejects_first_level t0 ids0 rest S ht0 hmono hid h0 hS ?_
  have hnd := (BronVerif.Lemmas.SharingThreshold.nodup_sortedSet
    ((((t0, ids0) :: rest).map (·.2)).flatten)).filter (fun id => S.contains id && ids0.contains id)
  rw [← List.toFinset_card_of_nodup hnd]
  refine lt_of_le_of_lt (Finset.card_le_card ?_) hfew
  intro a ha
  simp only [List.mem_toFinset, List.mem_filter, Bool.and_eq_true, List.contains_iff_mem] at ha
  simp only [Finset.mem_inter, List.mem_toFinset]
  exact ha.2

/-- non-vacuity: levels `{1,2}` (threshold 2) and `{3}` (threshold 3) over `ZMod 7`; the set `{1,3}`
has one member of the first level and is rejected -/
example : (hierMSP (F := ZMod 7) [(2, [1, 2]), (3, [3])]).accepts [1, 3] = false := by
  refine model_hier_rejects_first_level (F := ZMod 7) 2 [1, 2] [(3, [3])] [1, 3] (by decide)
    (by decide) ?_ ?_ (by decide) (by decide)
  · intro a ha b hb h
    simp only [List.map_cons, List.map_nil, List.flatten_cons, List.flatten_nil, List.append_nil,
      List.cons_append, List.nil_append, List.mem_cons, List.not_mem_nil, or_false,
      Set.mem_ofPred_eq] at ha hb
    rcases ha with rfl | rfl | rfl <;> rcases hb with rfl | rfl | rfl <;>
      first | rfl | (exfalso; revert h; decide)
  · intro i hi
    simp only [List.map_cons, List.map_nil, List.flatten_cons, List.flatten_nil, List.append_nil,
      List.cons_append, List.nil_append, List.mem_cons, List.not_mem_nil, or_false] at hi
    rcases hi with rfl | rfl | rfl <;> decide

/-- **Accepted, given a non-zero Birkhoff determinant — for the executable model.**  If the rows of
the set `S` form a square matrix (as many rows as the programme has columns) whose determinant, as
computed by the model's `LinAlg.det` (mirror of `SquareMatrix.Determinant`, equal to `Matrix.det` by
`Lemmas.GaussJordanDet.det_eq_matrix_det`), is non-zero, then the mirrored solver accepts `S`.  For
`hierMSP` this is the "qualified ⇒ accepted" direction of `hier_statement` for minimal qualified
sets, given the non-singularity that Tassa's Theorem 3 supplies. -/
theorem model_accepts_of_det {F : Type} [Field F] [DecidableEq F] (m : MSP F) (S : List ℕ)
    (hS : ∀ id ∈ S, id ∈ m.holders) (hpos : 0 < m.cols) (hsq : (m.sub S).length = m.cols)
    (hw : ∀ row ∈ m.sub S, row.length = m.cols) (hdet : BronVerif.LinAlg.det (m.sub S) ≠ 0) :
    m.accepts S = true :=
  BronVerif.Lemmas.SharingBirkhoff.accepts_of_det_ne_zero m S hS hpos hsq hw hdet

/-- non-vacuity: levels `{1}` (threshold 1), `{2}` (threshold 2) over `ZMod 7`: rows `(1,1)` (id 1,
order 0) and `(0,1)` (id 2, order 1), determinant 1 -/
example : (({ mat := [[1, 1], [0, 1]], cols := 2, holders := [1, 2] } : MSP (ZMod 7))).accepts [1, 2] = true :=
  model_accepts_of_det _ [1, 2] (by decide) (by decide) (by decide +kernel) (by decide +kernel)
    (by decide +kernel)

/-- **Two levels, identifiers increasing from the first level to the second: the Birkhoff problem
is unisolvent over ℝ** (iterated Rolle).  `xs`: nodes of the first level (derivative order 0), `ys`:
nodes of the second level (order `t₀ ≤ |xs|`: a qualified set has at least `t₀` members of the first
level), every `x` below every `y` — the ordering `CheckConstraints` demands.  The only polynomial of
degree `< |xs| + |ys|` that vanishes at every `x` and whose `t₀`-th derivative vanishes at every `y`
is 0; equivalently the square Birkhoff–Vandermonde matrix of the nodes is non-singular over ℝ, hence
its integer determinant is non-zero.  This is the characteristic-0 half of Tassa's Theorem 3 for two
levels; what remains of the named gap is (a) more than two levels and (b) the passage to `F_q`
(`|det| < q` from the field-size condition, so the determinant stays non-zero modulo `q`). -/
theorem hier_two_level_unisolvent (xs ys : Finset ℝ) (t₀ : ℕ) (ht : t₀ ≤ xs.card)
    (hord : ∀ x ∈ xs, ∀ y ∈ ys, x < y) (f : ℝ[X]) (hdeg : f.natDegree < xs.card + ys.card)
    (hx : ∀ x ∈ xs, f.eval x = 0) (hy : ∀ y ∈ ys, (derivative^[t₀] f).eval y = 0) : f = 0 :=
  BronVerif.Lemmas.SharingBirkhoff.two_level_unisolvent xs ys t₀ ht hord f hdeg hx hy

/-- non-vacuity: first level `{1, 2}`, second level `{3}` with order 2 (threshold vector (2,3)):
a polynomial of degree `< 3` with `f(1) = f(2) = 0` and `f''(3) = 0` is zero -/
example (f : ℝ[X]) (hdeg : f.natDegree < 3) (h1 : f.eval 1 = 0) (h2 : f.eval 2 = 0)
    (h3 : (derivative^[2] f).eval 3 = 0) : f = 0 := by
  refine hier_two_level_unisolvent {1, 2} {3} 2 (by norm_num) ?_ f (by norm_num; exact hdeg) ?_ ?_
  · intro x hx y hy
    simp only [Finset.mem_insert, Finset.mem_singleton] at hx hy
    rcases hx with rfl | rfl <;> subst hy <;> norm_num
  · intro x hx
    simp only [Finset.mem_insert, Finset.mem_singleton] at hx
    rcases hx with rfl | rfl <;> assumption
  · intro y hy
    simp only [Finset.mem_singleton] at hy
    subst hy; exact h3

end Partial

/-! ## the executable scheme: dealing, reconstruction, linearity -/

section ModelScheme
open BronVerif.Access BronVerif.Sharing BronVerif.LinAlg
variable {F : Type} [Field F] [DecidableEq F]

/-- **Reconstruction, for the executable model** (`MSP.deal` = `kw.NewDealerFunc`, `λ = M·r`;
`MSP.reconstruct` = `kw.Scheme.Reconstruct` with the reconstruction vector of the mirrored solver):
for a programme whose rows all have `cols` entries, every set `S` the programme accepts reconstructs
the dealt secret `r₀` from its shares, whatever the rest of the random column `r` is.  Together with
`model_accepts_iff_qualified_threshold` / `lcw_holds` (accepted = qualified) this is "every qualified
set reconstructs the dealt secret" for threshold and gate-tree policies on the definitions the
driver runs. -/
theorem model_reconstruct (m : MSP F) (S : List ℕ) (r : List F)
    (hw : ∀ row ∈ m.mat, row.length = m.cols) (hr : r.length = m.cols) (hpos : 0 < m.cols)
    (hacc : m.accepts S = true) : m.reconstruct S (m.deal r) = some (r.getD 0 0) :=
  BronVerif.Lemmas.SharingDeal.reconstruct_deal m S r hw hr hpos hacc

/-- **Adding shares, for the executable model**: the share vector of `r + r'` is the sum of the share
vectors, and an accepted set reconstructs `r₀ + r'₀` from the added shares. -/
theorem model_share_add (m : MSP F) (S : List ℕ) (r r' : List F)
    (hw : ∀ row ∈ m.mat, row.length = m.cols) (hr : r.length = m.cols) (hr' : r'.length = m.cols)
    (hpos : 0 < m.cols) (hacc : m.accepts S = true) :
    vadd (m.deal r) (m.deal r') = m.deal (vadd r r') ∧
      m.reconstruct S (vadd (m.deal r) (m.deal r')) = some (r.getD 0 0 + r'.getD 0 0) := by
  have hadd := BronVerif.Lemmas.SharingDeal.deal_add m r r' (hr.trans hr'.symm)
  refine ⟨hadd.symm, ?_⟩
  rw [← hadd, model_reconstruct m S (vadd r r') hw (by simp [vadd, hr, hr']) hpos hacc]
  congr 1
  cases r with
  | nil => simp at hr; omega
  | cons a r =>
    cases r' with
    | nil => simp at hr'; omega
    | cons b r' => simp [vadd]

/-- **Scaling shares, for the executable model**: the share vector of `k·r` is `k` times the share
vector, and an accepted set reconstructs `k·r₀` from the scaled shares. -/
theorem model_share_smul (m : MSP F) (S : List ℕ) (k : F) (r : List F)
    (hw : ∀ row ∈ m.mat, row.length = m.cols) (hr : r.length = m.cols)
    (hpos : 0 < m.cols) (hacc : m.accepts S = true) :
    vsmul k (m.deal r) = m.deal (vsmul k r) ∧
      m.reconstruct S (vsmul k (m.deal r)) = some (k * r.getD 0 0) := by
  have hsm := BronVerif.Lemmas.SharingDeal.deal_smul m k r
  refine ⟨hsm.symm, ?_⟩
  rw [← hsm, model_reconstruct m S (vsmul k r) hw (by simp [vsmul, hr]) hpos hacc]
  congr 1
  cases r with
  | nil => simp at hr; omega
  | cons a r => simp [vsmul]

/-- **Privacy, for the executable model.**  If the programme rejects the set `S` of row owners
(`MSP.accepts S = false`: the mirrored solver, complete by `Props.C20.solveLeft_complete`, finds no
combination of the rows of `S` equal to `e₀` — by `model_accepts_iff_qualified_threshold` /
`lcw_holds` these are exactly the unqualified sets of threshold and gate-tree policies), then for
every candidate secret `s'` there is a random column `r'` with first entry `s'` that deals to `S`
exactly the shares `S` received from `r`: the shares `S` owns are consistent with every secret. -/
theorem model_privacy (m : MSP F) (S : List ℕ) (r : List F) (hS : ∀ id ∈ S, id ∈ m.holders)
    (hr : r.length = m.cols) (hpos : 0 < m.cols) (hrej : m.accepts S = false) (s' : F) :
    ∃ r' : List F, r'.length = m.cols ∧ r'.getD 0 0 = s' ∧
      BronVerif.Access.pick (m.deal r') (m.rowsOf S) = BronVerif.Access.pick (m.deal r) (m.rowsOf S) := by
  -- a kernel column for the rows of S
  obtain ⟨k, hklen, hk0, hker⟩ : ∃ k : List F, k.length = m.cols ∧ k.getD 0 0 = 1 ∧
      ∀ row ∈ m.sub S, dot row k = 0 := by
    by_cases hne : m.rowsOf S = []
    · refine ⟨unitVec m.cols 0, by simp [unitVec], ?_, ?_⟩
      · simp [unitVec, List.getD_eq_getElem?_getD, List.getElem?_range hpos]
      · intro row hrow
        simp [MSP.sub, hne, BronVerif.Access.pick] at hrow
    · have hnone : solveLeft (m.sub S) m.cols (unitVec m.cols 0) = none := by
        have h1 : (S.any fun id => !m.holders.contains id) = false := by
          simp only [List.any_eq_false, Bool.not_eq_eq_eq_not]
          intro id hid
          simpa using hS id hid
        have h2 : (m.rowsOf S).isEmpty = false := by
          cases h : m.rowsOf S with
          | nil => exact absurd h hne
          | cons _ _ => rfl
        unfold MSP.accepts MSP.reconVector at hrej
        simp only [h1, h2, Bool.false_eq_true, if_false, MSP.target] at hrej
        cases hs : solveLeft (m.sub S) m.cols (unitVec m.cols 0) with
        | none => rfl
        | some x => rw [hs] at hrej; simp at hrej
      exact BronVerif.Lemmas.SharingPrivacy.kernel_of_solveLeft_none (m.sub S) m.cols hpos hnone
  refine ⟨vadd r (vsmul (s' - r.getD 0 0) k), by simp [vadd, vsmul, hr, hklen], ?_, ?_⟩
  · cases r with
    | nil => simp at hr; omega
    | cons a r =>
      cases k with
      | nil => simp at hklen; omega
      | cons b k =>
        simp only [List.getD_cons_zero] at hk0
        simp [vadd, vsmul, hk0]
  · have hpick : ∀ x : List F, BronVerif.Access.pick (m.deal x) (m.rowsOf S) =
        (m.sub S).map fun row => dot row x := by
      intro x
      unfold MSP.deal LinAlg.mulVec MSP.sub
      exact BronVerif.Lemmas.SharingDeal.pick_map _ _ _
    rw [hpick, hpick]
    refine List.map_congr_left fun row hrow => ?_
    unfold vadd vsmul
    rw [BronVerif.Lemmas.SharingDeal.dot_add_right row r _ (by simp [hr, hklen]),
      BronVerif.Lemmas.SharingDeal.dot_smul_right, hker row hrow]
    ring

/-- the (2,3) threshold programme over `ZMod 7` as the model represents it -/
def m23 : MSP (ZMod 7) := { mat := [[1, 1], [1, 2], [1, 3]], cols := 2, holders := [1, 2, 3] }

example : m23.reconstruct [1, 3] (m23.deal [4, 5]) = some 4 :=
  model_reconstruct m23 [1, 3] [4, 5] (by decide) rfl (by decide) (by decide +kernel)

example : m23.reconstruct [2, 3] (vadd (m23.deal [4, 5]) (m23.deal [6, 1])) = some (4 + 6) :=
  (model_share_add m23 [2, 3] [4, 5] [6, 1] (by decide) rfl rfl (by decide) (by decide +kernel)).2

example : m23.reconstruct [1, 2] (vsmul 3 (m23.deal [4, 5])) = some (3 * 4) :=
  (model_share_smul m23 [1, 2] 3 [4, 5] (by decide) rfl (by decide) (by decide +kernel)).2

/-- non-vacuity: holder 2 alone is rejected by the (2,3) programme; its share of `[4,5]` is also its
share of some column with secret `6` -/
example : ∃ r' : List (ZMod 7), r'.length = 2 ∧ r'.getD 0 0 = 6 ∧
    BronVerif.Access.pick (m23.deal r') (m23.rowsOf [2]) = BronVerif.Access.pick (m23.deal [4, 5]) (m23.rowsOf [2]) :=
  model_privacy m23 [2] [4, 5] (by decide) rfl (by decide) (by decide +kernel) 6

end ModelScheme

section Insertion
variable {F : Type*} [Field F] {ρ δ ι : Type*} [Fintype ρ] [Fintype δ] [Fintype ι] [DecidableEq ρ]
  [DecidableEq δ] [DecidableEq ι]

/-- **Liu–Cao–Wong insertion step** (the inductive step of `lcw_statement`, proved for arbitrary
programmes and arbitrary `t`-of-`n` gates, hence for any AND/OR/threshold nesting *without repeated
leaves*): after replacing row `z₀` by a `t`-of-children gate (`lcwInsert`, one iteration of
`boolexpr.convert`), the rows `R` (not containing `z₀`) together with the children `K` span the
target iff, in the old programme, `R` together with `z₀` — usable exactly when at least `t`
children are present — spans it.  (Mathlib-matrix form of one step; the induction over `lcwRun` on the
list-based model, including shareholders labelling several leaves, is `lcw_holds`, whose step is the
list form `Lemmas.SharingInsert.insert_spans` of this lemma.) -/
theorem lcw_insertion_partial (M : Matrix ρ δ F) (z : δ) (z₀ : ρ) (x : ι → F) (hx : Function.Injective x)
    (hx0 : ∀ i, x i ≠ 0) (t : ℕ) (ht : 0 < t) (R : Finset ρ) (hR : z₀ ∉ R) (K : Finset ι) :
    (∃ c' : ρ ⊕ ι → F, (∀ r ∉ R, c' (.inl r) = 0) ∧ (∀ i ∉ K, c' (.inr i) = 0) ∧
        c' ᵥ* lcwInsert M z₀ x t = Pi.single (.inl z) 1) ↔
    (∃ c : ρ → F, (∀ r ∉ R, r ≠ z₀ → c r = 0) ∧ (K.card < t → c z₀ = 0) ∧
        c ᵥ* M = Pi.single z 1) := by
  constructor
  · rintro ⟨c', hRc, hKc, hc'⟩
    have hz₀ : c' (.inl z₀) = 0 := hRc z₀ hR
    refine ⟨fun r => if r = z₀ then ∑ i, c' (.inr i) else c' (.inl r), ?_, ?_, ?_⟩
    · intro r hr hne; simp [hne, hRc r hr]
    · intro hlt
      have hall := moments_zero x hx hx0 t K hlt (fun i => c' (.inr i)) hKc (fun k => by
        have := congrFun hc' (.inr k)
        rw [lcwInsert_vecMul_inr] at this
        simpa using this)
      simp [hall]
    · ext j
      have := congrFun hc' (.inl j)
      rw [lcwInsert_vecMul_inl] at this
      have hs : (Pi.single (Sum.inl z) (1 : F) : δ ⊕ Fin (t - 1) → F) (.inl j) = (Pi.single z (1 : F) : δ → F) j := by
        by_cases h : j = z
        · subst h; simp
        · simp [h]
      rw [hs] at this
      rw [← this]
      simp only [vecMul, dotProduct]
      have hpt : ∀ r, (if r = z₀ then ∑ i, c' (.inr i) else c' (.inl r)) * M r j
          = c' (.inl r) * M r j + (if r = z₀ then (∑ i, c' (.inr i)) * M z₀ j else 0) := by
        intro r
        by_cases h : r = z₀
        · subst h; simp [hz₀]
        · simp [h]
      simp only [hpt, Finset.sum_add_distrib, Finset.sum_ite_eq', Finset.mem_univ, if_true]
  · rintro ⟨c, hRc, hKc, hc⟩
    -- weights on the children: c z₀ · ℓᵢ(0) on a t-subset of K (or zero)
    obtain ⟨b, hbK, hb1, hbm⟩ : ∃ b : ι → F, (∀ i ∉ K, b i = 0) ∧ (∑ i, b i = c z₀) ∧
        ∀ k : Fin (t - 1), ∑ i, b i * x i ^ ((k : ℕ) + 1) = 0 := by
      by_cases hlt : K.card < t
      · exact ⟨0, fun _ _ => rfl, by simp [hKc hlt], fun _ => by simp⟩
      · obtain ⟨T, hTK, hTc⟩ := Finset.exists_subset_card_eq (Nat.le_of_not_lt hlt)
        have hv : Set.InjOn x T := fun a _ b _ h => hx h
        refine ⟨fun i => if i ∈ T then c z₀ * (Lagrange.basis T x i).eval 0 else 0, ?_, ?_, ?_⟩
        · intro i hi
          have : i ∉ T := fun h => hi (hTK h)
          simp [this]
        · rw [← Finset.sum_filter, Finset.filter_mem_eq_inter, Finset.univ_inter, ← Finset.mul_sum]
          have := lagrange_zero_sum' T x hv 1 (by rw [degree_one, hTc]; exact_mod_cast ht)
          simp only [eval_one, mul_one] at this
          rw [this, mul_one]
        · intro k
          simp only [ite_mul, zero_mul]
          rw [← Finset.sum_filter, Finset.filter_mem_eq_inter, Finset.univ_inter]
          have := lagrange_zero_sum' T x hv (X ^ ((k : ℕ) + 1)) (by
            rw [degree_X_pow, hTc]; have := k.2; exact_mod_cast (by omega : (k : ℕ) + 1 < t))
          simp only [eval_pow, eval_X] at this
          calc ∑ i ∈ T, c z₀ * (Lagrange.basis T x i).eval 0 * x i ^ ((k : ℕ) + 1)
              = c z₀ * ∑ i ∈ T, (Lagrange.basis T x i).eval 0 * x i ^ ((k : ℕ) + 1) := by
                rw [Finset.mul_sum]; exact Finset.sum_congr rfl fun i _ => by ring
            _ = 0 := by rw [this]; simp
    refine ⟨fun r => match r with | .inl r => if r = z₀ then 0 else c r | .inr i => b i, ?_, ?_, ?_⟩
    · intro r hr
      by_cases h : r = z₀
      · simp [h]
      · simp [h, hRc r hr h]
    · intro i hi; simp [hbK i hi]
    · ext col
      cases col with
      | inl j =>
        rw [lcwInsert_vecMul_inl]
        have hs : (Pi.single (Sum.inl z) (1 : F) : δ ⊕ Fin (t - 1) → F) (.inl j) = (Pi.single z (1 : F) : δ → F) j := by
          by_cases h : j = z
          · subst h; simp
          · simp [h]
        rw [hs, ← hc]
        simp only [vecMul, dotProduct, hb1]
        have hpt : ∀ r, c r * M r j
            = (if r = z₀ then 0 else c r) * M r j + (if r = z₀ then c z₀ * M z₀ j else 0) := by
          intro r
          by_cases h : r = z₀
          · subst h; simp
          · simp [h]
        rw [Finset.sum_congr rfl (fun r _ => hpt r)]
        simp only [Finset.sum_add_distrib, Finset.sum_ite_eq', Finset.mem_univ, if_true]
      | inr k =>
        rw [lcwInsert_vecMul_inr]
        simpa using hbm k


/-- non-vacuity: the root row `[1]` replaced by a 2-of-3 gate over `ZMod 7`; children 0 and 1 -/
example : ∃ c' : Unit ⊕ Fin 3 → ZMod 7, (∀ r ∉ (∅ : Finset Unit), c' (.inl r) = 0) ∧
    (∀ i ∉ ({0, 1} : Finset (Fin 3)), c' (.inr i) = 0) ∧
    c' ᵥ* lcwInsert (fun _ _ => (1 : ZMod 7)) () (fun i : Fin 3 => ((i : ℕ) + 1 : ZMod 7)) 2
      = Pi.single (.inl ()) 1 :=
  (lcw_insertion_partial (fun _ _ => (1 : ZMod 7)) () () (fun i : Fin 3 => ((i : ℕ) + 1 : ZMod 7))
    (by decide) (by decide) 2 (by omega) ∅ (by simp) {0, 1}).mpr
    ⟨fun _ => 1, by simp, by decide, by ext; simp [vecMul, dotProduct]⟩

end Insertion

end BronVerif.Props.C02
