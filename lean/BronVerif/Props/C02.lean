import BronVerif.Model.Access
import BronVerif.Model.Sharing
/-! # C02 — property theorems (being filled in) -/
namespace BronVerif.Props.C02
end BronVerif.Props.C02
