import Mathlib.Data.Matrix.Mul
import Mathlib.Algebra.Module.BigOperators
import Mathlib.Algebra.BigOperators.Group.Finset.Basic
import Mathlib.Algebra.Field.Defs
import Mathlib.Algebra.Field.Rat
import Mathlib.Algebra.Module.Rat
import Mathlib.Data.ZMod.Basic
import Mathlib.Algebra.Field.ZMod
import Mathlib.LinearAlgebra.Matrix.Notation
import Mathlib.Tactic.Abel
import Mathlib.Tactic.FinCases
import Mathlib.Tactic.NormNum
import BronVerif.Model.Epoch
import BronVerif.Lemmas.EpochLin
import BronVerif.Props.C05
import BronVerif.Props.C20
/-!
# C06 — refresh, recovery and redistribution never change the key (property theorems)

The first group of theorems is about the executable epoch model of `Model/Epoch.lean`
(`step`, `run`, `State.secret`, `State.pk`, `State.shares`, `State.vv`) for an arbitrary field `F`,
an arbitrary `F`-module `G` and MSPs / histories of any size; the coefficient vectors of the
driving sets are what `Vss.reconVector` (= `LinAlg.solveLeft`, sound and complete by `Props/C20`)
returns.  The second group (`redistribute_checks_sound`, `mixed_epoch_exact`) is pure Mathlib
algebra over index types, instantiated by the driver's `redist` and `mix` handlers
(`Epoch.partialPk`, `Epoch.mixedShares`, `Epoch.weightOn`).
-/
set_option linter.unusedSectionVars false
set_option linter.unusedVariables false
namespace BronVerif.Props.C06
open BronVerif.LinAlg BronVerif.Vss BronVerif.Epoch BronVerif.Lemmas.EpochLin

section Model
variable {F G : Type} [Field F] [DecidableEq F] [AddCommGroup G] [Module F G] [DecidableEq G]

/-- **every qualified set reconstructs the secret of the epoch**: any reconstruction vector `c` of
the rows of `S` (`c · M_S = e₀`) combines the shares of `S` to `r₀` (shape of `C02.msp_reconstruct`,
for the list model). -/
theorem epoch_reconstruct (e : State F) (hs : e.Shaped) (S : List ℕ) (c : List F)
    (hc : e.IsReconVector S c) : dot c (e.sharesQ S) = e.secret := by
  have h1 : e.sharesQ S = mulVec (e.rowsQ S) e.r := by
    simp only [State.sharesQ, State.shares, State.rowsQ, mulVec]
    exact pickSet_map _ _ _ _
  rw [h1, recon_dot (e.rowsQ S) e.r.length c e.r rfl hs.2.2 hc.2]
  rfl

/-- the blinded contributions of the previous holders add up to the secret -/
theorem contributions_sum (e : State F) (hs : e.Shaped) (Q : List ℕ) (c zeta : List F)
    (hQ : Q.Nodup) (hc : e.IsReconVector Q c) (hz : zeta.length = Q.length) (hz0 : fsum zeta = 0) :
    (e.contributions Q c zeta).sum = e.secret := by
  have hadd : (e.additive Q c).length = zeta.length := by simp [State.additive, hz]
  rw [State.contributions, sum_vadd _ _ hadd, ← fsum_eq_sum zeta, hz0, add_zero]
  have hmem : ∀ l ∈ e.labelsQ Q, l ∈ Q := by
    intro l hl
    have := (List.mem_filter.mp hl).2
    simpa using this
  have hlen : (List.zipWith (· * ·) c (e.sharesQ Q)).length ≤ (e.labelsQ Q).length := by
    rw [List.length_zipWith]
    exact le_trans (Nat.min_le_right _ _) (pickSet_length_le _ _ _)
  have hpart := sum_pick_partition Q hQ (e.labelsQ Q) (List.zipWith (· * ·) c (e.sharesQ Q)) hmem hlen
  have : (e.additive Q c) = Q.map fun id => (Vss.pick (e.labelsQ Q) id (List.zipWith (· * ·) c (e.sharesQ Q))).sum := by
    simp only [State.additive, sumAt, fsum_eq_sum]
  rw [this, hpart, ← fsum_eq_sum, ← dot_eq_fsum]
  exact epoch_reconstruct e hs Q c hc

/-- **one operation preserves the secret** (and the shape invariants of the epoch) -/
theorem step_preserves_secret (e : State F) (op : Op F) (hs : e.Shaped) (hop : OpOk e op) :
    (step e op).secret = e.secret ∧ (step e op).Shaped := by
  cases op with
  | refresh z =>
    obtain ⟨hzl, hz0⟩ := hop
    have hlen : (vadd e.r z).length = e.r.length := by simp [vadd, hzl]
    refine ⟨?_, ?_, hs.2.1, ?_⟩
    · show (vadd e.r z).headD 0 = e.r.headD 0
      rw [headD_vadd e.r z hzl.symm, hz0, add_zero]
    · intro row hrow; show row.length = (vadd e.r z).length; rw [hlen]; exact hs.1 row hrow
    · show 0 < (vadd e.r z).length; rw [hlen]; exact hs.2.2
  | redistribute Q c zeta M' labels' tails =>
    obtain ⟨hQ, _, hc, hz, hz0, ht, htl, hM', hl', hn⟩ := hop
    have hd : (e.contributions Q c zeta).length = Q.length := by
      simp [State.contributions, State.additive, vadd, hz]
    obtain ⟨h1, h2⟩ := reshare_spec (numCols M') (e.contributions Q c zeta) tails (ht.trans hd.symm) htl
    refine ⟨?_, ?_, hl', ?_⟩
    · show (reshare (numCols M') (e.contributions Q c zeta) tails).headD 0 = e.secret
      rw [h2]; exact contributions_sum e hs Q c zeta hQ hc hz hz0
    · intro row hrow
      show row.length = (reshare (numCols M') (e.contributions Q c zeta) tails).length
      rw [h1]; exact hM' row hrow
    · show 0 < (reshare (numCols M') (e.contributions Q c zeta) tails).length
      rw [h1]; exact hn
  | recover Q c zeta tails =>
    obtain ⟨hQ, _, hc, hz, hz0, ht, htl, hcols⟩ := hop
    have hd : (e.contributions Q c zeta).length = Q.length := by
      simp [State.contributions, State.additive, vadd, hz]
    obtain ⟨h1, h2⟩ := reshare_spec (numCols e.M) (e.contributions Q c zeta) tails (ht.trans hd.symm) htl
    refine ⟨?_, ?_, hs.2.1, ?_⟩
    · show (reshare (numCols e.M) (e.contributions Q c zeta) tails).headD 0 = e.secret
      rw [h2]; exact contributions_sum e hs Q c zeta hQ hc hz hz0
    · intro row hrow
      show row.length = (reshare (numCols e.M) (e.contributions Q c zeta) tails).length
      rw [h1, hcols]; exact hs.1 row hrow
    · show 0 < (reshare (numCols e.M) (e.contributions Q c zeta) tails).length
      rw [h1, hcols]; exact hs.2.2
  | sign Q => exact ⟨rfl, hs⟩

/-- **the key is invariant under every well-formed operation history**: secret and public key after
any finite sequence of refresh / recover / redistribute / sign operations are those of the start. -/
theorem history_preserves_key (g : G) (ops : List (Op F)) (e : State F) (hs : e.Shaped)
    (hw : WellFormed e ops) :
    (run ops e).secret = e.secret ∧ (run ops e).pk g = e.pk g ∧ (run ops e).Shaped := by
  induction ops generalizing e with
  | nil => exact ⟨rfl, rfl, hs⟩
  | cons op ops ih =>
    obtain ⟨hop, hrest⟩ := hw
    obtain ⟨h1, h2⟩ := step_preserves_secret e op hs hop
    obtain ⟨i1, _, i3⟩ := ih (step e op) h2 hrest
    have hsec : (run (op :: ops) e).secret = e.secret := by
      show (run ops (step e op)).secret = e.secret
      rw [i1, h1]
    exact ⟨hsec, by simp only [State.pk, hsec], i3⟩

/-- **after every step the new shares verify against the new verification vector**: in the state
reached by any well-formed history, the Feldman check (`Vss.feldmanVerify`, characterised by
`C05.feldman_verify_iff`) accepts the share of every holder of the CURRENT structure against
`V = r • g`, and `V₀` is the ORIGINAL public key. -/
theorem history_shares_verify (g : G) (hg : ∀ a : F, a • g = 0 → a = 0) (ops : List (Op F))
    (e : State F) (hs : e.Shaped) (hw : WellFormed e ops) (id : ℕ) (hid : id ∈ (run ops e).labels) :
    feldmanVerify (run ops e).M (run ops e).labels ((run ops e).vv g) g id ((run ops e).shareOf id) = true ∧
      ((run ops e).vv g).headD 0 = e.pk g := by
  obtain ⟨hsec, _, hsh⟩ := history_preserves_key g ops e hs hw
  set e' := run ops e
  have hM : e'.M ≠ [] := by
    intro h
    have : e'.labels.length = 0 := by rw [hsh.2.1, h]; rfl
    rw [List.eq_nil_of_length_eq_zero this] at hid
    exact absurd hid (List.not_mem_nil)
  have hcols : numCols e'.M = e'.r.length := by
    cases hm : e'.M with
    | nil => exact absurd hm hM
    | cons row rest => simpa [numCols] using hsh.1 row (by rw [hm]; exact List.mem_cons_self ..)
  refine ⟨(C05.feldman_verify_iff g hg e'.M e'.labels e'.r id _).mpr ⟨hcols, hid, rfl⟩, ?_⟩
  have hpos := hsh.2.2
  show (liftColumn e'.r g).headD 0 = e.secret • g
  rw [← hsec]
  cases hr : e'.r with
  | nil => rw [hr] at hpos; simp at hpos
  | cons x xs => simp [liftColumn, State.secret, hr]

/-- **every qualified set of the current structure reconstructs the ORIGINAL secret** after any
well-formed history (with whatever reconstruction vector it uses). -/
theorem history_qualified_reconstruct (g : G) (ops : List (Op F)) (e : State F) (hs : e.Shaped)
    (hw : WellFormed e ops) (S : List ℕ) (c : List F) (hc : (run ops e).IsReconVector S c) :
    dot c ((run ops e).sharesQ S) = e.secret := by
  obtain ⟨hsec, _, hsh⟩ := history_preserves_key g ops e hs hw
  rw [epoch_reconstruct _ hsh S c hc, hsec]

/-- **unqualified sets cannot**: when the span test of the current structure fails for `S`
(`solveLeft` on the rows of `S` against `e₀` returns `none` — the driver's and the library's test)
there is no reconstruction vector for `S` at all. -/
theorem epoch_unqualified_no_coeffs (e : State F) (S : List ℕ)
    (h : solveLeft (e.rowsQ S) e.r.length (Vss.e0 e.r.length) = none) :
    ¬ ∃ c : List F, e.IsReconVector S c :=
  fun ⟨c, hc⟩ => C20.solveLeft_complete (e.rowsQ S) e.r.length _ (e0_length _) h ⟨c, hc.1, hc.2⟩

/-- what the span test returns for a qualified set is a reconstruction vector -/
theorem solveLeft_isReconVector (e : State F) (S : List ℕ) (c : List F)
    (h : solveLeft (e.rowsQ S) e.r.length (Vss.e0 e.r.length) = some c) : e.IsReconVector S c :=
  C20.solveLeft_sound (e.rowsQ S) e.r.length _ (e0_length _) c h

end Model

/-! ## Round 3 of the redistribution: acceptance implies the same secret -/

section Abstract
open BigOperators Matrix
variable {F G : Type*} [Field F] [AddCommGroup G] [Module F G]
variable {ρ δ ρz δz ι : Type*} [Fintype ρ] [Fintype δ] [Fintype ρz] [Fintype δz] [Fintype ι]
  [DecidableEq δ] [DecidableEq δz] [DecidableEq ι]

/-- reconstruction in the exponent over the rows grouped by their owner -/
theorem sum_partial_keys (M : Matrix ρ δ F) (V : δ → G) (c : ρ → F) (z : δ)
    (hc : c ᵥ* M = Pi.single z 1) (owner : ρ → ι) :
    ∑ i, ∑ k ∈ Finset.univ.filter (fun k => owner k = i), c k • ∑ j, M k j • V j = V z := by
  rw [Finset.sum_fiberwise Finset.univ owner (fun k => c k • ∑ j, M k j • V j)]
  simp_rw [Finset.smul_sum, smul_smul]
  rw [Finset.sum_comm]
  have : ∀ j, ∑ k, (c k * M k j) • V j = (c ᵥ* M) j • V j := by
    intro j; rw [Matrix.vecMul, dotProduct, Finset.sum_smul]
  simp_rw [this, hc]
  simp [Pi.single_apply, ite_smul]

/-- **`redistribute_checks_sound`**.  Old public data: MSP `M` with verification vector `V`,
`V_z = s • g`; the previous holders `ι` own the rows (`owner`) and use a reconstruction vector `c`
of their rows; the zero sharing over them has MSP `Mz`, public vector `Z` with `Z_z' = 0` (HJKY's
check) and reconstruction vector `cz`.  Sender `i` deals the column `col i` under the next MSP `M'`
and broadcasts `W i = col i • g`.  If, as `Round3` demands,
* every sub-share verifies against its sender's vector: `sub i j • g = Σₖ M'ⱼₖ • Wᵢₖ`,
* every sender's 0-th commitment equals its blinded partial public key recomputed from the OLD
  public data,
then the new shares are the sharing `M' · (Σᵢ col i)` of a column whose 0-th entry is the OLD
secret `s`, and the new public key `Σᵢ Wᵢ₀` is the old one — under the generator hypothesis. -/
theorem redistribute_checks_sound (g : G) (hg : ∀ a : F, a • g = 0 → a = 0)
    (M : Matrix ρ δ F) (V : δ → G) (z : δ) (s : F) (hV : V z = s • g)
    (owner : ρ → ι) (c : ρ → F) (hc : c ᵥ* M = Pi.single z 1)
    (Mz : Matrix ρz δz F) (Z : δz → G) (z' : δz) (hZ : Z z' = 0)
    (ownerz : ρz → ι) (cz : ρz → F) (hcz : cz ᵥ* Mz = Pi.single z' 1)
    {ρ' δ' : Type*} [Fintype ρ'] [Fintype δ'] (M' : Matrix ρ' δ' F) (z'' : δ')
    (col : ι → δ' → F) (sub : ι → ρ' → F)
    (hsub : ∀ i j, sub i j • g = ∑ k, M' j k • (col i k • g))
    (hpartial : ∀ i, col i z'' • g =
      (∑ k ∈ Finset.univ.filter (fun k => owner k = i), c k • ∑ j, M k j • V j) +
      (∑ k ∈ Finset.univ.filter (fun k => ownerz k = i), cz k • ∑ j, Mz k j • Z j)) :
    (∑ i, col i) z'' = s ∧ (∑ i, col i z'' • g = V z) ∧
      ∀ j, ∑ i, sub i j = (M' *ᵥ (∑ i, col i)) j := by
  have hpk : ∑ i, col i z'' • g = V z := by
    simp_rw [hpartial, Finset.sum_add_distrib]
    rw [sum_partial_keys M V c z hc owner, sum_partial_keys Mz Z cz z' hcz ownerz, hZ, add_zero]
  have hsec : (∑ i, col i) z'' = s := by
    have h : ((∑ i, col i) z'' - s) • g = 0 := by
      rw [sub_smul, Finset.sum_apply, Finset.sum_smul, hpk, hV, sub_self]
    exact sub_eq_zero.mp (hg _ h)
  refine ⟨hsec, hpk, fun j => ?_⟩
  have hj : ∀ i, sub i j = (M' *ᵥ col i) j := by
    intro i
    have h : (sub i j - (M' *ᵥ col i) j) • g = 0 := by
      rw [sub_smul, hsub i j]
      simp [Matrix.mulVec, dotProduct, Finset.sum_smul, mul_smul]
    exact sub_eq_zero.mp (hg _ h)
  simp_rw [hj]
  simp only [Matrix.mulVec, dotProduct, Finset.sum_apply, Finset.mul_sum]
  exact Finset.sum_comm

/-- the aggregate check alone (`oldPk.Equal(newPk)`, what a newcomer without trusted anchor relies
on): if the broadcast vectors are lifts of the dealt columns and the new public key equals the old
one, the new column's 0-th entry is the old secret. -/
theorem redistribute_pk_check_sound (g : G) (hg : ∀ a : F, a • g = 0 → a = 0) (s : F)
    {δ' : Type*} (z'' : δ') (col : ι → δ' → F)
    (hpk : ∑ i, col i z'' • g = s • g) : (∑ i, col i) z'' = s := by
  have h : ((∑ i, col i) z'' - s) • g = 0 := by
    rw [sub_smul, Finset.sum_apply, Finset.sum_smul, hpk, sub_self]
  exact sub_eq_zero.mp (hg _ h)

/-! ## mixing epochs -/

/-- **`mixed_epoch_exact`**: two epochs `a`, `b` of the same MSP `M` (dealt columns `ra`, `rb`);
the rows in `B` contribute their epoch-`b` share, the others their epoch-`a` share.  Reconstructing
with any reconstruction vector `c` yields exactly `secret_a + Σ_{i∈B} cᵢ · (M (r_b − r_a))ᵢ`, hence
the secret iff that term vanishes. -/
theorem mixed_epoch_exact (M : Matrix ρ δ F) (z : δ) (ra rb : δ → F) (c : ρ → F)
    (hc : c ᵥ* M = Pi.single z 1) [DecidableEq ρ] (B : Finset ρ) :
    (c ⬝ᵥ fun i => if i ∈ B then (M *ᵥ rb) i else (M *ᵥ ra) i) =
        ra z + ∑ i ∈ B, c i * (M *ᵥ (rb - ra)) i ∧
    ((c ⬝ᵥ fun i => if i ∈ B then (M *ᵥ rb) i else (M *ᵥ ra) i) = ra z ↔
        ∑ i ∈ B, c i * (M *ᵥ (rb - ra)) i = 0) := by
  have hrec : c ⬝ᵥ (M *ᵥ ra) = ra z := by
    rw [dotProduct_mulVec, hc, single_one_dotProduct]
  have hsplit : (fun i => if i ∈ B then (M *ᵥ rb) i else (M *ᵥ ra) i) =
      (M *ᵥ ra) + fun i => if i ∈ B then (M *ᵥ (rb - ra)) i else 0 := by
    funext i
    by_cases h : i ∈ B <;> simp [h, Matrix.mulVec_sub]
  have hmain : (c ⬝ᵥ fun i => if i ∈ B then (M *ᵥ rb) i else (M *ᵥ ra) i) =
      ra z + ∑ i ∈ B, c i * (M *ᵥ (rb - ra)) i := by
    rw [hsplit, dotProduct_add, hrec]
    congr 1
    simp only [dotProduct, mul_ite, mul_zero]
    rw [Finset.sum_ite_mem Finset.univ B (fun i => c i * (M *ᵥ (rb - ra)) i), Finset.univ_inter]
  exact ⟨hmain, by rw [hmain]; exact add_eq_left⟩

/-- the probabilistic half of the mixed-epoch clause — for a minimal qualified set and `∅ ≠ B ⊊ S`
the correction term is a non-zero linear form in the fresh randomness `r_b − r_a`, hence vanishes
with probability `1/|F|` — as a count: the form vanishes on exactly `|F|ⁿ / |F|` of the `|F|ⁿ`
points.  Proved in `Props/C06Count.lean` (`mixed_epoch_negligible`, `mixed_epoch_coincidence_count`);
the driver checks the non-zero linear form (`Epoch.weightOn`) and the inequality on every emitted pair. -/
def mixed_epoch_negligible_statement (F : Type) [Field F] [Fintype F] [DecidableEq F] : Prop :=
  ∀ (n : ℕ) (w : Fin n → F), w ≠ 0 →
    (Finset.univ.filter fun x : Fin n → F => ∑ k, w k * x k = 0).card * Fintype.card F
      = Fintype.card (Fin n → F)

end Abstract

/-! ## non-vacuity -/

section Examples
open Matrix

local instance : Fact (Nat.Prime 7) := ⟨by decide⟩

/-- (2,3)-threshold key over `ZMod 7`, secret 3 -/
def e0ex : State (ZMod 7) := { M := [[1, 1], [1, 2], [1, 3]], labels := [1, 2, 3], r := [3, 5] }

/-- refresh with a zero column; recover holder 3 from `Q = {1, 2}` (`c = (2, −1)`, shifts `(4, 3)`);
redistribute from `Q = {1, 2}` to a 2-of-2 additive-style MSP on holders 7, 9; sign -/
def opsEx : List (Op (ZMod 7)) :=
  [ .refresh [0, 4],
    .recover [1, 2] [2, 6] [4, 3] [[1], [2]],
    .sign [1, 3],
    .redistribute [1, 2] [2, 6] [6, 1] [[1, 1], [0, 1]] [7, 9] [[5], [0]] ]

theorem shapedEx : e0ex.Shaped := by
  unfold State.Shaped e0ex; decide

theorem wfEx : WellFormed e0ex opsEx := by
  simp only [opsEx, WellFormed, OpOk, State.IsReconVector]
  decide

example : (run opsEx e0ex).secret = 3 ∧ (run opsEx e0ex).labels = [7, 9] := by decide

example : (run opsEx e0ex).secret = e0ex.secret ∧ (run opsEx e0ex).pk (1 : ZMod 7) = e0ex.pk 1 ∧
    (run opsEx e0ex).Shaped :=
  history_preserves_key (1 : ZMod 7) opsEx e0ex shapedEx wfEx

example := step_preserves_secret e0ex (.refresh [0, 4]) shapedEx (by simp only [OpOk]; decide)

example := history_shares_verify (F := ZMod 7) (1 : ZMod 7) C05.hg7 opsEx e0ex shapedEx wfEx 9 (by decide)

theorem reconEx : (run opsEx e0ex).IsReconVector [7, 9] [1, 6] := by
  unfold State.IsReconVector; decide

example : dot [1, 6] ((run opsEx e0ex).sharesQ [7, 9]) = e0ex.secret :=
  history_qualified_reconstruct (1 : ZMod 7) opsEx e0ex shapedEx wfEx [7, 9] [1, 6] reconEx

/-- holder 7 alone is unqualified in the final structure: no coefficient for its row `(1, 1)` gives `e₀` -/
example : ¬ ∃ c : List (ZMod 7), (run opsEx e0ex).IsReconVector [7] c := by
  rintro ⟨c, hlen, hc⟩
  have h1 : (run opsEx e0ex).rowsQ [7] = [[1, 1]] := by decide
  have h2 : (run opsEx e0ex).r.length = 2 := by decide
  rw [h1, h2] at hc
  rw [h1] at hlen
  match c, hlen with
  | [x], _ =>
    have key : ∀ y : ZMod 7, LinAlg.mulVec (transposeN [[1, 1]] 2) [y] ≠ Vss.e0 2 := by decide
    exact key x hc

/-- mixing epochs: rows of holders 1, 2 of the (2,3) programme, `c = (2, −1)`; holder 1 uses the
refreshed share (`r_b = (3, 6)`), holder 2 the old one (`r_a = (3, 5)`): the result is `3 + 2 ≠ 3` -/
example : ∑ i ∈ ({0} : Finset (Fin 2)), (![2, 6] : Fin 2 → ZMod 7) i *
    ((!![1, 1; 1, 2] : Matrix (Fin 2) (Fin 2) (ZMod 7)) *ᵥ (![3, 6] - ![3, 5])) i ≠ 0 := by decide

example : ((![2, 6] : Fin 2 → ZMod 7) ⬝ᵥ fun i => if i ∈ ({0} : Finset (Fin 2))
      then ((!![1, 1; 1, 2] : Matrix (Fin 2) (Fin 2) (ZMod 7)) *ᵥ ![3, 6]) i
      else ((!![1, 1; 1, 2] : Matrix (Fin 2) (Fin 2) (ZMod 7)) *ᵥ ![3, 5]) i) ≠ 3 := by decide

example : (![2, 6] : Fin 2 → ZMod 7) ᵥ* (!![1, 1; 1, 2] : Matrix (Fin 2) (Fin 2) (ZMod 7)) = Pi.single 0 1 := by
  decide

/-- `redistribute_pk_check_sound` on two senders -/
example : (∑ i : Fin 2, (![![2, 1], ![1, 4]] : Fin 2 → Fin 2 → ZMod 7) i) 0 = 3 :=
  redistribute_pk_check_sound (1 : ZMod 7) C05.hg7 3 0 _ (by decide)

end Examples

end BronVerif.Props.C06
