import Mathlib.Data.Matrix.Mul
import Mathlib.Algebra.Module.BigOperators
import Mathlib.Algebra.BigOperators.Group.Finset.Basic
import Mathlib.Algebra.BigOperators.Group.Finset.Sigma
import Mathlib.Algebra.Field.Basic
import Mathlib.Algebra.Field.Rat
import Mathlib.Algebra.Module.Rat
import Mathlib.Algebra.Order.Ring.Rat
import Mathlib.Data.Multiset.Basic
import Mathlib.Tactic.FieldSimp
import Mathlib.Tactic.Ring
import Mathlib.Tactic.Abel
import Mathlib.Tactic.NormNum
import Mathlib.Tactic.Linarith
import Mathlib.Algebra.Order.BigOperators.Group.Finset
import Mathlib.Algebra.Order.Ring.Int
import Mathlib.Data.Int.ModEq
import Mathlib.Data.Fin.VecNotation
import Mathlib.Tactic.FinCases
import Mathlib.Algebra.BigOperators.Fin
import BronVerif.Lemmas.SignAlgSpec
/-!
# C01 — threshold signing by a qualified quorum yields a publicly valid signature (property theorems)

Pure-Mathlib statements over an arbitrary field `F` (the scalar field), an arbitrary `F`-module `G`
(the group, additive), MSPs of any shape and quorums of any size.  They are the algebra behind the
relations that `Drive/C01.lean` evaluates with `Model/SignAlg` (`ecdsaVerify`, `schnorrVerify`,
`liftedReconstruct`) on the values emitted by real protocol runs.
-/
namespace BronVerif.Props.C01
open BigOperators Matrix

variable {F G : Type*} [Field F] [AddCommGroup G] [Module F G]

section conversion
variable {ρ δ ι : Type*} [Fintype ρ] [Fintype δ] [Fintype ι] [DecidableEq δ] [DecidableEq ι]

/-- `additive_conversion` (`ConvertShareToAdditive`): for every MSP (ideal or not: `owner` may map
several rows to one holder) and every coefficient vector with `c ᵥ* M = e_z`, the per-holder values
`aᵢ = ⟨c|ᵢ, λ|ᵢ⟩` (dot product over the rows holder `i` owns) sum to the secret `r_z`; lifted version
(`ConvertLiftedShareToAdditive`): `Σᵢ Σ_{k owned by i} c_k • Λ_k = r_z • g` with `Λ_k = λ_k • g`. -/
theorem additive_conversion (M : Matrix ρ δ F) (r : δ → F) (z : δ) (owner : ρ → ι) (c : ρ → F)
    (hc : c ᵥ* M = Pi.single z 1) (g : G) :
    (∑ i, ∑ k ∈ Finset.univ.filter (fun k => owner k = i), c k * (M *ᵥ r) k) = r z ∧
    (∑ i, ∑ k ∈ Finset.univ.filter (fun k => owner k = i), c k • ((M *ᵥ r) k • g)) = r z • g := by
  have h : c ⬝ᵥ (M *ᵥ r) = r z := by
    rw [Matrix.dotProduct_mulVec, hc, single_one_dotProduct]
  have h1 : (∑ i, ∑ k ∈ Finset.univ.filter (fun k => owner k = i), c k * (M *ᵥ r) k) = r z := by
    rw [Finset.sum_fiberwise]; exact h
  refine ⟨h1, ?_⟩
  rw [Finset.sum_fiberwise, ← h]
  simp only [dotProduct, Finset.sum_smul, mul_smul]

/-- holders outside the quorum contribute nothing when `c` vanishes on their rows -/
theorem additive_conversion_support (owner : ρ → ι) (c : ρ → F) (lam : ρ → F) (S : Finset ι)
    (hS : ∀ k, owner k ∉ S → c k = 0) :
    (∑ i ∈ S, ∑ k ∈ Finset.univ.filter (fun k => owner k = i), c k * lam k) = ∑ k, c k * lam k := by
  rw [← Finset.sum_fiberwise (s := Finset.univ) (g := owner) (f := fun k => c k * lam k)]
  refine Finset.sum_subset (Finset.subset_univ S) ?_
  intro i _ hi
  refine Finset.sum_eq_zero fun k hk => ?_
  have hk' : owner k = i := (Finset.mem_filter.mp hk).2
  rw [hS k (hk' ▸ hi), zero_mul]
end conversion

section zero
variable {ι : Type*} [Fintype ι] [LinearOrder ι]

/-- the PRZS summand of party `i` towards `j`: `+v i j` for `i < j`, `−v i j` for `j < i` -/
def przsTerm (v : ι → ι → G) (i j : ι) : G := if i < j then v i j else if j < i then - v i j else 0

/-- `przs_sum_zero`: with symmetric pairwise values (both ends derive the same `v` from the shared
seed) the zero shares `ζᵢ = Σ_j ±v i j` of any quorum sum to zero — in any additive group. -/
theorem przs_sum_zero (v : ι → ι → G) (hv : ∀ i j, v i j = v j i) :
    ∑ i, ∑ j, przsTerm v i j = 0 := by
  rw [← Finset.sum_product']
  refine Finset.sum_ninvolution (g := Prod.swap) ?_ ?_ (fun _ => Finset.mem_univ _) (fun p => Prod.swap_swap p)
  · rintro ⟨i, j⟩
    simp only [przsTerm, Prod.swap]
    rcases lt_trichotomy i j with h | h | h
    · simp [h, not_lt.mpr h.le, hv i j]
    · subst h; simp
    · simp [h, not_lt.mpr h.le, hv i j]
  · rintro ⟨i, j⟩ hne hswap
    have hij : j = i := by simpa [Prod.swap] using congrArg Prod.fst hswap
    subst hij
    exact hne (by simp [przsTerm])

/-- blinding additive shares with zero shares does not change their sum -/
theorem blinded_sum (a : ι → F) (ζ : ι → F) (hζ : ∑ i, ζ i = 0) : ∑ i, (a i + ζ i) = ∑ i, a i := by
  rw [Finset.sum_add_distrib, hζ, add_zero]
end zero

section ecdsa

/-- the ECDSA verification equation for group elements: `R = (m s⁻¹) • g + (r s⁻¹) • pk` -/
def EcdsaEq (g pk R : G) (m rx s : F) : Prop := (m * s⁻¹) • g + (rx * s⁻¹) • pk = R

/-- `dkls23_valid`: if the round-4 values satisfy `Σuᵢ = k·φ` and `Σwᵢ = φ·(m + rₓ·sk)` (`dkls23_sum`)
with `k, φ ≠ 0` and `m + rₓ·sk ≠ 0`, then `s = Σw / Σu` satisfies the ECDSA verification equation with
`R = k • g` (= Σ Rᵢ) and `pk = sk • g`. -/
theorem dkls23_valid (g : G) (k φ sk m rx u w : F) (hu : u = k * φ) (hw : w = φ * (m + rx * sk))
    (hk : k ≠ 0) (hφ : φ ≠ 0) (hm : m + rx * sk ≠ 0) :
    EcdsaEq g (sk • g) (k • g) m rx (w / u) := by
  unfold EcdsaEq
  rw [smul_smul, ← add_smul]
  congr 1
  subst hu hw
  field_simp

variable {ι : Type*} [Fintype ι] [DecidableEq ι]

/-- `dkls23_sum`: from the pairwise multiplication correlations `c i j + d j i = a i * χ j i`
(`a = k` for the `u` branch, `a = sk` for the `v` branch; delivered by either multiplier, C09) and
`ψ j i = φ j − χ j i`, the round-4 values `uᵢ = a i·(φ i + Σ_{j≠i} ψ j i) + Σ_{j≠i} (c i j + d i j)`
sum to `(Σ aᵢ)(Σ φᵢ)`. -/
theorem dkls23_sum (a φ : ι → F) (χ c d : ι → ι → F)
    (hmul : ∀ i j, i ≠ j → c i j + d j i = a i * χ j i) :
    (∑ i, (a i * (φ i + ∑ j ∈ Finset.univ.erase i, (φ j - χ j i))
        + ∑ j ∈ Finset.univ.erase i, (c i j + d i j))) = (∑ i, a i) * (∑ i, φ i) := by
  -- Σ_i Σ_{j≠i} d i j = Σ_i Σ_{j≠i} d j i  (swap the pair)
  have hswap : ∑ i, ∑ j ∈ Finset.univ.erase i, d i j = ∑ i, ∑ j ∈ Finset.univ.erase i, d j i := by
    rw [Finset.sum_sigma', Finset.sum_sigma']
    refine Finset.sum_bij' (fun p _ => ⟨p.2, p.1⟩) (fun p _ => ⟨p.2, p.1⟩) ?_ ?_ ?_ ?_ ?_ <;>
      simp [eq_comm]
  have hcd : ∑ i, ∑ j ∈ Finset.univ.erase i, (c i j + d i j)
      = ∑ i, ∑ j ∈ Finset.univ.erase i, a i * χ j i := by
    simp only [Finset.sum_add_distrib]
    rw [hswap, ← Finset.sum_add_distrib]
    refine Finset.sum_congr rfl fun i _ => ?_
    rw [← Finset.sum_add_distrib]
    exact Finset.sum_congr rfl fun j hj => hmul i j (Finset.ne_of_mem_erase hj).symm
  rw [Finset.sum_add_distrib, hcd, ← Finset.sum_add_distrib, Finset.sum_mul]
  refine Finset.sum_congr rfl fun i _ => ?_
  rw [← Finset.add_sum_erase Finset.univ φ (Finset.mem_univ i), ← Finset.mul_sum, ← mul_add,
    add_assoc, ← Finset.sum_add_distrib]
  congr 2
  exact Finset.sum_congr rfl fun j _ => by ring

/-- `ecdsa_normalise_valid`: replacing `s` by `−s` and `R` by `−R` (same `x`-coordinate) preserves the
verification equation — what `Aggregate`'s low-`s` normalisation does. -/
theorem ecdsa_normalise_valid (g pk R : G) (m rx s : F) (h : EcdsaEq g pk R m rx s) :
    EcdsaEq g pk (-R) m rx (-s) := by
  unfold EcdsaEq at *
  rw [← h, inv_neg, mul_neg, mul_neg, neg_smul, neg_smul, neg_add]

/-- `lindell17_valid` / `cggmp21_valid` (signature part): any `s` with `s·k = m + rₓ·x`, `k ≠ 0`,
satisfies the verification equation with `R = k⁻¹… ` in the convention `R = k • g`, `s = k⁻¹(m + rₓ x)`. -/
theorem ecdsa_valid_of_response (g : G) (k x m rx s : F) (hk : k ≠ 0) (hs : s = k⁻¹ * (m + rx * x))
    (hm : m + rx * x ≠ 0) : EcdsaEq g (x • g) (k • g) m rx s := by
  unfold EcdsaEq
  rw [smul_smul, ← add_smul]
  congr 1
  subst hs
  field_simp
end ecdsa

section schnorr
variable {ι : Type*} [Fintype ι]

/-- `lindell22_valid`: partial responses `sᵢ = σR • kᵢ + e • σP • xᵢ` (the variant's parity corrections
`σR, σP ∈ {±1}` applied consistently to nonce shares and key shares; vanilla has both `1`) aggregate to
a response satisfying `s • g = R′ + e • P′` with `R′ = σR • Σ kᵢ • g`, `P′ = σP • Σ xᵢ • g`. -/
theorem lindell22_valid (g : G) (k x : ι → F) (e σR σP : F) :
    (∑ i, (σR * k i + e * (σP * x i))) • g
      = σR • (∑ i, k i • g) + e • (σP • (∑ i, x i • g)) := by
  simp only [Finset.sum_add_distrib, add_smul, Finset.sum_smul, Finset.smul_sum, smul_smul, mul_assoc]

/-- `aggregate_perm`: the aggregated response is a function of the multiset of partial signatures only
(every aggregator, whatever order it receives them in, obtains the same signature). -/
theorem aggregate_perm (l₁ l₂ : List F) (h : l₁.Perm l₂) : l₁.sum = l₂.sum := h.sum_eq

/-- `lindell22_partial_verifies`: an honest partial response `sᵢ = kᵢ + σ·e·xᵢ` (`σ = 1`: the usual
`s = k + e·x`; `σ = −1`: the negative-response flavour `s = k − e·x` of the configurable Schnorr
scheme) satisfies the partial verification equation `sᵢ • g = Rᵢ + (σ·e) • Pᵢ` with `Rᵢ = kᵢ • g`,
`Pᵢ = xᵢ • g` — the per-sender check of the cosigning (identifiable-abort) aggregator. A partial
verifier that uses the wrong sign `σ` therefore rejects honest partial signatures. -/
theorem lindell22_partial_verifies (g : G) (k x e σ : F) :
    (k + σ * e * x) • g = k • g + (σ * e) • (x • g) := by
  rw [add_smul, mul_smul (σ * e) x g]

/-- with the wrong sign the partial equation holds only in the degenerate case `(2·e·x) • g = 0`
(never for an honest non-zero share under a generator of prime order `≠ 2` and `e ≠ 0`) -/
theorem lindell22_partial_wrong_sign (g : G) (k x e : F)
    (h : (k - e * x) • g = k • g + e • (x • g)) : ((2 : F) * e * x) • g = 0 := by
  have h1 : (k - e * x) • g = k • g - (e * x) • g := sub_smul k (e * x) g
  have h2 : e • (x • g) = (e * x) • g := (mul_smul e x g).symm
  rw [h1, h2] at h
  have h3 : (e * x) • g + (e * x) • g = 0 := by
    have h5 : -((e * x) • g) = (e * x) • g := by
      rw [sub_eq_add_neg] at h
      exact add_left_cancel h
    calc (e * x) • g + (e * x) • g = -((e * x) • g) + (e * x) • g := by rw [h5]
      _ = 0 := neg_add_cancel _
  have : ((2 : F) * e * x) • g = (e * x) • g + (e * x) • g := by
    rw [mul_assoc, two_mul, add_smul]
  rw [this, h3]

/-- `lindell22_sum_of_verifying_partials`: if every partial signature verifies against its partial
public key (common challenge `e`, sign `σ`), the aggregate `(Σ Rᵢ, Σ sᵢ)` verifies against `Σ Pᵢ`:
every aggregation path that accepts the partials returns a valid signature. -/
theorem lindell22_sum_of_verifying_partials (g : G) (s : ι → F) (R P : ι → G) (e σ : F)
    (h : ∀ i, s i • g = R i + (σ * e) • P i) :
    (∑ i, s i) • g = (∑ i, R i) + (σ * e) • (∑ i, P i) := by
  rw [Finset.sum_smul, Finset.smul_sum, ← Finset.sum_add_distrib]
  exact Finset.sum_congr rfl fun i _ => h i

/-- `lindell22_blame_exists` (soundness of identifiable abort): if the aggregate does not verify, some
partial signature does not verify against its partial public key. -/
theorem lindell22_blame_exists (g : G) (s : ι → F) (R P : ι → G) (e σ : F)
    (h : (∑ i, s i) • g ≠ (∑ i, R i) + (σ * e) • (∑ i, P i)) :
    ∃ i, s i • g ≠ R i + (σ * e) • P i := by
  by_contra hne
  exact h (lindell22_sum_of_verifying_partials g s R P e σ fun i => not_not.mp fun hi => hne ⟨i, hi⟩)
end schnorr

section bls
variable {ρ δ : Type*} [Fintype ρ] [Fintype δ] [DecidableEq δ]
variable {G₁ G₂ T : Type*} [AddCommGroup G₁] [Module F G₁] [AddCommGroup G₂] [Module F G₂]
  [AddCommGroup T] [Module F T]

/-- `boldyreva_valid`: with a bilinear map `e : G₁ × G₂ → T` (abstract pairing, target written
additively), partial signatures `σ_k = λ_k • H` on the hashed message `H`, `λ = M r`, and coefficients
`c ᵥ* M = e_z`, the aggregate `σ = Σ c_k • σ_k` satisfies `e(pk, H) = e(g, σ)` for `pk = r_z • g`. -/
theorem boldyreva_valid (e : G₁ → G₂ → T)
    (hl : ∀ (a : F) (P : G₁) (Q : G₂), e (a • P) Q = a • e P Q)
    (hr : ∀ (a : F) (P : G₁) (Q : G₂), e P (a • Q) = a • e P Q)
    (M : Matrix ρ δ F) (r : δ → F) (z : δ) (c : ρ → F) (hc : c ᵥ* M = Pi.single z 1)
    (g : G₁) (H : G₂) :
    e (r z • g) H = e g (∑ k, c k • ((M *ᵥ r) k • H)) := by
  have h : c ⬝ᵥ (M *ᵥ r) = r z := by
    rw [Matrix.dotProduct_mulVec, hc, single_one_dotProduct]
  have hs : (∑ k, c k • ((M *ᵥ r) k • H)) = r z • H := by
    rw [← h]; simp only [dotProduct, Finset.sum_smul, mul_smul]
  rw [hs, hl, hr]

/-- `bls_line_iff_pairing`: the relation the C01 driver decides on a `bls` line — `σ = sk • H` for the
secret `sk` with `pk = sk • g` — is equivalent to the pairing verification equation `e(pk, H) = e(g, σ)`
for a bilinear map whose slice `e g ·` is injective (non-degeneracy on the prime-order group). -/
theorem bls_line_iff_pairing (e : G₁ → G₂ → T)
    (hl : ∀ (a : F) (P : G₁) (Q : G₂), e (a • P) Q = a • e P Q)
    (hr : ∀ (a : F) (P : G₁) (Q : G₂), e P (a • Q) = a • e P Q)
    (g : G₁) (hinj : ∀ Q Q' : G₂, e g Q = e g Q' → Q = Q') (sk : F) (H σ : G₂) :
    sk • H = σ ↔ e (sk • g) H = e g σ := by
  constructor
  · intro h; rw [← h, hl, hr]
  · intro h
    rw [hl, ← hr] at h
    exact hinj _ _ h
end bls



/-! ### Lindell17: the Paillier plaintext of `c₃` does not wrap -/

section lindell17

/-- `lindell17_no_wrap` (plaintext level of `CalcC3`): with `0 ≤ ρ < q²`, every reduced term in
`[0, q)` (`a = k₂⁻¹m′`, the `d` fused exponents `eᵢ = k₂⁻¹ r cᵢ`, the two encrypted zero-refreshed
terms `z, t`), primary share plaintexts `pᵢ ∈ [0, 3q)` and the guard `2(q³ + 3dq² + 2q) < N` that
`CalcC3` enforces, the integer `T = ρq + a + Σ eᵢpᵢ + z + t` that the homomorphic evaluation produces
satisfies `0 ≤ T`, `2T < N` — so the symmetric decryption returns `T` itself: any `T′ ≡ T (mod N)` in
`(−N/2, N/2]` equals `T` — and `T mod q` is the unmasked value `(a + Σ eᵢpᵢ + z + t) mod q`. -/
theorem lindell17_no_wrap (q N : ℤ) (d : ℕ) (ρ a z t : ℤ) (e p : Fin d → ℤ) (hq : 0 < q)
    (hρ : 0 ≤ ρ ∧ ρ < q ^ 2) (ha : 0 ≤ a ∧ a < q) (hz : 0 ≤ z ∧ z < q) (ht : 0 ≤ t ∧ t < q)
    (he : ∀ i, 0 ≤ e i ∧ e i < q) (hp : ∀ i, 0 ≤ p i ∧ p i < 3 * q)
    (hN : 2 * (q ^ 3 + 3 * d * q ^ 2 + 2 * q) < N) :
    let T := ρ * q + a + ∑ i, e i * p i + z + t
    0 ≤ T ∧ 2 * T < N ∧
      (∀ T' : ℤ, T' ≡ T [ZMOD N] → -N < 2 * T' → 2 * T' ≤ N → T' = T) ∧
      T % q = (a + ∑ i, e i * p i + z + t) % q := by
  intro T
  have hsum0 : 0 ≤ ∑ i, e i * p i := Finset.sum_nonneg fun i _ => mul_nonneg (he i).1 (hp i).1
  have hsum : ∑ i, e i * p i ≤ d * (3 * q ^ 2) := by
    have : ∑ i : Fin d, e i * p i ≤ ∑ _i : Fin d, 3 * q ^ 2 := by
      refine Finset.sum_le_sum fun i _ => ?_
      have h1 := he i; have h2 := hp i
      nlinarith [h1.1, h1.2, h2.1, h2.2]
    simpa [Finset.sum_const, nsmul_eq_mul] using this
  have hρq : ρ * q + a < q ^ 3 := by nlinarith [hρ.1, hρ.2, ha.1, ha.2]
  have hT0 : 0 ≤ T := by
    have : 0 ≤ ρ * q := mul_nonneg hρ.1 hq.le
    simp only [T]; linarith [ha.1, hz.1, ht.1]
  have hTN : 2 * T < N := by simp only [T]; nlinarith [hz.2, ht.2]
  refine ⟨hT0, hTN, ?_, ?_⟩
  · intro T' hcong h1 h2
    obtain ⟨c, hc⟩ := (Int.modEq_iff_dvd.mp hcong)
    have hNpos : 0 < N := by linarith
    have hc0 : c = 0 := by
      have hlo : -1 < c := by
        by_contra h; push_neg at h
        have : N * c ≤ -N := by nlinarith
        nlinarith
      have hhi : c < 1 := by
        by_contra h; push_neg at h
        have : N ≤ N * c := by nlinarith
        nlinarith
      omega
    subst hc0; simp at hc; linarith
  · have : T = (a + ∑ i, e i * p i + z + t) + q * ρ := by simp only [T]; ring
    rw [this, Int.add_mul_emod_self_left]

/-- `lindell17_valid`: the primary's output `s = k₁⁻¹ · (T mod q)` with `T ≡ k₂⁻¹(m′ + r·x)` is
`(k₁k₂)⁻¹(m′ + r x)`: the ECDSA equation holds with `R = (k₁k₂) • g`. -/
theorem lindell17_valid (g : G) (k1 k2 x m rx : F) (hk1 : k1 ≠ 0) (hk2 : k2 ≠ 0) (hm : m + rx * x ≠ 0) :
    EcdsaEq g (x • g) ((k1 * k2) • g) m rx (k1⁻¹ * (k2⁻¹ * (m + rx * x))) :=
  ecdsa_valid_of_response g (k1 * k2) x m rx _ (mul_ne_zero hk1 hk2)
    (by rw [mul_inv, mul_assoc]) hm

/-- the CGGMP21 MtA range conditions: the Paillier affine operation delivers the integer `γ·k + β`
itself (no wrap-around modulo `N`) once it is read in the symmetric range — proved below as
`cggmp21_mta_no_wrap`; `cggmp21_mta_shares` is the resulting additive sharing of `γ·k` modulo `q`. -/
def cggmp21_mta_statement : Prop :=
  ∀ (q N : ℤ) (k γ β : ℤ), 0 < q → 0 ≤ k ∧ k < q → 0 ≤ γ ∧ γ < q → 0 ≤ β ∧ β < q ^ 5 →
    2 * (q ^ 2 + q ^ 5) < N →
    ∀ D : ℤ, D ≡ γ * k + β [ZMOD N] → -N < 2 * D → 2 * D ≤ N → D = γ * k + β

/-- **`cggmp21_mta_no_wrap`** (the former `cggmp21_mta_statement`): for `0 ≤ k, γ < q`, a mask
`0 ≤ β < q⁵` and a Paillier modulus with `2(q² + q⁵) < N`, the symmetric-range decryption `D` of
`γ ⊙ Enc(k) ⊕ Enc(β)` is the integer `γ·k + β`, for every `q`, `N` and every input. -/
theorem cggmp21_mta_no_wrap : cggmp21_mta_statement := by
  intro q N k γ β hq hk hγ hβ hN D hD hlo hhi
  have hgk0 : 0 ≤ γ * k := mul_nonneg hγ.1 hk.1
  have hgk1 : γ * k < q ^ 2 := by
    have h1 : 0 < q * (q - k) := mul_pos hq (by linarith [hk.2])
    have h2 : 0 ≤ k * (q - γ) := mul_nonneg hk.1 (by linarith [hγ.2])
    nlinarith
  obtain ⟨c, hc⟩ := Int.modEq_iff_dvd.mp hD
  have hNpos : 0 < N := by nlinarith [pow_pos hq 2, pow_pos hq 5]
  have hlo' : -1 < c := by
    by_contra h; rw [not_lt] at h
    have : N * c ≤ -N := by nlinarith
    nlinarith
  have hhi' : c < 1 := by
    by_contra h; rw [not_lt] at h
    have : N ≤ N * c := by nlinarith
    nlinarith
  have hc0 : c = 0 := by omega
  subst hc0
  linarith

/-- **`cggmp21_mta_shares`**: with no wrap-around, the receiver's share `α = D mod q` and the
sender's share `−β mod q` add up to the product `γ·k` modulo `q`. -/
theorem cggmp21_mta_shares (q N k γ β D : ℤ) (hq : 0 < q) (hk : 0 ≤ k ∧ k < q) (hγ : 0 ≤ γ ∧ γ < q)
    (hβ : 0 ≤ β ∧ β < q ^ 5) (hN : 2 * (q ^ 2 + q ^ 5) < N) (hD : D ≡ γ * k + β [ZMOD N])
    (hlo : -N < 2 * D) (hhi : 2 * D ≤ N) : (D % q + (-β) % q) % q = (γ * k) % q := by
  rw [cggmp21_mta_no_wrap q N k γ β hq hk hγ hβ hN D hD hlo hhi, ← Int.add_emod]
  congr 1; ring

example : (23 : ℤ) ≡ 3 * 4 + 11 [ZMOD 1000] ∧ 2 * (5 ^ 2 + 5 ^ 5) < (10000 : ℤ) := by decide
example : ((23 : ℤ) % 5 + (-11) % 5) % 5 = (3 * 4) % 5 := by decide
end lindell17

/-! ### the executable verifiers of `Model/SignAlg` (what the driver runs) accept honest outputs -/

section model
open BronVerif.SignAlg BronVerif.Lemmas.SignAlgSpec
variable {F' G' : Type} [Field F'] [DecidableEq F'] [AddCommGroup G'] [Module F' G'] [DecidableEq G']

/-- `dkls23_model_accepts`: under the hypotheses of `dkls23_valid`, with `rₓ = x(R) ≠ 0` for
`R = k • g`, the driver's `ecdsaVerify` returns `true` on the aggregated signature `(rₓ, Σw/Σu)`. -/
theorem dkls23_model_accepts (g : G') (xOf : G' → Option F') (k φ sk m rx u w : F')
    (hu : u = k * φ) (hw : w = φ * (m + rx * sk)) (hk : k ≠ 0) (hφ : φ ≠ 0) (hm : m + rx * sk ≠ 0)
    (hx : xOf (k • g) = some rx) (hrx : rx ≠ 0) :
    ecdsaVerify g (sk • g) xOf m rx (w / u) = true := by
  rw [ecdsaVerify_iff]
  refine ⟨hrx, ?_, ?_⟩
  · subst hu hw
    exact div_ne_zero (mul_ne_zero hφ hm) (mul_ne_zero hk hφ)
  · have h := dkls23_valid (G := G') g k φ sk m rx u w hu hw hk hφ hm
    unfold EcdsaEq at h
    rw [h, hx]

/-- `lindell22_model_accepts`: the driver's `schnorrVerify` returns `true` on the aggregate of honest
partial responses, for the (parity-corrected) nonce `R′` and key `P′`. -/
theorem lindell22_model_accepts {ι : Type} [Fintype ι] (g : G') (k x : ι → F') (e σR σP : F') :
    schnorrVerify g (σP • (∑ i, x i • g)) (σR • (∑ i, k i • g)) e (∑ i, (σR * k i + e * (σP * x i))) false
      = true := by
  rw [schnorrVerify_iff]
  exact lindell22_valid g k x e σR σP

/-- `lindell22_neg_model_accepts`: for the negative-response flavour (`sᵢ = kᵢ − e·xᵢ`) the driver's
`schnorrVerify … true` (the equation `s • g + e • pk = R`) accepts the aggregate. -/
theorem lindell22_neg_model_accepts {ι : Type} [Fintype ι] (g : G') (k x : ι → F') (e : F') :
    schnorrVerify g (∑ i, x i • g) (∑ i, k i • g) e (∑ i, (k i - e * x i)) true = true := by
  rw [schnorrVerify_neg_iff]
  simp only [Finset.sum_smul, Finset.smul_sum, sub_smul, mul_smul, Finset.sum_sub_distrib]
  abel
end model

/-! ### non-vacuity -/

example : EcdsaEq (F := ℚ) (1 : ℚ) ((3 : ℚ) • (1 : ℚ)) ((2 : ℚ) • (1 : ℚ)) 5 7 ((4 * (5 + 7 * 3)) / (2 * 4)) :=
  dkls23_valid (F := ℚ) (1 : ℚ) 2 4 3 5 7 (2 * 4) (4 * (5 + 7 * 3)) rfl rfl (by norm_num) (by norm_num) (by norm_num)

example : ∑ i : Fin 3, ∑ j : Fin 3, przsTerm (fun i j => ((i : ℕ) + (j : ℕ) + 1 : ℚ)) i j = 0 :=
  przs_sum_zero _ (fun i j => by push_cast; ring)

example : ([1, 2, 3] : List ℚ).sum = ([3, 1, 2] : List ℚ).sum :=
  aggregate_perm _ _ (by decide)

/-- negative response (σ = −1): k = 5, e = 3, x = 2 gives s = −1 and −1 = 5 + (−3)·2 -/
example : ((5 : ℚ) + (-1) * 3 * 2) • (1 : ℚ) = (5 : ℚ) • (1 : ℚ) + ((-1 : ℚ) * 3) • ((2 : ℚ) • (1 : ℚ)) :=
  lindell22_partial_verifies (F := ℚ) (1 : ℚ) 5 2 3 (-1)

/-- the wrong-sign equation fails on that instance: its consequence `(2·e·x) • g = 0` is `12 = 0` -/
example : ¬ (((5 : ℚ) - 3 * 2) • (1 : ℚ) = (5 : ℚ) • (1 : ℚ) + (3 : ℚ) • ((2 : ℚ) • (1 : ℚ))) := by
  intro h
  have := lindell22_partial_wrong_sign (F := ℚ) (1 : ℚ) 5 2 3 h
  norm_num at this

/-- two verifying partials (σ = −1, e = 3): (s,R,P) = (−1,5,2) and (−5,7,4); the aggregate (−6,12) verifies
against 6 -/
example : (∑ i : Fin 2, (![(-1 : ℚ), -5] i)) • (1 : ℚ)
    = (∑ i : Fin 2, (![(5 : ℚ), 7] i)) + ((-1 : ℚ) * 3) • (∑ i : Fin 2, (![(2 : ℚ), 4] i)) :=
  lindell22_sum_of_verifying_partials (F := ℚ) (1 : ℚ) ![(-1 : ℚ), -5] ![(5 : ℚ), 7] ![(2 : ℚ), 4] 3 (-1)
    (fun i => by fin_cases i <;> simp <;> norm_num)

/-- a non-verifying aggregate has a culprit: (s,R,P) = (−1,5,2), (0,7,4) -/
example : ∃ i : Fin 2, (![(-1 : ℚ), 0] i) • (1 : ℚ) ≠ (![(5 : ℚ), 7] i) + ((-1 : ℚ) * 3) • (![(2 : ℚ), 4] i) :=
  lindell22_blame_exists (F := ℚ) (1 : ℚ) ![(-1 : ℚ), 0] ![(5 : ℚ), 7] ![(2 : ℚ), 4] 3 (-1)
    (by simp [Fin.sum_univ_two]; norm_num)

/-- the `bls` line relation on the toy pairing `e(a, b) = a·b` over ℚ: sk = 3, H = 5, σ = 15 -/
example : (3 : ℚ) • (5 : ℚ) = (15 : ℚ) ↔ (fun a b : ℚ => a * b) ((3 : ℚ) • (1 : ℚ)) 5 = (fun a b : ℚ => a * b) 1 15 :=
  bls_line_iff_pairing (F := ℚ) (fun a b : ℚ => a * b)
    (fun a P Q => by simp [mul_assoc]) (fun a P Q => by simp [mul_left_comm]) (1 : ℚ)
    (fun Q Q' h => by simpa using h) 3 5 15

end BronVerif.Props.C01
