import Mathlib.Data.Matrix.Mul
import Mathlib.Algebra.Module.BigOperators
import Mathlib.Algebra.BigOperators.Group.Finset.Basic
import Mathlib.Algebra.BigOperators.Group.Finset.Sigma
import Mathlib.Algebra.Field.Basic
import Mathlib.Algebra.Field.Rat
import Mathlib.Algebra.Module.Rat
import Mathlib.Algebra.Order.Ring.Rat
import Mathlib.Data.Multiset.Basic
import Mathlib.Tactic.FieldSimp
import Mathlib.Tactic.Ring
import Mathlib.Tactic.Abel
import Mathlib.Tactic.NormNum
/-!
# C01 — threshold signing by a qualified quorum yields a publicly valid signature (property theorems)

Pure-Mathlib statements over an arbitrary field `F` (the scalar field), an arbitrary `F`-module `G`
(the group, additive), MSPs of any shape and quorums of any size.  They are the algebra behind the
relations that `Drive/C01.lean` evaluates with `Model/SignAlg` (`ecdsaVerify`, `schnorrVerify`,
`liftedReconstruct`) on the values emitted by real protocol runs.
-/
namespace BronVerif.Props.C01
open BigOperators Matrix

variable {F G : Type*} [Field F] [AddCommGroup G] [Module F G]

section conversion
variable {ρ δ ι : Type*} [Fintype ρ] [Fintype δ] [Fintype ι] [DecidableEq δ] [DecidableEq ι]

/-- `additive_conversion` (`ConvertShareToAdditive`): for every MSP (ideal or not: `owner` may map
several rows to one holder) and every coefficient vector with `c ᵥ* M = e_z`, the per-holder values
`aᵢ = ⟨c|ᵢ, λ|ᵢ⟩` (dot product over the rows holder `i` owns) sum to the secret `r_z`; lifted version
(`ConvertLiftedShareToAdditive`): `Σᵢ Σ_{k owned by i} c_k • Λ_k = r_z • g` with `Λ_k = λ_k • g`. -/
theorem additive_conversion (M : Matrix ρ δ F) (r : δ → F) (z : δ) (owner : ρ → ι) (c : ρ → F)
    (hc : c ᵥ* M = Pi.single z 1) (g : G) :
    (∑ i, ∑ k ∈ Finset.univ.filter (fun k => owner k = i), c k * (M *ᵥ r) k) = r z ∧
    (∑ i, ∑ k ∈ Finset.univ.filter (fun k => owner k = i), c k • ((M *ᵥ r) k • g)) = r z • g := by
  have h : c ⬝ᵥ (M *ᵥ r) = r z := by
    rw [Matrix.dotProduct_mulVec, hc, single_one_dotProduct]
  have h1 : (∑ i, ∑ k ∈ Finset.univ.filter (fun k => owner k = i), c k * (M *ᵥ r) k) = r z := by
    rw [Finset.sum_fiberwise]; exact h
  refine ⟨h1, ?_⟩
  rw [Finset.sum_fiberwise, ← h]
  simp only [dotProduct, Finset.sum_smul, mul_smul]

/-- holders outside the quorum contribute nothing when `c` vanishes on their rows -/
theorem additive_conversion_support (owner : ρ → ι) (c : ρ → F) (lam : ρ → F) (S : Finset ι)
    (hS : ∀ k, owner k ∉ S → c k = 0) :
    (∑ i ∈ S, ∑ k ∈ Finset.univ.filter (fun k => owner k = i), c k * lam k) = ∑ k, c k * lam k := by
  rw [← Finset.sum_fiberwise (s := Finset.univ) (g := owner) (f := fun k => c k * lam k)]
  refine Finset.sum_subset (Finset.subset_univ S) ?_
  intro i _ hi
  refine Finset.sum_eq_zero fun k hk => ?_
  have hk' : owner k = i := (Finset.mem_filter.mp hk).2
  rw [hS k (hk' ▸ hi), zero_mul]
end conversion

section zero
variable {ι : Type*} [Fintype ι] [LinearOrder ι]

/-- the PRZS summand of party `i` towards `j`: `+v i j` for `i < j`, `−v i j` for `j < i` -/
def przsTerm (v : ι → ι → G) (i j : ι) : G := if i < j then v i j else if j < i then - v i j else 0

/-- `przs_sum_zero`: with symmetric pairwise values (both ends derive the same `v` from the shared
seed) the zero shares `ζᵢ = Σ_j ±v i j` of any quorum sum to zero — in any additive group. -/
theorem przs_sum_zero (v : ι → ι → G) (hv : ∀ i j, v i j = v j i) :
    ∑ i, ∑ j, przsTerm v i j = 0 := by
  rw [← Finset.sum_product']
  refine Finset.sum_ninvolution (g := Prod.swap) ?_ ?_ (fun _ => Finset.mem_univ _) (fun p => Prod.swap_swap p)
  · rintro ⟨i, j⟩
    simp only [przsTerm, Prod.swap]
    rcases lt_trichotomy i j with h | h | h
    · simp [h, not_lt.mpr h.le, hv i j]
    · subst h; simp
    · simp [h, not_lt.mpr h.le, hv i j]
  · rintro ⟨i, j⟩ hne hswap
    have hij : j = i := by simpa [Prod.swap] using congrArg Prod.fst hswap
    subst hij
    exact hne (by simp [przsTerm])

/-- blinding additive shares with zero shares does not change their sum -/
theorem blinded_sum (a : ι → F) (ζ : ι → F) (hζ : ∑ i, ζ i = 0) : ∑ i, (a i + ζ i) = ∑ i, a i := by
  rw [Finset.sum_add_distrib, hζ, add_zero]
end zero

section ecdsa

/-- the ECDSA verification equation for group elements: `R = (m s⁻¹) • g + (r s⁻¹) • pk` -/
def EcdsaEq (g pk R : G) (m rx s : F) : Prop := (m * s⁻¹) • g + (rx * s⁻¹) • pk = R

/-- `dkls23_valid`: if the round-4 values satisfy `Σuᵢ = k·φ` and `Σwᵢ = φ·(m + rₓ·sk)` (`dkls23_sum`)
with `k, φ ≠ 0` and `m + rₓ·sk ≠ 0`, then `s = Σw / Σu` satisfies the ECDSA verification equation with
`R = k • g` (= Σ Rᵢ) and `pk = sk • g`. -/
theorem dkls23_valid (g : G) (k φ sk m rx u w : F) (hu : u = k * φ) (hw : w = φ * (m + rx * sk))
    (hk : k ≠ 0) (hφ : φ ≠ 0) (hm : m + rx * sk ≠ 0) :
    EcdsaEq g (sk • g) (k • g) m rx (w / u) := by
  unfold EcdsaEq
  rw [smul_smul, ← add_smul]
  congr 1
  subst hu hw
  field_simp

variable {ι : Type*} [Fintype ι] [DecidableEq ι]

/-- `dkls23_sum`: from the pairwise multiplication correlations `c i j + d j i = a i * χ j i`
(`a = k` for the `u` branch, `a = sk` for the `v` branch; delivered by either multiplier, C09) and
`ψ j i = φ j − χ j i`, the round-4 values `uᵢ = a i·(φ i + Σ_{j≠i} ψ j i) + Σ_{j≠i} (c i j + d i j)`
sum to `(Σ aᵢ)(Σ φᵢ)`. -/
theorem dkls23_sum (a φ : ι → F) (χ c d : ι → ι → F)
    (hmul : ∀ i j, i ≠ j → c i j + d j i = a i * χ j i) :
    (∑ i, (a i * (φ i + ∑ j ∈ Finset.univ.erase i, (φ j - χ j i))
        + ∑ j ∈ Finset.univ.erase i, (c i j + d i j))) = (∑ i, a i) * (∑ i, φ i) := by
  -- Σ_i Σ_{j≠i} d i j = Σ_i Σ_{j≠i} d j i  (swap the pair)
  have hswap : ∑ i, ∑ j ∈ Finset.univ.erase i, d i j = ∑ i, ∑ j ∈ Finset.univ.erase i, d j i := by
    rw [Finset.sum_sigma', Finset.sum_sigma']
    refine Finset.sum_bij' (fun p _ => ⟨p.2, p.1⟩) (fun p _ => ⟨p.2, p.1⟩) ?_ ?_ ?_ ?_ ?_ <;>
      simp [eq_comm]
  have hcd : ∑ i, ∑ j ∈ Finset.univ.erase i, (c i j + d i j)
      = ∑ i, ∑ j ∈ Finset.univ.erase i, a i * χ j i := by
    simp only [Finset.sum_add_distrib]
    rw [hswap, ← Finset.sum_add_distrib]
    refine Finset.sum_congr rfl fun i _ => ?_
    rw [← Finset.sum_add_distrib]
    exact Finset.sum_congr rfl fun j hj => hmul i j (Finset.ne_of_mem_erase hj).symm
  rw [Finset.sum_add_distrib, hcd, ← Finset.sum_add_distrib, Finset.sum_mul]
  refine Finset.sum_congr rfl fun i _ => ?_
  rw [← Finset.add_sum_erase Finset.univ φ (Finset.mem_univ i), ← Finset.mul_sum, ← mul_add,
    add_assoc, ← Finset.sum_add_distrib]
  congr 2
  exact Finset.sum_congr rfl fun j _ => by ring

/-- `ecdsa_normalise_valid`: replacing `s` by `−s` and `R` by `−R` (same `x`-coordinate) preserves the
verification equation — what `Aggregate`'s low-`s` normalisation does. -/
theorem ecdsa_normalise_valid (g pk R : G) (m rx s : F) (h : EcdsaEq g pk R m rx s) :
    EcdsaEq g pk (-R) m rx (-s) := by
  unfold EcdsaEq at *
  rw [← h, inv_neg, mul_neg, mul_neg, neg_smul, neg_smul, neg_add]

/-- `lindell17_valid` / `cggmp21_valid` (signature part): any `s` with `s·k = m + rₓ·x`, `k ≠ 0`,
satisfies the verification equation with `R = k⁻¹… ` in the convention `R = k • g`, `s = k⁻¹(m + rₓ x)`. -/
theorem ecdsa_valid_of_response (g : G) (k x m rx s : F) (hk : k ≠ 0) (hs : s = k⁻¹ * (m + rx * x))
    (hm : m + rx * x ≠ 0) : EcdsaEq g (x • g) (k • g) m rx s := by
  unfold EcdsaEq
  rw [smul_smul, ← add_smul]
  congr 1
  subst hs
  field_simp
end ecdsa

section schnorr
variable {ι : Type*} [Fintype ι]

/-- `lindell22_valid`: partial responses `sᵢ = σR • kᵢ + e • σP • xᵢ` (the variant's parity corrections
`σR, σP ∈ {±1}` applied consistently to nonce shares and key shares; vanilla has both `1`) aggregate to
a response satisfying `s • g = R′ + e • P′` with `R′ = σR • Σ kᵢ • g`, `P′ = σP • Σ xᵢ • g`. -/
theorem lindell22_valid (g : G) (k x : ι → F) (e σR σP : F) :
    (∑ i, (σR * k i + e * (σP * x i))) • g
      = σR • (∑ i, k i • g) + e • (σP • (∑ i, x i • g)) := by
  simp only [Finset.sum_add_distrib, add_smul, Finset.sum_smul, Finset.smul_sum, smul_smul, mul_assoc]

/-- `aggregate_perm`: the aggregated response is a function of the multiset of partial signatures only
(every aggregator, whatever order it receives them in, obtains the same signature). -/
theorem aggregate_perm (l₁ l₂ : List F) (h : l₁.Perm l₂) : l₁.sum = l₂.sum := h.sum_eq
end schnorr

section bls
variable {ρ δ : Type*} [Fintype ρ] [Fintype δ] [DecidableEq δ]
variable {G₁ G₂ T : Type*} [AddCommGroup G₁] [Module F G₁] [AddCommGroup G₂] [Module F G₂]
  [AddCommGroup T] [Module F T]

/-- `boldyreva_valid`: with a bilinear map `e : G₁ × G₂ → T` (abstract pairing, target written
additively), partial signatures `σ_k = λ_k • H` on the hashed message `H`, `λ = M r`, and coefficients
`c ᵥ* M = e_z`, the aggregate `σ = Σ c_k • σ_k` satisfies `e(pk, H) = e(g, σ)` for `pk = r_z • g`. -/
theorem boldyreva_valid (e : G₁ → G₂ → T)
    (hl : ∀ (a : F) (P : G₁) (Q : G₂), e (a • P) Q = a • e P Q)
    (hr : ∀ (a : F) (P : G₁) (Q : G₂), e P (a • Q) = a • e P Q)
    (M : Matrix ρ δ F) (r : δ → F) (z : δ) (c : ρ → F) (hc : c ᵥ* M = Pi.single z 1)
    (g : G₁) (H : G₂) :
    e (r z • g) H = e g (∑ k, c k • ((M *ᵥ r) k • H)) := by
  have h : c ⬝ᵥ (M *ᵥ r) = r z := by
    rw [Matrix.dotProduct_mulVec, hc, single_one_dotProduct]
  have hs : (∑ k, c k • ((M *ᵥ r) k • H)) = r z • H := by
    rw [← h]; simp only [dotProduct, Finset.sum_smul, mul_smul]
  rw [hs, hl, hr]
end bls

/-! ### non-vacuity -/

example : EcdsaEq (F := ℚ) (1 : ℚ) ((3 : ℚ) • (1 : ℚ)) ((2 : ℚ) • (1 : ℚ)) 5 7 ((4 * (5 + 7 * 3)) / (2 * 4)) :=
  dkls23_valid (F := ℚ) (1 : ℚ) 2 4 3 5 7 (2 * 4) (4 * (5 + 7 * 3)) rfl rfl (by norm_num) (by norm_num) (by norm_num)

example : ∑ i : Fin 3, ∑ j : Fin 3, przsTerm (fun i j => ((i : ℕ) + (j : ℕ) + 1 : ℚ)) i j = 0 :=
  przs_sum_zero _ (fun i j => by push_cast; ring)

example : ([1, 2, 3] : List ℚ).sum = ([3, 1, 2] : List ℚ).sum :=
  aggregate_perm _ _ (by decide)

end BronVerif.Props.C01
