import Mathlib.Algebra.Module.BigOperators
import Mathlib.Algebra.BigOperators.Group.Finset.Basic
import Mathlib.Algebra.Field.Defs
import Mathlib.Data.ZMod.Basic
import Mathlib.LinearAlgebra.Matrix.Notation
import BronVerif.Model.LinAlg
import BronVerif.Lemmas.GaussJordanSolve
import BronVerif.Lemmas.GaussJordanDet
import BronVerif.Lemmas.GaussJordanMatrix
import BronVerif.Lemmas.GaussJordanInverse
import BronVerif.Lemmas.LinAlgMatrix
import Mathlib.LinearAlgebra.Matrix.NonsingularInverse
import Mathlib.LinearAlgebra.Matrix.Nondegenerate
import Mathlib.LinearAlgebra.Finsupp.LinearCombination
import BronVerif.Lemmas.FpField
import Mathlib.Tactic.NormNum.Prime
/-!
# C20 — interpolation and linear algebra over the scalar fields are exact (property theorems)

The linear-solver theorems are about the very definitions the driver executes
(`Model/LinAlg.lean`: `solveAugmented`, `solveRight`, `solveLeft`, mirroring
`pkg/base/mat/solver.go`), for an arbitrary field `F`.  `Lemmas/FpField.lean` shows that the
executable `Fp p` is such a field.  Matrices are lists of rows; `dot`, `mulVec`, `vecMul`,
`transposeN` are the model's own operations.
-/
namespace BronVerif.Props.C20
open BigOperators BronVerif.LinAlg

/-- computations "in the exponent" commute with lifting: `Σ cᵢ • (yᵢ • g) = (Σ cᵢ yᵢ) • g` -/
theorem exponent_commutes {ι F G : Type*} [Field F] [AddCommGroup G] [Module F G]
    (s : Finset ι) (c y : ι → F) (g : G) :
    ∑ i ∈ s, c i • (y i • g) = (∑ i ∈ s, c i * y i) • g := by
  simp [Finset.sum_smul, mul_smul]

variable {F : Type} [Field F] [DecidableEq F]

/-- **Soundness of the mirrored Gauss–Jordan solver**: if `solveAugmented` returns `x` for the
augmented matrix `aug = [A | b]` (every row has `numVars + 1` entries) then `x` has `numVars`
entries and satisfies every row, i.e. `A x = b`. -/
theorem solveAugmented_sound (aug : Mat F) (numVars : ℕ)
    (hW : ∀ row ∈ aug, row.length = numVars + 1) (x : List F)
    (h : solveAugmented aug numVars = some x) :
    x.length = numVars ∧ ∀ row ∈ aug, dot (row.take numVars) x = row.getD numVars 0 := by
  obtain ⟨hx, hev⟩ := solveAugmented_some_ev aug numVars hW x h
  exact ⟨hx, (solves_iff_ev aug numVars x hx).mpr hev⟩

/-- **Completeness**: `solveAugmented` answers "inconsistent" only if the system `A x = b` has no
solution at all. -/
theorem solveAugmented_complete (aug : Mat F) (numVars : ℕ)
    (hW : ∀ row ∈ aug, row.length = numVars + 1) (h : solveAugmented aug numVars = none) :
    ¬ ∃ x : List F, x.length = numVars ∧
      ∀ row ∈ aug, dot (row.take numVars) x = row.getD numVars 0 := by
  rintro ⟨x, hx, hsol⟩
  exact solveAugmented_none_ev aug numVars hW h x ((solves_iff_ev aug numVars x hx).mp hsol)

/-- `SolveRight` is sound: a returned `x` satisfies `M x = b`. -/
theorem solveRight_sound (m : Mat F) (n : ℕ) (b : List F) (hm : ∀ row ∈ m, row.length = n)
    (hb : b.length = m.length) (x : List F) (h : solveRight m n b = some x) :
    x.length = n ∧ mulVec m x = b := by
  obtain ⟨hx, hs⟩ := solveAugmented_sound _ n (augmented_width m n b hm) x h
  exact ⟨hx, (augmented_solves_iff m n b x hm hb).mp hs⟩

/-- `SolveRight` is complete: it fails only if `M x = b` is unsolvable. -/
theorem solveRight_complete (m : Mat F) (n : ℕ) (b : List F) (hm : ∀ row ∈ m, row.length = n)
    (hb : b.length = m.length) (h : solveRight m n b = none) :
    ¬ ∃ x : List F, x.length = n ∧ mulVec m x = b := by
  rintro ⟨x, hx, hs⟩
  exact solveAugmented_complete _ n (augmented_width m n b hm) h
    ⟨x, hx, (augmented_solves_iff m n b x hm hb).mpr hs⟩

/-- `SolveLeft` is sound: a returned `x` has one entry per row of `M` and `x · M = r`, written with
the explicit `n`-column transpose (`(x·M)_j = Σ_i x_i M_ij`). -/
theorem solveLeft_sound (m : Mat F) (n : ℕ) (r : List F) (hr : r.length = n) (x : List F)
    (h : solveLeft m n r = some x) :
    x.length = m.length ∧ mulVec (transposeN m n) x = r :=
  solveRight_sound (transposeN m n) m.length r (transposeN_width m n)
    (by simp [transposeN, hr]) x h

/-- `SolveLeft` is complete: it fails only if no `x` with `x · M = r` exists. -/
theorem solveLeft_complete (m : Mat F) (n : ℕ) (r : List F) (hr : r.length = n)
    (h : solveLeft m n r = none) :
    ¬ ∃ x : List F, x.length = m.length ∧ mulVec (transposeN m n) x = r :=
  solveRight_complete (transposeN m n) m.length r (transposeN_width m n)
    (by simp [transposeN, hr]) h

/-- the same in terms of the model's `vecMul` (which takes the column count from the first row) -/
theorem solveLeft_sound_vecMul (m : Mat F) (n : ℕ) (r : List F) (hn : numCols m = n)
    (hr : r.length = n) (x : List F) (h : solveLeft m n r = some x) :
    x.length = m.length ∧ vecMul x m = r := by
  subst hn; exact solveLeft_sound m _ r hr x h

theorem solveLeft_complete_vecMul (m : Mat F) (n : ℕ) (r : List F) (hn : numCols m = n)
    (hr : r.length = n) (h : solveLeft m n r = none) :
    ¬ ∃ x : List F, x.length = m.length ∧ vecMul x m = r := by
  subst hn; exact solveLeft_complete m _ r hr h

/-! ### the same in Mathlib's `Matrix` vocabulary (shape of DESIGN Appendix A) -/

/-- `SolveRight` returned `x`  ⟹  `M *ᵥ x = b` -/
theorem solveRight_sound_matrix (m : Mat F) (n : ℕ) (b : List F)
    (hm : ∀ row ∈ m, row.length = n) (hb : b.length = m.length) (x : List F)
    (h : solveRight m n b = some x) :
    (toMat m.length n m).mulVec (toVec n x) = toVec m.length b := by
  obtain ⟨hx, hs⟩ := solveRight_sound m n b hm hb x h
  exact (mulVec_eq_iff m n x b hx hb).mp hs

/-- `SolveRight` failed  ⟹  no vector `v` at all satisfies `M *ᵥ v = b` -/
theorem solveRight_complete_matrix (m : Mat F) (n : ℕ) (b : List F)
    (hm : ∀ row ∈ m, row.length = n) (hb : b.length = m.length)
    (h : solveRight m n b = none) :
    ¬ ∃ v : Fin n → F, (toMat m.length n m).mulVec v = toVec m.length b := by
  rintro ⟨v, hv⟩
  refine solveRight_complete m n b hm hb h ⟨List.ofFn v, by simp, ?_⟩
  rw [mulVec_eq_iff m n _ b (by simp) hb, toVec_ofFn]
  exact hv

/-- `SolveLeft` returned `x`  ⟹  `x ᵥ* M = r` -/
theorem solveLeft_sound_matrix (m : Mat F) (n : ℕ) (r : List F) (hr : r.length = n) (x : List F)
    (h : solveLeft m n r = some x) :
    Matrix.vecMul (toVec m.length x) (toMat m.length n m) = toVec n r := by
  have h1 := solveRight_sound_matrix (transposeN m n) m.length r (transposeN_width m n)
    (by simp [transposeN, hr]) x h
  have hl : (transposeN m n).length = n := by simp [transposeN]
  rw [hl, toMat_transposeN, Matrix.mulVec_transpose] at h1
  exact h1

/-- `SolveLeft` failed  ⟹  no `v` with `v ᵥ* M = r` exists (so the target is outside the row span) -/
theorem solveLeft_complete_matrix (m : Mat F) (n : ℕ) (r : List F) (hr : r.length = n)
    (h : solveLeft m n r = none) :
    ¬ ∃ v : Fin m.length → F, Matrix.vecMul v (toMat m.length n m) = toVec n r := by
  have h1 := solveRight_complete_matrix (transposeN m n) m.length r (transposeN_width m n)
    (by simp [transposeN, hr]) h
  have hl : (transposeN m n).length = n := by simp [transposeN]
  rw [hl] at h1
  rintro ⟨v, hv⟩
  exact h1 ⟨v, by rw [toMat_transposeN, Matrix.mulVec_transpose]; exact hv⟩

/-- **Determinant**: the model's `det` (mirror of `SquareMatrix.Determinant`: forward elimination
with first-non-zero pivot search, sign flip on row swap, product of the pivots, `0` as soon as a
column has no pivot) equals Mathlib's `Matrix.det` of the same square matrix. -/
theorem det_eq (m : Mat F) (hW : ∀ row ∈ m, row.length = m.length) :
    det m = Matrix.det (toMatrix m.length m) :=
  det_eq_matrix_det m hW

/-- **`TryInv` is sound**: a returned matrix `b` is `n × n` and is the two-sided inverse of `m`
(stated for the corresponding Mathlib matrices). -/
theorem inverse_sound (m : Mat F) (hW : ∀ row ∈ m, row.length = m.length) (b : Mat F)
    (h : inverse m = some b) :
    (b.length = m.length ∧ ∀ row ∈ b, row.length = m.length) ∧
      toMatrix m.length b * toMatrix m.length m = 1 ∧
      toMatrix m.length m * toMatrix m.length b = 1 :=
  inverse_some m hW b h

/-- **`TryInv` is complete**: it reports "singular" exactly when `Matrix.det` vanishes. -/
theorem inverse_eq_none_iff_det (m : Mat F) (hW : ∀ row ∈ m, row.length = m.length) :
    inverse m = none ↔ Matrix.det (toMatrix m.length m) = 0 :=
  inverse_eq_none_iff m hW

/-- the two Go code paths agree: `Determinant ≠ 0` iff `TryInv` succeeds -/
theorem det_ne_zero_iff_inverse (m : Mat F) (hW : ∀ row ∈ m, row.length = m.length) :
    det m ≠ 0 ↔ inverse m ≠ none := by
  rw [det_eq m hW, Ne, Ne, inverse_eq_none_iff_det m hW]

/-- **`TryInv` is correct**: it returns `b` iff `det m ≠ 0` and `b` is the (well-shaped) list form of
Mathlib's `(toMatrix m)⁻¹`; in particular the answer is unique. -/
theorem inv_correct (m : Mat F) (hW : ∀ row ∈ m, row.length = m.length) (b : Mat F) :
    inverse m = some b ↔
      Matrix.det (toMatrix m.length m) ≠ 0 ∧ b.length = m.length ∧
        (∀ row ∈ b, row.length = m.length) ∧ toMatrix m.length b = (toMatrix m.length m)⁻¹ := by
  constructor
  · intro h
    obtain ⟨⟨hl, hbW⟩, hleft, _⟩ := inverse_sound m hW b h
    refine ⟨?_, hl, hbW, (Matrix.inv_eq_left_inv hleft).symm⟩
    rw [Ne, ← inverse_eq_none_iff_det m hW, h]; simp
  · rintro ⟨hd, hl, hbW, hinv⟩
    cases h : inverse m with
    | none => exact absurd ((inverse_eq_none_iff_det m hW).mp h) hd
    | some b' =>
      obtain ⟨⟨hl', hbW'⟩, hleft', _⟩ := inverse_sound m hW b' h
      congr 1
      exact eq_of_toMatrix_eq b' b m.length hl' hl hbW' hbW
        ((Matrix.inv_eq_left_inv hleft').symm.trans hinv.symm)

/-- `SolveLeft` *is* `SolveRight` on the transposed system (by definition of the model, mirroring the
in-place construction of `[Mᵀ | rᵀ]` in `SolveLeft`), also with the shape-reading `transpose` -/
theorem solveLeft_eq_solveRight_transpose (m : Mat F) (n : ℕ) (r : List F) :
    solveLeft m n r = solveRight (transposeN m n) m.length r ∧
      (numCols m = n → solveLeft m n r = solveRight (transpose m) m.length r) :=
  ⟨rfl, fun h => by subst h; rfl⟩

omit [DecidableEq F] in
/-- **`Transpose` is an involution** (`r × c` with `r, c ≥ 1`) -/
theorem transpose_transpose (m : Mat F) (c : ℕ) (hne : m ≠ []) (hW : ∀ row ∈ m, row.length = c)
    (hc : 0 < c) : transpose (transpose m) = m :=
  LinAlg.transpose_transpose m c hne hW hc

omit [DecidableEq F] in
/-- `Transpose` is Mathlib's transpose -/
theorem transpose_eq (m : Mat F) (c : ℕ) (hc : numCols m = c) :
    toMat c m.length (transpose m) = (toMat m.length c m).transpose :=
  toMat_transpose m c hc

omit [DecidableEq F] in
/-- **`TryMul` is the matrix product**: the array model `mul` read through `toMat` is `Matrix.mul` -/
theorem mul_eq (a b : Mat F) (k c : ℕ) (hb : b.length = k) (hbW : ∀ row ∈ b, row.length = c) :
    toMat a.length c (mul a b) = toMat a.length k a * toMat k c b :=
  toMat_mul a b a.length k c rfl hb (rows_le_numCols_of_shape b c hbW)

omit [DecidableEq F] in
/-- hence **associativity** of the array product (shapes `r × k`, `k × l`, `l × s`; `Matrix.mul_assoc`) -/
theorem mul_assoc (a b c : Mat F) (k l s : ℕ) (hb : b.length = k) (hc : c.length = l)
    (hbW : ∀ row ∈ b, row.length = l) (hcW : ∀ row ∈ c, row.length = s) :
    toMat a.length s (mul (mul a b) c) = toMat a.length s (mul a (mul b c)) := by
  have h1 := toMat_mul (mul a b) c a.length l s (mul_length a b) hc (rows_le_numCols_of_shape c s hcW)
  have h2 := toMat_mul a b a.length k l rfl hb (rows_le_numCols_of_shape b l hbW)
  have h3 := toMat_mul a (mul b c) a.length k s rfl ((mul_length b c).trans hb)
    (rows_le_numCols_of_shape _ _ (mul_row_length b c))
  have h4 := toMat_mul b c k l s hb hc (rows_le_numCols_of_shape c s hcW)
  rw [h1, h2, h3, h4, Matrix.mul_assoc]

/-- the product with the inverse returned by `TryInv` is the identity, in the array model's own `mul` -/
theorem mul_inverse (m : Mat F) (hW : ∀ row ∈ m, row.length = m.length) (b : Mat F)
    (h : inverse m = some b) :
    toMat m.length m.length (mul m b) = 1 ∧ toMat m.length m.length (mul b m) = 1 := by
  obtain ⟨⟨hl, hbW⟩, hleft, hright⟩ := inverse_sound m hW b h
  constructor
  · rw [mul_eq m b m.length m.length hl hbW]; exact hright
  · rw [toMat_mul b m m.length m.length m.length hl rfl (rows_le_numCols_of_shape m _ hW)]
    exact hleft

/-! ### completeness corollaries: rank-deficient, over- and under-determined systems -/

/-- **`SolveRight` succeeds exactly on the solvable systems**, whatever the shape and rank -/
theorem solveRight_isSome_iff (m : Mat F) (n : ℕ) (b : List F) (hm : ∀ row ∈ m, row.length = n)
    (hb : b.length = m.length) :
    (solveRight m n b).isSome ↔ ∃ v : Fin n → F, (toMat m.length n m).mulVec v = toVec m.length b := by
  cases h : solveRight m n b with
  | none =>
    simp only [Option.isSome_none, Bool.false_eq_true, false_iff]
    exact solveRight_complete_matrix m n b hm hb h
  | some x =>
    simp only [Option.isSome_some, true_iff]
    exact ⟨_, solveRight_sound_matrix m n b hm hb x h⟩

/-- a right-hand side in the image (`b = M x₀`; this is the harness's `inSpan` oracle) is always
solved — also when `M` is rank-deficient or has more rows than columns (over-determined) or fewer
(under-determined; the returned solution then need not be `x₀`) -/
theorem solveRight_of_image (m : Mat F) (n : ℕ) (x₀ : List F) (hm : ∀ row ∈ m, row.length = n)
    (hx : x₀.length = n) :
    ∃ x, solveRight m n (mulVec m x₀) = some x ∧ x.length = n ∧ mulVec m x = mulVec m x₀ := by
  have hb : (mulVec m x₀).length = m.length := by simp [mulVec]
  cases h : solveRight m n (mulVec m x₀) with
  | none => exact absurd ⟨x₀, hx, rfl⟩ (solveRight_complete m n _ hm hb h)
  | some x => exact ⟨x, rfl, solveRight_sound m n _ hm hb x h⟩

/-- the homogeneous system is always solved (every shape, every rank) -/
theorem solveRight_zero_rhs (m : Mat F) (n : ℕ) (hm : ∀ row ∈ m, row.length = n) :
    (solveRight m n (List.replicate m.length 0)).isSome := by
  rw [solveRight_isSome_iff m n _ hm (by simp)]
  refine ⟨0, ?_⟩
  rw [Matrix.mulVec_zero]
  funext i
  simp [toVec, List.getD_eq_getElem?_getD]

/-- full row rank (e.g. an under-determined system with independent equations): every right-hand
side is solved -/
theorem solveRight_of_surjective (m : Mat F) (n : ℕ) (hm : ∀ row ∈ m, row.length = n)
    (hsurj : Function.Surjective (toMat m.length n m).mulVec) (b : List F) (hb : b.length = m.length) :
    (solveRight m n b).isSome :=
  (solveRight_isSome_iff m n b hm hb).mpr (hsurj _)

/-- square non-singular system: `SolveRight` returns **the** solution `M⁻¹ b` -/
theorem solveRight_nonsingular (m : Mat F) (b : List F) (hm : ∀ row ∈ m, row.length = m.length)
    (hb : b.length = m.length) (hd : Matrix.det (toMatrix m.length m) ≠ 0) :
    ∃ x, solveRight m m.length b = some x ∧
      toVec m.length x = (toMatrix m.length m)⁻¹.mulVec (toVec m.length b) := by
  have hunit : IsUnit (toMatrix m.length m).det := isUnit_iff_ne_zero.mpr hd
  have hsol : (toMat m.length m.length m).mulVec ((toMatrix m.length m)⁻¹.mulVec (toVec m.length b))
      = toVec m.length b := by
    show (toMatrix m.length m).mulVec _ = _
    rw [Matrix.mulVec_mulVec, Matrix.mul_nonsing_inv _ hunit, Matrix.one_mulVec]
  cases h : solveRight m m.length b with
  | none => exact absurd ⟨_, hsol⟩ (solveRight_complete_matrix m m.length b hm hb h)
  | some x =>
    refine ⟨x, rfl, ?_⟩
    have hx := solveRight_sound_matrix m m.length b hm hb x h
    exact Matrix.mulVec_injective_of_det_ne_zero (M := toMatrix m.length m) hd (hx.trans hsol.symm)

/-- singular square system (rank-deficient): `SolveRight` still answers correctly — it succeeds iff
`b` is in the column space — while `TryInv` refuses -/
theorem solveRight_singular (m : Mat F) (b : List F) (hm : ∀ row ∈ m, row.length = m.length)
    (hb : b.length = m.length) (hd : Matrix.det (toMatrix m.length m) = 0) :
    inverse m = none ∧
      ((solveRight m m.length b).isSome ↔
        ∃ v : Fin m.length → F, (toMatrix m.length m).mulVec v = toVec m.length b) :=
  ⟨(inverse_eq_none_iff_det m hm).mpr hd, solveRight_isSome_iff m m.length b hm hb⟩

/-- **`SolveLeft` succeeds exactly when the target is in the row span** of `M` (the reconstruction
question of every linear secret-sharing scheme in the library) -/
theorem solveLeft_isSome_iff_mem_rowSpan (m : Mat F) (n : ℕ) (r : List F) (hr : r.length = n) :
    (solveLeft m n r).isSome ↔
      toVec n r ∈ Submodule.span F (Set.range fun i : Fin m.length => (toMat m.length n m) i) := by
  rw [Submodule.mem_span_range_iff_exists_fun]
  simp only [← Matrix.vecMul_eq_sum]
  cases h : solveLeft m n r with
  | none =>
    simp only [Option.isSome_none, Bool.false_eq_true, false_iff]
    exact solveLeft_complete_matrix m n r hr h
  | some x =>
    simp only [Option.isSome_some, true_iff]
    exact ⟨_, solveLeft_sound_matrix m n r hr x h⟩

/-! ### non-vacuity: concrete systems over `ZMod 7` -/

local instance : Fact (Nat.Prime 7) := ⟨by norm_num⟩

/-- `x + 2y = 3, 3x + y = 2` has the unique solution `(3, 0)`… evaluated by the model -/
example : solveAugmented (F := ZMod 7) [[1, 2, 3], [3, 1, 2]] 2 = some [3, 0] := by decide +kernel
/-- an inconsistent system: `x + 2y = 3, 2x + 4y = 0` -/
example : solveAugmented (F := ZMod 7) [[1, 2, 3], [2, 4, 0]] 2 = none := by decide +kernel
/-- a rank-deficient consistent system with a free variable (set to zero) -/
example : solveAugmented (F := ZMod 7) [[0, 2, 4], [0, 1, 2]] 2 = some [0, 2] := by decide +kernel
example : ∀ row ∈ ([[1, 2, 3], [3, 1, 2]] : Mat (ZMod 7)), row.length = 2 + 1 := by decide
example : solveRight (F := ZMod 7) [[1, 2], [3, 1]] 2 [3, 2] = some [3, 0] := by decide +kernel
example : solveRight (F := ZMod 7) [[1, 2], [2, 4]] 2 [3, 0] = none := by decide +kernel
example : solveLeft (F := ZMod 7) [[1, 3], [2, 1]] 2 [3, 2] = some [3, 0] := by decide +kernel
example : solveLeft (F := ZMod 7) [[1, 2], [2, 4]] 2 [3, 0] = none := by decide +kernel
example : numCols ([[1, 3], [2, 1]] : Mat (ZMod 7)) = 2 := by decide
/-- a determinant that needs a row swap (`-2·3 = 1 mod 7`), and a singular matrix -/
example : det ([[0, 2], [3, 4]] : Mat (ZMod 7)) = 1 := by decide +kernel
example : det ([[1, 2], [2, 4]] : Mat (ZMod 7)) = 0 := by decide +kernel
example : toMatrix 2 ([[0, 2], [3, 4]] : Mat (ZMod 7)) = !![0, 2; 3, 4] := by decide +kernel
example : inverse ([[0, 2], [3, 4]] : Mat (ZMod 7)) = some [[4, 5], [4, 0]] := by decide +kernel
example : inverse ([[1, 2], [2, 4]] : Mat (ZMod 7)) = none := by decide +kernel
example : ∀ row ∈ ([[0, 2], [3, 4]] : Mat (ZMod 7)), row.length = 2 := by decide

/-- over-determined (3 equations, 2 unknowns): consistent, and inconsistent -/
example : solveRight (F := ZMod 7) [[1, 2], [3, 1], [4, 3]] 2 [3, 2, 5] = some [3, 0] := by decide +kernel
example : solveRight (F := ZMod 7) [[1, 2], [3, 1], [4, 3]] 2 [3, 2, 6] = none := by decide +kernel
/-- under-determined (1 equation, 3 unknowns; two free variables set to zero), and rank-deficient
under-determined inconsistent -/
example : solveRight (F := ZMod 7) [[0, 2, 1]] 3 [4] = some [0, 2, 0] := by decide +kernel
example : solveRight (F := ZMod 7) [[1, 2, 3], [2, 4, 6]] 3 [1, 3] = none := by decide +kernel
/-- a permutation matrix: two swaps, determinant `+1`; one swap, determinant `-1` -/
example : det ([[0, 1, 0], [0, 0, 1], [1, 0, 0]] : Mat (ZMod 7)) = 1 := by decide +kernel
example : det ([[0, 1, 0], [1, 0, 0], [0, 0, 1]] : Mat (ZMod 7)) = 6 := by decide +kernel
example : mul ([[1, 2], [3, 4]] : Mat (ZMod 7)) [[0, 1, 1], [1, 0, 2]] = [[2, 1, 5], [4, 3, 4]] := by
  decide +kernel
example : transpose ([[1, 2, 3], [4, 5, 6]] : Mat (ZMod 7)) = [[1, 4], [2, 5], [3, 6]] := by decide +kernel
example : ([[1, 2, 3], [4, 5, 6]] : Mat (ZMod 7)) ≠ [] ∧
    ∀ row ∈ ([[1, 2, 3], [4, 5, 6]] : Mat (ZMod 7)), row.length = 3 := by decide
example : Matrix.det (toMatrix 2 ([[0, 2], [3, 4]] : Mat (ZMod 7))) ≠ 0 := by
  have h := det_eq ([[0, 2], [3, 4]] : Mat (ZMod 7)) (by decide)
  have h2 : det ([[0, 2], [3, 4]] : Mat (ZMod 7)) ≠ 0 := by decide +kernel
  rw [h] at h2; exact h2

/-- `inv_correct` read left to right on a concrete inverse; `SolveLeft` as `SolveRight` of the transpose;
a consistent over-determined rank-1 system handed to `solveRight_of_image` -/
example : toMatrix 2 ([[4, 5], [4, 0]] : Mat (ZMod 7)) = (toMatrix 2 ([[0, 2], [3, 4]] : Mat (ZMod 7)))⁻¹ :=
  ((inv_correct ([[0, 2], [3, 4]] : Mat (ZMod 7)) (by decide) _).mp (by decide +kernel)).2.2.2
example : solveLeft ([[1, 3], [2, 1]] : Mat (ZMod 7)) 2 [3, 2]
    = solveRight (transpose [[1, 3], [2, 1]]) 2 [3, 2] :=
  (solveLeft_eq_solveRight_transpose _ 2 _).2 (by decide)
example : ∃ x, solveRight ([[1, 2], [2, 4], [3, 6]] : Mat (ZMod 7)) 2
      (mulVec [[1, 2], [2, 4], [3, 6]] [5, 1]) = some x ∧ x.length = 2 ∧
    mulVec ([[1, 2], [2, 4], [3, 6]] : Mat (ZMod 7)) x = mulVec [[1, 2], [2, 4], [3, 6]] [5, 1] :=
  solveRight_of_image _ 2 [5, 1] (by decide) rfl

/-! ### the executable field `Fp p`

`Lemmas/FpField.lean` builds `Field (Fp p)` from the executable operations, so the theorems above
apply verbatim to the model as the driver instantiates it (instances `Fp.instMul`, `Fp.instSub`,
`Fp.instInvOfNeZeroNat` = Fermat inverse, …). -/
section Fp
open BronVerif.Fp
variable {p : ℕ} [Fact p.Prime]

/-- the field structure on `Fp p` computes with the executable operations: the solver taken at
the `Field`-derived notation *is* the solver the driver runs (definitional equality) -/
theorem det_inverse_Fp_instances :
    (@det (Fp p) Fp.instMul Fp.instSub Fp.instNegOfNeZeroNat Fp.instInvOfNeZeroNat
        Fp.instOfNatOfNeZeroNat Fp.instOfNatOfNeZeroNat Fp.instDecidableEq =
      @det (Fp p) instField.toMul instField.toSub instField.toNeg instField.toInv Zero.toOfNat0
        One.toOfNat1 Fp.instDecidableEq) ∧
    (@inverse (Fp p) Fp.instMul Fp.instSub Fp.instInvOfNeZeroNat Fp.instOfNatOfNeZeroNat
        Fp.instOfNatOfNeZeroNat Fp.instDecidableEq =
      @inverse (Fp p) instField.toMul instField.toSub instField.toInv Zero.toOfNat0 One.toOfNat1
        Fp.instDecidableEq) := ⟨rfl, rfl⟩

theorem solveAugmented_Fp_instances :
    @solveAugmented (Fp p) Fp.instMul Fp.instSub Fp.instInvOfNeZeroNat Fp.instOfNatOfNeZeroNat
      Fp.instDecidableEq =
    @solveAugmented (Fp p) instField.toMul instField.toSub instField.toInv Zero.toOfNat0
      Fp.instDecidableEq := rfl

/-- soundness of `SolveRight` over the executable prime field, stated with the driver's
instances (`x.length = n ∧ M x = b`) -/
theorem solveRight_sound_Fp (m : Mat (Fp p)) (n : ℕ) (b : List (Fp p))
    (hm : ∀ row ∈ m, row.length = n) (hb : b.length = m.length) (x : List (Fp p))
    (h : @solveRight (Fp p) Fp.instMul Fp.instSub Fp.instInvOfNeZeroNat Fp.instOfNatOfNeZeroNat
      Fp.instDecidableEq m n b = some x) :
    x.length = n ∧
      @mulVec (Fp p) Fp.instAdd Fp.instMul Fp.instOfNatOfNeZeroNat m x = b :=
  solveRight_sound m n b hm hb x h

/-- completeness of `SolveRight` over the executable prime field -/
theorem solveRight_complete_Fp (m : Mat (Fp p)) (n : ℕ) (b : List (Fp p))
    (hm : ∀ row ∈ m, row.length = n) (hb : b.length = m.length)
    (h : @solveRight (Fp p) Fp.instMul Fp.instSub Fp.instInvOfNeZeroNat Fp.instOfNatOfNeZeroNat
      Fp.instDecidableEq m n b = none) :
    ¬ ∃ x : List (Fp p), x.length = n ∧
      @mulVec (Fp p) Fp.instAdd Fp.instMul Fp.instOfNatOfNeZeroNat m x = b :=
  solveRight_complete m n b hm hb h

example : solveRight (F := Fp 7) [[1, 2], [3, 1]] 2 [3, 2] = some [3, 0] := by decide +kernel
example : solveRight (F := Fp 7) [[1, 2], [2, 4]] 2 [3, 0] = none := by decide +kernel
example : (3 : Fp 7)⁻¹ = 5 := by decide +kernel
example : det ([[0, 2], [3, 4]] : Mat (Fp 7)) = 1 := by decide +kernel
end Fp

end BronVerif.Props.C20
