import Mathlib.Algebra.Module.BigOperators
import Mathlib.Algebra.BigOperators.Group.Finset.Basic
import Mathlib.Algebra.Field.Defs
import BronVerif.Model.LinAlg
/-!
# C20 — interpolation and linear algebra over the scalar fields are exact (property theorems)
-/
namespace BronVerif.Props.C20
open BigOperators

/-- computations "in the exponent" commute with lifting: `Σ cᵢ • (yᵢ • g) = (Σ cᵢ yᵢ) • g` -/
theorem exponent_commutes {ι F G : Type*} [Field F] [AddCommGroup G] [Module F G]
    (s : Finset ι) (c y : ι → F) (g : G) :
    ∑ i ∈ s, c i • (y i • g) = (∑ i ∈ s, c i * y i) • g := by
  simp [Finset.sum_smul, mul_smul]

end BronVerif.Props.C20
