import Mathlib.Data.Set.Function
import Mathlib.Data.Finset.Basic
import Mathlib.Algebra.BigOperators.Group.Finset.Basic
import Mathlib.Algebra.BigOperators.Group.List.Basic
import BronVerif.Lemmas.SessionBytes
/-!
# C10 — session setup gives all parties the same context and symmetric pairwise secrets

All statements are about the definitions of `Model/Session.lean`, which the driver executes on every
harness line with the SHA3-512 / cSHAKE256 / BLAKE2b models plugged in.  Here the hash functions are
arbitrary (`H : Hashes`, `C`), and "no collision among the inputs that occur" is the hypothesis
`Set.InjOn … S` (never global injectivity).
-/
namespace BronVerif.Props.C10
open BronVerif.Session

/-! ## common seed / session id -/

/-- The framing of the common seed (`Round4`: domain separator, 64-bit count, then per party the
64-bit ID and four 32-byte fields) is injective. -/
theorem common_seed_frame_injective {es es' : List (Nat × Contribution)}
    (hl : es.length < 2 ^ 64) (hl' : es'.length < 2 ^ 64)
    (hw : ∀ e ∈ es, EntryWF e) (hw' : ∀ e ∈ es', EntryWF e)
    (h : commonSeedFrame es = commonSeedFrame es') : es = es' :=
  (commonSeedFrame_append_inj (r := []) (r' := []) hl hl' hw hw' (by simpa using h)).1

example : ∃ es : List (Nat × Contribution), es.length = 2 ∧ es.length < 2 ^ 64 ∧ ∀ e ∈ es, EntryWF e :=
  ⟨[(1, ⟨List.replicate 32 1, List.replicate 32 2, List.replicate 32 3, List.replicate 32 4⟩),
    (2 ^ 64 - 1, ⟨List.replicate 32 5, List.replicate 32 6, List.replicate 32 7, List.replicate 32 8⟩)],
   rfl, by norm_num, by
    intro e he
    simp only [List.mem_cons, List.not_mem_nil, or_false] at he
    rcases he with rfl | rfl <;> simp [EntryWF]⟩

/-- the broadcasts a party holds are well formed: 64-bit IDs, 32-byte fields (Go: fixed-size arrays) -/
def ViewWF (q : List Nat) (view : Nat → Contribution) : Prop :=
  q.length < 2 ^ 64 ∧ ∀ i ∈ q, EntryWF (i, view i)

/-- Equal broadcasts ⇒ equal common seed, hence equal session id and equal transcript
initialisation, in whatever order each party holds the quorum. -/
theorem sid_agree (H : Hashes) {q q' : List Nat} (hq : q.Perm q') {view view' : Nat → Contribution}
    (hv : ∀ i ∈ q, view i = view' i) :
    commonSeed q view = commonSeed q' view' ∧
    sidOf H (commonSeed q view) = sidOf H (commonSeed q' view') ∧
    tinitOf H (commonSeed q view) = tinitOf H (commonSeed q' view') := by
  have h : commonSeed q view = commonSeed q' view' := by
    unfold commonSeed
    rw [← sortIds_eq_of_perm hq]
    congr 1
    apply List.map_congr_left
    intro i hi
    rw [hv i (by simpa using hi)]
  exact ⟨h, by rw [h], by rw [h]⟩

example : [3, 1, 2].Perm [1, 2, 3] ∧ sortIds [3, 1, 2] = sortIds [1, 2, 3] :=
  ⟨by decide, sortIds_eq_of_perm (by decide)⟩

/-- the common seed determines the (sorted) quorum and every member's broadcast contribution -/
theorem common_seed_injective {q q' : List Nat} {view view' : Nat → Contribution}
    (hw : ViewWF q view) (hw' : ViewWF q' view') (h : commonSeed q view = commonSeed q' view') :
    sortIds q = sortIds q' ∧ ∀ i ∈ q, view i = view' i := by
  have h1 := common_seed_frame_injective (by simpa using hw.1) (by simpa using hw'.1)
    (by intro e he
        simp only [List.mem_map, mem_sortIds] at he
        obtain ⟨i, hi, rfl⟩ := he
        exact hw.2 i hi)
    (by intro e he
        simp only [List.mem_map, mem_sortIds] at he
        obtain ⟨i, hi, rfl⟩ := he
        exact hw'.2 i hi) h
  have h2 : sortIds q = sortIds q' := by
    have := congrArg (List.map Prod.fst) h1
    simpa [List.map_map, Function.comp_def] using this
  refine ⟨h2, fun i hi => ?_⟩
  rw [← h2] at h1
  have := (List.map_inj_left.mp h1) i (by simpa using hi)
  exact (Prod.mk.injEq _ _ _ _ ▸ this).2

/-- Different contributions ⇒ different session id, when the sid hash has no collision among the
common seeds that occur. -/
theorem sid_separate (H : Hashes) (S : Set Bytes) (hH : Set.InjOn (sidOf H) S)
    {q : List Nat} {view view' : Nat → Contribution} (hw : ViewWF q view) (hw' : ViewWF q view')
    (hs : commonSeed q view ∈ S) (hs' : commonSeed q view' ∈ S)
    {i : Nat} (hi : i ∈ q) (hne : view i ≠ view' i) :
    sidOf H (commonSeed q view) ≠ sidOf H (commonSeed q view') := fun h =>
  hne ((common_seed_injective hw hw' (hH hs hs' h)).2 i hi)

/-! ## pairwise seeds -/

theorem pairSeedInput_symm (common : Bytes) {i j : Nat} (hij : i ≠ j) (a b : Bytes) :
    pairSeedInput common i j a b = pairSeedInput common j i b a := by
  unfold pairSeedInput
  rcases Nat.lt_or_gt_of_ne hij with h | h
  · simp [h, Nat.lt_asymm h]
  · simp [h, Nat.lt_asymm h]

/-- Both ends of a pair derive the same seed state (hence read the same bytes): the model's seed
function satisfies `seed i j = seed j i`. -/
theorem pairwise_symmetric (H : Hashes) (q : List Nat) (view : Nat → Contribution) (c : Nat → Nat → Bytes)
    {i j : Nat} (hi : i ∈ q) (hj : j ∈ q) (hij : i ≠ j) :
    (honestContext H i q view c).seeds.lookup j = (honestContext H j q view c).seeds.lookup i ∧
    ((honestContext H i q view c).seeds.lookup j).isSome := by
  simp only [honestContext, newContext, lookup_map_key]
  have h1 : j ∈ (sortIds q).filter (· != i) := by simp [hj, Ne.symm hij]
  have h2 : i ∈ (sortIds q).filter (· != j) := by simp [hi, hij]
  simp only [h1, h2, if_true, Option.isSome_some, and_true, Option.some.injEq, SeedState.mk.injEq, true_and]
  unfold seedAbsorb
  rw [pairSeedInput_symm _ hij, Nat.min_comm, Nat.max_comm]

example : (1 : Nat) ∈ [2, 1] ∧ (2 : Nat) ∈ [2, 1] ∧ (1 : Nat) ≠ 2 := by decide

/-- … hence both ends read the same bytes, for every read length `n` (the harness reads 16–320 bytes). -/
theorem pairwise_symmetric_read (H : Hashes) (q : List Nat) (view : Nat → Contribution) (c : Nat → Nat → Bytes)
    {i j : Nat} (hi : i ∈ q) (hj : j ∈ q) (hij : i ≠ j) (n : Nat) :
    ((honestContext H i q view c).seeds.lookup j).map (·.read H n) =
      ((honestContext H j q view c).seeds.lookup i).map (·.read H n) := by
  rw [(pairwise_symmetric H q view c hi hj hij).1]

example : (1 : Nat) ∈ [9, 1, 10] ∧ (10 : Nat) ∈ [9, 1, 10] ∧ (1 : Nat) ≠ 10 := by decide

/-- `NewContext` called directly (any quorum size, common seed and pairwise seeds of any length):
when both ends of a pair pass the same bytes for each other, they hold the same seed state. -/
theorem newcontext_seed_symmetric (H : Hashes) (q : List Nat) (common : Bytes) (f g : Nat → Bytes)
    {i j : Nat} (hi : i ∈ q) (hj : j ∈ q) (hij : i ≠ j) (hfg : f j = g i) :
    (newContext H i q common f).seeds.lookup j = (newContext H j q common g).seeds.lookup i ∧
    ((newContext H i q common f).seeds.lookup j).isSome ∧
    (newContext H i q common f).sid = (newContext H j q common g).sid ∧
    (newContext H i q common f).tlog = (newContext H j q common g).tlog := by
  simp only [newContext, lookup_map_key]
  have h1 : j ∈ (sortIds q).filter (· != i) := by simp [hj, Ne.symm hij]
  have h2 : i ∈ (sortIds q).filter (· != j) := by simp [hi, hij]
  simp only [h1, h2, if_true, Option.isSome_some, and_true, Option.some.injEq, SeedState.mk.injEq, true_and]
  unfold seedAbsorb
  rw [hfg, Nat.min_comm, Nat.max_comm]

example : ∃ f g : Nat → Bytes, f 20 = g 3 ∧ (f 20).length = 257 :=
  ⟨fun _ => List.replicate 257 7, fun _ => List.replicate 257 7, rfl, List.length_replicate⟩

/-- the contribution of the smaller / larger ID of a pair, as party `i` holds them -/
def loOf (i j : Nat) (mine theirs : Bytes) : Bytes := if i < j then mine else theirs
def hiOf (i j : Nat) (mine theirs : Bytes) : Bytes := if i < j then theirs else mine

theorem seedAbsorb_eq (common : Bytes) (i j : Nat) (a b : Bytes) :
    seedAbsorb i j (pairSeedInput common i j a b) =
      le64 (min i j) ++ (le64 (max i j) ++ (seedDom ++ (common ++ (loOf i j a b ++ hiOf i j a b)))) := by
  unfold seedAbsorb pairSeedInput loOf hiOf
  split <;> rfl

/-- the bytes absorbed into a pairwise seed determine the pair, the whole session (all broadcast
contributions) and both pairwise contributions -/
theorem seed_absorb_injective {es es' : List (Nat × Contribution)} {i j i' j' : Nat} {a b a' b' : Bytes}
    (hl : es.length < 2 ^ 64) (hl' : es'.length < 2 ^ 64)
    (hw : ∀ e ∈ es, EntryWF e) (hw' : ∀ e ∈ es', EntryWF e)
    (hi : i < 2 ^ 64) (hj : j < 2 ^ 64) (hi' : i' < 2 ^ 64) (hj' : j' < 2 ^ 64)
    (ha : a.length = 32) (hb : b.length = 32) (ha' : a'.length = 32) (hb' : b'.length = 32)
    (h : seedAbsorb i j (pairSeedInput (commonSeedFrame es) i j a b) =
         seedAbsorb i' j' (pairSeedInput (commonSeedFrame es') i' j' a' b')) :
    min i j = min i' j' ∧ max i j = max i' j' ∧ es = es' ∧
      loOf i j a b = loOf i' j' a' b' ∧ hiOf i j a b = hiOf i' j' a' b' := by
  rw [seedAbsorb_eq, seedAbsorb_eq] at h
  obtain ⟨h1, h⟩ := List.append_inj h (by simp)
  obtain ⟨h2, h⟩ := List.append_inj h (by simp)
  have h := List.append_cancel_left h
  obtain ⟨h3, h⟩ := commonSeedFrame_append_inj hl hl' hw hw' (by simpa using h)
  have hlo : (loOf i j a b).length = (loOf i' j' a' b').length := by
    unfold loOf; split <;> split <;> omega
  obtain ⟨h4, h5⟩ := List.append_inj h hlo
  refine ⟨le64_inj ?_ ?_ h1, le64_inj ?_ ?_ h2, h3, h4, h5⟩ <;> omega

/-- Seeds of different pairs, of different sessions, or built from different contributions differ:
equal seed bytes are read only for the same pair in the same session with the same contributions —
provided the seed XOF has no collision among the absorbed inputs that occur. -/
theorem pairwise_distinct (H : Hashes) (n : Nat) (S : Set Bytes)
    (hX : Set.InjOn (fun x => SeedState.read H ⟨seedLabel, x⟩ n) S)
    {es es' : List (Nat × Contribution)} {i j i' j' : Nat} {a b a' b' : Bytes}
    (hl : es.length < 2 ^ 64) (hl' : es'.length < 2 ^ 64)
    (hw : ∀ e ∈ es, EntryWF e) (hw' : ∀ e ∈ es', EntryWF e)
    (hi : i < 2 ^ 64) (hj : j < 2 ^ 64) (hi' : i' < 2 ^ 64) (hj' : j' < 2 ^ 64)
    (ha : a.length = 32) (hb : b.length = 32) (ha' : a'.length = 32) (hb' : b'.length = 32)
    (hs : seedAbsorb i j (pairSeedInput (commonSeedFrame es) i j a b) ∈ S)
    (hs' : seedAbsorb i' j' (pairSeedInput (commonSeedFrame es') i' j' a' b') ∈ S)
    (h : SeedState.read H ⟨seedLabel, seedAbsorb i j (pairSeedInput (commonSeedFrame es) i j a b)⟩ n =
         SeedState.read H ⟨seedLabel, seedAbsorb i' j' (pairSeedInput (commonSeedFrame es') i' j' a' b')⟩ n) :
    min i j = min i' j' ∧ max i j = max i' j' ∧ es = es' ∧
      loOf i j a b = loOf i' j' a' b' ∧ hiOf i j a b = hiOf i' j' a' b' :=
  seed_absorb_injective hl hl' hw hw' hi hj hi' hj' ha hb ha' hb' (hX hs hs' h)

-- the hypotheses are satisfiable with a collision-free XOF (the identity padded by 32 bytes)
example : ∃ H : Hashes, ∀ n, Set.InjOn (fun x => SeedState.read H ⟨seedLabel, x⟩ n) {x | x.length = n} :=
  ⟨⟨id, fun _ m n => List.replicate 32 0 ++ m.take n⟩, by
    intro n x hx y hy h
    simp only [Set.mem_ofPred_eq] at hx hy
    simpa [SeedState.read, List.take_of_length_le, hx, hy] using h⟩

/-! ## sub-contexts -/

theorem subQuorumData_perm {sub sub' : List Nat} (h : sub.Perm sub') : subQuorumData sub = subQuorumData sub' := by
  unfold subQuorumData; rw [sortIds_eq_of_perm h]

/-- Members of the same sub-quorum (each holding it in any order) that agree on the parent context
derive the same sub-context: same sid, same quorum, same transcript state. -/
theorem subcontext_agree (H : Hashes) {ca cb : Ctx} {sub sub' : List Nat} (hp : sub.Perm sub')
    (hsid : ca.sid = cb.sid) (hlog : ca.tlog = cb.tlog) :
    (subContext H ca sub).sid = (subContext H cb sub').sid ∧
    (subContext H ca sub).quorum = (subContext H cb sub').quorum ∧
    (subContext H ca sub).tlog = (subContext H cb sub').tlog := by
  simp only [subContext, hsid, hlog, subQuorumData_perm hp, sortIds_eq_of_perm hp, and_self]

/-- … and symmetric pairwise seeds: if the parents' seeds for each other are equal, so are the
sub-contexts' seeds. -/
theorem subcontext_seed_symmetric (H : Hashes) {ca cb : Ctx} {sub sub' : List Nat} (hp : sub.Perm sub')
    (ha : ca.holder ∈ sub) (hb : cb.holder ∈ sub) (hne : ca.holder ≠ cb.holder)
    (hsym : ca.seeds.lookup cb.holder = cb.seeds.lookup ca.holder) :
    (subContext H ca sub).seeds.lookup cb.holder = (subContext H cb sub').seeds.lookup ca.holder ∧
    ((subContext H ca sub).seeds.lookup cb.holder).isSome := by
  simp only [subContext, lookup_map_key]
  have h1 : cb.holder ∈ (sortIds sub).filter (· != ca.holder) := by simp [hb, Ne.symm hne]
  have h2 : ca.holder ∈ (sortIds sub').filter (· != cb.holder) := by simp [hp.mem_iff.mp ha, hne]
  simp only [h1, h2, if_true, Option.isSome_some, and_true, Option.some.injEq, SeedState.mk.injEq, true_and]
  unfold subSeedAbsorb
  rw [hsym, subQuorumData_perm hp]

/-- Nested sub-contexts: members that walk the same chain of sub-quorums (each level held in any
order) from agreeing parents end with the same sid, quorum and transcript state. -/
theorem subcontext_chain_agree (H : Hashes) {chain chain' : List (List Nat)}
    (hp : List.Forall₂ List.Perm chain chain') {ca cb : Ctx}
    (hsid : ca.sid = cb.sid) (hq : ca.quorum = cb.quorum) (hlog : ca.tlog = cb.tlog) :
    (chain.foldl (subContext H) ca).sid = (chain'.foldl (subContext H) cb).sid ∧
    (chain.foldl (subContext H) ca).quorum = (chain'.foldl (subContext H) cb).quorum ∧
    (chain.foldl (subContext H) ca).tlog = (chain'.foldl (subContext H) cb).tlog := by
  induction hp generalizing ca cb with
  | nil => exact ⟨hsid, hq, hlog⟩
  | cons h _ ih =>
    obtain ⟨h1, h2, h3⟩ := subcontext_agree H h hsid hlog
    exact ih h1 h2 h3

example : List.Forall₂ List.Perm [[2, 3, 4, 5], [5, 3], [3, 5]] [[5, 4, 3, 2], [3, 5], [5, 3]] :=
  .cons (by decide) (.cons (by decide) (.cons (by decide) .nil))

/-- the transcript input of an extraction after `SubContext` determines the sub-quorum frame -/
theorem tExtractInput_sub_inj {log label d d' : Bytes} {n : Nat}
    (h : tExtractInput (log ++ tAppend subQuorumLabel d) label n =
         tExtractInput (log ++ tAppend subQuorumLabel d') label n) : d = d' := by
  simp only [tExtractInput, tAppend, List.append_assoc, List.cons_append] at h
  have h := List.append_cancel_left h
  simp only [List.cons.injEq, true_and] at h
  have h := List.append_cancel_left h
  have h := List.append_cancel_left h
  have h := List.append_cancel_left h
  obtain ⟨_, h⟩ := List.append_inj h (by simp)
  exact List.append_cancel_right h

/-- Contexts of different sub-quorums are separated: the transcript extractions differ (no
collision of the transcript XOF among the inputs that occur) … -/
theorem subcontext_separate (H : Hashes) (n : Nat) (S : Set Bytes)
    (hX : Set.InjOn (fun x => H.xof (hagridName ++ transcriptName) x n) S)
    {c : Ctx} {label : Bytes} {sub sub' : List Nat}
    (hl : sub.length < 2 ^ 64) (hl' : sub'.length < 2 ^ 64)
    (hw : ∀ i ∈ sub, i < 2 ^ 64) (hw' : ∀ i ∈ sub', i < 2 ^ 64)
    (hne : sortIds sub ≠ sortIds sub')
    (hs : tExtractInput (subContext H c sub).tlog label n ∈ S)
    (hs' : tExtractInput (subContext H c sub').tlog label n ∈ S) :
    tExtract H (subContext H c sub).tlog label n ≠ tExtract H (subContext H c sub').tlog label n := by
  intro h
  have h1 := hX hs hs' h
  simp only [subContext] at h1
  have h2 := tExtractInput_sub_inj h1
  exact hne (subQuorumData_append_inj (r := []) (r' := []) hl hl' hw hw' (by simpa using h2)).1

/-- … and so do the re-derived pairwise seeds (no collision of the seed XOF). -/
theorem subcontext_seed_separate (H : Hashes) (n : Nat) (S : Set Bytes)
    (hX : Set.InjOn (fun x => SeedState.read H ⟨subContextLabel, x⟩ n) S)
    {p p' : Bytes} {sub sub' : List Nat} (hp : p.length = p'.length)
    (hl : sub.length < 2 ^ 64) (hl' : sub'.length < 2 ^ 64)
    (hw : ∀ i ∈ sub, i < 2 ^ 64) (hw' : ∀ i ∈ sub', i < 2 ^ 64)
    (hne : sortIds sub ≠ sortIds sub')
    (hs : subSeedAbsorb p sub ∈ S) (hs' : subSeedAbsorb p' sub' ∈ S) :
    SeedState.read H ⟨subContextLabel, subSeedAbsorb p sub⟩ n ≠
      SeedState.read H ⟨subContextLabel, subSeedAbsorb p' sub'⟩ n := by
  intro h
  have h1 := hX hs hs' h
  unfold subSeedAbsorb at h1
  obtain ⟨_, h2⟩ := List.append_inj h1 hp
  exact hne (subQuorumData_append_inj (r := []) (r' := []) hl hl' hw hw' (by simpa using h2)).1

example : sortIds [5, 3] ≠ sortIds [3, 7, 5] ∧ sortIds [5, 3] = sortIds [3, 5] :=
  ⟨fun h => by have := congrArg List.length h; simp at this, sortIds_eq_of_perm (by decide)⟩

/-! ## pseudorandom zero shares -/

/-- For symmetric `v` and the sign chosen by ID order, the shares of any finite quorum sum to zero
in any additive commutative group. -/
theorem przs_sum_zero {G : Type*} [AddCommGroup G] (Q : Finset ℕ) (v : ℕ → ℕ → G)
    (hv : ∀ i j, v i j = v j i) :
    ∑ i ∈ Q, ∑ j ∈ Q.erase i, (if j < i then - v i j else v i j) = 0 := by
  induction Q using Finset.induction_on with
  | empty => simp
  | insert a Q ha ih =>
    rw [Finset.sum_insert ha, Finset.erase_insert ha]
    have h1 : ∀ i ∈ Q, ∑ j ∈ (insert a Q).erase i, (if j < i then - v i j else v i j)
        = (if a < i then - v i a else v i a) + ∑ j ∈ Q.erase i, (if j < i then - v i j else v i j) := by
      intro i hi
      have hia : a ≠ i := fun h => ha (h ▸ hi)
      rw [Finset.erase_insert_of_ne hia, Finset.sum_insert (by simp [ha])]
    rw [Finset.sum_congr rfl h1, Finset.sum_add_distrib, ih, add_zero, ← Finset.sum_add_distrib]
    apply Finset.sum_eq_zero
    intro j hj
    have hja : j ≠ a := fun h => ha (h ▸ hj)
    rcases Nat.lt_or_gt_of_ne hja with h | h
    · simp [h, Nat.lt_asymm h, hv j a]
    · simp [h, Nat.lt_asymm h, hv j a]

example : ∃ v : ℕ → ℕ → ℤ, (∀ i j, v i j = v j i) ∧ v 1 2 ≠ 0 := ⟨fun i j => i + j, fun i j => by ring, by norm_num⟩

theorem zeroShare_eq_sum {G : Type} [AddCommGroup G] (me : ℕ) (peers : List (ℕ × G)) :
    zeroShare me peers = (peers.map fun jv => if jv.1 < me then - jv.2 else jv.2).sum := by
  unfold zeroShare zeroShareWith
  have : ∀ (acc : G), List.foldl (fun acc (jv : ℕ × G) => acc + (if jv.1 < me then - jv.2 else jv.2)) acc peers
      = acc + (peers.map fun jv => if jv.1 < me then - jv.2 else jv.2).sum := by
    induction peers with
    | nil => simp
    | cons x xs ih => intro acc; simp [ih, add_assoc]
  simpa using this 0

/-- The model's `zeroShare` (the fold `przs.SampleZeroShare` performs, which the driver executes):
for any duplicate-free quorum list and symmetric per-pair elements the shares sum to zero. -/
theorem przs_sum_zero_model {G : Type} [AddCommGroup G] (q : List ℕ) (hq : q.Nodup) (v : ℕ → ℕ → G)
    (hv : ∀ i j, v i j = v j i) :
    (q.map fun i => zeroShare i ((q.filter (· != i)).map fun j => (j, v i j))).sum = 0 := by
  have h := przs_sum_zero q.toFinset v hv
  rw [← h, List.sum_toFinset _ hq]
  congr 1
  apply List.map_congr_left
  intro i _
  rw [zeroShare_eq_sum, List.map_map]
  have hf : (q.filter (· != i)).Nodup := hq.filter _
  rw [← List.sum_toFinset _ hf]
  · congr 1
    ext j
    simp [and_comm]
  
example : ([1, 5, 9] : List ℕ).Nodup := by decide

/-- Every sub-quorum `S ⊆ Q` of every size (the elements `v S` are re-derived per sub-quorum by
`SubContext`, symmetric for each `S`): the zero shares of the members of `S` sum to zero. -/
theorem przs_subquorum_sum_zero {G : Type*} [AddCommGroup G] (Q : Finset ℕ) (v : Finset ℕ → ℕ → ℕ → G)
    (hv : ∀ S ⊆ Q, ∀ i ∈ S, ∀ j ∈ S, v S i j = v S j i) :
    ∀ S ⊆ Q, ∑ i ∈ S, ∑ j ∈ S.erase i, (if j < i then - v S i j else v S i j) = 0 := by
  intro S hS
  -- only the values on `S × S` matter: symmetrise outside
  let w : ℕ → ℕ → G := fun i j => if i ∈ S ∧ j ∈ S then v S i j else 0
  have hw : ∀ i j, w i j = w j i := by
    intro i j
    by_cases h : i ∈ S ∧ j ∈ S
    · simp only [w, h, and_self, if_true]
      exact hv S hS i h.1 j h.2
    · have h' : ¬ (j ∈ S ∧ i ∈ S) := fun hh => h hh.symm
      simp [w, h, h']
  rw [← przs_sum_zero S w hw]
  apply Finset.sum_congr rfl
  intro i hi
  apply Finset.sum_congr rfl
  intro j hj
  have hj' : j ∈ S := Finset.mem_of_mem_erase hj
  simp [w, hi, hj']

example : ({2, 9, 17} : Finset ℕ) ⊆ Finset.range 21 ∧ ({2, 9, 17} : Finset ℕ).card = 3 := by decide

/-- the same for the model's fold over a sub-quorum list `sub` (any duplicate-free list of members) -/
theorem przs_subquorum_sum_zero_model {G : Type} [AddCommGroup G] (q sub : List ℕ) (_hsub : ∀ i ∈ sub, i ∈ q)
    (hq : sub.Nodup) (v : ℕ → ℕ → G) (hv : ∀ i j, v i j = v j i) :
    (sub.map fun i => zeroShare i ((sub.filter (· != i)).map fun j => (j, v i j))).sum = 0 :=
  przs_sum_zero_model sub hq v hv

example : ([9, 10, 20] : List ℕ).Nodup ∧ ∀ i ∈ ([9, 10, 20] : List ℕ), i ∈ List.range 21 := by decide

/-! ## openings -/

theorem find?_unique {l : List Nat} {p : Nat → Bool} {s : Nat} (hs : s ∈ l) (hp : p s = true)
    (ho : ∀ t ∈ l, t ≠ s → p t = false) : l.find? p = some s := by
  induction l with
  | nil => simp at hs
  | cons a l ih =>
    by_cases ha : a = s
    · subst ha; simp [hp]
    · have h1 : p a = false := ho a (by simp) ha
      have h2 : s ∈ l := by
        rcases List.mem_cons.mp hs with h | h
        · exact absurd h.symm ha
        · exact h
      simp only [List.find?_cons, h1]
      exact ih h2 (fun t ht => ho t (by simp [ht]))

theorem blameFirst_ok {l : List Nat} {p : Nat → Bool} (h : ∀ t ∈ l, p t = false) : blameFirst l p = .ok := by
  unfold blameFirst
  have : l.find? p = none := by simpa using h
  rw [this]

/-- binding ⇒ a pairwise opening that differs from the committed one does not verify -/
theorem mismatch_not_open (C : Bytes → Bytes → Bytes) (key : Bytes) (S : Set Bytes)
    (hC : Set.InjOn (C key) S) {m w m' w' : Bytes} (hlen : w.length = w'.length)
    (hne : (m', w') ≠ (m, w)) (hS : m ++ w ∈ S) (hS' : m' ++ w' ∈ S) :
    openOk C key (C key (m ++ w)) m' w' = false := by
  unfold openOk
  rw [beq_eq_false_iff_ne]
  intro h
  obtain ⟨h1, h2⟩ := List.append_inj' (hC hS' hS h) hlen.symm
  exact hne (by rw [h1, h2])

/-- **Round 4**: a party `s` whose pairwise opening does not match its round-2 commitment is rejected
and blamed — and it is exactly `s` that is blamed when every other sender behaved.  (The tag of the
abort is the opener's ID.)  Binding is the hypothesis that keyed BLAKE2b has no collision, under
the recipient's key, among the openings that occur. -/
theorem opening_mismatch_rejected_blamed (C : Bytes → Bytes → Bytes) (myck : Bytes) (S : Set Bytes)
    (hC : Set.InjOn (C myck) S) (others : List Nat) (v : View) {s : Nat} (hs : s ∈ others)
    {m w m' w' : Bytes}
    (hcom : v.r2u s = some (C myck (m ++ w)))          -- what `s` committed to in round 2
    (hopen : v.r3u s = some (m', w'))                   -- what `s` opened in round 3
    (hvalid : badR3u v s = false)
    (hlen : w.length = w'.length) (hne : (m', w') ≠ (m, w)) (hS : m ++ w ∈ S) (hS' : m' ++ w' ∈ S)
    (hothers : ∀ t ∈ others, t ≠ s → badR3u v t = false ∧ badPairOpen C myck v t = false) :
    round4 C myck others v = .abortBlame s := by
  unfold round4
  rw [blameFirst_ok (fun t ht => by
    by_cases h : t = s
    · subst h; exact hvalid
    · exact (hothers t ht h).1)]
  simp only [Outcome.andThen, blameFirst]
  rw [find?_unique hs (by
    simp only [badPairOpen, hcom, hopen, Bool.not_eq_eq_eq_not, Bool.not_true]
    exact mismatch_not_open C myck S hC hlen hne hS hS') (fun t ht h => (hothers t ht h).2)]

/-- the same for the common (broadcast) contribution in **Round 3**, under the fixed common key -/
theorem common_opening_mismatch_rejected_blamed (C : Bytes → Bytes → Bytes) (S : Set Bytes)
    (hC : Set.InjOn (C commonKey) S) (others : List Nat) (v : View) {s : Nat} (hs : s ∈ others)
    {ck m w m' w' : Bytes}
    (hcom : v.r1 s = some (ck, C commonKey (m ++ w)))   -- round-1 commitment of `s`
    (hopen : v.r2b s = some (m', w'))                    -- round-2 opening of `s`
    (hvalid : badR2b v s = false)
    (hlen : w.length = w'.length) (hne : (m', w') ≠ (m, w)) (hS : m ++ w ∈ S) (hS' : m' ++ w' ∈ S)
    (hothers : ∀ t ∈ others, t ≠ s → badR2b v t = false ∧ badCommonOpen C v t = false)
    (hu : ∀ t ∈ others, badR2u v t = false) :
    round3 C others v = .abortBlame s := by
  unfold round3
  rw [blameFirst_ok (fun t ht => by
    by_cases h : t = s
    · subst h; exact hvalid
    · exact (hothers t ht h).1), blameFirst_ok hu]
  simp only [Outcome.andThen, blameFirst]
  rw [find?_unique hs (by
    simp only [badCommonOpen, hcom, hopen, Bool.not_eq_eq_eq_not, Bool.not_true]
    exact mismatch_not_open C commonKey S hC hlen hne hS hS') (fun t ht h => (hothers t ht h).2)]

/-- No honest party is blamed: whoever round 4 blames is one of the other parties and its message is
missing/zero or its opening does not recompute to its commitment. -/
theorem round4_blame_sound (C : Bytes → Bytes → Bytes) (myck : Bytes) (others : List Nat) (v : View) {s : Nat}
    (h : round4 C myck others v = .abortBlame s) :
    s ∈ others ∧ (badR3u v s = true ∨ badPairOpen C myck v s = true) := by
  unfold round4 blameFirst at h
  cases h1 : others.find? (badR3u v) with
  | some t =>
    rw [h1] at h
    simp only [Outcome.andThen, Outcome.abortBlame.injEq] at h
    subst h
    exact ⟨List.mem_of_find?_eq_some h1, Or.inl (List.find?_some h1)⟩
  | none =>
    rw [h1] at h
    simp only [Outcome.andThen] at h
    cases h2 : others.find? (badPairOpen C myck v) with
    | some t =>
      rw [h2] at h
      simp only [Outcome.abortBlame.injEq] at h
      subst h
      exact ⟨List.mem_of_find?_eq_some h2, Or.inr (List.find?_some h2)⟩
    | none => rw [h2] at h; cases h

-- non-vacuity: a commitment function without collisions, a cheating opener, an honest third party
example : ∃ (C : Bytes → Bytes → Bytes) (S : Set Bytes) (v : View),
    Set.InjOn (C [7]) S ∧ round4 C [7] [1, 2] v = .abortBlame 2 :=
  ⟨fun k x => k ++ x, Set.univ,
   { r1 := fun _ => none, r2b := fun _ => none,
     r2u := fun s => if s = 1 then some [7, 1, 1] else some [7, 2, 2],
     r3u := fun s => if s = 1 then some ([1], [1]) else some ([2], [3]) },
   fun _ _ _ _ h => List.append_cancel_left h, by decide⟩

end BronVerif.Props.C10
