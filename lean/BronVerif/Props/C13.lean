import Mathlib.Data.ZMod.Basic
import Mathlib.Algebra.Field.Basic
import Mathlib.Tactic.Ring
import Mathlib.Tactic.NormNum
import Mathlib.Tactic.LinearCombination
import BronVerif.Model.CurveEnc
import BronVerif.Lemmas.CurveEncBytes
/-!
# C13 — element encodings are faithful; decoders admit only valid group elements

The theorems are about the definitions of `Model/CurveEnc.lean` that the driver executes
(`Sec1`, `Pasta`, `Ed`, `Bls`, `Scalar`), instantiated there with the executable `Fp p` and here
with an arbitrary Mathlib `Field`.  What a field must provide is collected in `GoodIO`
(idealisation as a hypothesis: canonical representatives fit the byte width, `ofNat ∘ toNat = id`,
the square-root oracle is sound and complete, negation flips the parity of non-zero elements).
-/
namespace BronVerif.Props.C13
open BronVerif BronVerif.Curve BronVerif.CurveEnc BronVerif.Curves

/-- what the codecs assume about the field view (`len` = bytes per coordinate) -/
structure GoodIO {F : Type} [Field F] (io : FieldIO F) (len : Nat) : Prop where
  ofNat_toNat : ∀ x, io.ofNat (io.toNat x) = x
  ofNat_zero : io.ofNat 0 = 0
  toNat_lt : ∀ x, io.toNat x < 256 ^ len
  sqrt_sound : ∀ a r, io.sqrt? a = some r → r * r = a
  sqrt_complete : ∀ y, ∃ r, io.sqrt? (y * y) = some r
  parity_neg : ∀ y, y ≠ 0 → io.toNat (-y) % 2 ≠ io.toNat y % 2

section sec1
variable {F : Type} [Field F] [DecidableEq F] (io : FieldIO F) (a b : F) (len : Nat)

theorem onCurve_aff_iff (x y : F) : W.onCurve a b (.aff x y) = true ↔ y * y = x * x * x + a * x + b := by
  simp [W.onCurve]

/-- **decode ∘ encode, SEC1 compressed, partial**: every curve point with `x ≠ 0` (and the identity)
round-trips.  The hypothesis `x ≠ 0` cannot be dropped: see `p256_compressed_roundtrip_false`. -/
theorem decode_encode_partial (h : GoodIO io len) (P : WPt F) (hP : W.onCurve a b P = true)
    (hx : ∀ x y, P = .aff x y → x ≠ 0) :
    Sec1.decodeCompressed io a b len (Sec1.encodeCompressed io len P) = some P := by
  cases P with
  | inf =>
    have h0 : beNat (beBytes len 0) = 0 := beNat_beBytes len 0 (by positivity)
    simp [Sec1.encodeCompressed, Sec1.decodeCompressed, length_beBytes, h0, h.ofNat_zero]
  | aff x y =>
    have hx0 : x ≠ 0 := hx x y rfl
    have hxy : y * y = x * x * x + a * x + b := (onCurve_aff_iff a b x y).1 hP
    have hbx : beNat (beBytes len (io.toNat x)) = io.toNat x := beNat_beBytes _ _ (h.toNat_lt x)
    obtain ⟨r, hr⟩ := h.sqrt_complete y
    have hrr : r * r = y * y := h.sqrt_sound _ _ hr
    have hry : r = y ∨ r = -y := by
      have : (r - y) * (r + y) = 0 := by linear_combination hrr
      rcases mul_eq_zero.1 this with h1 | h1
      · left; exact sub_eq_zero.1 h1
      · right; exact eq_neg_of_add_eq_zero_left h1
    have ht : io.toNat y % 2 < 2 := Nat.mod_lt _ (by norm_num)
    have htag : ¬ (2 + io.toNat y % 2 ≠ 2 ∧ 2 + io.toNat y % 2 ≠ 3) := by omega
    have hpar : (2 + io.toNat y % 2) % 2 = io.toNat y % 2 := by omega
    simp only [Sec1.encodeCompressed, Sec1.decodeCompressed, length_beBytes, ne_eq, not_true_eq_false,
      if_false, htag, hbx, h.ofNat_toNat, hx0, ← hxy, hr, hpar]
    rcases hry with rfl | rfl
    · simp
    · by_cases hy0 : y = 0
      · subst hy0; simp
      · have := h.parity_neg y hy0
        simp [this]

/-- accepted bytes denote a point on the curve (SEC1 compressed) -/
theorem decode_valid (h : GoodIO io len) (bs : List Nat) (P : WPt F)
    (hd : Sec1.decodeCompressed io a b len bs = some P) : W.onCurve a b P = true := by
  cases bs with
  | nil => simp [Sec1.decodeCompressed] at hd
  | cons tag xs =>
    simp only [Sec1.decodeCompressed] at hd
    split at hd
    · simp at hd
    · split at hd
      · simp at hd
      · split at hd
        · cases hd; rfl
        · split at hd
          · simp at hd
          · next r hr =>
            have hrr := h.sqrt_sound _ _ hr
            cases hd
            rw [onCurve_aff_iff]
            split
            · exact hrr
            · rw [← hrr]; ring

/-- accepted bytes denote a point on the curve (SEC1 uncompressed) -/
theorem decode_valid_uncompressed (bs : List Nat) (P : WPt F)
    (hd : Sec1.decodeUncompressed io a b len bs = some P) : W.onCurve a b P = true := by
  cases bs with
  | nil => simp [Sec1.decodeUncompressed] at hd
  | cons tag xs =>
    simp only [Sec1.decodeUncompressed] at hd
    split at hd
    · simp at hd
    · split at hd
      · simp at hd
      · split at hd
        · cases hd; rfl
        · split at hd
          · next hc => cases hd; exact hc
          · simp at hd

/-- wrong length ⇒ rejected (SEC1, both forms) -/
theorem decode_len (bs : List Nat) :
    (bs.length ≠ len + 1 → Sec1.decodeCompressed io a b len bs = none) ∧
    (bs.length ≠ 2 * len + 1 → Sec1.decodeUncompressed io a b len bs = none) := by
  constructor <;> intro hl <;> cases bs with
  | nil => simp [Sec1.decodeCompressed, Sec1.decodeUncompressed]
  | cons tag xs =>
    have : xs.length ≠ len ∨ True := Or.inr trivial
    simp only [List.length_cons, ne_eq, add_left_inj] at hl
    simp [Sec1.decodeCompressed, Sec1.decodeUncompressed, hl]

/-- wrong tag byte ⇒ rejected (SEC1, both forms) -/
theorem decode_flags (tag : Nat) (xs : List Nat) :
    (tag ≠ 2 → tag ≠ 3 → Sec1.decodeCompressed io a b len (tag :: xs) = none) ∧
    (tag ≠ 4 → Sec1.decodeUncompressed io a b len (tag :: xs) = none) := by
  constructor
  · intro h2 h3; simp [Sec1.decodeCompressed, h2, h3]
  · intro h4; simp [Sec1.decodeUncompressed, h4]

/-- **decode ∘ encode, SEC1 uncompressed**: holds for *every* curve point, including `x = 0` -/
theorem decode_encode_uncompressed (h : GoodIO io len) (hb : b ≠ 0) (P : WPt F)
    (hP : W.onCurve a b P = true) :
    Sec1.decodeUncompressed io a b len (Sec1.encodeUncompressed io len P) = some P := by
  cases P with
  | inf =>
    have h0 : beNat (beBytes len 0) = 0 := beNat_beBytes len 0 (by positivity)
    have hl : (beBytes len 0 ++ beBytes len 0).length = 2 * len := by simp [length_beBytes]; omega
    simp [Sec1.encodeUncompressed, Sec1.decodeUncompressed, hl, List.take_left' (length_beBytes len 0),
      List.drop_left' (length_beBytes len 0), h0, h.ofNat_zero]
  | aff x y =>
    have hxy := (onCurve_aff_iff a b x y).1 hP
    have hbx : beNat (beBytes len (io.toNat x)) = io.toNat x := beNat_beBytes _ _ (h.toNat_lt x)
    have hby : beNat (beBytes len (io.toNat y)) = io.toNat y := beNat_beBytes _ _ (h.toNat_lt y)
    have hl : (beBytes len (io.toNat x) ++ beBytes len (io.toNat y)).length = 2 * len := by
      simp [length_beBytes]; omega
    have hne : ¬ (x = 0 ∧ y = 0) := by
      rintro ⟨rfl, rfl⟩
      apply hb
      have := hxy
      simp at this
      exact this.symm
    simp [Sec1.encodeUncompressed, Sec1.decodeUncompressed, hl, List.take_left' (length_beBytes len _),
      List.drop_left' (length_beBytes len _), hbx, hby, h.ofNat_toNat, hne, hP]

/-- distinct curve points have distinct encodings (uncompressed: all points; compressed: `x ≠ 0`) -/
theorem encode_injective (h : GoodIO io len) (hb : b ≠ 0) (P Q : WPt F)
    (hP : W.onCurve a b P = true) (hQ : W.onCurve a b Q = true) :
    (Sec1.encodeUncompressed io len P = Sec1.encodeUncompressed io len Q → P = Q) ∧
    ((∀ x y, P = .aff x y → x ≠ 0) → (∀ x y, Q = .aff x y → x ≠ 0) →
      Sec1.encodeCompressed io len P = Sec1.encodeCompressed io len Q → P = Q) := by
  constructor
  · intro he
    have h1 := decode_encode_uncompressed io a b len h hb P hP
    have h2 := decode_encode_uncompressed io a b len h hb Q hQ
    rw [he, h2] at h1
    exact (Option.some.inj h1).symm
  · intro hxP hxQ he
    have h1 := decode_encode_partial io a b len h P hP hxP
    have h2 := decode_encode_partial io a b len h Q hQ hxQ
    rw [he, h2] at h1
    exact (Option.some.inj h1).symm

/-- the full round-trip statement for the compressed form; **false** for P-256 (below) -/
def decode_encode_statement : Prop :=
  ∀ P : WPt F, W.onCurve a b P = true →
    Sec1.decodeCompressed io a b len (Sec1.encodeCompressed io len P) = some P

/-- if `b` is a square there is a curve point with `x = 0`; its compressed encoding decodes to the
identity, so the full statement fails on every such curve -/
theorem decode_encode_statement_false_of_sqrt (h : GoodIO io len) (y : F) (hy : y * y = b) :
    ¬ decode_encode_statement io a b len := by
  intro hs
  have hP : W.onCurve a b (.aff 0 y) = true := by rw [onCurve_aff_iff]; rw [hy]; ring
  have := hs _ hP
  have h0 : beNat (beBytes len (io.toNat (0 : F))) = io.toNat (0 : F) := beNat_beBytes _ _ (h.toNat_lt 0)
  simp [Sec1.encodeCompressed, Sec1.decodeCompressed, length_beBytes, h0, h.ofNat_toNat] at this

end sec1

/-! ## curves without a point `x = 0`: `b` is a quadratic non-residue (Euler, evaluated by the kernel) -/

theorem no_x0_of_euler (C : Params) [Fact C.p.Prime] (hp : 2 < C.p)
    (hodd : C.p - 1 = 2 * ((C.p - 1) / 2)) (hfuel : (C.p - 1) / 2 < 2 ^ 400)
    (h : powMod 400 C.b ((C.p - 1) / 2) C.p = C.p - 1) (y : ZMod C.p) :
    W.onCurve (F := ZMod C.p) (C.a : ZMod C.p) (C.b : ZMod C.p) (.aff 0 y) = false := by
  have := no_sqrt_of_euler C.p C.b 400 hp hfuel hodd h y
  simp only [W.onCurve, beq_eq_false_iff_ne, ne_eq]
  intro hy
  apply this
  rw [hy]; ring

theorem k256_no_x0 [Fact k256.p.Prime] (y : ZMod k256.p) :
    W.onCurve (F := ZMod k256.p) (k256.a : ZMod k256.p) (k256.b : ZMod k256.p) (.aff 0 y) = false :=
  no_x0_of_euler k256 (by decide +kernel) (by decide +kernel) (by decide +kernel) (by decide +kernel) y

theorem pallas_no_x0 [Fact pallas.p.Prime] (y : ZMod pallas.p) :
    W.onCurve (F := ZMod pallas.p) (pallas.a : ZMod pallas.p) (pallas.b : ZMod pallas.p) (.aff 0 y) = false :=
  no_x0_of_euler pallas (by decide +kernel) (by decide +kernel) (by decide +kernel) (by decide +kernel) y

theorem vesta_no_x0 [Fact vesta.p.Prime] (y : ZMod vesta.p) :
    W.onCurve (F := ZMod vesta.p) (vesta.a : ZMod vesta.p) (vesta.b : ZMod vesta.p) (.aff 0 y) = false :=
  no_x0_of_euler vesta (by decide +kernel) (by decide +kernel) (by decide +kernel) (by decide +kernel) y

/-- for contrast: the same Euler evaluation says that P-256's `b` **is** a square -/
theorem p256_b_is_residue : powMod 400 p256.b ((p256.p - 1) / 2) p256.p = 1 := by decide +kernel

/-! ## P-256: the round-trip fails on the executable model with the real constants -/

instance : NeZero p256.p := ⟨by decide +kernel⟩

/-- `√b` (even) on P-256 -/
def p256SqrtB : Nat := 0x66485c780e2f83d72433bd5d84a06bb6541c2af31dae871728bf856a174f93f4

/-- the point `(0, √b)` of P-256, in the model the driver executes -/
def p256X0 : WPt (Fp p256.p) := .aff (Fp.ofNat _ 0) (Fp.ofNat _ p256SqrtB)
def p256X0' : WPt (Fp p256.p) := W.neg p256X0

/-- **the defect** (kernel evaluation of the executable model with the P-256 constants): `(0, ±√b)`
are on the curve, their compressed encodings decode to the identity, and the even one *is* the
identity's encoding. -/
theorem p256_compressed_roundtrip_false :
    let io := fpIO p256.p
    let a := Fp.ofNat p256.p p256.a
    let b := Fp.ofNat p256.p p256.b
    W.onCurve a b p256X0 = true ∧ W.onCurve a b p256X0' = true ∧ p256X0 ≠ .inf ∧ p256X0 ≠ p256X0' ∧
    Sec1.decodeCompressed io a b 32 (Sec1.encodeCompressed io 32 p256X0) = some .inf ∧
    Sec1.decodeCompressed io a b 32 (Sec1.encodeCompressed io 32 p256X0') = some .inf ∧
    Sec1.encodeCompressed io 32 p256X0 = Sec1.encodeCompressed io 32 .inf := by
  decide +kernel

/-! ## the other families: length checks, and validity of accepted points -/

section others
variable {F : Type} [Field F] [DecidableEq F] (io : FieldIO F) (a b : F) (len : Nat)

theorem pasta_decode_len (bs : List Nat) :
    (bs.length ≠ len → Pasta.decodeCompressed io a b len bs = none) ∧
    (bs.length ≠ 2 * len → Pasta.decodeUncompressed io a b len bs = none) := by
  constructor <;> intro h <;> simp [Pasta.decodeCompressed, Pasta.decodeUncompressed, h]

theorem pasta_decode_valid (h : GoodIO io len) (bs : List Nat) (P : WPt F)
    (hd : Pasta.decodeCompressed io a b len bs = some P) : W.onCurve a b P = true := by
  simp only [Pasta.decodeCompressed] at hd
  split at hd
  · simp at hd
  · split at hd
    · cases hd; rfl
    · split at hd
      · simp at hd
      · next r hr =>
        have hrr := h.sqrt_sound _ _ hr
        cases hd
        rw [onCurve_aff_iff]
        split
        · exact hrr
        · rw [← hrr]; ring

theorem pasta_decode_valid_uncompressed (bs : List Nat) (P : WPt F)
    (hd : Pasta.decodeUncompressed io a b len bs = some P) : W.onCurve a b P = true := by
  simp only [Pasta.decodeUncompressed] at hd
  split at hd
  · simp at hd
  · split at hd
    · cases hd; rfl
    · split at hd
      · next hc => cases hd; exact hc
      · simp at hd

theorem ed_decode_len (d : F) (bs : List Nat) :
    (bs.length ≠ len → Ed.decodeCompressed io a d len bs = none) ∧
    (bs.length ≠ 2 * len → Ed.decodeUncompressed io a d len bs = none) := by
  constructor <;> intro h <;> simp [Ed.decodeCompressed, Ed.decodeUncompressed, h]

/-- accepted bytes denote a point on the Edwards curve -/
theorem ed_decode_valid (h : GoodIO io len) (d : F) (bs : List Nat) (P : EPt F)
    (hd : Ed.decodeCompressed io a d len bs = some P) : E.onCurve a d P = true := by
  simp only [Ed.decodeCompressed] at hd
  split at hd
  · simp at hd
  · split at hd
    · simp at hd
    · next hden =>
      split at hd
      · simp at hd
      · next r hr =>
        have hrr := h.sqrt_sound _ _ hr
        cases hd
        simp only [E.onCurve, beq_iff_eq]
        set y := io.ofNat (leNat bs % topBit len) with hy
        have hx2 : ∀ x : F, x * x = r * r → a * x * x + y * y = 1 + d * x * x * y * y := by
          intro x hx
          have h1 : x * x * (a - d * (y * y)) = 1 - y * y := by
            rw [hx, hrr, mul_assoc, inv_mul_cancel₀ hden, mul_one]
          linear_combination h1
        split
        · exact hx2 r rfl
        · exact hx2 (-r) (by ring)

theorem ed_decode_valid_uncompressed (d : F) (bs : List Nat) (P : EPt F)
    (hd : Ed.decodeUncompressed io a d len bs = some P) : E.onCurve a d P = true := by
  simp only [Ed.decodeUncompressed] at hd
  split at hd
  · simp at hd
  · split at hd
    · simp at hd
    · split at hd
      · next hc => cases hd; exact hc
      · simp at hd

/-- the prime-subgroup types only return points that pass the subgroup test -/
theorem ed_sub_decode_valid (d : F) (n : Nat) (r : Option (EPt F)) (P : EPt F)
    (hd : Ed.subOnly a d n r = some P) : r = some P ∧ Ed.inSub a d n P = true := by
  unfold Ed.subOnly at hd
  split at hd
  · next Q =>
    split at hd
    · next hc => cases hd; exact ⟨rfl, hc⟩
    · simp at hd
  · simp at hd

/-- **curve25519**: the compressed form is the Montgomery `u` only, so a point and its negative always
share their encoding (for `P ≠ -P` this contradicts "distinct elements have distinct encodings",
and one of the two cannot round-trip) -/
theorem mont_compressed_sign_lost (P : EPt F) :
    Mont.encodeCompressed io len (E.neg P) = Mont.encodeCompressed io len P := by
  obtain ⟨x, y⟩ := P
  have hz : ((⟨-x, y⟩ : EPt F) = E.zero) ↔ ((⟨x, y⟩ : EPt F) = E.zero) := by
    simp [E.zero, EPt.mk.injEq, neg_eq_zero]
  by_cases h0 : (⟨x, y⟩ : EPt F) = E.zero
  · have h1 := hz.2 h0
    simp [Mont.encodeCompressed, E.neg, h0, h1]
  · have h1 : ¬ (⟨-x, y⟩ : EPt F) = E.zero := fun h => h0 (hz.1 h)
    simp only [Mont.encodeCompressed, E.neg, h0, h1, if_false]
    rfl

end others

/-! ## scalars and prime-field elements -/

/-- `FromBytes` accepts exactly `len` bytes and returns `bytes mod order` -/
theorem fromBytes_reduces (q len : Nat) (bs : List Nat) :
    (bs.length = len → Scalar.fromBytes q len bs = some (beNat bs % q)) ∧
    (bs.length ≠ len → Scalar.fromBytes q len bs = none) := by
  constructor <;> intro h <;> simp [Scalar.fromBytes, h]

/-- `Bytes` then `FromBytes` is the identity on canonical values -/
theorem bytes_roundtrip (q len v : Nat) (hv : v < q) (hq : q ≤ 256 ^ len) :
    Scalar.fromBytes q len (Scalar.toBytes len v) = some v ∧ (Scalar.toBytes len v).length = len := by
  have hb := beNat_beBytes len v (lt_of_lt_of_le hv hq)
  simp [Scalar.fromBytes, Scalar.toBytes, length_beBytes, hb, Nat.mod_eq_of_lt hv]

/-- distinct canonical values have distinct encodings -/
theorem bytes_injective (q len v w : Nat) (hv : v < q) (hw : w < q) (hq : q ≤ 256 ^ len)
    (he : Scalar.toBytes len v = Scalar.toBytes len w) : v = w := by
  have h1 := (bytes_roundtrip q len v hv hq).1
  have h2 := (bytes_roundtrip q len w hw hq).1
  rw [he, h2] at h1
  exact (Option.some.inj h1).symm

/-- `FromWideBytes` = wide value mod order (at most `wide` bytes) -/
theorem fromWideBytes_mod (q wide : Nat) (bs : List Nat) :
    (bs.length ≤ wide → Scalar.fromWideBytes q wide bs = some (beNat bs % q)) ∧
    (wide < bs.length → Scalar.fromWideBytes q wide bs = none) := by
  constructor <;> intro h
  · simp [Scalar.fromWideBytes, Nat.not_lt.2 h]
  · simp [Scalar.fromWideBytes, h]

/-! ## non-vacuity: a concrete field view satisfying `GoodIO`, and the theorems applied to it -/

instance : Fact (Nat.Prime 7) := ⟨by decide⟩

/-- `ZMod 7` with one-byte coordinates and a square root by search -/
def io7 : FieldIO (ZMod 7) where
  toNat := ZMod.val
  ofNat := fun n => (n : ZMod 7)
  sqrt? := fun a => ((List.range 7).map (fun n => (n : ZMod 7))).find? (fun r => r * r = a)

theorem io7_good : GoodIO io7 1 where
  ofNat_toNat := by decide
  ofNat_zero := by decide
  toNat_lt := by decide
  sqrt_sound := by decide
  sqrt_complete := by decide
  parity_neg := by decide

/-- `y² = x³ + 3` over `F₇` (3 is a non-residue: no point with `x = 0`); `(1, 2)` round-trips -/
example : Sec1.decodeCompressed io7 0 3 1 (Sec1.encodeCompressed io7 1 (.aff 1 2)) = some (.aff 1 2) :=
  decode_encode_partial io7 0 3 1 io7_good (.aff 1 2) (by decide) (by intro x y h; cases h; decide)

example : Sec1.decodeUncompressed io7 0 3 1 (Sec1.encodeUncompressed io7 1 (.aff 1 2)) = some (.aff 1 2) :=
  decode_encode_uncompressed io7 0 3 1 io7_good (by decide) (.aff 1 2) (by decide)

/-- `y² = x³ + 2` over `F₇` (2 = 3²): the full compressed round-trip statement is false -/
example : ¬ decode_encode_statement io7 0 2 1 :=
  decode_encode_statement_false_of_sqrt io7 0 2 1 io7_good 3 (by decide)

example : Sec1.decodeCompressed io7 0 3 1 [3, 1] = some (.aff 1 5) ∧ W.onCurve (0 : ZMod 7) 3 (.aff 1 5) = true :=
  ⟨by decide, decode_valid io7 0 3 1 io7_good [3, 1] _ (by decide)⟩

example : Sec1.decodeCompressed io7 0 3 1 [5, 1] = none ∧ Sec1.decodeCompressed io7 0 3 1 [2, 1, 0] = none :=
  ⟨(decode_flags io7 0 3 1 5 [1]).1 (by decide) (by decide), (decode_len io7 0 3 1 [2, 1, 0]).1 (by decide)⟩

/-- the Euler evaluation is not vacuous: it really runs on the 256-bit constants -/
example : powMod 400 k256.b ((k256.p - 1) / 2) k256.p = k256.p - 1 := by decide +kernel
example : powMod 400 3 5 11 = 3 ^ 5 % 11 := by decide

example : Scalar.fromBytes 7 1 [9] = some 2 ∧ Scalar.fromBytes 7 1 [9, 0] = none ∧
    Scalar.fromWideBytes 7 2 [1, 0] = some 4 ∧ Scalar.toBytes 2 258 = [1, 2] := by decide
example : Scalar.fromBytes 251 1 (Scalar.toBytes 1 200) = some 200 := (bytes_roundtrip 251 1 200 (by decide) (by decide)).1

end BronVerif.Props.C13
