import Mathlib.Data.ZMod.Basic
import Mathlib.Algebra.Field.Basic
import Mathlib.Tactic.Ring
import Mathlib.Tactic.NormNum
import Mathlib.Tactic.LinearCombination
import BronVerif.Model.CurveEnc
import BronVerif.Lemmas.CurveEncBytes
import BronVerif.Gen.EncConsts
/-!
# C13 — element encodings are faithful; decoders admit only valid group elements

The theorems are about the definitions of `Model/CurveEnc.lean` that the driver executes
(`Sec1`, `Pasta`, `Ed`, `Bls`, `Scalar`), instantiated there with the executable `Fp p` and here
with an arbitrary Mathlib `Field`.  What a field must provide is collected in `GoodIO`
(idealisation as a hypothesis: canonical representatives fit the byte width, `ofNat ∘ toNat = id`,
the square-root oracle is sound and complete, negation flips the parity of non-zero elements).
-/
namespace BronVerif.Props.C13
open BronVerif BronVerif.Curve BronVerif.CurveEnc BronVerif.Curves

/-- what the codecs assume about the field view (`len` = bytes per coordinate) -/
structure GoodIO {F : Type} [Field F] (io : FieldIO F) (len : Nat) : Prop where
  ofNat_toNat : ∀ x, io.ofNat (io.toNat x) = x
  ofNat_zero : io.ofNat 0 = 0
  toNat_lt : ∀ x, io.toNat x < 256 ^ len
  sqrt_sound : ∀ a r, io.sqrt? a = some r → r * r = a
  sqrt_complete : ∀ y, ∃ r, io.sqrt? (y * y) = some r
  parity_neg : ∀ y, y ≠ 0 → io.toNat (-y) % 2 ≠ io.toNat y % 2

section sec1
variable {F : Type} [Field F] [DecidableEq F] (io : FieldIO F) (a b : F) (len : Nat)

theorem onCurve_aff_iff (x y : F) : W.onCurve a b (.aff x y) = true ↔ y * y = x * x * x + a * x + b := by
  simp [W.onCurve]

/-- **decode ∘ encode, SEC1 compressed, partial**: every curve point with `x ≠ 0` (and the identity)
round-trips.  The hypothesis `x ≠ 0` cannot be dropped: see `p256_compressed_roundtrip_false`. -/
theorem decode_encode_partial (h : GoodIO io len) (P : WPt F) (hP : W.onCurve a b P = true)
    (hx : ∀ x y, P = .aff x y → x ≠ 0) :
    Sec1.decodeCompressed io a b len (Sec1.encodeCompressed io len P) = some P := by
  cases P with
  | inf =>
    have h0 : beNat (beBytes len 0) = 0 := beNat_beBytes len 0 (by positivity)
    simp [Sec1.encodeCompressed, Sec1.decodeCompressed, length_beBytes, h0, h.ofNat_zero]
  | aff x y =>
    have hx0 : x ≠ 0 := hx x y rfl
    have hxy : y * y = x * x * x + a * x + b := (onCurve_aff_iff a b x y).1 hP
    have hbx : beNat (beBytes len (io.toNat x)) = io.toNat x := beNat_beBytes _ _ (h.toNat_lt x)
    obtain ⟨r, hr⟩ := h.sqrt_complete y
    have hrr : r * r = y * y := h.sqrt_sound _ _ hr
    have hry : r = y ∨ r = -y := by
      have : (r - y) * (r + y) = 0 := by linear_combination hrr
      rcases mul_eq_zero.1 this with h1 | h1
      · left; exact sub_eq_zero.1 h1
      · right; exact eq_neg_of_add_eq_zero_left h1
    have ht : io.toNat y % 2 < 2 := Nat.mod_lt _ (by norm_num)
    have htag : ¬ (2 + io.toNat y % 2 ≠ 2 ∧ 2 + io.toNat y % 2 ≠ 3) := by omega
    have hpar : (2 + io.toNat y % 2) % 2 = io.toNat y % 2 := by omega
    simp only [Sec1.encodeCompressed, Sec1.decodeCompressed, length_beBytes, ne_eq, not_true_eq_false,
      if_false, htag, hbx, h.ofNat_toNat, hx0, ← hxy, hr, hpar]
    rcases hry with rfl | rfl
    · simp
    · by_cases hy0 : y = 0
      · subst hy0; simp
      · have := h.parity_neg y hy0
        simp [this]

/-- accepted bytes denote a point on the curve (SEC1 compressed) -/
theorem decode_valid (h : GoodIO io len) (bs : List Nat) (P : WPt F)
    (hd : Sec1.decodeCompressed io a b len bs = some P) : W.onCurve a b P = true := by
  cases bs with
  | nil => simp [Sec1.decodeCompressed] at hd
  | cons tag xs =>
    simp only [Sec1.decodeCompressed] at hd
    split at hd
    · simp at hd
    · split at hd
      · simp at hd
      · split at hd
        · cases hd; rfl
        · split at hd
          · simp at hd
          · next r hr =>
            have hrr := h.sqrt_sound _ _ hr
            cases hd
            rw [onCurve_aff_iff]
            split
            · exact hrr
            · rw [← hrr]; ring

/-- accepted bytes denote a point on the curve (SEC1 uncompressed) -/
theorem decode_valid_uncompressed (bs : List Nat) (P : WPt F)
    (hd : Sec1.decodeUncompressed io a b len bs = some P) : W.onCurve a b P = true := by
  cases bs with
  | nil => simp [Sec1.decodeUncompressed] at hd
  | cons tag xs =>
    simp only [Sec1.decodeUncompressed] at hd
    split at hd
    · simp at hd
    · split at hd
      · simp at hd
      · split at hd
        · cases hd; rfl
        · split at hd
          · next hc => cases hd; exact hc
          · simp at hd

/-- wrong length ⇒ rejected (SEC1, both forms) -/
theorem decode_len (bs : List Nat) :
    (bs.length ≠ len + 1 → Sec1.decodeCompressed io a b len bs = none) ∧
    (bs.length ≠ 2 * len + 1 → Sec1.decodeUncompressed io a b len bs = none) := by
  constructor <;> intro hl <;> cases bs with
  | nil => simp [Sec1.decodeCompressed, Sec1.decodeUncompressed]
  | cons tag xs =>
    have : xs.length ≠ len ∨ True := Or.inr trivial
    simp only [List.length_cons, ne_eq, add_left_inj] at hl
    simp [Sec1.decodeCompressed, Sec1.decodeUncompressed, hl]

/-- wrong tag byte ⇒ rejected (SEC1, both forms) -/
theorem decode_flags (tag : Nat) (xs : List Nat) :
    (tag ≠ 2 → tag ≠ 3 → Sec1.decodeCompressed io a b len (tag :: xs) = none) ∧
    (tag ≠ 4 → Sec1.decodeUncompressed io a b len (tag :: xs) = none) := by
  constructor
  · intro h2 h3; simp [Sec1.decodeCompressed, h2, h3]
  · intro h4; simp [Sec1.decodeUncompressed, h4]

/-- **decode ∘ encode, SEC1 uncompressed**: holds for *every* curve point, including `x = 0` -/
theorem decode_encode_uncompressed (h : GoodIO io len) (hb : b ≠ 0) (P : WPt F)
    (hP : W.onCurve a b P = true) :
    Sec1.decodeUncompressed io a b len (Sec1.encodeUncompressed io len P) = some P := by
  cases P with
  | inf =>
    have h0 : beNat (beBytes len 0) = 0 := beNat_beBytes len 0 (by positivity)
    have hl : (beBytes len 0 ++ beBytes len 0).length = 2 * len := by simp [length_beBytes]; omega
    simp [Sec1.encodeUncompressed, Sec1.decodeUncompressed, hl, List.take_left' (length_beBytes len 0),
      List.drop_left' (length_beBytes len 0), h0, h.ofNat_zero]
  | aff x y =>
    have hxy := (onCurve_aff_iff a b x y).1 hP
    have hbx : beNat (beBytes len (io.toNat x)) = io.toNat x := beNat_beBytes _ _ (h.toNat_lt x)
    have hby : beNat (beBytes len (io.toNat y)) = io.toNat y := beNat_beBytes _ _ (h.toNat_lt y)
    have hl : (beBytes len (io.toNat x) ++ beBytes len (io.toNat y)).length = 2 * len := by
      simp [length_beBytes]; omega
    have hne : ¬ (x = 0 ∧ y = 0) := by
      rintro ⟨rfl, rfl⟩
      apply hb
      have := hxy
      simp at this
      exact this.symm
    simp [Sec1.encodeUncompressed, Sec1.decodeUncompressed, hl, List.take_left' (length_beBytes len _),
      List.drop_left' (length_beBytes len _), hbx, hby, h.ofNat_toNat, hne, hP]

/-- distinct curve points have distinct encodings (uncompressed: all points; compressed: `x ≠ 0`) -/
theorem encode_injective (h : GoodIO io len) (hb : b ≠ 0) (P Q : WPt F)
    (hP : W.onCurve a b P = true) (hQ : W.onCurve a b Q = true) :
    (Sec1.encodeUncompressed io len P = Sec1.encodeUncompressed io len Q → P = Q) ∧
    ((∀ x y, P = .aff x y → x ≠ 0) → (∀ x y, Q = .aff x y → x ≠ 0) →
      Sec1.encodeCompressed io len P = Sec1.encodeCompressed io len Q → P = Q) := by
  constructor
  · intro he
    have h1 := decode_encode_uncompressed io a b len h hb P hP
    have h2 := decode_encode_uncompressed io a b len h hb Q hQ
    rw [he, h2] at h1
    exact (Option.some.inj h1).symm
  · intro hxP hxQ he
    have h1 := decode_encode_partial io a b len h P hP hxP
    have h2 := decode_encode_partial io a b len h Q hQ hxQ
    rw [he, h2] at h1
    exact (Option.some.inj h1).symm

/-- the full round-trip statement for the compressed form; **false** for P-256 (below) -/
def decode_encode_statement : Prop :=
  ∀ P : WPt F, W.onCurve a b P = true →
    Sec1.decodeCompressed io a b len (Sec1.encodeCompressed io len P) = some P

/-- if `b` is a square there is a curve point with `x = 0`; its compressed encoding decodes to the
identity, so the full statement fails on every such curve -/
theorem decode_encode_statement_false_of_sqrt (h : GoodIO io len) (y : F) (hy : y * y = b) :
    ¬ decode_encode_statement io a b len := by
  intro hs
  have hP : W.onCurve a b (.aff 0 y) = true := by rw [onCurve_aff_iff]; rw [hy]; ring
  have := hs _ hP
  have h0 : beNat (beBytes len (io.toNat (0 : F))) = io.toNat (0 : F) := beNat_beBytes _ _ (h.toNat_lt 0)
  simp [Sec1.encodeCompressed, Sec1.decodeCompressed, length_beBytes, h0, h.ofNat_toNat] at this

end sec1

/-! ## curves without a point `x = 0`: `b` is a quadratic non-residue (Euler, evaluated by the kernel) -/

theorem no_x0_of_euler (C : Params) [Fact C.p.Prime] (hp : 2 < C.p)
    (hodd : C.p - 1 = 2 * ((C.p - 1) / 2)) (hfuel : (C.p - 1) / 2 < 2 ^ 400)
    (h : powMod 400 C.b ((C.p - 1) / 2) C.p = C.p - 1) (y : ZMod C.p) :
    W.onCurve (F := ZMod C.p) (C.a : ZMod C.p) (C.b : ZMod C.p) (.aff 0 y) = false := by
  have := no_sqrt_of_euler C.p C.b 400 hp hfuel hodd h y
  simp only [W.onCurve, beq_eq_false_iff_ne, ne_eq]
  intro hy
  apply this
  rw [hy]; ring

theorem k256_no_x0 [Fact k256.p.Prime] (y : ZMod k256.p) :
    W.onCurve (F := ZMod k256.p) (k256.a : ZMod k256.p) (k256.b : ZMod k256.p) (.aff 0 y) = false :=
  no_x0_of_euler k256 (by decide +kernel) (by decide +kernel) (by decide +kernel) (by decide +kernel) y

theorem pallas_no_x0 [Fact pallas.p.Prime] (y : ZMod pallas.p) :
    W.onCurve (F := ZMod pallas.p) (pallas.a : ZMod pallas.p) (pallas.b : ZMod pallas.p) (.aff 0 y) = false :=
  no_x0_of_euler pallas (by decide +kernel) (by decide +kernel) (by decide +kernel) (by decide +kernel) y

theorem vesta_no_x0 [Fact vesta.p.Prime] (y : ZMod vesta.p) :
    W.onCurve (F := ZMod vesta.p) (vesta.a : ZMod vesta.p) (vesta.b : ZMod vesta.p) (.aff 0 y) = false :=
  no_x0_of_euler vesta (by decide +kernel) (by decide +kernel) (by decide +kernel) (by decide +kernel) y

/-- for contrast: the same Euler evaluation says that P-256's `b` **is** a square -/
theorem p256_b_is_residue : powMod 400 p256.b ((p256.p - 1) / 2) p256.p = 1 := by decide +kernel

/-! ## P-256: the round-trip fails on the executable model with the real constants -/

instance : NeZero p256.p := ⟨by decide +kernel⟩

/-- `√b` (even) on P-256 -/
def p256SqrtB : Nat := 0x66485c780e2f83d72433bd5d84a06bb6541c2af31dae871728bf856a174f93f4

/-- the point `(0, √b)` of P-256, in the model the driver executes -/
def p256X0 : WPt (Fp p256.p) := .aff (Fp.ofNat _ 0) (Fp.ofNat _ p256SqrtB)
def p256X0' : WPt (Fp p256.p) := W.neg p256X0

/-- **the open defect** (kernel evaluation of the executable model with the P-256 constants and the
P-256 rule `decodeCompressedS`): `(0, √b)` with even `√b` is on the curve, is not the identity, and its
compressed encoding *is* the identity's `02 ‖ 0…0`, which decodes to the identity.  (`(0, -√b)`, odd,
encodes as `03 ‖ 0…0` and round-trips since /repo 69efa1d: `decode_encode_p256`.) -/
theorem p256_compressed_roundtrip_false :
    let io := fpIO p256.p
    let a := Fp.ofNat p256.p p256.a
    let b := Fp.ofNat p256.p p256.b
    W.onCurve a b p256X0 = true ∧ W.onCurve a b p256X0' = true ∧ p256X0 ≠ .inf ∧ p256X0 ≠ p256X0' ∧
    Sec1.decodeCompressedS io a b 32 (Sec1.encodeCompressed io 32 p256X0) = some .inf ∧
    Sec1.encodeCompressed io 32 p256X0 = Sec1.encodeCompressed io 32 .inf ∧
    Sec1.encodeCompressed io 32 p256X0' = 3 :: beBytes 32 0 := by
  decide +kernel

/-! ## the other families: length checks, and validity of accepted points -/

section others
variable {F : Type} [Field F] [DecidableEq F] (io : FieldIO F) (a b : F) (len : Nat)

theorem pasta_decode_len (bs : List Nat) :
    (bs.length ≠ len → Pasta.decodeCompressed io a b len bs = none) ∧
    (bs.length ≠ 2 * len → Pasta.decodeUncompressed io a b len bs = none) := by
  constructor <;> intro h <;> simp [Pasta.decodeCompressed, Pasta.decodeUncompressed, h]

theorem pasta_decode_valid (h : GoodIO io len) (bs : List Nat) (P : WPt F)
    (hd : Pasta.decodeCompressed io a b len bs = some P) : W.onCurve a b P = true := by
  simp only [Pasta.decodeCompressed] at hd
  split at hd
  · simp at hd
  · split at hd
    · cases hd; rfl
    · split at hd
      · simp at hd
      · next r hr =>
        have hrr := h.sqrt_sound _ _ hr
        cases hd
        rw [onCurve_aff_iff]
        split
        · exact hrr
        · rw [← hrr]; ring

theorem pasta_decode_valid_uncompressed (bs : List Nat) (P : WPt F)
    (hd : Pasta.decodeUncompressed io a b len bs = some P) : W.onCurve a b P = true := by
  simp only [Pasta.decodeUncompressed] at hd
  split at hd
  · simp at hd
  · split at hd
    · cases hd; rfl
    · split at hd
      · next hc => cases hd; exact hc
      · simp at hd

theorem ed_decode_len (d : F) (bs : List Nat) :
    (bs.length ≠ len → Ed.decodeCompressed io a d len bs = none) ∧
    (bs.length ≠ 2 * len → Ed.decodeUncompressed io a d len bs = none) := by
  constructor <;> intro h <;> simp [Ed.decodeCompressed, Ed.decodeUncompressed, h]

/-- accepted bytes denote a point on the Edwards curve -/
theorem ed_decode_valid (h : GoodIO io len) (d : F) (bs : List Nat) (P : EPt F)
    (hd : Ed.decodeCompressed io a d len bs = some P) : E.onCurve a d P = true := by
  simp only [Ed.decodeCompressed] at hd
  split at hd
  · simp at hd
  · split at hd
    · simp at hd
    · next hden =>
      split at hd
      · simp at hd
      · next r hr =>
        have hrr := h.sqrt_sound _ _ hr
        cases hd
        simp only [E.onCurve, beq_iff_eq]
        set y := io.ofNat (leNat bs % topBit len) with hy
        have hx2 : ∀ x : F, x * x = r * r → a * x * x + y * y = 1 + d * x * x * y * y := by
          intro x hx
          have h1 : x * x * (a - d * (y * y)) = 1 - y * y := by
            rw [hx, hrr, mul_assoc, inv_mul_cancel₀ hden, mul_one]
          linear_combination h1
        split
        · exact hx2 r rfl
        · exact hx2 (-r) (by ring)

theorem ed_decode_valid_uncompressed (d : F) (bs : List Nat) (P : EPt F)
    (hd : Ed.decodeUncompressed io a d len bs = some P) : E.onCurve a d P = true := by
  simp only [Ed.decodeUncompressed] at hd
  split at hd
  · simp at hd
  · split at hd
    · simp at hd
    · split at hd
      · next hc => cases hd; exact hc
      · simp at hd

/-- the prime-subgroup types only return points that pass the subgroup test -/
theorem ed_sub_decode_valid (d : F) (n : Nat) (r : Option (EPt F)) (P : EPt F)
    (hd : Ed.subOnly a d n r = some P) : r = some P ∧ Ed.inSub a d n P = true := by
  unfold Ed.subOnly at hd
  split at hd
  · next Q =>
    split at hd
    · next hc => cases hd; exact ⟨rfl, hc⟩
    · simp at hd
  · simp at hd

/-- **curve25519**: the compressed form is the Montgomery `u` only, so a point and its negative always
share their encoding (for `P ≠ -P` this contradicts "distinct elements have distinct encodings",
and one of the two cannot round-trip) -/
theorem mont_compressed_sign_lost (P : EPt F) :
    Mont.encodeCompressed io len (E.neg P) = Mont.encodeCompressed io len P := by
  obtain ⟨x, y⟩ := P
  have hz : ((⟨-x, y⟩ : EPt F) = E.zero) ↔ ((⟨x, y⟩ : EPt F) = E.zero) := by
    simp [E.zero, EPt.mk.injEq, neg_eq_zero]
  by_cases h0 : (⟨x, y⟩ : EPt F) = E.zero
  · have h1 := hz.2 h0
    simp [Mont.encodeCompressed, E.neg, h0, h1]
  · have h1 : ¬ (⟨-x, y⟩ : EPt F) = E.zero := fun h => h0 (hz.1 h)
    simp only [Mont.encodeCompressed, E.neg, h0, h1, if_false]
    rfl

/-- **curve25519, uncompressed `u ‖ v`**: the point of order 2, `(0, -1)`, is the Montgomery point
`(0, 0)`, so its encoding is the all-zero string — the identity's (distinct elements, one encoding;
decoding returns the identity) -/
theorem mont_order2_collides (c : F) (h2 : (2 : F) ≠ 0) (h0 : io.toNat 0 = 0) :
    (⟨0, -1⟩ : EPt F) ≠ E.zero ∧
    Mont.encodeUncompressed io c len ⟨0, -1⟩ = Mont.encodeUncompressed io c len E.zero := by
  have hne : (⟨0, -1⟩ : EPt F) ≠ E.zero := by
    intro h
    have h1 : (-1 : F) = 1 := by
      have := congrArg EPt.y h
      simpa [E.zero] using this
    apply h2
    linear_combination -h1
  refine ⟨hne, ?_⟩
  have hu : Mont.u? (⟨0, -1⟩ : EPt F) = some 0 := by
    have : (1 : F) - -1 = 2 := by ring
    simp [Mont.u?, this, h2]
  have hv : Mont.v? c (⟨0, -1⟩ : EPt F) = some 0 := by
    simp [Mont.v?, hne]
  simp [Mont.encodeUncompressed, hne, hu, hv, h0]

end others

/-! ## value of an accepted encoding, and off-curve coordinates (SEC1, Pasta, Edwards) -/

section value
variable {F : Type} [Field F] [DecidableEq F] (io : FieldIO F) (a b : F) (len : Nat)

/-- **accepted ⇒ the element the bytes denote** (SEC1 compressed): the `x` of an accepted point is the
field element read from the coordinate bytes; a coordinate that reads as `0` gives the identity -/
theorem decode_value (tag : Nat) (xs : List Nat) (P : WPt F)
    (hd : Sec1.decodeCompressed io a b len (tag :: xs) = some P) :
    (io.ofNat (beNat xs) = 0 → P = .inf) ∧ (∀ x y, P = .aff x y → x = io.ofNat (beNat xs)) := by
  simp only [Sec1.decodeCompressed] at hd
  split at hd
  · simp at hd
  · split at hd
    · simp at hd
    · split at hd
      · next h0 => cases hd; exact ⟨fun _ => rfl, fun x y h => by cases h⟩
      · next h0 =>
        split at hd
        · simp at hd
        · cases hd
          exact ⟨fun h => absurd h h0, fun x y h => by cases h; rfl⟩

/-- **off-curve ⇒ rejected** (SEC1, both forms) -/
theorem decode_offcurve (h : GoodIO io len) (tag : Nat) :
    (∀ xs : List Nat, io.ofNat (beNat xs) ≠ 0 →
      (∀ y : F, y * y ≠ io.ofNat (beNat xs) * io.ofNat (beNat xs) * io.ofNat (beNat xs) + a * io.ofNat (beNat xs) + b) →
      Sec1.decodeCompressed io a b len (tag :: xs) = none) ∧
    (∀ rest : List Nat,
      ¬ (io.ofNat (beNat (rest.take len)) = 0 ∧ io.ofNat (beNat (rest.drop len)) = 0) →
      W.onCurve a b (.aff (io.ofNat (beNat (rest.take len))) (io.ofNat (beNat (rest.drop len)))) = false →
      Sec1.decodeUncompressed io a b len (tag :: rest) = none) := by
  constructor
  · intro xs hx hoff
    cases hdec : Sec1.decodeCompressed io a b len (tag :: xs) with
    | none => rfl
    | some P =>
      exfalso
      simp only [Sec1.decodeCompressed] at hdec
      split at hdec
      · simp at hdec
      · split at hdec
        · simp at hdec
        · -- the branch `x = 0` is closed by `split` itself (it contradicts `hx`)
          split at hdec
          · simp at hdec
          · next _ r hr => exact hoff r (h.sqrt_sound _ _ hr)
  · intro rest h0 hoff
    simp only [Sec1.decodeUncompressed]
    split
    · rfl
    · split
      · rfl
      · simp [hoff]

/-- accepted ⇒ the `x` read from the low `8·len − 1` bits (Pasta compressed) -/
theorem pasta_decode_value (bs : List Nat) (x y : F)
    (hd : Pasta.decodeCompressed io a b len bs = some (.aff x y)) :
    x = io.ofNat (leNat bs % topBit len) := by
  simp only [Pasta.decodeCompressed] at hd
  split at hd
  · simp at hd
  · split at hd
    · simp at hd
    · split at hd
      · simp at hd
      · cases hd; rfl

/-- off-curve ⇒ rejected (Pasta compressed) -/
theorem pasta_decode_offcurve (h : GoodIO io len) (bs : List Nat)
    (hx : io.ofNat (leNat bs % topBit len) ≠ 0)
    (hoff : ∀ y : F, y * y ≠ io.ofNat (leNat bs % topBit len) * io.ofNat (leNat bs % topBit len) *
      io.ofNat (leNat bs % topBit len) + a * io.ofNat (leNat bs % topBit len) + b) :
    Pasta.decodeCompressed io a b len bs = none := by
  cases hdec : Pasta.decodeCompressed io a b len bs with
  | none => rfl
  | some P =>
    exfalso
    simp only [Pasta.decodeCompressed] at hdec
    split at hdec
    · simp at hdec
    · split at hdec
      · next h0 => exact hx h0.1
      · split at hdec
        · simp at hdec
        · next r hr => exact hoff r (h.sqrt_sound _ _ hr)

/-- accepted ⇒ the `y` read from the low `8·len − 1` bits (Edwards compressed) -/
theorem ed_decode_value (d : F) (bs : List Nat) (P : EPt F)
    (hd : Ed.decodeCompressed io a d len bs = some P) : P.y = io.ofNat (leNat bs % topBit len) := by
  simp only [Ed.decodeCompressed] at hd
  split at hd
  · simp at hd
  · split at hd
    · simp at hd
    · split at hd
      · simp at hd
      · cases hd; rfl

end value

/-! ## round trips of the flag-bit formats (Pasta, Edwards) -/

section flagbit
variable {F : Type} [Field F] [DecidableEq F] (io : FieldIO F) (a b : F) (len : Nat)

omit [DecidableEq F] in
theorem sqrt_pm (h : GoodIO io len) (y : F) : ∃ r, io.sqrt? (y * y) = some r ∧ (r = y ∨ r = -y) := by
  obtain ⟨r, hr⟩ := h.sqrt_complete y
  have hrr : r * r = y * y := h.sqrt_sound _ _ hr
  refine ⟨r, hr, ?_⟩
  have : (r - y) * (r + y) = 0 := by linear_combination hrr
  rcases mul_eq_zero.1 this with h1 | h1
  · left; exact sub_eq_zero.1 h1
  · right; exact eq_neg_of_add_eq_zero_left h1

/-- choosing the root by parity returns `y` -/
theorem pick_parity (h : GoodIO io len) (y r : F) (hr : r = y ∨ r = -y) :
    (if io.toNat r % 2 = io.toNat y % 2 then r else -r) = y := by
  rcases hr with rfl | rfl
  · simp
  · by_cases hy0 : y = 0
    · subst hy0; simp
    · have := h.parity_neg y hy0
      simp [this]

/-- **decode ∘ encode, Pasta compressed** (`x ‖ sign(y)` little endian, identity = all zero): every
curve point round-trips except a point `(0, y)` with even `y`, whose encoding is the identity's
(pallas / vesta have no point with `x = 0`: `pallas_no_x0`, `vesta_no_x0`).  `hTop`: canonical
representatives leave the flag bit free (255-bit fields in 32 bytes). -/
theorem pasta_decode_encode (h : GoodIO io len) (hlen : 0 < len) (hTop : ∀ x, io.toNat x < topBit len)
    (P : WPt F) (hP : W.onCurve a b P = true)
    (hx : ∀ x y, P = .aff x y → ¬ (x = 0 ∧ io.toNat y % 2 = 0)) :
    Pasta.decodeCompressed io a b len (Pasta.encodeCompressed io len P) = some P := by
  cases P with
  | inf =>
    have h0 : leNat (leBytes len 0) = 0 := leNat_leBytes len 0 (by positivity)
    simp [Pasta.encodeCompressed, Pasta.decodeCompressed, length_leBytes, h0, h.ofNat_zero]
  | aff x y =>
    have hxy : y * y = x * x * x + a * x + b := (onCurve_aff_iff a b x y).1 hP
    have hs : io.toNat y % 2 < 2 := Nat.mod_lt _ (by norm_num)
    have hn := leNat_leBytes_flag len (io.toNat x) (io.toNat y % 2) hlen (hTop x) hs
    obtain ⟨hsign, hbody⟩ := flag_split (topBit len) (io.toNat x) (io.toNat y % 2) (hTop x) hs
    obtain ⟨r, hr, hry⟩ := sqrt_pm io len h y
    have hne := hx x y rfl
    simp only [Pasta.encodeCompressed, Pasta.decodeCompressed, length_leBytes, ne_eq, not_true_eq_false,
      if_false, hn, hsign, hbody, h.ofNat_toNat, hne, ← hxy, hr]
    rw [pick_parity io len h y r hry]

/-- **decode ∘ encode, Pasta uncompressed**: every curve point -/
theorem pasta_decode_encode_uncompressed (h : GoodIO io len) (hb : b ≠ 0) (P : WPt F)
    (hP : W.onCurve a b P = true) :
    Pasta.decodeUncompressed io a b len (Pasta.encodeUncompressed io len P) = some P := by
  cases P with
  | inf =>
    have h0 : leNat (leBytes len 0) = 0 := leNat_leBytes len 0 (by positivity)
    have hl : (leBytes len 0 ++ leBytes len 0).length = 2 * len := by simp [length_leBytes]; omega
    simp [Pasta.encodeUncompressed, Pasta.decodeUncompressed, hl, List.take_left' (length_leBytes len 0),
      List.drop_left' (length_leBytes len 0), h0, h.ofNat_zero]
  | aff x y =>
    have hxy := (onCurve_aff_iff a b x y).1 hP
    have hbx : leNat (leBytes len (io.toNat x)) = io.toNat x := leNat_leBytes _ _ (h.toNat_lt x)
    have hby : leNat (leBytes len (io.toNat y)) = io.toNat y := leNat_leBytes _ _ (h.toNat_lt y)
    have hl : (leBytes len (io.toNat x) ++ leBytes len (io.toNat y)).length = 2 * len := by
      simp [length_leBytes]; omega
    have hne : ¬ (x = 0 ∧ y = 0) := by
      rintro ⟨rfl, rfl⟩
      apply hb
      have := hxy
      simp at this
      exact this.symm
    simp [Pasta.encodeUncompressed, Pasta.decodeUncompressed, hl, List.take_left' (length_leBytes len _),
      List.drop_left' (length_leBytes len _), hbx, hby, h.ofNat_toNat, hne, hP]

/-- distinct curve points have distinct Pasta encodings -/
theorem pasta_encode_injective (h : GoodIO io len) (hlen : 0 < len) (hTop : ∀ x, io.toNat x < topBit len)
    (hb : b ≠ 0) (P Q : WPt F) (hP : W.onCurve a b P = true) (hQ : W.onCurve a b Q = true) :
    (Pasta.encodeUncompressed io len P = Pasta.encodeUncompressed io len Q → P = Q) ∧
    ((∀ x y, P = .aff x y → ¬ (x = 0 ∧ io.toNat y % 2 = 0)) →
      (∀ x y, Q = .aff x y → ¬ (x = 0 ∧ io.toNat y % 2 = 0)) →
      Pasta.encodeCompressed io len P = Pasta.encodeCompressed io len Q → P = Q) := by
  constructor
  · intro he
    have h1 := pasta_decode_encode_uncompressed io a b len h hb P hP
    have h2 := pasta_decode_encode_uncompressed io a b len h hb Q hQ
    rw [he, h2] at h1
    exact (Option.some.inj h1).symm
  · intro hxP hxQ he
    have h1 := pasta_decode_encode io a b len h hlen hTop P hP hxP
    have h2 := pasta_decode_encode io a b len h hlen hTop Q hQ hxQ
    rw [he, h2] at h1
    exact (Option.some.inj h1).symm

theorem ed_onCurve_iff (d : F) (P : EPt F) :
    E.onCurve a d P = true ↔ a * P.x * P.x + P.y * P.y = 1 + d * P.x * P.x * P.y * P.y := by
  simp [E.onCurve]

/-- **decode ∘ encode, Edwards compressed** (`y ‖ sign(x)`): every curve point, provided the curve is
complete in `y` (`a − d·y² ≠ 0`, true when `d/a` is a non-square as for edwards25519) -/
theorem ed_decode_encode (h : GoodIO io len) (hlen : 0 < len) (hTop : ∀ x, io.toNat x < topBit len)
    (d : F) (hden : ∀ y : F, a - d * (y * y) ≠ 0) (P : EPt F) (hP : E.onCurve a d P = true) :
    Ed.decodeCompressed io a d len (Ed.encodeCompressed io len P) = some P := by
  obtain ⟨x, y⟩ := P
  have hxy : a * x * x + y * y = 1 + d * x * x * y * y := (ed_onCurve_iff a d ⟨x, y⟩).1 hP
  have hs : io.toNat x % 2 < 2 := Nat.mod_lt _ (by norm_num)
  have hn := leNat_leBytes_flag len (io.toNat y) (io.toNat x % 2) hlen (hTop y) hs
  obtain ⟨hsign, hbody⟩ := flag_split (topBit len) (io.toNat y) (io.toNat x % 2) (hTop y) hs
  obtain ⟨r, hr, hrx⟩ := sqrt_pm io len h x
  have hd0 := hden y
  have harg : (1 - y * y) * (a - d * (y * y))⁻¹ = x * x := by
    have h1 : x * x * (a - d * (y * y)) = 1 - y * y := by linear_combination hxy
    rw [← h1, mul_assoc, mul_inv_cancel₀ hd0, mul_one]
  simp only [Ed.encodeCompressed, Ed.decodeCompressed, length_leBytes, ne_eq, not_true_eq_false,
    if_false, hn, hsign, hbody, h.ofNat_toNat, hd0, harg, hr]
  rw [pick_parity io len h x r hrx]

/-- **decode ∘ encode, Edwards uncompressed** (`y ‖ x`, both top bits clear) -/
theorem ed_decode_encode_uncompressed (h : GoodIO io len) (hTop : ∀ x, io.toNat x < topBit len)
    (d : F) (P : EPt F) (hP : E.onCurve a d P = true) :
    Ed.decodeUncompressed io a d len (Ed.encodeUncompressed io len P) = some P := by
  obtain ⟨x, y⟩ := P
  have hbx : leNat (leBytes len (io.toNat x)) = io.toNat x := leNat_leBytes _ _ (h.toNat_lt x)
  have hby : leNat (leBytes len (io.toNat y)) = io.toNat y := leNat_leBytes _ _ (h.toNat_lt y)
  have hl : (leBytes len (io.toNat y) ++ leBytes len (io.toNat x)).length = 2 * len := by
    simp [length_leBytes]; omega
  have htop : ¬ (topBit len ≤ io.toNat y ∨ topBit len ≤ io.toNat x) := by
    have := hTop x; have := hTop y; omega
  simp [Ed.encodeUncompressed, Ed.decodeUncompressed, hl, List.take_left' (length_leBytes len _),
    List.drop_left' (length_leBytes len _), hbx, hby, h.ofNat_toNat, htop, hP]

/-- distinct Edwards points have distinct encodings (both forms) -/
theorem ed_encode_injective (h : GoodIO io len) (hlen : 0 < len) (hTop : ∀ x, io.toNat x < topBit len)
    (d : F) (hden : ∀ y : F, a - d * (y * y) ≠ 0) (P Q : EPt F)
    (hP : E.onCurve a d P = true) (hQ : E.onCurve a d Q = true) :
    (Ed.encodeCompressed io len P = Ed.encodeCompressed io len Q → P = Q) ∧
    (Ed.encodeUncompressed io len P = Ed.encodeUncompressed io len Q → P = Q) := by
  constructor <;> intro he
  · have h1 := ed_decode_encode io a len h hlen hTop d hden P hP
    have h2 := ed_decode_encode io a len h hlen hTop d hden Q hQ
    rw [he, h2] at h1
    exact (Option.some.inj h1).symm
  · have h1 := ed_decode_encode_uncompressed io a len h hTop d P hP
    have h2 := ed_decode_encode_uncompressed io a len h hTop d Q hQ
    rw [he, h2] at h1
    exact (Option.some.inj h1).symm

end flagbit

section p256rule
variable {F : Type} [Field F] [DecidableEq F] (io : FieldIO F) (a b : F) (len : Nat)

/-! ### P-256 rule (`decodeCompressedS`, /repo 69efa1d): only `02 ‖ 0…0` is the identity -/

/-- **decode ∘ encode, SEC1 compressed with the P-256 rule**: every curve point round-trips except a
point `(0, y)` with even `y`, whose encoding `02 ‖ 0…0` is the identity's (P-256 has that point:
`p256_compressed_roundtrip_false`; the still-open finding) -/
theorem decode_encode_p256 (h : GoodIO io len) (P : WPt F) (hP : W.onCurve a b P = true)
    (hx : ∀ x y, P = .aff x y → ¬ (x = 0 ∧ io.toNat y % 2 = 0)) :
    Sec1.decodeCompressedS io a b len (Sec1.encodeCompressed io len P) = some P := by
  cases P with
  | inf =>
    have h0 : beNat (beBytes len 0) = 0 := beNat_beBytes len 0 (by positivity)
    simp [Sec1.encodeCompressed, Sec1.decodeCompressedS, length_beBytes, h0, h.ofNat_zero]
  | aff x y =>
    have hxy : y * y = x * x * x + a * x + b := (onCurve_aff_iff a b x y).1 hP
    have hbx : beNat (beBytes len (io.toNat x)) = io.toNat x := beNat_beBytes _ _ (h.toNat_lt x)
    obtain ⟨r, hr, hry⟩ := sqrt_pm io len h y
    have ht : io.toNat y % 2 < 2 := Nat.mod_lt _ (by norm_num)
    have htag : ¬ (2 + io.toNat y % 2 ≠ 2 ∧ 2 + io.toNat y % 2 ≠ 3) := by omega
    have hpar : (2 + io.toNat y % 2) % 2 = io.toNat y % 2 := by omega
    have hne := hx x y rfl
    simp only [Sec1.encodeCompressed, Sec1.decodeCompressedS, length_beBytes, ne_eq, not_true_eq_false,
      if_false, htag, hbx, h.ofNat_toNat, hpar, hne, ← hxy, hr]
    rw [pick_parity io len h y r hry]

/-- accepted ⇒ on the curve (P-256 rule) -/
theorem decode_valid_p256 (h : GoodIO io len) (bs : List Nat) (P : WPt F)
    (hd : Sec1.decodeCompressedS io a b len bs = some P) : W.onCurve a b P = true := by
  cases bs with
  | nil => simp [Sec1.decodeCompressedS] at hd
  | cons tag xs =>
    simp only [Sec1.decodeCompressedS] at hd
    split at hd
    · simp at hd
    · split at hd
      · simp at hd
      · split at hd
        · cases hd; rfl
        · split at hd
          · simp at hd
          · next r hr =>
            have hrr := h.sqrt_sound _ _ hr
            cases hd
            rw [onCurve_aff_iff]
            split
            · exact hrr
            · rw [← hrr]; ring

/-- wrong length / tag ⇒ rejected (P-256 rule) -/
theorem decode_len_flags_p256 (tag : Nat) (xs : List Nat) :
    (xs.length ≠ len → Sec1.decodeCompressedS io a b len (tag :: xs) = none) ∧
    (tag ≠ 2 → tag ≠ 3 → Sec1.decodeCompressedS io a b len (tag :: xs) = none) ∧
    Sec1.decodeCompressedS io a b len [] = none := by
  refine ⟨?_, ?_, rfl⟩
  · intro hl; simp [Sec1.decodeCompressedS, hl]
  · intro h2 h3; simp [Sec1.decodeCompressedS, h2, h3]

/-- distinct curve points other than `(0, even y)` have distinct compressed encodings -/
theorem encode_injective_p256 (h : GoodIO io len) (P Q : WPt F)
    (hP : W.onCurve a b P = true) (hQ : W.onCurve a b Q = true)
    (hxP : ∀ x y, P = .aff x y → ¬ (x = 0 ∧ io.toNat y % 2 = 0))
    (hxQ : ∀ x y, Q = .aff x y → ¬ (x = 0 ∧ io.toNat y % 2 = 0))
    (he : Sec1.encodeCompressed io len P = Sec1.encodeCompressed io len Q) : P = Q := by
  have h1 := decode_encode_p256 io a b len h P hP hxP
  have h2 := decode_encode_p256 io a b len h Q hQ hxQ
  rw [he, h2] at h1
  exact (Option.some.inj h1).symm

/-- the unrestricted round-trip statement under the P-256 rule; still **false** when `b` has an even root -/
def decode_encode_p256_statement : Prop :=
  ∀ P : WPt F, W.onCurve a b P = true →
    Sec1.decodeCompressedS io a b len (Sec1.encodeCompressed io len P) = some P

/-- an even square root `y` of `b` gives the curve point `(0, y)` whose encoding is the identity's -/
theorem decode_encode_p256_statement_false_of_even_sqrt (h : GoodIO io len) (y : F) (hy : y * y = b)
    (hev : io.toNat y % 2 = 0) : ¬ decode_encode_p256_statement io a b len := by
  intro hs
  have hP : W.onCurve a b (.aff 0 y) = true := by rw [onCurve_aff_iff]; rw [hy]; ring
  have := hs _ hP
  have h0 : beNat (beBytes len (io.toNat (0 : F))) = io.toNat (0 : F) := beNat_beBytes _ _ (h.toNat_lt 0)
  simp [Sec1.encodeCompressed, Sec1.decodeCompressedS, length_beBytes, h0, h.ofNat_toNat, hev] at this

end p256rule

/-! ## BLS12-381 (ZCash flags), at the level of the model: coordinates through a `CoordIO` view -/

/-- what the BLS codecs assume about the coordinate view: the bytes of a coordinate leave the three
flag bits free and read back to the coordinate; square roots are sound and complete; exactly one of
`y`, `-y` is "lexicographically largest" -/
structure GoodCoordIO {F : Type} [Field F] (io : CoordIO F) (len : Nat) : Prop where
  bytes_shape : ∀ x, ∃ b0 rest, Bls.coordBytes io len x = b0 :: rest ∧ b0 < 32 ∧ rest.length + 1 = io.comps * len
  read_bytes : ∀ x, Bls.readCoord io len (Bls.coordBytes io len x) = x
  sqrt_sound : ∀ a r, io.sqrt? a = some r → r * r = a
  sqrt_complete : ∀ y, ∃ r, io.sqrt? (y * y) = some r
  isNeg_neg : ∀ y, y ≠ 0 → io.isNeg (-y) ≠ io.isNeg y

section bls
variable {F : Type} [Field F] [DecidableEq F] (io : CoordIO F) (a b : F) (n len : Nat)

/-- wrong length ⇒ rejected (both forms) -/
theorem bls_decode_len (bs : List Nat) :
    (bs.length ≠ io.comps * len → Bls.decodeCompressed io a b n len bs = none) ∧
    (bs.length ≠ 2 * io.comps * len → Bls.decodeUncompressed io a b n len bs = none) := by
  constructor <;> intro hl <;> cases bs with
  | nil => simp [Bls.decodeCompressed, Bls.decodeUncompressed]
  | cons b0 rest =>
    simp only [List.length_cons] at hl
    simp [Bls.decodeCompressed, Bls.decodeUncompressed, hl]

/-- wrong flag bits ⇒ rejected: the compressed flag must be set; infinity excludes the sort flag and
any non-zero body bit -/
theorem bls_decode_flags (b0 : Nat) (rest : List Nat) :
    (b0 / 128 % 2 ≠ 1 → Bls.decodeCompressed io a b n len (b0 :: rest) = none) ∧
    (b0 / 64 % 2 = 1 → b0 / 32 % 2 = 1 → Bls.decodeCompressed io a b n len (b0 :: rest) = none) ∧
    (b0 / 64 % 2 = 1 → ((b0 % 32) :: rest).all (· == 0) = false →
      Bls.decodeCompressed io a b n len (b0 :: rest) = none) := by
  refine ⟨?_, ?_, ?_⟩
  · intro hc
    by_cases hl : rest.length + 1 ≠ io.comps * len <;> simp [Bls.decodeCompressed, hl, hc]
  · intro hi hs
    by_cases hl : rest.length + 1 ≠ io.comps * len <;> by_cases hc : b0 / 128 % 2 ≠ 1 <;>
      simp [Bls.decodeCompressed, hl, hc, hi, hs]
  · intro hi hz
    by_cases hl : rest.length + 1 ≠ io.comps * len <;> by_cases hc : b0 / 128 % 2 ≠ 1 <;>
      by_cases hs : b0 / 32 % 2 = 1 <;> simp [Bls.decodeCompressed, hl, hc, hi, hs]
    simpa using hz

/-- **accepted ⇒ valid** (compressed): on the curve and in the subgroup (the test `Bls.inSub`) -/
theorem bls_decode_valid (h : GoodCoordIO io len) (bs : List Nat) (P : WPt F)
    (hd : Bls.decodeCompressed io a b n len bs = some P) :
    W.onCurve a b P = true ∧ Bls.inSub a n P = true := by
  cases bs with
  | nil => simp [Bls.decodeCompressed] at hd
  | cons b0 rest =>
    by_cases hl : rest.length + 1 ≠ io.comps * len
    · simp [Bls.decodeCompressed, hl] at hd
    by_cases hc : b0 / 128 % 2 ≠ 1
    · simp [Bls.decodeCompressed, hl, hc] at hd
    by_cases hi : b0 / 64 % 2 = 1
    · by_cases hs : b0 / 32 % 2 = 1
      · simp [Bls.decodeCompressed, hl, hc, hi, hs] at hd
      · simp only [Bls.decodeCompressed, hl, hc, hi, hs, if_true, if_false] at hd
        split at hd
        · cases hd; exact ⟨rfl, rfl⟩
        · simp at hd
    · simp only [Bls.decodeCompressed, hl, hc, hi, if_false] at hd
      cases hr : io.sqrt? (Bls.readCoord io len (b0 % 32 :: rest) * Bls.readCoord io len (b0 % 32 :: rest) *
            Bls.readCoord io len (b0 % 32 :: rest) + a * Bls.readCoord io len (b0 % 32 :: rest) + b) with
      | none => simp [hr] at hd
      | some r =>
        have hrr := h.sqrt_sound _ _ hr
        simp only [hr] at hd
        have key : ∀ y : F, y * y = Bls.readCoord io len (b0 % 32 :: rest) * Bls.readCoord io len (b0 % 32 :: rest) *
              Bls.readCoord io len (b0 % 32 :: rest) + a * Bls.readCoord io len (b0 % 32 :: rest) + b →
            (if Bls.inSub a n (.aff (Bls.readCoord io len (b0 % 32 :: rest)) y) = true
              then some (WPt.aff (Bls.readCoord io len (b0 % 32 :: rest)) y) else none) = some P →
            W.onCurve a b P = true ∧ Bls.inSub a n P = true := by
          intro y hy hd'
          by_cases hsub : Bls.inSub a n (.aff (Bls.readCoord io len (b0 % 32 :: rest)) y) = true
          · rw [if_pos hsub] at hd'
            cases hd'
            exact ⟨(onCurve_aff_iff a b _ _).2 hy, hsub⟩
          · rw [if_neg hsub] at hd'
            cases hd'
        by_cases hn : io.isNeg r = (b0 / 32 % 2 == 1)
        · rw [if_pos hn] at hd; exact key r hrr hd
        · rw [if_neg hn] at hd; exact key (-r) (by rw [← hrr]; ring) hd

/-- **wrong flag bits ⇒ rejected** (uncompressed, /repo b714135): the compression flag and the sort flag must
be clear, and the infinity flag excludes every coordinate bit -/
theorem bls_uncompressed_flags_rejected (b0 : Nat) (rest : List Nat) :
    (b0 / 128 % 2 = 1 → Bls.decodeUncompressed io a b n len (b0 :: rest) = none) ∧
    (b0 / 32 % 2 = 1 → Bls.decodeUncompressed io a b n len (b0 :: rest) = none) ∧
    (b0 / 64 % 2 = 1 → ((b0 % 32) :: rest).all (· == 0) = false →
      Bls.decodeUncompressed io a b n len (b0 :: rest) = none) := by
  refine ⟨?_, ?_, ?_⟩
  · intro hc
    by_cases hl : rest.length + 1 ≠ 2 * io.comps * len <;> simp [Bls.decodeUncompressed, hl, hc]
  · intro hs
    by_cases hl : rest.length + 1 ≠ 2 * io.comps * len <;> by_cases hc : b0 / 128 % 2 = 1 <;>
      simp [Bls.decodeUncompressed, hl, hc, hs]
  · intro hi hz
    by_cases hl : rest.length + 1 ≠ 2 * io.comps * len <;> by_cases hc : b0 / 128 % 2 = 1 <;>
      by_cases hs : b0 / 32 % 2 = 1 <;> simp [Bls.decodeUncompressed, hl, hc, hs, hi]
    simpa using hz

/-- accepted ⇒ valid (uncompressed) -/
theorem bls_decode_valid_uncompressed (bs : List Nat) (P : WPt F)
    (hd : Bls.decodeUncompressed io a b n len bs = some P) :
    W.onCurve a b P = true ∧ Bls.inSub a n P = true := by
  cases bs with
  | nil => simp [Bls.decodeUncompressed] at hd
  | cons b0 rest =>
    by_cases hl : rest.length + 1 ≠ 2 * io.comps * len
    · simp [Bls.decodeUncompressed, hl] at hd
    by_cases hc : b0 / 128 % 2 = 1
    · simp [Bls.decodeUncompressed, hl, hc] at hd
    by_cases hs : b0 / 32 % 2 = 1
    · simp [Bls.decodeUncompressed, hl, hc, hs] at hd
    by_cases hi : b0 / 64 % 2 = 1
    · simp only [Bls.decodeUncompressed, hl, hc, hs, hi, if_true, if_false] at hd
      split at hd
      · cases hd; exact ⟨rfl, rfl⟩
      · simp at hd
    · simp only [Bls.decodeUncompressed, hl, hc, hs, hi, if_false] at hd
      split at hd
      · next hcv =>
        cases hd
        simpa using hcv
      · simp at hd
/-- **decode ∘ encode, BLS compressed**: every subgroup point round-trips (flags `100`/`101` + `x`,
`110` + zeros for the identity) -/
theorem bls_decode_encode (h : GoodCoordIO io len) (hpos : 0 < io.comps * len) (P : WPt F)
    (hP : W.onCurve a b P = true) (hS : Bls.inSub a n P = true) :
    Bls.decodeCompressed io a b n len (Bls.encodeCompressed io len P) = some P := by
  cases P with
  | inf =>
    obtain ⟨k, hk⟩ := Nat.exists_eq_succ_of_ne_zero (Nat.pos_iff_ne_zero.1 hpos)
    simp [Bls.encodeCompressed, Bls.decodeCompressed, Bls.setFlags, hk, List.replicate_succ]
  | aff x y =>
    have hxy : y * y = x * x * x + a * x + b := (onCurve_aff_iff a b x y).1 hP
    obtain ⟨b0, rest, hbytes, hb0, hlen⟩ := h.bytes_shape x
    have hread := h.read_bytes x
    rw [hbytes] at hread
    obtain ⟨r, hr⟩ := h.sqrt_complete y
    have hrr : r * r = y * y := h.sqrt_sound _ _ hr
    have hry : r = y ∨ r = -y := by
      have : (r - y) * (r + y) = 0 := by linear_combination hrr
      rcases mul_eq_zero.1 this with h1 | h1
      · left; exact sub_eq_zero.1 h1
      · right; exact eq_neg_of_add_eq_zero_left h1
    have hpick : ∀ s : Bool, s = io.isNeg y → (if io.isNeg r = s then r else -r) = y := by
      intro s hs
      subst hs
      rcases hry with rfl | rfl
      · simp
      · by_cases hy0 : y = 0
        · subst hy0; simp
        · have := h.isNeg_neg y hy0
          simp [this]
    by_cases hneg : io.isNeg y = true
    · have e1 : (b0 + (128 + 32)) / 128 % 2 = 1 := by omega
      have e2 : (b0 + (128 + 32)) / 64 % 2 = 0 := by omega
      have e3 : (b0 + (128 + 32)) / 32 % 2 = 1 := by omega
      have e4 : (b0 + (128 + 32)) % 32 = b0 := by omega
      have := hpick true hneg.symm
      simp only [Bls.encodeCompressed, hbytes, Bls.setFlags, hneg, if_true, Bls.decodeCompressed, hlen,
        ne_eq, not_true_eq_false, if_false, e1, e2, e3, e4, hread, ← hxy, hr]
      simp [this, hS]
    · have hneg' : io.isNeg y = false := by simpa using hneg
      have e1 : (b0 + (128 + 0)) / 128 % 2 = 1 := by omega
      have e2 : (b0 + (128 + 0)) / 64 % 2 = 0 := by omega
      have e3 : (b0 + (128 + 0)) / 32 % 2 = 0 := by omega
      have e4 : (b0 + (128 + 0)) % 32 = b0 := by omega
      have := hpick false hneg'.symm
      simp only [Bls.encodeCompressed, hbytes, Bls.setFlags, hneg', Bool.false_eq_true, if_false,
        Bls.decodeCompressed, hlen, ne_eq, not_true_eq_false, e1, e2, e3, e4, hread, ← hxy, hr]
      simp [this, hS]

/-- distinct subgroup points have distinct BLS compressed encodings -/
theorem bls_encode_injective (h : GoodCoordIO io len) (hpos : 0 < io.comps * len) (P Q : WPt F)
    (hP : W.onCurve a b P = true) (hQ : W.onCurve a b Q = true)
    (hSP : Bls.inSub a n P = true) (hSQ : Bls.inSub a n Q = true)
    (he : Bls.encodeCompressed io len P = Bls.encodeCompressed io len Q) : P = Q := by
  have h1 := bls_decode_encode io a b n len h hpos P hP hSP
  have h2 := bls_decode_encode io a b n len h hpos Q hQ hSQ
  rw [he, h2] at h1
  exact (Option.some.inj h1).symm

end bls

/-! ## the constants of the Go encoders -/

/-- generated table → the model's record -/
def ofGen (f : Gen.EncConsts.Facts) : Consts.Facts :=
  ⟨f.lens, f.cmps, f.masks, f.shifts, f.idx, f.vals, f.sizes⟩

open Gen.EncConsts in
/-- **the tag bytes, flag masks, shift amounts, byte indices and lengths that the encoders / decoders
of /repo hard-code are the ones the model is written with** (`Consts.expected`): regenerated from the
sources on every run, so a changed mask (`0x7f` → `0x3f`), tag, flag position or length breaks this
proof even before a failing input is found. -/
theorem enc_constants_match_source :
    [("k256_FromCompressed", ofGen k256_FromCompressed), ("k256_FromUncompressed", ofGen k256_FromUncompressed),
     ("k256_ToCompressed", ofGen k256_ToCompressed), ("k256_ToUncompressed", ofGen k256_ToUncompressed),
     ("p256_FromCompressed", ofGen p256_FromCompressed), ("p256_FromUncompressed", ofGen p256_FromUncompressed),
     ("p256_ToCompressed", ofGen p256_ToCompressed), ("p256_ToUncompressed", ofGen p256_ToUncompressed),
     ("pallas_FromCompressed", ofGen pallas_FromCompressed), ("pallas_FromUncompressed", ofGen pallas_FromUncompressed),
     ("pallas_ToCompressed", ofGen pallas_ToCompressed), ("pallas_ToUncompressed", ofGen pallas_ToUncompressed),
     ("vesta_FromCompressed", ofGen vesta_FromCompressed), ("vesta_FromUncompressed", ofGen vesta_FromUncompressed),
     ("vesta_ToCompressed", ofGen vesta_ToCompressed), ("vesta_ToUncompressed", ofGen vesta_ToUncompressed),
     ("ed25519_FromCompressed", ofGen ed25519_FromCompressed), ("ed25519_FromUncompressed", ofGen ed25519_FromUncompressed),
     ("ed25519_ToCompressed", ofGen ed25519_ToCompressed), ("ed25519_ToUncompressed", ofGen ed25519_ToUncompressed),
     ("ed25519_Fp_SetBytes", ofGen ed25519_Fp_SetBytes),
     ("curve25519_FromCompressed", ofGen curve25519_FromCompressed), ("curve25519_FromUncompressed", ofGen curve25519_FromUncompressed),
     ("curve25519_ToCompressed", ofGen curve25519_ToCompressed), ("curve25519_ToUncompressed", ofGen curve25519_ToUncompressed),
     ("g1_FromCompressed", ofGen g1_FromCompressed), ("g1_FromUncompressed", ofGen g1_FromUncompressed),
     ("g1_ToCompressed", ofGen g1_ToCompressed), ("g1_ToUncompressed", ofGen g1_ToUncompressed),
     ("g2_FromCompressed", ofGen g2_FromCompressed), ("g2_FromUncompressed", ofGen g2_FromUncompressed),
     ("g2_ToCompressed", ofGen g2_ToCompressed), ("g2_ToUncompressed", ofGen g2_ToUncompressed)]
      = Consts.expected ∧
    functions = Consts.expected.map (·.1) ++ ["gt_FromBytes"] ∧
    gt_FromBytes.lens = [12 * Consts.lenBls] ∧
    [k256_FpBytes, p256_FpBytes, pasta_FpBytes, pasta_FqBytes, ed25519_FpBytes] = List.replicate 5 Consts.len256 ∧
    bls12381_FpBytes = Consts.lenBls := by decide

/-- **the model's arithmetic is written with those constants**: the sign flag of the Pasta / Edwards
forms is bit `signShift` of the last byte and `coordMask` keeps the coordinate bits (`topBit`); the SEC1
decoders accept exactly the tags `tagEven`/`tagOdd` resp. `tagUncompressed` and the encoders emit them;
the BLS flags are bits `blsC`/`blsI`/`blsS` of the first byte and `blsBodyMask` keeps the rest. -/
theorem enc_constants_used_by_model {F : Type} [Field F] [DecidableEq F] (io : FieldIO F) (a b : F) :
    (∀ len, 0 < len → topBit len = 256 ^ (len - 1) * 2 ^ Consts.signShift ∧
      topBit len = 256 ^ (len - 1) * (Consts.coordMask + 1)) ∧
    Consts.topBitMask = 2 ^ Consts.signShift ∧
    (∀ len tag xs, tag ≠ Consts.tagEven → tag ≠ Consts.tagOdd →
      Sec1.decodeCompressed io a b len (tag :: xs) = none) ∧
    (∀ len tag xs, tag ≠ Consts.tagUncompressed → Sec1.decodeUncompressed io a b len (tag :: xs) = none) ∧
    (∀ len P, (Sec1.encodeCompressed io len P).head? = some Consts.tagEven ∨
      (Sec1.encodeCompressed io len P).head? = some Consts.tagOdd) ∧
    (∀ len P, (Sec1.encodeUncompressed io len P).head? = some Consts.tagUncompressed) ∧
    (128 = 2 ^ Consts.blsC ∧ 64 = 2 ^ Consts.blsI ∧ 32 = 2 ^ Consts.blsS ∧ 32 = Consts.blsBodyMask + 1 ∧
      192 = 2 ^ Consts.blsC + 2 ^ Consts.blsI) := by
  refine ⟨?_, by decide, ?_, ?_, ?_, ?_, by decide⟩
  · intro len hlen
    have h8 : 8 * len - 1 = 8 * (len - 1) + 7 := by omega
    have : topBit len = 256 ^ (len - 1) * 2 ^ 7 := by
      rw [topBit, h8, pow_add, show (256 : Nat) = 2 ^ 8 by norm_num, ← pow_mul]
    exact ⟨this, this⟩
  · intro len tag xs h2 h3
    exact (decode_flags io a b len tag xs).1 h2 h3
  · intro len tag xs h4
    exact (decode_flags io a b len tag xs).2 h4
  · intro len P
    cases P with
    | inf => left; rfl
    | aff x y =>
      rcases Nat.mod_two_eq_zero_or_one (io.toNat y) with h0 | h1
      · left; simp [Sec1.encodeCompressed, h0, Consts.tagEven]
      · right; simp [Sec1.encodeCompressed, h1, Consts.tagOdd]
  · intro len P
    cases P <;> rfl

/-! ## scalars and prime-field elements -/

/-- `FromBytes` accepts exactly `len` bytes and returns `bytes mod order` -/
theorem fromBytes_reduces (q len : Nat) (bs : List Nat) :
    (bs.length = len → Scalar.fromBytes q len bs = some (beNat bs % q)) ∧
    (bs.length ≠ len → Scalar.fromBytes q len bs = none) := by
  constructor <;> intro h <;> simp [Scalar.fromBytes, h]

/-- `Bytes` then `FromBytes` is the identity on canonical values -/
theorem bytes_roundtrip (q len v : Nat) (hv : v < q) (hq : q ≤ 256 ^ len) :
    Scalar.fromBytes q len (Scalar.toBytes len v) = some v ∧ (Scalar.toBytes len v).length = len := by
  have hb := beNat_beBytes len v (lt_of_lt_of_le hv hq)
  simp [Scalar.fromBytes, Scalar.toBytes, length_beBytes, hb, Nat.mod_eq_of_lt hv]

/-- distinct canonical values have distinct encodings -/
theorem bytes_injective (q len v w : Nat) (hv : v < q) (hw : w < q) (hq : q ≤ 256 ^ len)
    (he : Scalar.toBytes len v = Scalar.toBytes len w) : v = w := by
  have h1 := (bytes_roundtrip q len v hv hq).1
  have h2 := (bytes_roundtrip q len w hw hq).1
  rw [he, h2] at h1
  exact (Option.some.inj h1).symm

/-- `FromWideBytes` = wide value mod order (at most `wide` bytes) -/
theorem fromWideBytes_mod (q wide : Nat) (bs : List Nat) :
    (bs.length ≤ wide → Scalar.fromWideBytes q wide bs = some (beNat bs % q)) ∧
    (wide < bs.length → Scalar.fromWideBytes q wide bs = none) := by
  constructor <;> intro h
  · simp [Scalar.fromWideBytes, Nat.not_lt.2 h]
  · simp [Scalar.fromWideBytes, h]

/-! ## non-vacuity: a concrete field view satisfying `GoodIO`, and the theorems applied to it -/

instance : Fact (Nat.Prime 7) := ⟨by decide⟩

/-- `ZMod 7` with one-byte coordinates and a square root by search -/
def io7 : FieldIO (ZMod 7) where
  toNat := ZMod.val
  ofNat := fun n => (n : ZMod 7)
  sqrt? := fun a => ((List.range 7).map (fun n => (n : ZMod 7))).find? (fun r => r * r = a)

theorem io7_good : GoodIO io7 1 where
  ofNat_toNat := by decide
  ofNat_zero := by decide
  toNat_lt := by decide
  sqrt_sound := by decide
  sqrt_complete := by decide
  parity_neg := by decide

/-- `y² = x³ + 3` over `F₇` (3 is a non-residue: no point with `x = 0`); `(1, 2)` round-trips -/
example : Sec1.decodeCompressed io7 0 3 1 (Sec1.encodeCompressed io7 1 (.aff 1 2)) = some (.aff 1 2) :=
  decode_encode_partial io7 0 3 1 io7_good (.aff 1 2) (by decide) (by intro x y h; cases h; decide)

example : Sec1.decodeUncompressed io7 0 3 1 (Sec1.encodeUncompressed io7 1 (.aff 1 2)) = some (.aff 1 2) :=
  decode_encode_uncompressed io7 0 3 1 io7_good (by decide) (.aff 1 2) (by decide)

/-- `y² = x³ + 2` over `F₇` (2 = 3²): the full compressed round-trip statement is false -/
example : ¬ decode_encode_statement io7 0 2 1 :=
  decode_encode_statement_false_of_sqrt io7 0 2 1 io7_good 3 (by decide)

example : Sec1.decodeCompressed io7 0 3 1 [3, 1] = some (.aff 1 5) ∧ W.onCurve (0 : ZMod 7) 3 (.aff 1 5) = true :=
  ⟨by decide, decode_valid io7 0 3 1 io7_good [3, 1] _ (by decide)⟩

example : Sec1.decodeCompressed io7 0 3 1 [5, 1] = none ∧ Sec1.decodeCompressed io7 0 3 1 [2, 1, 0] = none :=
  ⟨(decode_flags io7 0 3 1 5 [1]).1 (by decide) (by decide), (decode_len io7 0 3 1 [2, 1, 0]).1 (by decide)⟩

/-- the Euler evaluation is not vacuous: it really runs on the 256-bit constants -/
example : powMod 400 k256.b ((k256.p - 1) / 2) k256.p = k256.p - 1 := by decide +kernel
example : powMod 400 3 5 11 = 3 ^ 5 % 11 := by decide

example : Scalar.fromBytes 7 1 [9] = some 2 ∧ Scalar.fromBytes 7 1 [9, 0] = none ∧
    Scalar.fromWideBytes 7 2 [1, 0] = some 4 ∧ Scalar.toBytes 2 258 = [1, 2] := by decide
example : Scalar.fromBytes 251 1 (Scalar.toBytes 1 200) = some 200 := (bytes_roundtrip 251 1 200 (by decide) (by decide)).1

/-! ### non-vacuity of the value / off-curve / flag-bit / BLS / constants theorems -/

theorem io7_top : ∀ x, io7.toNat x < topBit 1 := by decide

/-- the accepted point's `x` is the byte read: `03 ‖ 01` gives `(1, 5)` -/
example : ∀ x y, WPt.aff (1 : ZMod 7) 5 = .aff x y → x = io7.ofNat (beNat [1]) :=
  (decode_value io7 0 3 1 3 [1] (.aff 1 5) (by decide)).2

/-- `y² = x³ + 2` over `F₇` has no point with `x = 1`: `02 ‖ 01` is rejected -/
example : Sec1.decodeCompressed io7 0 2 1 [2, 1] = none :=
  (decode_offcurve io7 0 2 1 io7_good 2).1 [1] (by decide) (by decide)

example : Sec1.decodeUncompressed io7 0 3 1 [4, 1, 3] = none :=
  (decode_offcurve io7 0 3 1 io7_good 4).2 [1, 3] (by decide) (by decide)

example : Pasta.decodeCompressed io7 0 2 1 [1] = none :=
  pasta_decode_offcurve io7 0 2 1 io7_good [1] (by decide) (by decide)

/-- Pasta layout over `F₇` with one byte: `(1, 5)` is `0x81` and round-trips; `(1, 2)` is `0x01` -/
example : Pasta.encodeCompressed io7 1 (.aff 1 5) = [0x81] ∧
    Pasta.decodeCompressed io7 0 3 1 (Pasta.encodeCompressed io7 1 (.aff 1 5)) = some (.aff 1 5) :=
  ⟨by decide, pasta_decode_encode io7 0 3 1 io7_good (by decide) io7_top (.aff 1 5) (by decide)
    (by intro x y h; cases h; decide)⟩

example : Pasta.decodeUncompressed io7 0 3 1 (Pasta.encodeUncompressed io7 1 (.aff 1 2)) = some (.aff 1 2) :=
  pasta_decode_encode_uncompressed io7 0 3 1 io7_good (by decide) (.aff 1 2) (by decide)

example : Pasta.encodeCompressed io7 1 (.aff 1 2) ≠ Pasta.encodeCompressed io7 1 (.aff 1 5) := fun he =>
  absurd ((pasta_encode_injective io7 0 3 1 io7_good (by decide) io7_top (by decide) (.aff 1 2) (.aff 1 5)
    (by decide) (by decide)).2 (by intro x y h; cases h; decide) (by intro x y h; cases h; decide) he) (by decide)

example : ∀ x y, Pasta.decodeCompressed io7 0 3 1 [0x81] = some (.aff x y) → x = io7.ofNat (leNat [0x81] % topBit 1) :=
  fun x y h => pasta_decode_value io7 0 3 1 [0x81] x y h

/-- `−x² + y² = 1 + 4x²y²` over `F₇` (`a = −1 = 6`, `d = 4`, `a/d = 5` a non-residue): `(1, 2)` is on
the curve and round-trips in both forms -/
example : Ed.decodeCompressed io7 6 4 1 (Ed.encodeCompressed io7 1 ⟨1, 2⟩) = some ⟨1, 2⟩ :=
  ed_decode_encode io7 6 1 io7_good (by decide) io7_top 4 (by decide) ⟨1, 2⟩ (by decide)

example : Ed.decodeUncompressed io7 6 4 1 (Ed.encodeUncompressed io7 1 ⟨1, 2⟩) = some ⟨1, 2⟩ :=
  ed_decode_encode_uncompressed io7 6 1 io7_good io7_top 4 ⟨1, 2⟩ (by decide)

example : Ed.encodeCompressed io7 1 ⟨1, 2⟩ ≠ Ed.encodeCompressed io7 1 ⟨6, 2⟩ := fun he =>
  absurd ((ed_encode_injective io7 6 1 io7_good (by decide) io7_top 4 (by decide) ⟨1, 2⟩ ⟨6, 2⟩
    (by decide) (by decide)).1 he) (by decide)

example : Ed.encodeCompressed io7 1 ⟨1, 2⟩ = [0x82] ∧
    (⟨1, 2⟩ : EPt (ZMod 7)).y = io7.ofNat (leNat (Ed.encodeCompressed io7 1 ⟨1, 2⟩) % topBit 1) :=
  ⟨by decide, ed_decode_value io7 6 1 4 _ ⟨1, 2⟩
    (ed_decode_encode io7 6 1 io7_good (by decide) io7_top 4 (by decide) ⟨1, 2⟩ (by decide))⟩

/-- over `F₇`: `(0, 6)` and the identity `(0, 1)` share the all-zero `u ‖ v` encoding -/
example : Mont.encodeUncompressed io7 3 1 ⟨0, -1⟩ = [0, 0] ∧ Mont.encodeUncompressed io7 3 1 E.zero = [0, 0] :=
  ⟨(mont_order2_collides io7 1 3 (by decide) (by decide)).2.trans (by decide), by decide⟩

/-- `y² = x³ + 2` over `F₇`: `(0, 3)` (odd) round-trips under the P-256 rule, `(0, 4)` (even) cannot -/
example : Sec1.decodeCompressedS io7 0 2 1 (Sec1.encodeCompressed io7 1 (.aff 0 3)) = some (.aff 0 3) :=
  decode_encode_p256 io7 0 2 1 io7_good (.aff 0 3) (by decide) (by intro x y h; cases h; decide)

example : ¬ decode_encode_p256_statement io7 0 2 1 :=
  decode_encode_p256_statement_false_of_even_sqrt io7 0 2 1 io7_good 4 (by decide) (by decide)

example : W.onCurve (0 : ZMod 7) 2 (.aff 3 1) = true ∧ Sec1.decodeCompressedS io7 0 2 1 [5, 0] = none :=
  ⟨decode_valid_p256 io7 0 2 1 io7_good [3, 3] (.aff 3 1) (by decide),
   (decode_len_flags_p256 io7 0 2 1 5 [0]).2.1 (by decide) (by decide)⟩

example : Sec1.encodeCompressed io7 1 (.aff 0 3) ≠ Sec1.encodeCompressed io7 1 (.aff 3 1) := fun he =>
  absurd (encode_injective_p256 io7 0 2 1 io7_good (.aff 0 3) (.aff 3 1) (by decide) (by decide)
    (by intro x y h; cases h; decide) (by intro x y h; cases h; decide) he) (by decide)

/-- a one-component BLS-style coordinate view over `F₇` (one byte per coordinate) -/
def cio7 : CoordIO (ZMod 7) where
  comps := 1
  toNats x := [x.val]
  ofNats xs := ((xs.headD 0 : Nat) : ZMod 7)
  sqrt? := io7.sqrt?
  isNeg y := decide ((-y).val < y.val)

theorem cio7_bytes : ∀ x : ZMod 7, Bls.coordBytes cio7 1 x = [x.val] := by decide

theorem cio7_good : GoodCoordIO cio7 1 where
  bytes_shape := fun x => ⟨x.val, [], cio7_bytes x, by revert x; decide, rfl⟩
  read_bytes := by decide
  sqrt_sound := by decide
  sqrt_complete := by decide
  isNeg_neg := by decide

/-- `y² = x³ + 3` over `F₇` has 13 points (prime order): `(1, 2)` is in the "subgroup" and round-trips
through the flag byte; `(1, 5)` is the lexicographically larger root and carries the sort flag -/
example : Bls.encodeCompressed cio7 1 (.aff 1 5) = [0x80 + 0x20 + 1] ∧
    Bls.decodeCompressed cio7 0 3 13 1 (Bls.encodeCompressed cio7 1 (.aff 1 5)) = some (.aff 1 5) :=
  ⟨by decide, bls_decode_encode cio7 0 3 13 1 cio7_good (by decide) (.aff 1 5) (by decide) (by decide)⟩

example : Bls.decodeCompressed cio7 0 3 13 1 (Bls.encodeCompressed cio7 1 .inf) = some .inf :=
  bls_decode_encode cio7 0 3 13 1 cio7_good (by decide) .inf (by decide) (by decide)

example : W.onCurve (0 : ZMod 7) 3 (.aff 1 2) = true ∧ Bls.inSub (0 : ZMod 7) 13 (.aff 1 2) = true :=
  bls_decode_valid cio7 0 3 13 1 cio7_good [0x81] (.aff 1 2) (by decide)

example : Bls.decodeCompressed cio7 0 3 13 1 [0x01] = none ∧ Bls.decodeCompressed cio7 0 3 13 1 [0xe0] = none ∧
    Bls.decodeCompressed cio7 0 3 13 1 [0xc1] = none ∧ Bls.decodeCompressed cio7 0 3 13 1 [0x81, 0] = none :=
  ⟨(bls_decode_flags cio7 0 3 13 1 0x01 []).1 (by decide),
   (bls_decode_flags cio7 0 3 13 1 0xe0 []).2.1 (by decide) (by decide),
   (bls_decode_flags cio7 0 3 13 1 0xc1 []).2.2 (by decide) (by decide),
   (bls_decode_len cio7 0 3 13 1 [0x81, 0]).1 (by decide)⟩

example : Bls.decodeUncompressed cio7 0 3 13 1 [0x81, 2] = none ∧ Bls.decodeUncompressed cio7 0 3 13 1 [0x21, 2] = none ∧
    Bls.decodeUncompressed cio7 0 3 13 1 [0x41, 0] = none ∧ Bls.decodeUncompressed cio7 0 3 13 1 [0x40, 0] = some .inf :=
  ⟨(bls_uncompressed_flags_rejected cio7 0 3 13 1 0x81 [2]).1 (by decide),
   (bls_uncompressed_flags_rejected cio7 0 3 13 1 0x21 [2]).2.1 (by decide),
   (bls_uncompressed_flags_rejected cio7 0 3 13 1 0x41 [0]).2.2 (by decide) (by decide), by decide⟩

example : Bls.encodeCompressed cio7 1 (.aff 1 2) ≠ Bls.encodeCompressed cio7 1 (.aff 1 5) := fun he =>
  absurd (bls_encode_injective cio7 0 3 13 1 cio7_good (by decide) (.aff 1 2) (.aff 1 5)
    (by decide) (by decide) (by decide) (by decide) he) (by decide)

/-- the constants theorem is about real numbers: the Pasta mask is `0x7f`, the sign shift `7` -/
example : Consts.pastaFromCompressed.masks = [1, 0x7f] ∧ Consts.pastaFromCompressed.shifts = [7] ∧
    topBit 32 = 256 ^ 31 * 0x80 :=
  ⟨by decide, by decide, ((enc_constants_used_by_model io7 0 3).1 32 (by decide)).1⟩

end BronVerif.Props.C13
