import BronVerif.Lemmas.PackedBits
/-!
# C09 — packed bit vectors of `pkg/ot/bits.go` (property theorems about `Model/PackedBits.lean`)

The OT extension's correlation (`Props/C09.lean`, `softspoken_correlation`) is stated on unpacked bit
rows; the code works on packed bytes and moves between the two views with `Get/Set/Swap`, `Repeat` and
`TransposePackedBits`.  These theorems close that gap on the executable byte-level model the driver
compares the Go functions with — every length, every index:

* `packedbits_get_set`, `packedbits_get_clear`, `packedbits_swap` — bit accessors;
* `packedbits_pack` — `Pack` stores bit `k` at position `k`, zero padding behind;
* `packedbits_repeat` — bit `k` of `Repeat(n)` is bit `k / n` of the input, output has `len·n` bytes;
* `packedbits_transpose_entry` — entry `(j,i)` of the transposed matrix is entry `(i,j)` of the input, and
  the shape is `8·C × R`;
* `packedbits_transpose_involutive` — transposing twice gives the input back (well-shaped byte matrices).

Not proved: that the 64×64 butterfly path (`transposeFast`) equals the bit-by-bit path
(`packedbits_transpose_fast_statement`); the driver checks the Go result against both on every
fast-path input.
-/
namespace BronVerif.Props.C09Bits
open BronVerif.PackedBits BronVerif.Lemmas.PackedBits

/-- `Set(i)`: same length, still bytes, bit `i` becomes 1 and every other bit is unchanged. -/
theorem packedbits_get_set (pb : List Nat) (i : Nat) (hi : i < 8 * pb.length) (hb : IsBytes pb) :
    (set pb i).length = pb.length ∧ IsBytes (set pb i)
    ∧ ∀ k, get (set pb i) k = if k = i then true else get pb k := by
  refine ⟨length_orBit _ _ _, isBytes_orBit _ _ _ hb, fun k => ?_⟩
  unfold PackedBits.set
  rw [get_orBit _ _ _ _ hi]
  by_cases h : k = i <;> simp [h]

example : set [0x12, 0x34] 11 = [0x12, 0x3c] ∧ get (set [0x12, 0x34] 11) 11 = true ∧ get [0x12, 0x34] 11 = false := by
  decide

/-- `Clear(i)`: same length, still bytes, bit `i` becomes 0 and every other bit is unchanged. -/
theorem packedbits_get_clear (pb : List Nat) (i : Nat) (hi : i < 8 * pb.length) (hb : IsBytes pb) :
    (clear pb i).length = pb.length ∧ IsBytes (clear pb i)
    ∧ ∀ k, get (clear pb i) k = if k = i then false else get pb k := by
  refine ⟨length_clear _ _, isBytes_clear _ _ hb, fun k => ?_⟩
  rw [get_clear _ _ _ hi]
  by_cases h : k = i <;> simp [h]

example : clear [0x12, 0x34] 12 = [0x12, 0x24] := by decide

/-- `Swap(i,j)` exchanges bits `i` and `j` and nothing else — also for `i = j` and for two positions in
the same byte (the four statements of the Go function act on the same byte then). -/
theorem packedbits_swap (pb : List Nat) (i j : Nat) (hi : i < 8 * pb.length) (hj : j < 8 * pb.length)
    (hb : IsBytes pb) :
    (swap pb i j).length = pb.length ∧ IsBytes (swap pb i j)
    ∧ ∀ k, get (swap pb i j) k = if k = j then get pb i else if k = i then get pb j else get pb k := by
  have l1 : (clear pb i).length = pb.length := length_clear _ _
  have l2 : (orBit (clear pb i) i (get pb j)).length = pb.length := by rw [length_orBit, l1]
  have l3 : (clear (orBit (clear pb i) i (get pb j)) j).length = pb.length := by rw [length_clear, l2]
  refine ⟨by unfold swap; rw [length_orBit, l3], ?_, fun k => ?_⟩
  · unfold swap
    exact isBytes_orBit _ _ _ (isBytes_clear _ _ (isBytes_orBit _ _ _ (isBytes_clear _ _ hb)))
  · unfold swap
    rw [get_orBit _ _ _ _ (by rw [l3]; exact hj), get_clear _ _ _ (by rw [l2]; exact hj),
      get_orBit _ _ _ _ (by rw [l1]; exact hi), get_clear _ _ _ hi]
    by_cases h1 : k = j
    · simp [h1]
    · by_cases h2 : k = i
      · subst h2; simp [h1]
      · simp [h1, h2]

example : swap [0x12, 0x34] 1 8 = [0x10, 0x35] ∧ swap [0x12] 1 2 = [0x14] ∧ swap [0x12] 4 4 = [0x12] := by decide

/-! ## `Pack` -/

theorem get_packLoop (bs : List Bool) (out : List Nat) (i k : Nat) (h : i + bs.length ≤ 8 * out.length) :
    get (packLoop out bs i) k = (get out k || (decide (i ≤ k ∧ k < i + bs.length) && bs.getD (k - i) false)) := by
  induction bs generalizing out i with
  | nil => simp [packLoop]
  | cons b bs ih =>
    have hlen : (b :: bs).length = bs.length + 1 := rfl
    rw [hlen] at h ⊢
    rw [packLoop, ih _ _ (by rw [length_orBit]; omega), get_orBit _ _ _ _ (by omega)]
    by_cases h1 : k = i
    · subst h1
      have e1 : ¬ (k + 1 ≤ k ∧ k < k + 1 + bs.length) := by omega
      have e2 : (k ≤ k ∧ k < k + (bs.length + 1)) := by omega
      simp [e1, e2]
    · by_cases h2 : k < i
      · have e1 : ¬ (i + 1 ≤ k ∧ k < i + 1 + bs.length) := by omega
        have e2 : ¬ (i ≤ k ∧ k < i + (bs.length + 1)) := by omega
        simp [h1, e1, e2]
      · have e3 : (i + 1 ≤ k ∧ k < i + 1 + bs.length) ↔ (i ≤ k ∧ k < i + (bs.length + 1)) := by omega
        have e4 : k - i = (k - (i + 1)) + 1 := by omega
        simp [h1, e3, e4]

/-- `Pack`: `⌈n/8⌉` bytes; bit `k` of the result is input bit `k`, the padding bits are 0. -/
theorem packedbits_pack (bs : List Bool) :
    (pack bs).length = (bs.length + 7) / 8 ∧ IsBytes (pack bs)
    ∧ ∀ k, get (pack bs) k = bs.getD k false := by
  have hl : ∀ (bs : List Bool) (out : List Nat) (i : Nat), (packLoop out bs i).length = out.length := by
    intro bs
    induction bs with
    | nil => intros; rfl
    | cons b bs ih => intro out i; rw [packLoop, ih, length_orBit]
  have hb : ∀ (bs : List Bool) (out : List Nat) (i : Nat), IsBytes out → IsBytes (packLoop out bs i) := by
    intro bs
    induction bs with
    | nil => intro out i h; exact h
    | cons b bs ih => intro out i h; exact ih _ _ (isBytes_orBit _ _ _ h)
  refine ⟨by unfold pack; rw [hl, List.length_replicate], hb _ _ _ (isBytes_replicate_zero _), fun k => ?_⟩
  unfold pack
  rw [get_packLoop _ _ _ _ (by rw [List.length_replicate]; omega), get_replicate_zero]
  by_cases h : k < bs.length
  · simp [h]
  · have : bs.length ≤ k := by omega
    simp [h, List.getD_eq_getElem?_getD, List.getElem?_eq_none this]

example : pack [true, false, true, true, false, false, false, false, true] = [0x0d, 0x01] := by decide

/-! ## `Repeat` -/

theorem length_bits (pb : List Nat) : (bits pb).length = 8 * pb.length := by simp [bits]

theorem getD_bits (pb : List Nat) (k : Nat) (hk : k < 8 * pb.length) : (bits pb).getD k false = get pb k := by
  unfold bits
  rw [List.getD_eq_getElem?_getD, List.getElem?_map, List.getElem?_range hk]
  rfl

/-- `Repeat(n)`: the output has `len·n` bytes and bit `k` of it is bit `k / n` of the input, for every
`k` below the output's bit length — every `n ≥ 0`, every input length (so each input bit occupies
exactly the `n` consecutive positions `n·i … n·i + n − 1`, across byte boundaries). -/
theorem packedbits_repeat (pb : List Nat) (n : Nat) :
    (repeatBits pb n).length = pb.length * n ∧ IsBytes (repeatBits pb n)
    ∧ ∀ k, k < 8 * (pb.length * n) → get (repeatBits pb n) k = get pb (k / n) := by
  refine ⟨by unfold repeatBits; rw [length_repeatLoop, List.length_replicate],
    isBytes_repeatLoop _ _ _ _ (isBytes_replicate_zero _), fun k hk => ?_⟩
  unfold repeatBits
  have hn : 0 < n := by
    rcases Nat.eq_zero_or_pos n with h | h
    · subst h; simp at hk
    · exact h
  have hk' : k < n * (8 * pb.length) := by
    have : 8 * (pb.length * n) = n * (8 * pb.length) := by ring
    omega
  rw [get_repeatLoop _ _ _ _ _ (by rw [length_bits, List.length_replicate]; apply Nat.le_of_eq; ring),
    get_replicate_zero, length_bits]
  have hdiv : k / n < 8 * pb.length := (Nat.div_lt_iff_lt_mul hn).mpr (by rw [Nat.mul_comm]; exact hk')
  have e : (0 ≤ k ∧ k < 0 + n * (8 * pb.length)) := by omega
  simp only [Bool.false_or, e, decide_true, Bool.true_and, Nat.sub_zero]
  exact getD_bits _ _ hdiv

example : repeatBits [0x0a, 0xff] 3 = [0x38, 0x0e, 0x00, 0xff, 0xff, 0xff] := by decide

/-! ## transposition -/

theorem getD_transposeSlow (m : List (List Nat)) (R C j : Nat) (hj : j < 8 * C) :
    (transposeSlow m R C).getD j [] = transposeRow m R j := by
  unfold transposeSlow
  rw [List.getD_eq_getElem?_getD, List.getElem?_map, List.getElem?_range hj]
  rfl

theorem length_transposeRow (m : List (List Nat)) (R j : Nat) : (transposeRow m R j).length = R := by
  unfold transposeRow; rw [length_orFill, List.length_replicate]

theorem get_transposeRow (m : List (List Nat)) (R j i : Nat) (hi : i < 8 * R) :
    get (transposeRow m R j) i = get (m.getD i []) j := by
  unfold transposeRow
  rw [get_orFill _ _ _ _ (by rw [List.length_replicate]), get_replicate_zero]
  simp [hi]

/-- `transposePackedBitsSlow` on `8·R` rows of `C` bytes yields `8·C` rows of `R` bytes, and bit `i` of
output row `j` is bit `j` of input row `i` (`inputMatrixBits[i][j] == outputMatrixBits[j][i]`, the
sentence in the Go doc comment). -/
theorem packedbits_transpose_entry (m : List (List Nat)) (R C : Nat) :
    (transposeSlow m R C).length = 8 * C
    ∧ (∀ row ∈ transposeSlow m R C, row.length = R ∧ IsBytes row)
    ∧ ∀ i j, i < 8 * R → j < 8 * C → get ((transposeSlow m R C).getD j []) i = get (m.getD i []) j := by
  refine ⟨by simp [transposeSlow], ?_, fun i j hi hj => ?_⟩
  · intro row hrow
    unfold transposeSlow at hrow
    rw [List.mem_map] at hrow
    obtain ⟨j, _, rfl⟩ := hrow
    exact ⟨length_transposeRow _ _ _, isBytes_orFill _ _ _ (isBytes_replicate_zero _)⟩
  · rw [getD_transposeSlow _ _ _ _ hj, get_transposeRow _ _ _ _ hi]

example : transposeSlow [[1], [0], [0], [0], [0], [0], [0], [0x80]] 1 1
    = [[1], [0], [0], [0], [0], [0], [0], [0x80]]
  ∧ transposeSlow [[2], [0], [0], [0], [0], [0], [0], [0]] 1 1 = [[0], [1], [0], [0], [0], [0], [0], [0]] := by
  decide

/-- Transposing twice is the identity on well-shaped byte matrices (`8·R` rows of `C` bytes each). -/
theorem packedbits_transpose_involutive (m : List (List Nat)) (R C : Nat) (hrows : m.length = 8 * R)
    (hshape : ∀ row ∈ m, row.length = C ∧ IsBytes row) :
    transposeSlow (transposeSlow m R C) C R = m := by
  obtain ⟨hlen, hrow, hent⟩ := packedbits_transpose_entry m R C
  obtain ⟨hlen2, hrow2, hent2⟩ := packedbits_transpose_entry (transposeSlow m R C) C R
  apply List.ext_getElem (by rw [hlen2, hrows])
  intro i h1 h2
  have hi : i < 8 * R := by rw [← hrows]; exact h2
  have hs := hshape _ (List.getElem_mem h2)
  have hs2 := hrow2 _ (List.getElem_mem h1)
  apply bytes_ext _ _ hs2.2 hs.2 (by rw [hs2.1, hs.1])
  intro k hk
  rw [hs2.1] at hk
  have e1 := hent2 k i hk hi
  have e2 := hent i k hi hk
  have g1 : (transposeSlow (transposeSlow m R C) C R).getD i [] = (transposeSlow (transposeSlow m R C) C R)[i] := by
    rw [List.getD_eq_getElem?_getD, List.getElem?_eq_getElem h1]; rfl
  have g2 : m.getD i [] = m[i] := by
    rw [List.getD_eq_getElem?_getD, List.getElem?_eq_getElem h2]; rfl
  rw [g1] at e1
  rw [g2] at e2
  rw [e1, e2]

example : transposeSlow (transposeSlow [[0x12, 0x34], [5, 6], [7, 8], [9, 10], [11, 12], [13, 14], [15, 16], [0xff, 0x80]] 1 2) 2 1
    = [[0x12, 0x34], [5, 6], [7, 8], [9, 10], [11, 12], [13, 14], [15, 16], [0xff, 0x80]] := by decide

/-- the dispatch of `TransposePackedBits` outside the 64×64 path is `transposeSlow` with the shape the
Go code derives (`R = rows/8`, `C = len(row 0)`), and it errors exactly on `rows % 8 ≠ 0`, `rows = 0`
or a ragged matrix -/
theorem packedbits_transposePacked_slow (m : List (List Nat)) (hf : fastPath m = false) :
    transposePacked m =
      if m.length % 8 ≠ 0 ∨ m.length = 0 ∨ (∃ r ∈ m, r.length ≠ (m.headD []).length) then none
      else some (transposeSlow m (m.length / 8) (m.headD []).length) := by
  unfold transposePacked
  simp only [hf, Bool.false_eq_true, if_false]
  by_cases h1 : m.length % 8 = 0
  · by_cases h2 : m.length = 0
    · simp [h1, h2]
    · by_cases h3 : ∃ r ∈ m, r.length ≠ (m.headD []).length
      · have : (m.any fun r => r.length != (m.headD []).length) = true := by
          rw [List.any_eq_true]; obtain ⟨r, hr, hne⟩ := h3; exact ⟨r, hr, by simpa using hne⟩
        simp [h1, h2, h3, this]
      · have : (m.any fun r => r.length != (m.headD []).length) = false := by
          rw [Bool.eq_false_iff]; intro hany; rw [List.any_eq_true] at hany
          obtain ⟨r, hr, hne⟩ := hany; exact h3 ⟨r, hr, by simpa using hne⟩
        simp [h1, h2, h3, this]
  · simp [h1]

example : fastPath [[1], [2], [3], [4], [5], [6], [7], [8]] = false
    ∧ transposePacked [[1], [2], [3], [4], [5], [6], [7], [8]]
      = some [[0x55], [0x66], [0x78], [0x80], [0], [0], [0], [0]] := by decide

/-- **Statement only**: the 64×64 butterfly path equals the bit-by-bit path on its domain. Not proved
(the six-stage network needs a stage invariant over 64 words); the driver compares the Go output with
`transposePacked` (this path) *and* with the unpacked-row model on every fast-path case. -/
def packedbits_transpose_fast_statement : Prop :=
  ∀ (m : List (List Nat)) (Rb Cb : Nat), m.length = 64 * Rb →
    (∀ row ∈ m, row.length = 8 * Cb ∧ IsBytes row) →
    transposeFast m Rb Cb = transposeSlow m (8 * Rb) (8 * Cb)

end BronVerif.Props.C09Bits
