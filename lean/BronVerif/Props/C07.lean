import BronVerif.Gen.PrngSites
/-!
# C07 — protocol secrets come from, and depend on, each party's own randomness

Part T (this section): rules over the regenerated table `Gen.PrngSites.sites` of every
randomness-consuming call site / reader-field initialisation of the protocol packages.
-/
namespace BronVerif.Props.C07
open BronVerif.Gen.PrngSites

/-! ## Site rules (hand-written; roles, never line numbers) -/

/-- An allow-list entry names a role: package, enclosing function, callee, kind of root and the
    root's name. -/
structure Allow where
  pkg : Str
  fn : Str
  callee : Str
  root : Root
  name : Str
  deriving DecidableEq

/-- The explicit allow-list of roots that are NOT the caller-supplied reader.  Found by running the
    generator on the unchanged tree; each entry is justified here.

1. `przs.SampleZeroShare`: `g.Random(ctx.Seeds()[id])` — the pairwise session-seed readers (SHAKE
   states keyed by the pairwise seeds agreed in session setup).  That both parties of a pair derive
   the SAME stream is the point of pseudo-random zero sharing; the seeds themselves come from both
   parties' readers in `session.Participant.Round2` (sites of that package, root = field).
2. `softspoken.participant.expand`: `io.ReadFull(xof, digest)` with `xof = blake2b.NewXOF(sid)` fed
   with (index, choice, base-OT seed message) — the deterministic PRG expansion of the base-OT seeds
   prescribed by SoftSpokenOT; no fresh randomness is meant here (the fresh choice bits are the
   `Receiver.Round1` site, root = field).
3. `dkls23.Aggregate`: `sigecdsa.NewScheme(suite, crand.Reader)` — builds a scheme object only to
   obtain a *verifier* for the aggregated signature (verification draws nothing); recorded twice by
   the generator (the call, and the bare mention of `crypto/rand.Reader`).
-/
def allowList : List Allow := [
  { pkg := cps!"pkg/mpc/zero/przs", fn := cps!"SampleZeroShare", callee := cps!"·.Random",
    root := .call, name := cps!"·.Seeds" },
  { pkg := cps!"pkg/ot/extension/softspoken", fn := cps!"participant.expand", callee := cps!"io.ReadFull",
    root := .call, name := cps!"blake2b.NewXOF" },
  { pkg := cps!"pkg/mpc/signatures/ecdsa/dkls23", fn := cps!"Aggregate", callee := cps!"sigecdsa.NewScheme",
    root := .cryptoRand, name := cps!"crypto/rand.Reader" },
  { pkg := cps!"pkg/mpc/signatures/ecdsa/dkls23", fn := cps!"Aggregate", callee := cps!"ref:crypto/rand.Reader",
    root := .cryptoRand, name := cps!"crypto/rand.Reader" }
]

def roleOf (s : Site) : Allow := { pkg := s.pkg, fn := s.fn, callee := s.callee, root := s.root, name := s.name }

/-- equality of roles, cheapest comparisons first (the kernel evaluates this) -/
def Allow.same (a b : Allow) : Bool :=
  a.root == b.root && a.name == b.name && a.callee == b.callee && a.fn == b.fn && a.pkg == b.pkg

def allowed (s : Site) : Bool := allowList.any (Allow.same (roleOf s))

/-- A reader-typed struct field is *caller-supplied* when it is initialised somewhere, and every
    initialisation in the package stores a reader parameter of the enclosing function (the
    constructor) or another caller-supplied field (`Protocol.prng → Prover.prng`); `fuel` bounds the
    field→field chain.  `ini` is the table of init records. -/
def fieldOk (ini : List Site) : Nat → Nat → Bool
  | 0, _ => false
  | fuel + 1, fid =>
    let mine := ini.filter fun s => s.tgt == fid
    !mine.isEmpty && mine.all fun s =>
      match s.root with
      | .param => true
      | .field => fieldOk ini fuel s.src
      | _ => false

/-- The rule for one table entry.
* a *use* must read from a reader parameter of the enclosing function, from a caller-supplied
  field, or be an allow-listed role;
* an *init* of a reader field must store a reader parameter or a caller-supplied field
  (never `crypto/rand`, a constant, a call result, a global). -/
def siteOk (ini : List Site) (s : Site) : Bool :=
  match s.root with
  | .param => true
  | .field => fieldOk ini 3 s.src
  | _ => s.kind == .use && allowed s

/-- the generated split `sites = inits ++ uses` is by kind -/
def splitOk : Bool := inits.all (fun s => s.kind == .init) && uses.all (fun s => s.kind == .use)

theorem split_by_kind : splitOk = true := by decide +kernel

/-- **Every sampling site of the protocol packages draws from the party's caller-supplied reader**
    (a reader parameter, or a participant field that every constructor sets from its reader
    parameter), except the justified allow-list; in particular `crypto/rand` occurs only in
    `dkls23.Aggregate`, and no site reads from a constant, a global or a value computed from a
    message.  Evaluated over the WHOLE regenerated table. -/
theorem sites_use_party_prng : ∀ s ∈ sites, siteOk inits s = true := by
  have h : sites.all (siteOk inits) = true := by decide +kernel
  exact List.all_eq_true.mp h

/-- The allow-list is tight: every entry is used by the current tree (a stale entry breaks this). -/
theorem allow_list_tight : ∀ a ∈ allowList, (sites.any fun s => Allow.same (roleOf s) a) = true := by
  have h : (allowList.all fun a => sites.any fun s => Allow.same (roleOf s) a) = true := by decide +kernel
  exact List.all_eq_true.mp h

/-! ### Roles that must exist

The table rule above cannot see a sampling site that *disappeared* (a nonce computed from the message
has no reader argument at all).  The anchored sampling roles of the property are therefore required
to be present, each reading from a parameter or a caller-supplied field. -/

structure Role where
  pkg : Str
  fn : Str
  callee : Str
  deriving DecidableEq

def requiredRoles : List Role := [
  -- session setup: commitment key, common contribution, its commitment; pairwise contributions
  { pkg := cps!"pkg/mpc/session", fn := cps!"Participant.Round1", callee := cps!"hashcom.SampleCommitmentKey" },
  { pkg := cps!"pkg/mpc/session", fn := cps!"Participant.Round1", callee := cps!"io.ReadFull" },
  { pkg := cps!"pkg/mpc/session", fn := cps!"Participant.Round1", callee := cps!"commitments.Commit" },
  { pkg := cps!"pkg/mpc/session", fn := cps!"Participant.Round2", callee := cps!"io.ReadFull" },
  { pkg := cps!"pkg/mpc/session", fn := cps!"Participant.Round2", callee := cps!"commitments.Commit" },
  -- DKGs: the dealer polynomial / random column
  { pkg := cps!"pkg/mpc/dkg/gennaro", fn := cps!"Participant.Round1", callee := cps!"·.DealRandomAndRevealDealerFunc" },
  { pkg := cps!"pkg/mpc/dkg/canetti", fn := cps!"Participant.Round1", callee := cps!"·.DealRandomAndRevealDealerFunc" },
  { pkg := cps!"pkg/mpc/dkg/canetti", fn := cps!"Participant.Round1", callee := cps!"io.ReadFull" },
  { pkg := cps!"pkg/mpc/dkg/canetti", fn := cps!"Participant.Round1", callee := cps!"commitments.Commit" },
  { pkg := cps!"pkg/mpc/dkg/trusteddealer", fn := cps!"Deal", callee := cps!"·.DealRandom" },
  { pkg := cps!"pkg/mpc/sharing/scheme/kw", fn := cps!"Scheme.DealRandomAndRevealDealerFunc", callee := cps!"·.Random" },
  { pkg := cps!"pkg/mpc/sharing/scheme/kw", fn := cps!"Scheme.DealAndRevealDealerFunc", callee := cps!"·.Random" },
  -- zero sharing, redistribution
  { pkg := cps!"pkg/mpc/zero/hjky", fn := cps!"Participant.Round1", callee := cps!"·.Deal" },
  { pkg := cps!"pkg/mpc/redistribute", fn := cps!"Participant.Round2", callee := cps!"·.Deal" },
  -- signing nonces and their commitments
  { pkg := cps!"pkg/mpc/signatures/schnorr/lindell22/signing", fn := cps!"Cosigner.Round1", callee := cps!"algebrautils.RandomNonIdentity" },
  { pkg := cps!"pkg/mpc/signatures/schnorr/lindell22/signing", fn := cps!"Cosigner.Round1", callee := cps!"commitments.Commit" },
  { pkg := cps!"pkg/mpc/signatures/ecdsa/dkls23/signing_bbot", fn := cps!"Cosigner.Round1", callee := cps!"·.Random" },
  { pkg := cps!"pkg/mpc/signatures/ecdsa/dkls23/signing_bbot", fn := cps!"Cosigner.Round1", callee := cps!"commitments.Commit" },
  { pkg := cps!"pkg/mpc/signatures/ecdsa/dkls23/signing_softspoken", fn := cps!"Cosigner.Round3", callee := cps!"·.Random" },
  { pkg := cps!"pkg/mpc/signatures/ecdsa/dkls23/signing_softspoken", fn := cps!"Cosigner.Round3", callee := cps!"commitments.Commit" },
  { pkg := cps!"pkg/mpc/signatures/ecdsa/dkls23/signing_softspoken", fn := cps!"Cosigner.Round2", callee := cps!"io.ReadFull" },
  { pkg := cps!"pkg/mpc/signatures/ecdsa/lindell17/signing", fn := cps!"PrimaryCosigner.Round1", callee := cps!"·.Random" },
  { pkg := cps!"pkg/mpc/signatures/ecdsa/lindell17/signing", fn := cps!"PrimaryCosigner.Round1", callee := cps!"commitments.Commit" },
  { pkg := cps!"pkg/mpc/signatures/ecdsa/lindell17/signing", fn := cps!"SecondaryCosigner.Round2", callee := cps!"·.Random" },
  { pkg := cps!"pkg/mpc/signatures/ecdsa/lindell17/signing", fn := cps!"CalcC3", callee := cps!"·.Random" },
  { pkg := cps!"pkg/mpc/signatures/ecdsa/lindell17/signing", fn := cps!"CalcC3", callee := cps!"encryption.Encrypt" },
  { pkg := cps!"pkg/mpc/signatures/ecdsa/cggmp21/signing", fn := cps!"Cosigner.Round1", callee := cps!"algebrautils.RandomNonIdentity" },
  -- multiplication and OT
  { pkg := cps!"pkg/mpc/rvole/bbot", fn := cps!"Bob.Round2", callee := cps!"io.ReadFull" },
  { pkg := cps!"pkg/mpc/rvole/bbot", fn := cps!"Alice.Round3", callee := cps!"·.Random" },
  { pkg := cps!"pkg/mpc/rvole/softspoken", fn := cps!"Bob.Round1", callee := cps!"io.ReadFull" },
  { pkg := cps!"pkg/mpc/rvole/softspoken", fn := cps!"Alice.Round2", callee := cps!"·.Random" },
  { pkg := cps!"pkg/ot/extension/softspoken", fn := cps!"Receiver.Round1", callee := cps!"io.ReadFull" },
  { pkg := cps!"pkg/ot/base/vsot", fn := cps!"Sender.Round1", callee := cps!"·.Random" },
  { pkg := cps!"pkg/ot/base/vsot", fn := cps!"Receiver.Round2", callee := cps!"·.Random" },
  { pkg := cps!"pkg/ot/base/ecbbot", fn := cps!"Sender.Round1", callee := cps!"·.R" },
  { pkg := cps!"pkg/ot/base/ecbbot", fn := cps!"Receiver.Round2", callee := cps!"·.R" },
  { pkg := cps!"pkg/ot/base/ecbbot", fn := cps!"TaggedKeyAgreement.R", callee := cps!"·.Random" },
  -- interactive ZK compiler: the verifier's challenge
  { pkg := cps!"pkg/proofs/sigma/compiler/zk", fn := cps!"Verifier.Round1", callee := cps!"io.ReadFull" }
]

def hasRole (r : Role) : Bool :=
  uses.any fun s => (s.root == .param || s.root == .field) &&
    s.callee == r.callee && s.fn == r.fn && s.pkg == r.pkg  -- (short, early-differing texts first)

/-- **Every anchored sampling role is still a sampling site** reading from a parameter or a field
    (which `sites_use_party_prng` shows to be the caller-supplied reader). -/
theorem required_sites_present : ∀ r ∈ requiredRoles, hasRole r = true := by
  have h : requiredRoles.all hasRole = true := by decide +kernel
  exact List.all_eq_true.mp h

/-! ### Non-vacuity / sensitivity of the rules (on small hand-made tables) -/

private def good : List Site := [
  { kind := .init, pkg := cps!"p", fn := cps!"NewP", callee := cps!"init:P.prng", root := .param, name := cps!"prng", src := 0, tgt := 1 },
  { kind := .use, pkg := cps!"p", fn := cps!"P.Round1", callee := cps!"·.Random", root := .field, name := cps!"P.prng", src := 1, tgt := 0 }]

/-- the same use, but a second constructor stores `crypto/rand.Reader` in the field -/
private def badInit : List Site := good ++ [
  { kind := .init, pkg := cps!"p", fn := cps!"NewQ", callee := cps!"init:P.prng", root := .cryptoRand, name := cps!"crypto/rand.Reader", src := 0, tgt := 1 }]

/-- a nonce drawn from `crypto/rand`, from a reader over the message, from a global -/
private def badUse (r : Root) (n : Str) : Site :=
  { kind := .use, pkg := cps!"pkg/mpc/signatures/schnorr/lindell22/signing", fn := cps!"Cosigner.Round1",
    callee := cps!"algebrautils.RandomNonIdentity", root := r, name := n, src := 0, tgt := 0 }

example : good.all (siteOk (good.filter (·.kind == .init))) = true := by decide
example : badInit.all (siteOk (badInit.filter (·.kind == .init))) = false := by decide
example : siteOk inits (badUse .cryptoRand cps!"crypto/rand.Reader") = false := by decide
example : siteOk inits (badUse .call cps!"bytes.NewReader") = false := by decide
example : siteOk inits (badUse .global cps!"defaultPrng") = false := by decide
example : siteOk inits (badUse .other cps!"nil") = false := by decide
/-- a field that is never initialised is not caller-supplied -/
example : siteOk [] { kind := .use, pkg := cps!"p", fn := cps!"f", callee := cps!"g", root := .field, name := cps!"P.x", src := 7, tgt := 0 } = false := by decide
/-- the table is not empty and really contains field-rooted nonce sites -/
example : sites.length = count ∧ 200 ≤ count := by decide +kernel

end BronVerif.Props.C07
