import Mathlib.Algebra.Module.Defs
import Mathlib.Algebra.BigOperators.Group.List.Basic
import Mathlib.Data.Set.Function
import Mathlib.Data.ZMod.Basic
import BronVerif.Gen.PrngSites
import BronVerif.Model.Joint
/-!
# C07 — protocol secrets come from, and depend on, each party's own randomness

Part T (this section): rules over the regenerated table `Gen.PrngSites.sites` of every
randomness-consuming call site / reader-field initialisation of the protocol packages.
-/
namespace BronVerif.Props.C07
open BronVerif.Gen.PrngSites

/-! ## Site rules (hand-written; roles, never line numbers) -/

/-- An allow-list entry names a role: package, enclosing function, callee, kind of root and the
    root's name. -/
structure Allow where
  pkg : Str
  fn : Str
  callee : Str
  root : Root
  name : Str
  deriving DecidableEq

/-- The explicit allow-list of roots that are NOT the caller-supplied reader.  Found by running the
    generator on the unchanged tree; each entry is justified here.

1. `przs.SampleZeroShare`: `g.Random(ctx.Seeds()[id])` — the pairwise session-seed readers (SHAKE
   states keyed by the pairwise seeds agreed in session setup).  That both parties of a pair derive
   the SAME stream is the point of pseudo-random zero sharing; the seeds themselves come from both
   parties' readers in `session.Participant.Round2` (sites of that package, root = field).
2. `softspoken.participant.expand`: `io.ReadFull(xof, digest)` with `xof = blake2b.NewXOF(sid)` fed
   with (index, choice, base-OT seed message) — the deterministic PRG expansion of the base-OT seeds
   prescribed by SoftSpokenOT; no fresh randomness is meant here (the fresh choice bits are the
   `Receiver.Round1` site, root = field).
3. `dkls23.Aggregate`: `sigecdsa.NewScheme(suite, crand.Reader)` — builds a scheme object only to
   obtain a *verifier* for the aggregated signature (verification draws nothing); recorded twice by
   the generator (the call, and the bare mention of `crypto/rand.Reader`).
-/
def allowList : List Allow := [
  { pkg := cps!"pkg/mpc/zero/przs", fn := cps!"SampleZeroShare", callee := cps!"·.Random",
    root := .call, name := cps!"·.Seeds" },
  { pkg := cps!"pkg/ot/extension/softspoken", fn := cps!"participant.expand", callee := cps!"io.ReadFull",
    root := .call, name := cps!"blake2b.NewXOF" },
  { pkg := cps!"pkg/mpc/signatures/ecdsa/dkls23", fn := cps!"Aggregate", callee := cps!"sigecdsa.NewScheme",
    root := .cryptoRand, name := cps!"crypto/rand.Reader" },
  { pkg := cps!"pkg/mpc/signatures/ecdsa/dkls23", fn := cps!"Aggregate", callee := cps!"ref:crypto/rand.Reader",
    root := .cryptoRand, name := cps!"crypto/rand.Reader" }
]

def roleOf (s : Site) : Allow := { pkg := s.pkg, fn := s.fn, callee := s.callee, root := s.root, name := s.name }

/-- equality of roles, cheapest comparisons first (the kernel evaluates this) -/
def Allow.same (a b : Allow) : Bool :=
  a.root == b.root && a.name == b.name && a.callee == b.callee && a.fn == b.fn && a.pkg == b.pkg

def allowed (s : Site) : Bool := allowList.any (Allow.same (roleOf s))

/-- A reader-typed struct field is *caller-supplied* when it is initialised somewhere, and every
    initialisation in the package stores a reader parameter of the enclosing function (the
    constructor) or another caller-supplied field (`Protocol.prng → Prover.prng`); `fuel` bounds the
    field→field chain.  `ini` is the table of init records. -/
def fieldOk (ini : List Site) : Nat → Nat → Bool
  | 0, _ => false
  | fuel + 1, fid =>
    let mine := ini.filter fun s => s.tgt == fid
    !mine.isEmpty && mine.all fun s =>
      match s.root with
      | .param => true
      | .field => fieldOk ini fuel s.src
      | _ => false

/-- The rule for one table entry.
* a *use* must read from a reader parameter of the enclosing function, from a caller-supplied
  field, or be an allow-listed role;
* an *init* of a reader field must store a reader parameter or a caller-supplied field
  (never `crypto/rand`, a constant, a call result, a global). -/
def siteOk (ini : List Site) (s : Site) : Bool :=
  match s.root with
  | .param => true
  | .field => fieldOk ini 3 s.src
  | _ => s.kind == .use && allowed s

/-- the generated split `sites = inits ++ uses` is by kind -/
def splitOk : Bool := inits.all (fun s => s.kind == .init) && uses.all (fun s => s.kind == .use)

theorem split_by_kind : splitOk = true := by decide +kernel

/-- **Every sampling site of the protocol packages draws from the party's caller-supplied reader**
    (a reader parameter, or a participant field that every constructor sets from its reader
    parameter), except the justified allow-list; in particular `crypto/rand` occurs only in
    `dkls23.Aggregate`, and no site reads from a constant, a global or a value computed from a
    message.  Evaluated over the WHOLE regenerated table. -/
theorem sites_use_party_prng : ∀ s ∈ sites, siteOk inits s = true := by
  have h : sites.all (siteOk inits) = true := by decide +kernel
  exact List.all_eq_true.mp h

/-- The allow-list is tight: every entry is used by the current tree (a stale entry breaks this). -/
theorem allow_list_tight : ∀ a ∈ allowList, (sites.any fun s => Allow.same (roleOf s) a) = true := by
  have h : (allowList.all fun a => sites.any fun s => Allow.same (roleOf s) a) = true := by decide +kernel
  exact List.all_eq_true.mp h

/-! ### Roles that must exist

The table rule above cannot see a sampling site that *disappeared* (a nonce computed from the message
has no reader argument at all).  The anchored sampling roles of the property are therefore required
to be present, each reading from a parameter or a caller-supplied field. -/

structure Role where
  pkg : Str
  fn : Str
  callee : Str
  /-- minimal number of such sites (two scalars are sampled in DKLs23's nonce round) -/
  min : Nat := 1
  deriving DecidableEq

def requiredRoles : List Role := [
  -- session setup: commitment key, common contribution, its commitment; pairwise contributions
  { pkg := cps!"pkg/mpc/session", fn := cps!"Participant.Round1", callee := cps!"hashcom.SampleCommitmentKey" },
  { pkg := cps!"pkg/mpc/session", fn := cps!"Participant.Round1", callee := cps!"io.ReadFull" },
  { pkg := cps!"pkg/mpc/session", fn := cps!"Participant.Round1", callee := cps!"commitments.Commit" },
  { pkg := cps!"pkg/mpc/session", fn := cps!"Participant.Round2", callee := cps!"io.ReadFull" },
  { pkg := cps!"pkg/mpc/session", fn := cps!"Participant.Round2", callee := cps!"commitments.Commit" },
  -- DKGs: the dealer polynomial / random column
  { pkg := cps!"pkg/mpc/dkg/gennaro", fn := cps!"Participant.Round1", callee := cps!"·.DealRandomAndRevealDealerFunc" },
  { pkg := cps!"pkg/mpc/dkg/canetti", fn := cps!"Participant.Round1", callee := cps!"·.DealRandomAndRevealDealerFunc" },
  { pkg := cps!"pkg/mpc/dkg/canetti", fn := cps!"Participant.Round1", callee := cps!"io.ReadFull" },
  { pkg := cps!"pkg/mpc/dkg/canetti", fn := cps!"Participant.Round1", callee := cps!"commitments.Commit" },
  { pkg := cps!"pkg/mpc/dkg/trusteddealer", fn := cps!"Deal", callee := cps!"·.DealRandom" },
  { pkg := cps!"pkg/mpc/sharing/scheme/kw", fn := cps!"Scheme.DealRandomAndRevealDealerFunc", callee := cps!"·.Random" },
  { pkg := cps!"pkg/mpc/sharing/scheme/kw", fn := cps!"Scheme.DealAndRevealDealerFunc", callee := cps!"·.Random" },
  -- zero sharing, redistribution
  { pkg := cps!"pkg/mpc/zero/hjky", fn := cps!"Participant.Round1", callee := cps!"·.Deal" },
  { pkg := cps!"pkg/mpc/redistribute", fn := cps!"Participant.Round2", callee := cps!"·.Deal" },
  -- signing nonces and their commitments
  { pkg := cps!"pkg/mpc/signatures/schnorr/lindell22/signing", fn := cps!"Cosigner.Round1", callee := cps!"algebrautils.RandomNonIdentity" },
  { pkg := cps!"pkg/mpc/signatures/schnorr/lindell22/signing", fn := cps!"Cosigner.Round1", callee := cps!"commitments.Commit" },
  { pkg := cps!"pkg/mpc/signatures/ecdsa/dkls23/signing_bbot", fn := cps!"Cosigner.Round1", callee := cps!"·.Random", min := 2 },
  { pkg := cps!"pkg/mpc/signatures/ecdsa/dkls23/signing_bbot", fn := cps!"Cosigner.Round1", callee := cps!"commitments.Commit" },
  { pkg := cps!"pkg/mpc/signatures/ecdsa/dkls23/signing_softspoken", fn := cps!"Cosigner.Round3", callee := cps!"·.Random", min := 2 },
  { pkg := cps!"pkg/mpc/signatures/ecdsa/dkls23/signing_softspoken", fn := cps!"Cosigner.Round3", callee := cps!"commitments.Commit" },
  { pkg := cps!"pkg/mpc/signatures/ecdsa/dkls23/signing_softspoken", fn := cps!"Cosigner.Round2", callee := cps!"io.ReadFull" },
  { pkg := cps!"pkg/mpc/signatures/ecdsa/lindell17/signing", fn := cps!"PrimaryCosigner.Round1", callee := cps!"·.Random" },
  { pkg := cps!"pkg/mpc/signatures/ecdsa/lindell17/signing", fn := cps!"PrimaryCosigner.Round1", callee := cps!"commitments.Commit" },
  { pkg := cps!"pkg/mpc/signatures/ecdsa/lindell17/signing", fn := cps!"SecondaryCosigner.Round2", callee := cps!"·.Random" },
  { pkg := cps!"pkg/mpc/signatures/ecdsa/lindell17/signing", fn := cps!"CalcC3", callee := cps!"·.Random" },
  { pkg := cps!"pkg/mpc/signatures/ecdsa/lindell17/signing", fn := cps!"CalcC3", callee := cps!"encryption.Encrypt" },
  { pkg := cps!"pkg/mpc/signatures/ecdsa/cggmp21/signing", fn := cps!"Cosigner.Round1", callee := cps!"algebrautils.RandomNonIdentity", min := 2 },
  -- multiplication and OT
  { pkg := cps!"pkg/mpc/rvole/bbot", fn := cps!"Bob.Round2", callee := cps!"io.ReadFull" },
  { pkg := cps!"pkg/mpc/rvole/bbot", fn := cps!"Alice.Round3", callee := cps!"·.Random" },
  { pkg := cps!"pkg/mpc/rvole/softspoken", fn := cps!"Bob.Round1", callee := cps!"io.ReadFull" },
  { pkg := cps!"pkg/mpc/rvole/softspoken", fn := cps!"Alice.Round2", callee := cps!"·.Random" },
  { pkg := cps!"pkg/ot/extension/softspoken", fn := cps!"Receiver.Round1", callee := cps!"io.ReadFull" },
  { pkg := cps!"pkg/ot/base/vsot", fn := cps!"Sender.Round1", callee := cps!"·.Random" },
  { pkg := cps!"pkg/ot/base/vsot", fn := cps!"Receiver.Round2", callee := cps!"·.Random" },
  { pkg := cps!"pkg/ot/base/ecbbot", fn := cps!"Sender.Round1", callee := cps!"·.R" },
  { pkg := cps!"pkg/ot/base/ecbbot", fn := cps!"Receiver.Round2", callee := cps!"·.R" },
  { pkg := cps!"pkg/ot/base/ecbbot", fn := cps!"TaggedKeyAgreement.R", callee := cps!"·.Random" },
  -- interactive ZK compiler: the verifier's challenge
  { pkg := cps!"pkg/proofs/sigma/compiler/zk", fn := cps!"Verifier.Round1", callee := cps!"io.ReadFull" }
]

def hasRole (r : Role) : Bool :=
  r.min ≤ (uses.filter fun s => (s.root == .param || s.root == .field) &&
    s.callee == r.callee && s.fn == r.fn && s.pkg == r.pkg).length  -- (short, early-differing texts first)

/-- **Every anchored sampling role is still a sampling site** reading from a parameter or a field
    (which `sites_use_party_prng` shows to be the caller-supplied reader). -/
theorem required_sites_present : ∀ r ∈ requiredRoles, hasRole r = true := by
  have h : requiredRoles.all hasRole = true := by decide +kernel
  exact List.all_eq_true.mp h

/-! ### Non-vacuity / sensitivity of the rules (on small hand-made tables) -/

private def good : List Site := [
  { kind := .init, pkg := cps!"p", fn := cps!"NewP", callee := cps!"init:P.prng", root := .param, name := cps!"prng", src := 0, tgt := 1 },
  { kind := .use, pkg := cps!"p", fn := cps!"P.Round1", callee := cps!"·.Random", root := .field, name := cps!"P.prng", src := 1, tgt := 0 }]

/-- the same use, but a second constructor stores `crypto/rand.Reader` in the field -/
private def badInit : List Site := good ++ [
  { kind := .init, pkg := cps!"p", fn := cps!"NewQ", callee := cps!"init:P.prng", root := .cryptoRand, name := cps!"crypto/rand.Reader", src := 0, tgt := 1 }]

/-- a nonce drawn from `crypto/rand`, from a reader over the message, from a global -/
private def badUse (r : Root) (n : Str) : Site :=
  { kind := .use, pkg := cps!"pkg/mpc/signatures/schnorr/lindell22/signing", fn := cps!"Cosigner.Round1",
    callee := cps!"algebrautils.RandomNonIdentity", root := r, name := n, src := 0, tgt := 0 }

example : good.all (siteOk (good.filter (·.kind == .init))) = true := by decide
example : badInit.all (siteOk (badInit.filter (·.kind == .init))) = false := by decide
example : siteOk inits (badUse .cryptoRand cps!"crypto/rand.Reader") = false := by decide
example : siteOk inits (badUse .call cps!"bytes.NewReader") = false := by decide
example : siteOk inits (badUse .global cps!"defaultPrng") = false := by decide
example : siteOk inits (badUse .other cps!"nil") = false := by decide
/-- a field that is never initialised is not caller-supplied -/
example : siteOk [] { kind := .use, pkg := cps!"p", fn := cps!"f", callee := cps!"g", root := .field, name := cps!"P.x", src := 7, tgt := 0 } = false := by decide
/-- the table is not empty and really contains field-rooted nonce sites -/
example : sites.length = count ∧ 200 ≤ count := by decide +kernel


/-! ## Part C-model: what the paired-run driver demands (theorems about `Model/Joint.lean`) -/

section model
open BronVerif.Joint

/-- **The changed party's randomised messages must change**: whenever the sender is the party whose
    stream was replaced and its own stream enters the message, the driver demands a change (a
    byte-identical message is reported as a violation). -/
theorem own_message_must_change (s : Slot) (c : Nat) (hc : s.from_ = c) (hr : s.dep.usesOwn = true) :
    s.expect c = .mustChange := by
  simp [Slot.expect, hc, hr]

/-- **Another party's first message must not change** (unless the table marks it schedule-dependent):
    the only alternative the model allows is a predicted change, which `first_round_deps_own` rules
    out for every table. -/
theorem first_message_must_stay (s : Slot) (c : Nat) (hc : s.from_ ≠ c) (hf : s.first = true)
    (hs : s.dep ≠ .ownSched) (hd : s.dep.changes s.from_ s.to c = false) :
    s.expect c = .mustSame := by
  have hc' : (s.from_ == c) = false := by simpa using hc
  cases hdep : s.dep <;> simp_all [Slot.expect]

/-- the dependencies a first message may have: its sender's stream (possibly scheduled) or nothing -/
def firstDepOk : Dep → Bool
  | .own | .ownSched | .none => true
  | _ => false

/-- In every protocol table a party's first message depends on nobody else's stream, on 2-, 3- and
    4-party instances (the tables are uniform in the party set). -/
theorem first_round_deps_own :
    ∀ ids ∈ [[1, 2], [2, 5, 12], [1, 3, 4, 9]], ∀ sp ∈ allSpecs ids,
      ((slots ids sp.rounds).all fun s => !s.first || firstDepOk s.dep) = true := by
  decide

/-- hence: for every table and every changed party, no first message of another party is predicted to
    change — it is `mustSame`, or `free` for Gennaro's schedule-dependent proof. -/
theorem first_messages_independent :
    ∀ ids ∈ [[1, 2], [2, 5, 12], [1, 3, 4, 9]], ∀ sp ∈ allSpecs ids, ∀ c ∈ ids,
      ((slots ids sp.rounds).all fun s =>
        !(s.first && s.from_ != c) || s.expect c == .mustSame || s.expect c == .free) = true := by
  decide

/-- **A joint value that is meant to be random must change whoever's stream changed.** -/
theorem random_joint_must_change (j : JointVal) (c : Nat) (hd : j.dep = .all) (hr : j.random = true) :
    j.expect c = .mustChange := by
  simp [JointVal.expect, hd, hr, Dep.changes]

/-- every randomised protocol table names at least one such joint value (sid, pk, R/r, zero shares) -/
theorem every_protocol_has_a_random_joint_value :
    ∀ sp ∈ [session [2, 5, 12], dealer [2, 5, 12], gennaro [2, 5, 12], canetti [2, 5, 12], hjky [2, 5, 12],
            lindell22 [2, 12] false, lindell22 [2, 12] true, dkls23Bbot [2, 12], dkls23Softspoken [2, 12],
            lindell17 2 12],
      (sp.joint.any fun j => j.random && j.dep == .all) = true := by
  decide

/-- non-vacuity: concrete demands of the driver on the Lindell22 table when party 12's stream changes -/
example : ((slots [2, 12] (lindell22 [2, 12] false).rounds).map fun s => ((s.round, s.from_, s.to), s.expect 12)) =
    [((1, 2, 0), .mustSame), ((1, 12, 0), .mustChange), ((1, 2, 12), .mustSame), ((1, 12, 2), .mustChange),
     ((2, 2, 0), .change), ((2, 12, 0), .mustChange)] := by decide
/-- joint values `R.2, R.12, R, s` -/
example : ((lindell22 [2, 12] false).joint.map fun j => j.expect 12) =
    [.same, .mustChange, .mustChange, .mustChange] := by decide

end model

/-! ## Part P: joint values are injective in each party's contribution

Abstract algebra (Mathlib `Module`, `Set.InjOn`); the model tables above instantiate it: `dep := .all`
for `R`, `pk`, `sid`, seeds and zero shares is exactly "depends injectively on every contribution". -/

section algebra
variable {R G : Type*} [Ring R] [AddCommGroup G] [Module R G]

/-- the joint point of the contributions `ks`: `Σ kᵢ • g` (nonce point `R = Σ kᵢ•g`, public key
    `pk = Σ r⁽ⁱ⁾₀•g`) -/
def jointPoint (g : G) (ks : List R) : G := (ks.map (· • g)).sum

theorem jointPoint_split (g : G) (pre post : List R) (k : R) :
    jointPoint g (pre ++ k :: post) = k • g + (jointPoint g pre + jointPoint g post) := by
  simp only [jointPoint, List.map_append, List.map_cons, List.sum_append, List.sum_cons]
  exact add_left_comm _ _ _

/-- **`k ↦ k • g` is injective** when `g` generates a group on which no non-zero scalar vanishes:
    a party's first randomised message `Rᵢ = kᵢ•g` determines its nonce share. -/
theorem first_message_injective (g : G) (hg : ∀ a : R, a • g = 0 → a = 0) :
    Function.Injective fun k : R => k • g := by
  intro k k' h
  have : (k - k') • g = 0 := by simpa [sub_smul, sub_eq_zero] using h
  exact sub_eq_zero.mp (hg _ this)

/-- **The joint point is injective in each party's contribution**: for fixed contributions of the
    other parties (`pre`, `post`), different `k` give different `R = Σ kᵢ•g` (resp. `pk`). -/
theorem joint_value_injective (g : G) (hg : ∀ a : R, a • g = 0 → a = 0) (pre post : List R) :
    Function.Injective fun k : R => jointPoint g (pre ++ k :: post) := by
  intro k k' h
  simp only [jointPoint_split] at h
  exact first_message_injective g hg (add_right_cancel h)

/-- additive joint values (zero shares `ζᵢ = Σⱼ s_{j→i}`, PRZS `ζᵢ = Σⱼ ±F(seedᵢⱼ)`): injective in each
    summand for fixed other summands -/
theorem zero_share_injective (pre post : List G) :
    Function.Injective fun v : G => (pre ++ v :: post).sum := by
  intro v v' h
  simp only [List.sum_append, List.sum_cons] at h
  exact add_right_cancel (add_left_cancel h)

variable {C B D : Type*}

/-- **The session identifier is injective in each party's contribution**: `sid = H(frame cs)` with `H`
    injective on the framed inputs that occur (`Set.InjOn H S`) and an injective framing. -/
theorem sid_injective (H : B → D) (frame : List C → B) (S : Set B) (hH : Set.InjOn H S)
    (hframe : Function.Injective frame) (pre post : List C) (c c' : C)
    (hc : frame (pre ++ c :: post) ∈ S) (hc' : frame (pre ++ c' :: post) ∈ S)
    (h : H (frame (pre ++ c :: post)) = H (frame (pre ++ c' :: post))) : c = c' := by
  have := hframe (hH hc hc' h)
  simpa using this

/-- pairwise seeds `seedᵢⱼ = H(frame2 common cᵢ cⱼ)`: injective in each of the two contributions -/
theorem pairwise_seed_injective (H : B → D) (frame2 : B → C → C → B) (S : Set B) (hH : Set.InjOn H S)
    (hframe : ∀ m a b a' b', frame2 m a b = frame2 m a' b' → a = a' ∧ b = b')
    (m : B) (ci ci' cj : C) (h1 : frame2 m ci cj ∈ S) (h2 : frame2 m ci' cj ∈ S)
    (h : H (frame2 m ci cj) = H (frame2 m ci' cj)) : ci = ci' :=
  (hframe _ _ _ _ _ (hH h1 h2 h)).1

/-- commitments `Com(key; m, w) = H(frame key m w)`: a party's first message (a commitment to its nonce
    point / contribution) is injective in the committed value and witness -/
theorem commitment_first_message_injective {K M W : Type*} (H : B → D) (frame : K → M → W → B) (S : Set B)
    (hH : Set.InjOn H S) (hframe : ∀ k m w m' w', frame k m w = frame k m' w' → m = m' ∧ w = w')
    (k : K) (m m' : M) (w w' : W) (h1 : frame k m w ∈ S) (h2 : frame k m' w' ∈ S)
    (h : H (frame k m w) = H (frame k m' w')) : m = m' ∧ w = w' :=
  hframe _ _ _ _ _ (hH h1 h2 h)

/-- composition used by the commit-then-open nonce flow: the commitment to `k • g` is injective in `k` -/
theorem nonce_commitment_injective {K W : Type*} (g : G) (hg : ∀ a : R, a • g = 0 → a = 0)
    (H : B → D) (frame : K → G → W → B) (S : Set B) (hH : Set.InjOn H S)
    (hframe : ∀ k m w m' w', frame k m w = frame k m' w' → m = m' ∧ w = w')
    (key : K) (k k' : R) (w w' : W) (h1 : frame key (k • g) w ∈ S) (h2 : frame key (k' • g) w' ∈ S)
    (h : H (frame key (k • g) w) = H (frame key (k' • g) w')) : k = k' :=
  first_message_injective g hg (hframe _ _ _ _ _ (hH h1 h2 h)).1

end algebra

/-! ### Non-vacuity of the algebraic hypotheses -/

/-- the generator hypothesis holds for `g = 1` in `ZMod 7` as a module over itself … -/
example : ∀ a : ZMod 7, a • (1 : ZMod 7) = 0 → a = 0 := by decide
/-- … and the joint point really separates contributions there: Σ = 2+k+5 -/
example : jointPoint (1 : ZMod 7) ([2, 3, 5] : List (ZMod 7)) = 3 ∧
    jointPoint (1 : ZMod 7) ([2, 4, 5] : List (ZMod 7)) = 4 := by
  constructor <;> simp [jointPoint] <;> decide
example : Function.Injective fun k : ZMod 7 => jointPoint (1 : ZMod 7) (([2] : List (ZMod 7)) ++ k :: [5]) :=
  joint_value_injective (R := ZMod 7) 1 (by decide) [2] [5]
/-- it fails without it: with `g = 0` every contribution gives the same joint point -/
example : jointPoint (0 : ZMod 7) ([2, 3, 5] : List (ZMod 7)) = jointPoint (0 : ZMod 7) ([2, 4, 5] : List (ZMod 7)) := by
  simp [jointPoint]
/-- hash/framing hypotheses are satisfiable: identity "hash" on lists, framing = the list itself -/
example : (3 : Nat) = 3 :=
  sid_injective (H := fun b : List Nat => b) (frame := id) Set.univ (fun _ _ _ _ h => h)
    Function.injective_id [1] [2] 3 3 trivial trivial rfl

end BronVerif.Props.C07
