import Mathlib.Algebra.Module.Defs
import Mathlib.Algebra.BigOperators.Group.List.Basic
import Mathlib.Data.Set.Function
import Mathlib.Data.ZMod.Basic
import Mathlib.Data.List.Nodup
import Mathlib.Algebra.Field.Basic
import Mathlib.Tactic.Ring
import Mathlib.Tactic.Linarith
import Mathlib.Tactic.LinearCombination
import BronVerif.Gen.PrngSites
import BronVerif.Model.Joint
/-!
# C07 — protocol secrets come from, and depend on, each party's own randomness

Part T (this section): rules over the regenerated table `Gen.PrngSites.sites` of every
randomness-consuming call site / reader-field initialisation of the protocol packages.
-/
namespace BronVerif.Props.C07
open BronVerif.Gen.PrngSites

/-! ## Site rules (hand-written; roles, never line numbers) -/

/-- An allow-list entry names a role: package, enclosing function, callee, kind of root and the
    root's name. -/
structure Allow where
  pkg : Str
  fn : Str
  callee : Str
  root : Root
  name : Str
  deriving DecidableEq

/-- The explicit allow-list of roots that are NOT the caller-supplied reader.  Found by running the
    generator on the unchanged tree; each entry is justified here.

1. `przs.SampleZeroShare`: `g.Random(ctx.Seeds()[id])` — the pairwise session-seed readers (SHAKE
   states keyed by the pairwise seeds agreed in session setup).  That both parties of a pair derive
   the SAME stream is the point of pseudo-random zero sharing; the seeds themselves come from both
   parties' readers in `session.Participant.Round2` (sites of that package, root = field).
2. `softspoken.participant.expand`: `io.ReadFull(xof, digest)` with `xof = blake2b.NewXOF(sid)` fed
   with (index, choice, base-OT seed message) — the deterministic PRG expansion of the base-OT seeds
   prescribed by SoftSpokenOT; no fresh randomness is meant here (the fresh choice bits are the
   `Receiver.Round1` site, root = field).
3. `dkls23.Aggregate`: `sigecdsa.NewScheme(suite, crand.Reader)` — builds a scheme object only to
   obtain a *verifier* for the aggregated signature (verification draws nothing); recorded twice by
   the generator (the call, and the bare mention of `crypto/rand.Reader`).
-/
def allowList : List Allow := [
  { pkg := cps!"pkg/mpc/zero/przs", fn := cps!"SampleZeroShare", callee := cps!"·.Random",
    root := .call, name := cps!"·.Seeds" },
  { pkg := cps!"pkg/ot/extension/softspoken", fn := cps!"participant.expand", callee := cps!"io.ReadFull",
    root := .call, name := cps!"blake2b.NewXOF" },
  { pkg := cps!"pkg/mpc/signatures/ecdsa/dkls23", fn := cps!"Aggregate", callee := cps!"sigecdsa.NewScheme",
    root := .cryptoRand, name := cps!"crypto/rand.Reader" },
  { pkg := cps!"pkg/mpc/signatures/ecdsa/dkls23", fn := cps!"Aggregate", callee := cps!"ref:crypto/rand.Reader",
    root := .cryptoRand, name := cps!"crypto/rand.Reader" }
]

def roleOf (s : Site) : Allow := { pkg := s.pkg, fn := s.fn, callee := s.callee, root := s.root, name := s.name }

/-- equality of roles, cheapest comparisons first (the kernel evaluates this) -/
def Allow.same (a b : Allow) : Bool :=
  a.root == b.root && a.name == b.name && a.callee == b.callee && a.fn == b.fn && a.pkg == b.pkg

def allowed (s : Site) : Bool := allowList.any (Allow.same (roleOf s))

/-- A reader-typed struct field is *caller-supplied* when it is initialised somewhere, and every
    initialisation in the package stores a reader parameter of the enclosing function (the
    constructor) or another caller-supplied field (`Protocol.prng → Prover.prng`); `fuel` bounds the
    field→field chain.  `ini` is the table of init records. -/
def fieldOk (ini : List Site) : Nat → Nat → Bool
  | 0, _ => false
  | fuel + 1, fid =>
    let mine := ini.filter fun s => s.tgt == fid
    !mine.isEmpty && mine.all fun s =>
      match s.root with
      | .param => true
      | .field => fieldOk ini fuel s.src
      | _ => false

/-- The rule for one table entry.
* a *use* must read from a reader parameter of the enclosing function, from a caller-supplied
  field, or be an allow-listed role;
* an *init* of a reader field must store a reader parameter or a caller-supplied field
  (never `crypto/rand`, a constant, a call result, a global). -/
def siteOk (ini : List Site) (s : Site) : Bool :=
  match s.root with
  | .param => true
  | .field => fieldOk ini 3 s.src
  | _ => s.kind == .use && allowed s

/-- the generated split `sites = inits ++ uses` is by kind -/
def splitOk : Bool := inits.all (fun s => s.kind == .init) && uses.all (fun s => s.kind == .use)

theorem split_by_kind : splitOk = true := by decide +kernel

/-- **Every sampling site of the protocol packages draws from the party's caller-supplied reader**
    (a reader parameter, or a participant field that every constructor sets from its reader
    parameter), except the justified allow-list; in particular `crypto/rand` occurs only in
    `dkls23.Aggregate`, and no site reads from a constant, a global or a value computed from a
    message.  Evaluated over the WHOLE regenerated table. -/
theorem sites_use_party_prng : ∀ s ∈ sites, siteOk inits s = true := by
  have h : sites.all (siteOk inits) = true := by decide +kernel
  exact List.all_eq_true.mp h

/-- The allow-list is tight: every entry is used by the current tree (a stale entry breaks this). -/
theorem allow_list_tight : ∀ a ∈ allowList, (sites.any fun s => Allow.same (roleOf s) a) = true := by
  have h : (allowList.all fun a => sites.any fun s => Allow.same (roleOf s) a) = true := by decide +kernel
  exact List.all_eq_true.mp h

/-! ### Roles that must exist

The table rule above cannot see a sampling site that *disappeared* (a nonce computed from the message
has no reader argument at all).  The anchored sampling roles of the property are therefore required
to be present, each reading from a parameter or a caller-supplied field. -/

structure Role where
  pkg : Str
  fn : Str
  callee : Str
  /-- minimal number of such sites (two scalars are sampled in DKLs23's nonce round) -/
  min : Nat := 1
  deriving DecidableEq

def requiredRoles : List Role := [
  -- session setup: commitment key, common contribution, its commitment; pairwise contributions
  { pkg := cps!"pkg/mpc/session", fn := cps!"Participant.Round1", callee := cps!"hashcom.SampleCommitmentKey" },
  { pkg := cps!"pkg/mpc/session", fn := cps!"Participant.Round1", callee := cps!"io.ReadFull" },
  { pkg := cps!"pkg/mpc/session", fn := cps!"Participant.Round1", callee := cps!"commitments.Commit" },
  { pkg := cps!"pkg/mpc/session", fn := cps!"Participant.Round2", callee := cps!"io.ReadFull" },
  { pkg := cps!"pkg/mpc/session", fn := cps!"Participant.Round2", callee := cps!"commitments.Commit" },
  -- DKGs: the dealer polynomial / random column
  { pkg := cps!"pkg/mpc/dkg/gennaro", fn := cps!"Participant.Round1", callee := cps!"·.DealRandomAndRevealDealerFunc" },
  { pkg := cps!"pkg/mpc/dkg/canetti", fn := cps!"Participant.Round1", callee := cps!"·.DealRandomAndRevealDealerFunc" },
  { pkg := cps!"pkg/mpc/dkg/canetti", fn := cps!"Participant.Round1", callee := cps!"io.ReadFull" },
  { pkg := cps!"pkg/mpc/dkg/canetti", fn := cps!"Participant.Round1", callee := cps!"commitments.Commit" },
  { pkg := cps!"pkg/mpc/dkg/trusteddealer", fn := cps!"Deal", callee := cps!"·.DealRandom" },
  { pkg := cps!"pkg/mpc/sharing/scheme/kw", fn := cps!"Scheme.DealRandomAndRevealDealerFunc", callee := cps!"·.Random" },
  { pkg := cps!"pkg/mpc/sharing/scheme/kw", fn := cps!"Scheme.DealAndRevealDealerFunc", callee := cps!"·.Random" },
  -- zero sharing, redistribution
  { pkg := cps!"pkg/mpc/zero/hjky", fn := cps!"Participant.Round1", callee := cps!"·.Deal" },
  { pkg := cps!"pkg/mpc/redistribute", fn := cps!"Participant.Round2", callee := cps!"·.Deal" },
  -- signing nonces and their commitments
  { pkg := cps!"pkg/mpc/signatures/schnorr/lindell22/signing", fn := cps!"Cosigner.Round1", callee := cps!"algebrautils.RandomNonIdentity" },
  { pkg := cps!"pkg/mpc/signatures/schnorr/lindell22/signing", fn := cps!"Cosigner.Round1", callee := cps!"commitments.Commit" },
  { pkg := cps!"pkg/mpc/signatures/ecdsa/dkls23/signing_bbot", fn := cps!"Cosigner.Round1", callee := cps!"·.Random", min := 2 },
  { pkg := cps!"pkg/mpc/signatures/ecdsa/dkls23/signing_bbot", fn := cps!"Cosigner.Round1", callee := cps!"commitments.Commit" },
  { pkg := cps!"pkg/mpc/signatures/ecdsa/dkls23/signing_softspoken", fn := cps!"Cosigner.Round3", callee := cps!"·.Random", min := 2 },
  { pkg := cps!"pkg/mpc/signatures/ecdsa/dkls23/signing_softspoken", fn := cps!"Cosigner.Round3", callee := cps!"commitments.Commit" },
  { pkg := cps!"pkg/mpc/signatures/ecdsa/dkls23/signing_softspoken", fn := cps!"Cosigner.Round2", callee := cps!"io.ReadFull" },
  { pkg := cps!"pkg/mpc/signatures/ecdsa/lindell17/signing", fn := cps!"PrimaryCosigner.Round1", callee := cps!"·.Random" },
  { pkg := cps!"pkg/mpc/signatures/ecdsa/lindell17/signing", fn := cps!"PrimaryCosigner.Round1", callee := cps!"commitments.Commit" },
  { pkg := cps!"pkg/mpc/signatures/ecdsa/lindell17/signing", fn := cps!"SecondaryCosigner.Round2", callee := cps!"·.Random" },
  { pkg := cps!"pkg/mpc/signatures/ecdsa/lindell17/signing", fn := cps!"CalcC3", callee := cps!"·.Random" },
  { pkg := cps!"pkg/mpc/signatures/ecdsa/lindell17/signing", fn := cps!"CalcC3", callee := cps!"encryption.Encrypt" },
  { pkg := cps!"pkg/mpc/signatures/ecdsa/cggmp21/signing", fn := cps!"Cosigner.Round1", callee := cps!"algebrautils.RandomNonIdentity", min := 2 },
  -- multiplication and OT
  { pkg := cps!"pkg/mpc/rvole/bbot", fn := cps!"Bob.Round2", callee := cps!"io.ReadFull" },
  { pkg := cps!"pkg/mpc/rvole/bbot", fn := cps!"Alice.Round3", callee := cps!"·.Random" },
  { pkg := cps!"pkg/mpc/rvole/softspoken", fn := cps!"Bob.Round1", callee := cps!"io.ReadFull" },
  { pkg := cps!"pkg/mpc/rvole/softspoken", fn := cps!"Alice.Round2", callee := cps!"·.Random" },
  { pkg := cps!"pkg/ot/extension/softspoken", fn := cps!"Receiver.Round1", callee := cps!"io.ReadFull" },
  { pkg := cps!"pkg/ot/base/vsot", fn := cps!"Sender.Round1", callee := cps!"·.Random" },
  { pkg := cps!"pkg/ot/base/vsot", fn := cps!"Receiver.Round2", callee := cps!"·.Random" },
  { pkg := cps!"pkg/ot/base/ecbbot", fn := cps!"Sender.Round1", callee := cps!"·.R" },
  { pkg := cps!"pkg/ot/base/ecbbot", fn := cps!"Receiver.Round2", callee := cps!"·.R" },
  { pkg := cps!"pkg/ot/base/ecbbot", fn := cps!"TaggedKeyAgreement.R", callee := cps!"·.Random" },
  -- interactive ZK compiler: the verifier's challenge
  { pkg := cps!"pkg/proofs/sigma/compiler/zk", fn := cps!"Verifier.Round1", callee := cps!"io.ReadFull" }
]

def hasRole (r : Role) : Bool :=
  r.min ≤ (uses.filter fun s => (s.root == .param || s.root == .field) &&
    s.callee == r.callee && s.fn == r.fn && s.pkg == r.pkg).length  -- (short, early-differing texts first)

/-- **Every anchored sampling role is still a sampling site** reading from a parameter or a field
    (which `sites_use_party_prng` shows to be the caller-supplied reader). -/
theorem required_sites_present : ∀ r ∈ requiredRoles, hasRole r = true := by
  have h : requiredRoles.all hasRole = true := by decide +kernel
  exact List.all_eq_true.mp h


/-! ### Per-peer draws stay inside their loop

A secret that is meant to be fresh for every peer / recipient / OT instance is sampled inside the loop
over those peers.  Hoisting the sampling call above the loop leaves every rule above intact (the call
still reads the party's reader) but makes all peers share one draw.  The generator records the loop
nesting depth of every site; the per-peer sampling roles must sit at least that deep. -/

structure LoopRole where
  pkg : Str
  fn : Str
  callee : Str
  /-- minimal number of enclosing loops (2: per OT instance and per batch element) -/
  depth : Nat := 1
  /-- minimal number of such sites -/
  min : Nat := 1
  deriving DecidableEq, Inhabited

def perPeerRoles : List LoopRole := [
  -- session setup: the pairwise contribution and its commitment, once per peer
  { pkg := cps!"pkg/mpc/session", fn := cps!"Participant.Round2", callee := cps!"io.ReadFull" },
  { pkg := cps!"pkg/mpc/session", fn := cps!"Participant.Round2", callee := cps!"commitments.Commit" },
  -- DKLs23: base-OT choice bits per peer; the per-peer OT / multiplication instances get the reader in a loop
  { pkg := cps!"pkg/mpc/signatures/ecdsa/dkls23/signing_softspoken", fn := cps!"Cosigner.Round2", callee := cps!"io.ReadFull" },
  { pkg := cps!"pkg/mpc/signatures/ecdsa/dkls23/signing_softspoken", fn := cps!"Cosigner.Round3", callee := cps!"rvole_softspoken.NewAlice" },
  { pkg := cps!"pkg/mpc/signatures/ecdsa/dkls23/signing_softspoken", fn := cps!"Cosigner.Round3", callee := cps!"rvole_softspoken.NewBob" },
  { pkg := cps!"pkg/mpc/signatures/ecdsa/dkls23/signing_softspoken", fn := cps!"NewCosigner", callee := cps!"ecbbot.NewSender" },
  { pkg := cps!"pkg/mpc/signatures/ecdsa/dkls23/signing_softspoken", fn := cps!"NewCosigner", callee := cps!"ecbbot.NewReceiver" },
  { pkg := cps!"pkg/mpc/signatures/ecdsa/dkls23/signing_bbot", fn := cps!"NewCosigner", callee := cps!"rvole_bbot.NewAlice" },
  { pkg := cps!"pkg/mpc/signatures/ecdsa/dkls23/signing_bbot", fn := cps!"NewCosigner", callee := cps!"rvole_bbot.NewBob" },
  -- multiplication: one check value per input coordinate
  { pkg := cps!"pkg/mpc/rvole/bbot", fn := cps!"Alice.Round3", callee := cps!"·.Random" },
  { pkg := cps!"pkg/mpc/rvole/softspoken", fn := cps!"Alice.Round2", callee := cps!"·.Random" },
  -- base OTs: per OT instance and per batch element a fresh key-agreement scalar / POPF point
  { pkg := cps!"pkg/ot/base/ecbbot", fn := cps!"Receiver.Round2", callee := cps!"·.R", depth := 2 },
  { pkg := cps!"pkg/ot/base/ecbbot", fn := cps!"Receiver.Round2", callee := cps!"·.Program", depth := 2 },
  { pkg := cps!"pkg/ot/base/vsot", fn := cps!"Receiver.Round2", callee := cps!"·.Random", depth := 2 },
  -- pseudo-random zero sharing: one mask per peer seed
  { pkg := cps!"pkg/mpc/zero/przs", fn := cps!"SampleZeroShare", callee := cps!"·.Random" },
  -- CGGMP21: per-peer masks and masked products, per-peer factoring proofs
  { pkg := cps!"pkg/mpc/signatures/ecdsa/cggmp21/signing", fn := cps!"Cosigner.Round2", callee := cps!"sampleMask", min := 2 },
  { pkg := cps!"pkg/mpc/signatures/ecdsa/cggmp21/signing", fn := cps!"Cosigner.Round2", callee := cps!"paillierMaskedProduct", min := 2 },
  { pkg := cps!"pkg/mpc/signatures/ecdsa/cggmp21/keygen/dkg", fn := cps!"Participant.Round3", callee := cps!"fac.NewProtocol" },
  -- Lindell17 DKG: per share component an encryption, per peer and component a proof
  { pkg := cps!"pkg/mpc/signatures/ecdsa/lindell17/keygen/dkg", fn := cps!"Participant.Round3", callee := cps!"encryptScalar", min := 2 },
  { pkg := cps!"pkg/mpc/signatures/ecdsa/lindell17/keygen/dkg", fn := cps!"Participant.Round3", callee := cps!"lpdl.NewProver", depth := 2, min := 2 },
  { pkg := cps!"pkg/mpc/signatures/ecdsa/lindell17/keygen/dkg", fn := cps!"Participant.Round3", callee := cps!"lp.NewProver" }
]

/-- the sites of a role in a table -/
def roleSites (tbl : List Site) (r : LoopRole) : List Site :=
  tbl.filter fun s => s.callee == r.callee && s.fn == r.fn && s.pkg == r.pkg

def inLoop (tbl : List Site) (r : LoopRole) : Bool :=
  r.min ≤ (roleSites tbl r).length && (roleSites tbl r).all fun s => r.depth ≤ s.loop

/-- **Every per-peer sampling site sits inside its loop** (over the WHOLE regenerated table): a
    per-peer draw that is hoisted out of the loop over the peers breaks this theorem. -/
theorem per_peer_sites_in_loop : ∀ r ∈ perPeerRoles, inLoop uses r = true := by
  have h : perPeerRoles.all (inLoop uses) = true := by decide +kernel
  exact List.all_eq_true.mp h

/-- non-vacuity / sensitivity: the session round-2 sites as they are, and with the `io.ReadFull`
    hoisted above the loop (loop depth 0) -/
private def sessR2 (readDepth : Nat) : List Site := [
  { kind := .use, pkg := cps!"pkg/mpc/session", fn := cps!"Participant.Round2", callee := cps!"io.ReadFull", root := .field,
    name := cps!"Participant.prng", src := 1, tgt := 0, loop := readDepth, over := cps!"·.otherParticipantsOrdered" },
  { kind := .use, pkg := cps!"pkg/mpc/session", fn := cps!"Participant.Round2", callee := cps!"commitments.Commit", root := .field,
    name := cps!"Participant.prng", src := 1, tgt := 0, loop := 1, over := cps!"·.otherParticipantsOrdered" }]

example : (perPeerRoles.take 2).all (inLoop (sessR2 1)) = true := by decide
example : (perPeerRoles.take 2).all (inLoop (sessR2 0)) = false := by decide
/-- the real table has these sites at depth 1 (and the OT receiver's at depth 2) -/
example : ((roleSites uses (perPeerRoles.getD 0 default)).map (·.loop), (roleSites uses (perPeerRoles.getD 11 default)).map (·.loop)) = ([1], [2]) := by
  decide +kernel

/-! ### Non-vacuity / sensitivity of the rules (on small hand-made tables) -/

private def good : List Site := [
  { kind := .init, pkg := cps!"p", fn := cps!"NewP", callee := cps!"init:P.prng", root := .param, name := cps!"prng", src := 0, tgt := 1 },
  { kind := .use, pkg := cps!"p", fn := cps!"P.Round1", callee := cps!"·.Random", root := .field, name := cps!"P.prng", src := 1, tgt := 0 }]

/-- the same use, but a second constructor stores `crypto/rand.Reader` in the field -/
private def badInit : List Site := good ++ [
  { kind := .init, pkg := cps!"p", fn := cps!"NewQ", callee := cps!"init:P.prng", root := .cryptoRand, name := cps!"crypto/rand.Reader", src := 0, tgt := 1 }]

/-- a nonce drawn from `crypto/rand`, from a reader over the message, from a global -/
private def badUse (r : Root) (n : Str) : Site :=
  { kind := .use, pkg := cps!"pkg/mpc/signatures/schnorr/lindell22/signing", fn := cps!"Cosigner.Round1",
    callee := cps!"algebrautils.RandomNonIdentity", root := r, name := n, src := 0, tgt := 0 }

example : good.all (siteOk (good.filter (·.kind == .init))) = true := by decide
example : badInit.all (siteOk (badInit.filter (·.kind == .init))) = false := by decide
example : siteOk inits (badUse .cryptoRand cps!"crypto/rand.Reader") = false := by decide
example : siteOk inits (badUse .call cps!"bytes.NewReader") = false := by decide
example : siteOk inits (badUse .global cps!"defaultPrng") = false := by decide
example : siteOk inits (badUse .other cps!"nil") = false := by decide
/-- a field that is never initialised is not caller-supplied -/
example : siteOk [] { kind := .use, pkg := cps!"p", fn := cps!"f", callee := cps!"g", root := .field, name := cps!"P.x", src := 7, tgt := 0 } = false := by decide
/-- the table is not empty and really contains field-rooted nonce sites -/
example : sites.length = count ∧ 200 ≤ count := by decide +kernel


/-! ## Part C-model: what the paired-run driver demands (theorems about `Model/Joint.lean`) -/

section model
open BronVerif.Joint

/-- **The changed party's randomised messages must change**: whenever the sender is the party whose
    stream was replaced and its own stream enters the message, the driver demands a change (a
    byte-identical message is reported as a violation). -/
theorem own_message_must_change (s : Slot) (c : Nat) (hc : s.from_ = c) (hr : s.dep.usesOwn = true) :
    s.expect c = .mustChange := by
  simp [Slot.expect, hc, hr]

/-- **Another party's first message must not change** (unless the table marks it schedule-dependent):
    the only alternative the model allows is a predicted change, which `first_round_deps_own` rules
    out for every table. -/
theorem first_message_must_stay (s : Slot) (c : Nat) (hc : s.from_ ≠ c) (hf : s.first = true)
    (hs : s.dep ≠ .ownSched) (hd : s.dep.changes s.from_ s.to c = false) :
    s.expect c = .mustSame := by
  have hc' : (s.from_ == c) = false := by simpa using hc
  cases hdep : s.dep <;> simp_all [Slot.expect, Dep.changes]

/-- the dependencies a first message may have: its sender's stream (possibly scheduled) or nothing -/
def firstDepOk : Dep → Bool
  | .own | .ownSched | .none => true
  | _ => false

/-- In every protocol table a party's first message depends on nobody else's stream, on 2-, 3- and
    4-party instances (the tables are uniform in the party set). -/
theorem first_round_deps_own :
    ∀ ids ∈ [[1, 2], [2, 5, 12], [1, 3, 4, 9]], ∀ sp ∈ allSpecs ids,
      ((slots ids sp.rounds).all fun s => !s.first || firstDepOk s.dep) = true := by
  decide

/-- hence: for every table and every changed party, no first message of another party is predicted to
    change — it is `mustSame`, or `free` for Gennaro's schedule-dependent proof. -/
theorem first_messages_independent :
    ∀ ids ∈ [[1, 2], [2, 5, 12], [1, 3, 4, 9]], ∀ sp ∈ allSpecs ids, ∀ c ∈ ids,
      ((slots ids sp.rounds).all fun s =>
        !(s.first && s.from_ != c) || s.expect c == .mustSame || s.expect c == .free) = true := by
  decide

/-- **A joint value that is meant to be random must change whoever's stream changed.** -/
theorem random_joint_must_change (j : JointVal) (c : Nat) (hd : j.dep = .all) (hr : j.random = true) :
    j.expect c = .mustChange := by
  simp [JointVal.expect, hd, hr, Dep.changes]

/-- every randomised protocol table names at least one such joint value (sid, pk, R/r, zero shares) -/
theorem every_protocol_has_a_random_joint_value :
    ∀ sp ∈ [session [2, 5, 12], dealer [2, 5, 12], gennaro [2, 5, 12], canetti [2, 5, 12], hjky [2, 5, 12],
            lindell22 [2, 12] false, lindell22 [2, 12] true, dkls23Bbot [2, 12], dkls23Softspoken [2, 12],
            lindell17 2 12],
      (sp.joint.any fun j => j.random && j.dep == .all) = true := by
  decide

/-- non-vacuity: concrete demands of the driver on the Lindell22 table when party 12's stream changes -/
example : ((slots [2, 12] (lindell22 [2, 12] false).rounds).map fun s => ((s.round, s.from_, s.to), s.expect 12)) =
    [((1, 2, 0), .mustSame), ((1, 12, 0), .mustChange), ((1, 2, 12), .mustSame), ((1, 12, 2), .mustChange),
     ((2, 2, 0), .change), ((2, 12, 0), .mustChange)] := by decide
/-- joint values `R.2, R.12, R, s` -/
example : ((lindell22 [2, 12] false).joint.map fun j => j.expect 12) =
    [.same, .mustChange, .mustChange, .mustChange] := by decide

end model


/-! ## Part D: consumption specification and distinct draws (theorems about `Model/Draws.lean`
    and the `need` tables of `Model/Joint.lean`) -/

section draws
open BronVerif.Draws BronVerif.Joint

theorem sumNat_append (xs ys : List Nat) : sumNat (xs ++ ys) = sumNat xs + sumNat ys := by
  induction xs with
  | nil => simp [sumNat]
  | cons x xs ih => simp only [sumNat, List.cons_append, List.foldr_cons] at ih ⊢; omega

theorem minBytes_append (a b : List Draw) : minBytes (a ++ b) = minBytes a + minBytes b := by
  simp [minBytes, sumNat_append]

theorem exactBytes_append (a b : List Draw) : exactBytes (a ++ b) = exactBytes a + exactBytes b := by
  simp [exactBytes, sumNat_append]

theorem minBytes_scale (k : Nat) (ds : List Draw) : minBytes (ds.map (Draw.scale k)) = k * minBytes ds := by
  induction ds with
  | nil => simp [minBytes, sumNat]
  | cons d ds ih =>
    simp only [minBytes, sumNat, List.map_cons, List.foldr_cons, Draw.scale] at ih ⊢
    rw [ih, Nat.mul_add, Nat.mul_assoc]

theorem exactBytes_scale (k : Nat) (ds : List Draw) : exactBytes (ds.map (Draw.scale k)) = k * exactBytes ds := by
  induction ds with
  | nil => simp [exactBytes, sumNat]
  | cons d ds ih =>
    simp only [exactBytes, sumNat, List.map_cons, List.foldr_cons, Draw.scale] at ih ⊢
    rw [ih, Nat.mul_add, Nat.mul_assoc]

/-- **The entropy a step needs is affine in the number of peers** -/
theorem step_min_affine (s : StepNeed) (peers : Nat) :
    minBytes (s.draws peers) = minBytes s.once + peers * minBytes s.perPeer := by
  simp [StepNeed.draws, minBytes_append, minBytes_scale]

theorem step_exact_affine (s : StepNeed) (peers : Nat) :
    exactBytes (s.draws peers) = exactBytes s.once + peers * exactBytes s.perPeer := by
  simp [StepNeed.draws, exactBytes_append, exactBytes_scale]

/-- non-vacuity: Lindell22 round 1 with three peers: 32 + 32 once (nonce, witness; the overwritten
    coefficient needs nothing) and 32 per peer; the library reads 48 + 32 + 48 once and 48 per peer -/
example : let st := ((lindell22 [1, 2, 3, 4] false).need 0 1).getD 1 {}
    (minBytes st.once, minBytes st.perPeer, minBytes (st.draws 3), exactBytes st.once, exactBytes st.perPeer, exactBytes (st.draws 3)) =
    (64, 32, 160, 128, 48, 272) := by decide

theorem min_le_exact (ds : List Draw) (h : wellFormed ds = true) : minBytes ds ≤ exactBytes ds := by
  induction ds with
  | nil => simp [minBytes, exactBytes]
  | cons d ds ih =>
    simp only [wellFormed, List.all_cons, Bool.and_eq_true, decide_eq_true_eq] at h
    have := ih (by simpa [wellFormed] using h.2)
    simp only [minBytes, exactBytes, sumNat, List.map_cons, List.foldr_cons] at this ⊢
    have := Nat.mul_le_mul_left d.count h.1
    omega

example : wellFormed (dealRandom "key" 3) = true ∧ minBytes (dealRandom "key" 3) = 96 ∧ exactBytes (dealRandom "key" 3) = 192 := by decide
/-- it fails without well-formedness: a draw that claims more entropy than it reads -/
example : let ds : List Draw := [{ what := "x", count := 1, size := 16, min := 32 }]
    wellFormed ds = false ∧ ¬ minBytes ds ≤ exactBytes ds := by decide

theorem judgeStep_below_iff (need : List Draw) (obs : Obs) :
    (∃ m o, judgeStep need obs = .below m o) ↔ obsBytes obs < minBytes need := by
  unfold judgeStep
  constructor
  · rintro ⟨m, o, h⟩
    by_contra hc
    simp only [hc, if_false] at h
    split_ifs at h
  · intro h
    exact ⟨minBytes need, obsBytes obs, by simp [h]⟩

theorem judgeStep_ok (need : List Draw) (obs : Obs) (h : judgeStep need obs = .ok) :
    minBytes need ≤ obsBytes obs ∧ (need.any (·.lower) = false → obs = expected need) := by
  unfold judgeStep at h
  split_ifs at h with h1 h2 h3 h4
  · exact ⟨by omega, by simp [h2]⟩
  · refine ⟨by omega, fun _ => ?_⟩
    exact (beq_iff_eq.mp h4).symm


/-- the round-2 step of the session table -/
def sessionRound2Need (ids : List Nat) (id : Nat) : List Draw :=
  (((session ids).need 0 id).getD 2 {}).draws ((session ids).peers id)

/-- **Session setup, round 2: one 32-byte contribution and one 32-byte witness per peer** -/
theorem session_round2_min (ids : List Nat) (id : Nat) :
    minBytes (sessionRound2Need ids id) = 64 * (ids.length - 1) ∧
    exactBytes (sessionRound2Need ids id) = 64 * (ids.length - 1) := by
  simp [sessionRound2Need, session, StepNeed.draws, minBytes, exactBytes, sumNat, Draw.scale, rawBytes]
  omega

/-- the reads of a round 2 whose contribution was sampled once above the loop: one contribution and
    one witness per peer, i.e. `n` reads of 32 bytes for `n` parties -/
def hoistedRound2Obs (n : Nat) : Obs := [(32, n)]

/-- **A contribution shared by all peers is below the specification as soon as there are three
    parties** (with two parties there is one peer and nothing can be shared: the reads coincide). -/
theorem hoisted_contribution_below_spec (ids : List Nat) (id : Nat) (h : 3 ≤ ids.length) :
    ∃ m o, judgeStep (sessionRound2Need ids id) (hoistedRound2Obs ids.length) = .below m o := by
  rw [judgeStep_below_iff]
  rw [(session_round2_min ids id).1]
  simp [hoistedRound2Obs, obsBytes, sumNat]
  omega

example : judgeStep (sessionRound2Need [2, 5, 9] 5) (hoistedRound2Obs 3) = .below 128 96 := by decide
example : judgeStep (sessionRound2Need [2, 5, 9] 5) [(32, 4)] = .ok := by decide
/-- two parties: the hoisted round is indistinguishable (as it must be: it is the same computation) -/
example : judgeStep (sessionRound2Need [2, 9] 9) (hoistedRound2Obs 2) = .ok := by decide


/-- **The model's round function meets the consumption specification**: taking draws of the given
    sizes out of a stream succeeds iff the stream is long enough, yields chunks of exactly those sizes,
    and the chunks are consecutive segments of the stream (so distinct draws never share bytes). -/
theorem takeDraws_consumes (sizes stream : List Nat) (chunks : List (List Nat)) (rest : List Nat)
    (h : takeDraws sizes stream = some (chunks, rest)) :
    chunks.map List.length = sizes ∧ stream = chunks.flatten ++ rest := by
  induction sizes generalizing stream chunks rest with
  | nil => simp [takeDraws] at h; obtain ⟨rfl, rfl⟩ := h; simp
  | cons n sizes ih =>
    simp only [takeDraws] at h
    split_ifs at h with hlen
    cases hrec : takeDraws sizes (stream.drop n) with
    | none => simp [hrec] at h
    | some pr =>
      obtain ⟨cs, r⟩ := pr
      simp only [hrec, Option.some.injEq, Prod.mk.injEq] at h
      obtain ⟨rfl, rfl⟩ := h
      obtain ⟨h1, h2⟩ := ih _ _ _ hrec
      refine ⟨?_, ?_⟩
      · simp [h1]; omega
      · simp only [List.flatten_cons, List.append_assoc, ← h2, List.take_append_drop]

theorem takeDraws_isSome (sizes stream : List Nat) :
    (takeDraws sizes stream).isSome = true ↔ sumNat sizes ≤ stream.length := by
  induction sizes generalizing stream with
  | nil => simp [takeDraws, sumNat]
  | cons n sizes ih =>
    simp only [takeDraws, sumNat, List.foldr_cons]
    split_ifs with hlen
    · simp; have : sumNat sizes = List.foldr (· + ·) 0 sizes := rfl; omega
    · have := ih (stream.drop n)
      cases hrec : takeDraws sizes (stream.drop n) with
      | none =>
        simp [hrec] at this ⊢
        simp only [sumNat] at this; omega
      | some pr =>
        simp [hrec] at this ⊢
        simp only [sumNat] at this; omega

/-- bytes consumed: the remaining stream is shorter by exactly the sum of the sizes -/
theorem takeDraws_rest_length (sizes stream : List Nat) (chunks : List (List Nat)) (rest : List Nat)
    (h : takeDraws sizes stream = some (chunks, rest)) :
    rest.length + sumNat sizes = stream.length := by
  induction sizes generalizing stream chunks rest with
  | nil => simp [takeDraws] at h; simp [h.2, sumNat]
  | cons n sizes ih =>
    simp only [takeDraws] at h
    split_ifs at h with hlen
    cases hrec : takeDraws sizes (stream.drop n) with
    | none => simp [hrec] at h
    | some pr =>
      obtain ⟨cs, r⟩ := pr
      simp only [hrec, Option.some.injEq, Prod.mk.injEq] at h
      obtain ⟨_, rfl⟩ := h
      have := ih _ _ _ hrec
      simp only [sumNat, List.foldr_cons, List.length_drop] at this ⊢
      omega

/-- **Session round 2 in the model**: the `i`-th peer is opened the segment `[64·i, 64·i+32)` of the
    party's round-2 stream as contribution and `[64·i+32, 64·i+64)` as witness: every peer has its own
    segment, and the round consumes exactly 64 bytes per peer. -/
theorem sessionRound2_segments (peers stream : List Nat) (out : List (Nat × List Nat × List Nat)) (rest : List Nat)
    (h : sessionRound2 peers stream = some (out, rest)) :
    out.map (·.1) = peers ∧ rest.length + 64 * peers.length = stream.length ∧
    ∀ i (hi : i < out.length), (out[i]).2.1 = (stream.drop (64 * i)).take 32 ∧
                                (out[i]).2.2 = (stream.drop (64 * i + 32)).take 32 := by
  induction peers generalizing stream out rest with
  | nil => simp [sessionRound2] at h; obtain ⟨rfl, rfl⟩ := h; simp
  | cons p ps ih =>
    simp only [sessionRound2] at h
    split_ifs at h with hlen
    cases hrec : sessionRound2 ps (stream.drop 64) with
    | none => simp [hrec] at h
    | some pr =>
      obtain ⟨o, r⟩ := pr
      simp only [hrec, Option.some.injEq, Prod.mk.injEq] at h
      obtain ⟨rfl, rfl⟩ := h
      obtain ⟨h1, h2, h3⟩ := ih _ _ _ hrec
      refine ⟨by simp [h1], by simp only [List.length_cons, List.length_drop] at h2 ⊢; omega, ?_⟩
      intro i hi
      cases i with
      | zero => simp
      | succ j =>
        have hj : j < o.length := by simpa using hi
        obtain ⟨a, b⟩ := h3 j hj
        simp only [List.getElem_cons_succ, a, b, List.drop_drop]
        constructor <;> congr 2 <;> omega

/-- hence, when the 32-byte segments of the stream that the round reads as contributions are pairwise
    different (what a random stream gives except with negligible probability), **the contributions
    opened to different peers are pairwise distinct** -/
theorem sessionRound2_contributions_distinct (peers stream : List Nat) (out : List (Nat × List Nat × List Nat)) (rest : List Nat)
    (h : sessionRound2 peers stream = some (out, rest))
    (hs : ∀ i j, i < j → j < peers.length → (stream.drop (64 * i)).take 32 ≠ (stream.drop (64 * j)).take 32) :
    (out.map (·.2.1)).Nodup := by
  obtain ⟨h1, _, h3⟩ := sessionRound2_segments peers stream out rest h
  have hl : out.length = peers.length := by rw [← h1]; simp
  rw [List.nodup_iff_getElem?_ne_getElem?]
  intro i j hij hj
  simp only [List.length_map] at hj
  have hi : i < out.length := by omega
  simp only [List.getElem?_map, List.getElem?_eq_getElem hi, List.getElem?_eq_getElem hj, Option.map_some, ne_eq,
    Option.some.injEq]
  rw [(h3 i hi).1, (h3 j hj).1]
  exact hs i j hij (by omega)

-- the hypothesis is satisfiable (a stream whose 32-byte segments differ); the conclusion is then the
-- distinctness the harness checks on the opened `PairwiseContribution` values
set_option maxRecDepth 20000 in
example : ((sessionRound2 [5, 9, 11] (List.range 200)).map fun r => decide (r.1.map (·.2.1)).Nodup) = some true := by
  decide +kernel

/-- the hoisted variant opens the SAME contribution (the first 32 bytes) to every peer … -/
theorem sessionRound2Hoisted_constant (peers stream : List Nat) (out : List (Nat × List Nat × List Nat)) (rest : List Nat)
    (h : sessionRound2Hoisted peers stream = some (out, rest)) :
    ∀ x ∈ out, x.2.1 = stream.take 32 := by
  unfold sessionRound2Hoisted at h
  split_ifs at h
  generalize stream.take 32 = c at h ⊢
  generalize stream.drop 32 = s at h
  induction peers generalizing s out rest with
  | nil => simp [sessionRound2HoistedLoop] at h; simp [h.1]
  | cons p ps ih =>
    simp only [sessionRound2HoistedLoop] at h
    split_ifs at h
    cases hrec : sessionRound2HoistedLoop c ps (s.drop 32) with
    | none => simp [hrec] at h
    | some pr =>
      obtain ⟨o, r⟩ := pr
      simp only [hrec, Option.some.injEq, Prod.mk.injEq] at h
      obtain ⟨rfl, rfl⟩ := h
      intro x hx
      rcases List.mem_cons.mp hx with rfl | hx
      · rfl
      · exact ih _ _ _ hrec x hx

-- … and consumes only 32 + 32·peers bytes (200 − 96 = 104 left; the honest round leaves 200 − 128 = 72)
set_option maxRecDepth 20000 in
example : (sessionRound2Hoisted [5, 9] (List.range 200)).map (fun r => (r.1.map (·.2.1.head!), r.2.length)) = some ([0, 0], 104) := by decide
set_option maxRecDepth 20000 in
example : (sessionRound2 [5, 9] (List.range 200)).map (fun r => (r.1.map (·.2.1.head!), r.2.length)) = some ([0, 64], 72) := by decide
example : takeDraws [32, 32, 48] (List.range 120) = some ([List.range 32, (List.range 64).drop 32, (List.range 112).drop 64], (List.range 120).drop 112) := by decide +kernel

/-- **Per-recipient values are injective in the draws**: if what a recipient gets is an injective
    function of its own draw (an opening `(contribution, witness)`, a commitment under `HashInj`),
    the values for the recipients are pairwise distinct exactly when the draws are. -/
theorem per_recipient_values_distinct {α β : Type*} (f : α → β) (hf : Function.Injective f) (draws : List α) :
    (draws.map f).Nodup ↔ draws.Nodup :=
  List.nodup_map_iff hf

/-- a draw that is shared by two recipients shows as a repeated value -/
theorem shared_draw_repeats {α β : Type*} (f : α → β) (c : α) (n : Nat) (h : 2 ≤ n) :
    ¬ ((List.replicate n c).map f).Nodup := by
  obtain ⟨m, rfl⟩ : ∃ m, n = m + 2 := ⟨n - 2, by omega⟩
  simp [List.replicate_succ]

example : ([3, 5, 9].map fun x : Nat => x + 1).Nodup ∧ ¬ ((List.replicate 2 7).map fun x : Nat => x + 1).Nodup := by decide

/-- **Shares of different recipients differ**: under a dealer column `r` the shares of two MSP rows
    coincide iff `r` is orthogonal to the difference of the rows — for Shamir's degree-1 rows `(1, x)`:
    iff the random coefficient is zero or the evaluation points coincide. -/
theorem shamir2_shares_equal_iff {F : Type*} [Field F] (s a xi xj : F) :
    s + a * xi = s + a * xj ↔ a = 0 ∨ xi = xj := by
  constructor
  · intro h
    have : a * (xi - xj) = 0 := by linear_combination h
    rcases mul_eq_zero.mp this with h | h
    · exact Or.inl h
    · exact Or.inr (sub_eq_zero.mp h)
  · rintro (rfl | rfl) <;> simp

/-- over `ZMod 7`: holders 1 and 2 get different shares of `s = 3` when the coefficient is 5, the
    same share when it is 0 -/
example : (3 : ZMod 7) + 5 * 1 ≠ 3 + 5 * 2 ∧ (3 : ZMod 7) + 0 * 1 = 3 + 0 * 2 := by decide


/-- **Every table entry reads at least the entropy it demands** (for every party set, every number of
    MSP columns, every party): with `min_le_exact`, the library's mirror always satisfies the entropy
    bound, so the violation verdict can never fire on the mirrored behaviour. -/
theorem need_well_formed (ids : List Nat) (d id : Nat) :
    ∀ sp ∈ allSpecs ids, ∀ st ∈ sp.need d id, wellFormed (st.once ++ st.perPeer) = true := by
  intro sp hsp st hst
  simp only [allSpecs, List.mem_cons, List.not_mem_nil, or_false] at hsp
  rcases hsp with rfl | rfl | rfl | rfl | rfl | rfl | rfl | rfl | rfl | rfl | rfl | rfl | rfl
  all_goals
    simp only [session, dealer, gennaro, canetti, hjky, redistribute, lindell22, dkls23Bbot, dkls23Softspoken,
      boldyreva, lindell17] at hst
    try split_ifs at hst
    all_goals
      simp only [List.mem_cons, List.not_mem_nil, or_false] at hst
      try rcases hst with rfl | rfl | rfl | rfl | rfl | rfl
      all_goals
        simp [wellFormed, dealRandom, dealColumn, scalar, wasted, rawBytes, zeroSharing]

/-- the step characters of `reads` agree with the consumption tables: a step draws bytes (`S`/`1`) iff
    its need is non-empty — checked on 2-, 3- and 4-party instances with 2 and 3 MSP columns (the tables
    are uniform in both) -/
def readsAgree (sp : Spec) (ids : List Nat) (d : Nat) : Bool :=
  ids.all fun id =>
    let steps := sp.need d id
    let chars := (sp.reads id).toList
    chars.length == steps.length &&
      (chars.zip steps).all fun (c, st) => (c != '0') == (0 < exactBytes (st.draws (sp.peers id)))

theorem reads_agree_with_need :
    ∀ ids ∈ [[1, 2], [2, 5, 12], [1, 3, 4, 9]], ∀ d ∈ [2, 3],
      ([session ids, gennaro ids, canetti ids, hjky ids, redistribute ids ids, lindell22 ids false,
        lindell22 ids true, dkls23Bbot ids, dkls23Softspoken ids].all fun sp => readsAgree sp ids d) = true ∧
      readsAgree (dealer ids) [0] d = true ∧ readsAgree (lindell17 (ids.headD 1) (ids.getLastD 2)) [ids.headD 1, ids.getLastD 2] d = true := by
  decide

/-- **Protocols that hand each peer its own secret have a per-peer part** in the step that samples it,
    so the demanded entropy grows with every additional peer (`step_min_affine`): session round 2,
    Lindell22 round 1 (zero-sharing coefficients), DKLs23 (OT keys, choice bits, pads). -/
theorem per_peer_parts_present (ids : List Nat) (d id : Nat) :
    0 < minBytes (((session ids).need d id).getD 2 {}).perPeer ∧
    0 < minBytes (((lindell22 ids false).need d id).getD 1 {}).perPeer ∧
    0 < minBytes (((dkls23Bbot ids).need d id).getD 1 {}).perPeer ∧
    0 < minBytes (((dkls23Bbot ids).need d id).getD 2 {}).perPeer ∧
    0 < minBytes (((dkls23Softspoken ids).need d id).getD 2 {}).perPeer ∧
    0 < minBytes (((dkls23Softspoken ids).need d id).getD 3 {}).perPeer := by
  simp [session, lindell22, dkls23Bbot, dkls23Softspoken, minBytes, sumNat, rawBytes, scalar, zeroSharing]

/-- hence every additional peer costs 64 more bytes in session round 2 -/
example : [[2, 9], [2, 5, 9], [2, 5, 9, 11], [1, 2, 5, 9, 11]].map (fun ids => minBytes (sessionRound2Need ids 2)) = [64, 128, 192, 256] := by
  decide


end draws

/-! ## Part P: joint values are injective in each party's contribution

Abstract algebra (Mathlib `Module`, `Set.InjOn`); the model tables above instantiate it: `dep := .all`
for `R`, `pk`, `sid`, seeds and zero shares is exactly "depends injectively on every contribution". -/

section algebra
variable {R G : Type*} [Ring R] [AddCommGroup G] [Module R G]

/-- the joint point of the contributions `ks`: `Σ kᵢ • g` (nonce point `R = Σ kᵢ•g`, public key
    `pk = Σ r⁽ⁱ⁾₀•g`) -/
def jointPoint (g : G) (ks : List R) : G := (ks.map (· • g)).sum

theorem jointPoint_split (g : G) (pre post : List R) (k : R) :
    jointPoint g (pre ++ k :: post) = k • g + (jointPoint g pre + jointPoint g post) := by
  simp only [jointPoint, List.map_append, List.map_cons, List.sum_append, List.sum_cons]
  exact add_left_comm _ _ _

/-- **`k ↦ k • g` is injective** when `g` generates a group on which no non-zero scalar vanishes:
    a party's first randomised message `Rᵢ = kᵢ•g` determines its nonce share. -/
theorem first_message_injective (g : G) (hg : ∀ a : R, a • g = 0 → a = 0) :
    Function.Injective fun k : R => k • g := by
  intro k k' h
  have : (k - k') • g = 0 := by simpa [sub_smul, sub_eq_zero] using h
  exact sub_eq_zero.mp (hg _ this)

/-- **The joint point is injective in each party's contribution**: for fixed contributions of the
    other parties (`pre`, `post`), different `k` give different `R = Σ kᵢ•g` (resp. `pk`). -/
theorem joint_value_injective (g : G) (hg : ∀ a : R, a • g = 0 → a = 0) (pre post : List R) :
    Function.Injective fun k : R => jointPoint g (pre ++ k :: post) := by
  intro k k' h
  simp only [jointPoint_split] at h
  exact first_message_injective g hg (add_right_cancel h)

/-- additive joint values (zero shares `ζᵢ = Σⱼ s_{j→i}`, PRZS `ζᵢ = Σⱼ ±F(seedᵢⱼ)`): injective in each
    summand for fixed other summands -/
theorem zero_share_injective (pre post : List G) :
    Function.Injective fun v : G => (pre ++ v :: post).sum := by
  intro v v' h
  simp only [List.sum_append, List.sum_cons] at h
  exact add_right_cancel (add_left_cancel h)

variable {C B D : Type*}

/-- **The session identifier is injective in each party's contribution**: `sid = H(frame cs)` with `H`
    injective on the framed inputs that occur (`Set.InjOn H S`) and an injective framing. -/
theorem sid_injective (H : B → D) (frame : List C → B) (S : Set B) (hH : Set.InjOn H S)
    (hframe : Function.Injective frame) (pre post : List C) (c c' : C)
    (hc : frame (pre ++ c :: post) ∈ S) (hc' : frame (pre ++ c' :: post) ∈ S)
    (h : H (frame (pre ++ c :: post)) = H (frame (pre ++ c' :: post))) : c = c' := by
  have := hframe (hH hc hc' h)
  simpa using this

/-- pairwise seeds `seedᵢⱼ = H(frame2 common cᵢ cⱼ)`: injective in each of the two contributions -/
theorem pairwise_seed_injective (H : B → D) (frame2 : B → C → C → B) (S : Set B) (hH : Set.InjOn H S)
    (hframe : ∀ m a b a' b', frame2 m a b = frame2 m a' b' → a = a' ∧ b = b')
    (m : B) (ci ci' cj : C) (h1 : frame2 m ci cj ∈ S) (h2 : frame2 m ci' cj ∈ S)
    (h : H (frame2 m ci cj) = H (frame2 m ci' cj)) : ci = ci' :=
  (hframe _ _ _ _ _ (hH h1 h2 h)).1

/-- commitments `Com(key; m, w) = H(frame key m w)`: a party's first message (a commitment to its nonce
    point / contribution) is injective in the committed value and witness -/
theorem commitment_first_message_injective {K M W : Type*} (H : B → D) (frame : K → M → W → B) (S : Set B)
    (hH : Set.InjOn H S) (hframe : ∀ k m w m' w', frame k m w = frame k m' w' → m = m' ∧ w = w')
    (k : K) (m m' : M) (w w' : W) (h1 : frame k m w ∈ S) (h2 : frame k m' w' ∈ S)
    (h : H (frame k m w) = H (frame k m' w')) : m = m' ∧ w = w' :=
  hframe _ _ _ _ _ (hH h1 h2 h)

/-- composition used by the commit-then-open nonce flow: the commitment to `k • g` is injective in `k` -/
theorem nonce_commitment_injective {K W : Type*} (g : G) (hg : ∀ a : R, a • g = 0 → a = 0)
    (H : B → D) (frame : K → G → W → B) (S : Set B) (hH : Set.InjOn H S)
    (hframe : ∀ k m w m' w', frame k m w = frame k m' w' → m = m' ∧ w = w')
    (key : K) (k k' : R) (w w' : W) (h1 : frame key (k • g) w ∈ S) (h2 : frame key (k' • g) w' ∈ S)
    (h : H (frame key (k • g) w) = H (frame key (k' • g) w')) : k = k' :=
  first_message_injective g hg (hframe _ _ _ _ _ (hH h1 h2 h)).1

end algebra

/-! ### Non-vacuity of the algebraic hypotheses -/

/-- the generator hypothesis holds for `g = 1` in `ZMod 7` as a module over itself … -/
example : ∀ a : ZMod 7, a • (1 : ZMod 7) = 0 → a = 0 := by decide
/-- … and the joint point really separates contributions there: Σ = 2+k+5 -/
example : jointPoint (1 : ZMod 7) ([2, 3, 5] : List (ZMod 7)) = 3 ∧
    jointPoint (1 : ZMod 7) ([2, 4, 5] : List (ZMod 7)) = 4 := by
  constructor <;> simp [jointPoint] <;> decide
example : Function.Injective fun k : ZMod 7 => jointPoint (1 : ZMod 7) (([2] : List (ZMod 7)) ++ k :: [5]) :=
  joint_value_injective (R := ZMod 7) 1 (by decide) [2] [5]
/-- it fails without it: with `g = 0` every contribution gives the same joint point -/
example : jointPoint (0 : ZMod 7) ([2, 3, 5] : List (ZMod 7)) = jointPoint (0 : ZMod 7) ([2, 4, 5] : List (ZMod 7)) := by
  simp [jointPoint]
/-- hash/framing hypotheses are satisfiable: identity "hash" on lists, framing = the list itself -/
example : (3 : Nat) = 3 :=
  sid_injective (H := fun b : List Nat => b) (frame := id) Set.univ (fun _ _ _ _ h => h)
    Function.injective_id [1] [2] 3 3 trivial trivial rfl

end BronVerif.Props.C07
