import BronVerif.Drive.Common
/-! Driver handlers for C02. -/
namespace BronVerif.Drive.C02
open BronVerif BronVerif.Drive

def handle (op : String) (_args : List String) (_rhs : String) : Verdict :=
  .unsupported ("C02 op " ++ op)

end BronVerif.Drive.C02
