import BronVerif.Drive.Common
import BronVerif.Model.LinAlg
import BronVerif.Model.Access
import BronVerif.Model.Sharing
/-! Driver handlers for C02 (access structures, span programmes, linear secret sharing). -/
namespace BronVerif.Drive.C02
open BronVerif BronVerif.Drive BronVerif.LinAlg BronVerif.Access BronVerif.Sharing

instance instNatCastFpC02 {p : Nat} [NeZero p] : NatCast (Fp p) := ⟨Fp.ofNat p⟩

/-! ### parsing -/

def parseInt? (s : String) : Option Int :=
  if s.startsWith "-" then (s.drop 1).toString.toNat?.map (fun n => - (n : Int)) else s.toNat?.map (fun n => (n : Int))

/-- gate tree: `<hexid>` or `[<t>:<node>,<node>,…]` -/
partial def parseNode (cs : List Char) : Option (Tree × List Char) :=
  match cs with
  | '[' :: rest =>
    let ts := rest.takeWhile (· != ':')
    let rest := (rest.dropWhile (· != ':')).drop 1
    match parseInt? (String.ofList ts) with
    | none => none
    | some t =>
      let rec children (cs : List Char) (acc : List Tree) : Option (List Tree × List Char) :=
        match cs with
        | ']' :: r => some (acc.reverse, r)
        | ',' :: r => children r acc
        | _ => match parseNode cs with
          | none => none
          | some (nd, r) => children r (nd :: acc)
      match children rest [] with
      | none => none
      | some (ch, r) => some (.gate t ch, r)
  | _ =>
    let ds := cs.takeWhile fun c => c != ',' && c != ']'
    match hexToNat? (String.ofList ds) with
    | none => none
    | some id => some (.leaf id, cs.drop ds.length)

def parsePolicy? (tok : String) : Option Policy :=
  match tok.splitOn ":" with
  | "th" :: t :: ids :: [] => do
    let t ← t.toNat?
    let ids ← parseNatList? ids
    return .threshold t ids
  | "un" :: ids :: [] => do
    let ids ← parseNatList? ids
    return .unanimity ids
  | "cnf" :: rest :: [] =>
    if rest == "" then some (.cnf []) else do
    let sets ← (rest.splitOn "|").mapM parseNatList?
    return .cnf sets
  | "hi" :: rest :: [] =>
    if rest == "" then some (.hier []) else do
    let levels ← (rest.splitOn "|").mapM fun l =>
      match l.splitOn "/" with
      | [t, ids] => do
        let t ← parseInt? t
        let ids ← parseNatList? ids
        return (t, ids)
      | _ => none
    return .hier levels
  | "bx" :: _ =>
    match parseNode (tok.drop 3).toString.toList with
    | some (nd, []) => some (.tree nd)
    | _ => none
  | _ => none

def parseMSP? {p : Nat} [NeZero p] (rs cs ms hs : String) : Option (MSP (Fp p)) := do
  let r ← rs.toNat?
  let c ← cs.toNat?
  let xs ← parseNatList? ms
  let holders ← parseNatList? hs
  if xs.length ≠ r * c ∨ holders.length ≠ r ∨ c = 0 then none
  return { mat := chunk (fpList xs) c, cols := c, holders := holders }

/-- `id=v1,v2;id=…` -/
def parseIdVals? (s : String) : Option (List (Nat × List Nat)) :=
  if s == "-" || s == "" then some [] else
  (s.splitOn ";").mapM fun e =>
    match e.splitOn "=" with
    | [id, vs] => do
      let id ← hexToNat? id
      let vs ← parseNatList? vs
      return (id, vs)
    | _ => none

def hexList (xs : List Nat) : String := joinComma (xs.map natToHex)

def renderMSP {p : Nat} (m : MSP (Fp p)) (sep : String) : String :=
  sep.intercalate [toString m.mat.length, toString m.cols, joinComma (m.mat.flatten.map Fp.toHex), hexList m.holders]

def renderIdVals {p : Nat} (xs : List (Nat × List (Fp p))) : String :=
  if xs.isEmpty then "-" else ";".intercalate (xs.map fun (id, vs) => natToHex id ++ "=" ++ fpHexList vs)

def bits (bs : List Bool) : String := if bs.isEmpty then "-" else String.ofList (bs.map fun b => if b then '1' else '0')

def masks (U : List Nat) : List (List Nat) := (List.range (2 ^ U.length)).map (subsetByMask U)

/-- a panic is never an admissible refusal -/
def mirrorNoPanic (model rhs : String) : Verdict :=
  if rhs.startsWith "panic" then .bad "panic" ("expected=" ++ model ++ " observed=" ++ rhs) else mirror model rhs

def withField {α} (ps : String) (dflt : α) (f : (q : Nat) → [NeZero q] → α) : α :=
  match hexToNat? ps with
  | none => dflt
  | some p => withPrime p dflt f

/-- the holders the recorded finding `holder-without-rows` is about: members of every maximal
unqualified set of a CNF policy (they are in no clause, so `cnf.InducedMSP` gives them no row).
Computed from the policy alone: a missing row of any other holder is never filed under that finding. -/
def knownRowless : Policy → List Nat
  | .cnf sets =>
    let mus := cnfNormalise sets
    (sortedSet mus.flatten).filter fun id => mus.all fun u => u.contains id
  | _ => []

def hasRowless {p : Nat} (pol : Policy) (g : MSP (Fp p)) (S : List Nat) : Bool :=
  S.any fun id => !g.holders.contains id && (knownRowless pol).contains id

def holdersOf {p : Nat} (g : MSP (Fp p)) : List Nat := sortedSet g.holders

/-- first index at which two lists of strings differ -/
def firstDiff (a b : List String) : Option Nat :=
  ((List.range (max a.length b.length)).filter fun i => a[i]? != b[i]?).head?

/-! ### handlers -/

def hNew (tok rhs : String) : Verdict :=
  match parsePolicy? tok with
  | none => .unsupported "policy"
  | some pol =>
    let model := match pol.validate with | .ok _ => "ok" | .error e => e
    mirrorNoPanic model rhs

def hQual (tok rhs : String) : Verdict :=
  match parsePolicy? tok with
  | none => .unsupported "policy"
  | some pol =>
    let U := pol.shareholders
    spec "isQualified" (hexList U ++ "/" ++ bits ((masks U).map pol.isQualified)) rhs

def hMsp (ps tok rhs : String) : Verdict :=
  match parsePolicy? tok with
  | none => .unsupported "policy"
  | some pol => withField ps (.unsupported "p") fun q =>
    let model := match (inducedMSP q pol : Except String (MSP (Fp q))) with
      | .error e => e
      | .ok m => "ok:" ++ renderMSP m "/"
    mirrorNoPanic model rhs

def hAccepts (ps tok rs cs ms hs rhs : String) : Verdict :=
  match parsePolicy? tok with
  | none => .unsupported "policy"
  | some pol => withField ps (.unsupported "p") fun q =>
    match parseMSP? (p := q) rs cs ms hs with
    | none => .unsupported "msp"
    | some g =>
      let U := pol.shareholders
      let sets := masks U
      let qual := sets.map pol.isQualified
      let goBits := rhs.toList.map (· == '1')
      if goBits.length ≠ sets.length then .unsupported "rhs length" else
      -- (1) the property: Accepts(S) ↔ isQualified(S)
      let mism := (sets.zip (qual.zip goBits)).filter fun (_, qb, gb) => qb != gb
      if !mism.isEmpty then
        let key := if mism.all (fun (S, _, _) => hasRowless pol g S) then "accepts-holder-without-rows" else "accepts-ne-qualified"
        .bad key ("qualified=" ++ bits qual ++ " accepts=" ++ rhs ++ " first-subset=" ++ hexList ((mism.head?.map (·.1)).getD []))
      else
      -- (2) the driver's own span test on the matrix Go reports
      let own := sets.map g.accepts
      if own != goBits then .bad "accepts-ne-span" ("solveLeft on the reported matrix: " ++ bits own) else
      -- (3) privacy: for every unqualified S, e₀ ∉ rowspan(M_S) by an independent rank computation
      let leak := (sets.zip qual).filter fun (S, qb) => !qb && !(g.rowsOf S).isEmpty && g.targetInSpan S
      if !leak.isEmpty then .bad "privacy" ("target in span of unqualified set " ++ hexList ((leak.head?.map (·.1)).getD [])) else
      let lost := (sets.zip qual).filter fun (S, qb) => qb && !g.targetInSpan S
      if !lost.isEmpty then .bad "msp-rejects-qualified" (hexList ((lost.head?.map (·.1)).getD [])) else
      -- (4) the model's own construction
      match (inducedMSP q pol : Except String (MSP (Fp q))) with
      | .error e => .diff ("model refuses: " ++ e)
      | .ok m => mirror (bits (sets.map m.accepts)) rhs

def hRecvec (ps rs cs ms hs ss rhs : String) : Verdict :=
  withField ps (.unsupported "p") fun q =>
    match parseMSP? (p := q) rs cs ms hs, parseNatList? ss with
    | some g, some S =>
      let model := g.reconVector S
      if rhs == "none" then
        match model with
        | some c => .bad "recvec-missed" ("solvable: " ++ fpHexList c)
        | none => .ok
      else if rhs.startsWith "ok:" then
        match (rhs.drop 3).toString.splitOn "/" with
        | [vs, cos] =>
          match parseNatList? vs, parseIdVals? cos with
          | some v, some co =>
            let c : List (Fp q) := fpList v
            let sub := g.sub S
            let prod : List (Fp q) := (List.range g.cols).map fun j => dot c (sub.map fun row => row.getD j 0)
            if c.length ≠ sub.length ∨ prod ≠ g.target then .bad "recvec-wrong" "c·M_S != e0" else
            -- coefficients of each holder = entries of c on that holder's rows
            let rows := g.rowsOf S
            let want := (sortedSet S).map fun id =>
              (id, (rows.zip c).filterMap fun (i, ci) => if g.holders[i]? = some id then some ci else none)
            let got : List (Nat × List (Fp q)) := co.map fun (id, xs) => (id, fpList xs)
            if renderIdVals want != renderIdVals got then .bad "coefficients" ("expected=" ++ renderIdVals want) else
            match model with
            | none => .diff "model: none"
            | some mc => mirror (fpHexList mc) vs
          | _, _ => .unsupported "rhs"
        | _ => .unsupported "rhs"
      else mirrorNoPanic (match model with | none => "none" | some c => "ok:" ++ fpHexList c) rhs
    | _, _ => .unsupported "args"

def sharesOf {p : Nat} [NeZero p] (g : MSP (Fp p)) (lam : List (Fp p)) : List (Nat × List (Fp p)) :=
  (holdersOf g).map fun id => (id, g.shareOf lam id)

def hDeal (ps rs cs ms hs secret rhs : String) : Verdict :=
  withField ps (.unsupported "p") fun q =>
    match parseMSP? (p := q) rs cs ms hs, hexToNat? secret with
    | some g, some s =>
      if g.cols < 2 then mirrorNoPanic "err:value" rhs else
      if !rhs.startsWith "ok:" then .bad "deal-refused" ("observed=" ++ rhs) else
      match (rhs.drop 3).toString.splitOn "/" with
      | [col, sh] =>
        match parseNatList? col with
        | some r =>
          let r : List (Fp q) := fpList r
          if r.length ≠ g.cols ∨ r.head? ≠ some (Fp.ofNat q s) then .bad "deal-secret" "random column does not start with the secret" else
          spec "deal-shares" (renderIdVals (sharesOf g (g.deal r))) sh
        | none => .unsupported "rhs"
      | _ => .unsupported "rhs"
    | _, _ => .unsupported "args"

def hRecon (ps tok rs cs ms hs col rhs : String) : Verdict :=
  match parsePolicy? tok with
  | none => .unsupported "policy"
  | some pol => withField ps (.unsupported "p") fun q =>
    match parseMSP? (p := q) rs cs ms hs, parseNatList? col with
    | some g, some r =>
      let r : List (Fp q) := fpList r
      let lam := g.deal r
      let secret := (r.headD 0).toHex
      let sets := masks pol.shareholders
      let want := sets.map fun S => if pol.isQualified S then secret else "x"
      let got := rhs.splitOn ","
      match firstDiff want got with
      | some i =>
        let S := sets.getD i []
        .bad (if hasRowless pol g S then "recon-holder-without-rows" else "recon")
          ("subset=" ++ hexList S ++ " expected=" ++ want.getD i "?" ++ " observed=" ++ got.getD i "?")
      | none =>
        let model := sets.map fun S => match g.reconstruct S lam with | some v => v.toHex | none => "x"
        mirror (",".intercalate model) rhs
    | _, _ => .unsupported "args"

def hToAdd (ps tok rs cs ms hs col qs rhs : String) : Verdict :=
  match parsePolicy? tok with
  | none => .unsupported "policy"
  | some pol => withField ps (.unsupported "p") fun q =>
    match parseMSP? (p := q) rs cs ms hs, parseNatList? col, parseNatList? qs with
    | some g, some r, some Q =>
      let r : List (Fp q) := fpList r
      let lam := g.deal r
      let qualified := pol.isQualified Q
      if rhs.startsWith "ok:" then
        match parseIdVals? (rhs.drop 3).toString with
        | none => .unsupported "rhs"
        | some vals =>
          let vs : List (Fp q) := vals.map fun (_, xs) => Fp.ofNat q (xs.headD 0)
          if !qualified then .bad "additive-unqualified" "conversion over an unqualified quorum succeeded" else
          if vals.map (·.1) != sortedSet Q then .bad "additive-ids" "wrong holders" else
          if vsum vs ≠ r.headD 0 then .bad "additive-sum" ("sum=" ++ (vsum vs).toHex ++ " secret=" ++ (r.headD 0).toHex) else
          let model := (sortedSet Q).map fun id => (id, match g.toAdditive Q lam id with | some v => [v] | none => [])
          mirror (renderIdVals model) (rhs.drop 3).toString
      else if rhs.startsWith "panic" then .bad "panic" rhs
      else if qualified then
        .bad (if hasRowless pol g Q then "additive-holder-without-rows" else "additive-refused") ("qualified quorum refused: " ++ rhs)
      else .ok
    | _, _, _ => .unsupported "args"

def hLin (ps tok rs cs ms hs colA ks rhs : String) : Verdict :=
  match parsePolicy? tok with
  | none => .unsupported "policy"
  | some pol => withField ps (.unsupported "p") fun q =>
    match parseMSP? (p := q) rs cs ms hs, parseNatList? colA, hexToNat? ks with
    | some g, some ra, some k =>
      if !rhs.startsWith "ok:" then .bad "lin-refused" rhs else
      match (rhs.drop 3).toString.splitOn "/" with
      | [colB, addS, mulS, recs] =>
        match parseNatList? colB with
        | none => .unsupported "rhs"
        | some rb =>
          let ra : List (Fp q) := fpList ra
          let rb : List (Fp q) := fpList rb
          let k : Fp q := Fp.ofNat q k
          let wantAdd := renderIdVals (sharesOf g (g.deal (vadd ra rb)))
          let wantMul := renderIdVals (sharesOf g (g.deal (vsmul k ra)))
          if wantAdd != addS then .bad "share-add" ("expected=" ++ wantAdd) else
          if wantMul != mulS then .bad "share-smul" ("expected=" ++ wantMul) else
          let sumS := (ra.headD 0 + rb.headD 0).toHex
          let mulSec := (k * ra.headD 0).toHex
          let wantRecs := (recs.splitOn ";").map fun e =>
            match e.splitOn ":" with
            | [ids, _, _] =>
              match parseNatList? ids with
              | some S => if pol.isQualified S then ids ++ ":" ++ sumS ++ ":" ++ mulSec else ids ++ ":x:x"
              | none => "?"
            | _ => "?"
          let gotRecs := recs.splitOn ";"
          match firstDiff wantRecs gotRecs with
          | some i =>
            let S := ((parseNatList? (((gotRecs.getD i "").splitOn ":").headD "")).getD [])
            .bad (if hasRowless pol g S then "lin-holder-without-rows" else "lin-recon") ("expected=" ++ wantRecs.getD i "?" ++ " observed=" ++ gotRecs.getD i "?")
          | none => .ok
      | _ => .unsupported "rhs"
    | _, _, _ => .unsupported "args"

def hShamir (ps tok secret rhs : String) : Verdict :=
  match parsePolicy? tok, hexToNat? secret with
  | some (.threshold t ids), some s => withField ps (.unsupported "p") fun q =>
    if !rhs.startsWith "ok:" then .bad "shamir-refused" rhs else
    match (rhs.drop 3).toString.splitOn "/" with
    | [cf, sh, rec] =>
      match parseNatList? cf, parseIdVals? sh with
      | some cf, some shv =>
        let cf : List (Fp q) := fpList cf
        let pol := Policy.threshold t ids
        let U := pol.shareholders
        if cf.length ≠ t ∨ cf.head? ≠ some (Fp.ofNat q s) then .bad "shamir-poly" "degree/constant term" else
        let want := renderIdVals (U.map fun id => (id, [shamirShare cf id]))
        if want != sh then .bad "shamir-shares" ("expected=" ++ want) else
        let sets := masks U
        let secretHex := (Fp.ofNat q s).toHex
        let wantRec := sets.map fun S => if pol.isQualified S then secretHex else "x"
        match firstDiff wantRec (rec.splitOn ",") with
        | some i => .bad "shamir-recon" ("subset=" ++ hexList (sets.getD i []) ++ " expected=" ++ wantRec.getD i "?")
        | none =>
          -- the model's own Lagrange reconstruction from the reported shares
          let val (id : Nat) : Fp q := Fp.ofNat q (((shv.find? (·.1 == id)).map (·.2.headD 0)).getD 0)
          let model := sets.map fun S => if pol.isQualified S then (shamirReconstruct S (S.map val)).toHex else "x"
          mirror (",".intercalate model) rec
      | _, _ => .unsupported "rhs"
    | _ => .unsupported "rhs"
  | _, _ => .unsupported "args"

def hShamirAdd (ps tok cf qs rhs : String) : Verdict :=
  match parsePolicy? tok, parseNatList? cf, parseNatList? qs with
  | some (.threshold t _), some cf, some Q => withField ps (.unsupported "p") fun q =>
    if !rhs.startsWith "ok:" then .bad "shamir-additive-refused" rhs else
    let cf : List (Fp q) := fpList cf
    let Qs := sortedSet Q
    let nodes : List (Fp q) := Qs.map fun id => Fp.ofNat q id
    let vals := Qs.zipIdx.map fun (id, i) => (id, [lagrangeAtZero nodes i * shamirShare cf id])
    if renderIdVals vals != (rhs.drop 3).toString then .bad "shamir-additive" ("expected=" ++ renderIdVals vals) else
    if t ≤ Qs.length ∧ vsum (vals.map fun (_, v) => v.headD 0) ≠ cf.headD 0 then .diff "model: sum != secret" else .ok
  | _, _, _ => .unsupported "args"

def hAdditive (ps tok secret rhs : String) : Verdict :=
  match parsePolicy? tok, hexToNat? secret with
  | some pol, some s => withField ps (.unsupported "p") fun q =>
    if !rhs.startsWith "ok:" then .bad "additive-refused" rhs else
    match (rhs.drop 3).toString.splitOn "/" with
    | [sh, rec] =>
      match parseIdVals? sh with
      | some shv =>
        let U := pol.shareholders
        let vs : List (Fp q) := shv.map fun (_, xs) => Fp.ofNat q (xs.headD 0)
        if shv.map (·.1) != U then .bad "additive-ids" "wrong holders" else
        if vsum vs ≠ Fp.ofNat q s then .bad "additive-deal-sum" "shares do not sum to the secret" else
        let sets := masks U
        let wantRec := sets.map fun S => if pol.isQualified S then (Fp.ofNat q s).toHex else "x"
        spec "additive-recon" (",".intercalate wantRec) rec
      | none => .unsupported "rhs"
    | _ => .unsupported "rhs"
  | _, _ => .unsupported "args"

/-- `k=v;k=v` with hex keys (bit masks of maximal unqualified sets) -/
def parsePieces? (s : String) : Option (List (Nat × Nat)) := do
  let xs ← parseIdVals? s
  xs.mapM fun (k, vs) => match vs with | [v] => some (k, v) | _ => none

def maskHas (mask id : Nat) : Bool := id ≥ 1 && (mask >>> (id - 1)) % 2 = 1

def hIsn (ps tok secret rhs : String) : Verdict :=
  match parsePolicy? tok, hexToNat? secret with
  | some pol, some s => withField ps (.unsupported "p") fun q =>
    let mus := pol.maximalUnqualified
    let U := pol.shareholders
    let musU := sortedSet mus.flatten
    -- cnf.ConvertToCNF refuses: no unqualified set at all / fewer than two shareholders in them
    if mus.isEmpty then mirrorNoPanic "err:value" rhs else
    if musU.length < 2 then mirrorNoPanic "err:membership" rhs else
    if musU != U then
      -- some shareholder is qualified on its own and lies in no maximal unqualified set
      if rhs.startsWith "ok:" then .diff "model: holder outside every maximal unqualified set" else
      .bad "isn-holder-dropped" ("shareholders " ++ hexList U ++ " but ISN deals only to " ++ hexList musU ++ " observed=" ++ rhs)
    else
    if !rhs.startsWith "ok:" then .bad "isn-refused" rhs else
    match (rhs.drop 3).toString.splitOn "/" with
    | [pcs, sh, rec] =>
      match parsePieces? pcs with
      | none => .unsupported "pieces"
      | some pieces =>
        let wantKeys := sortNat (mus.map idMask)
        if pieces.map (·.1) != wantKeys then .bad "isn-pieces" ("expected keys=" ++ hexList wantKeys) else
        let total : Fp q := vsum (pieces.map fun (_, v) => Fp.ofNat q v)
        if total ≠ Fp.ofNat q s then .bad "isn-sum" "pieces do not sum to the secret" else
        let wantSh := ";".intercalate <| U.map fun id =>
          natToHex id ++ "=" ++ joinComma ((pieces.filter fun (k, _) => !maskHas k id).map fun (k, v) => natToHex k ++ ":" ++ natToHex v)
        if wantSh != sh then .bad "isn-shares" ("expected=" ++ wantSh) else
        let sets := masks U
        let wantRec := sets.map fun S => if pol.isQualified S then (Fp.ofNat q s).toHex else "x"
        spec "isn-recon" (",".intercalate wantRec) rec
    | _ => .unsupported "rhs"
  | _, _ => .unsupported "args"

def hIsnAdd (ps tok pcs qs rhs : String) : Verdict :=
  match parsePolicy? tok, parsePieces? pcs, parseNatList? qs with
  | some pol, some pieces, some Q => withField ps (.unsupported "p") fun q =>
    let Qs := sortedSet Q
    let pivot (k : Nat) : Option Nat := Qs.find? fun id => !maskHas k id
    let vals : List (Nat × List (Fp q)) := Qs.map fun id =>
      (id, [vsum ((pieces.filter fun (k, _) => !maskHas k id && pivot k == some id).map fun (_, v) => Fp.ofNat q v)])
    let total : Fp q := vsum (pieces.map fun (_, v) => Fp.ofNat q v)
    let emptyShare := Qs.any fun id => pieces.all fun (k, _) => maskHas k id
    if rhs.startsWith "panic" then
      .bad (if emptyShare then "isn-additive-empty-share-panic" else "panic") ("expected=ok:" ++ renderIdVals vals ++ " observed=" ++ rhs) else
    -- a share without pieces (its holder lies in every maximal unqualified set): `Share.ToAdditive`
    -- refuses it with ErrArgument (since /repo 4be0d57; it panicked before).  Over an unqualified
    -- quorum that is only mirrored; over a qualified quorum the conversion the property promises fails.
    if emptyShare && !rhs.startsWith "ok:" then
      (if pol.isQualified Q then
        .bad "isn-additive-empty-share-refused" ("qualified quorum " ++ hexList Qs ++ " of " ++ tok ++ " contains a holder whose ISN share has no pieces; expected=ok:" ++ renderIdVals vals ++ " observed=" ++ rhs)
       else mirror "err:argument" rhs) else
    if !rhs.startsWith "ok:" then
      (if pol.isQualified Q then .bad "isn-additive-refused" rhs else mirror ("ok:" ++ renderIdVals vals) rhs) else
    match parseIdVals? (rhs.drop 3).toString with
    | none => .unsupported "rhs"
    | some got =>
      let gs : List (Fp q) := got.map fun (_, xs) => Fp.ofNat q (xs.headD 0)
      if pol.isQualified Q ∧ vsum gs ≠ total then .bad "isn-additive-sum" "values do not sum to the secret" else
      mirror (renderIdVals vals) (rhs.drop 3).toString
  | _, _, _ => .unsupported "args"

def hTassa (ps tok secret rhs : String) : Verdict :=
  match parsePolicy? tok, hexToNat? secret with
  | some (.hier levels), some s => withField ps (.unsupported "p") fun q =>
    let check := hierCheck q levels
    if !rhs.startsWith "ok:" then
      match check with
      | .error e => mirrorNoPanic e rhs
      | .ok _ => .bad "tassa-refused" rhs
    else
      -- the scheme exists: the property ranges over it, whether or not the model would have built it
      match (rhs.drop 3).toString.splitOn "/" with
      | [cf, sh, rec] =>
        match parseNatList? cf, parseIdVals? sh with
        | some cf, some shv =>
          let cf : List (Fp q) := fpList cf
          let pol := Policy.hier levels
          let U := pol.shareholders
          if cf.length ≠ topThreshold levels ∨ cf.head? ≠ some (Fp.ofNat q s) then .bad "tassa-poly" "degree/constant term" else
          let want := renderIdVals (U.map fun id => (id, [tassaShare levels cf id]))
          if want != sh then .bad "tassa-shares" ("expected=" ++ want) else
          let sets := masks U
          let secretHex := (Fp.ofNat q s).toHex
          -- top threshold 1 (every first-level party is qualified on its own and simply holds the
          -- secret): outside the range of the reconstruction clause; only mirrored (two shares needed,
          -- degree test fails for the secret 0).  Otherwise: exactly the qualified sets, strictly.
          let wantRec := sets.map fun S => if pol.isQualified S then secretHex else "x"
          match (if topThreshold levels ≥ 2 then firstDiff wantRec (rec.splitOn ",") else none) with
          | some i => .bad "tassa-recon" ("policy=" ++ tok ++ " subset=" ++ hexList (sets.getD i []) ++ " expected=" ++ wantRec.getD i "?" ++ " observed=" ++ (rec.splitOn ",").getD i "?")
          | none =>
            match check with
            | .error e => .diff ("model refuses: " ++ e)
            | .ok _ =>
            let val (id : Nat) : Fp q := Fp.ofNat q (((shv.find? (·.1 == id)).map (·.2.headD 0)).getD 0)
            let model := sets.map fun S =>
              if pol.isQualified S then
                match tassaReconstruct levels S val with | some v => v.toHex | none => "x"
              else "x"
            mirror (",".intercalate model) rec
        | _, _ => .unsupported "rhs"
      | _ => .unsupported "rhs"
  | _, _ => .unsupported "args"

def hTassaAdd (ps tok cf qs rhs : String) : Verdict :=
  match parsePolicy? tok, parseNatList? cf, parseNatList? qs with
  | some (.hier levels), some cf, some Q => withField ps (.unsupported "p") fun q =>
    let cf : List (Fp q) := fpList cf
    let pol := Policy.hier levels
    let qualified := pol.isQualified Q
    if rhs.startsWith "panic" then .bad "panic" rhs else
    if !rhs.startsWith "ok:" then (if qualified then .bad "tassa-additive-refused" rhs else .ok) else
    if !qualified then .bad "tassa-additive-unqualified" "conversion over an unqualified quorum succeeded" else
    match parseIdVals? (rhs.drop 3).toString with
    | none => .unsupported "rhs"
    | some got =>
      let gs : List (Fp q) := got.map fun (_, xs) => Fp.ofNat q (xs.headD 0)
      if vsum gs ≠ cf.headD 0 then .bad "tassa-additive-sum" "values do not sum to the secret" else
      match tassaAdditive levels Q (tassaShare levels cf) with
      | none => .diff "model: singular"
      | some vals => mirror (renderIdVals (vals.map fun (id, v) => (id, [v]))) (rhs.drop 3).toString
  | _, _, _ => .unsupported "args"

/-- **The property oracle** on a policy the library accepted (op `oracle`, see harness/c02_oracle.go):
for every subset `S` of the shareholders, `IsQualified S`, the scheme's `CanReconstruct S`
(`MSP.Accepts` for KW) and "Reconstruct from the dealt shares of `S` returns the dealt secret" must
all equal the meaning of the policy.  Needs no span programme and no refusal rule of the model: only
`Policy.shareholders` and `Policy.isQualified`. -/
def hOracle (tok scheme rhs : String) : Verdict :=
  match parsePolicy? tok with
  | none => .unsupported "policy"
  | some pol =>
    if rhs.startsWith "panic" then .bad "panic" ("oracle " ++ scheme ++ " " ++ rhs) else
    match rhs.splitOn "/" with
    | [us, qs, cs, rs] =>
      match parseNatList? us with
      | none => .unsupported "rhs"
      | some Ugo =>
        let U := pol.shareholders
        if Ugo != U then .diff ("model shareholders: " ++ hexList U) else
        let sets := masks U
        let want := sets.map pol.isQualified
        let q := qs.toList.map (· == '1')
        let cr := cs.toList.map (· == '1')
        let rec_ := rs.toList
        if q.length ≠ sets.length ∨ cr.length ≠ sets.length ∨ rec_.length ≠ sets.length then .unsupported "rhs length" else
        -- Tassa with top threshold 1: Reconstruct wants two shares and an exact degree (documented, mirrored by op tassa)
        let recApplies := !(scheme == "tassa" && (match pol with | .hier levels => topThreshold levels < 2 | _ => false))
        let rows := sets.zip (want.zip (q.zip (cr.zip rec_)))
        let wrong := rows.filter fun (_, _, _, _, r) => r == 'w'
        match wrong.head? with
        | some (S, w, _, _, _) =>
          .bad "oracle-wrong-secret" ("scheme=" ++ scheme ++ " policy=" ++ tok ++ " subset=" ++ hexList S ++ " qualified=" ++ toString w ++ ": Reconstruct returned a value different from the dealt secret")
        | none =>
        let mism := rows.filter fun (_, w, qb, cb, r) => qb != w || cb != w || (recApplies && (r == '1') != w)
        match mism.head? with
        | none => .ok
        | some (S, w, qb, cb, r) =>
          -- classification against the recorded findings, decided from the policy alone
          let rowless := knownRowless pol
          let musU := sortedSet pol.maximalUnqualified.flatten
          let key :=
            if scheme == "kw" && !rowless.isEmpty && mism.all (fun (S, _, qb, _, _) => qb == pol.isQualified S && S.any rowless.contains) then "oracle-holder-without-rows"
            else if scheme == "isn" && (match pol with | .cnf _ => false | _ => true) && musU != U
                && mism.all (fun (S, _, qb, _, _) => qb == pol.isQualified S && S.any fun id => !musU.contains id) then "isn-holder-dropped-oracle"
            else "oracle"
          .bad key ("scheme=" ++ scheme ++ " policy=" ++ tok ++ " subset=" ++ hexList S ++ " policy-meaning=" ++ toString w
            ++ " IsQualified=" ++ toString qb ++ " CanReconstruct=" ++ toString cb ++ " reconstruct=" ++ String.singleton r
            ++ " (" ++ toString mism.length ++ " of " ++ toString sets.length ++ " subsets disagree)")
    | _ => .unsupported "rhs"

/-- CNF policies with IDs above 64 (`mspbig`): since /repo 31f4236 `cnf.InducedMSP` orders the maximal
unqualified sets as descending member lists, so the programme exists and the model predicts it like
any other; a panic (the former finding) is never an admissible answer -/
def hMspBig (ps tok rhs : String) : Verdict :=
  if rhs.startsWith "panic" then .bad "cnf-id-gt64-panic" ("accepted by the constructor, then " ++ rhs)
  else hMsp ps tok rhs

/-- ISN with IDs above 64 (`isnbig`): share components are keyed by a 64-bit mask, the library
documents the limit and `isn.NewFiniteScheme` refuses with ErrArgument (since /repo 46a20fd);
mirrored.  A panic (the former finding) is never an admissible answer. -/
def hIsnBig (tok rhs : String) : Verdict :=
  if rhs.startsWith "panic" then .bad "isn-id-gt64-panic" ("accepted by the constructor, then " ++ rhs) else
  match parsePolicy? tok with
  | none => .unsupported "policy"
  | some pol =>
    if pol.shareholders.any (· > 64) then mirror "err:argument" rhs else mirror "ok" rhs

def handle (op : String) (args : List String) (rhs : String) : Verdict :=
  match op, args with
  | "new", [tok] => hNew tok rhs
  | "qual", [tok] => hQual tok rhs
  | "msp", [ps, tok] => hMsp ps tok rhs
  | "mspref", [ps, tok] => hMsp ps tok rhs
  | "accepts", [ps, tok, rs, cs, ms, hs] => hAccepts ps tok rs cs ms hs rhs
  | "recvec", [ps, rs, cs, ms, hs, ss] => hRecvec ps rs cs ms hs ss rhs
  | "deal", [ps, rs, cs, ms, hs, s] => hDeal ps rs cs ms hs s rhs
  | "recon", [ps, tok, rs, cs, ms, hs, col] => hRecon ps tok rs cs ms hs col rhs
  | "toadd", [ps, tok, rs, cs, ms, hs, col, qs] => hToAdd ps tok rs cs ms hs col qs rhs
  | "lin", [ps, tok, rs, cs, ms, hs, col, k] => hLin ps tok rs cs ms hs col k rhs
  | "qualx", [tok, ids] =>
    match parsePolicy? tok, parseNatList? ids with
    | some pol, some S => mirrorNoPanic (toString (pol.isQualified S)) rhs
    | _, _ => .unsupported "args"
  | "acceptsx", [ps, rs, cs, ms, hs, ids] => withField ps (.unsupported "p") fun q =>
    match parseMSP? (p := q) rs cs ms hs, parseNatList? ids with
    | some g, some S => mirrorNoPanic (toString (g.accepts (dedup S))) rhs
    | _, _ => .unsupported "args"
  | "shamir", [ps, tok, s] => hShamir ps tok s rhs
  | "shamiradd", [ps, tok, cf, qs] => hShamirAdd ps tok cf qs rhs
  | "additive", [ps, tok, s] => hAdditive ps tok s rhs
  | "isn", [ps, tok, s] => hIsn ps tok s rhs
  | "isnadd", [ps, tok, pcs, qs] => hIsnAdd ps tok pcs qs rhs
  | "tassa", [ps, tok, s] => hTassa ps tok s rhs
  | "tassaadd", [ps, tok, cf, qs] => hTassaAdd ps tok cf qs rhs
  | "oracle", [_, tok, scheme, _] => hOracle tok scheme rhs
  | "mspbig", [ps, tok] => hMspBig ps tok rhs
  | "isnbig", [_, tok] => hIsnBig tok rhs
  | _, _ => .unsupported ("C02 op " ++ op)

end BronVerif.Drive.C02
