import BronVerif.Drive.Common
/-! Driver handlers for C07. -/
namespace BronVerif.Drive.C07
open BronVerif BronVerif.Drive

def handle (op : String) (_args : List String) (_rhs : String) : Verdict :=
  .unsupported ("C07 op " ++ op)

end BronVerif.Drive.C07
